"""Property table: which Lean modules (theorems + ties) and which correspondence streams decide each property.
MANIFEST.json is generated from this table by tools/gen_manifest.py."""

ALLOWED_AXIOMS = {"propext", "Classical.choice", "Quot.sound"}

COMMON_ASSUME = [
    "theorems are about the hand-written Lean model; the model is tied to /repo by regenerated facts (Gonuts/Gen/Facts.lean, proved equal to the model's constants/tables/skeletons in Gonuts/Tie) and by the differential correspondence streams, whose reach is bounded by their generators",
]

PROPS = {
    "C08": {
        "claimed": True,
        "title": "Unlinkability: the mint never receives a blinding factor",
        "lean": ["Gonuts.Props.C08", "Gonuts.Tie.WalletWire"],
        "streams": ["wallet-wire"],
        "thorough_shards": {"wallet-wire": 4},
        "level": "proof",
        "technique": "Lean 4 theorems over a tagged-tree model of every request body a wallet builds (Model.WalletWire: leaves tagged public / number / point / DLEQ transcript / secret in clear / blinding factor; request builders mirroring the composite literals of wallet.go and restore.go and the JSON tags of cashu.go; every operation path with selection, split, token, mint answers and errors as universally quantified oracles); tied to /repo statically (Tie.WalletWire: JSON tags incl. omitempty and pointer types, the rendered field expressions of every request literal, call skeletons of every path, by rfl) and dynamically (stream wallet-wire: real wallets and real mints over an in-process transport; a model-free byte-level monitor searches every request for every blinding factor / DLEQ transcript / output secret the harness learned independently (storage proxy, own NUT-13 derivation from the mnemonic, values returned to the caller) in every encoding, and the shape of every request body is compared with the model's tagged tree through the Lean driver)",
        "design_ref": "DESIGN.md §4.5, §5 C08, §6 F5",
        "text": "PROVED (Gonuts/Props/C08.lean) on a tagged-tree model of every request body: for EVERY wallet state (stored and pending proofs with and without DLEQ, with and without r; unbounded lists), every operation path of the quantifier (RequestMint, MintTokens, Send with exact selection and through swapToSend, SendToPubkey / HTLCLockedProofs, Receive kept / swapped to the trusted mint / P2PK with and without SIG_ALL, ReceiveHTLC, Melt with NUT-08 blank outputs and a preceding state check, MintSwap, ReclaimUnspentProofs, RemoveSpentProofs, Restore, quote requests), every selection, split, token, every answer of the mint (signatures with and without DLEQ, wrong lengths, invalid signatures, states, errors) and every history of such operations: no request contains a leaf tagged blindingFactor, and a secret in clear occurs only at inputs[].secret and only as the secret of a proof that is an input of that very request (C08_no_secret_leaf, C08_no_secret_leaf_hist, C08_no_secret_leaf_unfolded); the mint's own DLEQ transcript (e, s), which identifies the blind signature just as well, never travels either (C08_no_dleq_transcript); the copies sent differ from the wallet's proofs in the DLEQ only (C08_only_dleq_removed). EXACT conditions show the fix is necessary at each site: a swap / melt request is secure iff none of the proofs passed as Inputs carries r, and transcript-free iff none has a DLEQ (C08_swap_exact, C08_melt_exact, C08_swap_transcript_exact). Blinding factors do leave the wallet in values for its CALLER: Send returns the stored proofs untouched (C08_send_returns_stored), a token built with includeDLEQ=true shows r of every proof that has one (C08_token_includes_r), with includeDLEQ=false none (C08_token_strips_r); NewTokenV4 likewise (examples). FOUND AND FIXED (F5, /repo e3b61b4): constructProofs stores DLEQ{E,S,R} on every proof, bbolt round-trips it, tokens deliver dleq{e,s,r}, and swap(), swapToSend, Melt and swapProofs put those proofs as they were into PostSwapRequest.Inputs / PostMeltBolt11Request.Inputs, whose JSON encoding emits `dleq` whenever the pointer is set: the mint received r (and its own e, s) of every proof spent. Reproduced first by the byte-level monitor at all four sites (findings/F5-*.json; also from wallets WITHOUT any stored DLEQ: Melt / MintSwap through swapToSend and the SIG_ALL swap-to-trusted spend proofs fresh from constructProofs), with the model stating the full property as a refuted def plus a partial theorem; after the fix the model follows the fixed code, the full statement is the theorem and the former witnesses are regression examples (Lean) and scripted regression histories (stream) that must still reach each site with DLEQ-carrying inputs. ReclaimUnspentProofs, MintTokens, RemoveSpentProofs and Restore were safe before the fix (inputs rebuilt without DLEQ / blinded messages / Ys / B_ only).",
        "note": "Unlinkability in the cryptographic sense (that B_ and C reveal nothing about each other) is C10's algebra plus the blinding assumption; C08 is the information-flow part: which values travel. Timing / network-level correlation (same connection, request order, amounts) is out of scope. MultiMintPayment (NUT-15) is not in the property's quantifier; it reuses Melt. The HTLC preimage and P2PK signatures travel inside `witness` by design (public to the mint once spent).",
        "assumptions": COMMON_ASSUME + [
            "a blinded message B_ = hash_to_curve(secret) + r*G is modelled as an opaque point leaf: that it hides secret and r is the blinding assumption of BDHKE (C10), not proved here",
            "public text (quote ids, keyset ids, invoices, NUT-20 public keys and signatures, P2PK/HTLC witnesses) is modelled as an opaque public leaf; the byte-level monitor searches it like everything else",
            "GET requests carry no body; their URLs (mint URL, quote id, keyset id) are searched by the monitor and are not part of the tree model",
        ],
    },
    "C18": {
        "claimed": True,
        "title": "Send hands over exactly the requested amount, fees included when asked",
        "lean": ["Gonuts.Props.C18", "Gonuts.Tie.Select", "Gonuts.Tie.Consts"],
        "streams": ["arith", "select"],
        "thorough_shards": {"arith": 1, "select": 2},
        "level": "proof",
        "technique": "Lean 4 theorems over an executable UInt64 model of the wallet's coin selection / fee / split code (Model.Select, Model.Amount; every multiset, amount, ppk and every tie-breaking of Go's unstable sort); the model is tied to /repo statically (Tie.Select: go/printer text of every mirrored function and the swapToSend amount statements, by rfl) and differentially (stream select: real selectProofsToSend / selectProofsForAmount / feesForProofs / feesForCount / splitWalletTarget / calculateBlankOutputs / AmountSplit through verif-tagged hooks vs the Lean driver, blind and by oracle replay of Go's tie-breaking) plus model-free monitors",
        "design_ref": "DESIGN.md §4.5, §5 C18, §6 K6",
        "text": "Pure part of C18. Proved for all inputs at uint64 semantics: AmountSplit sums to its input and is strictly ascending powers of two; feesForCount/feesForProofs/TransactionFees = ceil(sum ppk/1000) (wrap case stated); a successful selection is a sub-multiset of the holdings worth >= amount + fee(selected) (select_sound, no-wrap hypotheses explicit, wrap counterexample given); the offline path hands over exactly amount + fee(those proofs) (send_exact_offline); the swap path without fees hands over exactly amount (send_exact_swap_nofee); selectProofsToSend never refuses an amount that holdings minus the fee of spending every proof cover, through the wrapping remainingAmount subtraction, every ppk (send_succeeds_toSend), hence Send cannot fail for a wallet without inactive-keyset proofs (send_succeeds_no_inactive). FALSE on the code as it is, each with a decide-checked witness, a partial theorem under the exact extra hypothesis, and a replay against the real code on every run: send_exact_fee (K6: the fee estimate is itself split into popcount(fee) proofs) and send_succeeds with inactive-keyset proofs (inner selection error dropped together with every inactive proof; fee rounded up once per part).",
        "note": "The end-to-end clause (recipient nets the amount after redeeming at a real mint; proofs unspent, distinct, removed from the balance) is decided by the send stream / C17 wallet model, not here. calculateBlankOutputs is compared exactly only where its float evaluation is provably the integer function (x < 2^48 or float64(x) a power of two); above, Go's math.Log2 rounds down to the integer for x slightly above 2^k (k >= 49) and returns one less than ceil(log2 x) - irrelevant for real fee reserves.",
        "assumptions": COMMON_ASSUME + [
            "Go's sort.Slice is modelled as an arbitrary pair of functions returning a permutation of their input (it is a deterministic function of the sequence of amounts); theorems hold for all such functions; the driver uses a stable sort and, for replay, a sorter that breaks ties in the order Go picked",
            "uint/uint64 are 64-bit (amd64); math.Pow(2, i) is exact for i < 60",
            "no-wrap hypotheses of the N-valued statements: holdings + fee of spending them all < 2^64, sum of ppk + 999 < 2^64, amount + fees < 2^64 (the uint64-level statements need none)",
        ],
    },
    "C10": {
        "claimed": True,
        "title": "Blind signatures and DLEQ proofs are algebraically correct and tamper-evident",
        "lean": ["Gonuts.Props.C10"],
        "streams": ["bdhke"],
        "level": "proof",
        "technique": "Lean 4 theorems (Mathlib linear algebra) about blind/sign/unblind/verify/GenerateDLEQ/VerifyDLEQ/VerifyProofDLEQ "
                     "over an ABSTRACT module G over ZMod n (all primes n, all modules, arbitrary hash function) + a monitor stream that "
                     "re-checks every stated identity and every single-field rejection on the real /repo/crypto and nut12 functions over secp256k1",
        "design_ref": "DESIGN.md §4.2, §5 C10",
        "text": "PROVED (Gonuts/Props/C10.lean, for every prime n, every ZMod n-module G, every g, Y, scalars, every function hashE): "
                "unblind(sign(blind(Y,r),k),r,k•g) = k•Y, hence independent of r and accepted by verify; verify k' Y (k•Y) iff k'=k (Y≠0), "
                "verify k Y' (k•Y) iff Y'=Y (k≠0), any other point fails; for EVERY nonce the proof of GenerateDLEQ(a,B',a•B') is accepted by "
                "VerifyDLEQ under a•g, and with the wallet's r by VerifyProofDLEQ (re-blinding); special soundness: if C' ≠ a•B' (e.g. signed with "
                "another key a'≠a, B'≠0) then every commitment (R1,R2) admits at most one challenge e with a response, so an accepted forgery must "
                "have hit that one value with the hash; witness extraction (two openings of one commitment with e≠e' yield w with A=w•g and C'=w•B'); "
                "nut12.VerifyProofsDLEQ modelled with its key lookup by amount and optional DLEQ (honest lists pass; amount that is not a key, or r removed, fails; "
                "a STRIPPED DLEQ passes — NUT-12 makes it optional); tamper evidence as explicit reductions: if a transcript and the transcript with exactly one "
                "of s, A, B', C' (blind-signature DLEQ) or s, r, secret(Y), amount(A), C (proof DLEQ) changed are both accepted with the same e, then the "
                "two 4-tuples the verifier itself hashes are DISTINCT and COLLIDE under hashE — except in the exactly stated degenerate cases "
                "(B'/secret: s = 0; r: A = 0 ∧ s = 0), which are proved to be real (the verifier then ignores the field).",
        "note": "NOT proved: (1) that a change of e ALONE is rejected — algebra gives only the fixed-point characterisation dleq_tamper_e_iff "
                "(accept ↔ e = hashE(sG−eA, sB'−eC', A, C')) and that the changed e makes the verifier hash a different input; 'always rejected' is a "
                "random-oracle statement about SHA-256 and is covered by the differential/monitor stream only (what IS proved is its counting form, "
                "dleq_tamper_e_random_oracle: among all functions hashE that accept the original transcript exactly a 1/n fraction accepts the one with e replaced "
                "by a fixed e' — a statement about a uniformly random function, not about SHA-256); (2) infeasibility of finding hash collisions or "
                "unique-challenge hits (computational assumption on SHA-256, appears in no theorem); (3) corner not modelled: VerifyDLEQ compares "
                "the REDUCED scalar e with the RAW 32-byte SHA-256 output, so an honest proof whose hash is ≥ n (probability ≈ 2^-128) is rejected "
                "by the Go code; the model maps the hash into ZMod n. Encoding-level malleability of the e/s strings (upper-case hex, bytes after "
                "the 32nd) leaves the scalars unchanged and is recorded by the stream as information, not as tampering.",
        "assumptions": [
            "secp256k1 with its base point is a module over ZMod n (n its prime order) with g ≠ 0, HashToCurve never returns the identity, and the Go "
            "functions compute the model's blind/sign/unblind/verify/dleq in it: validated, not proved, by stream bdhke (every identity recomputed from "
            "library primitives and from a NUT-00/NUT-12 re-implementation; (n-1)G = -G checked)",
            "hashE is an arbitrary function G^4 → ZMod n (SHA-256 over the hex of the uncompressed points, reduced mod n); no property of it is assumed; "
            "the tamper theorems CONCLUDE an explicit collision",
            "mint keys are nonzero and pairwise distinct, public keys pairwise distinct (hypotheses of the wrong-key statements): checked dynamically on all "
            "180 keys of 3 generated keysets in every run",
            "GenerateDLEQ draws its nonce from crypto/rand (not controllable): 'all nonces' is proved in Lean; the stream samples it by repeated calls and "
            "additionally feeds the real verifiers with proofs made by a NUT-12 re-implementation of the prover at chosen edge nonces (1, 2, n-1, n-2, small, reduced)",
        ],
    },
}
