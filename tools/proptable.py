"""Property table: which Lean modules (theorems + ties) and which correspondence streams decide each property.
MANIFEST.json is generated from this table by tools/gen_manifest.py."""

ALLOWED_AXIOMS = {"propext", "Classical.choice", "Quot.sound"}

COMMON_ASSUME = [
    "theorems are about the hand-written Lean model; the model is tied to /repo by regenerated facts (Gonuts/Gen/Facts.lean, proved equal to the model's constants/tables/skeletons in Gonuts/Tie) and by the differential correspondence streams, whose reach is bounded by their generators",
]

PROPS = {
    "C18": {
        "claimed": True,
        "title": "Send hands over exactly the requested amount, fees included when asked",
        "lean": ["Gonuts.Props.C18", "Gonuts.Tie.Select", "Gonuts.Tie.Consts"],
        "streams": ["arith", "select"],
        "thorough_shards": {"arith": 1, "select": 2},
        "level": "proof",
        "technique": "Lean 4 theorems over an executable UInt64 model of the wallet's coin selection / fee / split code (Model.Select, Model.Amount; every multiset, amount, ppk and every tie-breaking of Go's unstable sort); the model is tied to /repo statically (Tie.Select: go/printer text of every mirrored function and the swapToSend amount statements, by rfl) and differentially (stream select: real selectProofsToSend / selectProofsForAmount / feesForProofs / feesForCount / splitWalletTarget / calculateBlankOutputs / AmountSplit through verif-tagged hooks vs the Lean driver, blind and by oracle replay of Go's tie-breaking) plus model-free monitors",
        "design_ref": "DESIGN.md §4.5, §5 C18, §6 K6",
        "text": "Pure part of C18. Proved for all inputs at uint64 semantics: AmountSplit sums to its input and is strictly ascending powers of two; feesForCount/feesForProofs/TransactionFees = ceil(sum ppk/1000) (wrap case stated); a successful selection is a sub-multiset of the holdings worth >= amount + fee(selected) (select_sound, no-wrap hypotheses explicit, wrap counterexample given); the offline path hands over exactly amount + fee(those proofs) (send_exact_offline); the swap path without fees hands over exactly amount (send_exact_swap_nofee); selectProofsToSend never refuses an amount that holdings minus the fee of spending every proof cover, through the wrapping remainingAmount subtraction, every ppk (send_succeeds_toSend), hence Send cannot fail for a wallet without inactive-keyset proofs (send_succeeds_no_inactive). FALSE on the code as it is, each with a decide-checked witness, a partial theorem under the exact extra hypothesis, and a replay against the real code on every run: send_exact_fee (K6: the fee estimate is itself split into popcount(fee) proofs) and send_succeeds with inactive-keyset proofs (inner selection error dropped together with every inactive proof; fee rounded up once per part).",
        "note": "The end-to-end clause (recipient nets the amount after redeeming at a real mint; proofs unspent, distinct, removed from the balance) is decided by the send stream / C17 wallet model, not here. calculateBlankOutputs is compared exactly only where its float evaluation is provably the integer function (x < 2^48 or float64(x) a power of two); above, Go's math.Log2 rounds down to the integer for x slightly above 2^k (k >= 49) and returns one less than ceil(log2 x) - irrelevant for real fee reserves.",
        "assumptions": COMMON_ASSUME + [
            "Go's sort.Slice is modelled as an arbitrary pair of functions returning a permutation of their input (it is a deterministic function of the sequence of amounts); theorems hold for all such functions; the driver uses a stable sort and, for replay, a sorter that breaks ties in the order Go picked",
            "uint/uint64 are 64-bit (amd64); math.Pow(2, i) is exact for i < 60",
            "no-wrap hypotheses of the N-valued statements: holdings + fee of spending them all < 2^64, sum of ppk + 999 < 2^64, amount + fees < 2^64 (the uint64-level statements need none)",
        ],
    },
}
