"""Property table: which Lean modules (theorems + ties) and which correspondence streams decide each property.
MANIFEST.json is generated from this table by tools/gen_manifest.py."""

ALLOWED_AXIOMS = {"propext", "Classical.choice", "Quot.sound"}

COMMON_ASSUME = [
    "theorems are about the hand-written Lean model; the model is tied to /repo by regenerated facts (Gonuts/Gen/Facts.lean, proved equal to the model's constants/tables/skeletons in Gonuts/Tie) and by the differential correspondence streams, whose reach is bounded by their generators",
]

PROPS = {
    "C17": {
        "claimed": True,
        "title": "Wallet balance is truthful and no value is lost against an honest mint",
        "lean": ["Gonuts.Props.C17", "Gonuts.Tie.WalletBooks"],
        "streams": ["wallet-hist", "wallet-smoke"],
        "thorough_shards": {"wallet-hist": 3, "wallet-smoke": 1},
        "level": "proof",
        "technique": "Lean 4 theorems over a small-step model of the wallet's bookkeeping (Model.WalletBooks: every wallet API call as a program with ONE effect per w.db.X / client.Y call in Go statement order, run against an abstract honest mint incl. its NUT-19 response cache; histories = induction over the op list; wallet crashes = Prog.runN); the model is tied to /repo statically (Tie.WalletBooks: the call skeleton of each of 19 programs, computed from the program itself, equals the skeleton the extractor reads off the Go function, by kernel evaluation) and differentially (stream wallet-hist: 2-3 REAL wallets on real bbolt against 1-2 REAL in-process mints with scripted Lightning; after every operation outcome, balances, amount multiset per keyset of both buckets, stored counters AND the exact sequence of storage/client calls are compared with the Lean driver) plus model-free monitors reading the mint's own tables",
        "design_ref": "DESIGN.md §4.5, §5 C17, §6 F12",
        "text": "see Gonuts/Props/C17.lean",
        "assumptions": COMMON_ASSUME,
    },
    "C19": {
        "claimed": True,
        "title": "Seed backup is complete: no counter is reused and restore recovers all funds",
        "lean": ["Gonuts.Props.C19", "Gonuts.Tie.WalletBooks"],
        "streams": ["wallet-hist", "wallet-crash"],
        "thorough_shards": {"wallet-hist": 3, "wallet-crash": 2},
        "level": "proof",
        "technique": "same model as C17; restore_counter / restore_complete as theorems about the pure control skeleton of Restore's batch loop (scan) with the program's batch proved equal to its specification by symbolic execution of its effects; stream wallet-crash kills the REAL wallet before every storage call (storage.WalletDB proxy via VerifWrapDB) and before/after every client call (in-process transport) of mint / send / receive / melt, reopens the directory, compares with the model's crash prefix (Prog.runN), restores the mnemonic into an empty directory and compares with the mint-side truth (NUT-13 outputs derived by the harness's own BIP32 code, states read from the mint's tables), continues and restores again; stream wallet-hist monitors every B_ submitted to /v1/mint, /v1/swap, /v1/melt at the transport",
        "design_ref": "DESIGN.md §4.5, §5 C19, §6 F10, F13",
        "text": "see Gonuts/Props/C19.lean",
        "assumptions": COMMON_ASSUME,
    },
    "C18": {
        "claimed": True,
        "title": "Send hands over exactly the requested amount, fees included when asked",
        "lean": ["Gonuts.Props.C18", "Gonuts.Tie.Select", "Gonuts.Tie.Consts"],
        "streams": ["arith", "select"],
        "thorough_shards": {"arith": 1, "select": 2},
        "level": "proof",
        "technique": "Lean 4 theorems over an executable UInt64 model of the wallet's coin selection / fee / split code (Model.Select, Model.Amount; every multiset, amount, ppk and every tie-breaking of Go's unstable sort); the model is tied to /repo statically (Tie.Select: go/printer text of every mirrored function and the swapToSend amount statements, by rfl) and differentially (stream select: real selectProofsToSend / selectProofsForAmount / feesForProofs / feesForCount / splitWalletTarget / calculateBlankOutputs / AmountSplit through verif-tagged hooks vs the Lean driver, blind and by oracle replay of Go's tie-breaking) plus model-free monitors",
        "design_ref": "DESIGN.md §4.5, §5 C18, §6 K6",
        "text": "Pure part of C18. Proved for all inputs at uint64 semantics: AmountSplit sums to its input and is strictly ascending powers of two; feesForCount/feesForProofs/TransactionFees = ceil(sum ppk/1000) (wrap case stated); a successful selection is a sub-multiset of the holdings worth >= amount + fee(selected) (select_sound, no-wrap hypotheses explicit, wrap counterexample given); the offline path hands over exactly amount + fee(those proofs) (send_exact_offline); the swap path without fees hands over exactly amount (send_exact_swap_nofee); selectProofsToSend never refuses an amount that holdings minus the fee of spending every proof cover, through the wrapping remainingAmount subtraction, every ppk (send_succeeds_toSend), hence Send cannot fail for a wallet without inactive-keyset proofs (send_succeeds_no_inactive). FALSE on the code as it is, each with a decide-checked witness, a partial theorem under the exact extra hypothesis, and a replay against the real code on every run: send_exact_fee (K6: the fee estimate is itself split into popcount(fee) proofs) and send_succeeds with inactive-keyset proofs (inner selection error dropped together with every inactive proof; fee rounded up once per part).",
        "note": "The end-to-end clause (recipient nets the amount after redeeming at a real mint; proofs unspent, distinct, removed from the balance) is decided by the send stream / C17 wallet model, not here. calculateBlankOutputs is compared exactly only where its float evaluation is provably the integer function (x < 2^48 or float64(x) a power of two); above, Go's math.Log2 rounds down to the integer for x slightly above 2^k (k >= 49) and returns one less than ceil(log2 x) - irrelevant for real fee reserves.",
        "assumptions": COMMON_ASSUME + [
            "Go's sort.Slice is modelled as an arbitrary pair of functions returning a permutation of their input (it is a deterministic function of the sequence of amounts); theorems hold for all such functions; the driver uses a stable sort and, for replay, a sorter that breaks ties in the order Go picked",
            "uint/uint64 are 64-bit (amd64); math.Pow(2, i) is exact for i < 60",
            "no-wrap hypotheses of the N-valued statements: holdings + fee of spending them all < 2^64, sum of ppk + 999 < 2^64, amount + fees < 2^64 (the uint64-level statements need none)",
        ],
    },
    "C10": {
        "claimed": True,
        "title": "Blind signatures and DLEQ proofs are algebraically correct and tamper-evident",
        "lean": ["Gonuts.Props.C10"],
        "streams": ["bdhke"],
        "level": "proof",
        "technique": "Lean 4 theorems (Mathlib linear algebra) about blind/sign/unblind/verify/GenerateDLEQ/VerifyDLEQ/VerifyProofDLEQ "
                     "over an ABSTRACT module G over ZMod n (all primes n, all modules, arbitrary hash function) + a monitor stream that "
                     "re-checks every stated identity and every single-field rejection on the real /repo/crypto and nut12 functions over secp256k1",
        "design_ref": "DESIGN.md §4.2, §5 C10",
        "text": "PROVED (Gonuts/Props/C10.lean, for every prime n, every ZMod n-module G, every g, Y, scalars, every function hashE): "
                "unblind(sign(blind(Y,r),k),r,k•g) = k•Y, hence independent of r and accepted by verify; verify k' Y (k•Y) iff k'=k (Y≠0), "
                "verify k Y' (k•Y) iff Y'=Y (k≠0), any other point fails; for EVERY nonce the proof of GenerateDLEQ(a,B',a•B') is accepted by "
                "VerifyDLEQ under a•g, and with the wallet's r by VerifyProofDLEQ (re-blinding); special soundness: if C' ≠ a•B' (e.g. signed with "
                "another key a'≠a, B'≠0) then every commitment (R1,R2) admits at most one challenge e with a response, so an accepted forgery must "
                "have hit that one value with the hash; witness extraction (two openings of one commitment with e≠e' yield w with A=w•g and C'=w•B'); "
                "nut12.VerifyProofsDLEQ modelled with its key lookup by amount and optional DLEQ (honest lists pass; amount that is not a key, or r removed, fails; "
                "a STRIPPED DLEQ passes — NUT-12 makes it optional); tamper evidence as explicit reductions: if a transcript and the transcript with exactly one "
                "of s, A, B', C' (blind-signature DLEQ) or s, r, secret(Y), amount(A), C (proof DLEQ) changed are both accepted with the same e, then the "
                "two 4-tuples the verifier itself hashes are DISTINCT and COLLIDE under hashE — except in the exactly stated degenerate cases "
                "(B'/secret: s = 0; r: A = 0 ∧ s = 0), which are proved to be real (the verifier then ignores the field).",
        "note": "NOT proved: (1) that a change of e ALONE is rejected — algebra gives only the fixed-point characterisation dleq_tamper_e_iff "
                "(accept ↔ e = hashE(sG−eA, sB'−eC', A, C')) and that the changed e makes the verifier hash a different input; 'always rejected' is a "
                "random-oracle statement about SHA-256 and is covered by the differential/monitor stream only (what IS proved is its counting form, "
                "dleq_tamper_e_random_oracle: among all functions hashE that accept the original transcript exactly a 1/n fraction accepts the one with e replaced "
                "by a fixed e' — a statement about a uniformly random function, not about SHA-256); (2) infeasibility of finding hash collisions or "
                "unique-challenge hits (computational assumption on SHA-256, appears in no theorem); (3) corner not modelled: VerifyDLEQ compares "
                "the REDUCED scalar e with the RAW 32-byte SHA-256 output, so an honest proof whose hash is ≥ n (probability ≈ 2^-128) is rejected "
                "by the Go code; the model maps the hash into ZMod n. Encoding-level malleability of the e/s strings (upper-case hex, bytes after "
                "the 32nd) leaves the scalars unchanged and is recorded by the stream as information, not as tampering.",
        "assumptions": [
            "secp256k1 with its base point is a module over ZMod n (n its prime order) with g ≠ 0, HashToCurve never returns the identity, and the Go "
            "functions compute the model's blind/sign/unblind/verify/dleq in it: validated, not proved, by stream bdhke (every identity recomputed from "
            "library primitives and from a NUT-00/NUT-12 re-implementation; (n-1)G = -G checked)",
            "hashE is an arbitrary function G^4 → ZMod n (SHA-256 over the hex of the uncompressed points, reduced mod n); no property of it is assumed; "
            "the tamper theorems CONCLUDE an explicit collision",
            "mint keys are nonzero and pairwise distinct, public keys pairwise distinct (hypotheses of the wrong-key statements): checked dynamically on all "
            "180 keys of 3 generated keysets in every run",
            "GenerateDLEQ draws its nonce from crypto/rand (not controllable): 'all nonces' is proved in Lean; the stream samples it by repeated calls and "
            "additionally feeds the real verifiers with proofs made by a NUT-12 re-implementation of the prover at chosen edge nonces (1, 2, n-1, n-2, small, reduced)",
        ],
    },
}
