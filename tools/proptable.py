"""Property table: which Lean modules (theorems + ties) and which correspondence streams decide each property.
MANIFEST.json is generated from this table by tools/gen_manifest.py."""

ALLOWED_AXIOMS = {"propext", "Classical.choice", "Quot.sound"}

COMMON_ASSUME = [
    "theorems are about the hand-written Lean model; the model is tied to /repo by regenerated facts (Gonuts/Gen/Facts.lean, proved equal to the model's constants/tables/skeletons in Gonuts/Tie) and by the differential correspondence streams, whose reach is bounded by their generators",
]

PROPS = {
    "C17": {
        "claimed": True,
        "title": "Wallet balance is truthful and no value is lost against an honest mint",
        "lean": ["Gonuts.Props.C17", "Gonuts.Tie.WalletBooks"],
        "streams": ["wallet-hist", "wallet-smoke"],
        "thorough_shards": {"wallet-hist": 3, "wallet-smoke": 1},
        "level": "proof",
        "technique": "Lean 4 theorems over a small-step model of the wallet's bookkeeping (Model.WalletBooks: every wallet API call as a program with ONE effect per w.db.X / client.Y call in Go statement order, run against an abstract honest mint incl. its NUT-19 response cache; histories = induction over the op list; wallet crashes = Prog.runN); the model is tied to /repo statically (Tie.WalletBooks: the call skeleton of each of 19 programs, computed from the program itself, equals the skeleton the extractor reads off the Go function, by kernel evaluation) and differentially (stream wallet-hist: 2-3 REAL wallets on real bbolt against 1-2 REAL in-process mints with scripted Lightning; after every operation outcome, balances, amount multiset per keyset of both buckets, stored counters AND the exact sequence of storage/client calls are compared with the Lean driver) plus model-free monitors reading the mint's own tables",
        "design_ref": "DESIGN.md §4.5, §5 C17, §6 F12",
        "text": "PROVED for every history, every selection function, and every crash prefix of every operation (invariants preserved by every single effect, lifted with EffInv.run / runN): each bucket of each wallet holds pairwise distinct secrets (W_distinct_buckets[_crash]); at every mint no output is signed twice, spent and melt-locked secrets are distinct and disjoint and each was signed by this mint with that amount (mint_books_ok[_crash]); GetBalance / PendingBalance are the sums of the buckets (W_balance_sum). FALSE on the code as it is, kernel-checked witness: W_conserve (F12: MintSwap whose melt is UNPAID leaves 32 of 64 sat in no bucket, unspent at the mint: W_conserve_full_false). The history-level forms of W_balance (spendable => UNSPENT), W_pending, cross-bucket W_distinct and W_conserve_partial are executable predicates of the model (wBalance, wPending, wDistinct, wConserve), evaluated by the driver (books.check) and decided on every operation of every stream history by the model-free monitors; they are NOT yet proved by induction over the op list.",
        "note": "not proved: the op-level invariants (need symbolic execution of each of the 12 programs; the run-equation infrastructure and one complete instance, restoreBatch, exist in Lemmas/WalletBooksRun, WalletBooksRestoreProg). Known findings reproduced on every run: F12, its SIG_ALL swap-to-trusted variant, and the Melt-retry loss found by searching the model.",
        "assumptions": COMMON_ASSUME,
    },
    "C19": {
        "claimed": True,
        "title": "Seed backup is complete: no counter is reused and restore recovers all funds",
        "lean": ["Gonuts.Props.C19", "Gonuts.Tie.WalletBooks"],
        "streams": ["wallet-hist", "wallet-crash"],
        "thorough_shards": {"wallet-hist": 3, "wallet-crash": 2},
        "level": "proof",
        "technique": "same model as C17; restore_counter / restore_complete as theorems about the pure control skeleton of Restore's batch loop (scan) with the program's batch proved equal to its specification by symbolic execution of its effects; stream wallet-crash kills the REAL wallet before every storage call (storage.WalletDB proxy via VerifWrapDB) and before/after every client call (in-process transport) of mint / send / receive / melt, reopens the directory, compares with the model's crash prefix (Prog.runN), restores the mnemonic into an empty directory and compares with the mint-side truth (NUT-13 outputs derived by the harness's own BIP32 code, states read from the mint's tables), continues and restores again; stream wallet-hist monitors every B_ submitted to /v1/mint, /v1/swap, /v1/melt at the transport",
        "design_ref": "DESIGN.md §4.5, §5 C19, §6 F10, F13",
        "text": "PROVED: restore_counter - for every predicate 'batch b has a signature' and every fuel the fixed batch loop leaves the stored counter past every non-empty batch it visited and at the end of a non-empty batch, i.e. past every signed counter seen and less than 100 past one; restore_complete_scan - if no three consecutive batches below a non-empty one are empty the loop reaches every non-empty batch; restore_batch_program - one batch of the restore PROGRAM (its storage/client effects) equals its specification, the increment being counter - savedCounter (tied to the Go argument text by Tie.args_IncrementKeysetCounter_Restore). FALSE, kernel-checked: the code before the fix (restore_counter_old_false: 3 non-empty batches -> 600); counter_discipline on the code as it is (F13: second SIG_ALL swap-to-trusted receive resubmits counters 0..5 of the foreign keyset; F15: stale in-memory counter written back on rotation: counter_discipline_full_false, F13_witness, F15_witness with cDisciplineActive still true).",
        "note": "not proved: counter_discipline_partial and restore_complete for whole histories (the batch loop is proved, the lifting through the three nested loops of Restore and through the other 11 programs is not); decided dynamically by wallet-hist (transport monitor of every B_, stored counter vs signed counters, Restore vs mint-side truth incl. >300 outputs, rotation, restore-continue-restore) and wallet-crash (every kill point).",
        "assumptions": COMMON_ASSUME,
    },
    "C08": {
        "claimed": True,
        "title": "Unlinkability: the mint never receives a blinding factor",
        "lean": ["Gonuts.Props.C08", "Gonuts.Tie.WalletWire"],
        "streams": ["wallet-wire"],
        "thorough_shards": {"wallet-wire": 4},
        "level": "proof",
        "technique": "Lean 4 theorems over a tagged-tree model of every request body a wallet builds (Model.WalletWire: leaves tagged public / number / point / DLEQ transcript / secret in clear / blinding factor; request builders mirroring the composite literals of wallet.go and restore.go and the JSON tags of cashu.go; every operation path with selection, split, token, mint answers and errors as universally quantified oracles); tied to /repo statically (Tie.WalletWire: JSON tags incl. omitempty and pointer types, the rendered field expressions of every request literal, call skeletons of every path, by rfl) and dynamically (stream wallet-wire: real wallets and real mints over an in-process transport; a model-free byte-level monitor searches every request for every blinding factor / DLEQ transcript / output secret the harness learned independently (storage proxy, own NUT-13 derivation from the mnemonic, values returned to the caller) in every encoding, and the shape of every request body is compared with the model's tagged tree through the Lean driver)",
        "design_ref": "DESIGN.md §4.5, §5 C08, §6 F5",
        "text": "PROVED (Gonuts/Props/C08.lean) on a tagged-tree model of every request body: for EVERY wallet state (stored and pending proofs with and without DLEQ, with and without r; unbounded lists), every operation path of the quantifier (RequestMint, MintTokens, Send with exact selection and through swapToSend, SendToPubkey / HTLCLockedProofs, Receive kept / swapped to the trusted mint / P2PK with and without SIG_ALL, ReceiveHTLC, Melt with NUT-08 blank outputs and a preceding state check, MintSwap, ReclaimUnspentProofs, RemoveSpentProofs, Restore, quote requests), every selection, split, token, every answer of the mint (signatures with and without DLEQ, wrong lengths, invalid signatures, states, errors) and every history of such operations: no request contains a leaf tagged blindingFactor, and a secret in clear occurs only at inputs[].secret and only as the secret of a proof that is an input of that very request (C08_no_secret_leaf, C08_no_secret_leaf_hist, C08_no_secret_leaf_unfolded); the mint's own DLEQ transcript (e, s), which identifies the blind signature just as well, never travels either (C08_no_dleq_transcript); the copies sent differ from the wallet's proofs in the DLEQ only (C08_only_dleq_removed). EXACT conditions show the fix is necessary at each site: a swap / melt request is secure iff none of the proofs passed as Inputs carries r, and transcript-free iff none has a DLEQ (C08_swap_exact, C08_melt_exact, C08_swap_transcript_exact). Blinding factors do leave the wallet in values for its CALLER: Send returns the stored proofs untouched (C08_send_returns_stored), a token built with includeDLEQ=true shows r of every proof that has one (C08_token_includes_r), with includeDLEQ=false none (C08_token_strips_r); NewTokenV4 likewise (examples). FOUND AND FIXED (F5, /repo e3b61b4): constructProofs stores DLEQ{E,S,R} on every proof, bbolt round-trips it, tokens deliver dleq{e,s,r}, and swap(), swapToSend, Melt and swapProofs put those proofs as they were into PostSwapRequest.Inputs / PostMeltBolt11Request.Inputs, whose JSON encoding emits `dleq` whenever the pointer is set: the mint received r (and its own e, s) of every proof spent. Reproduced first by the byte-level monitor at all four sites (findings/F5-*.json; also from wallets WITHOUT any stored DLEQ: Melt / MintSwap through swapToSend and the SIG_ALL swap-to-trusted spend proofs fresh from constructProofs), with the model stating the full property as a refuted def plus a partial theorem; after the fix the model follows the fixed code, the full statement is the theorem and the former witnesses are regression examples (Lean) and scripted regression histories (stream) that must still reach each site with DLEQ-carrying inputs. ReclaimUnspentProofs, MintTokens, RemoveSpentProofs and Restore were safe before the fix (inputs rebuilt without DLEQ / blinded messages / Ys / B_ only).",
        "note": "Unlinkability in the cryptographic sense (that B_ and C reveal nothing about each other) is C10's algebra plus the blinding assumption; C08 is the information-flow part: which values travel. Timing / network-level correlation (same connection, request order, amounts) is out of scope. MultiMintPayment (NUT-15) is not in the property's quantifier; it reuses Melt. The HTLC preimage and P2PK signatures travel inside `witness` by design (public to the mint once spent).",
        "assumptions": COMMON_ASSUME + [
            "a blinded message B_ = hash_to_curve(secret) + r*G is modelled as an opaque point leaf: that it hides secret and r is the blinding assumption of BDHKE (C10), not proved here",
            "public text (quote ids, keyset ids, invoices, NUT-20 public keys and signatures, P2PK/HTLC witnesses) is modelled as an opaque public leaf; the byte-level monitor searches it like everything else",
            "GET requests carry no body; their URLs (mint URL, quote id, keyset id) are searched by the monitor and are not part of the tree model",
        ],
    },
    "C18": {
        "claimed": True,
        "title": "Send hands over exactly the requested amount, fees included when asked",
        "lean": ["Gonuts.Props.C18", "Gonuts.Tie.Select", "Gonuts.Tie.Consts"],
        "streams": ["arith", "select", "wallet-hist"],
        "thorough_shards": {"arith": 1, "select": 2, "wallet-hist": 2},
        "level": "proof",
        "technique": "Lean 4 theorems over an executable UInt64 model of the wallet's coin selection / fee / split code (Model.Select, Model.Amount; every multiset, amount, ppk and every tie-breaking of Go's unstable sort); the model is tied to /repo statically (Tie.Select: go/printer text of every mirrored function and the swapToSend amount statements, by rfl) and differentially (stream select: real selectProofsToSend / selectProofsForAmount / feesForProofs / feesForCount / splitWalletTarget / calculateBlankOutputs / AmountSplit through verif-tagged hooks vs the Lean driver, blind and by oracle replay of Go's tie-breaking) plus model-free monitors",
        "design_ref": "DESIGN.md §4.5, §5 C18, §6 K6",
        "text": "Pure part of C18. Proved for all inputs at uint64 semantics: AmountSplit sums to its input and is strictly ascending powers of two; feesForCount/feesForProofs/TransactionFees = ceil(sum ppk/1000) (wrap case stated); a successful selection is a sub-multiset of the holdings worth >= amount + fee(selected) (select_sound, no-wrap hypotheses explicit, wrap counterexample given); the offline path hands over exactly amount + fee(those proofs) (send_exact_offline); the swap path without fees hands over exactly amount (send_exact_swap_nofee); selectProofsToSend never refuses an amount that holdings minus the fee of spending every proof cover, through the wrapping remainingAmount subtraction, every ppk (send_succeeds_toSend), hence Send cannot fail for a wallet without inactive-keyset proofs (send_succeeds_no_inactive). FALSE on the code as it is, each with a decide-checked witness, a partial theorem under the exact extra hypothesis, and a replay against the real code on every run: send_exact_fee (K6: the fee estimate is itself split into popcount(fee) proofs) and send_succeeds with inactive-keyset proofs (inner selection error dropped together with every inactive proof; fee rounded up once per part).",
        "note": "The end-to-end clause is checked on the real wallet against a real in-process mint by the model-free sendMonitor of stream wallet-hist (every successful Send of random histories at 0 / 100 / 1000 ppk, with and without includeFees, across rotations: the proofs handed over are worth exactly amount, resp. amount + the input fee the mint charges for those proofs); that the proofs are unspent, distinct and leave the balance is C17's monitors in the same stream. K6 shows there as C18/send-e2e/handed-over-below/fees=true/ppk>=1000 (known). calculateBlankOutputs is compared exactly only where its float evaluation is provably the integer function (x < 2^48 or float64(x) a power of two); above, Go's math.Log2 rounds down to the integer for x slightly above 2^k (k >= 49) and returns one less than ceil(log2 x) - irrelevant for real fee reserves.",
        "assumptions": COMMON_ASSUME + [
            "Go's sort.Slice is modelled as an arbitrary pair of functions returning a permutation of their input (it is a deterministic function of the sequence of amounts); theorems hold for all such functions; the driver uses a stable sort and, for replay, a sorter that breaks ties in the order Go picked",
            "uint/uint64 are 64-bit (amd64); math.Pow(2, i) is exact for i < 60",
            "no-wrap hypotheses of the N-valued statements: holdings + fee of spending them all < 2^64, sum of ppk + 999 < 2^64, amount + fees < 2^64 (the uint64-level statements need none)",
        ],
    },
    "C20": {
        "claimed": True,
        "title": "HTTP/JSON surface is a faithful, spec-shaped transport of the mint's decisions",
        "lean": ["Gonuts.Props.C20", "Gonuts.Tie.Wire"],
        "streams": ["wire"],
        "thorough_shards": {"wire": 3},
        "level": "proof",
        "technique": "Lean 4 theorems over Model.Wire — mint/server.go written as a pure function handleX : WSess -> Request -> WSess x Response x Info "
                     "(mux routing incl. 301/404/405/OPTIONS, {method} check, decodeJsonReqBody classes, the NUT-19 cache as an association list with the "
                     "code's Get/Set/DeleteExpired semantics, per-handler error mapping, writeErr, one JSON tree per response type) composed with "
                     "Model.Mint.applyOp; tied to /repo statically (Tie.Wire: route table, per-handler `cashuErr.Code ==` tests and writeErr arguments, decode "
                     "switch, go/printer text of Cache.Set/Get/DeleteExpired, writeErr, setupHeaders, Start, PublicKeys.MarshalJSON, cache key/TTL argument "
                     "expressions, JSON tags of every request/response struct, enum switch tables, error table, NUT-19 advertisement; by rfl/decide) and "
                     "differentially (stream wire: hand-built JSON text through MintServer's http.Handler in-process, generic parsing, request-by-request "
                     "comparison of status, ordered body tree, storage trace, Lightning calls and cache size with the Lean driver; the real mint.Cache object "
                     "against the model's cache functions incl. the 10000/10001 boundary) plus model-free monitors",
        "design_ref": "DESIGN.md §4.1 (last paragraph), §5 C20",
        "text": "PROVED for all sessions, requests, cache contents, clock values and strings: enum_roundtrip (nut04/05/07 String/StringToState tables of the source "
                "round-trip and yield the NUT strings; exception stated: a mint quote can show PENDING, which NUT-04 does not list); keys_sorted (key map ascending, "
                "strictly for distinct amounts, independent of Go's map iteration order); ok_iff_200 / body_of_outcome / ok_tree_shape / element_shapes (a request that "
                "reaches a handler and is not a cache hit is answered 200 iff applyOp succeeds, 400 iff it is refused; the body is the rendering of the handler's "
                "response struct with exactly the NUT field names, or of the error passed to writeErr); refused_iff_400 ({detail, code} with the mapped code whenever "
                "that code is not 0); code_of_cause (every error variable that expresses a cause of the NUT error table carries the table's code; the handlers pass "
                "non-internal errors through unchanged: mapErr_passthrough); internal_generic (codes 1/2 are replaced by ONE constant body independent of the internal "
                "message, per handler; meltTokens has its own constant for Lightning errors; swapRequest/meltQuoteRequest test only the DB code — latent, stated); "
                "no_collision (for all strings: keys of cached POSTs contain '/', `{id}` segments and ACTIVE_KEYSET do not); cache_hit_iff (served from the cache iff the "
                "map holds method++url++body; then the stored bytes, 200, mint session untouched, an expired entry served once more and dropped); cache_provenance + "
                "cache_exact (over every history from a fresh server: a NUT-19 entry exists only because an earlier request with the identical key was EXECUTED, answered "
                "200 on /v1/swap or /v1/mint/bolt11, and holds that response's bytes; hence hit iff such a request exists and its entry is retained); replay_identical (within TTL, over ANY intermediate history "
                "without restart: identical bytes, nothing executed); stored_entry (TTL 300 s, body < 2 MB, map size <= 10000 at that moment; the map can hold limit+1); "
                "beyond_retention_executes (key absent => the operation runs again on the current session: inputs spent / quote issued). "
                "FALSE on the code as it is, each with a decide-checked witness, the exact partial theorem, and a reproduction against the real handler on every run: "
                "internal_generic_full (a failing quote "
                "lookup is answered 'quote does not exist' 20009), code_of_cause_full (the same secret with another witness, or with a dleq object, is refused by the "
                "storage key: 10000 instead of 11007). "
                "REPAIRED in /repo and followed by the model: the {} body of a refusal (MintTokens' failing 'restore previous state' write, fix 1c07e11; "
                "refused_shape_full_false remains as a statement about the handler mapping only, latent) and the ambiguous cache key (fix 65f9524: NUL separators; "
                "cache_exact_full, cache_exact_triple and key_eq_iff are now theorems: equal keys iff identical (method, URL, body) for requests without NUL in "
                "method and URL); both former witnesses are regression examples in Props.C20 and regression cases in the stream's cause table.",
        "note": "Not modelled: /v1/ws (websocket upgrade), HTTP headers other than the request's Content-Type, percent-decoding of paths (the request carries the "
                "decoded segments and URL.String() side by side; the harness takes both from net/http), the detail TEXT of generated messages (classes: bad-json, "
                "invalid-type, bad-C-hex, …; literal for every constant of the source), concurrency (Cache.Get deletes under a read lock). The NUT error table in "
                "Spec/NutWire.lean was written from the NUT documents offline (error_codes.md as of NUT-20); codes the mint uses outside it are listed in "
                "codes_outside_table (11003, 10004; 20009 has another meaning in the table). The 30 s cleanup loop of MintServer.Start is modelled (tick) and its "
                "DeleteExpired half is exercised on the real Cache object; its ACTIVE_KEYSET invalidation runs only inside Start (a listening server) and is tied by source text only.",
        "assumptions": COMMON_ASSUME + [
            "a request is given as (method, decoded path segments, URL.String(), Content-Type, body bytes, outcome class of encoding/json on the body, symbolic content of a "
            "decodable body); net/http, net/url, gorilla/mux's regexp matching and encoding/json's scanner are not re-proved: the harness takes segments and URL from net/http "
            "and classifies bodies with encoding/json itself plus its own schema walker",
            "ReqWF: no segment of strings.Split(path, \"/\") contains '/', and URL.String() of a routed request contains '/' (monitored on every request)",
            "time is an integer number of nanoseconds that does not run backwards (timeForward) in the retention theorems; time.Now().After is strict",
            "symbolic values as in Model.Mint (ids, invoices, points, times are identities); the byte-identity claims are about the rendered symbolic text; real byte identity "
            "of replays is checked by the stream",
        ],
    },
    "C10": {
        "claimed": True,
        "title": "Blind signatures and DLEQ proofs are algebraically correct and tamper-evident",
        "lean": ["Gonuts.Props.C10", "Gonuts.Tie.Spec"],
        "streams": ["bdhke", "bdhke-spec", "mint-mon", "wallet-hist"],
        "quick_shards": {"mint-mon": 3},
        "level": "proof",
        "technique": "Lean 4 theorems (Mathlib linear algebra) about blind/sign/unblind/verify/GenerateDLEQ/VerifyDLEQ/VerifyProofDLEQ "
                     "over an ABSTRACT module G over ZMod n (all primes n, all modules, arbitrary hash function) + a monitor stream that "
                     "re-checks every stated identity and every single-field rejection on the real /repo/crypto and nut12 functions over secp256k1",
        "design_ref": "DESIGN.md §4.2, §5 C10",
        "text": "PROVED (Gonuts/Props/C10.lean, for every prime n, every ZMod n-module G, every g, Y, scalars, every function hashE): "
                "unblind(sign(blind(Y,r),k),r,k•g) = k•Y, hence independent of r and accepted by verify; verify k' Y (k•Y) iff k'=k (Y≠0), "
                "verify k Y' (k•Y) iff Y'=Y (k≠0), any other point fails; for EVERY nonce the proof of GenerateDLEQ(a,B',a•B') is accepted by "
                "VerifyDLEQ under a•g, and with the wallet's r by VerifyProofDLEQ (re-blinding); special soundness: if C' ≠ a•B' (e.g. signed with "
                "another key a'≠a, B'≠0) then every commitment (R1,R2) admits at most one challenge e with a response, so an accepted forgery must "
                "have hit that one value with the hash; witness extraction (two openings of one commitment with e≠e' yield w with A=w•g and C'=w•B'); "
                "nut12.VerifyProofsDLEQ modelled with its key lookup by amount and optional DLEQ (honest lists pass; amount that is not a key, or r removed, fails; "
                "a STRIPPED DLEQ passes — NUT-12 makes it optional); tamper evidence as explicit reductions: if a transcript and the transcript with exactly one "
                "of s, A, B', C' (blind-signature DLEQ) or s, r, secret(Y), amount(A), C (proof DLEQ) changed are both accepted with the same e, then the "
                "two 4-tuples the verifier itself hashes are DISTINCT and COLLIDE under hashE — except in the exactly stated degenerate cases "
                "(B'/secret: s = 0; r: A = 0 ∧ s = 0), which are proved to be real (the verifier then ignores the field).",
        "note": "NOT proved: (1) that a change of e ALONE is rejected — algebra gives only the fixed-point characterisation dleq_tamper_e_iff "
                "(accept ↔ e = hashE(sG−eA, sB'−eC', A, C')) and that the changed e makes the verifier hash a different input; 'always rejected' is a "
                "random-oracle statement about SHA-256 and is covered by the differential/monitor stream only (what IS proved is its counting form, "
                "dleq_tamper_e_random_oracle: among all functions hashE that accept the original transcript exactly a 1/n fraction accepts the one with e replaced "
                "by a fixed e' — a statement about a uniformly random function, not about SHA-256); (2) infeasibility of finding hash collisions or "
                "unique-challenge hits (computational assumption on SHA-256, appears in no theorem); (3) corner not modelled: VerifyDLEQ compares "
                "the REDUCED scalar e with the RAW 32-byte SHA-256 output, so an honest proof whose hash is ≥ n (probability ≈ 2^-128) is rejected "
                "by the Go code; the model maps the hash into ZMod n. Encoding-level malleability of the e/s strings (upper-case hex, bytes after "
                "the 32nd) leaves the scalars unchanged and is recorded by the stream as information, not as tampering.",
        "assumptions": [
            "secp256k1 with its base point is a module over ZMod n (n its prime order) with g ≠ 0, HashToCurve never returns the identity, and the Go "
            "functions compute the model's blind/sign/unblind/verify/dleq in it: validated, not proved, by stream bdhke (every identity recomputed from "
            "library primitives and from a NUT-00/NUT-12 re-implementation; (n-1)G = -G checked)",
            "hashE is an arbitrary function G^4 → ZMod n (SHA-256 over the hex of the uncompressed points, reduced mod n); no property of it is assumed; "
            "the tamper theorems CONCLUDE an explicit collision",
            "mint keys are nonzero and pairwise distinct, public keys pairwise distinct (hypotheses of the wrong-key statements): checked dynamically on all "
            "180 keys of 3 generated keysets in every run",
            "GenerateDLEQ draws its nonce from crypto/rand (not controllable): 'all nonces' is proved in Lean; the stream samples it by repeated calls and "
            "additionally feeds the real verifiers with proofs made by a NUT-12 re-implementation of the prover at chosen edge nonces (1, 2, n-1, n-2, small, reduced)",
        ],
    },
    "C12": {
        "claimed": True,
        "title": "P2PK locks: spendable only with the required signatures (NUT-11)",
        "lean": ["Gonuts.Props.C12", "Gonuts.Tie.Spend"],
        "streams": ["p2pk", "spendmint", "spendwallet", "nut10"],
        "level": "proof",
        "technique": "Lean 4 theorems over Model.Spend (line-by-line model of nut11.go and of the SIG_ALL code in mint.go; Schnorr validity, key parsing and the clock are parameters) against the declarative Spec.Spendable; pinned function bodies + skeleton ties; differential correspondence and a model-free NUT-11 evaluator on real btcec keys/signatures",
        "design_ref": "DESIGN.md §4.3, §5 C12",
        "text": "For ALL inputs (unbounded lists, any Schnorr-validity relation, key parser and clock value) the Lean model of the repaired code satisfies: HasValidSignatures accepts only if n signatures verify under n DISTINCT positions of the key list (sound; complete when a signature verifies under at most one listed key; exact for the refund threshold 1); VerifyP2PKLockedProof = ok implies — and under the same hypothesis is equivalent to — the declarative NUT-11 statement Spec.spendableP2PK (tag lookup 'last wins', well-formedness as ∀-clauses, threshold as ∃ of a sublist of signatures paired with a sub-permutation of keys, locktime/refund rule); malformed tag lists are rejected whatever the witness; a SIG_ALL input at ANY position makes ProofsSigAll true, a successful swap then has every input NUT-10 + SIG_ALL with one shared key list and threshold and every output signed by that many distinct key positions over its decoded B_, and the melt is refused; the witnesses written by AddSignatureToInputs/Outputs are accepted under the stated entitlement; the TEXT of the secret (nut10.DeserializeSecret decides whether a lock is enforced at all): for every text, JSON whitespace before and after it changes neither the value read nor the kind (secret_text_whitespace_insignificant, by induction over the character list through the scanner's states), and the kind is P2PK iff the first array element decodes to exactly that string (p2pk_kind_by_first_element). The model is tied to the source by pinned go/printer bodies of the 13 mirrored functions, constants, error table and call skeletons, and by the stream p2pk (exhaustive product of the quantifier x 20 witness shapes with real btcec keys/signatures, corner cases, seeded random, SIG_ALL input lists up to length 5 x output shapes, helpers) with a model-free NUT-11 evaluator (maximum bipartite matching instead of the greedy loop).",
        "note": 'Defects F6 (last key recounted) and F7 (ProofsSigAll false after a plain input) were reproduced by the monitors on the unchanged code (findings/F6.json, F7.json), repaired in /repo (b480424, e0978fe) and are re-run as regressions. Observations that are not violations of the property as stated: (1) distinctness is over key POSITIONS: a lock that lists one key twice, or a key and its negation (same BIP-340 x-only key), gives that signer two votes — both model and NUT evaluator follow the code here; for duplicate-free key lists the theorem hasValidSignatures_distinct_keys gives n different keys; (2) the SIG_ALL output check authorises every key of the `pubkeys` tag even when `n_sigs` is absent (nut11.PublicKeys), whereas the input check then authorises only the lock key; (3) IsSigAll looks for any tag equal to ["sigflag","SIG_ALL"] while ParseP2PKTags takes the last sigflag tag of length >= 2. Mint.Swap/MeltTokens are additionally run for real (stream spendmint: LoadMint on SQLite + the FakeBackend of the repository, proofs issued by the mint itself for NUT-10 secrets, the locked proof at every position) against Model.Spend.swapSpendCheck/meltSpendCheck and the SIG_ALL evaluator; run against a copy of the unrepaired code that stream reports F6 and F7 at the Mint level (swap with unsigned outputs and melt of [plain,…,SIG_ALL] accepted).',
        "assumptions": COMMON_ASSUME + [
            "signatures, keys and digests are symbolic ids; BIP-340 verification is the parameter `valid` (the streams instantiate it with real btcec signatures and cross-check the harness's by-construction table against btcec)",
            "the TEXT of a secret is inside the model (Model.Nut10Parse over Model.GoJson: JSON scanner, unquoting, Go's decoding into []RawMessage / string / SecretData incl. case-folded member names, duplicate members, nulls; pinned body of DeserializeSecret; stream nut10 compares it with nut10.DeserializeSecret on ~12,000 (thorough 160,000) valid spellings and malformed texts and checks every valid spelling against the value it was generated from); not modelled there: invalid UTF-8, the 10,000 nesting limit. The JSON decoding of WITNESSES is still outside the model (the harness decodes them with encoding/json)",
            "time.Now() cannot be controlled in the real code: locktimes in the streams lie 10^6 s in the past or future",
        ],
    },
    "C13": {
        "claimed": True,
        "title": "HTLC locks: spendable only with the preimage and required signatures (NUT-14)",
        "lean": ["Gonuts.Props.C13", "Gonuts.Tie.Spend"],
        "streams": ["htlc", "spendmint", "spendwallet", "nut10"],
        "level": "proof",
        "technique": "Lean 4 theorems over Model.Spend (line-by-line model of nut14.go and the HTLC branch of verifyBlindedMessages; SHA-256 of the preimage, Schnorr validity and the clock are parameters) against the declarative Spec.Spendable; pinned function bodies; differential correspondence and a model-free NUT-14 evaluator on real keys/signatures/preimages",
        "design_ref": "DESIGN.md §4.3, §5 C13",
        "text": 'For ALL inputs the Lean model of the repaired code satisfies: VerifyHTLCProof = ok implies — and, when a signature verifies under at most one listed key, is equivalent to — the declarative NUT-14 statement Spec.spendableHTLC (before the locktime: the hex-decoded preimage hashes to the 64-character lock value and, if n_sigs>0, n_sigs distinct positions of pubkeys signed with no repeated signature string; after it only the refund rule); a non-hex or wrong preimage and a lock value that is not 64 characters are rejections; with a SIG_ALL HTLC first input a successful swap has every output carrying the preimage and the signatures; the witnesses written by AddWitnessHTLC (inputs) and AddWitnessHTLCToOutputs (outputs) are accepted whenever the helper succeeds, the preimage is right and the key is listed; the lock cannot be switched off by the spelling of the secret: whitespace around ANY secret text changes neither the value nor the kind read by DeserializeSecret, and the kind is HTLC iff the first array element decodes to exactly that string (secret_text_whitespace_insignificant, htlc_kind_by_first_element; Model.Nut10Parse). Stream nut10 compares DeserializeSecret with the model and with the generating value on every spelling; stream spendmint presents non-canonical spellings of locked secrets to the real Mint.Swap / MeltTokens. Stream htlc: exhaustive product hash x n_sigs x pubkeys x locktime x refund x sigflag x (7 preimage + 14 signature shapes) with real signatures, SIG_ALL output shapes, helpers end to end, model-free NUT-14 evaluator.',
        "note": "Defect F8 (AddWitnessHTLCToOutputs signed the hex text of B_) and the HTLC face of F6 were reproduced on the unchanged code (findings/F8.json, F6-htlc.json), repaired (27d7371, b480424) and are re-run as regressions. Observations: an HTLC with a `pubkeys` tag but no `n_sigs` needs no signature (the code keys the signature check on n_sigs>0, as the property statement does); SIG_ALL + HTLC without pubkeys can never pass the output check (threshold 1 over an empty key list) — safe; the SIG_ALL consistency check compares key lists and thresholds but not the hash of different HTLC inputs (outputs are checked against the FIRST input's hash). wallet.ReceiveHTLC and wallet.Receive are executed end to end by stream spendwallet (two real wallets, real mint over in-process HTTP): on the unrepaired code that stream reports F8 as a failed ReceiveHTLC of a SIG_ALL HTLC token.",
        "assumptions": COMMON_ASSUME + [
            "signatures, keys, digests are symbolic ids; `valid` and `sha256hex` are parameters (instantiated with real btcec signatures and crypto/sha256 by the stream)",
            "the TEXT of a secret is inside the model (Model.Nut10Parse, see C12); the JSON decoding of witnesses is outside the model",
            "the wallet flows (stream spendwallet) are monitor-only: a fixed table of lock configurations with the outcome NUT-11/14 prescribe, not a model comparison",
        ],
    },
    "C11": {
        "claimed": True,
        "title": "Derivations match the Cashu spec: hash-to-curve, keyset id, NUT-13 secrets",
        "lean": ["Gonuts.Props.C11", "Gonuts.Tie.Spec"],
        "streams": ["deriv"],
        "level": "proof",
        "technique": "independent executable reference implementation in Lean 4 (Gonuts.Spec.*: SHA-256/512, HMAC, secp256k1, BIP32, "
                     "hash_to_curve, keyset id, NUT-13, mint keysets) written from FIPS 180-4 / RFC 2104 / SEC 1-2 / BIP32 / NUT-00/02/13; "
                     "Lean theorems about that specification; facts extracted from the Go glue proved equal to the constants the "
                     "specification uses; differential stream real Go vs compiled Lean reference vs a third math/big implementation",
        "design_ref": "DESIGN.md §5 C11, §4.6",
        "text": "Spec-side theorems are proved (what a returned hash_to_curve point satisfies and that the first lifting counter wins, "
                "counter = 4 bytes little endian and injective, keyset id invariant under every permutation of a key set with distinct "
                "amounts and of shape \"00\"+14 hex, NUT-13 indices never wrap and secret/blinding factor are children 0/1 of "
                "m/129372'/0'/id'/c', BIP32 index ranges and HMAC inputs, hash output lengths, 60 mint keys at m/0'/0'/idx'/j' with "
                "amount 2^j). 'Go = spec for every input' is NOT proved - the Go functions are calls into dcrec/secp256k1, "
                "btcutil/hdkeychain and crypto/sha256; that link is the static tie of the glue (Gonuts.Tie.Spec) plus the bit-for-bit "
                "differential stream 'deriv'. The property is therefore decided at PARTIAL strength.",
        "note": "strength: partial (for-all link Go = spec is correspondence, bounded by the generators of stream 'deriv'; "
                "spec-side well-definedness is proved)",
        "assumptions": COMMON_ASSUME + [
            "the reference implementation Gonuts.Spec.* is a faithful reading of FIPS 180-4, RFC 2104, SEC 1/2, BIP32 and NUT-00/02/13; "
            "it reproduces every published test vector of those documents at driver start-up (spec.selftest)",
            "the driver runs scalar multiplication through a Jacobian/windowed fast path that is cross-checked against the affine "
            "definition on edge and pseudo-random scalars at start-up and on random inputs in the stream, not proved equal to it",
            "hdkeychain.HardenedKeyStart = 2^31 and the behaviour of the btcec/hdkeychain/sha256 libraries are outside /repo and are "
            "covered only by the differential stream",
        ],
    },
    "C14": {
        "claimed": True,
        "title": "Tokens survive serialisation exactly; decoding arbitrary text never crashes",
        "lean": ["Gonuts.Props.C14", "Gonuts.Tie.Token"],
        "streams": ["token", "token-fuzz"],
        "level": "proof",
        "technique": "Lean 4 theorems over Model.Token (abstract syntax of cashu.Proof/TokenV3/TokenV4, NewTokenV3/V4 incl. the Go map grouping with the iteration order as a parameter, accessors, executable encoding/hex and encoding/base64 with proved decode(encode)=id, the byte-level string front end of DecodeToken with Go panics as explicit outcomes) + differential correspondence of every step with the real code + model-free round-trip and no-panic monitors",
        "design_ref": "DESIGN.md §5 C14, §4.4, §6 F9",
        "text": "Proved in Lean for ALL inputs of the model (unbounded proof lists, every String, every UInt64): v3_roundtrip (NewTokenV3 -> Serialize -> DecodeToken gives back mint, unit, and exactly the proofs in order, DLEQ complete iff requested), v4_roundtrip (lower-case hex ids/C/DLEQ, r non-empty: NewTokenV4 succeeds and the decoded proofs are exactly the input proofs, keyset by keyset in the map-iteration order, a permutation of the input with the order inside each keyset preserved; every field equal) and v4_roundtrip_anycase (any accepted input: hex fields come back as EncodeToString(DecodeString x), i.e. A-F lowered), newV4_rejects/accepts/first_error (what NewTokenV4 refuses and with which error), amount_eq_sum (both formats, wrapping identically), decode_total / decode_total_bytes (for EVERY string / byte sequence and EVERY behaviour of the JSON/CBOR libraries DecodeToken returns an error or a token on which Mint and Serialize do not panic; Proofs and Amount are total). wire_lossless / wire_injective / v3_roundtrip_closed / v4_roundtrip_closed: json.Marshal(TokenV3) and cbor.Marshal(TokenV4) are modelled as executable Lean functions (Model.TokenWire: struct tags and omitempty tied to the source, Go's JSON escaping, CBOR definite-length maps), a parser for exactly that canonical form is proved to read every token back (all strings, all amounts; CBOR lengths < 2^64), so the encodings are injective and the round trips hold with no hypothesis about the libraries for the codec made of these functions. encoding/hex and encoding/base64 are executable Lean functions with decode(encode b)=b proved; the byte-level string front end (tokenstr[:6] on bytes, prefix compare, URL then RawURL base64 with Go's error offsets and skipped CR/LF) is modelled exactly.",
        "note": "The real decoders encoding/json and fxamacker/cbor are NOT modelled in general (abstract Codec): the general round-trip theorems assume Unmarshal(Marshal t)=t for the token at hand; the closed theorems use the modelled marshallers (compared byte for byte with the real Serialize on every generated token) and canonical parsers (compared with the real Unmarshal: the parser reads every real payload back to the token the real decoder yields, and on ~4k fuzzed payloads per quick run that it accepts the real decoder returns the identical token). What remains an assumption is that the real Unmarshal agrees with the canonical parser on Marshal output beyond the generated tokens; that the libraries do not panic on hostile payloads is fuzzed (type-directed wrong-shaped JSON/CBOR, truncations, mutations), not proved. V4 does not preserve upper-case hex literally and the group order is unspecified (Go map iteration): both are part of the theorem statements. Defect F9 (panic on inputs < 6 bytes; Mint() panic on a decoded V3 token without entries) was found by these streams on the unchanged code, proved as decode_total_old_false / decodeOld_panic_iff, and fixed in /repo by fix: commit 10453c5; the model, the ties (conds_V3/V4 mention the length check) and the regression family F9-regression follow the fixed code.",
        "assumptions": COMMON_ASSUME + [
            "encoding/json and fxamacker/cbor are abstract functions (Codec) in the model: decode_total holds for EVERY codec (whatever the libraries return, the token code does not panic; that the libraries themselves do not panic is fuzzed, not proved); the round-trip theorems assume dec(enc t)=some t for the token at hand, which the stream checks on every generated token with the real libraries",
            "proof fields are Lean Strings (valid Unicode); Go strings that are not valid UTF-8 are outside the property's domain (the stream records what happens to them: JSON replaces the bytes, CBOR refuses to decode)",
        ],
    },
}

MINT_ASSUME = COMMON_ASSUME + [
    "cryptography is symbolic in Model.Mint: a proof's C is the term sig(keyset,amount,secret) exactly when it equals k_{keyset,amount}·hash_to_curve(secret); soundness of that view under the joint injectivity hypothesis SigInjective is Props.C04.C04_symbolic_sound; unforgeability itself is a cryptographic assumption, not a theorem",
    "SQLite semantics encoded in MintEff.execDb (PRIMARY KEY / UNIQUE violations fail the statement and roll the transaction back, UPDATE of a missing row is an error, uint64 >= 2^63 rejected by database/sql, SUM overflow) are modelled, tied to the SQL text by Tie.Mint.sqlText / migrations, and validated against the real SQLite by stream mint-seq",
    "the Lightning backend is an oracle: every theorem holds for every script of answers",
    "sequential theorems are about non-overlapping requests without storage faults (NoFault); the effect-level theorems (spent_forever_*, spent_once_effect, …) hold for every interleaving, crash prefix and fault",
]

MINT_NOTE = ("Trusted: Lean kernel; the hand-written model Model.Mint (programs written statement by statement after mint/mint.go as of the fix: commits "
             "F1,F2,F3,F4,F11,F14,F15), tied to /repo by Tie.Mint (call skeletons of 19 functions, SQL text, schema, error rows, payment-call argument "
             "expressions) and by the differential stream mint-seq (outcome + storage-call trace + Lightning-call ledger of every operation compared "
             "with the real mint on real SQLite and real secp256k1); model-free monitors in streams mint-seq / mint-mon check the property itself on the "
             "implementation. NOT covered by the model: data races below storage-call granularity, SQLite durability, real LND/CLN behaviour.")

PROPS["C01"] = {
    "claimed": True,
    "title": "No double spend: an ecash proof is redeemed at most once, ever",
    "lean": ["Gonuts.Props.C01", "Gonuts.Tie.Mint"],
    "streams": ["mint-seq", "mint-mon", "mint-sched"],
    "thorough_shards": {"mint-seq": 4, "mint-mon": 4, "mint-sched": 8},
    "quick_shards": {"mint-sched": 5, "mint-seq": 2, "mint-mon": 3},
    "level": "proof",
    "technique": "Lean 4 invariants over an executable small-step model of the mint (effect-level for all schedules/crashes/faults; by induction over sequential histories) + differential correspondence and model-free double-spend monitors against the real mint",
    "design_ref": "DESIGN.md §4.1, §5 C01",
    "text": "PROVED for the model: (all programs, all interleavings, crash prefixes, injected storage faults) a row of the spent table is never removed or altered and the table never holds two rows for one secret (spent_forever_effect/_crash/_history, spent_once_effect); a spent secret is reported SPENT with its witness (spent_reported). (Sequential fault-free histories, by induction over the op list) swap and melt refuse a request as soon as one input secret is spent or locked by an in-flight melt, whatever its other fields and position, and then change no table (swap_rejects_used, melt_rejects_used); an accepted swap took pairwise distinct, previously unused secrets and all of them are spent afterwards (swap_ok_consumes); once consumed a secret is refused after ANY later history incl. rotations/restarts (consumed_rejected_forever); no secret is both locked and spent (locked_not_spent). (Every event sequence of arrivals, single-call scheduler steps, injected storage errors and process kills — Model/MintConc.lean, no bound on threads or steps) spent rows persist, the spent and pending tables never hold a secret twice, and a request arriving afterwards with a spent secret is refused (spent_forever_schedule, spent_once_schedule, locked_once_schedule, used_refused_after_anything). Any number of OVERLAPPING SWAPS never share a secret: in every event sequence (any threads of any kind, every schedule, faults, kills) two different swap threads that both returned signatures presented disjoint secrets (overlapping_swaps_never_share; Lemmas/SwapConc.lean: the swap program reaches success only through a SaveProofs(inputs) call that returned ok, which succeeds only on secrets absent from the never-shrinking spent table). The request-level concurrent half for ALL request kinds (of two OVERLAPPING requests at most one is accepted) is FALSE of the code once a melt is involved: schedules_full_false with kernel-checked witnesses w1 (swap||melt) and w2 (melt||melt), reproduced against the real mint by stream mint-sched and recorded as known findings C01/sched/*.",
    "note": MINT_NOTE + " Stream mint-sched runs two/three real requests as scheduled goroutines over one real mint (Gate in the storage proxy and the scripted backend: one storage/Lightning call per step; quick: every schedule with <= 1 preemption per scenario + random ones, thorough: <= 3 preemptions (2 for three threads)), the Lean model executes the same schedule step by step (labels, outcomes, later tables compared), and a model-free monitor counts the operations that accepted each contested secret. Scenario-level signatures: a double acceptance in a scenario not listed in known_findings.json is a VIOLATION.",
    "assumptions": MINT_ASSUME,
}

def mint_prop(pid, title, lean, text, extra_note="", streams=("mint-seq", "mint-mon"), design="DESIGN.md §4.1, §5 ", shards=None, qshards=None):
    PROPS[pid] = {
        "claimed": True,
        "title": title,
        "lean": lean + ["Gonuts.Tie.Mint"],
        "streams": list(streams),
        "thorough_shards": dict({"mint-seq": 4, "mint-mon": 4}, **(shards or {})),
        "quick_shards": dict({"mint-seq": 2, "mint-mon": 3}, **(qshards or {})),
        "level": "proof",
        "technique": "Lean 4 theorems over an executable small-step model of the mint (refinement of each operation to closed case tables, invariants by induction over sequential histories, effect-level invariants for all schedules/crashes/faults) + differential correspondence and model-free property monitors against the real mint",
        "design_ref": design + pid,
        "text": text,
        "note": MINT_NOTE + (" " + extra_note if extra_note else ""),
        "assumptions": MINT_ASSUME,
    }

mint_prop("C02", "No inflation: outstanding ecash plus Lightning outflow never exceeds inflow", ["Gonuts.Props.C02", "Gonuts.Props.C02Ledger", "Gonuts.Tie.LnClients"],
    "PROVED for the model, for every input (UInt64 semantics incl. Go's unchecked wrap-around), every fee configuration and every Lightning script: swap outputs + input fee <= inputs in N with NO size hypothesis (swap_out_le_in_minus_fee: the unchecked input sum can only wrap down); signatures are for exactly the requested output amounts on the active keyset (signatures_match_outputs); mint outputs <= quote amount and the quote was PAID (mint_out_le_quote); an accepted melt holds >= amount + fee reserve + input fees (melt_burns_amount_reserve_fees); a melt makes at most one payment attempt, for the quote's invoice and msat amount, with the quote's FEE RESERVE as fee limit (fee_limit_eq_reserve, F1); 1000*quoted amount >= msat to be paid, full and MPP (meltquote_covers_msat, F2); fee = ceil(sum ppk/1000) per input keyset (C09.fees_per_keyset, C18.transactionFees_eq_ceil).",
    "The history-level statement IS a theorem (Props.C02Ledger.ledger / no_inflation / pending_melts_covered, by induction over the unbounded op list with the potential Led of Lemmas/MintLedger.lean): in every state reached from a fresh mint by any sequential fault-free history of admissible operations, 1000*(signed + credit) + paidOut <= 1000*(received + redeemed) and every PENDING melt is covered by the inputs locked under it; admissible excludes only watcher notifications for unsettled invoices, melts whose amount+reserve+fees wraps in 64 bits, and internal settlement against a LARGER mint quote (only constructible with the scripted backend's stand-in invoices >= 2^40 sat). Outside the theorem: overlapping requests and storage faults (known findings C01/C03/C07 - a double spend is inflation) and the step from the model's paidOut bound to actual outflow (C05 + fee_limit_eq_reserve + meltquote_covers_msat). The model-free ledger monitor (msat arithmetic, backend charging the whole fee limit) evaluates the same inequality on the real mint after every operation of mint-seq / mint-mon.")
mint_prop("C03", "A mint quote is issued at most once per payment, never before it is paid", ["Gonuts.Props.C03", "Gonuts.Tie.LnClients"],
    "PROVED for the model (mint after F11), sequential histories: issuance only on a quote that is PAID or UNPAID-with-settled-invoice (never_before_paid); for at most the quoted amount (amount_le_quote); for a NUT-20 locked quote only with a signature by that key over exactly (quote id, the submitted B_ in order) — no/garbage signature, other key, other quote, reordered/added/removed outputs refused (quoteSigOk_iff, nut20_required); after success the quote is ISSUED (issued_after_success), an ISSUED quote refuses with 20002 without any change or backend call (issued_refuses), and it stays ISSUED through any list of further mint requests, polls with any answer, watcher notifications, new quotes and swaps (issued_stays_issued, at_most_once; induction over the unbounded event list); the watcher writes PAID only over UNPAID (watcher_cases). (Every event sequence of arrivals, single-call scheduler steps, faults and kills) a blinded message is signed at most once, stored signatures and quote terms are never lost (signed_once_schedule, signature_kept_schedule, quote_terms_fixed_schedule). The concurrent half (however requests, polls and the notification interleave) is FALSE of the code: schedules_full_false with kernel-checked witnesses w3 (mint||mint: 16 issued for 8 paid) and w3n (watcher read->write window left by F11), reproduced against the real mint by stream mint-sched, known findings C03/sched/*.",
    "Stream mint-sched: mint||mint (valid and invalid second request), mint||watcher notification, mint||poll||notification, internal melt||mint as scheduled goroutines over the real mint, model stepped in lockstep; the issuance-count monitor is evaluated when all threads have returned and after one more sequential mint request.",
    streams=("mint-seq", "mint-mon", "mint-sched"), shards={"mint-sched": 8}, qshards={"mint-sched": 5})
mint_prop("C04", "Only genuine mint signatures are honoured, at exactly their signed amount", ["Gonuts.Props.C04", "Gonuts.Props.C04Mint"],
    "PROVED: (algebra, Props.C04, all primes n, all ZMod n-modules) the gate accepts iff C = key(id,amount)·H(secret) with the stated side conditions; every single-field mutation (amount, id, secret, C) of a genuine proof is rejected under key-injectivity / H-injectivity hypotheses; honest unblinded signatures are accepted; the symbolic view used by Model.Mint is sound under SigInjective (C04_symbolic_sound, with the counterexample not_jointly_injective showing the joint hypothesis is needed). (protocol, Props.C04Mint) gate_iff for the model's verifyProofs loop body in source order; swap and melt only accept inputs that pass it (swap_inputs_genuine, melt_inputs_genuine); mutation_amount/_keyset/_secret/_C, too_long_rejected, honest_accepted.",
    "Unforgeability (no genuine term without a blind signature) is a cryptographic assumption. Stream bdhke checks the gate's accept/reject on real secp256k1 for every single-field mutation.",
    streams=("mint-seq", "mint-mon", "bdhke"))
mint_prop("C05", "Melt inputs follow the Lightning outcome: spent iff paid, released iff failed", ["Gonuts.Props.C05", "Gonuts.Tie.LnClients"],
    "PROVED for the model, every melt that passed validation, every pay answer a0, every status answer a1 and every LIST of later poll answers (no length bound): the final quote state is the closed table meltOutcome a0 a1 / pollOutcome a (melt_table, poll_table: PAID iff a definitive success, UNPAID iff a definitive failure or not-found on the in-melt check, PENDING on every ambiguous answer); the inputs are SPENT with the preimage (paid), still LOCKED (pending) or RELEASED (unpaid), nothing else (melt_follows_outcome, tail_inputs, melt_internal); a poll adopts succ/failed in the same call and changes nothing otherwise (poll_follows_outcome, poll_inputs); the verdict after any list of polls is decided by the first definitive answer (resolve_first_definitive, resolve_all_ambiguous, resolve_final).")
mint_prop("C06", "Rejected or malformed requests change nothing and never crash a handler", ["Gonuts.Props.C06"],
    "PROVED for the model, every request content: a refused swap leaves tables and Lightning state untouched (swap_reject_noop); a refused melt likewise, except the failed backend lookup of an internal settlement after which spent is unchanged and no input is locked (melt_reject_noop, F15); a refused MintTokens leaves the tables exactly as its leading quote-state check left them — which changes at most that quote UNPAID->PAID when the invoice is settled (mint_reject_noop with quote ids unique in every reachable state: mintQ_nodup_db; quoteState_only_unpaid_to_paid; F4); refused mint-/melt-quote requests and restores write nothing.",
    "No-panic is NOT a theorem: the model has no panic outcome after F3; panics of the Go are caught by the recover()-based monitors of mint-seq / mint-mon and of stream wire-malformed (about 5,300 structurally and byte-level mutated HTTP requests per run over 5 mint states: no panic, no state change on refusal, predicted decode class and detail text). Stream mint-crash (fault mode) applies the statement literally to requests that fail because a STORAGE call fails at each position: 29 such positions leave earlier writes in place on the unchanged tree (known findings C06/fault/*, the same defects as C07's); any other position is a VIOLATION.",
    streams=("mint-seq", "mint-mon", "wire-malformed", "mint-crash"), shards={"mint-crash": 4}, qshards={"mint-crash": 3})
mint_prop("C07", "Mint crash consistency: a crash at any point never inflates or strands value", ["Gonuts.Props.C07", "Gonuts.Props.C01"],
    "PROVED for the model, for EVERY event sequence (any operation, any interruption point, any number of kills, injected storage errors and requests in flight, any inputs): durability — a SPENT row, a stored signature, a keyset's index and fee, a quote's terms are never lost (durable_spent, durable_signature, durable_keyset, durable_mint_quote, durable_melt_quote); a kill changes no table and the restarted cache is a function of storage (kill_keeps_tables, restart_cache_from_storage); the unique keys of the spent/pending/signature tables hold at every point (unique_keys_always); a spent secret is refused by every later request (spent_refused_after_restart); atomicity of swap EXACTLY, for every request, world, interruption point and armed fault: a killed or faulted swap leaves one of three states — nothing, the inputs spent, the inputs spent and the signatures stored — and never a stored signature without spent inputs (swap_interrupted_states, swap_never_signs_without_spending; Lemmas/SwapCrash.lean: syntactic shape of the program + semantics of its two writes); the same for MintTokens: a killed or faulted MintTokens leaves nothing, or only the STATE of one mint quote changed, or that quote ISSUED and the signatures stored — never a stored signature unless the quote is ISSUED in the same tables, never a change to another table (mint_interrupted_states, mint_never_signs_unless_issued, mint_touches_only_quote_and_signatures; Lemmas/WriteShape.lean: a Hoare logic over the writes of a program against a write automaton, Lemmas/MintCrash.lean: the automaton of MintTokens, its soundness for the storage semantics, the walk over the program's binds). FALSE of the code, with kernel-checked witnesses: atomicity (swap_atomic_full_false: killed between SaveProofs and SaveBlindSignatures the inputs are SPENT and nothing is restorable, swap_stranded_for_good; mint_atomic_full_false), safety (melt_safety_full_false: killed between RemovePendingProofs and SaveProofs the invoice is paid and the inputs spendable), start-up (rotate_restart_full_false: no active keyset, LoadMint panics). The complete interruption tables of the canonical swap/mint/melt/rotation (swap_table, mint_table, melt_table, rotate_table) are decide-checked TESTS of the model, compared point by point with the real mint by stream mint-crash.",
    "Stream mint-crash: every listed operation x every interruption point k x {kill+restart, storage error at call k then restart} against the real mint on real SQLite (goroutine parked for ever at the Gate = process kill; LoadMint on the same directory), followed by state check, poll, retry, restore and re-spend; the model executes the same prefix, kill and follow-up; verdicts (unsafe / lost / stranded / ok) are computed model-free from storage and the backend's ledger. 52 interruption points violate the property on the unchanged tree (known findings C07/crash/*, C07/fault/*, one signature per (mode, operation, call, verdict)); any other point, or another verdict at a listed point, is a VIOLATION. The model's kill drops continuations between calls; torn writes inside one SQLite transaction and fsync behaviour are NOT modelled (SQLite's own atomicity is trusted).",
    streams=("mint-crash", "mint-sched"), shards={"mint-sched": 8, "mint-crash": 4}, qshards={"mint-sched": 5, "mint-crash": 3})
mint_prop("C09", "Keyset lifecycle: deterministic keys, one active keyset, old ecash stays valid", ["Gonuts.Props.C09"],
    "PROVED for the model (keyset = derivation index): stored rows keep index and fee through every effect/history (keyset_row_stable*); a successful rotation deactivates the old keyset, appends index+1 with the requested fee and leaves exactly one active keyset (rotate_ok, rotate_one_active); signatures only on the active keyset, unknown id -> 12001, inactive -> 12002 (sign_only_active); genuine proofs of every held keyset pass the gate (old_keysets_accepted) and are charged their own keyset's fee (fees_per_keyset, memFee_known); a restart rebuilds the cache from the stored rows (restart_cache).",
    "That keyset id and the 60 keys are the NUT-02 function of (seed, index) is checked bit for bit against the Lean reference Spec.MintKeys by stream deriv (C11); the C09 monitors in mint-seq/mint-mon observe ids, keys, fees and the active flag across rotations and restarts of the real mint.",
    streams=("mint-seq", "mint-mon", "deriv"))
mint_prop("C15", "State check and restore tell the truth about everything the mint ever did", ["Gonuts.Props.C15"],
    "PROVED for the model: the state-check answer has the request's length and order and entry i is stateOf over the WHOLE tables after re-polling (checkstate_truth, stateOf_meaning: SPENT with stored witness iff in spent, else PENDING iff locked, else UNSPENT incl. every unknown/malformed Y); restore returns exactly the requested messages that were signed, in order, with the stored signature, and writes nothing (restore_truth, restore_only_signed, restore_all_signed); every issuance path stores what it returns and every spend path stores its inputs (swap_stores, mint_stores; melt paths in C05); stored signatures and spent rows are never altered by any effect of any program (signature_forever*, C01.spent_forever_*).",
    "Stream mint-crash (storage error injected at every call of swap / mint, then restart) adds: signatures a request RETURNED are restorable afterwards.",
    streams=("mint-seq", "mint-mon", "mint-crash"), shards={"mint-crash": 4}, qshards={"mint-crash": 3})
mint_prop("C16", "Reported balances are exact and configured limits are enforced", ["Gonuts.Props.C16"],
    "PROVED for the model: the per-keyset views are exact sums over ALL stored signatures / spent proofs, one row per keyset with rows, failing iff a sum reaches 2^63 (groupSum_exact); the balance query reports those, their UInt64 difference, and nut04.disabled iff MaxBalance>0 and balance>=MaxBalance (balance_report); a mint quote is created only if amount<=MaxAmount (when set) and balance+amount<=MaxBalance in the Go's uint64 arithmetic, with amount<2^63 so that the comparison is exact in N (mintquote_accept_only_if, balance_limit_exact); a melt quote only within the melt maximum (meltquote_accept_only_if).",
    "Non-negativity of the balance follows from the ledger theorem (Props.C02Ledger.no_inflation / nothing_from_nothing) for sequential fault-free histories.")
