"""Property table: which Lean modules (theorems + ties) and which correspondence streams decide each property.
MANIFEST.json is generated from this table by tools/gen_manifest.py."""

ALLOWED_AXIOMS = {"propext", "Classical.choice", "Quot.sound"}

COMMON_ASSUME = [
    "theorems are about the hand-written Lean model; the model is tied to /repo by regenerated facts (Gonuts/Gen/Facts.lean, proved equal to the model's constants/tables/skeletons in Gonuts/Tie) and by the differential correspondence streams, whose reach is bounded by their generators",
]

PROPS = {
    "C18": {
        "claimed": True,
        "title": "Send hands over exactly the requested amount, fees included when asked",
        "lean": ["Gonuts.Props.C18", "Gonuts.Tie.Consts"],
        "streams": ["arith"],
        "level": "proof",
        "technique": "Lean 4 theorems over Model.Select/Model.Amount (UInt64 semantics) + differential correspondence with the real wallet selection code",
        "design_ref": "DESIGN.md §5 C18",
        "text": "",
        "note": "",
        "assumptions": COMMON_ASSUME,
    },
    "C12": {
        "claimed": True,
        "title": "P2PK locks: spendable only with the required signatures (NUT-11)",
        "lean": ["Gonuts.Props.C12", "Gonuts.Tie.Spend"],
        "streams": ["p2pk"],
        "level": "proof",
        "technique": "Lean 4 theorems over Model.Spend (line-by-line model of nut11.go and of the SIG_ALL code in mint.go; Schnorr validity, key parsing and the clock are parameters) against the declarative Spec.Spendable; pinned function bodies + skeleton ties; differential correspondence and a model-free NUT-11 evaluator on real btcec keys/signatures",
        "design_ref": "DESIGN.md §4.3, §5 C12",
        "text": "",
        "note": "",
        "assumptions": COMMON_ASSUME + [
            "signatures, keys and digests are symbolic ids; BIP-340 verification is the parameter `valid` (the streams instantiate it with real btcec signatures and cross-check the harness's by-construction table against btcec)",
            "the JSON decoding of secrets and witnesses (encoding/json, nut10.DeserializeSecret) is outside the model: the model starts from the decoded structures",
            "time.Now() cannot be controlled in the real code: locktimes in the streams lie 10^6 s in the past or future",
        ],
    },
    "C13": {
        "claimed": True,
        "title": "HTLC locks: spendable only with the preimage and required signatures (NUT-14)",
        "lean": ["Gonuts.Props.C13", "Gonuts.Tie.Spend"],
        "streams": ["htlc"],
        "level": "proof",
        "technique": "Lean 4 theorems over Model.Spend (line-by-line model of nut14.go and the HTLC branch of verifyBlindedMessages; SHA-256 of the preimage, Schnorr validity and the clock are parameters) against the declarative Spec.Spendable; pinned function bodies; differential correspondence and a model-free NUT-14 evaluator on real keys/signatures/preimages",
        "design_ref": "DESIGN.md §4.3, §5 C13",
        "text": "",
        "note": "",
        "assumptions": COMMON_ASSUME + [
            "signatures, keys, digests are symbolic ids; `valid` and `sha256hex` are parameters (instantiated with real btcec signatures and crypto/sha256 by the stream)",
            "the JSON decoding of secrets and witnesses is outside the model",
            "wallet.ReceiveHTLC is covered through its two helpers (AddWitnessHTLC, AddWitnessHTLCToOutputs) and their order in the wallet skeleton, not by running a wallet against a mint",
        ],
    },
}
