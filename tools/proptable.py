"""Property table: which Lean modules (theorems + ties) and which correspondence streams decide each property.
MANIFEST.json is generated from this table by tools/gen_manifest.py."""

ALLOWED_AXIOMS = {"propext", "Classical.choice", "Quot.sound"}

COMMON_ASSUME = [
    "theorems are about the hand-written Lean model; the model is tied to /repo by regenerated facts (Gonuts/Gen/Facts.lean, proved equal to the model's constants/tables/skeletons in Gonuts/Tie) and by the differential correspondence streams, whose reach is bounded by their generators",
]

PROPS = {
    "C18": {
        "claimed": True,
        "title": "Send hands over exactly the requested amount, fees included when asked",
        "lean": ["Gonuts.Props.C18", "Gonuts.Tie.Consts"],
        "streams": ["arith"],
        "level": "proof",
        "technique": "Lean 4 theorems over Model.Select/Model.Amount (UInt64 semantics) + differential correspondence with the real wallet selection code",
        "design_ref": "DESIGN.md §5 C18",
        "text": "",
        "note": "",
        "assumptions": COMMON_ASSUME,
    },
    "C12": {
        "claimed": True,
        "title": "P2PK locks: spendable only with the required signatures (NUT-11)",
        "lean": ["Gonuts.Props.C12", "Gonuts.Tie.Spend"],
        "streams": ["p2pk", "spendmint", "spendwallet"],
        "level": "proof",
        "technique": "Lean 4 theorems over Model.Spend (line-by-line model of nut11.go and of the SIG_ALL code in mint.go; Schnorr validity, key parsing and the clock are parameters) against the declarative Spec.Spendable; pinned function bodies + skeleton ties; differential correspondence and a model-free NUT-11 evaluator on real btcec keys/signatures",
        "design_ref": "DESIGN.md §4.3, §5 C12",
        "text": "For ALL inputs (unbounded lists, any Schnorr-validity relation, key parser and clock value) the Lean model of the repaired code satisfies: HasValidSignatures accepts only if n signatures verify under n DISTINCT positions of the key list (sound; complete when a signature verifies under at most one listed key; exact for the refund threshold 1); VerifyP2PKLockedProof = ok implies — and under the same hypothesis is equivalent to — the declarative NUT-11 statement Spec.spendableP2PK (tag lookup 'last wins', well-formedness as ∀-clauses, threshold as ∃ of a sublist of signatures paired with a sub-permutation of keys, locktime/refund rule); malformed tag lists are rejected whatever the witness; a SIG_ALL input at ANY position makes ProofsSigAll true, a successful swap then has every input NUT-10 + SIG_ALL with one shared key list and threshold and every output signed by that many distinct key positions over its decoded B_, and the melt is refused; the witnesses written by AddSignatureToInputs/Outputs are accepted under the stated entitlement. The model is tied to the source by pinned go/printer bodies of the 13 mirrored functions, constants, error table and call skeletons, and by the stream p2pk (exhaustive product of the quantifier x 20 witness shapes with real btcec keys/signatures, corner cases, seeded random, SIG_ALL input lists up to length 5 x output shapes, helpers) with a model-free NUT-11 evaluator (maximum bipartite matching instead of the greedy loop).",
        "note": 'Defects F6 (last key recounted) and F7 (ProofsSigAll false after a plain input) were reproduced by the monitors on the unchanged code (findings/F6.json, F7.json), repaired in /repo (b480424, e0978fe) and are re-run as regressions. Observations that are not violations of the property as stated: (1) distinctness is over key POSITIONS: a lock that lists one key twice, or a key and its negation (same BIP-340 x-only key), gives that signer two votes — both model and NUT evaluator follow the code here; for duplicate-free key lists the theorem hasValidSignatures_distinct_keys gives n different keys; (2) the SIG_ALL output check authorises every key of the `pubkeys` tag even when `n_sigs` is absent (nut11.PublicKeys), whereas the input check then authorises only the lock key; (3) IsSigAll looks for any tag equal to ["sigflag","SIG_ALL"] while ParseP2PKTags takes the last sigflag tag of length >= 2. Mint.Swap/MeltTokens are additionally run for real (stream spendmint: LoadMint on SQLite + the FakeBackend of the repository, proofs issued by the mint itself for NUT-10 secrets, the locked proof at every position) against Model.Spend.swapSpendCheck/meltSpendCheck and the SIG_ALL evaluator; run against a copy of the unrepaired code that stream reports F6 and F7 at the Mint level (swap with unsigned outputs and melt of [plain,…,SIG_ALL] accepted).',
        "assumptions": COMMON_ASSUME + [
            "signatures, keys and digests are symbolic ids; BIP-340 verification is the parameter `valid` (the streams instantiate it with real btcec signatures and cross-check the harness's by-construction table against btcec)",
            "the JSON decoding of secrets and witnesses (encoding/json, nut10.DeserializeSecret) is outside the model: the model starts from the decoded structures",
            "time.Now() cannot be controlled in the real code: locktimes in the streams lie 10^6 s in the past or future",
        ],
    },
    "C13": {
        "claimed": True,
        "title": "HTLC locks: spendable only with the preimage and required signatures (NUT-14)",
        "lean": ["Gonuts.Props.C13", "Gonuts.Tie.Spend"],
        "streams": ["htlc", "spendmint", "spendwallet"],
        "level": "proof",
        "technique": "Lean 4 theorems over Model.Spend (line-by-line model of nut14.go and the HTLC branch of verifyBlindedMessages; SHA-256 of the preimage, Schnorr validity and the clock are parameters) against the declarative Spec.Spendable; pinned function bodies; differential correspondence and a model-free NUT-14 evaluator on real keys/signatures/preimages",
        "design_ref": "DESIGN.md §4.3, §5 C13",
        "text": 'For ALL inputs the Lean model of the repaired code satisfies: VerifyHTLCProof = ok implies — and, when a signature verifies under at most one listed key, is equivalent to — the declarative NUT-14 statement Spec.spendableHTLC (before the locktime: the hex-decoded preimage hashes to the 64-character lock value and, if n_sigs>0, n_sigs distinct positions of pubkeys signed with no repeated signature string; after it only the refund rule); a non-hex or wrong preimage and a lock value that is not 64 characters are rejections; with a SIG_ALL HTLC first input a successful swap has every output carrying the preimage and the signatures; the witnesses written by AddWitnessHTLC (inputs) and AddWitnessHTLCToOutputs (outputs) are accepted whenever the helper succeeds, the preimage is right and the key is listed. Stream htlc: exhaustive product hash x n_sigs x pubkeys x locktime x refund x sigflag x (7 preimage + 14 signature shapes) with real signatures, SIG_ALL output shapes, helpers end to end, model-free NUT-14 evaluator.',
        "note": "Defect F8 (AddWitnessHTLCToOutputs signed the hex text of B_) and the HTLC face of F6 were reproduced on the unchanged code (findings/F8.json, F6-htlc.json), repaired (27d7371, b480424) and are re-run as regressions. Observations: an HTLC with a `pubkeys` tag but no `n_sigs` needs no signature (the code keys the signature check on n_sigs>0, as the property statement does); SIG_ALL + HTLC without pubkeys can never pass the output check (threshold 1 over an empty key list) — safe; the SIG_ALL consistency check compares key lists and thresholds but not the hash of different HTLC inputs (outputs are checked against the FIRST input's hash). wallet.ReceiveHTLC and wallet.Receive are executed end to end by stream spendwallet (two real wallets, real mint over in-process HTTP): on the unrepaired code that stream reports F8 as a failed ReceiveHTLC of a SIG_ALL HTLC token.",
        "assumptions": COMMON_ASSUME + [
            "signatures, keys, digests are symbolic ids; `valid` and `sha256hex` are parameters (instantiated with real btcec signatures and crypto/sha256 by the stream)",
            "the JSON decoding of secrets and witnesses is outside the model",
            "the wallet flows (stream spendwallet) are monitor-only: a fixed table of lock configurations with the outcome NUT-11/14 prescribe, not a model comparison",
        ],
    },
}
