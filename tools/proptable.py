"""Property table: which Lean modules (theorems + ties) and which correspondence streams decide each property.
MANIFEST.json is generated from this table by tools/gen_manifest.py."""

ALLOWED_AXIOMS = {"propext", "Classical.choice", "Quot.sound"}

COMMON_ASSUME = [
    "theorems are about the hand-written Lean model; the model is tied to /repo by regenerated facts (Gonuts/Gen/Facts.lean, proved equal to the model's constants/tables/skeletons in Gonuts/Tie) and by the differential correspondence streams, whose reach is bounded by their generators",
]

PROPS = {
    "C18": {
        "claimed": True,
        "title": "Send hands over exactly the requested amount, fees included when asked",
        "lean": ["Gonuts.Props.C18", "Gonuts.Tie.Consts"],
        "streams": ["arith"],
        "level": "proof",
        "technique": "Lean 4 theorems over Model.Select/Model.Amount (UInt64 semantics) + differential correspondence with the real wallet selection code",
        "design_ref": "DESIGN.md §5 C18",
        "text": "",
        "note": "",
        "assumptions": COMMON_ASSUME,
    },
    "C11": {
        "claimed": True,
        "title": "Derivations match the Cashu spec: hash-to-curve, keyset id, NUT-13 secrets",
        "lean": ["Gonuts.Props.C11", "Gonuts.Tie.Spec"],
        "streams": ["deriv"],
        "level": "proof",
        "technique": "independent executable reference implementation in Lean 4 (Gonuts.Spec.*: SHA-256/512, HMAC, secp256k1, BIP32, "
                     "hash_to_curve, keyset id, NUT-13, mint keysets) written from FIPS 180-4 / RFC 2104 / SEC 1-2 / BIP32 / NUT-00/02/13; "
                     "Lean theorems about that specification; facts extracted from the Go glue proved equal to the constants the "
                     "specification uses; differential stream real Go vs compiled Lean reference vs a third math/big implementation",
        "design_ref": "DESIGN.md §5 C11, §4.6",
        "text": "Spec-side theorems are proved (what a returned hash_to_curve point satisfies and that the first lifting counter wins, "
                "counter = 4 bytes little endian and injective, keyset id invariant under every permutation of a key set with distinct "
                "amounts and of shape \"00\"+14 hex, NUT-13 indices never wrap and secret/blinding factor are children 0/1 of "
                "m/129372'/0'/id'/c', BIP32 index ranges and HMAC inputs, hash output lengths, 60 mint keys at m/0'/0'/idx'/j' with "
                "amount 2^j). 'Go = spec for every input' is NOT proved - the Go functions are calls into dcrec/secp256k1, "
                "btcutil/hdkeychain and crypto/sha256; that link is the static tie of the glue (Gonuts.Tie.Spec) plus the bit-for-bit "
                "differential stream 'deriv'. The property is therefore decided at PARTIAL strength.",
        "note": "strength: partial (for-all link Go = spec is correspondence, bounded by the generators of stream 'deriv'; "
                "spec-side well-definedness is proved)",
        "assumptions": COMMON_ASSUME + [
            "the reference implementation Gonuts.Spec.* is a faithful reading of FIPS 180-4, RFC 2104, SEC 1/2, BIP32 and NUT-00/02/13; "
            "it reproduces every published test vector of those documents at driver start-up (spec.selftest)",
            "the driver runs scalar multiplication through a Jacobian/windowed fast path that is cross-checked against the affine "
            "definition on edge and pseudo-random scalars at start-up and on random inputs in the stream, not proved equal to it",
            "hdkeychain.HardenedKeyStart = 2^31 and the behaviour of the btcec/hdkeychain/sha256 libraries are outside /repo and are "
            "covered only by the differential stream",
        ],
    },
}
