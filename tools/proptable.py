"""Property table: which Lean modules (theorems + ties) and which correspondence streams decide each property.
MANIFEST.json is generated from this table by tools/gen_manifest.py."""

ALLOWED_AXIOMS = {"propext", "Classical.choice", "Quot.sound"}

COMMON_ASSUME = [
    "theorems are about the hand-written Lean model; the model is tied to /repo by regenerated facts (Gonuts/Gen/Facts.lean, proved equal to the model's constants/tables/skeletons in Gonuts/Tie) and by the differential correspondence streams, whose reach is bounded by their generators",
]

PROPS = {
    "C18": {
        "claimed": True,
        "title": "Send hands over exactly the requested amount, fees included when asked",
        "lean": ["Gonuts.Props.C18", "Gonuts.Tie.Consts"],
        "streams": ["arith", "select"],
        "level": "proof",
        "technique": "Lean 4 theorems over Model.Select/Model.Amount (UInt64 semantics) + differential correspondence with the real wallet selection code",
        "design_ref": "DESIGN.md §5 C18",
        "text": "",
        "note": "",
        "assumptions": COMMON_ASSUME,
    },
}
