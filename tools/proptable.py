"""Property table: which Lean modules (theorems + ties) and which correspondence streams decide each property.
MANIFEST.json is generated from this table by tools/gen_manifest.py."""

ALLOWED_AXIOMS = {"propext", "Classical.choice", "Quot.sound"}

COMMON_ASSUME = [
    "theorems are about the hand-written Lean model; the model is tied to /repo by regenerated facts (Gonuts/Gen/Facts.lean, proved equal to the model's constants/tables/skeletons in Gonuts/Tie) and by the differential correspondence streams, whose reach is bounded by their generators",
]

PROPS = {
    "C18": {
        "claimed": True,
        "title": "Send hands over exactly the requested amount, fees included when asked",
        "lean": ["Gonuts.Props.C18", "Gonuts.Tie.Consts"],
        "streams": ["arith"],
        "level": "proof",
        "technique": "Lean 4 theorems over Model.Select/Model.Amount (UInt64 semantics) + differential correspondence with the real wallet selection code",
        "design_ref": "DESIGN.md §5 C18",
        "text": "",
        "note": "",
        "assumptions": COMMON_ASSUME,
    },
    "C14": {
        "claimed": True,
        "title": "Tokens survive serialisation exactly; decoding arbitrary text never crashes",
        "lean": ["Gonuts.Props.C14", "Gonuts.Tie.Token"],
        "streams": ["token", "token-fuzz"],
        "level": "proof",
        "technique": "Lean 4 theorems over Model.Token (abstract syntax of cashu.Proof/TokenV3/TokenV4, NewTokenV3/V4 incl. the Go map grouping with the iteration order as a parameter, accessors, executable encoding/hex and encoding/base64 with proved decode(encode)=id, the byte-level string front end of DecodeToken with Go panics as explicit outcomes) + differential correspondence of every step with the real code + model-free round-trip and no-panic monitors",
        "design_ref": "DESIGN.md §5 C14, §4.4, §6 F9",
        "text": "Proved in Lean for ALL inputs of the model (unbounded proof lists, every String, every UInt64): v3_roundtrip (NewTokenV3 -> Serialize -> DecodeToken gives back mint, unit, and exactly the proofs in order, DLEQ complete iff requested), v4_roundtrip (lower-case hex ids/C/DLEQ, r non-empty: NewTokenV4 succeeds and the decoded proofs are exactly the input proofs, keyset by keyset in the map-iteration order, a permutation of the input with the order inside each keyset preserved; every field equal) and v4_roundtrip_anycase (any accepted input: hex fields come back as EncodeToString(DecodeString x), i.e. A-F lowered), newV4_rejects/accepts/first_error (what NewTokenV4 refuses and with which error), amount_eq_sum (both formats, wrapping identically), decode_total / decode_total_bytes (for EVERY string / byte sequence and EVERY behaviour of the JSON/CBOR libraries DecodeToken returns an error or a token on which Mint and Serialize do not panic; Proofs and Amount are total). wire_lossless / wire_injective / v3_roundtrip_closed / v4_roundtrip_closed: json.Marshal(TokenV3) and cbor.Marshal(TokenV4) are modelled as executable Lean functions (Model.TokenWire: struct tags and omitempty tied to the source, Go's JSON escaping, CBOR definite-length maps), a parser for exactly that canonical form is proved to read every token back (all strings, all amounts; CBOR lengths < 2^64), so the encodings are injective and the round trips hold with no hypothesis about the libraries for the codec made of these functions. encoding/hex and encoding/base64 are executable Lean functions with decode(encode b)=b proved; the byte-level string front end (tokenstr[:6] on bytes, prefix compare, URL then RawURL base64 with Go's error offsets and skipped CR/LF) is modelled exactly.",
        "note": "The real decoders encoding/json and fxamacker/cbor are NOT modelled in general (abstract Codec): the general round-trip theorems assume Unmarshal(Marshal t)=t for the token at hand; the closed theorems use the modelled marshallers (compared byte for byte with the real Serialize on every generated token) and canonical parsers (compared with the real Unmarshal: the parser reads every real payload back to the token the real decoder yields, and on ~4k fuzzed payloads per quick run that it accepts the real decoder returns the identical token). What remains an assumption is that the real Unmarshal agrees with the canonical parser on Marshal output beyond the generated tokens; that the libraries do not panic on hostile payloads is fuzzed (type-directed wrong-shaped JSON/CBOR, truncations, mutations), not proved. V4 does not preserve upper-case hex literally and the group order is unspecified (Go map iteration): both are part of the theorem statements. Defect F9 (panic on inputs < 6 bytes; Mint() panic on a decoded V3 token without entries) was found by these streams on the unchanged code, proved as decode_total_old_false / decodeOld_panic_iff, and fixed in /repo by fix: commit 10453c5; the model, the ties (conds_V3/V4 mention the length check) and the regression family F9-regression follow the fixed code.",
        "assumptions": COMMON_ASSUME + [
            "encoding/json and fxamacker/cbor are abstract functions (Codec) in the model: decode_total holds for EVERY codec (whatever the libraries return, the token code does not panic; that the libraries themselves do not panic is fuzzed, not proved); the round-trip theorems assume dec(enc t)=some t for the token at hand, which the stream checks on every generated token with the real libraries",
            "proof fields are Lean Strings (valid Unicode); Go strings that are not valid UTF-8 are outside the property's domain (the stream records what happens to them: JSON replaces the bytes, CBOR refuses to decode)",
        ],
    },
}
