"""Property table: which Lean modules (theorems + ties) and which correspondence streams decide each property.
MANIFEST.json is generated from this table by tools/gen_manifest.py."""

ALLOWED_AXIOMS = {"propext", "Classical.choice", "Quot.sound"}

COMMON_ASSUME = [
    "theorems are about the hand-written Lean model; the model is tied to /repo by regenerated facts (Gonuts/Gen/Facts.lean, proved equal to the model's constants/tables/skeletons in Gonuts/Tie) and by the differential correspondence streams, whose reach is bounded by their generators",
]

PROPS = {
    "C18": {
        "claimed": True,
        "title": "Send hands over exactly the requested amount, fees included when asked",
        "lean": ["Gonuts.Props.C18", "Gonuts.Tie.Select", "Gonuts.Tie.Consts"],
        "streams": ["arith", "select"],
        "thorough_shards": {"arith": 1, "select": 2},
        "level": "proof",
        "technique": "Lean 4 theorems over an executable UInt64 model of the wallet's coin selection / fee / split code (Model.Select, Model.Amount; every multiset, amount, ppk and every tie-breaking of Go's unstable sort); the model is tied to /repo statically (Tie.Select: go/printer text of every mirrored function and the swapToSend amount statements, by rfl) and differentially (stream select: real selectProofsToSend / selectProofsForAmount / feesForProofs / feesForCount / splitWalletTarget / calculateBlankOutputs / AmountSplit through verif-tagged hooks vs the Lean driver, blind and by oracle replay of Go's tie-breaking) plus model-free monitors",
        "design_ref": "DESIGN.md §4.5, §5 C18, §6 K6",
        "text": "Pure part of C18. Proved for all inputs at uint64 semantics: AmountSplit sums to its input and is strictly ascending powers of two; feesForCount/feesForProofs/TransactionFees = ceil(sum ppk/1000) (wrap case stated); a successful selection is a sub-multiset of the holdings worth >= amount + fee(selected) (select_sound, no-wrap hypotheses explicit, wrap counterexample given); the offline path hands over exactly amount + fee(those proofs) (send_exact_offline); the swap path without fees hands over exactly amount (send_exact_swap_nofee); selectProofsToSend never refuses an amount that holdings minus the fee of spending every proof cover, through the wrapping remainingAmount subtraction, every ppk (send_succeeds_toSend), hence Send cannot fail for a wallet without inactive-keyset proofs (send_succeeds_no_inactive). FALSE on the code as it is, each with a decide-checked witness, a partial theorem under the exact extra hypothesis, and a replay against the real code on every run: send_exact_fee (K6: the fee estimate is itself split into popcount(fee) proofs) and send_succeeds with inactive-keyset proofs (inner selection error dropped together with every inactive proof; fee rounded up once per part).",
        "note": "The end-to-end clause (recipient nets the amount after redeeming at a real mint; proofs unspent, distinct, removed from the balance) is decided by the send stream / C17 wallet model, not here. calculateBlankOutputs is compared exactly only where its float evaluation is provably the integer function (x < 2^48 or float64(x) a power of two); above, Go's math.Log2 rounds down to the integer for x slightly above 2^k (k >= 49) and returns one less than ceil(log2 x) - irrelevant for real fee reserves.",
        "assumptions": COMMON_ASSUME + [
            "Go's sort.Slice is modelled as an arbitrary pair of functions returning a permutation of their input (it is a deterministic function of the sequence of amounts); theorems hold for all such functions; the driver uses a stable sort and, for replay, a sorter that breaks ties in the order Go picked",
            "uint/uint64 are 64-bit (amd64); math.Pow(2, i) is exact for i < 60",
            "no-wrap hypotheses of the N-valued statements: holdings + fee of spending them all < 2^64, sum of ppk + 999 < 2^64, amount + fees < 2^64 (the uint64-level statements need none)",
        ],
    },
    "C20": {
        "claimed": True,
        "title": "HTTP/JSON surface is a faithful, spec-shaped transport of the mint's decisions",
        "lean": ["Gonuts.Props.C20", "Gonuts.Tie.Wire"],
        "streams": ["wire"],
        "thorough_shards": {"wire": 3},
        "level": "proof",
        "technique": "Lean 4 theorems over Model.Wire — mint/server.go written as a pure function handleX : WSess -> Request -> WSess x Response x Info "
                     "(mux routing incl. 301/404/405/OPTIONS, {method} check, decodeJsonReqBody classes, the NUT-19 cache as an association list with the "
                     "code's Get/Set/DeleteExpired semantics, per-handler error mapping, writeErr, one JSON tree per response type) composed with "
                     "Model.Mint.applyOp; tied to /repo statically (Tie.Wire: route table, per-handler `cashuErr.Code ==` tests and writeErr arguments, decode "
                     "switch, go/printer text of Cache.Set/Get/DeleteExpired, writeErr, setupHeaders, Start, PublicKeys.MarshalJSON, cache key/TTL argument "
                     "expressions, JSON tags of every request/response struct, enum switch tables, error table, NUT-19 advertisement; by rfl/decide) and "
                     "differentially (stream wire: hand-built JSON text through MintServer's http.Handler in-process, generic parsing, request-by-request "
                     "comparison of status, ordered body tree, storage trace, Lightning calls and cache size with the Lean driver; the real mint.Cache object "
                     "against the model's cache functions incl. the 10000/10001 boundary) plus model-free monitors",
        "design_ref": "DESIGN.md §4.1 (last paragraph), §5 C20",
        "text": "PROVED for all sessions, requests, cache contents, clock values and strings: enum_roundtrip (nut04/05/07 String/StringToState tables of the source "
                "round-trip and yield the NUT strings; exception stated: a mint quote can show PENDING, which NUT-04 does not list); keys_sorted (key map ascending, "
                "strictly for distinct amounts, independent of Go's map iteration order); ok_iff_200 / body_of_outcome / ok_tree_shape / element_shapes (a request that "
                "reaches a handler and is not a cache hit is answered 200 iff applyOp succeeds, 400 iff it is refused; the body is the rendering of the handler's "
                "response struct with exactly the NUT field names, or of the error passed to writeErr); refused_iff_400 ({detail, code} with the mapped code whenever "
                "that code is not 0); code_of_cause (every error variable that expresses a cause of the NUT error table carries the table's code; the handlers pass "
                "non-internal errors through unchanged: mapErr_passthrough); internal_generic (codes 1/2 are replaced by ONE constant body independent of the internal "
                "message, per handler; meltTokens has its own constant for Lightning errors; swapRequest/meltQuoteRequest test only the DB code — latent, stated); "
                "no_collision (for all strings: keys of cached POSTs contain '/', `{id}` segments and ACTIVE_KEYSET do not); cache_hit_iff (served from the cache iff the "
                "map holds method++url++body; then the stored bytes, 200, mint session untouched, an expired entry served once more and dropped); cache_provenance + "
                "cache_exact (over every history from a fresh server: a NUT-19 entry exists only because an earlier request with the identical key was EXECUTED, answered "
                "200 on /v1/swap or /v1/mint/bolt11, and holds that response's bytes; hence hit iff such a request exists and its entry is retained); key_eq_iff (identical "
                "key = identical (method, URL, body) when the URLs have equal length, e.g. no query string); replay_identical (within TTL, over ANY intermediate history "
                "without restart: identical bytes, nothing executed); stored_entry (TTL 300 s, body < 2 MB, map size <= 10000 at that moment; the map can hold limit+1); "
                "beyond_retention_executes (key absent => the operation runs again on the current session: inputs spent / quote issued). "
                "FALSE on the code as it is, each with a decide-checked witness, the exact partial theorem, and a reproduction against the real handler on every run: "
                "refused_shape_full (a non-cashu error — MintTokens' failing 'restore previous state' write — is rendered {}), internal_generic_full (a failing quote "
                "lookup is answered 'quote does not exist' 20009), code_of_cause_full (the same secret with another witness, or with a dleq object, is refused by the "
                "storage key: 10000 instead of 11007), cache_exact_full (the key is a concatenation without separators: POST /v1/swap?x{A} with body `null` is served "
                "the response of POST /v1/swap?x with body `{A}null`).",
        "note": "Not modelled: /v1/ws (websocket upgrade), HTTP headers other than the request's Content-Type, percent-decoding of paths (the request carries the "
                "decoded segments and URL.String() side by side; the harness takes both from net/http), the detail TEXT of generated messages (classes: bad-json, "
                "invalid-type, bad-C-hex, …; literal for every constant of the source), concurrency (Cache.Get deletes under a read lock). The NUT error table in "
                "Spec/NutWire.lean was written from the NUT documents offline (error_codes.md as of NUT-20); codes the mint uses outside it are listed in "
                "codes_outside_table (11003, 10004; 20009 has another meaning in the table). The 30 s cleanup loop of MintServer.Start is modelled (tick) and its "
                "DeleteExpired half is exercised on the real Cache object; its ACTIVE_KEYSET invalidation runs only inside Start (a listening server) and is tied by source text only.",
        "assumptions": COMMON_ASSUME + [
            "a request is given as (method, decoded path segments, URL.String(), Content-Type, body bytes, outcome class of encoding/json on the body, symbolic content of a "
            "decodable body); net/http, net/url, gorilla/mux's regexp matching and encoding/json's scanner are not re-proved: the harness takes segments and URL from net/http "
            "and classifies bodies with encoding/json itself plus its own schema walker",
            "ReqWF: no segment of strings.Split(path, \"/\") contains '/', and URL.String() of a routed request contains '/' (monitored on every request)",
            "time is an integer number of nanoseconds that does not run backwards (timeForward) in the retention theorems; time.Now().After is strict",
            "symbolic values as in Model.Mint (ids, invoices, points, times are identities); the byte-identity claims are about the rendered symbolic text; real byte identity "
            "of replays is checked by the stream",
        ],
    },
    "C10": {
        "claimed": True,
        "title": "Blind signatures and DLEQ proofs are algebraically correct and tamper-evident",
        "lean": ["Gonuts.Props.C10"],
        "streams": ["bdhke"],
        "level": "proof",
        "technique": "Lean 4 theorems (Mathlib linear algebra) about blind/sign/unblind/verify/GenerateDLEQ/VerifyDLEQ/VerifyProofDLEQ "
                     "over an ABSTRACT module G over ZMod n (all primes n, all modules, arbitrary hash function) + a monitor stream that "
                     "re-checks every stated identity and every single-field rejection on the real /repo/crypto and nut12 functions over secp256k1",
        "design_ref": "DESIGN.md §4.2, §5 C10",
        "text": "PROVED (Gonuts/Props/C10.lean, for every prime n, every ZMod n-module G, every g, Y, scalars, every function hashE): "
                "unblind(sign(blind(Y,r),k),r,k•g) = k•Y, hence independent of r and accepted by verify; verify k' Y (k•Y) iff k'=k (Y≠0), "
                "verify k Y' (k•Y) iff Y'=Y (k≠0), any other point fails; for EVERY nonce the proof of GenerateDLEQ(a,B',a•B') is accepted by "
                "VerifyDLEQ under a•g, and with the wallet's r by VerifyProofDLEQ (re-blinding); special soundness: if C' ≠ a•B' (e.g. signed with "
                "another key a'≠a, B'≠0) then every commitment (R1,R2) admits at most one challenge e with a response, so an accepted forgery must "
                "have hit that one value with the hash; witness extraction (two openings of one commitment with e≠e' yield w with A=w•g and C'=w•B'); "
                "nut12.VerifyProofsDLEQ modelled with its key lookup by amount and optional DLEQ (honest lists pass; amount that is not a key, or r removed, fails; "
                "a STRIPPED DLEQ passes — NUT-12 makes it optional); tamper evidence as explicit reductions: if a transcript and the transcript with exactly one "
                "of s, A, B', C' (blind-signature DLEQ) or s, r, secret(Y), amount(A), C (proof DLEQ) changed are both accepted with the same e, then the "
                "two 4-tuples the verifier itself hashes are DISTINCT and COLLIDE under hashE — except in the exactly stated degenerate cases "
                "(B'/secret: s = 0; r: A = 0 ∧ s = 0), which are proved to be real (the verifier then ignores the field).",
        "note": "NOT proved: (1) that a change of e ALONE is rejected — algebra gives only the fixed-point characterisation dleq_tamper_e_iff "
                "(accept ↔ e = hashE(sG−eA, sB'−eC', A, C')) and that the changed e makes the verifier hash a different input; 'always rejected' is a "
                "random-oracle statement about SHA-256 and is covered by the differential/monitor stream only (what IS proved is its counting form, "
                "dleq_tamper_e_random_oracle: among all functions hashE that accept the original transcript exactly a 1/n fraction accepts the one with e replaced "
                "by a fixed e' — a statement about a uniformly random function, not about SHA-256); (2) infeasibility of finding hash collisions or "
                "unique-challenge hits (computational assumption on SHA-256, appears in no theorem); (3) corner not modelled: VerifyDLEQ compares "
                "the REDUCED scalar e with the RAW 32-byte SHA-256 output, so an honest proof whose hash is ≥ n (probability ≈ 2^-128) is rejected "
                "by the Go code; the model maps the hash into ZMod n. Encoding-level malleability of the e/s strings (upper-case hex, bytes after "
                "the 32nd) leaves the scalars unchanged and is recorded by the stream as information, not as tampering.",
        "assumptions": [
            "secp256k1 with its base point is a module over ZMod n (n its prime order) with g ≠ 0, HashToCurve never returns the identity, and the Go "
            "functions compute the model's blind/sign/unblind/verify/dleq in it: validated, not proved, by stream bdhke (every identity recomputed from "
            "library primitives and from a NUT-00/NUT-12 re-implementation; (n-1)G = -G checked)",
            "hashE is an arbitrary function G^4 → ZMod n (SHA-256 over the hex of the uncompressed points, reduced mod n); no property of it is assumed; "
            "the tamper theorems CONCLUDE an explicit collision",
            "mint keys are nonzero and pairwise distinct, public keys pairwise distinct (hypotheses of the wrong-key statements): checked dynamically on all "
            "180 keys of 3 generated keysets in every run",
            "GenerateDLEQ draws its nonce from crypto/rand (not controllable): 'all nonces' is proved in Lean; the stream samples it by repeated calls and "
            "additionally feeds the real verifiers with proofs made by a NUT-12 re-implementation of the prover at chosen edge nonces (1, 2, n-1, n-2, small, reduced)",
        ],
    },
}
