"""Property table: which Lean modules (theorems + ties) and which correspondence streams decide each property.
MANIFEST.json is generated from this table by tools/gen_manifest.py."""

ALLOWED_AXIOMS = {"propext", "Classical.choice", "Quot.sound"}

COMMON_ASSUME = [
    "theorems are about the hand-written Lean model; the model is tied to /repo by regenerated facts (Gonuts/Gen/Facts.lean, proved equal to the model's constants/tables/skeletons in Gonuts/Tie) and by the differential correspondence streams, whose reach is bounded by their generators",
]

PROPS = {
    "C18": {
        "claimed": True,
        "title": "Send hands over exactly the requested amount, fees included when asked",
        "lean": ["Gonuts.Props.C18", "Gonuts.Tie.Consts"],
        "streams": ["arith"],
        "level": "proof",
        "technique": "Lean 4 theorems over Model.Select/Model.Amount (UInt64 semantics) + differential correspondence with the real wallet selection code",
        "design_ref": "DESIGN.md §5 C18",
        "text": "",
        "note": "",
        "assumptions": COMMON_ASSUME,
    },
    "C14": {
        "claimed": True,
        "title": "Tokens survive serialisation exactly; decoding arbitrary text never crashes",
        "lean": ["Gonuts.Props.C14", "Gonuts.Tie.Token"],
        "streams": ["token", "token-fuzz"],
        "level": "proof",
        "technique": "Lean 4 theorems over Model.Token (abstract syntax of cashu.Proof/TokenV3/TokenV4, NewTokenV3/V4 incl. the Go map grouping with the iteration order as a parameter, accessors, executable encoding/hex and encoding/base64 with proved decode(encode)=id, the byte-level string front end of DecodeToken with Go panics as explicit outcomes) + differential correspondence of every step with the real code + model-free round-trip and no-panic monitors",
        "design_ref": "DESIGN.md §5 C14, §4.4, §6 F9",
        "text": "",
        "note": "",
        "assumptions": COMMON_ASSUME + [
            "encoding/json and fxamacker/cbor are abstract functions (Codec) in the model: decode_total holds for EVERY codec (whatever the libraries return, the token code does not panic; that the libraries themselves do not panic is fuzzed, not proved); the round-trip theorems assume dec(enc t)=some t for the token at hand, which the stream checks on every generated token with the real libraries",
            "proof fields are Lean Strings (valid Unicode); Go strings that are not valid UTF-8 are outside the property's domain (the stream records what happens to them: JSON replaces the bytes, CBOR refuses to decode)",
        ],
    },
}
