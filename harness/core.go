package main

import (
	"bufio"
	"encoding/json"
	"fmt"
	"io"
	"os"
	"os/exec"
	"sort"
	"strconv"
	"strings"
)

// ---------- PRNG (SplitMix64): every random choice derives from one state ----------

type Rng struct{ s uint64 }

func NewRng(seed uint64) *Rng { return &Rng{s: seed*0x9E3779B97F4A7C15 + 0x1234567} }

func (r *Rng) U64() uint64 {
	r.s += 0x9E3779B97F4A7C15
	z := r.s
	z = (z ^ (z >> 30)) * 0xBF58476D1CE4E5B9
	z = (z ^ (z >> 27)) * 0x94D049BB133111EB
	return z ^ (z >> 31)
}
func (r *Rng) Intn(n int) int {
	if n <= 0 {
		return 0
	}
	return int(r.U64() % uint64(n))
}
func (r *Rng) Bool() bool        { return r.U64()&1 == 1 }
func (r *Rng) Chance(p int) bool { return r.Intn(100) < p } // p percent
func (r *Rng) Bytes(n int) []byte {
	b := make([]byte, n)
	for i := range b {
		b[i] = byte(r.U64())
	}
	return b
}
func (r *Rng) Fork() *Rng { return NewRng(r.U64()) }

// Read implements io.Reader so the PRNG can stand in for crypto/rand where an API accepts a reader.
func (r *Rng) Read(p []byte) (int, error) {
	for i := range p {
		p[i] = byte(r.U64())
	}
	return len(p), nil
}

// ---------- S-expression writer (the line protocol) ----------

type Sx interface{ render(sb *strings.Builder) }
type sxAtom string
type sxStr string
type sxList []Sx

func A(s string) Sx   { return sxAtom(s) }
func N(n uint64) Sx   { return sxAtom(strconv.FormatUint(n, 10)) }
func I(n int) Sx      { return sxAtom(strconv.Itoa(n)) }
func B(b bool) Sx     { return sxAtom(strconv.FormatBool(b)) }
func S(s string) Sx   { return sxStr(s) }
func L(xs ...Sx) Sx   { return sxList(xs) }
func Ls(xs []Sx) Sx   { return sxList(xs) }
func Ns(ns []uint64) Sx {
	out := make(sxList, len(ns))
	for i, n := range ns {
		out[i] = N(n)
	}
	return out
}

func (a sxAtom) render(sb *strings.Builder) { sb.WriteString(string(a)) }
func (l sxList) render(sb *strings.Builder) {
	sb.WriteByte('(')
	for i, x := range l {
		if i > 0 {
			sb.WriteByte(' ')
		}
		x.render(sb)
	}
	sb.WriteByte(')')
}
func (s sxStr) render(sb *strings.Builder) {
	sb.WriteByte('"')
	for _, c := range string(s) {
		switch {
		case c == '"':
			sb.WriteString(`\"`)
		case c == '\\':
			sb.WriteString(`\\`)
		case c == '\n':
			sb.WriteString(`\n`)
		case c == '\t':
			sb.WriteString(`\t`)
		case c == '\r':
			sb.WriteString(`\r`)
		case c < 0x20 || c >= 0x7f:
			fmt.Fprintf(sb, `\u%06x`, c)
		default:
			sb.WriteRune(c)
		}
	}
	sb.WriteByte('"')
}
func Render(x Sx) string {
	var sb strings.Builder
	x.render(&sb)
	return sb.String()
}

// ---------- the Lean model driver process ----------

type Driver struct {
	cmd *exec.Cmd
	in  *bufio.Writer
	out *bufio.Reader
	w   io.WriteCloser
}

func StartDriver(path string) (*Driver, error) {
	cmd := exec.Command(path)
	w, err := cmd.StdinPipe()
	if err != nil {
		return nil, err
	}
	r, err := cmd.StdoutPipe()
	if err != nil {
		return nil, err
	}
	cmd.Stderr = os.Stderr
	if err := cmd.Start(); err != nil {
		return nil, err
	}
	return &Driver{cmd: cmd, in: bufio.NewWriterSize(w, 1<<20), out: bufio.NewReaderSize(r, 1<<20), w: w}, nil
}

// Ask sends one line and waits for the one-line answer.
func (d *Driver) Ask(x Sx) string {
	line := Render(x)
	if strings.ContainsAny(line, "\n\r") {
		panic("driver line contains newline: " + line)
	}
	d.in.WriteString(line)
	d.in.WriteByte('\n')
	d.in.Flush()
	ans, err := d.out.ReadString('\n')
	if err != nil {
		return "(driver-dead " + err.Error() + ")"
	}
	return strings.TrimRight(ans, "\r\n")
}

// Batch sends all lines then reads all answers (10-50x faster than Ask for stateless streams).
func (d *Driver) Batch(xs []Sx) []string {
	done := make(chan []string)
	go func() {
		out := make([]string, 0, len(xs))
		for range xs {
			ans, err := d.out.ReadString('\n')
			if err != nil {
				out = append(out, "(driver-dead "+err.Error()+")")
				continue
			}
			out = append(out, strings.TrimRight(ans, "\r\n"))
		}
		done <- out
	}()
	for _, x := range xs {
		d.in.WriteString(Render(x))
		d.in.WriteByte('\n')
	}
	d.in.Flush()
	return <-done
}

func (d *Driver) Close() {
	d.w.Close()
	d.cmd.Wait()
}

// ---------- results ----------

type Disagreement struct {
	Props []string `json:"props"`
	Op    string   `json:"op"`
	Impl  string   `json:"impl"`
	Model string   `json:"model"`
	// Replay: everything needed to reproduce (op lines so far, seed, case index, …)
	Replay any `json:"replay,omitempty"`
}

type MonitorFailure struct {
	Prop      string `json:"prop"`
	Signature string `json:"signature"` // stable id of the failing shape (matched against known_findings.json)
	What      string `json:"what"`
	Replay    any    `json:"replay,omitempty"`
}

type Result struct {
	Stream             string            `json:"stream"`
	Seed               uint64            `json:"seed"`
	Tier               string            `json:"tier"`
	Evaluations        int               `json:"evaluations"`
	DistinctNontrivial int               `json:"distinct_nontrivial"`
	Rule               string            `json:"rule"`
	Samples            []any             `json:"samples"`
	Exhaustive         bool              `json:"exhaustive"`
	Hist               map[string]map[string]int `json:"histograms"`
	Disagreements      []Disagreement    `json:"disagreements"`
	MonitorFailures    []MonitorFailure  `json:"monitor_failures"`
	KnownWitnesses     []MonitorFailure  `json:"known_witnesses"` // deliberate replays of known findings that still fail
	Notes              []string          `json:"notes,omitempty"`
	Props              []string          `json:"props"`
}

type Ctx struct {
	// Fails counts every MonitorFail call (before de-duplication).  While Capture is set, failures are collected
	// there instead of being reported (scheduled / crash scenarios classify them by root cause first).
	Fails   int
	Capture *[]MonitorFailure
	// this run is shard ShardK of ShardN (enumerating streams split their scenarios by it)
	ShardK, ShardN int
	Rng     *Rng
	Seed    uint64
	Tier    string
	Thorough bool
	Drv     *Driver
	Res     *Result
	Scratch string
	distinct map[string]bool
}

func (c *Ctx) Hist(table, key string) {
	if c.Res.Hist == nil {
		c.Res.Hist = map[string]map[string]int{}
	}
	if c.Res.Hist[table] == nil {
		c.Res.Hist[table] = map[string]int{}
	}
	c.Res.Hist[table][key]++
}

// Case counts one evaluation; key identifies its class; nontrivial says whether it counts as non-trivial.
func (c *Ctx) Case(key string, nontrivial bool) {
	c.Res.Evaluations++
	if nontrivial {
		if !c.distinct[key] {
			c.distinct[key] = true
			c.Res.DistinctNontrivial++
		}
	}
}

func (c *Ctx) Sample(x any) {
	if len(c.Res.Samples) < 8 {
		c.Res.Samples = append(c.Res.Samples, x)
	}
}

func (c *Ctx) Disagree(props []string, op, impl, model string, replay any) {
	if len(c.Res.Disagreements) < 20 {
		c.Res.Disagreements = append(c.Res.Disagreements, Disagreement{props, op, impl, model, replay})
	}
}

func (c *Ctx) MonitorFail(prop, sig, what string, replay any) {
	c.Fails++
	if c.Capture != nil {
		*c.Capture = append(*c.Capture, MonitorFailure{prop, sig, what, replay})
		return
	}
	for _, f := range c.Res.MonitorFailures {
		if f.Prop == prop && f.Signature == sig {
			return // one replay per signature is enough
		}
	}
	if len(c.Res.MonitorFailures) < 2000 {
		c.Res.MonitorFailures = append(c.Res.MonitorFailures, MonitorFailure{prop, sig, what, replay})
	}
}

func (c *Ctx) KnownWitness(prop, sig, what string, replay any) {
	c.Res.KnownWitnesses = append(c.Res.KnownWitnesses, MonitorFailure{prop, sig, what, replay})
}

// Compare checks model answer against the implementation's canonical outcome.
func (c *Ctx) Compare(props []string, op Sx, impl string) bool {
	model := c.Drv.Ask(op)
	if model != impl {
		c.Disagree(props, Render(op), impl, model, nil)
		return false
	}
	return true
}

type StreamFn func(c *Ctx)

type streamInfo struct {
	fn    StreamFn
	props []string
	rule  string
}

var streams = map[string]streamInfo{}

func register(name string, props []string, rule string, fn StreamFn) {
	streams[name] = streamInfo{fn, props, rule}
}

func sortedKeys[M ~map[string]V, V any](m M) []string {
	ks := make([]string, 0, len(m))
	for k := range m {
		ks = append(ks, k)
	}
	sort.Strings(ks)
	return ks
}

func writeJSON(path string, v any) error {
	b, err := json.MarshalIndent(v, "", " ")
	if err != nil {
		return err
	}
	return os.WriteFile(path, b, 0644)
}
