package main

import (
	"fmt"

	"github.com/elnosh/gonuts/cashu"
)

// Stream "wallet-smoke": a minimal end-to-end run (mint, send, receive, melt) of real wallets against a
// real in-process mint; it validates the in-process network the wallet streams build on.
func init() {
	register("wallet-smoke", []string{"C17"}, "fixed end-to-end scenario over the in-process network: mint 100, send 30 to a second wallet, receive, melt an external invoice; class = step", runWalletSmoke)
}

func runWalletSmoke(c *Ctx) {
	net := NewNet()
	net.Install()
	env, err := NewMintEnv(c, "mint-a", MintOpts{FeePpk: 100, FeePct: true})
	if err != nil {
		c.Disagree([]string{"C17"}, "setup", err.Error(), "", nil)
		return
	}
	defer env.Close()
	env.LN.DefaultAnswer = "succ"
	url := net.AddMint("mint-a", env)
	w1, err := NewWalletEnv(c, "w1", url)
	if err != nil {
		c.Disagree([]string{"C17"}, "wallet", err.Error(), "", nil)
		return
	}
	w2, err := NewWalletEnv(c, "w2", url)
	if err != nil {
		c.Disagree([]string{"C17"}, "wallet2", err.Error(), "", nil)
		return
	}
	step := func(name string, err error) bool {
		c.Case(name, true)
		if err != nil {
			c.Disagree([]string{"C17"}, name, err.Error(), "", nil)
			return false
		}
		return true
	}
	q, err := w1.W.RequestMint(100, url)
	if !step("request-mint", err) {
		return
	}
	for _, li := range env.LN.invoices {
		if li.request == q.Request {
			li.settled = true
		}
	}
	_, err = w1.W.MintTokens(q.Quote)
	if !step("mint", err) {
		return
	}
	proofs, err := w1.W.Send(30, url, true)
	if !step("send", err) {
		return
	}
	tok, err := cashu.NewTokenV4(proofs, url, cashu.Sat, true)
	if !step("token", err) {
		return
	}
	got, err := w2.W.Receive(tok, false)
	if !step("receive", err) {
		return
	}
	li, _ := env.LN.makeInvoice(20000, true)
	mq, err := w1.W.RequestMeltQuote(li.request, url)
	if !step("melt-quote", err) {
		return
	}
	_, err = w1.W.Melt(mq.Quote)
	if !step("melt", err) {
		return
	}
	c.Sample(map[string]any{"w1": w1.W.GetBalance(), "w1_pending": w1.W.PendingBalance(), "w2": w2.W.GetBalance(), "received": got,
		"requests": fmt.Sprint(len(net.Log))})
	w1.W.Shutdown()
	w2.W.Shutdown()
}
