package main

// Stream "nut10" (C12, C13): the TEXT of a proof's secret.  nut10.DeserializeSecret decides whether the mint enforces a
// lock at all (an error makes the proof an ordinary one), so it is compared, on JSON texts of every spelling, with
//   (1) the Lean model Model.Nut10Parse.parseSecret (its own JSON scanner/unquoter/decoder, Model/GoJson.lean), and
//   (2) the VALUE the text was generated from (model-free): every valid spelling of a NUT-10 value - insignificant
//       whitespace, member order, member-name case, escaped characters, extra members and elements - must be read as that
//       value with that kind.
// A separate malformed stream (rune-level mutations, truncations, wrong types, wrong shapes) checks the error side.

import (
	"encoding/json"
	"fmt"
	"strings"

	"github.com/elnosh/gonuts/cashu/nuts/nut10"
	"github.com/elnosh/gonuts/cashu/nuts/nut11"
	"github.com/elnosh/gonuts/cashu/nuts/nut14"
)

func init() {
	register("nut10", []string{"C12", "C13"},
		"NUT-10 secret texts: random values (kind incl. P2PK/HTLC/near misses, nonce/data/tags with quotes, backslashes, control, non-ASCII and astral characters) x spellings "+
			"(canonical SerializeSecret, compact, random whitespace at every token boundary, member order, member-name case incl. Unicode folds, \\u escapes incl. surrogate pairs, "+
			"extra members with nested values, extra elements, duplicate members, nulls) + malformed stream (rune mutations, truncation, trailing text, wrong types/shapes); "+
			"class = (spelling features, outcome)",
		runNut10)
}

type n10Value struct {
	kind  string
	nonce string
	data  string
	tags  [][]string
}

type n10Writer struct {
	r        *Rng
	ws       bool // random whitespace between tokens
	esc      int  // percent of characters written as \u escapes
	caseKeys bool
	feats    []string
}

func (w *n10Writer) sp() string {
	if !w.ws {
		return ""
	}
	return []string{"", "", " ", "\n", "\t", "\r", " \n ", "\r\n", "  "}[w.r.Intn(9)]
}

func (w *n10Writer) str(s string) string {
	var sb strings.Builder
	sb.WriteByte('"')
	for _, c := range s {
		must := c == '"' || c == '\\' || c < 0x20
		if must || w.r.Intn(100) < w.esc {
			switch {
			case c == '"' && w.r.Bool():
				sb.WriteString(`\"`)
			case c == '\\' && w.r.Bool():
				sb.WriteString(`\\`)
			case c == '\n' && w.r.Bool():
				sb.WriteString(`\n`)
			case c == '\t' && w.r.Bool():
				sb.WriteString(`\t`)
			case c == '\r' && w.r.Bool():
				sb.WriteString(`\r`)
			case c == '\b' && w.r.Bool():
				sb.WriteString(`\b`)
			case c == '\f' && w.r.Bool():
				sb.WriteString(`\f`)
			case c == '/' && w.r.Bool():
				sb.WriteString(`\/`)
			case c >= 0x10000:
				v := c - 0x10000
				f := "\\u%04x\\u%04x"
				if w.r.Bool() {
					f = "\\u%04X\\u%04X"
				}
				fmt.Fprintf(&sb, f, 0xD800+(v>>10), 0xDC00+(v&0x3ff))
			default:
				f := "\\u%04x"
				if w.r.Bool() {
					f = "\\u%04X"
				}
				fmt.Fprintf(&sb, f, c)
			}
		} else {
			sb.WriteRune(c)
		}
	}
	sb.WriteByte('"')
	return sb.String()
}

func (w *n10Writer) strs(xs []string) string {
	parts := make([]string, len(xs))
	for i, x := range xs {
		parts[i] = w.sp() + w.str(x) + w.sp()
	}
	return "[" + w.sp() + strings.Join(parts, ",") + "]"
}

func (w *n10Writer) tags(t [][]string) string {
	parts := make([]string, len(t))
	for i, x := range t {
		parts[i] = w.sp() + w.strs(x) + w.sp()
	}
	return "[" + w.sp() + strings.Join(parts, ",") + "]"
}

func (w *n10Writer) key(k string) string {
	if w.caseKeys {
		switch w.r.Intn(4) {
		case 0:
			k = strings.ToUpper(k)
		case 1:
			k = strings.ToUpper(k[:1]) + k[1:]
		case 2:
			k = strings.Replace(k, "s", "ſ", 1) // U+017F folds to s
		}
	}
	return w.str(k)
}

// junk: some JSON value of any shape (for members the decoder must skip)
func (w *n10Writer) junk(depth int) string {
	r := w.r
	switch r.Intn(9) {
	case 0:
		return "null"
	case 1:
		return []string{"true", "false"}[r.Intn(2)]
	case 2:
		return []string{"0", "-0", "12", "-7", "1.5", "0.25", "1e3", "1E+3", "2e-2", "-1.5e10", "123456789012345678901234567890"}[r.Intn(11)]
	case 3:
		return w.str([]string{"", "x", "a\"b", "é", "😀", "\\"}[r.Intn(6)])
	case 4, 5:
		if depth > 2 {
			return "[]"
		}
		n := r.Intn(3)
		parts := make([]string, n)
		for i := range parts {
			parts[i] = w.sp() + w.junk(depth+1) + w.sp()
		}
		return "[" + w.sp() + strings.Join(parts, ",") + "]"
	default:
		if depth > 2 {
			return "{}"
		}
		n := r.Intn(3)
		parts := make([]string, n)
		for i := range parts {
			parts[i] = w.sp() + w.str([]string{"a", "nonce", "k", "tags", ""}[r.Intn(5)]) + w.sp() + ":" + w.sp() + w.junk(depth+1) + w.sp()
		}
		return "{" + w.sp() + strings.Join(parts, ",") + "}"
	}
}

// spell writes v in some valid JSON spelling; the second result says whether the text must be read back as exactly v
// (false for the variants with duplicate members / nulls, whose meaning is Go's merge semantics: model comparison only).
func (w *n10Writer) spell(v n10Value) (string, bool) {
	r := w.r
	exact := true
	type member struct{ k, v string }
	ms := []member{{"nonce", w.str(v.nonce)}, {"data", w.str(v.data)}, {"tags", w.tags(v.tags)}}
	if v.tags == nil && r.Bool() {
		ms[2].v = "null"
	}
	if r.Chance(40) {
		w.feats = append(w.feats, "order")
		i, j := r.Intn(3), r.Intn(3)
		ms[i], ms[j] = ms[j], ms[i]
	}
	if r.Chance(30) {
		w.feats = append(w.feats, "extra-member")
		at := r.Intn(len(ms) + 1)
		x := member{[]string{"x", "", "Nonce2", "tag", "datas", "n", "é"}[r.Intn(7)], w.junk(0)}
		ms = append(ms[:at], append([]member{x}, ms[at:]...)...)
	}
	if r.Chance(12) {
		w.feats = append(w.feats, "dup-member")
		exact = false
		d := ms[r.Intn(len(ms))]
		switch r.Intn(4) {
		case 0:
			d.v = "null"
		case 1:
			d.v = w.str("other")
		case 2:
			d.v = "[[null,\"z\"],null,[\"q\"]]"
		case 3:
			d.v = w.tags([][]string{{"p"}})
		}
		ms = append(ms, d)
	}
	if r.Chance(8) {
		w.feats = append(w.feats, "null-member")
		exact = false
		ms[r.Intn(len(ms))].v = "null"
	}
	if r.Chance(6) && len(ms) > 1 {
		w.feats = append(w.feats, "missing-member")
		exact = false
		i := r.Intn(len(ms))
		ms = append(ms[:i], ms[i+1:]...)
	}
	parts := make([]string, len(ms))
	for i, m := range ms {
		k := m.k
		ks := w.str(k)
		if k == "nonce" || k == "data" || k == "tags" {
			ks = w.key(k)
		}
		parts[i] = w.sp() + ks + w.sp() + ":" + w.sp() + m.v + w.sp()
	}
	obj := "{" + w.sp() + strings.Join(parts, ",") + "}"
	els := []string{w.str(v.kind), obj}
	if r.Chance(15) {
		w.feats = append(w.feats, "extra-element")
		els = append(els, w.junk(0))
	}
	for i := range els {
		els[i] = w.sp() + els[i] + w.sp()
	}
	return w.sp() + "[" + strings.Join(els, ",") + "]" + w.sp(), exact
}

func n10RandString(r *Rng) string {
	switch r.Intn(8) {
	case 0:
		return ""
	case 1, 2, 3:
		return fmt.Sprintf("%x", r.Bytes(1+r.Intn(33)))
	case 4:
		return []string{"a\"b", "back\\slash", "tab\there", "nl\nx", "\x01\x1f", "sl/ash", "<>&", "  "}[r.Intn(8)]
	case 5:
		return []string{"é", "世界", "😀", "a😀b𝄞", "�", "ſK", "\u007f\u0080", "\u2028x\u2029", "\b\f\x00\x1e"}[r.Intn(9)]
	default:
		al := []rune("abz019 _-:,[]{}\"\\/é世😀\n\t")
		n := r.Intn(12)
		out := make([]rune, n)
		for i := range out {
			out[i] = al[r.Intn(len(al))]
		}
		return string(out)
	}
}

func n10RandValue(r *Rng) n10Value {
	v := n10Value{}
	v.kind = []string{"P2PK", "HTLC", "P2PK", "HTLC", "p2pk", "htlc", "", "XXXX", "P2PK ", " HTLC", "HTLC\x00", "P2PKH", "anyonecanspend", "ΗTLC"}[r.Intn(14)]
	v.nonce = n10RandString(r)
	v.data = n10RandString(r)
	if !r.Chance(15) {
		v.tags = [][]string{}
		rows, cols := r.Intn(4), 4
		if r.Chance(10) {
			rows, cols = r.Intn(14), 9 // no limit on the number of tags or of values in a tag
		}
		for n := rows; n > 0; n-- {
			row := []string{}
			for k := r.Intn(cols); k > 0; k-- {
				if r.Chance(60) {
					row = append(row, []string{"sigflag", "SIG_ALL", "SIG_INPUTS", "n_sigs", "2", "pubkeys", "locktime", "refund", "0"}[r.Intn(9)])
				} else {
					row = append(row, n10RandString(r))
				}
			}
			v.tags = append(v.tags, row)
		}
	}
	return v
}

func n10Render(s nut10.WellKnownSecret, err error) string {
	if err != nil {
		return "plain"
	}
	kind := "anyone"
	switch s.Kind {
	case nut10.P2PK:
		kind = "p2pk"
	case nut10.HTLC:
		kind = "htlc"
	}
	tags := make([]Sx, len(s.Data.Tags))
	for i, t := range s.Data.Tags {
		el := make([]Sx, len(t))
		for j, x := range t {
			el[j] = S(x)
		}
		tags[i] = Ls(el)
	}
	return Render(L(A("secret"), A(kind), S(s.Data.Nonce), S(s.Data.Data), Ls(tags)))
}

func n10Deserialize(text string) (out string) {
	defer func() {
		if r := recover(); r != nil {
			out = "(panic)"
		}
	}()
	return n10Render(nut10.DeserializeSecret(text))
}

func n10Expect(v n10Value) string {
	kind := "anyone"
	switch v.kind {
	case "P2PK":
		kind = "p2pk"
	case "HTLC":
		kind = "htlc"
	}
	tags := make([]Sx, len(v.tags))
	for i, t := range v.tags {
		el := make([]Sx, len(t))
		for j, x := range t {
			el[j] = S(x)
		}
		tags[i] = Ls(el)
	}
	return Render(L(A("secret"), A(kind), S(v.nonce), S(v.data), Ls(tags)))
}

// n10Mutate: one rune-level edit of a valid text (mostly breaking it)
func n10Mutate(r *Rng, text string) (string, string) {
	rs := []rune(text)
	al := []rune("[]{},:\"\\ \n\t01-+.eEntfu/'x\x00\x1f \ufeff")
	switch r.Intn(9) {
	case 0:
		if len(rs) > 0 {
			i := r.Intn(len(rs))
			return string(append(append([]rune{}, rs[:i]...), rs[i+1:]...)), "delete"
		}
	case 1:
		i := r.Intn(len(rs) + 1)
		c := al[r.Intn(len(al))]
		return string(append(append(append([]rune{}, rs[:i]...), c), rs[i:]...)), "insert"
	case 2:
		if len(rs) > 0 {
			i := r.Intn(len(rs))
			o := append([]rune{}, rs...)
			o[i] = al[r.Intn(len(al))]
			return string(o), "replace"
		}
	case 3:
		if len(rs) > 0 {
			return string(rs[:r.Intn(len(rs))]), "truncate"
		}
	case 4:
		return text + []string{"x", ",", "]", "[]", "null", " 1", "\x00", "//c"}[r.Intn(8)], "trailing"
	case 5:
		return []string{"\ufeff", " ", "\v", "\f", "x", "//c\n", "\x00"}[r.Intn(7)] + text, "leading"
	case 6:
		if len(rs) > 1 {
			i := r.Intn(len(rs) - 1)
			o := append([]rune{}, rs...)
			o[i], o[i+1] = o[i+1], o[i]
			return string(o), "swap"
		}
	case 7:
		return strings.Replace(text, ",", ",,", 1), "double-comma"
	case 8:
		return strings.Replace(text, "\"", "'", 2), "single-quote"
	}
	return text, "none"
}

var n10Shapes = []string{
	``, ` `, `null`, `true`, `0`, `"P2PK"`, `{}`, `[]`, `[null]`, `["P2PK"]`, `[null,null]`, `["P2PK",null]`, `[null,{}]`, `["HTLC",{}]`, `["HTLC",[]]`, `["HTLC","x"]`,
	`["HTLC",1]`, `[1,{}]`, `[true,{}]`, `[["HTLC"],{}]`, `[{"a":1},{}]`, `{"0":"P2PK","1":{}}`, `["P2PK",{"nonce":1}]`, `["P2PK",{"data":["x"]}]`, `["P2PK",{"tags":{}}]`,
	`["P2PK",{"tags":"x"}]`, `["P2PK",{"tags":[1]}]`, `["P2PK",{"tags":["x"]}]`, `["P2PK",{"tags":[[1]]}]`, `["P2PK",{"tags":[[null]]}]`, `["P2PK",{"tags":[null]}]`,
	`["P2PK",{"tags":[[["x"]]]}]`, `["P2PK",{"tags":[[true]]}]`, `["P2PK",{"nonce":null,"data":null,"tags":null}]`, `["P2PK",{"NONCE":"n","Data":"d","TAGS":[["t"]]}]`,
	`["P2PK",{"tagſ":[["t"]]}]`, `["P2PK",{"data":"a","data":"b"}]`, `["P2PK",{"data":"a","DATA":null}]`, `["P2PK",{"data":"a","data":1}]`,
	`["P2PK",{"tags":[["a","b"],["c"]],"tags":[[null],null,["d"]]}]`, `["P2PK",{"tags":[["a","b"]],"tags":[]}]`, `["P2PK",{"tags":[["a"]],"tags":null}]`,
	`["P2PK",{"data":"d"}]`, `["P2PK",{"data":"x"}]`, `["P2PK",{"data":"😀"}]`, `["P2PK",{"data":"\ud83d"}]`, `["P2PK",{"data":"\ude00\ud83d"}]`,
	`["P2PK",{"data":"\ud83dA"}]`, `["P2PK",{"data":"\ud83d😀"}]`, `["P2PK",{"data":"😀"}]`, `["P2PK",{"data":"éé"}]`, `["P2PK",{"data":"\x"}]`,
	`["P2PK",{"data":"\u12"}]`, `["P2PK",{"data":"\u12G4"}]`, `["P2PK",{"data":"a` + "\n" + `b"}]`, `["P2PK",{"data":"a` + "\t" + `b"}]`, `["P2PK",{"data":"\/\b\f\n\r\t\"\\"}]`,
	`["P2PK",{"x":01}]`, `["P2PK",{"x":1.}]`, `["P2PK",{"x":.5}]`, `["P2PK",{"x":-}]`, `["P2PK",{"x":1e}]`, `["P2PK",{"x":1e+}]`, `["P2PK",{"x":+1}]`, `["P2PK",{"x":0x10}]`,
	`["P2PK",{"x":-0.0e-0}]`, `["P2PK",{"x":1E5}]`, `["P2PK",{"x":NaN}]`, `["P2PK",{"x":tru}]`, `["P2PK",{"x":truee}]`, `["P2PK",{"x":nul}]`, `["P2PK",{"x":True}]`,
	`["P2PK",{"x":[1,2,]}]`, `["P2PK",{"x":{"a":1,}}]`, `["P2PK",{"x":[1 2]}]`, `["P2PK",{"x":{"a" 1}}]`, `["P2PK",{"x":{"a":1 "b":2}}]`, `["P2PK",{"x":{1:2}}]`, `["P2PK",{"x":{a:2}}]`,
	`["P2PK",{,}]`, `["P2PK",{}],`, `["P2PK",{}]]`, `[["P2PK",{}]`, `["P2PK",{}`, `["P2PK",{}] x`, `["P2PK" {}]`, `["P2PK",,{}]`, `[,"P2PK",{}]`, `["P2PK",{}]` + "\x00",
	` ["HTLC",{"data":"d"}]`, "\n[\"HTLC\",{\"data\":\"d\"}]", "\t[\"HTLC\",{\"data\":\"d\"}]", "\r[\"HTLC\",{\"data\":\"d\"}]", "\ufeff[\"HTLC\",{\"data\":\"d\"}]", " [\"HTLC\",{\"data\":\"d\"}]",
	`["HTLC",{"data":"d"}] `, `["HTLC",{"data":"d"}]` + "\n", `[ "HTLC" , { "data" : "d" } ]`, `["HTLC",{"data":"d"},"more",1,null]`, `["HTLC",{"data":"d"},]`,
	`["P2PK", {"nonce":"n","data":"d","tags":[["sigflag","SIG_ALL"]]}]`,
}

// ---- witnesses

func n10WitnessImpl(htlc bool, text string) (out string) {
	defer func() {
		if r := recover(); r != nil {
			out = "(panic)"
		}
	}()
	strs := func(xs []string) Sx {
		el := make([]Sx, len(xs))
		for i, x := range xs {
			el[i] = S(x)
		}
		return Ls(el)
	}
	if htlc {
		var w nut14.HTLCWitness
		err := json.Unmarshal([]byte(text), &w)
		return Render(L(A("w"), B(err == nil), strs(w.Signatures), S(w.Preimage)))
	}
	var w nut11.P2PKWitness
	err := json.Unmarshal([]byte(text), &w)
	return Render(L(A("w"), B(err == nil), strs(w.Signatures), S("")))
}

var n10WitnessShapes = []string{
	``, ` `, `null`, `{}`, `[]`, `"x"`, `0`, `true`, `{"signatures":[]}`, `{"signatures":null}`, `{"signatures":"x"}`, `{"signatures":{}}`, `{"signatures":[1]}`,
	`{"signatures":["a",1,"b"]}`, `{"signatures":["a",null,"b"]}`, `{"signatures":["a",["x"],"b",{"y":1},true]}`, `{"signatures":["a","b"],"signatures":["c"]}`,
	`{"signatures":["a","b"],"signatures":[null,null,"d"]}`, `{"signatures":["a","b"],"signatures":null}`, `{"signatures":["a","b"],"signatures":5}`,
	`{"Signatures":["a"]}`, `{"SIGNATURES":["a"]}`, `{"ſignatureſ":["a"]}`, `{"signature":["a"]}`, `{"preimage":"00","signatures":["a"]}`, `{"preimage":null}`, `{"preimage":5}`,
	`{"preimage":["00"]}`, `{"PREIMAGE":"00"}`, `{"preimage":"00","preimage":"11"}`, `{"preimage":"00","preimage":null}`, `{"preimage":"00","preimage":1}`,
	`{"preimage":"00"} `, ` {"preimage":"00"}`, `{"preimage":"00"}x`, `{"preimage":"00",}`, `{"preimage":"00"}`, "{\"preimage\":\"0\n0\"}", `{"signatures":["a",]}`,
	`{"signatures":["😀","\ud83d"]}`, `{"x":{"signatures":["a"]},"signatures":["b"]}`, `[{"signatures":["a"]}]`, `{"signatures":["a"]}{"signatures":["b"]}`,
}

func (w *n10Writer) witness(r *Rng, htlc bool) string {
	type member struct{ k, v string }
	var ms []member
	nsig := r.Intn(4)
	sigs := make([]string, nsig)
	for i := range sigs {
		switch r.Intn(8) {
		case 0:
			sigs[i] = "null"
		case 1:
			sigs[i] = w.junk(1)
		default:
			sigs[i] = w.str(n10RandString(r))
		}
		sigs[i] = w.sp() + sigs[i] + w.sp()
	}
	sv := "[" + w.sp() + strings.Join(sigs, ",") + "]"
	if r.Chance(10) {
		sv = w.junk(0)
	}
	ms = append(ms, member{"signatures", sv})
	if htlc || r.Chance(20) {
		pv := w.str(n10RandString(r))
		if r.Chance(12) {
			pv = w.junk(0)
		}
		ms = append(ms, member{"preimage", pv})
	}
	if r.Chance(30) {
		ms = append(ms, member{[]string{"x", "sig", "signatures2", "", "pre"}[r.Intn(5)], w.junk(0)})
	}
	if r.Chance(15) && len(ms) > 0 {
		d := ms[r.Intn(len(ms))]
		d.v = []string{"null", `["z",null,"q"]`, `"p"`, "7"}[r.Intn(4)]
		ms = append(ms, d)
	}
	for i := len(ms) - 1; i > 0; i-- {
		j := r.Intn(i + 1)
		ms[i], ms[j] = ms[j], ms[i]
	}
	parts := make([]string, len(ms))
	for i, m := range ms {
		ks := w.str(m.k)
		if m.k == "signatures" || m.k == "preimage" {
			ks = w.key(m.k)
		}
		parts[i] = w.sp() + ks + w.sp() + ":" + w.sp() + m.v + w.sp()
	}
	return w.sp() + "{" + strings.Join(parts, ",") + "}" + w.sp()
}

func runNut10Witness(c *Ctx, props []string) {
	r := c.Rng
	n := 3000
	if c.Thorough {
		n = 40000
	}
	type wcase struct {
		htlc  bool
		text  string
		feats string
	}
	var cases []wcase
	for _, s := range n10WitnessShapes {
		cases = append(cases, wcase{false, s, "shape"}, wcase{true, s, "shape"})
	}
	var valid []string
	for i := 0; i < n; i++ {
		w := &n10Writer{r: r, ws: r.Chance(40), caseKeys: r.Chance(25)}
		if r.Chance(30) {
			w.esc = 25
		}
		htlc := r.Bool()
		t := w.witness(r, htlc)
		valid = append(valid, t)
		cases = append(cases, wcase{htlc, t, "generated"})
	}
	for i := 0; i < n/2; i++ {
		t, how := n10Mutate(r, valid[r.Intn(len(valid))])
		cases = append(cases, wcase{r.Bool(), t, "mutated/" + how})
	}
	ops := make([]Sx, len(cases))
	for i, tc := range cases {
		k := "p2pk"
		if tc.htlc {
			k = "htlc"
		}
		ops[i] = L(A("spend.parse-witness"), A(k), S(tc.text))
	}
	ans := c.Drv.Batch(ops)
	for i, tc := range cases {
		impl := n10WitnessImpl(tc.htlc, tc.text)
		ok := strings.HasPrefix(impl, "(w true")
		c.Case(fmt.Sprintf("witness/%s/%v/ok=%v", tc.feats, tc.htlc, ok), true)
		c.Hist("witness text", fmt.Sprintf("%s ok=%v", strings.SplitN(tc.feats, "/", 2)[0], ok))
		if i%499 == 0 {
			c.Sample(map[string]any{"witness_text": tc.text, "htlc": tc.htlc, "impl": impl, "model": ans[i]})
		}
		if ans[i] != impl {
			c.Disagree(props, Render(ops[i]), impl, ans[i], map[string]any{"witness_text": tc.text, "htlc": tc.htlc})
		}
	}
}

// nut10.SerializeSecret versus Model.Nut10Parse.serializeSecret (the printing side of the round-trip theorem
// Props.C12.serialized_secret_read_back), and the round trip itself on the real functions
func runNut10Serialize(c *Ctx, props []string) {
	r := c.Rng
	n := 3000
	if c.Thorough {
		n = 40000
	}
	var ops []Sx
	var impls []string
	for i := 0; i < n; i++ {
		v := n10RandValue(r)
		kind, ka := nut10.AnyoneCanSpend, "anyone"
		switch r.Intn(3) {
		case 0:
			kind, ka = nut10.P2PK, "p2pk"
		case 1:
			kind, ka = nut10.HTLC, "htlc"
		}
		var tx Sx = A("nil")
		if v.tags != nil {
			rows := make([]Sx, len(v.tags))
			for j, row := range v.tags {
				if len(row) == 0 && r.Bool() {
					v.tags[j] = nil
					rows[j] = A("nil")
					continue
				}
				el := make([]Sx, len(row))
				for k, x := range row {
					el[k] = S(x)
				}
				rows[j] = Ls(el)
			}
			tx = Ls(rows)
		}
		text, err := nut10.SerializeSecret(nut10.WellKnownSecret{Kind: kind, Data: nut10.SecretData{Nonce: v.nonce, Data: v.data, Tags: v.tags}})
		impl := "(err)"
		if err == nil {
			impl = Render(S(text))
		}
		ops = append(ops, L(A("spend.serialize-secret"), A(ka), S(v.nonce), S(v.data), tx))
		impls = append(impls, impl)
		// the round trip on the real functions
		back, err2 := nut10.DeserializeSecret(text)
		same := err2 == nil && back.Kind == kind && back.Data.Nonce == v.nonce && back.Data.Data == v.data && len(back.Data.Tags) == len(v.tags)
		if same {
			for j := range v.tags {
				if strings.Join(back.Data.Tags[j], "\x00") != strings.Join(v.tags[j], "\x00") || len(back.Data.Tags[j]) != len(v.tags[j]) {
					same = false
				}
			}
		}
		c.Hist("serialize", fmt.Sprintf("kind=%s round-trip=%v", ka, same))
		if !same {
			prop := "C12"
			if kind == nut10.HTLC {
				prop = "C13"
			}
			c.MonitorFail(prop, prop+"/nut10/serialize-deserialize-differs", "DeserializeSecret(SerializeSecret(v)) is not v for kind "+ka, map[string]any{"text": text, "nonce": v.nonce, "data": v.data, "tags": v.tags})
		}
	}
	ans := c.Drv.Batch(ops)
	for i := range ops {
		c.Case("serialize/"+strings.SplitN(impls[i], " ", 2)[0][:1], i < 50)
		if ans[i] != impls[i] {
			c.Disagree(props, Render(ops[i]), impls[i], ans[i], nil)
		}
	}
}

func runNut10(c *Ctx) {
	props := []string{"C12", "C13"}
	r := c.Rng
	nValid, nBad := 6000, 6000
	if c.Thorough {
		nValid, nBad = 80000, 80000
	}
	type tcase struct {
		text   string
		feats  string
		expect string // "" = no ground truth
		kind   string
	}
	var cases []tcase
	for _, s := range n10Shapes {
		cases = append(cases, tcase{text: s, feats: "shape"})
	}
	var valid []string
	for i := 0; i < nValid; i++ {
		v := n10RandValue(r)
		w := &n10Writer{r: r}
		switch r.Intn(6) {
		case 0: // the library's own serialisation
			if s, err := nut10.SerializeSecret(nut10.WellKnownSecret{Kind: map[string]nut10.SecretKind{"P2PK": nut10.P2PK, "HTLC": nut10.HTLC}[v.kind],
				Data: nut10.SecretData{Nonce: v.nonce, Data: v.data, Tags: v.tags}}); err == nil && (v.kind == "P2PK" || v.kind == "HTLC") {
				cases = append(cases, tcase{text: s, feats: "SerializeSecret", expect: n10Expect(v), kind: v.kind})
				valid = append(valid, s)
				continue
			}
		case 1:
			w.ws = true
			w.feats = append(w.feats, "ws")
		case 2:
			w.esc = 30
			w.feats = append(w.feats, "esc")
		case 3:
			w.caseKeys = true
			w.feats = append(w.feats, "case")
		case 4:
			w.ws, w.esc, w.caseKeys = true, 15, r.Bool()
			w.feats = append(w.feats, "ws", "esc")
		}
		text, exact := w.spell(v)
		tc := tcase{text: text, feats: strings.Join(w.feats, "+"), kind: v.kind}
		if tc.feats == "" {
			tc.feats = "compact"
		}
		if exact {
			tc.expect = n10Expect(v)
		}
		cases = append(cases, tc)
		valid = append(valid, text)
	}
	for i := 0; i < nBad && len(valid) > 0; i++ {
		text, how := n10Mutate(r, valid[r.Intn(len(valid))])
		if r.Chance(20) {
			var h2 string
			text, h2 = n10Mutate(r, text)
			how += "+" + h2
		}
		cases = append(cases, tcase{text: text, feats: "mutated/" + how})
	}
	runNut10Witness(c, props)
	runNut10Serialize(c, props)
	ops := make([]Sx, len(cases))
	for i, tc := range cases {
		ops[i] = L(A("spend.parse-secret"), S(tc.text))
	}
	ans := c.Drv.Batch(ops)
	for i, tc := range cases {
		impl := n10Deserialize(tc.text)
		outcome := strings.SplitN(strings.TrimPrefix(impl, "(secret "), " ", 2)[0]
		c.Case(tc.feats+"/"+outcome, true)
		c.Hist("spelling", tc.feats)
		c.Hist("outcome", outcome)
		if i%997 == 0 {
			c.Sample(map[string]any{"text": tc.text, "features": tc.feats, "impl": impl, "model": ans[i]})
		}
		replay := map[string]any{"secret_text": tc.text, "features": tc.feats}
		if ans[i] != impl {
			c.Disagree(props, Render(ops[i]), impl, ans[i], replay)
		}
		if tc.expect != "" {
			c.Hist("ground truth", "checked")
			if impl != tc.expect {
				prop := "C12"
				if tc.kind == "HTLC" {
					prop = "C13"
				}
				sig := prop + "/nut10/valid-spelling-misread"
				what := "a valid JSON spelling (" + tc.feats + ") of a NUT-10 secret of kind " + fmt.Sprintf("%q", tc.kind) + " is read as " + impl + " instead of " + tc.expect
				if impl == "plain" && (tc.kind == "P2PK" || tc.kind == "HTLC") {
					sig = prop + "/nut10/lock-not-recognised"
					what = "a valid JSON spelling (" + tc.feats + ") of a " + tc.kind + " secret is not recognised as a NUT-10 secret: the mint would treat the proof as unlocked"
				}
				c.MonitorFail(prop, sig, what, replay)
			}
		}
	}
}
