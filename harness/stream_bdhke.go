package main

import (
	"bytes"
	"crypto/sha256"
	"encoding/binary"
	"encoding/hex"
	"encoding/json"
	"fmt"
	"runtime"
	"strings"
	"sync"
	"unicode/utf8"

	"github.com/btcsuite/btcd/btcutil/hdkeychain"
	"github.com/btcsuite/btcd/chaincfg"
	"github.com/decred/dcrd/dcrec/secp256k1/v4"
	"github.com/elnosh/gonuts/cashu"
	"github.com/elnosh/gonuts/cashu/nuts/nut12"
	"github.com/elnosh/gonuts/crypto"
)

// Stream "bdhke" (C10, algebraic half of C04) — MONITOR-ONLY, no Lean driver command: the Lean side
// (Gonuts/Props/C10.lean, C04.lean) is abstract algebra over a prime-order module; this stream checks, on the REAL
// functions of /repo/crypto and /repo/cashu/nuts/nut12 over secp256k1, every identity and every rejection those
// theorems state, i.e. it validates the assumption "the Go code computes blind/sign/unblind/verify/dleq of the model
// in a group where the theorems' side conditions (g ≠ 0, Y ≠ 0, keys distinct and nonzero) hold".
func init() {
	register("bdhke", []string{"C10", "C04"},
		"tuple = (secret class: empty/1 byte/512 bytes/513+/non-UTF-8 bytes/hex64/NUT-10 JSON/UTF-8) x (blinding scalar class: 1, 2, n-1, n-2, small, >=n-reduced, random) x "+
			"(key: all 60 amounts of 3 keysets from crypto.GenerateKeyset(hdkeychain.NewMaster(seed)), walked in order) x (DLEQ nonces: repeated GenerateDLEQ, plus chosen edge nonces through a NUT-12 prover re-implementation); "+
			"per tuple: every positive identity (round trip, independence of r, DLEQ of the blind signature, DLEQ of the proof with r) on the real functions and on an independent "+
			"recomputation from library primitives, and every single-field tampering (e, s, r, A, B_, C_/C, secret, amount; several variants each) which must be REJECTED; "+
			"a case is distinct by (check kind, field, variant, secret class, scalar class)",
		runBdhke)
}

// ---------- small EC helpers on library primitives (independent of /repo/crypto) ----------

var bdN = func() []byte {
	b, _ := hex.DecodeString("fffffffffffffffffffffffffffffffebaaedce6af48a03bbfd25e8cd0364141")
	return b
}()

func bdScalar(b []byte) *secp256k1.PrivateKey { return secp256k1.PrivKeyFromBytes(b) }

func bdScalarInt(v uint64) *secp256k1.PrivateKey {
	var b [32]byte
	binary.BigEndian.PutUint64(b[24:], v)
	return bdScalar(b[:])
}

// n - v
func bdScalarNeg(v uint64) *secp256k1.PrivateKey {
	x := bdScalarInt(v)
	var s secp256k1.ModNScalar
	s.NegateVal(&x.Key)
	return secp256k1.NewPrivateKey(&s)
}

func bdFromJac(j *secp256k1.JacobianPoint) *secp256k1.PublicKey {
	j.ToAffine()
	return secp256k1.NewPublicKey(&j.X, &j.Y)
}

func bdMul(k *secp256k1.ModNScalar, p *secp256k1.PublicKey) *secp256k1.PublicKey {
	var pj, r secp256k1.JacobianPoint
	p.AsJacobian(&pj)
	secp256k1.ScalarMultNonConst(k, &pj, &r)
	return bdFromJac(&r)
}

func bdBase(k *secp256k1.ModNScalar) *secp256k1.PublicKey {
	var r secp256k1.JacobianPoint
	secp256k1.ScalarBaseMultNonConst(k, &r)
	return bdFromJac(&r)
}

func bdAdd(a, b *secp256k1.PublicKey) *secp256k1.PublicKey {
	var aj, bj, r secp256k1.JacobianPoint
	a.AsJacobian(&aj)
	b.AsJacobian(&bj)
	secp256k1.AddNonConst(&aj, &bj, &r)
	return bdFromJac(&r)
}

func bdNegPt(a *secp256k1.PublicKey) *secp256k1.PublicKey {
	var m secp256k1.ModNScalar
	m.SetInt(1)
	m.Negate()
	return bdMul(&m, a)
}

func bdHexPt(p *secp256k1.PublicKey) string  { return hex.EncodeToString(p.SerializeCompressed()) }
func bdHexSc(s *secp256k1.PrivateKey) string { return hex.EncodeToString(s.Serialize()) }

// hash_to_curve written from NUT-00 (not the repo's).
func bdSpecHashToCurve(msg []byte) *secp256k1.PublicKey {
	h := sha256.Sum256(append([]byte("Secp256k1_HashToCurve_Cashu_"), msg...))
	for ctr := uint32(0); ctr < 1<<16; ctr++ {
		var c [4]byte
		binary.LittleEndian.PutUint32(c[:], ctr)
		x := sha256.Sum256(append(append([]byte{}, h[:]...), c[:]...))
		p, err := secp256k1.ParsePubKey(append([]byte{0x02}, x[:]...))
		if err == nil {
			return p
		}
	}
	return nil
}

// DLEQ verification written from NUT-12 (with the hash REDUCED mod n, as in the Lean model). Returns (accept, hash>=n).
// bdAltPoints: other ways of turning the secret into a curve point
func bdAltPoints(secret string) map[string]*secp256k1.PublicKey {
	out := map[string]*secp256k1.PublicKey{}
	lift := func(x []byte) *secp256k1.PublicKey {
		pk, err := secp256k1.ParsePubKey(append([]byte{0x02}, x...))
		if err != nil {
			return nil
		}
		return pk
	}
	// deprecated Cashu hash_to_curve: h = sha256(msg); until 02||h is a point: h = sha256(h)
	{
		h := sha256.Sum256([]byte(secret))
		cur := h[:]
		for i := 0; i < 1<<12; i++ {
			if pk := lift(cur); pk != nil {
				out["legacy-iterated-sha256"] = pk
				break
			}
			n := sha256.Sum256(cur)
			cur = n[:]
		}
	}
	// NUT-00 without the domain separator
	{
		m := sha256.Sum256([]byte(secret))
		for ctr := uint32(0); ctr < 1<<12; ctr++ {
			cb := []byte{byte(ctr), byte(ctr >> 8), byte(ctr >> 16), byte(ctr >> 24)}
			h := sha256.Sum256(append(append([]byte{}, m[:]...), cb...))
			if pk := lift(h[:]); pk != nil {
				out["nut00-without-domain-separator"] = pk
				break
			}
		}
	}
	if pk, err := crypto.HashToCurve([]byte(strings.ToUpper(secret))); err == nil && strings.ToUpper(secret) != secret {
		out["h2c-of-upper-cased-secret"] = pk
	}
	hs := sha256.Sum256([]byte(secret))
	if pk, err := crypto.HashToCurve(hs[:]); err == nil {
		out["h2c-of-sha256-of-secret"] = pk
	}
	if raw, err := hex.DecodeString(secret); err == nil && len(raw) > 0 {
		if pk, err := crypto.HashToCurve(raw); err == nil {
			out["h2c-of-hex-decoded-secret"] = pk
		}
	}
	return out
}

func bdSpecVerifyDLEQ(e, s *secp256k1.PrivateKey, A, B_, C_ *secp256k1.PublicKey) (bool, bool) {
	var eNeg secp256k1.ModNScalar
	eNeg.NegateVal(&e.Key)
	R1 := bdAdd(bdBase(&s.Key), bdMul(&eNeg, A))
	R2 := bdAdd(bdMul(&s.Key, B_), bdMul(&eNeg, C_))
	var sb bytes.Buffer
	for _, p := range []*secp256k1.PublicKey{R1, R2, A, C_} {
		sb.WriteString(hex.EncodeToString(p.SerializeUncompressed()))
	}
	h := sha256.Sum256(sb.Bytes())
	var hs secp256k1.ModNScalar
	over := hs.SetByteSlice(h[:])
	return hs.Equals(&e.Key), over
}

// DLEQ prover written from NUT-12 with an EXPLICIT nonce (crypto.GenerateDLEQ draws its nonce from crypto/rand, so edge
// nonces can only be reached this way). Returns (e, s, hash>=n).
func bdSpecGenerateDLEQ(nonce, a *secp256k1.PrivateKey, B_, C_ *secp256k1.PublicKey) (*secp256k1.PrivateKey, *secp256k1.PrivateKey, bool) {
	R1 := bdBase(&nonce.Key)
	R2 := bdMul(&nonce.Key, B_)
	var sb bytes.Buffer
	for _, p := range []*secp256k1.PublicKey{R1, R2, bdBase(&a.Key), C_} {
		sb.WriteString(hex.EncodeToString(p.SerializeUncompressed()))
	}
	h := sha256.Sum256(sb.Bytes())
	var e, ea, sc secp256k1.ModNScalar
	over := e.SetByteSlice(h[:])
	ea.Mul2(&e, &a.Key)
	sc.Add2(&nonce.Key, &ea)
	return secp256k1.NewPrivateKey(&e), secp256k1.NewPrivateKey(&sc), over
}

// ---------- per-tuple record (tuples run in parallel; records are merged in tuple order) ----------

type bdCase struct {
	key        string
	nontrivial bool
}

type bdRec struct {
	cases  []bdCase
	hist   [][2]string
	fails  []MonitorFailure
	notes  []string
	sample any
	sc, rc string
	replay map[string]any
}

func (t *bdRec) h(table, key string) { t.hist = append(t.hist, [2]string{table, key}) }

// check counts one evaluation of class kind/field/variant; ok=false is a monitor failure.
func (t *bdRec) check(prop, kind, field, variant string, ok bool, what string, extra map[string]any) {
	t.cases = append(t.cases, bdCase{kind + "/" + field + "/" + variant + "|" + t.sc + "|" + t.rc, true})
	t.h("check", kind+"/"+field)
	t.h("variant", kind+"/"+field+"/"+variant)
	if !ok {
		rp := map[string]any{}
		for k, v := range t.replay {
			rp[k] = v
		}
		for k, v := range extra {
			rp[k] = v
		}
		rp["variant"] = variant
		sig := prop + "/" + kind + "/" + field
		t.fails = append(t.fails, MonitorFailure{prop, sig, what + " [" + variant + "]", rp})
	}
}

// guarded call of code under test: a panic is a failure of the named check.
func bdGuard(f func() bool) (res bool, panicked string) {
	defer func() {
		if r := recover(); r != nil {
			res, panicked = false, fmt.Sprint(r)
		}
	}()
	return f(), ""
}

type bdKeys struct {
	sets    []*crypto.MintKeyset
	amounts []uint64 // 2^0..2^59
}

func bdSecret(rng *Rng) (string, string) {
	switch rng.Intn(10) {
	case 0:
		return "", "empty"
	case 1:
		return string(rng.Bytes(512)), "len512-bytes"
	case 2:
		b := make([]byte, 512)
		for i := range b {
			b[i] = "0123456789abcdef"[rng.Intn(16)]
		}
		return string(b), "len512-ascii"
	case 3:
		return string(rng.Bytes(513 + rng.Intn(200))), "len513+"
	case 4:
		b := rng.Bytes(1 + rng.Intn(64))
		b[0] = 0xff // never valid UTF-8
		return string(b), "non-utf8"
	case 5:
		return string([]byte{byte(rng.Intn(256))}), "one-byte"
	case 6:
		return fmt.Sprintf(`["P2PK",{"nonce":"%s","data":"02%s","tags":[["sigflag","SIG_INPUTS"]]}]`,
			hex.EncodeToString(rng.Bytes(16)), hex.EncodeToString(rng.Bytes(32))), "nut10-json"
	case 7:
		return "ünïcödé-секрет-秘密-" + hex.EncodeToString(rng.Bytes(4)), "utf8"
	default:
		return hex.EncodeToString(rng.Bytes(32)), "hex64"
	}
}

func bdBlindScalar(rng *Rng) (*secp256k1.PrivateKey, string) {
	switch rng.Intn(10) {
	case 0:
		return bdScalarInt(1), "1"
	case 1:
		return bdScalarNeg(1), "n-1"
	case 2:
		return bdScalarInt(2), "2"
	case 3:
		return bdScalarNeg(2), "n-2"
	case 4:
		return bdScalarInt(3 + rng.U64()>>32), "small"
	case 5:
		// 32 bytes >= n: PrivKeyFromBytes reduces mod n
		b := bytes.Repeat([]byte{0xff}, 32)
		copy(b[24:], rng.Bytes(8))
		b[16] = 0xff
		return bdScalar(b), "ge-n-reduced"
	default:
		return bdScalar(rng.Bytes(32)), "random"
	}
}

func bdNonZeroScalar(rng *Rng) *secp256k1.PrivateKey {
	for {
		s := bdScalar(rng.Bytes(32))
		if !s.Key.IsZero() {
			return s
		}
	}
}

// scalar tamperings; returns variant -> new scalar (different from x mod n)
func bdTamperScalar(rng *Rng, x *secp256k1.PrivateKey) map[string]*secp256k1.PrivateKey {
	out := map[string]*secp256k1.PrivateKey{}
	b := x.Serialize()
	fb := append([]byte{}, b...)
	bit := rng.Intn(256)
	fb[bit/8] ^= 1 << uint(bit%8)
	out["flip-bit"] = bdScalar(fb)
	var one, p1, ng secp256k1.ModNScalar
	one.SetInt(1)
	p1.Add2(&x.Key, &one)
	out["plus1"] = secp256k1.NewPrivateKey(&p1)
	out["random"] = bdScalar(rng.Bytes(32))
	out["zero"] = bdScalarInt(0)
	ng.NegateVal(&x.Key)
	out["negated"] = secp256k1.NewPrivateKey(&ng)
	for k, v := range out {
		if v.Key.Equals(&x.Key) {
			delete(out, k)
		}
	}
	return out
}

func bdEditSecret(rng *Rng, s string) map[string]string {
	out := map[string]string{}
	b := []byte(s)
	if len(b) > 0 {
		f := append([]byte{}, b...)
		i := rng.Intn(len(f))
		f[i] ^= 1 << uint(rng.Intn(8))
		out["flip-bit"] = string(f)
		out["truncate"] = string(b[:len(b)-1])
	}
	out["append-byte"] = s + string([]byte{byte(rng.Intn(256))})
	out["append-nul"] = s + "\x00"
	out["other"] = hex.EncodeToString(rng.Bytes(32))
	return out
}

func sortedStr[V any](m map[string]V) []string { return sortedKeys(m) }

func runBdhke(c *Ctx) {
	tuples := 2160 // 12 passes over all 180 keys
	nonces := 2
	if c.Thorough {
		tuples = 18000 // 100 passes, per shard
		nonces = 4
	}
	// ---- keysets: 2 indices under one master, 1 under another
	keys := &bdKeys{}
	for i := 0; i < crypto.MAX_ORDER; i++ {
		keys.amounts = append(keys.amounts, uint64(1)<<uint(i))
	}
	for len(keys.sets) < 3 {
		seed := c.Rng.Bytes(32)
		master, err := hdkeychain.NewMaster(seed, &chaincfg.MainNetParams)
		if err != nil {
			continue
		}
		idx := uint32(c.Rng.Intn(1000))
		for j := uint32(0); j < 2 && len(keys.sets) < 3; j++ {
			ks, err := crypto.GenerateKeyset(master, idx+j, 0, true)
			if err != nil {
				c.MonitorFail("C10", "C10/setup/GenerateKeyset", err.Error(), map[string]any{"seed": hex.EncodeToString(seed), "index": idx + j})
				return
			}
			keys.sets = append(keys.sets, ks)
		}
	}
	// ---- hypotheses of C04_mutation_rejected / verify_wrong_key checked on the actual keysets:
	// all 180 private keys nonzero and pairwise distinct, public = private*G, public keys pairwise distinct.
	{
		seenPriv := map[string]string{}
		seenPub := map[string]string{}
		ids := map[string]bool{}
		for si, ks := range keys.sets {
			ids[ks.Id] = true
			ok := len(ks.Keys) == crypto.MAX_ORDER
			for _, a := range keys.amounts {
				kp, present := ks.Keys[a]
				if !present {
					ok = false
					continue
				}
				name := fmt.Sprintf("%d/%d", si, a)
				ph, qh := bdHexSc(kp.PrivateKey), bdHexPt(kp.PublicKey)
				_, dupP := seenPriv[ph]
				_, dupQ := seenPub[qh]
				good := !kp.PrivateKey.Key.IsZero() && !dupP && !dupQ && kp.PublicKey.IsEqual(bdBase(&kp.PrivateKey.Key)) && kp.PublicKey.IsOnCurve()
				seenPriv[ph], seenPub[qh] = name, name
				c.Case("hyp/key-injective-nonzero", true)
				c.Hist("check", "hyp/key-injective-nonzero")
				if !good {
					c.MonitorFail("C04", "C04/hyp/key-injective-nonzero", "keyset keys are not nonzero/pairwise distinct/consistent: "+name,
						map[string]any{"keyset": ks.Id, "amount": a})
				}
			}
			if !ok {
				c.MonitorFail("C04", "C04/hyp/keyset-shape", "keyset does not have exactly the 60 power-of-two amounts", map[string]any{"keyset": ks.Id})
			}
		}
		if len(ids) != 3 {
			c.MonitorFail("C04", "C04/hyp/keyset-ids-distinct", "keyset ids collide", nil)
		}
		// g ≠ 0 and n•g = 0 in the model's terms: (n-1)G + G is the identity, (n-1)G = -G
		nm1 := bdScalarNeg(1)
		G := bdBase(&bdScalarInt(1).Key)
		c.Case("hyp/group-order", true)
		c.Hist("check", "hyp/group-order")
		if !bdBase(&nm1.Key).IsEqual(bdNegPt(G)) || !G.IsOnCurve() || !bytes.Equal(nm1.Serialize(), func() []byte {
			b := append([]byte{}, bdN...)
			b[31]--
			return b
		}()) {
			c.MonitorFail("C10", "C10/hyp/group-order", "(n-1)G != -G or scalar n-1 mis-encoded", nil)
		}
	}

	// ---- tuples in parallel, deterministic per-tuple PRNG
	rngs := make([]*Rng, tuples)
	for i := range rngs {
		rngs[i] = c.Rng.Fork()
	}
	recs := make([]*bdRec, tuples)
	var wg sync.WaitGroup
	work := make(chan int, tuples)
	for i := 0; i < tuples; i++ {
		work <- i
	}
	close(work)
	workers := runtime.NumCPU()
	if workers > 16 {
		workers = 16
	}
	for w := 0; w < workers; w++ {
		wg.Add(1)
		go func() {
			defer wg.Done()
			for i := range work {
				rec := &bdRec{}
				func() {
					defer func() {
						if r := recover(); r != nil {
							rec.fails = append(rec.fails, MonitorFailure{"C10", "C10/panic", fmt.Sprintf("panic in tuple %d: %v", i, r), rec.replay})
						}
					}()
					bdTuple(i, rngs[i], keys, nonces, c.Seed, rec)
				}()
				recs[i] = rec
			}
		}()
	}
	wg.Wait()
	for i, rec := range recs {
		for _, cs := range rec.cases {
			c.Case(cs.key, cs.nontrivial)
		}
		for _, h := range rec.hist {
			c.Hist(h[0], h[1])
		}
		for _, f := range rec.fails {
			c.MonitorFail(f.Prop, f.Signature, f.What, f.Replay)
		}
		for _, n := range rec.notes {
			if len(c.Res.Notes) < 10 {
				c.Res.Notes = append(c.Res.Notes, n)
			}
		}
		if i < 3 && rec.sample != nil {
			c.Sample(rec.sample)
		}
	}
}

func bdTuple(i int, rng *Rng, keys *bdKeys, nonces int, seed uint64, t *bdRec) {
	si := (i / crypto.MAX_ORDER) % len(keys.sets)
	ai := i % crypto.MAX_ORDER
	ks := keys.sets[si]
	amount := keys.amounts[ai]
	k, K := ks.Keys[amount].PrivateKey, ks.Keys[amount].PublicKey
	secret, sc := bdSecret(rng)
	r, rc := bdBlindScalar(rng)
	t.sc, t.rc = sc, rc
	t.replay = map[string]any{"seed": seed, "tuple": i, "keyset": ks.Id, "keyset_index": si, "amount": amount,
		"secret_hex": hex.EncodeToString([]byte(secret)), "r": bdHexSc(r), "k": bdHexSc(k)}
	t.h("secret-class", sc)
	t.h("scalar-class", rc)
	t.h("keyset", fmt.Sprintf("%d", si))
	t.h("amount-log2", fmt.Sprintf("%02d", ai))
	kBefore, rBefore := bdHexSc(k), bdHexSc(r)

	// other keys
	aj := (ai + 1 + rng.Intn(crypto.MAX_ORDER-1)) % crypto.MAX_ORDER // another amount, same keyset
	adj := (ai + 1) % crypto.MAX_ORDER
	sj := (si + 1 + rng.Intn(len(keys.sets)-1)) % len(keys.sets) // another keyset
	type altKey struct {
		name string
		kp   crypto.KeyPair
		amt  uint64
		set  int
	}
	alts := []altKey{
		{"other-amount", ks.Keys[keys.amounts[aj]], keys.amounts[aj], si},
		{"adjacent-amount", ks.Keys[keys.amounts[adj]], keys.amounts[adj], si},
		{"other-keyset-same-amount", keys.sets[sj].Keys[amount], amount, sj},
		{"other-keyset-other-amount", keys.sets[sj].Keys[keys.amounts[aj]], keys.amounts[aj], sj},
	}

	// ================= BDHKE round trip =================
	Y, err := crypto.HashToCurve([]byte(secret))
	if err != nil {
		t.check("C10", "bdhke", "hash-to-curve", "total", false, "HashToCurve failed: "+err.Error(), nil)
		return
	}
	Ys := bdSpecHashToCurve([]byte(secret))
	t.check("C10", "bdhke", "hash-to-curve", "spec-equal-nonidentity", Ys != nil && Y.IsEqual(Ys) && Y.IsOnCurve(),
		"HashToCurve differs from the NUT-00 recomputation or is not a curve point", nil)

	B_, r2, err := crypto.BlindMessage(secret, r)
	if err != nil {
		t.check("C10", "bdhke", "blind", "total", false, "BlindMessage failed: "+err.Error(), nil)
		return
	}
	t.check("C10", "bdhke", "blind", "B_=Y+rG", r2 == r && B_.IsEqual(bdAdd(Y, bdBase(&r.Key))), "BlindMessage != Y + rG", map[string]any{"B_": bdHexPt(B_)})
	C_ := crypto.SignBlindedMessage(B_, k)
	t.check("C10", "bdhke", "sign", "C_=kB_", C_.IsEqual(bdMul(&k.Key, B_)), "SignBlindedMessage != k*B_", map[string]any{"C_": bdHexPt(C_)})
	C := crypto.UnblindSignature(C_, r, K)
	var rNeg secp256k1.ModNScalar
	rNeg.NegateVal(&r.Key)
	t.check("C10", "bdhke", "unblind", "C=C_-rK", C.IsEqual(bdAdd(C_, bdMul(&rNeg, K))), "UnblindSignature != C_ - r*K", map[string]any{"C": bdHexPt(C)})
	// theorem unblind_sign_blind
	t.check("C10", "bdhke", "roundtrip", "C=kY", C.IsEqual(bdMul(&k.Key, Y)), "unblind(sign(blind(Y,r),k),r,K) != k*Y", map[string]any{"C": bdHexPt(C)})
	// theorem verify_unblind / C04_honest_accepted
	honest := crypto.Verify(secret, k, C)
	t.check("C10", "bdhke", "roundtrip", "verify", honest, "Verify rejects the honestly unblinded signature", map[string]any{"C": bdHexPt(C)})
	t.check("C04", "gate", "honest", "verify", honest, "Verify rejects the honestly unblinded signature", map[string]any{"C": bdHexPt(C)})
	// the compressed hex the wallet stores parses back to the same point
	if Cp, err := secp256k1.ParsePubKey(C.SerializeCompressed()); err != nil || !Cp.IsEqual(C) {
		t.check("C10", "bdhke", "roundtrip", "serialize-parse", false, "C does not survive SerializeCompressed/ParsePubKey", nil)
	} else {
		t.check("C10", "bdhke", "roundtrip", "serialize-parse", crypto.Verify(secret, k, Cp), "parsed C rejected", nil)
	}
	// theorem unblind_indep_r: a second blinding factor gives the identical C
	rB, rBc := bdBlindScalar(rng)
	if rB.Key.Equals(&r.Key) {
		rB, rBc = bdNonZeroScalar(rng), "random"
	}
	{
		B2, _, _ := crypto.BlindMessage(secret, rB)
		C2 := crypto.UnblindSignature(crypto.SignBlindedMessage(B2, k), rB, K)
		t.check("C10", "bdhke", "indep-r", "r2="+rBc, C2.IsEqual(C) && !B2.IsEqual(B_), "unblinded C depends on r (or B_ does not)", map[string]any{"r2": bdHexSc(rB)})
	}

	// ================= Verify: the negative side (verify_wrong_key / _secret / _point, C04_mutation_rejected) =================
	for _, a := range alts {
		acc := crypto.Verify(secret, a.kp.PrivateKey, C)
		t.check("C10", "verify-reject", "key", a.name, !acc, "Verify accepts under another key", map[string]any{"other_k": bdHexSc(a.kp.PrivateKey)})
		t.check("C04", "gate-reject", "amount-or-id", a.name, !acc, "Verify accepts under another key", map[string]any{"other_k": bdHexSc(a.kp.PrivateKey)})
	}
	edits := bdEditSecret(rng, secret)
	for _, v := range sortedStr(edits) {
		acc := crypto.Verify(edits[v], k, C)
		t.check("C10", "verify-reject", "secret", v, !acc, "Verify accepts another secret", map[string]any{"secret2_hex": hex.EncodeToString([]byte(edits[v]))})
		t.check("C04", "gate-reject", "secret", v, !acc, "Verify accepts another secret", map[string]any{"secret2_hex": hex.EncodeToString([]byte(edits[v]))})
	}
	otherSecret := edits["other"]
	Yo, _ := crypto.HashToCurve([]byte(otherSecret))
	wrongC := map[string]*secp256k1.PublicKey{
		"negated":          bdNegPt(C),
		"blinded-C_":       C_,
		"other-secret-sig": bdMul(&k.Key, Yo),
		"other-key-sig":    bdMul(&alts[0].kp.PrivateKey.Key, Y),
		"random-point":     bdBase(&bdNonZeroScalar(rng).Key),
		"C+G":              bdAdd(C, bdBase(&bdScalarInt(1).Key)),
		"Y":                Y,
		"K":                K,
		"unblind-wrong-r":  crypto.UnblindSignature(C_, rB, K),
		"unblind-wrong-K":  crypto.UnblindSignature(C_, r, alts[0].kp.PublicKey),
		"doubled":          bdAdd(C, C),
	}
	// signatures over points derived from the SAME secret in another way (the mint signs blind, so a client can obtain
	// k*P for any point P it likes): the pre-NUT-00 hash_to_curve (iterated SHA-256, no domain separator, no counter),
	// NUT-00's loop without the domain separator, hash_to_curve of the SHA-256 / of the upper-cased secret.
	// Only k*hash_to_curve(secret) may be honoured (seeded change C04-7).
	for name, P := range bdAltPoints(secret) {
		if P != nil && !P.IsEqual(Y) {
			wrongC["alt-derivation:"+name] = bdMul(&k.Key, P)
		}
	}
	for _, v := range sortedStr(wrongC) {
		if wrongC[v].IsEqual(C) {
			continue
		}
		acc := crypto.Verify(secret, k, wrongC[v])
		t.check("C10", "verify-reject", "C", v, !acc, "Verify accepts another point", map[string]any{"C2": bdHexPt(wrongC[v])})
		t.check("C04", "gate-reject", "C", v, !acc, "Verify accepts another point", map[string]any{"C2": bdHexPt(wrongC[v])})
	}

	// ================= DLEQ =================
	ksPub := crypto.WalletKeyset{Id: ks.Id, PublicKeys: map[uint64]*secp256k1.PublicKey{}}
	for a, kp := range ks.Keys {
		ksPub.PublicKeys[a] = kp.PublicKey
	}
	// --- dleq_complete is "for EVERY nonce": proofs made by the NUT-12 re-implementation with chosen nonces (edge classes
	//     of bdBlindScalar: 1, 2, n-1, n-2, small, >=n reduced, random) must be accepted by the REAL verifiers
	for j := 0; j < nonces; j++ {
		nc, ncl := bdBlindScalar(rng)
		if nc.Key.IsZero() {
			continue
		}
		e, s, over := bdSpecGenerateDLEQ(nc, k, B_, C_)
		if over {
			t.h("corner", "hash>=n")
			continue
		}
		m := map[string]any{"nonce": bdHexSc(nc), "e": bdHexSc(e), "s": bdHexSc(s), "B_": bdHexPt(B_), "C_": bdHexPt(C_)}
		t.check("C10", "dleq-accept", "spec-prover/VerifyDLEQ", "nonce="+ncl, crypto.VerifyDLEQ(e, s, K, B_, C_), "VerifyDLEQ rejects a NUT-12 proof made with a chosen nonce", m)
		pr := cashu.Proof{Amount: amount, Id: ks.Id, Secret: secret, C: bdHexPt(C), DLEQ: &cashu.DLEQProof{E: bdHexSc(e), S: bdHexSc(s), R: bdHexSc(r)}}
		t.check("C10", "dleq-accept", "spec-prover/VerifyProofDLEQ", "nonce="+ncl, nut12.VerifyProofDLEQ(pr, K), "VerifyProofDLEQ rejects a NUT-12 proof made with a chosen nonce", m)
	}
	for nonce := 0; nonce < nonces; nonce++ {
		full := nonce == 0
		e, s := crypto.GenerateDLEQ(k, B_, C_)
		eh, sh, rh := bdHexSc(e), bdHexSc(s), bdHexSc(r)
		ex := map[string]any{"e": eh, "s": sh, "B_": bdHexPt(B_), "C_": bdHexPt(C_), "C": bdHexPt(C), "A": bdHexPt(K)}
		// --- positive: dleq_complete / mint_dleq_complete / proofDleq_complete
		t.check("C10", "dleq-accept", "VerifyDLEQ", "honest", crypto.VerifyDLEQ(e, s, K, B_, C_), "VerifyDLEQ rejects GenerateDLEQ's proof", ex)
		specOK, over := bdSpecVerifyDLEQ(e, s, K, B_, C_)
		t.check("C10", "dleq-accept", "spec-recomputation", "honest", specOK, "independent NUT-12 recomputation rejects GenerateDLEQ's proof", ex)
		if over {
			t.notes = append(t.notes, "hash >= n corner reached (raw-vs-reduced comparison in VerifyDLEQ), tuple "+fmt.Sprint(i))
			t.h("corner", "hash>=n")
		}
		dl := cashu.DLEQProof{E: eh, S: sh}
		t.check("C10", "dleq-accept", "VerifyBlindSignatureDLEQ", "honest", nut12.VerifyBlindSignatureDLEQ(dl, K, bdHexPt(B_), bdHexPt(C_)),
			"wallet-side VerifyBlindSignatureDLEQ rejects the mint-style signature", ex)
		proof := cashu.Proof{Amount: amount, Id: ks.Id, Secret: secret, C: bdHexPt(C), DLEQ: &cashu.DLEQProof{E: eh, S: sh, R: rh}}
		t.check("C10", "dleq-accept", "VerifyProofDLEQ", "honest", nut12.VerifyProofDLEQ(proof, K), "third-party VerifyProofDLEQ rejects the honest proof with r", ex)
		t.check("C10", "dleq-accept", "VerifyProofsDLEQ", "honest", nut12.VerifyProofsDLEQ(cashu.Proofs{proof}, ksPub), "VerifyProofsDLEQ rejects the honest proof with r", ex)

		// --- what travels over the wire: JSON round trip of the blind signature and of the proof (valid UTF-8 secrets only:
		//     encoding/json replaces invalid UTF-8, such a secret cannot be transported at all)
		if full {
			bs := cashu.BlindedSignature{Amount: amount, Id: ks.Id, C_: bdHexPt(C_), DLEQ: &dl}
			var bs2 cashu.BlindedSignature
			jb, err1 := json.Marshal(bs)
			err2 := json.Unmarshal(jb, &bs2)
			t.check("C10", "dleq-accept", "VerifyBlindSignatureDLEQ", "json-roundtrip", err1 == nil && err2 == nil && bs2.DLEQ != nil &&
				nut12.VerifyBlindSignatureDLEQ(*bs2.DLEQ, ksPub.PublicKeys[bs2.Amount], bdHexPt(B_), bs2.C_), "blind signature DLEQ rejected after JSON round trip", ex)
			if utf8.ValidString(secret) {
				var p2 cashu.Proof
				jp, err1 := json.Marshal(proof)
				err2 := json.Unmarshal(jp, &p2)
				t.check("C10", "dleq-accept", "VerifyProofsDLEQ", "json-roundtrip", err1 == nil && err2 == nil && p2.DLEQ != nil && p2.Secret == secret &&
					nut12.VerifyProofsDLEQ(cashu.Proofs{p2}, ksPub), "proof DLEQ rejected after JSON round trip", ex)
			}
		}

		rej := func(field, variant string, accepted bool, extra map[string]any) {
			m := map[string]any{}
			for k2, v := range ex {
				m[k2] = v
			}
			for k2, v := range extra {
				m[k2] = v
			}
			t.check("C10", "dleq-tamper", field, variant, !accepted, "tampered DLEQ ACCEPTED: field "+field, m)
		}
		pick := func() bool { return full || rng.Intn(6) == 0 }

		// --- e, s on the blind-signature DLEQ (VerifyDLEQ, VerifyBlindSignatureDLEQ) and on the proof DLEQ
		for _, fs := range []struct {
			field string
			x     *secp256k1.PrivateKey
		}{{"e", e}, {"s", s}, {"r", r}} {
			tm := bdTamperScalar(rng, fs.x)
			for _, v := range sortedStr(tm) {
				if !pick() {
					continue
				}
				y := tm[v]
				yh := bdHexSc(y)
				switch fs.field {
				case "e":
					rej("e", "VerifyDLEQ/"+v, crypto.VerifyDLEQ(y, s, K, B_, C_), map[string]any{"e2": yh})
					rej("e", "VerifyBlindSignatureDLEQ/"+v, nut12.VerifyBlindSignatureDLEQ(cashu.DLEQProof{E: yh, S: sh}, K, bdHexPt(B_), bdHexPt(C_)), map[string]any{"e2": yh})
					p2 := proof
					p2.DLEQ = &cashu.DLEQProof{E: yh, S: sh, R: rh}
					rej("e", "VerifyProofDLEQ/"+v, nut12.VerifyProofDLEQ(p2, K), map[string]any{"e2": yh})
				case "s":
					rej("s", "VerifyDLEQ/"+v, crypto.VerifyDLEQ(e, y, K, B_, C_), map[string]any{"s2": yh})
					rej("s", "VerifyBlindSignatureDLEQ/"+v, nut12.VerifyBlindSignatureDLEQ(cashu.DLEQProof{E: eh, S: yh}, K, bdHexPt(B_), bdHexPt(C_)), map[string]any{"s2": yh})
					p2 := proof
					p2.DLEQ = &cashu.DLEQProof{E: eh, S: yh, R: rh}
					rej("s", "VerifyProofDLEQ/"+v, nut12.VerifyProofDLEQ(p2, K), map[string]any{"s2": yh})
				case "r":
					p2 := proof
					p2.DLEQ = &cashu.DLEQProof{E: eh, S: sh, R: yh}
					ok, pn := bdGuard(func() bool { return nut12.VerifyProofDLEQ(p2, K) })
					if pn != "" {
						// r = 0 makes B' = Y + 0G; the library represents 0G as (0,0); a panic would be a finding
						rej("r", "VerifyProofDLEQ/"+v+"/panic", true, map[string]any{"r2": yh, "panic": pn})
					} else {
						rej("r", "VerifyProofDLEQ/"+v, ok, map[string]any{"r2": yh})
					}
				}
			}
		}
		if pick() {
			p2 := proof
			p2.DLEQ = &cashu.DLEQProof{E: eh, S: sh}
			rej("r", "VerifyProofDLEQ/removed", nut12.VerifyProofDLEQ(p2, K), nil)
			p2.DLEQ = &cashu.DLEQProof{E: "zz" + eh[2:], S: sh, R: rh}
			rej("e", "VerifyProofDLEQ/non-hex", nut12.VerifyProofDLEQ(p2, K), nil)
			rej("s", "VerifyBlindSignatureDLEQ/non-hex", nut12.VerifyBlindSignatureDLEQ(cashu.DLEQProof{E: eh, S: "zz" + sh[2:]}, K, bdHexPt(B_), bdHexPt(C_)), nil)
		}

		// --- A replaced
		wrongA := map[string]*secp256k1.PublicKey{"negated": bdNegPt(K), "random-point": bdBase(&bdNonZeroScalar(rng).Key), "A+G": bdAdd(K, bdBase(&bdScalarInt(1).Key))}
		for _, a := range alts {
			wrongA[a.name] = a.kp.PublicKey
		}
		for _, v := range sortedStr(wrongA) {
			if !pick() || wrongA[v].IsEqual(K) {
				continue
			}
			A2 := wrongA[v]
			rej("A", "VerifyDLEQ/"+v, crypto.VerifyDLEQ(e, s, A2, B_, C_), map[string]any{"A2": bdHexPt(A2)})
			rej("A", "VerifyBlindSignatureDLEQ/"+v, nut12.VerifyBlindSignatureDLEQ(dl, A2, bdHexPt(B_), bdHexPt(C_)), map[string]any{"A2": bdHexPt(A2)})
			rej("A", "VerifyProofDLEQ/"+v, nut12.VerifyProofDLEQ(proof, A2), map[string]any{"A2": bdHexPt(A2)})
		}
		// --- B_ replaced
		B_other, _, _ := crypto.BlindMessage(secret, rB)
		wrongB := map[string]*secp256k1.PublicKey{"negated": bdNegPt(B_), "random-point": bdBase(&bdNonZeroScalar(rng).Key),
			"B_+G": bdAdd(B_, bdBase(&bdScalarInt(1).Key)), "unblinded-Y": Y, "other-r": B_other, "swapped-with-C_": C_}
		for _, v := range sortedStr(wrongB) {
			if !pick() || wrongB[v].IsEqual(B_) {
				continue
			}
			B2 := wrongB[v]
			rej("B_", "VerifyDLEQ/"+v, crypto.VerifyDLEQ(e, s, K, B2, C_), map[string]any{"B2": bdHexPt(B2)})
			rej("B_", "VerifyBlindSignatureDLEQ/"+v, nut12.VerifyBlindSignatureDLEQ(dl, K, bdHexPt(B2), bdHexPt(C_)), map[string]any{"B2": bdHexPt(B2)})
		}
		// --- C_ replaced (incl. a signature made with ANOTHER key on the same B_)
		wrongC_ := map[string]*secp256k1.PublicKey{"negated": bdNegPt(C_), "random-point": bdBase(&bdNonZeroScalar(rng).Key),
			"C_+G": bdAdd(C_, bdBase(&bdScalarInt(1).Key)), "unblinded-C": C, "other-key-sig": crypto.SignBlindedMessage(B_, alts[0].kp.PrivateKey),
			"other-keyset-sig": crypto.SignBlindedMessage(B_, alts[2].kp.PrivateKey), "swapped-with-B_": B_}
		for _, v := range sortedStr(wrongC_) {
			if !pick() || wrongC_[v].IsEqual(C_) {
				continue
			}
			C2 := wrongC_[v]
			rej("C_", "VerifyDLEQ/"+v, crypto.VerifyDLEQ(e, s, K, B_, C2), map[string]any{"C_2": bdHexPt(C2)})
			rej("C_", "VerifyBlindSignatureDLEQ/"+v, nut12.VerifyBlindSignatureDLEQ(dl, K, bdHexPt(B_), bdHexPt(C2)), map[string]any{"C_2": bdHexPt(C2)})
		}
		// --- the property's headline: the mint signs with a DIFFERENT key k' and proves DLEQ honestly for k';
		//     verification against the PUBLISHED key must fail (dleq_wrong_key_unique_challenge), and succeed against k'G.
		for _, a := range []altKey{alts[0], alts[2]} {
			if !pick() {
				continue
			}
			Cw := crypto.SignBlindedMessage(B_, a.kp.PrivateKey)
			ew, sw := crypto.GenerateDLEQ(a.kp.PrivateKey, B_, Cw)
			m := map[string]any{"signing_k": bdHexSc(a.kp.PrivateKey), "e2": bdHexSc(ew), "s2": bdHexSc(sw), "C_2": bdHexPt(Cw)}
			rej("wrong-signing-key", "VerifyDLEQ/"+a.name, crypto.VerifyDLEQ(ew, sw, K, B_, Cw), m)
			rej("wrong-signing-key", "VerifyBlindSignatureDLEQ/"+a.name,
				nut12.VerifyBlindSignatureDLEQ(cashu.DLEQProof{E: bdHexSc(ew), S: bdHexSc(sw)}, K, bdHexPt(B_), bdHexPt(Cw)), m)
			// the wallet would unblind with the published K and attach r: a third party must reject that proof too
			Cu := crypto.UnblindSignature(Cw, r, K)
			pw := cashu.Proof{Amount: amount, Id: ks.Id, Secret: secret, C: bdHexPt(Cu), DLEQ: &cashu.DLEQProof{E: bdHexSc(ew), S: bdHexSc(sw), R: rh}}
			rej("wrong-signing-key", "VerifyProofDLEQ/"+a.name, nut12.VerifyProofDLEQ(pw, K), m)
			t.check("C10", "dleq-accept", "VerifyDLEQ", "honest-under-other-key", crypto.VerifyDLEQ(ew, sw, a.kp.PublicKey, B_, Cw), "DLEQ of k' rejected under k'G", m)
		}
		// --- proof DLEQ: secret edited, C replaced, amount changed (=> other A via the keyset map), keyset changed
		for _, v := range sortedStr(edits) {
			if !pick() {
				continue
			}
			p2 := proof
			p2.Secret = edits[v]
			rej("secret", "VerifyProofDLEQ/"+v, nut12.VerifyProofDLEQ(p2, K), map[string]any{"secret2_hex": hex.EncodeToString([]byte(edits[v]))})
		}
		for _, v := range sortedStr(wrongC) {
			if !pick() || wrongC[v].IsEqual(C) {
				continue
			}
			p2 := proof
			p2.C = bdHexPt(wrongC[v])
			rej("C", "VerifyProofDLEQ/"+v, nut12.VerifyProofDLEQ(p2, K), map[string]any{"C2": p2.C})
		}
		if pick() {
			p2 := proof
			p2.C = "02" + proof.C[2:len(proof.C)-2] // short: not a point encoding
			rej("C", "VerifyProofDLEQ/short", nut12.VerifyProofDLEQ(p2, K), nil)
			p2.C = "zz" + proof.C[2:]
			rej("C", "VerifyProofDLEQ/non-hex", nut12.VerifyProofDLEQ(p2, K), nil)
		}
		for _, a := range alts {
			if !pick() {
				continue
			}
			p2 := proof
			if a.set == si {
				p2.Amount = a.amt
				rej("amount", "VerifyProofsDLEQ/"+a.name, nut12.VerifyProofsDLEQ(cashu.Proofs{p2}, ksPub), map[string]any{"amount2": a.amt})
			} else {
				other := crypto.WalletKeyset{Id: keys.sets[a.set].Id, PublicKeys: map[uint64]*secp256k1.PublicKey{}}
				for am, kp := range keys.sets[a.set].Keys {
					other.PublicKeys[am] = kp.PublicKey
				}
				p2.Id = other.Id
				p2.Amount = a.amt
				rej("keyset", "VerifyProofsDLEQ/"+a.name, nut12.VerifyProofsDLEQ(cashu.Proofs{p2}, other), map[string]any{"amount2": a.amt, "keyset2": other.Id})
			}
		}
		if pick() {
			for _, am := range []uint64{0, 3, amount + 1, 1 << 60, ^uint64(0)} {
				if _, isKey := ksPub.PublicKeys[am]; isKey {
					continue
				}
				p2 := proof
				p2.Amount = am
				rej("amount", "VerifyProofsDLEQ/not-a-key", nut12.VerifyProofsDLEQ(cashu.Proofs{p2}, ksPub), map[string]any{"amount2": am})
			}
			// a tampered proof hidden behind honest ones is still found
			p2 := proof
			p2.Amount = alts[0].amt
			rej("amount", "VerifyProofsDLEQ/second-of-two", nut12.VerifyProofsDLEQ(cashu.Proofs{proof, p2}, ksPub), nil)
		}
		// --- informational: a change of the ENCODING that leaves the scalar unchanged is not a change of e/s
		//     (hex.DecodeString is case-insensitive; PrivKeyFromBytes keeps the first 32 bytes and reduces mod n)
		if full {
			obs := func(name string, d cashu.DLEQProof) {
				t.h("encoding-malleability", fmt.Sprintf("%s/accepted=%v", name, nut12.VerifyBlindSignatureDLEQ(d, K, bdHexPt(B_), bdHexPt(C_))))
			}
			// NUT-12 makes the DLEQ optional: a proof whose DLEQ was stripped altogether passes VerifyProofsDLEQ (theorem proofsDleq_stripped)
			pn := proof
			pn.DLEQ = nil
			t.h("dleq-optional", fmt.Sprintf("stripped-dleq/VerifyProofsDLEQ-accepted=%v", nut12.VerifyProofsDLEQ(cashu.Proofs{pn}, ksPub)))
			obs("e-uppercase-hex", cashu.DLEQProof{E: strings.ToUpper(eh), S: sh})
			obs("e-33-bytes-extra-suffix", cashu.DLEQProof{E: eh + "ff", S: sh})
			obs("s-33-bytes-extra-suffix", cashu.DLEQProof{E: eh, S: sh + "00"})
			obs("s-leading-zero-byte-prefix", cashu.DLEQProof{E: eh, S: "00" + sh}) // shifts the 32-byte window: a different scalar
		}
		if nonce == 0 && i < 3 {
			t.sample = map[string]any{"secret_class": sc, "scalar_class": rc, "keyset": ks.Id, "amount": amount, "B_": bdHexPt(B_), "C_": bdHexPt(C_),
				"C": bdHexPt(C), "e": eh, "s": sh, "r": rh, "verify": true, "dleq": true}
		}
	}
	// the functions under test must not have modified their scalar arguments (GenerateDLEQ multiplies in place)
	t.check("C10", "bdhke", "args", "unmodified", bdHexSc(k) == kBefore && bdHexSc(r) == rBefore, "a crypto function modified k or r in place", nil)
}
