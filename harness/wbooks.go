package main

// Shared machinery of the wallet bookkeeping streams (wallet-hist, wallet-crash; properties C17 and C19):
// several REAL wallets (wallet.LoadWallet on real bbolt) against 1-2 REAL mints (in-process, scripted
// Lightning) over the in-process network, plus the model-free monitors:
//
//	C17  W_balance   GetBalance = sum of the spendable bucket, every spendable proof UNSPENT at its mint
//	     W_distinct  spendable and pending buckets of all wallets hold pairwise distinct secrets
//	     W_pending   pending bucket = proofs handed out by Send / locked by a Melt and not yet reconciled
//	     W_conserve  value outstanding at each mint (issued - redeemed, read from the mint's storage) =
//	                 value of the distinct not-spent proofs in wallet buckets and tokens the harness holds;
//	                 minted in = outstanding + inputs of paid melts + swap fees (from the transport log)
//	C19  every B_ submitted to /v1/mint, /v1/swap, /v1/melt must not have been signed before;
//	     stored counter > every signed counter of that (seed, keyset);
//	     Restore(mnemonic) into an empty directory recovers exactly the mint-side unspent + pending value
//	     of the seed's outputs (the harness derives the NUT-13 outputs itself and reads the mint's tables)
//	     and leaves a counter < first unsigned counter + 300.
//
// Everything random derives from c.Rng (wallet mnemonics are written into the bbolt file before LoadWallet).

import (
	"encoding/hex"
	"encoding/json"
	"errors"
	"fmt"
	"os"
	"path/filepath"
	"sort"
	"strings"

	"github.com/btcsuite/btcd/btcutil/hdkeychain"
	"github.com/btcsuite/btcd/chaincfg"
	"github.com/elnosh/gonuts/cashu"
	"github.com/elnosh/gonuts/cashu/nuts/nut03"
	"github.com/elnosh/gonuts/cashu/nuts/nut04"
	"github.com/elnosh/gonuts/cashu/nuts/nut05"
	"github.com/elnosh/gonuts/cashu/nuts/nut11"
	"github.com/elnosh/gonuts/cashu/nuts/nut12"
	"github.com/elnosh/gonuts/cashu/nuts/nut13"
	"github.com/elnosh/gonuts/crypto"
	"github.com/elnosh/gonuts/wallet"
	wstorage "github.com/elnosh/gonuts/wallet/storage"
	"github.com/tyler-smith/go-bip39"
)

type bMint struct {
	idx  int
	host string
	url  string
	env  *MintEnv
	// transport-level ledger (successful requests only)
	mintedIn  uint64              // sum of outputs signed by /v1/mint
	swapFees  uint64              // sum over swaps of inputs - outputs
	meltIn    map[string]uint64   // melt quote id -> sum of inputs submitted with it (accepted requests)
	meltInput map[string][]string // melt quote id -> Ys of the inputs
}

type bSeed struct {
	mnemonic string
	master   xkey
	hd       *hdkeychain.ExtendedKey
	// keyset id -> derived outputs by counter
	outs map[string][]derivedOut
	// keyset id -> highest counter any wallet instance of this seed ever stored (scan bound of mintTruth)
	maxCtr map[string]int
}

type derivedOut struct {
	secret string
	Y      string
	B      string
}

type outRef struct {
	seed    int
	ks      string
	counter uint32
}

type bWallet struct {
	idx   int
	name  string
	dir   string
	seed  int
	home  int
	W     *wallet.Wallet
	proxy *WDBProxy
	dead  bool
}

type bToken struct {
	id     int
	mint   int
	from   int
	to     int // receiver the lock is for (-1: anyone)
	sigAll bool
	proofs cashu.Proofs
}

// rawToken implements cashu.Token without going through the V3/V4 encodings (C14 covers those).
type rawToken struct {
	proofs cashu.Proofs
	mint   string
}

func (t rawToken) Proofs() cashu.Proofs       { return t.proofs }
func (t rawToken) Mint() string               { return t.mint }
func (t rawToken) Amount() uint64             { return t.proofs.Amount() }
func (t rawToken) Serialize() (string, error) { return "", errors.New("raw token") }

type Books struct {
	c       *Ctx
	signedKind map[string]string // B_ -> kind of the operation in which it was signed
	behind  map[string]string // (wallet/keyset) whose stored counter is behind -> signature of the first detection
	net     *Net
	mints   []*bMint
	wallets []*bWallet
	seeds   []*bSeed
	tokens  []*bToken
	nextTok int

	// replayed: successful POST requests seen so far (mint, path, body)
	replayed map[string]bool
	// tieBlind: see tiesAcrossFees (evaluated on the acting wallet before every operation)
	tieBlind bool

	ops    []string // replay: one line per operation
	logPos int
	opIdx  int
	opKind string
	opW    int
	// B_ -> index of the operation in which it was first signed
	signed    map[string]int
	submitted map[string]int
	byB       map[string]outRef
	yCache    map[string]string
	// ghost of W_pending: wallet idx -> secret -> melt quote id ("" for Send)
	pendGhost map[int]map[string]string
	// fault-free flag: false after a wallet was killed / a response was dropped (C17 monitors and the
	// fault-free clause of C19 then no longer apply to that wallet)
	faulted map[int]bool
	// set by the stream when a known-defect path was taken in the current op (selects the signature)
	hint string
	// per mint: value outstanding at the mint that is in no bucket (already reported)
	deficit []int64
	// snapshot cache: only wallets touched by an operation are read again
	snaps map[int]*wSnap
	dirty map[int]bool
	// outputs signed while their keyset was not in the submitting wallet's store (F13)
	taint map[string]bool
	// paid melt quote -> inputs submitted minus (amount + fee reserve)
	meltPaid map[string]int64
	// calls of the current operation in order: storage calls of the acting wallet (proxy) and client calls (transport)
	trace []string
	// secret -> (seed, keyset, counter) for the NUT-13 outputs derived so far
	bySecret map[string]outRef
	// extra transport hook (crash stream): called after the label was recorded
	cut  func(r *WireReq, n int) error
	nReq int
	// trace of the last wallet API call(s), captured before any harness read
	lastTrace []string
	// crash control: calls (storage and client) of the current operation are numbered from 0; the wallet is
	// killed BEFORE call killAt, or AFTER the mint served client call killAfter (response never seen)
	callNo    int
	killAt    int
	killAfter int
}

func NewBooks(c *Ctx) *Books {
	b := &Books{c: c, net: NewNet(), signed: map[string]int{}, submitted: map[string]int{}, byB: map[string]outRef{},
		yCache: map[string]string{}, pendGhost: map[int]map[string]string{}, faulted: map[int]bool{},
		snaps: map[int]*wSnap{}, dirty: map[int]bool{}, taint: map[string]bool{}, meltPaid: map[string]int64{}, behind: map[string]string{}, signedKind: map[string]string{}}
	b.bySecret = map[string]outRef{}
	b.killAt, b.killAfter = -1, -1
	b.net.Install()
	b.net.After = b.afterHook
	b.net.Hook = b.hook
	return b
}

func (b *Books) Close() {
	for _, w := range b.wallets {
		if w.W != nil && !w.dead {
			w.W.Shutdown()
		}
	}
	for _, m := range b.mints {
		m.env.Close()
	}
}

func (b *Books) AddMint(feePpk uint) (*bMint, error) {
	i := len(b.mints)
	host := fmt.Sprintf("mint-%d", i)
	env, err := NewMintEnv(b.c, host, MintOpts{FeePpk: feePpk, FeePct: true})
	if err != nil {
		return nil, err
	}
	m := &bMint{idx: i, host: host, env: env, meltIn: map[string]uint64{}, meltInput: map[string][]string{}}
	m.url = b.net.AddMint(host, env)
	b.mints = append(b.mints, m)
	return m, nil
}

func clientLabel(method, path string) string {
	switch {
	case method == "GET" && path == "/v1/info":
		return "client.GetMintInfo"
	case method == "GET" && path == "/v1/keysets":
		return "client.GetAllKeysets"
	case method == "GET" && strings.HasPrefix(path, "/v1/keys/"):
		return "client.GetKeysetById"
	case method == "GET" && path == "/v1/keys":
		return "client.GetActiveKeysets"
	case method == "POST" && path == "/v1/mint/quote/bolt11":
		return "client.PostMintQuoteBolt11"
	case method == "GET" && strings.HasPrefix(path, "/v1/mint/quote/bolt11/"):
		return "client.GetMintQuoteState"
	case method == "POST" && path == "/v1/mint/bolt11":
		return "client.PostMintBolt11"
	case method == "POST" && path == "/v1/swap":
		return "client.PostSwap"
	case method == "POST" && path == "/v1/melt/quote/bolt11":
		return "client.PostMeltQuoteBolt11"
	case method == "GET" && strings.HasPrefix(path, "/v1/melt/quote/bolt11/"):
		return "client.GetMeltQuoteState"
	case method == "POST" && path == "/v1/melt/bolt11":
		return "client.PostMeltBolt11"
	case method == "POST" && path == "/v1/checkstate":
		return "client.PostCheckProofState"
	case method == "POST" && path == "/v1/restore":
		return "client.PostRestore"
	}
	return "client?" + method + path
}

// onCall numbers a call of the wallet and kills the wallet before it when armed.
func (b *Books) onCall(label string) {
	n := b.callNo
	b.callNo++
	if b.killAt >= 0 && n == b.killAt {
		b.killAt = -1
		panic(walletKilled{at: fmt.Sprintf("before %s #%d", label, n)})
	}
	b.trace = append(b.trace, label)
}

// hook records the client call (before the mint serves it) and lets the crash stream cut the wallet off.
func (b *Books) hook(r *WireReq) error {
	n := b.nReq
	b.nReq++
	if b.cut != nil {
		if err := b.cut(r, n); err != nil {
			return err
		}
	}
	b.onCall(clientLabel(r.Method, r.Path))
	return nil
}

// afterHook bridges Lightning between mints: when a melt is answered PAID the invoice it paid is settled at
// whichever scripted backend created it (a mint-to-mint swap pays the other mint's invoice).
func (b *Books) afterHook(r *WireReq) error {
	b.bridge(r)
	if b.killAfter >= 0 && b.callNo-1 == b.killAfter {
		b.killAfter = -1
		panic(walletKilled{at: fmt.Sprintf("after %s #%d", clientLabel(r.Method, r.Path), b.callNo-1)})
	}
	return nil
}

func (b *Books) bridge(r *WireReq) error {
	if r.Status != 200 || !strings.HasPrefix(r.Path, "/v1/melt/") {
		return nil
	}
	var resp nut05.PostMeltQuoteBolt11Response
	if json.Unmarshal(r.Resp, &resp) != nil {
		return nil
	}
	if resp.State == nut05.Paid && resp.Request != "" {
		for _, m := range b.mints {
			m.env.LN.mu.Lock()
			if li := m.env.LN.byReq[resp.Request]; li != nil && !li.external {
				li.settled = true
			}
			m.env.LN.mu.Unlock()
		}
	}
	return nil
}

func (b *Books) NewSeed() int {
	ent := b.c.Rng.Bytes(16)
	mn, err := bip39.NewMnemonic(ent)
	if err != nil {
		panic(err)
	}
	hd, err := hdkeychain.NewMaster(bip39.NewSeed(mn, ""), &chaincfg.MainNetParams)
	if err != nil {
		panic(err)
	}
	b.seeds = append(b.seeds, &bSeed{mnemonic: mn, master: bip32Master(bip39.NewSeed(mn, "")), hd: hd,
		outs: map[string][]derivedOut{}, maxCtr: map[string]int{}})
	return len(b.seeds) - 1
}

// NewWallet creates a wallet directory whose mnemonic is the seed's and loads it with the real LoadWallet.
func (b *Books) NewWallet(name string, seed, home int) (*bWallet, error) {
	dir := filepath.Join(b.c.Scratch, name)
	if err := os.MkdirAll(dir, 0700); err != nil {
		return nil, err
	}
	db, err := wstorage.InitBolt(dir)
	if err != nil {
		return nil, err
	}
	s := b.seeds[seed]
	db.SaveMnemonicSeed(s.mnemonic, bip39.NewSeed(s.mnemonic, ""))
	db.Close()
	w, err := wallet.LoadWallet(wallet.Config{WalletPath: dir, CurrentMintURL: b.mints[home].url})
	if err != nil {
		return nil, err
	}
	bw := &bWallet{idx: len(b.wallets), name: name, dir: dir, seed: seed, home: home, W: w}
	b.wallets = append(b.wallets, bw)
	b.pendGhost[bw.idx] = map[string]string{}
	bw.Wrap(b.onCall)
	return bw, nil
}

// AdoptDir registers an existing wallet directory (made by wallet.Restore) as a live wallet.
func (b *Books) AdoptDir(name, dir string, seed, home int) (*bWallet, error) {
	w, err := wallet.LoadWallet(wallet.Config{WalletPath: dir, CurrentMintURL: b.mints[home].url})
	if err != nil {
		return nil, err
	}
	bw := &bWallet{idx: len(b.wallets), name: name, dir: dir, seed: seed, home: home, W: w}
	b.wallets = append(b.wallets, bw)
	b.pendGhost[bw.idx] = map[string]string{}
	bw.Wrap(b.onCall)
	return bw, nil
}

func (b *Books) Reopen(w *bWallet) error {
	if w.W != nil {
		w.W.Shutdown()
	}
	nw, err := wallet.LoadWallet(wallet.Config{WalletPath: w.dir, CurrentMintURL: b.mints[w.home].url})
	if err != nil {
		w.dead = true
		return err
	}
	w.W = nw
	w.proxy = nil
	w.Wrap(b.onCall)
	return nil
}

func (b *Books) mintOfKeyset(id string) int {
	for _, m := range b.mints {
		if _, ok := m.env.ksIdx[id]; ok {
			return m.idx
		}
	}
	return -1
}

func (b *Books) ksName(id string) string {
	for _, m := range b.mints {
		if j, ok := m.env.ksIdx[id]; ok {
			return fmt.Sprintf("m%dk%d", m.idx, j)
		}
	}
	return "k?" + id
}

func (b *Books) Y(secret string) string {
	if y, ok := b.yCache[secret]; ok {
		return y
	}
	y := ""
	if pt := hashToCurveSpec([]byte(secret)); pt != nil {
		y = hex.EncodeToString(pt.SerializeCompressed())
	}
	b.yCache[secret] = y
	return y
}

// ---------------------------------------------------------------- NUT-13 outputs of a seed

func (b *Books) derive(seed int, ks string, upTo int) []derivedOut {
	s := b.seeds[seed]
	cur := s.outs[ks]
	if len(cur) >= upTo {
		return cur
	}
	if upTo > len(cur)+1_000_000 {
		// a counter that jumped ahead by more than a million (a wrapped uint32 subtraction): reported, not followed
		b.c.MonitorFail("C19", "C19/counter/absurd-jump", fmt.Sprintf("a counter of keyset %s jumped from at most %d to %d", b.ksName(ks), len(cur), upTo), b.replay())
		return cur
	}
	path, err := nut13KeysetPath(s.master, ks)
	if err != nil {
		return cur
	}
	if len(cur) == 0 {
		b.selfCheckNut13(s, ks, path)
	}
	for n := len(cur); n < upTo; n++ {
		sec, Y, B := nut13Output(path, uint32(n))
		b.yCache[sec] = Y
		cur = append(cur, derivedOut{secret: sec, Y: Y, B: B})
		b.byB[B] = outRef{seed: seed, ks: ks, counter: uint32(n)}
		b.bySecret[sec] = outRef{seed: seed, ks: ks, counter: uint32(n)}
	}
	s.outs[ks] = cur
	return cur
}

// selfCheckNut13 compares the harness's derivation with the repository's for two counters.
func (b *Books) selfCheckNut13(s *bSeed, ks string, path xkey) {
	rp, err := nut13.DeriveKeysetPath(s.hd, ks)
	if err != nil {
		return
	}
	for _, n := range []uint32{0, 7} {
		sec, _, B := nut13Output(path, n)
		rsec, e1 := nut13.DeriveSecret(rp, n)
		rr, e2 := nut13.DeriveBlindingFactor(rp, n)
		if e1 != nil || e2 != nil {
			continue
		}
		rB, _, _ := crypto.BlindMessage(rsec, rr)
		if rsec != sec || hex.EncodeToString(rB.SerializeCompressed()) != B {
			b.c.Disagree([]string{"C19"}, "nut13-derivation", rsec+" "+hex.EncodeToString(rB.SerializeCompressed()), sec+" "+B, nil)
		}
	}
}

type seedTruth struct {
	unspent, pending, spent uint64
	maxSigned               map[string]int // keyset id -> highest signed counter (-1 none)
	nSigned                 map[string]int
	firstGap                map[string]int  // keyset id -> first unsigned counter
	gap300                  map[string]bool // keyset id -> 300 or more unsigned counters in a row below a signed one
}

// mintTruth reads, from the mints' own tables, what became of every NUT-13 output of the seed: the harness
// derives the outputs of every keyset of every mint in batches of 100, at least up to 100 past the highest
// counter any wallet instance of the seed ever stored (64 for a keyset never stored), and stops after 4
// further batches without any signature.
func (b *Books) mintTruth(seed int) seedTruth {
	t := seedTruth{maxSigned: map[string]int{}, nSigned: map[string]int{}, firstGap: map[string]int{}, gap300: map[string]bool{}}
	for _, m := range b.mints {
		for _, ks := range m.env.ksIds {
			if ks == "" {
				continue
			}
			t.maxSigned[ks] = -1
			t.firstGap[ks] = -1
			must := 64
			if c, ok := b.seeds[seed].maxCtr[ks]; ok {
				must = c + 100
			}
			empty := 0
			run := 0 // current run of unsigned counters
			for n := 0; ; n += 100 {
				if n >= must && (empty >= 4 || (n >= 100 && t.maxSigned[ks] < 0 && b.seeds[seed].maxCtr[ks] == 0)) {
					break
				}
				outs := b.derive(seed, ks, n+100)
				if len(outs) < n+100 {
					break
				}
				var Ys []string
				amt := map[string]uint64{}
				for k, o := range outs[n : n+100] {
					sig, err := m.env.DB.inner.GetBlindSignature(o.B)
					if err != nil {
						if t.firstGap[ks] < 0 {
							t.firstGap[ks] = n + k
						}
						run++
						continue
					}
					if run >= 300 {
						t.gap300[ks] = true
					}
					run = 0
					t.maxSigned[ks] = n + k
					t.nSigned[ks]++
					Ys = append(Ys, o.Y)
					amt[o.Y] = sig.Amount
				}
				if len(Ys) == 0 {
					empty++
					continue
				}
				empty = 0
				st := m.states(Ys)
				for _, y := range Ys {
					switch st[y] {
					case 2:
						t.spent += amt[y]
					case 1:
						t.pending += amt[y]
					default:
						t.unspent += amt[y]
					}
				}
			}
			if t.firstGap[ks] < 0 {
				t.firstGap[ks] = 0
			}
		}
	}
	return t
}

// ---------------------------------------------------------------- operation bracket + transport monitor

func (b *Books) begin(kind string, w int, line string) {
	b.opIdx++
	b.opKind = kind
	b.opW = w
	b.hint = ""
	b.trace = nil
	b.callNo = 0
	if w >= 0 {
		b.dirty[w] = true
	}
	b.ops = append(b.ops, line)
	b.tieBlind = false
	if w >= 0 && w < len(b.wallets) && b.wallets[w].W != nil {
		b.tieBlind = b.tiesAcrossFees(b.wallets[w])
	}
}

// tiesAcrossFees: the wallet holds, at one mint, proofs of EQUAL amount in keysets with DIFFERENT input fees.  Which of
// them an unexact first selection picked (unstable sort.Slice over lists longer than 12, Go map order of the inactive
// keysets) is not observable from outside, yet decides the fee and with it whether the offline selection is exact:
// the model's replay of the selection (oracle = inputs of the first request) is not determined for such an operation.
func (b *Books) tiesAcrossFees(w *bWallet) bool {
	type key struct {
		mint int
		amt  uint64
	}
	seen := map[key]map[uint]bool{}
	fee := map[string]uint{}
	for _, m := range b.mints {
		for _, k := range m.env.M.ListKeysets().Keysets {
			fee[k.Id] = k.InputFeePpk
		}
	}
	for _, p := range w.rawDB().GetProofs() {
		mi := b.mintOfKeyset(p.Id)
		f, ok := fee[p.Id]
		if mi < 0 || !ok {
			continue
		}
		k := key{mi, p.Amount}
		if seen[k] == nil {
			seen[k] = map[uint]bool{}
		}
		seen[k][f] = true
		if len(seen[k]) > 1 {
			return true
		}
	}
	return false
}

func (b *Books) replay() map[string]any {
	n := len(b.ops)
	from := 0
	if n > 400 {
		from = n - 400
	}
	// world "h<k>": history k of stream wallet-hist, replayable alone with VERIF_WH_ONLY=k and the same seed and tier
	return map[string]any{"seed": b.c.Seed, "tier": b.c.Tier, "world": filepath.Base(b.c.Scratch), "op_index": b.opIdx, "ops": b.ops[from:]}
}

type wireOutputs struct {
	Quote   string                `json:"quote"`
	Inputs  cashu.Proofs          `json:"inputs"`
	Outputs cashu.BlindedMessages `json:"outputs"`
}

// scanLog processes the requests of the operation that just ran: the C19 transport monitor (a B_ that was
// signed before must never be submitted again) and the transport-level ledger of C17.
func (b *Books) scanLog() {
	b.net.mu.Lock()
	log := b.net.Log[b.logPos:]
	b.logPos = len(b.net.Log)
	b.net.mu.Unlock()
	for _, r := range log {
		if r.Method != "POST" {
			continue
		}
		var kind string
		switch r.Path {
		case "/v1/mint/bolt11":
			kind = "mint"
		case "/v1/swap":
			kind = "swap"
		case "/v1/melt/bolt11":
			kind = "melt"
		default:
			continue
		}
		var mi *bMint
		for _, m := range b.mints {
			if m.host == r.Mint {
				mi = m
			}
		}
		var req wireOutputs
		if json.Unmarshal(r.Body, &req) != nil || mi == nil {
			continue
		}
		foreign := map[string]bool{}
		var actor *bWallet
		if b.opW >= 0 && b.opW < len(b.wallets) {
			actor = b.wallets[b.opW]
		}
		for _, o := range req.Outputs {
			if _, ok := foreign[o.Id]; !ok {
				foreign[o.Id] = actor != nil && actor.W != nil && !actor.dead && actor.rawDB().GetKeyset(o.Id) == nil
			}
		}
		for _, o := range req.Outputs {
			if at, ok := b.signed[o.B_]; ok {
				sig := "C19/counter-reuse/" + b.opKind
				what := fmt.Sprintf("output %s of keyset %s submitted to %s in op %d (%s) was already signed in op %d", short(o.B_), b.ksName(o.Id), r.Path, b.opIdx, b.opKind, at)
				if ref, ok := b.byB[o.B_]; ok {
					what += fmt.Sprintf(" (seed %d counter %d)", ref.seed, ref.counter)
				}
				if actor != nil && b.faulted[actor.idx] {
					// not the fault-free clause: recorded, not a failure
					b.c.Hist("after-fault", "resubmitted-signed-output/"+b.opKind)
					continue
				}
				if k := b.signedKind[o.B_]; strings.HasPrefix(k, "receive-trusted") && strings.Contains(k, "sigall") {
					// root cause: that output was signed in the SIG_ALL swap of swapToTrusted, which never advances the counter
					sig = "C19/swapToTrusted/sigall-swap-counter-not-advanced"
					what += "; it was signed in the SIG_ALL swap of a swap-to-trusted receive, which derives its outputs from the stored counter and does not advance it"
				}
				if foreign[o.Id] || b.taint[o.B_] {
					sig = "C19/swapToTrusted/foreign-keyset-counter"
					what += "; it was derived for a keyset that was not in the wallet's store (swapToTrusted of a SIG_ALL token builds its swap outputs for the token mint's keyset: counter read as 0, never advanced)"
				}
				if b.hint != "" && strings.HasPrefix(b.hint, "C19/") {
					sig = b.hint
				}
				b.c.MonitorFail("C19", sig, what, b.replay())
				b.c.Hist("counter-reuse", sig)
				break
			}
			if _, ok := b.submitted[o.B_]; !ok {
				b.submitted[o.B_] = b.opIdx
			}
		}
		if r.Status != 200 {
			continue
		}
		// NUT-19: a request with the same method, path and body as an earlier successful one is answered from the mint's
		// response cache without being executed again (e.g. a 1-sat proof swapped for NO outputs at a fee of 1 by reclaim,
		// and the identical swap sent again by a later Receive of that token): nothing happened at the mint, so it is
		// not booked twice
		rk := r.Mint + " " + r.Path + " " + string(r.Body)
		if b.replayed == nil {
			b.replayed = map[string]bool{}
		}
		if b.replayed[rk] {
			b.c.Hist("transport", "identical request answered again (response cache): not booked twice")
			continue
		}
		b.replayed[rk] = true
		var outSum, inSum uint64
		for _, o := range req.Outputs {
			outSum += o.Amount
		}
		for _, p := range req.Inputs {
			inSum += p.Amount
		}
		switch kind {
		case "mint":
			var resp nut04.PostMintBolt11Response
			json.Unmarshal(r.Resp, &resp)
			for i := range resp.Signatures {
				if i < len(req.Outputs) {
					b.signed[req.Outputs[i].B_] = b.opIdx
					b.signedKind[req.Outputs[i].B_] = b.opKind
				}
			}
			mi.mintedIn += outSum
		case "swap":
			var resp nut03.PostSwapResponse
			json.Unmarshal(r.Resp, &resp)
			for i := range resp.Signatures {
				if i < len(req.Outputs) {
					b.signed[req.Outputs[i].B_] = b.opIdx
					b.signedKind[req.Outputs[i].B_] = b.opKind
					if foreign[req.Outputs[i].Id] {
						b.taint[req.Outputs[i].B_] = true
					}
				}
			}
			mi.swapFees += inSum - outSum
		case "melt":
			var resp nut05.PostMeltQuoteBolt11Response
			json.Unmarshal(r.Resp, &resp)
			for i := range resp.Change {
				if i < len(req.Outputs) {
					b.signed[req.Outputs[i].B_] = b.opIdx
					b.signedKind[req.Outputs[i].B_] = b.opKind
				}
			}
			mi.meltIn[req.Quote] = inSum
			ys := make([]string, len(req.Inputs))
			for i, p := range req.Inputs {
				ys[i] = b.Y(p.Secret)
			}
			mi.meltInput[req.Quote] = ys
		}
	}
}

// ---------------------------------------------------------------- mint-side state of proofs (storage reads, no Lightning side effect)

// states returns for every Y: 0 unspent, 1 pending, 2 spent — read from the mint's tables.
func (m *bMint) states(Ys []string) map[string]int {
	st := map[string]int{}
	if len(Ys) == 0 {
		return st
	}
	used, _ := m.env.DB.inner.GetProofsUsed(Ys)
	pend, _ := m.env.DB.inner.GetPendingProofs(Ys)
	for _, p := range pend {
		st[p.Y] = 1
	}
	for _, u := range used {
		st[u.Y] = 2
	}
	return st
}

func (m *bMint) outstanding() (uint64, error) {
	iss, err := m.env.DB.inner.GetIssuedEcash()
	if err != nil {
		return 0, err
	}
	red, err := m.env.DB.inner.GetRedeemedEcash()
	if err != nil {
		return 0, err
	}
	var i, r uint64
	for _, v := range iss {
		i += v
	}
	for _, v := range red {
		r += v
	}
	return i - r, nil
}

// ---------------------------------------------------------------- wallet snapshots

type wSnap struct {
	balance, pendingBal uint64
	spend               map[string][]uint64 // keyset name -> sorted amounts
	pend                map[string][]uint64
	counters            map[string]uint32
	countersById        map[string]uint32
	spendSecrets        map[string]cashu.Proof
	pendSecrets         map[string]wstorage.DBProof
}

func (b *Books) snap(w *bWallet) wSnap {
	s := wSnap{spend: map[string][]uint64{}, pend: map[string][]uint64{}, counters: map[string]uint32{}, countersById: map[string]uint32{},
		spendSecrets: map[string]cashu.Proof{}, pendSecrets: map[string]wstorage.DBProof{}}
	db := w.rawDB()
	s.balance = w.W.GetBalance()
	s.pendingBal = w.W.PendingBalance()
	for _, p := range db.GetProofs() {
		k := b.ksName(p.Id)
		s.spend[k] = append(s.spend[k], p.Amount)
		s.spendSecrets[p.Secret] = p
	}
	for _, p := range db.GetPendingProofs() {
		k := b.ksName(p.Id)
		s.pend[k] = append(s.pend[k], p.Amount)
		s.pendSecrets[p.Secret] = p
	}
	for _, l := range s.spend {
		sort.Slice(l, func(i, j int) bool { return l[i] < l[j] })
	}
	for _, l := range s.pend {
		sort.Slice(l, func(i, j int) bool { return l[i] < l[j] })
	}
	for _, mk := range db.GetKeysets() {
		for _, k := range mk {
			s.counters[b.ksName(k.Id)] = k.Counter
			s.countersById[k.Id] = k.Counter
			if old, ok := b.seeds[w.seed].maxCtr[k.Id]; !ok || int(k.Counter) > old {
				if b.absurdCounter(k.Id, old, k.Counter, w.name) {
					continue
				}
				b.seeds[w.seed].maxCtr[k.Id] = int(k.Counter)
			}
		}
	}
	return s
}

// ---------------------------------------------------------------- the monitors

// lossSig names the shape of a conservation failure after the current operation.
func (b *Books) lossSig() string {
	if b.hint != "" && strings.HasPrefix(b.hint, "C17/") {
		return b.hint
	}
	return "C17/conserve/value-lost/" + b.opKind
}

// Monitors runs every model-free check after an operation. Wallets in `faulted` are skipped by the C17
// checks (C17 is about fault-free histories); the conservation check is skipped altogether once any wallet
// was faulted because its value may legitimately be recoverable only through Restore.
func (b *Books) Monitors() {
	b.scanLog()
	anyFault := len(b.faulted) > 0
	seen := map[string]string{} // secret -> first holder (distinctness across buckets and wallets)
	seedOwner := map[string]int{}
	perMint := make([]map[string]uint64, len(b.mints)) // mint -> secret -> amount (distinct holdings)
	for i := range perMint {
		perMint[i] = map[string]uint64{}
	}
	for _, w := range b.wallets {
		if w.dead || w.W == nil || b.faulted[w.idx] {
			delete(b.snaps, w.idx)
			continue
		}
		fresh := false
		if b.dirty[w.idx] || b.snaps[w.idx] == nil {
			sn := b.snap(w)
			b.snaps[w.idx] = &sn
			fresh = true
		}
		s := b.snaps[w.idx]
		if fresh {
			b.walletLocalMonitors(w, s)
			if !anyFault {
				b.counterMonitor(w, s)
			}
		}
		// W_balance, second half: spendable => UNSPENT at its mint (mint-side state may change without the wallet acting)
		ysByMint := map[int][]string{}
		for sec, p := range s.spendSecrets {
			mi := b.mintOfKeyset(p.Id)
			if mi < 0 {
				b.c.MonitorFail("C17", "C17/balance/unknown-keyset", fmt.Sprintf("%s holds a spendable proof of keyset %s no mint has", w.name, p.Id), b.replay())
				continue
			}
			ysByMint[mi] = append(ysByMint[mi], b.Y(sec))
		}
		for mi, ys := range ysByMint {
			st := b.mints[mi].states(ys)
			for sec, p := range s.spendSecrets {
				if b.mintOfKeyset(p.Id) != mi {
					continue
				}
				if v := st[b.Y(sec)]; v != 0 {
					b.c.MonitorFail("C17", "C17/balance/spendable-not-unspent/"+b.opKind,
						fmt.Sprintf("%s: spendable proof %s (amount %d, %s) is %s at the mint after op %d (%s)", w.name, short(sec), p.Amount, b.ksName(p.Id), []string{"UNSPENT", "PENDING", "SPENT"}[v], b.opIdx, b.opKind), b.replay())
					break
				}
			}
		}
		// W_distinct across wallets (two instances of one seed may hold the same proofs: a restored copy)
		for sec, p := range s.spendSecrets {
			if h, ok := seen[sec]; ok && seedOwner[sec] != w.seed {
				b.c.MonitorFail("C17", "C17/distinct/duplicate-secret", fmt.Sprintf("secret %s is in %s and in %s/spendable", short(sec), h, w.name), b.replay())
			}
			if _, ok := seen[sec]; !ok {
				seen[sec] = w.name + "/spendable"
				seedOwner[sec] = w.seed
			}
			if mi := b.mintOfKeyset(p.Id); mi >= 0 {
				perMint[mi][sec] = p.Amount
			}
		}
		for sec, p := range s.pendSecrets {
			if h, ok := seen[sec]; ok && seedOwner[sec] != w.seed {
				b.c.MonitorFail("C17", "C17/distinct/duplicate-secret", fmt.Sprintf("secret %s is in %s and in %s/pending", short(sec), h, w.name), b.replay())
			}
			if _, ok := seen[sec]; !ok {
				seen[sec] = w.name + "/pending"
				seedOwner[sec] = w.seed
			}
			if mi := b.mintOfKeyset(p.Id); mi >= 0 {
				perMint[mi][sec] = p.Amount
			}
		}
	}
	b.dirty = map[int]bool{}
	if anyFault {
		return
	}
	// tokens the harness still holds (a value returned to a caller)
	for _, t := range b.tokens {
		for _, p := range t.proofs {
			perMint[t.mint][p.Secret] = p.Amount
		}
	}
	// W_conserve
	for _, m := range b.mints {
		out, err := m.outstanding()
		if err != nil {
			continue
		}
		var ys []string
		for sec := range perMint[m.idx] {
			ys = append(ys, b.Y(sec))
		}
		st := m.states(ys)
		var held uint64
		for sec, a := range perMint[m.idx] {
			if st[b.Y(sec)] != 2 {
				held += a
			}
		}
		// value already reported as lost is not reported again; value found again (a Restore) lowers the deficit
		for len(b.deficit) <= m.idx {
			b.deficit = append(b.deficit, 0)
		}
		nd := int64(out) - int64(held)
		switch {
		case nd > b.deficit[m.idx]:
			b.c.MonitorFail("C17", b.lossSig(), fmt.Sprintf("mint %d: %d sat are unspent or pending at the mint but only %d sat are in a wallet bucket or in a token still held, after op %d (%s): %d sat went into no bucket in this operation", m.idx, out, held, b.opIdx, b.opKind, nd-b.deficit[m.idx]), b.replay())
			b.c.Hist("value-lost", b.lossSig())
		case nd < 0:
			b.c.MonitorFail("C17", "C17/conserve/phantom-value/"+b.opKind, fmt.Sprintf("mint %d: wallets and tokens hold %d sat of not-spent proofs but only %d sat are outstanding at the mint", m.idx, held, out), b.replay())
		}
		b.deficit[m.idx] = nd
		// ledger: minted in = outstanding + inputs of paid melts + swap fees
		var melted uint64
		for q, in := range m.meltIn {
			if mq, err := m.env.DB.inner.GetMeltQuote(q); err == nil && mq.State == nut05.Paid {
				melted += in
				// a paid melt must have burned at least amount + fee reserve + input fees; anything above is overpaid
				if over := int64(in) - int64(mq.Amount+mq.FeeReserve); over >= 0 {
					b.meltPaid[q] = over
				}
			}
		}
		if m.mintedIn != out+melted+m.swapFees {
			b.c.MonitorFail("C17", "C17/conserve/ledger", fmt.Sprintf("mint %d: minted in %d != outstanding %d + melted %d + swap fees %d", m.idx, m.mintedIn, out, melted, m.swapFees), b.replay())
		}
	}
}

// walletLocalMonitors: the checks that only depend on the wallet's own buckets.
func (b *Books) walletLocalMonitors(w *bWallet, s *wSnap) {
	var sum uint64
	for _, p := range s.spendSecrets {
		sum += p.Amount
	}
	if s.balance != sum {
		b.c.MonitorFail("C17", "C17/balance/sum-mismatch", fmt.Sprintf("%s: GetBalance %d but spendable bucket sums to %d", w.name, s.balance, sum), b.replay())
	}
	var byMints uint64
	for _, v := range w.W.GetBalanceByMints() {
		byMints += v
	}
	if byMints != sum {
		b.c.MonitorFail("C17", "C17/balance/by-mints-mismatch", fmt.Sprintf("%s: GetBalanceByMints sums to %d but spendable bucket sums to %d", w.name, byMints, sum), b.replay())
	}
	for sec := range s.spendSecrets {
		if _, ok := s.pendSecrets[sec]; ok {
			b.c.MonitorFail("C17", "C17/distinct/spendable-and-pending/"+b.opKind, fmt.Sprintf("%s: secret %s is both spendable and pending", w.name, short(sec)), b.replay())
			break
		}
	}
	g := b.pendGhost[w.idx]
	for sec := range s.pendSecrets {
		if _, ok := g[sec]; !ok {
			b.c.MonitorFail("C17", "C17/pending/unexpected/"+b.opKind, fmt.Sprintf("%s: proof %s is in the pending bucket but was not handed out by Send nor locked by an unreconciled Melt", w.name, short(sec)), b.replay())
			break
		}
	}
	for sec := range g {
		if _, ok := s.pendSecrets[sec]; !ok {
			if strings.HasPrefix(b.hint, "C17/melt/retry") {
				// same defect seen through the pending bucket: reported once, by the conservation monitor
				delete(g, sec)
				continue
			}
			b.c.MonitorFail("C17", "C17/pending/missing/"+b.opKind, fmt.Sprintf("%s: proof %s was handed out / locked and not reconciled but is not in the pending bucket", w.name, short(sec)), b.replay())
			break
		}
	}
	// C10: what the wallet keeps must still carry the mint's DLEQ proof with the wallet's r, acceptable to a third party
	// under the keyset's published key — in the spendable bucket and in the pending bucket (from where a failed melt
	// puts proofs back), after every operation and every reopening of the store
	b.dleqStored(w, "spendable", func(f func(cashu.Proof)) {
		for _, p := range s.spendSecrets {
			f(p)
		}
	})
	b.dleqStored(w, "pending", func(f func(cashu.Proof)) {
		for _, p := range s.pendSecrets {
			f(cashu.Proof{Amount: p.Amount, Id: p.Id, Secret: p.Secret, C: p.C, DLEQ: p.DLEQ})
		}
	})
	if s.pendingBal != sumPending(*s) {
		b.c.MonitorFail("C17", "C17/pending/sum-mismatch", fmt.Sprintf("%s: PendingBalance %d but pending bucket sums to %d", w.name, s.pendingBal, sumPending(*s)), b.replay())
	}
}

func (b *Books) dleqStored(w *bWallet, bucket string, each func(func(cashu.Proof))) {
	each(func(p cashu.Proof) {
		mi := b.mintOfKeyset(p.Id)
		if mi < 0 || mi >= len(b.mints) {
			return
		}
		ks, err := b.mints[mi].env.M.GetKeysetById(p.Id)
		if err != nil {
			return
		}
		K, ok := ks.Keys[p.Amount]
		if !ok {
			return
		}
		b.c.Hist("C10 stored proofs", bucket+" checked")
		if p.DLEQ == nil {
			// (not a violation: NUT-12 proofs are optional, and Restore rebuilds proofs without them)
			b.c.Hist("C10 stored proofs", bucket+" without DLEQ")
		} else if !nut12.VerifyProofDLEQ(p, K) {
			b.c.MonitorFail("C10", "C10/wallet-store/dleq-invalid/"+bucket, fmt.Sprintf("%s: the DLEQ proof stored with proof %s (%s bucket) does not verify under the keyset's key", w.name, short(p.Secret), bucket), b.replay())
		}
	})
}

// absurdCounter: a stored counter that jumped ahead by more than a million in one step (no operation derives that many
// outputs; a uint32 subtraction that wrapped does).  Funds derived from there on would lie where no restore ever scans;
// reported, and the harness does not follow the counter (it would derive billions of outputs).
func (b *Books) absurdCounter(ks string, old int, now uint32, who string) bool {
	if int64(now) <= int64(old)+1_000_000 {
		return false
	}
	b.c.MonitorFail("C19", "C19/counter/absurd-jump", fmt.Sprintf("%s: the stored counter of keyset %s jumped from %d to %d", who, b.ksName(ks), old, now), b.replay())
	return true
}

func sumPending(s wSnap) uint64 {
	var t uint64
	for _, p := range s.pendSecrets {
		t += p.Amount
	}
	return t
}

// counterMonitor (C19): the stored counter of every keyset in the wallet's store is past every counter of
// (seed, keyset) whose output the mint has signed.
func (b *Books) counterMonitor(w *bWallet, s *wSnap) {
	for id, ctr := range s.countersById {
		mi := b.mintOfKeyset(id)
		if mi < 0 {
			continue
		}
		outs := b.derive(w.seed, id, int(ctr)+64)
		maxSigned := -1
		for n, o := range outs {
			if n >= int(ctr)+64 {
				break
			}
			if _, ok := b.signed[o.B]; ok {
				maxSigned = n
			}
		}
		if maxSigned < int(ctr) {
			delete(b.behind, fmt.Sprintf("%d/%s", w.idx, id))
		}
		if maxSigned >= int(ctr) {
			sig := "C19/counter-behind/" + b.opKind
			what := fmt.Sprintf("%s: stored counter of %s is %d but the mint has signed the output of counter %d (after op %d %s)", w.name, b.ksName(id), ctr, maxSigned, b.opIdx, b.opKind)
			switch {
			case b.taint[outs[maxSigned].B]:
				sig = "C19/swapToTrusted/foreign-keyset-counter"
				what += "; that output was signed while the keyset was not in the wallet's store"
			case id != b.mints[mi].env.ActiveKeysetId():
				sig = "C19/rotation/stale-counter-written-back"
				what += "; the keyset is no longer active: getActiveKeyset saved its in-memory copy of the keyset (counter as of LoadWallet / AddMint) over the stored one when it noticed the rotation"
			case strings.HasPrefix(b.opKind, "receive-trusted") && strings.Contains(b.opKind, "sigall"):
				// F13, keyset in the store: the SIG_ALL branch of swapToTrusted swaps at the token's mint with outputs
				// derived from the stored counter and never calls IncrementKeysetCounter
				sig = "C19/swapToTrusted/sigall-swap-counter-not-advanced"
				what += "; swapToTrusted of a SIG_ALL token swapped at the token's mint with outputs derived from this counter and did not advance it"
			}
			// the counter stays behind until something advances it past the signed outputs: later detections on the same
			// (wallet, keyset) are the same event, not a new one
			key := fmt.Sprintf("%d/%s", w.idx, id)
			if prev, ok := b.behind[key]; ok {
				sig = prev
			} else {
				b.behind[key] = sig
			}
			b.c.MonitorFail("C19", sig, what, b.replay())
			b.c.Hist("counter-behind", sig)
		}
	}
}

// ---------------------------------------------------------------- Restore vs mint-side truth

type restoreResult struct {
	dir                string
	amount             uint64
	err                error
	spendable, pending uint64
	both               uint64 // value held in the spendable AND the pending bucket
	counters           map[string]uint32
}

func (b *Books) RunRestore(seed int, name string, mints []string) restoreResult {
	dir := filepath.Join(b.c.Scratch, name)
	os.RemoveAll(dir)
	res := restoreResult{dir: dir, counters: map[string]uint32{}}
	func() {
		defer func() {
			if r := recover(); r != nil {
				res.err = fmt.Errorf("panic: %v", r)
			}
		}()
		res.amount, res.err = wallet.Restore(dir, b.seeds[seed].mnemonic, mints)
	}()
	if res.err != nil {
		return res
	}
	db, err := wstorage.InitBolt(dir)
	if err != nil {
		res.err = err
		return res
	}
	res.spendable = db.GetProofs().Amount()
	spendSecrets := map[string]bool{}
	for _, p := range db.GetProofs() {
		spendSecrets[p.Secret] = true
	}
	for _, p := range db.GetPendingProofs() {
		res.pending += p.Amount
		if spendSecrets[p.Secret] {
			res.both += p.Amount
		}
	}
	for _, mk := range db.GetKeysets() {
		for _, k := range mk {
			res.counters[k.Id] = k.Counter
		}
	}
	db.Close()
	return res
}

// CheckRestore restores the seed into a fresh directory and compares with the mint-side truth.
// Returns the restore result (the directory is kept when keep is true so the stream can continue with it).
func (b *Books) CheckRestore(seed int, label string, keep bool) restoreResult {
	urls := make([]string, len(b.mints))
	for i, m := range b.mints {
		urls[i] = m.url
	}
	pos := len(b.net.Log)
	res := b.RunRestore(seed, fmt.Sprintf("restore-%d-%s", b.opIdx, label), urls)
	// restore's own requests are lookups, not submissions
	b.net.mu.Lock()
	b.logPos = len(b.net.Log)
	_ = pos
	b.net.mu.Unlock()
	if res.err != nil {
		b.c.MonitorFail("C19", "C19/restore/error", fmt.Sprintf("Restore failed: %v", res.err), b.replay())
		return res
	}
	for ks, ctr := range res.counters {
		if old, ok := b.seeds[seed].maxCtr[ks]; !ok || int(ctr) > old {
			if b.absurdCounter(ks, old, ctr, "restore "+label) {
				continue
			}
			b.seeds[seed].maxCtr[ks] = int(ctr)
		}
	}
	t := b.mintTruth(seed)
	if res.amount != res.spendable {
		b.c.MonitorFail("C19", "C19/restore/returned-amount", fmt.Sprintf("Restore returned %d but stored %d spendable", res.amount, res.spendable), b.replay())
	}
	// a run of 300 unsigned counters below a signed one only comes from a counter that jumped ahead (F10)
	gap := false
	for _, g := range t.gap300 {
		gap = gap || g
	}
	// restore_counter: past every signed counter, and less than 300 past the last signed counter
	for ks, ctr := range res.counters {
		ms, ok := t.maxSigned[ks]
		if !ok {
			continue
		}
		if int(ctr) <= ms {
			sig := "C19/restore/counter-behind"
			if gap {
				sig = "C19/restore/cumulative-counter"
			}
			b.c.MonitorFail("C19", sig, fmt.Sprintf("restored counter of %s is %d but counter %d is signed (%s)", b.ksName(ks), ctr, ms, label), b.replay())
		}
		if int(ctr) >= ms+1+300 {
			b.c.MonitorFail("C19", "C19/restore/cumulative-counter", fmt.Sprintf("restored counter of %s is %d although the last signed counter is %d: the wallet continues %d counters further on, a later Restore meets three empty batches before them and stops (%s)", b.ksName(ks), ctr, ms, int(ctr)-ms-1, label), b.replay())
		}
	}
	// C17 for the restored wallet: its balance is what is UNSPENT at the mint, what is locked in an in-flight melt is
	// pending and only pending
	if res.both > 0 {
		b.c.MonitorFail("C17", "C17/restore/spendable-and-pending", fmt.Sprintf("the restored wallet holds %d sat of proofs in BOTH the spendable and the pending bucket (%s)", res.both, label), b.replay())
	} else if res.spendable+res.pending == t.unspent+t.pending && res.spendable != t.unspent {
		b.c.MonitorFail("C17", "C17/restore/balance-not-unspent", fmt.Sprintf("the restored wallet reports a balance of %d and %d pending; at the mint %d sat of this seed's outputs are unspent and %d pending (%s)", res.spendable, res.pending, t.unspent, t.pending, label), b.replay())
	}
	if res.spendable+res.pending != t.unspent+t.pending {
		sig := "C19/restore/incomplete"
		if res.spendable+res.pending > t.unspent+t.pending {
			sig = "C19/restore/excess"
		} else if gap {
			sig = "C19/restore/cumulative-counter"
		} else if strings.HasPrefix(b.hint, "C19/crash/") {
			sig = b.hint
		}
		b.c.MonitorFail("C19", sig, fmt.Sprintf("Restore recovered %d spendable + %d pending but the mint holds %d unspent + %d pending of this seed's outputs (%s)", res.spendable, res.pending, t.unspent, t.pending, label), b.replay())
		b.c.Hist("restore", sig)
	} else {
		b.c.Hist("restore", "complete")
	}
	if !keep {
		os.RemoveAll(res.dir)
	}
	return res
}

// ---------------------------------------------------------------- wallet storage proxy (crash injection)

type walletKilled struct{ at string }

// WDBProxy wraps the wallet's storage: it records the calls and kills the wallet (panic recovered by the
// harness) before the k-th call when armed.
type WDBProxy struct {
	wstorage.WalletDB
	onCall func(label string) // numbering, trace and kill switch of the Books
}

func (p *WDBProxy) pre(label string) {
	if p.onCall != nil {
		p.onCall("db." + label)
	}
}

func (p *WDBProxy) SaveProofs(x cashu.Proofs) error {
	p.pre("SaveProofs")
	return p.WalletDB.SaveProofs(x)
}
func (p *WDBProxy) GetProofs() cashu.Proofs { p.pre("GetProofs"); return p.WalletDB.GetProofs() }
func (p *WDBProxy) GetProofsByKeysetId(id string) cashu.Proofs {
	p.pre("GetProofsByKeysetId")
	return p.WalletDB.GetProofsByKeysetId(id)
}
func (p *WDBProxy) DeleteProof(s string) error {
	p.pre("DeleteProof")
	return p.WalletDB.DeleteProof(s)
}
func (p *WDBProxy) AddPendingProofs(x cashu.Proofs) error {
	p.pre("AddPendingProofs")
	return p.WalletDB.AddPendingProofs(x)
}
func (p *WDBProxy) AddPendingProofsByQuoteId(x cashu.Proofs, q string) error {
	p.pre("AddPendingProofsByQuoteId")
	return p.WalletDB.AddPendingProofsByQuoteId(x, q)
}
func (p *WDBProxy) GetPendingProofs() []wstorage.DBProof {
	p.pre("GetPendingProofs")
	return p.WalletDB.GetPendingProofs()
}
func (p *WDBProxy) GetPendingProofsByQuoteId(q string) []wstorage.DBProof {
	p.pre("GetPendingProofsByQuoteId")
	return p.WalletDB.GetPendingProofsByQuoteId(q)
}
func (p *WDBProxy) DeletePendingProofs(ys []string) error {
	p.pre("DeletePendingProofs")
	return p.WalletDB.DeletePendingProofs(ys)
}
func (p *WDBProxy) DeletePendingProofsByQuoteId(q string) error {
	p.pre("DeletePendingProofsByQuoteId")
	return p.WalletDB.DeletePendingProofsByQuoteId(q)
}
func (p *WDBProxy) SaveKeyset(k *crypto.WalletKeyset) error {
	p.pre("SaveKeyset")
	return p.WalletDB.SaveKeyset(k)
}
func (p *WDBProxy) GetKeysets() crypto.KeysetsMap {
	p.pre("GetKeysets")
	return p.WalletDB.GetKeysets()
}
func (p *WDBProxy) GetKeyset(id string) *crypto.WalletKeyset {
	p.pre("GetKeyset")
	return p.WalletDB.GetKeyset(id)
}
func (p *WDBProxy) IncrementKeysetCounter(id string, n uint32) error {
	p.pre("IncrementKeysetCounter")
	return p.WalletDB.IncrementKeysetCounter(id, n)
}
func (p *WDBProxy) GetKeysetCounter(id string) uint32 {
	p.pre("GetKeysetCounter")
	return p.WalletDB.GetKeysetCounter(id)
}
func (p *WDBProxy) SaveMintQuote(q wstorage.MintQuote) error {
	p.pre("SaveMintQuote")
	return p.WalletDB.SaveMintQuote(q)
}
func (p *WDBProxy) GetMintQuoteById(id string) *wstorage.MintQuote {
	p.pre("GetMintQuoteById")
	return p.WalletDB.GetMintQuoteById(id)
}
func (p *WDBProxy) SaveMeltQuote(q wstorage.MeltQuote) error {
	p.pre("SaveMeltQuote")
	return p.WalletDB.SaveMeltQuote(q)
}
func (p *WDBProxy) GetMeltQuoteById(id string) *wstorage.MeltQuote {
	p.pre("GetMeltQuoteById")
	return p.WalletDB.GetMeltQuoteById(id)
}

// Wrap installs the proxy around the wallet's storage.
func (w *bWallet) Wrap(onCall func(string)) *WDBProxy {
	p := &WDBProxy{onCall: onCall}
	w.W.VerifWrapDB(func(db wstorage.WalletDB) wstorage.WalletDB {
		if old, ok := db.(*WDBProxy); ok {
			db = old.WalletDB
		}
		p.WalletDB = db
		return p
	})
	w.proxy = p
	return p
}

// rawDB is the wallet's real storage, below the proxy (harness reads do not count as calls of the wallet).
func (w *bWallet) rawDB() wstorage.WalletDB {
	db := w.W.VerifDB()
	if p, ok := db.(*WDBProxy); ok {
		return p.WalletDB
	}
	return db
}

// Abandon models the death of the wallet process: the bbolt file handle is closed without any further
// wallet code running.
func (w *bWallet) Abandon() {
	if w.W != nil {
		w.rawDB().Close()
	}
	w.W = nil
}

// ---------------------------------------------------------------- operations (real wallet API calls) with ghost updates

func errTag(err error) string {
	if err == nil {
		return "ok"
	}
	s := err.Error()
	var ce cashu.Error
	if errors.As(err, &ce) {
		return fmt.Sprintf("cashu-%d", ce.Code)
	}
	switch {
	case strings.Contains(s, "not enough funds"):
		return "err-insufficient"
	case strings.Contains(s, "insufficient funds"):
		return "err-insufficient-fees"
	case strings.Contains(s, "already signed"):
		return "err-already-signed"
	case strings.Contains(s, "verif net"):
		return "err-net"
	}
	if i := strings.Index(s, ":"); i > 0 && i < 40 {
		return "err-" + strings.ReplaceAll(s[:i], " ", "-")
	}
	if len(s) > 40 {
		s = s[:40]
	}
	return "err-" + strings.ReplaceAll(s, " ", "-")
}

// guard runs f, converting a panic of the code under test into an error (walletKilled is re-raised as a value).
func guard(f func() error) (err error, killed *walletKilled) {
	defer func() {
		if r := recover(); r != nil {
			if k, ok := r.(walletKilled); ok {
				killed = &k
				err = fmt.Errorf("killed at %s", k.at)
				return
			}
			err = fmt.Errorf("panic: %v", r)
		}
	}()
	return f(), nil
}

// run executes wallet API calls of the current operation and captures the call trace.
func (b *Books) run(f func() error) (error, *walletKilled) {
	err, k := guard(f)
	b.lastTrace = append([]string(nil), b.trace...)
	return err, k
}

func (b *Books) settle(m *bMint, request string) {
	m.env.LN.mu.Lock()
	if li := m.env.LN.byReq[request]; li != nil {
		li.settled = true
	}
	m.env.LN.mu.Unlock()
}

func (b *Books) setScript(m *bMint, script ...string) {
	m.env.LN.mu.Lock()
	m.env.LN.script = append([]string(nil), script...)
	m.env.LN.mu.Unlock()
}

// OpMint: RequestMint + the invoice is paid + MintTokens.
func (b *Books) OpMint(w *bWallet, m *bMint, amount uint64) (uint64, error) {
	var got uint64
	err, _ := b.run(func() error {
		q, err := w.W.RequestMint(amount, m.url)
		if err != nil {
			return err
		}
		b.settle(m, q.Request)
		got, err = w.W.MintTokens(q.Quote)
		return err
	})
	return got, err
}

// OpSend: Send; the proofs returned are a token the harness holds.
func (b *Books) OpSend(w *bWallet, m *bMint, amount uint64, fees bool) (*bToken, error) {
	var proofs cashu.Proofs
	err, _ := b.run(func() error {
		var err error
		proofs, err = w.W.Send(amount, m.url, fees)
		return err
	})
	if err != nil {
		return nil, err
	}
	b.dleqStored(w, "token", func(f func(cashu.Proof)) {
		for _, p := range proofs {
			f(p)
		}
	})
	t := &bToken{id: b.nextTok, mint: m.idx, from: w.idx, to: -1, proofs: proofs}
	b.nextTok++
	b.tokens = append(b.tokens, t)
	for _, p := range proofs {
		b.pendGhost[w.idx][p.Secret] = ""
	}
	return t, nil
}

// OpSendLocked: SendToPubkey (P2PK, optionally SIG_ALL) to the receive key of wallet `to`.
func (b *Books) OpSendLocked(w *bWallet, m *bMint, to *bWallet, amount uint64, sigAll, fees bool) (*bToken, error) {
	var proofs cashu.Proofs
	err, _ := b.run(func() error {
		var err error
		var tags *nut11.P2PKTags
		if sigAll {
			tags = &nut11.P2PKTags{Sigflag: nut11.SIGALL}
		}
		proofs, err = w.W.SendToPubkey(amount, m.url, to.W.GetReceivePubkey(), tags, fees)
		return err
	})
	if err != nil {
		return nil, err
	}
	b.dleqStored(w, "token", func(f func(cashu.Proof)) {
		for _, p := range proofs {
			f(p)
		}
	})
	t := &bToken{id: b.nextTok, mint: m.idx, from: w.idx, to: to.idx, sigAll: sigAll, proofs: proofs}
	b.nextTok++
	b.tokens = append(b.tokens, t)
	return t, nil
}

func (b *Books) dropToken(t *bToken) {
	for i, x := range b.tokens {
		if x == t {
			b.tokens = append(b.tokens[:i], b.tokens[i+1:]...)
			return
		}
	}
}

// pruneTokens forgets tokens whose proofs are all spent at the mint.
func (b *Books) pruneTokens() {
	var keep []*bToken
	for _, t := range b.tokens {
		ys := make([]string, len(t.proofs))
		for i, p := range t.proofs {
			ys[i] = b.Y(p.Secret)
		}
		st := b.mints[t.mint].states(ys)
		all := true
		for _, y := range ys {
			if st[y] != 2 {
				all = false
			}
		}
		if !all {
			keep = append(keep, t)
		}
	}
	b.tokens = keep
}

// OpReceive: Receive a held token (stripDLEQ removes the optional DLEQ proofs as a V3/V4 token without them would).
func (b *Books) OpReceive(w *bWallet, t *bToken, swapToTrusted, stripDLEQ bool) (uint64, error) {
	ps := make(cashu.Proofs, len(t.proofs))
	copy(ps, t.proofs)
	if stripDLEQ {
		for i := range ps {
			ps[i].DLEQ = nil
		}
	}
	var got uint64
	err, _ := b.run(func() error {
		var err error
		got, err = w.W.Receive(rawToken{proofs: ps, mint: b.mints[t.mint].url}, swapToTrusted)
		return err
	})
	// C10 (acceptance clause): "the proof a wallet attaches to an unblinded token (with r) is accepted by a third party".
	// A token refused as "invalid DLEQ proof" although EVERY DLEQ proof in it verifies under the published key of the
	// keyset its proof belongs to (model-free: nut12.VerifyProofDLEQ with the mint's own key) is a violation (F19: the
	// receiving wallet verified against the keys of the ACTIVE keyset, so old-keyset tokens were refused after a rotation).
	if err != nil && strings.Contains(err.Error(), "invalid DLEQ proof") {
		allValid, withDleq := true, 0
		for _, p := range ps {
			if p.DLEQ == nil {
				continue
			}
			withDleq++
			ks, kerr := b.mints[t.mint].env.M.GetKeysetById(p.Id)
			if kerr != nil {
				allValid = false
				break
			}
			K, ok := ks.Keys[p.Amount]
			if !ok || !nut12.VerifyProofDLEQ(p, K) {
				allValid = false
				break
			}
		}
		if allValid && withDleq > 0 {
			b.c.MonitorFail("C10", "C10/receive/valid-dleq-refused", fmt.Sprintf("%s: Receive refused a token as 'invalid DLEQ proof' although all %d DLEQ proofs in it verify under the published keys of their own keysets (keysets in the token: %s)", w.name, withDleq, b.tokenKeysets(ps)), b.replay())
		} else {
			b.c.Hist("C10 receive", "dleq-refused-rightly")
		}
	} else if err == nil {
		for _, p := range ps {
			if p.DLEQ != nil {
				b.c.Hist("C10 receive", "token-with-dleq-accepted/"+map[bool]string{true: "active-keyset", false: "old-keyset"}[p.Id == b.mints[t.mint].env.ActiveKeysetId()])
				break
			}
		}
	}
	return got, err
}

func (b *Books) tokenKeysets(ps cashu.Proofs) string {
	seen := map[string]bool{}
	var out []string
	for _, p := range ps {
		if !seen[p.Id] {
			seen[p.Id] = true
			out = append(out, b.ksName(p.Id))
		}
	}
	return strings.Join(out, ",")
}

// OpMeltQuote: an invoice of an outside node + RequestMeltQuote.
func (b *Books) OpMeltQuote(w *bWallet, m *bMint, amount uint64) (*nut05.PostMeltQuoteBolt11Response, error) {
	li, err := m.env.LN.makeInvoice(amount*1000, true)
	if err != nil {
		return nil, err
	}
	var q *nut05.PostMeltQuoteBolt11Response
	err, _ = b.run(func() error {
		var err error
		q, err = w.W.RequestMeltQuote(li.request, m.url)
		return err
	})
	return q, err
}

// meltInputs: the proofs the wallet submitted with the melt of this quote (from the transport log of the current op).
func (b *Books) meltInputs(quote string) cashu.Proofs {
	b.net.mu.Lock()
	defer b.net.mu.Unlock()
	var last cashu.Proofs
	for _, r := range b.net.Log[b.logPos:] {
		if r.Method == "POST" && r.Path == "/v1/melt/bolt11" {
			var req wireOutputs
			if json.Unmarshal(r.Body, &req) == nil && req.Quote == quote {
				last = req.Inputs
			}
		}
	}
	return last
}

// OpMelt: Melt with the Lightning answers scripted. Ghost: the inputs are locked (pending) unless the mint
// answered PAID (reconciled: spent) or UNPAID (unlocked).
func (b *Books) OpMelt(w *bWallet, m *bMint, quote string, script []string) (string, error) {
	b.setScript(m, script...)
	var resp *nut05.PostMeltQuoteBolt11Response
	err, _ := b.run(func() error {
		var err error
		resp, err = w.W.Melt(quote)
		return err
	})
	b.setScript(m)
	ins := b.meltInputs(quote)
	state := "none"
	if resp != nil {
		state = resp.State.String()
	}
	// what the mint did with the inputs decides the ghost (model-free: read from the mint)
	if len(ins) > 0 {
		ys := make([]string, len(ins))
		for i, p := range ins {
			ys[i] = b.Y(p.Secret)
		}
		st := m.states(ys)
		switch {
		case resp != nil && (resp.State == nut05.Paid || resp.State == nut05.Unpaid):
			for _, p := range ins {
				delete(b.pendGhost[w.idx], p.Secret)
			}
		default:
			// pending answer, or an error: the wallet cannot know the outcome, the proofs stay locked
			for _, p := range ins {
				b.pendGhost[w.idx][p.Secret] = quote
			}
			_ = st
		}
	}
	return state, err
}

// OpCheckMelt: CheckMeltQuoteState with the Lightning status answer scripted.
func (b *Books) OpCheckMelt(w *bWallet, m *bMint, quote string, script []string) (string, error) {
	b.setScript(m, script...)
	var resp *nut05.PostMeltQuoteBolt11Response
	err, _ := b.run(func() error {
		var err error
		resp, err = w.W.CheckMeltQuoteState(quote)
		return err
	})
	b.setScript(m)
	state := "none"
	if resp != nil {
		state = resp.State.String()
		if resp.State == nut05.Paid || resp.State == nut05.Unpaid {
			for sec, q := range b.pendGhost[w.idx] {
				if q == quote {
					delete(b.pendGhost[w.idx], sec)
				}
			}
		}
	}
	return state, err
}

func (b *Books) OpRemoveSpent(w *bWallet, scripts map[int][]string) error {
	before := b.pendingWithStates(w)
	for mi, s := range scripts {
		b.setScript(b.mints[mi], s...)
	}
	err, _ := b.run(func() error { return w.W.RemoveSpentProofs() })
	for mi := range scripts {
		b.setScript(b.mints[mi])
	}
	// ghost: proofs that are SPENT at a trusted mint are reconciled
	after := b.pendingStatesNow(w, before)
	for sec, st := range after {
		if st == 2 {
			delete(b.pendGhost[w.idx], sec)
		}
	}
	return err
}

func (b *Books) OpReclaim(w *bWallet, scripts map[int][]string) (uint64, error) {
	before := b.pendingWithStates(w)
	for mi, s := range scripts {
		b.setScript(b.mints[mi], s...)
	}
	var got uint64
	err, _ := b.run(func() error {
		var err error
		got, err = w.W.ReclaimUnspentProofs()
		return err
	})
	for mi := range scripts {
		b.setScript(b.mints[mi])
	}
	// ghost: the proofs reclaimed are the inputs of the swaps this call got accepted (transport log)
	_ = before
	for _, sec := range b.swapInputsThisOp() {
		delete(b.pendGhost[w.idx], sec)
	}
	return got, err
}

type pendState struct {
	mint  int
	state int
	y     string
}

// swapInputsThisOp: secrets of the inputs of every swap request of the current operation the mint accepted.
func (b *Books) swapInputsThisOp() []string {
	b.net.mu.Lock()
	defer b.net.mu.Unlock()
	var out []string
	for _, r := range b.net.Log[b.logPos:] {
		if r.Method == "POST" && r.Path == "/v1/swap" && r.Status == 200 {
			var req wireOutputs
			if json.Unmarshal(r.Body, &req) == nil {
				for _, p := range req.Inputs {
					out = append(out, p.Secret)
				}
			}
		}
	}
	return out
}

// pendingWithStates: mint-side state of every ghost-pending proof of the wallet at a trusted mint.
func (b *Books) pendingWithStates(w *bWallet) map[string]pendState {
	out := map[string]pendState{}
	trusted := map[int]bool{}
	for _, u := range w.W.TrustedMints() {
		for _, m := range b.mints {
			if m.url == u {
				trusted[m.idx] = true
			}
		}
	}
	byMint := map[int][]string{}
	ks := map[string]string{}
	for _, p := range w.rawDB().GetPendingProofs() {
		ks[p.Secret] = p.Id
	}
	for sec := range b.pendGhost[w.idx] {
		id, ok := ks[sec]
		if !ok {
			continue
		}
		mi := b.mintOfKeyset(id)
		if mi < 0 || !trusted[mi] {
			continue
		}
		byMint[mi] = append(byMint[mi], sec)
	}
	for mi, secs := range byMint {
		ys := make([]string, len(secs))
		for i, s := range secs {
			ys[i] = b.Y(s)
		}
		st := b.mints[mi].states(ys)
		for i, s := range secs {
			out[s] = pendState{mint: mi, state: st[ys[i]], y: ys[i]}
		}
	}
	return out
}

func (b *Books) pendingStatesNow(w *bWallet, before map[string]pendState) map[string]int {
	out := map[string]int{}
	byMint := map[int][]string{}
	for sec, ps := range before {
		byMint[ps.mint] = append(byMint[ps.mint], sec)
	}
	for mi, secs := range byMint {
		ys := make([]string, len(secs))
		for i, s := range secs {
			ys[i] = b.Y(s)
		}
		st := b.mints[mi].states(ys)
		for i, s := range secs {
			out[s] = st[ys[i]]
		}
	}
	return out
}

// OpMintSwap: MintSwap(amount, from, to) with the melt's Lightning answers scripted at the `from` mint.
func (b *Books) OpMintSwap(w *bWallet, from, to *bMint, amount uint64, script []string) (uint64, error) {
	b.setScript(from, script...)
	var got uint64
	err, _ := b.run(func() error {
		var err error
		got, err = w.W.MintSwap(amount, from.url, to.url)
		return err
	})
	b.setScript(from)
	return got, err
}

func (b *Books) OpRotate(m *bMint, fee uint) error {
	_, err := m.env.M.RotateKeyset(fee)
	m.env.refreshKeysets()
	return err
}
