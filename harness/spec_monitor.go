package main

// Model-free monitor for C11 (and the C = k·hash_to_curve(secret) identity of C10):
// a second, independent implementation of hash_to_curve (NUT-00), the keyset id (NUT-02,
// version 00), BIP32 private derivation and the NUT-13 / mint-keyset paths, written from the
// specifications using ONLY crypto/sha256, crypto/hmac + crypto/sha512 and math/big.
// No btcec, no dcrec/secp256k1, no hdkeychain, nothing from /repo.
//
// Curve arithmetic is done in Jacobian coordinates with the EFD formulas dbl-2009-l and
// add-2007-bl (a different formula set than the Lean fast path uses), on math/big integers.

import (
	"crypto/hmac"
	"crypto/sha256"
	"crypto/sha512"
	"encoding/binary"
	"encoding/hex"
	"math/big"
	"sort"
)

func smHex(s string) *big.Int {
	v, ok := new(big.Int).SetString(s, 16)
	if !ok {
		panic("bad constant")
	}
	return v
}

var (
	smP   = smHex("FFFFFFFFFFFFFFFFFFFFFFFFFFFFFFFFFFFFFFFFFFFFFFFFFFFFFFFEFFFFFC2F")
	smN   = smHex("FFFFFFFFFFFFFFFFFFFFFFFFFFFFFFFEBAAEDCE6AF48A03BBFD25E8CD0364141")
	smGx  = smHex("79BE667EF9DCBBAC55A06295CE870B07029BFCDB2DCE28D959F2815B16F81798")
	smGy  = smHex("483ADA7726A3C4655DA4FBFC0E1108A8FD17B448A68554199C47D08FFB10D4B8")
	smExp = new(big.Int).Rsh(new(big.Int).Add(smP, big.NewInt(1)), 2) // (p+1)/4
)

// affine point; inf == true is the point at infinity
type smPoint struct {
	x, y *big.Int
	inf  bool
}

type smJac struct{ x, y, z *big.Int } // z == 0: infinity

func smMod(v *big.Int) *big.Int { return v.Mod(v, smP) }

func smMulF(a, b *big.Int) *big.Int { return smMod(new(big.Int).Mul(a, b)) }
func smSubF(a, b *big.Int) *big.Int { return smMod(new(big.Int).Sub(a, b)) }
func smAddF(a, b *big.Int) *big.Int { return smMod(new(big.Int).Add(a, b)) }

var smG = smPoint{x: smGx, y: smGy}

func smToJac(p smPoint) smJac {
	if p.inf {
		return smJac{big.NewInt(1), big.NewInt(1), big.NewInt(0)}
	}
	return smJac{new(big.Int).Set(p.x), new(big.Int).Set(p.y), big.NewInt(1)}
}

func smToAffine(j smJac) smPoint {
	if j.z.Sign() == 0 {
		return smPoint{inf: true}
	}
	zi := new(big.Int).ModInverse(j.z, smP)
	zi2 := smMulF(zi, zi)
	return smPoint{x: smMulF(j.x, zi2), y: smMulF(j.y, smMulF(zi2, zi))}
}

// dbl-2009-l (a = 0)
func smDouble(p smJac) smJac {
	if p.z.Sign() == 0 || p.y.Sign() == 0 {
		return smJac{big.NewInt(1), big.NewInt(1), big.NewInt(0)}
	}
	a := smMulF(p.x, p.x)
	b := smMulF(p.y, p.y)
	c := smMulF(b, b)
	xb := smAddF(p.x, b)
	d := smSubF(smSubF(smMulF(xb, xb), a), c)
	d = smAddF(d, d)
	e := smAddF(smAddF(a, a), a)
	f := smMulF(e, e)
	x3 := smSubF(f, smAddF(d, d))
	c8 := smMulF(c, big.NewInt(8))
	y3 := smSubF(smMulF(e, smSubF(d, x3)), c8)
	z3 := smMulF(smAddF(p.y, p.y), p.z)
	return smJac{x3, y3, z3}
}

// add-2007-bl
func smAddJ(p, q smJac) smJac {
	if p.z.Sign() == 0 {
		return q
	}
	if q.z.Sign() == 0 {
		return p
	}
	z1z1 := smMulF(p.z, p.z)
	z2z2 := smMulF(q.z, q.z)
	u1 := smMulF(p.x, z2z2)
	u2 := smMulF(q.x, z1z1)
	s1 := smMulF(smMulF(p.y, q.z), z2z2)
	s2 := smMulF(smMulF(q.y, p.z), z1z1)
	h := smSubF(u2, u1)
	r := smSubF(s2, s1)
	if h.Sign() == 0 {
		if r.Sign() == 0 {
			return smDouble(p)
		}
		return smJac{big.NewInt(1), big.NewInt(1), big.NewInt(0)}
	}
	r = smAddF(r, r)
	h2 := smAddF(h, h)
	i := smMulF(h2, h2)
	j := smMulF(h, i)
	v := smMulF(u1, i)
	x3 := smSubF(smSubF(smMulF(r, r), j), smAddF(v, v))
	s1j := smMulF(s1, j)
	y3 := smSubF(smMulF(r, smSubF(v, x3)), smAddF(s1j, s1j))
	zz := smAddF(p.z, q.z)
	z3 := smMulF(smSubF(smSubF(smMulF(zz, zz), z1z1), z2z2), h)
	return smJac{x3, y3, z3}
}

// k·P, left-to-right binary method
func smScalarMult(k *big.Int, p smPoint) smPoint {
	acc := smJac{big.NewInt(1), big.NewInt(1), big.NewInt(0)}
	if p.inf {
		return smPoint{inf: true}
	}
	pj := smToJac(p)
	for i := k.BitLen() - 1; i >= 0; i-- {
		acc = smDouble(acc)
		if k.Bit(i) == 1 {
			acc = smAddJ(acc, pj)
		}
	}
	return smToAffine(acc)
}

func smAddP(a, b smPoint) smPoint { return smToAffine(smAddJ(smToJac(a), smToJac(b))) }

func smNeg(a smPoint) smPoint {
	if a.inf {
		return a
	}
	return smPoint{x: a.x, y: smMod(new(big.Int).Sub(smP, a.y))}
}

// even square root of x^3+7, if any
func smLiftX(x *big.Int) (*big.Int, bool) {
	if x.Cmp(smP) >= 0 {
		return nil, false
	}
	c := smAddF(smMulF(smMulF(x, x), x), big.NewInt(7))
	y := new(big.Int).Exp(c, smExp, smP)
	if smMulF(y, y).Cmp(c) != 0 {
		return nil, false
	}
	if y.Bit(0) == 1 {
		y.Sub(smP, y)
	}
	return y, true
}

func smPad32(v *big.Int) []byte {
	out := make([]byte, 32)
	v.FillBytes(out)
	return out
}

func smCompress(p smPoint) []byte {
	if p.inf {
		return nil
	}
	pre := byte(2)
	if p.y.Bit(0) == 1 {
		pre = 3
	}
	return append([]byte{pre}, smPad32(p.x)...)
}

func smParse33(b []byte) (smPoint, bool) {
	if len(b) != 33 || (b[0] != 2 && b[0] != 3) {
		return smPoint{}, false
	}
	x := new(big.Int).SetBytes(b[1:])
	y, ok := smLiftX(x)
	if !ok {
		return smPoint{}, false
	}
	if b[0] == 3 {
		if y.Sign() == 0 {
			return smPoint{}, false
		}
		y = new(big.Int).Sub(smP, y)
	}
	return smPoint{x: x, y: y}, true
}

// NUT-00 hash_to_curve: compressed point, counter that produced it
func smHashToCurve(msg []byte) ([]byte, int, bool) {
	h := sha256.New()
	h.Write([]byte("Secp256k1_HashToCurve_Cashu_"))
	h.Write(msg)
	msgHash := h.Sum(nil)
	for counter := 0; counter < 1<<16; counter++ {
		var c [4]byte
		c[0] = byte(counter)
		c[1] = byte(counter >> 8)
		c[2] = byte(counter >> 16)
		c[3] = byte(counter >> 24)
		hh := sha256.New()
		hh.Write(msgHash)
		hh.Write(c[:])
		x := hh.Sum(nil)
		if _, ok := smLiftX(new(big.Int).SetBytes(x)); ok {
			return append([]byte{2}, x...), counter, true
		}
	}
	return nil, 0, false
}

// NUT-02 keyset id version 00 from (amount → 33-byte compressed key)
func smKeysetId(keys map[uint64][]byte) string {
	amounts := make([]uint64, 0, len(keys))
	for a := range keys {
		amounts = append(amounts, a)
	}
	sort.Slice(amounts, func(i, j int) bool { return amounts[i] < amounts[j] })
	h := sha256.New()
	for _, a := range amounts {
		h.Write(keys[a])
	}
	return "00" + hex.EncodeToString(h.Sum(nil))[:14]
}

// ---- BIP32 ----

type smXprv struct {
	k     *big.Int
	chain []byte
}

func smMaster(seed []byte) (smXprv, bool) {
	m := hmac.New(sha512.New, []byte("Bitcoin seed"))
	m.Write(seed)
	I := m.Sum(nil)
	il := new(big.Int).SetBytes(I[:32])
	if il.Sign() == 0 || il.Cmp(smN) >= 0 {
		return smXprv{}, false
	}
	return smXprv{il, I[32:]}, true
}

func smCKD(par smXprv, i uint32) (smXprv, bool) {
	var data []byte
	if i >= 1<<31 {
		data = append([]byte{0}, smPad32(par.k)...)
	} else {
		data = smCompress(smScalarMult(par.k, smG))
	}
	var ib [4]byte
	binary.BigEndian.PutUint32(ib[:], i)
	data = append(data, ib[:]...)
	m := hmac.New(sha512.New, par.chain)
	m.Write(data)
	I := m.Sum(nil)
	il := new(big.Int).SetBytes(I[:32])
	if il.Cmp(smN) >= 0 {
		return smXprv{}, false
	}
	k := new(big.Int).Add(il, par.k)
	k.Mod(k, smN)
	if k.Sign() == 0 {
		return smXprv{}, false
	}
	return smXprv{k, I[32:]}, true
}

// smDerive returns the key at m/path and every intermediate private key (master first).
func smDerive(seed []byte, path []uint32) (smXprv, []*big.Int, bool) {
	k, ok := smMaster(seed)
	if !ok {
		return smXprv{}, nil, false
	}
	trace := []*big.Int{k.k}
	for _, i := range path {
		k, ok = smCKD(k, i)
		if !ok {
			return smXprv{}, trace, false
		}
		trace = append(trace, k.k)
	}
	return k, trace, true
}

const smHard = uint32(1) << 31

// NUT-13: keyset_id_int = int.from_bytes(id, "big") % (2**31 - 1)
func smKeysetIdInt(id []byte) uint32 {
	v := new(big.Int).SetBytes(id)
	v.Mod(v, big.NewInt(1<<31-1))
	return uint32(v.Uint64())
}

func smNut13Path(id []byte, counter uint32, leaf uint32) []uint32 {
	return []uint32{smHard + 129372, smHard + 0, smHard + smKeysetIdInt(id), smHard + counter, leaf}
}

// secret (hex text) and blinding factor (32 bytes); traces of intermediate keys of both paths
func smNut13(seed, id []byte, counter uint32) (string, []byte, []*big.Int, bool) {
	s, tr1, ok1 := smDerive(seed, smNut13Path(id, counter, 0))
	r, tr2, ok2 := smDerive(seed, smNut13Path(id, counter, 1))
	if !ok1 || !ok2 {
		return "", nil, nil, false
	}
	return hex.EncodeToString(smPad32(s.k)), smPad32(r.k), append(tr1, tr2[len(tr2)-1]), true
}

func smP2PK(seed []byte) ([]byte, bool) {
	k, _, ok := smDerive(seed, []uint32{smHard + 129372, smHard + 0, smHard + 1, 0})
	if !ok {
		return nil, false
	}
	return smPad32(k.k), true
}

// mint keyset idx: id, 60 compressed public keys, 60 private keys (amount 2^j at position j)
func smMintKeys(seed []byte, idx uint32) (string, [][]byte, [][]byte, bool) {
	ks, _, ok := smDerive(seed, []uint32{smHard + 0, smHard + 0, smHard + idx})
	if !ok {
		return "", nil, nil, false
	}
	pubs := make([][]byte, 60)
	privs := make([][]byte, 60)
	m := map[uint64][]byte{}
	for j := 0; j < 60; j++ {
		c, ok := smCKD(ks, smHard+uint32(j))
		if !ok {
			return "", nil, nil, false
		}
		privs[j] = smPad32(c.k)
		pubs[j] = smCompress(smScalarMult(c.k, smG))
		m[uint64(1)<<uint(j)] = pubs[j]
	}
	return smKeysetId(m), pubs, privs, true
}

func dvBigFrom(v int64) *big.Int { return big.NewInt(v) }
func smBig(b []byte) *big.Int    { return new(big.Int).SetBytes(b) }
