package main

import (
	"math/bits"
	"net/http/httptest"
	"fmt"
	"os"
	"path/filepath"
	"strings"

	"github.com/elnosh/gonuts/cashu"
	"github.com/elnosh/gonuts/wallet"
)

// Stream "wallet-hist" (C17, C19): random sequential histories of REAL wallets against REAL in-process mints
// with every model-free monitor of wbooks.go run after every operation, the Lean bookkeeping model
// (books.* driver commands) stepped alongside and compared after every operation, deliberate witness
// replays of the defects found (F10, F12, F13), and a long-running restore → continue → restore variant.
func init() {
	register("wallet-hist", []string{"C17", "C19"},
		"random histories (30-120 ops; 2-3 real wallets, 1-2 real in-process mints, input_fee_ppk in {0,100,1000}): mint, send with/without fees, P2PK/SIG_ALL send, receive same-mint / untrusted-mint (trust or swap-to-trusted), melt with scripted Lightning outcome (paid, failed, pending then resolved), CheckMeltQuoteState, reclaim, remove-spent, MintSwap, keyset rotation, reopen, Restore into a fresh directory; monitors after every op; class = (op kind, outcome, fee class)",
		runWalletHist)
}

type histWorld struct {
	b       *Books
	c       *Ctx
	prefix  string
	pendQ   []pendMelt // melt quotes that may still be pending
	deficit []int64    // per mint: value already reported as lost
	model   *booksModel
	alias   map[int]int // harness wallet idx -> model wallet idx (restored wallets)
	// lock of the P2PK send in progress (for the model's op line)
	lockOwner  int
	lockSigAll bool
	// parameter of the crash scenario in progress (amount), 0 = the scenario's default
	param uint64
}

type pendMelt struct {
	w     int
	m     int
	quote string
}

func feeClass(ppk uint) string { return fmt.Sprintf("ppk%d", ppk) }

// sendMonitor (C18, end to end): what Send hands over is worth exactly the requested amount to the recipient — the
// proofs sum to `amount` without includeFees, and to `amount` + exactly the input fee the mint will charge for THESE
// proofs (ceil of the sum of their keysets' ppk / 1000) with includeFees.
// receiveMonitor (C17): a token received at its own mint is credited with its face value minus exactly the input fee the
// mint charges for its proofs (by their keysets' ppk) — nothing is left behind in the swap.
func (hw *histWorld) receiveMonitor(t *bToken, got uint64) {
	m := hw.b.mints[t.mint]
	ppkOf := map[string]uint{}
	for _, k := range m.env.M.ListKeysets().Keysets {
		ppkOf[k.Id] = k.InputFeePpk
	}
	var sum, ppkSum uint64
	for _, p := range t.proofs {
		sum += p.Amount
		ppkSum += uint64(ppkOf[p.Id])
	}
	want := sum - (ppkSum+999)/1000
	if got != want {
		dir := "less"
		if got > want {
			dir = "more"
		}
		hw.c.MonitorFail("C17", "C17/receive/credited-"+dir+"-than-value-minus-mint-fee",
			fmt.Sprintf("Receive of a token worth %d (%d proofs, mint input fee %d) credited %d", sum, len(t.proofs), (ppkSum+999)/1000, got), hw.b.replay())
	}
}

func (hw *histWorld) sendMonitor(m *bMint, amount uint64, fees bool, t *bToken) {
	if t == nil {
		return
	}
	ppkOf := map[string]uint{}
	for _, k := range m.env.M.ListKeysets().Keysets {
		ppkOf[k.Id] = k.InputFeePpk
	}
	var sum, ppkSum uint64
	maxPpk := uint(0)
	for _, p := range t.proofs {
		sum += p.Amount
		ppkSum += uint64(ppkOf[p.Id])
		if ppkOf[p.Id] > maxPpk {
			maxPpk = ppkOf[p.Id]
		}
	}
	mintFee := (ppkSum + 999) / 1000
	want := amount
	if fees {
		want = amount + mintFee
	}
	hw.c.Hist("send-e2e", fmt.Sprintf("fees=%v/%s/%s", fees, feeClass(maxPpk), map[bool]string{true: "exact", false: "off"}[sum == want]))
	if sum != want {
		dir := "above"
		if sum < want {
			dir = "below"
		}
		cls := "ppk<1000"
		if maxPpk >= 1000 {
			cls = "ppk>=1000"
		}
		// HOW the proofs were produced is part of the signature: the known finding K6 is the fee estimate of swapToSend
		// (the Send made a POST /v1/swap); proofs taken from the store as they are ("offline") are a different code path
		via := "offline"
		hw.b.net.mu.Lock()
		for _, r := range hw.b.net.Log[hw.b.logPos:] {
			if r.Method == "POST" && r.Path == "/v1/swap" {
				via = "swap"
			}
		}
		hw.b.net.mu.Unlock()
		hw.c.MonitorFail("C18", fmt.Sprintf("C18/send-e2e/handed-over-%s/fees=%v/%s/via=%s", dir, fees, cls, via),
			fmt.Sprintf("Send(%d, includeFees=%v) handed over proofs worth %d (%d proofs, mint input fee %d, produced %s): the recipient nets %d", amount, fees, sum, len(t.proofs), mintFee, via, sum-mintFee), hw.b.replay())
	}
}

func newHistWorld(c *Ctx, prefix string, fees []uint, nWallets int) (*histWorld, error) {
	sub := filepath.Join(c.Scratch, prefix)
	os.MkdirAll(sub, 0700)
	bc := *c // shares Rng, Res and the class table; only the scratch directory differs
	bc.Scratch = sub
	b := NewBooks(&bc)
	hw := &histWorld{b: b, c: c, prefix: prefix, alias: map[int]int{}}
	for _, f := range fees {
		if _, err := b.AddMint(f); err != nil {
			return nil, err
		}
	}
	for i := 0; i < nWallets; i++ {
		seed := b.NewSeed()
		if _, err := b.NewWallet(fmt.Sprintf("w%d", i), seed, i%len(b.mints)); err != nil {
			return nil, err
		}
	}
	hw.deficit = make([]int64, len(b.mints))
	return hw, nil
}

func (hw *histWorld) close() {
	hw.b.Close()
	os.RemoveAll(filepath.Join(hw.c.Scratch, hw.prefix))
}

// after runs the monitors; conservation failures are reported once per newly lost amount.
func (hw *histWorld) after(class string) {
	hw.c.Case(class, true)
	hw.c.Hist("ops", class)
	hw.b.Monitors()
}

func meltScript(outcome string) []string {
	switch outcome {
	case "paid":
		return []string{"succ"}
	case "failed":
		return []string{"failed", "failed"}
	case "failed-notfound":
		return []string{"failed", "notfound"}
	case "failed-then-paid":
		return []string{"failed", "succ"}
	case "pending":
		return []string{"pending"}
	case "unknown":
		return []string{"err", "err"}
	}
	return []string{"succ"}
}

func (hw *histWorld) liveWallets() []*bWallet {
	var out []*bWallet
	for _, w := range hw.b.wallets {
		if !w.dead && w.W != nil {
			out = append(out, w)
		}
	}
	return out
}

func (hw *histWorld) trusts(w *bWallet, m *bMint) bool {
	for _, u := range w.W.TrustedMints() {
		if u == m.url {
			return true
		}
	}
	return false
}

func (hw *histWorld) trustedMints(w *bWallet) []*bMint {
	var out []*bMint
	for _, m := range hw.b.mints {
		if hw.trusts(w, m) {
			out = append(out, m)
		}
	}
	return out
}

func (hw *histWorld) balanceAt(w *bWallet, m *bMint) uint64 {
	return w.W.GetBalanceByMints()[m.url]
}

// step performs one random operation.
func (hw *histWorld) step() {
	b, r := hw.b, hw.c.Rng
	ws := hw.liveWallets()
	if len(ws) == 0 {
		return
	}
	w := ws[r.Intn(len(ws))]
	tm := hw.trustedMints(w)
	m := tm[r.Intn(len(tm))]
	ppk := m.env.Opts.FeePpk
	roll := r.Intn(100)
	switch {
	case roll < 14: // mint
		amt := []uint64{1, 3, 8, 21, 64, 100, 255, 1000, 1023}[r.Intn(9)]
		b.begin("mint", w.idx, fmt.Sprintf("mint w%d m%d %d", w.idx, m.idx, amt))
		_, err := b.OpMint(w, m, amt)
		hw.model.mint(hw, w, m, amt, err)
		hw.after("mint/" + errTag(err) + "/" + feeClass(ppk))
	case roll < 32: // send
		bal := hw.balanceAt(w, m)
		if bal == 0 {
			return
		}
		amt := uint64(1 + r.Intn(int(min64(bal, 300))))
		if r.Chance(10) {
			amt = bal
		}
		fees := r.Bool()
		b.begin("send", w.idx, fmt.Sprintf("send w%d m%d %d fees=%v", w.idx, m.idx, amt, fees))
		t, err := b.OpSend(w, m, amt, fees)
		hw.model.send(hw, w, m, amt, fees, t, err)
		if err == nil {
			hw.sendMonitor(m, amt, fees, t)
		}
		hw.after(fmt.Sprintf("send/%s/fees=%v/%s", errTag(err), fees, feeClass(ppk)))
	case roll < 36: // P2PK send (optionally SIG_ALL)
		bal := hw.balanceAt(w, m)
		if bal < 4 || len(ws) < 2 {
			return
		}
		to := ws[r.Intn(len(ws))]
		if to == w {
			return
		}
		amt := uint64(1 + r.Intn(int(min64(bal/2, 64))))
		sigAll := r.Bool()
		fees := r.Bool()
		b.begin("send-locked", w.idx, fmt.Sprintf("sendlocked w%d m%d to=w%d %d sigall=%v fees=%v", w.idx, m.idx, to.idx, amt, sigAll, fees))
		t, err := b.OpSendLocked(w, m, to, amt, sigAll, fees)
		hw.lockOwner, hw.lockSigAll = to.seed, sigAll
		hw.model.sendLocked(hw, w, m, amt, fees, t, err)
		hw.after(fmt.Sprintf("send-locked/%s/sigall=%v/%s", errTag(err), sigAll, feeClass(ppk)))
	case roll < 54: // receive
		if len(b.tokens) == 0 {
			return
		}
		t := b.tokens[r.Intn(len(b.tokens))]
		rc := ws[r.Intn(len(ws))]
		if t.to >= 0 {
			rc = b.wallets[t.to]
			if rc.dead || rc.W == nil {
				return
			}
		}
		tmint := b.mints[t.mint]
		swapToTrusted := false
		kind := "receive-same"
		if rc.home != t.mint {
			swapToTrusted = r.Bool()
			if swapToTrusted {
				kind = "receive-trusted"
			} else {
				kind = "receive-trust"
			}
		}
		strip := r.Bool()
		outcome := "paid"
		if swapToTrusted {
			outcome = []string{"paid", "paid", "paid", "failed", "pending"}[r.Intn(5)]
			b.setScript(tmint, meltScript(outcome)...)
			kind += "/" + outcome
			if t.sigAll {
				kind += "/sigall"
			}
		}
		b.begin(strings.SplitN(kind, "/", 2)[0], rc.idx, fmt.Sprintf("receive w%d tok%d(m%d,from w%d) swapToTrusted=%v strip=%v ln=%s", rc.idx, t.id, t.mint, t.from, swapToTrusted, strip, outcome))
		b.opKind = kind
		if swapToTrusted && t.sigAll && outcome != "paid" {
			b.hint = "C17/swapToTrusted/sigall-proofs-dropped-on-unpaid-melt"
		}
		got, err := b.OpReceive(rc, t, swapToTrusted, strip)
		if err == nil && !swapToTrusted {
			hw.receiveMonitor(t, got)
		}
		if swapToTrusted && t.sigAll && err != nil {
			// the same defect whatever makes swapProofs fail after the SIG_ALL pre-swap (melt not PAID, or e.g. a 1-sat
			// token that cannot cover the fee reserve): the pre-swapped proofs exist only in memory and are dropped
			b.hint = "C17/swapToTrusted/sigall-proofs-dropped-on-unpaid-melt"
		}
		b.setScript(tmint)
		hw.model.receive(hw, rc, t, swapToTrusted, strip, outcome, got, err)
		b.pruneTokens()
		hw.after(fmt.Sprintf("%s/%s/%s", kind, errTag(err), feeClass(tmint.env.Opts.FeePpk)))
	case roll < 66: // melt
		bal := hw.balanceAt(w, m)
		if bal < 3 {
			return
		}
		amt := uint64(1 + r.Intn(int(min64(bal*2/3, 200))))
		outcome := []string{"paid", "paid", "failed", "failed-notfound", "pending", "pending", "unknown", "failed-then-paid"}[r.Intn(8)]
		b.begin("melt", w.idx, fmt.Sprintf("melt w%d m%d %d ln=%s", w.idx, m.idx, amt, outcome))
		q, err := b.OpMeltQuote(w, m, amt)
		if err != nil {
			hw.model.resync(hw, "melt-quote-error")
			hw.after("melt-quote/" + errTag(err))
			return
		}
		st, err := b.OpMelt(w, m, q.Quote, meltScript(outcome))
		if st == "PENDING" || (err != nil && st == "none") {
			hw.pendQ = append(hw.pendQ, pendMelt{w.idx, m.idx, q.Quote})
		}
		hw.model.melt(hw, w, m, amt, q.Quote, outcome, st, err)
		hw.after(fmt.Sprintf("melt/%s/%s/%s/%s", outcome, st, errTag(err), feeClass(ppk)))
	case roll < 74: // check melt quote
		if len(hw.pendQ) == 0 {
			return
		}
		i := r.Intn(len(hw.pendQ))
		pq := hw.pendQ[i]
		pw := b.wallets[pq.w]
		if pw.dead || pw.W == nil {
			return
		}
		res := []string{"succ", "failed", "pending", "err"}[r.Intn(4)]
		b.begin("checkmelt", pw.idx, fmt.Sprintf("checkmelt w%d m%d q=%s ln=%s", pw.idx, pq.m, short(pq.quote), res))
		st, err := b.OpCheckMelt(pw, b.mints[pq.m], pq.quote, []string{res})
		if st == "PAID" || st == "UNPAID" {
			hw.pendQ = append(hw.pendQ[:i], hw.pendQ[i+1:]...)
		}
		hw.model.checkMelt(hw, pw, b.mints[pq.m], pq.quote, res, st, err)
		hw.after(fmt.Sprintf("checkmelt/%s/%s/%s", res, st, errTag(err)))
	case roll < 79: // reclaim
		scripts := map[int][]string{}
		res := []string{"succ", "failed", "pending"}[r.Intn(3)]
		for _, mm := range b.mints {
			scripts[mm.idx] = []string{res, res, res, res, res, res}
		}
		b.begin("reclaim", w.idx, fmt.Sprintf("reclaim w%d ln=%s", w.idx, res))
		got, err := b.OpReclaim(w, scripts)
		hw.model.reclaim(hw, w, res, got, err)
		hw.after(fmt.Sprintf("reclaim/%s/%s/got=%v", res, errTag(err), got > 0))
	case roll < 84: // remove spent
		scripts := map[int][]string{}
		res := []string{"succ", "failed", "pending"}[r.Intn(3)]
		for _, mm := range b.mints {
			scripts[mm.idx] = []string{res, res, res, res, res, res}
		}
		b.begin("removespent", w.idx, fmt.Sprintf("removespent w%d ln=%s", w.idx, res))
		err := b.OpRemoveSpent(w, scripts)
		hw.model.removeSpent(hw, w, res, err)
		hw.after(fmt.Sprintf("removespent/%s/%s", res, errTag(err)))
	case roll < 90: // mint swap
		if len(tm) < 2 {
			return
		}
		to := tm[r.Intn(len(tm))]
		if to == m {
			return
		}
		bal := hw.balanceAt(w, m)
		if bal < 8 {
			return
		}
		amt := uint64(4 + r.Intn(int(min64(bal/2, 200))))
		outcome := []string{"paid", "paid", "failed", "pending"}[r.Intn(4)]
		b.begin("mintswap", w.idx, fmt.Sprintf("mintswap w%d m%d->m%d %d ln=%s", w.idx, m.idx, to.idx, amt, outcome))
		b.opKind = "mintswap/" + outcome
		if outcome != "paid" {
			b.hint = "C17/swapProofs/proofs-dropped-on-unpaid-melt"
		}
		got, err := b.OpMintSwap(w, m, to, amt, meltScript(outcome))
		hw.model.mintSwap(hw, w, m, to, amt, outcome, got, err)
		hw.after(fmt.Sprintf("mintswap/%s/%s/%s", outcome, errTag(err), feeClass(ppk)))
	case roll < 93: // rotate
		fee := []uint{0, 100, 1000}[r.Intn(3)]
		b.begin("rotate", -1, fmt.Sprintf("rotate m%d fee=%d", m.idx, fee))
		err := b.OpRotate(m, fee)
		m.env.Opts.FeePpk = fee
		hw.model.rotate(hw, m, fee)
		hw.after("rotate/" + errTag(err))
	case roll < 96: // reopen
		b.begin("reopen", w.idx, fmt.Sprintf("reopen w%d", w.idx))
		err := b.Reopen(w)
		hw.model.reopen(hw, w)
		hw.after("reopen/" + errTag(err))
	default: // restore into a fresh directory and compare with the mint-side truth
		b.begin("restore-check", w.idx, fmt.Sprintf("restorecheck seed%d", w.seed))
		res := b.CheckRestore(w.seed, "hist", false)
		hw.c.Case("restore-check/"+errTag(res.err), true)
		hw.c.Hist("ops", "restore-check")
	}
}

func min64(a, b uint64) uint64 {
	if a < b {
		return a
	}
	return b
}

func runHistory(c *Ctx, h int) {
	r := c.Rng
	feeSet := []uint{0, 100, 1000}
	nM := 1 + r.Intn(2)
	fees := make([]uint, nM)
	for i := range fees {
		fees[i] = feeSet[r.Intn(3)]
	}
	nW := 2 + r.Intn(2)
	hw, err := newHistWorld(c, fmt.Sprintf("h%d", h), fees, nW)
	if err != nil {
		c.Disagree([]string{"C17", "C19"}, "setup", err.Error(), "", nil)
		return
	}
	defer hw.close()
	hw.model = newBooksModel(hw)
	nOps := 30 + r.Intn(91)
	// every wallet starts with some funds at its home mint
	for _, w := range hw.b.wallets {
		m := hw.b.mints[w.home]
		amt := uint64(100 + r.Intn(900))
		hw.b.begin("mint", w.idx, fmt.Sprintf("mint w%d m%d %d", w.idx, m.idx, amt))
		_, err := hw.b.OpMint(w, m, amt)
		hw.model.mint(hw, w, m, amt, err)
		hw.after("mint/" + errTag(err) + "/" + feeClass(m.env.Opts.FeePpk))
	}
	for i := 0; i < nOps; i++ {
		hw.step()
	}
	// end of history: every seed restored and compared
	if lw := hw.liveWallets(); len(lw) > 0 {
		w := lw[r.Intn(len(lw))]
		hw.b.begin("restore-check", w.idx, fmt.Sprintf("restorecheck seed%d", w.seed))
		res := hw.b.CheckRestore(w.seed, "end", false)
		c.Case("restore-check-end/"+errTag(res.err), true)
	}
	c.Sample(map[string]any{"history": h, "mints": fees, "wallets": nW, "ops": hw.b.opIdx, "requests": len(hw.b.net.Log)})
}

func runWalletHist(c *Ctx) {
	n := 6
	if c.Thorough {
		n = 220
	}
	keysSubstitution(c)
	witnessF12(c)
	witnessF13(c)
	witnessF10(c)
	witnessF16(c)
	{
		// a scenario added later must not shift the random histories below (their PRNG forks are taken from c.Rng in the
		// loop): it runs on a private generator (seeded change C19-4 was caught by a random history only and was lost
		// when this scenario first consumed c.Rng)
		saved := c.Rng
		c.Rng = NewRng(c.Seed ^ 0x5e771ed)
		restoreNoticesSettledMelt(c)
		twoMintsCounters(c)
		c.Rng = saved
	}
	// every history draws from its own fork of the run's PRNG: history h of (seed, tier) can be replayed alone
	// (VERIF_WH_ONLY=h) without running the ones before it
	only := -1
	if v := os.Getenv("VERIF_WH_ONLY"); v != "" {
		fmt.Sscanf(v, "%d", &only)
	}
	for h := 0; h < n; h++ {
		sub := c.Rng.Fork()
		if only >= 0 && h != only {
			continue
		}
		saved := c.Rng
		c.Rng = sub
		runHistory(c, h)
		c.Rng = saved
	}
	if only >= 0 {
		return
	}
	for k := 0; k < 16; k++ {
		rotationNoticedBy(c, k)
	}
	longRun(c, 0)
	if c.Thorough {
		for k := 1; k < 4; k++ {
			longRun(c, k)
		}
	}
}

// ---------------------------------------------------------------- deliberate witnesses

// witnessF12: MintSwap whose melt is not paid drops the selected proofs (C17).
func witnessF12(c *Ctx) {
	for _, outcome := range []string{"failed", "pending"} {
		hw, err := newHistWorld(c, "f12-"+outcome, []uint{0, 0}, 1)
		if err != nil {
			c.Disagree([]string{"C17"}, "setup-f12", err.Error(), "", nil)
			return
		}
		hw.model = newBooksModel(hw)
		b := hw.b
		w := b.wallets[0]
		m0, m1 := b.mints[0], b.mints[1]
		b.begin("mint", 0, "mint w0 m0 64")
		_, err = b.OpMint(w, m0, 64)
		hw.model.mint(hw, w, m0, 64, err)
		hw.after("witness-f12/mint")
		// trust the second mint: receive nothing, simply add it
		if _, err := w.W.AddMint(m1.url); err != nil {
			c.Disagree([]string{"C17"}, "f12-addmint", err.Error(), "", nil)
		}
		hw.model.addMint(hw, w, m1)
		b.begin("mintswap", 0, "mintswap w0 m0->m1 32 ln="+outcome)
		b.opKind = "mintswap/" + outcome
		b.hint = "C17/swapProofs/proofs-dropped-on-unpaid-melt"
		got, err := b.OpMintSwap(w, m0, m1, 32, meltScript(outcome))
		hw.model.mintSwap(hw, w, m0, m1, 32, outcome, got, err)
		hw.after("witness-f12/mintswap/" + outcome + "/" + errTag(err))
		hw.close()
	}
}

// witnessF13: two SIG_ALL P2PK tokens from an untrusted mint received with swap-to-trusted: the second receive
// derives its swap outputs for the foreign keyset from counter 0 again (C19).
func witnessF13(c *Ctx) {
	hw, err := newHistWorld(c, "f13", []uint{0, 0}, 2)
	if err != nil {
		c.Disagree([]string{"C19"}, "setup-f13", err.Error(), "", nil)
		return
	}
	hw.model = newBooksModel(hw)
	defer hw.close()
	b := hw.b
	snd, rcv := b.wallets[0], b.wallets[1] // homes: mint 0 and mint 1
	m0 := b.mints[0]
	b.begin("mint", 0, "mint w0 m0 64")
	_, err = b.OpMint(snd, m0, 64)
	hw.model.mint(hw, snd, m0, 64, err)
	hw.after("witness-f13/mint")
	for k := 0; k < 2; k++ {
		b.begin("send-locked", 0, "sendlocked w0 m0 to=w1 8 sigall=true fees=false")
		t, err := b.OpSendLocked(snd, m0, rcv, 8, true, false)
		hw.lockOwner, hw.lockSigAll = rcv.seed, true
		hw.model.sendLocked(hw, snd, m0, 8, false, t, err)
		hw.after("witness-f13/send-locked/" + errTag(err))
		if err != nil {
			return
		}
		b.setScript(m0, "succ")
		b.begin("receive-trusted", 1, fmt.Sprintf("receive w1 tok%d swapToTrusted=true ln=paid (#%d)", t.id, k+1))
		b.opKind = "receive-trusted/paid/sigall"
		got, err := b.OpReceive(rcv, t, true, false)
		b.setScript(m0)
		hw.model.receive(hw, rcv, t, true, false, "paid", got, err)
		b.pruneTokens()
		hw.after(fmt.Sprintf("witness-f13/receive-%d/%s", k+1, errTag(err)))
	}
}

// keysSubstitution (C10): the keys a wallet verifies DLEQ proofs and unblinds with come from GET /v1/keys/{id}.  If the
// answer is the (self-consistent) document of ANOTHER keyset, the wallet must refuse it — the keyset id is the hash of
// the keys, and "a signature made with a different key than the published one is always detected" only holds if the
// keys stored under an id are the keys of THAT id.
func keysSubstitution(c *Ctx) {
	hw, err := newHistWorld(c, "keysub", []uint{0}, 1)
	if err != nil {
		c.Disagree([]string{"C10"}, "setup-keysub", err.Error(), "", nil)
		return
	}
	defer hw.close()
	b := hw.b
	m := b.mints[0]
	idA := m.env.ActiveKeysetId()
	b.OpRotate(m, 0)
	idB := m.env.ActiveKeysetId()
	if idA == idB {
		return
	}
	fetch := func(id string) []byte {
		rec := httptest.NewRecorder()
		m.env.Srv.VerifHandler().ServeHTTP(rec, httptest.NewRequest("GET", "/v1/keys/"+id, nil))
		return rec.Body.Bytes()
	}
	docA := fetch(idA)
	b.net.After = func(r *WireReq) error {
		if r.Method == "GET" && r.Path == "/v1/keys/"+idB {
			r.Resp = docA
		}
		return nil
	}
	defer func() { b.net.After = nil }()
	replay := map[string]any{"scenario": "GET /v1/keys/" + idB + " answered with the document of keyset " + idA}
	if keys, err := wallet.GetKeysetKeys(m.url, idB); err == nil {
		c.MonitorFail("C10", "C10/wallet/keys-of-another-keyset-accepted", fmt.Sprintf("wallet.GetKeysetKeys(%s) accepted %d keys whose keyset id is %s", idB, len(keys), idA), replay)
	}
	if ks, err := wallet.GetMintActiveKeyset(m.url, cashu.Sat); err == nil && ks != nil {
		c.MonitorFail("C10", "C10/wallet/keys-of-another-keyset-accepted", "wallet.GetMintActiveKeyset stored, under the active keyset's id "+ks.Id+", the keys of keyset "+idA, replay)
	}
	// control: the honest answer is accepted
	b.net.After = nil
	if _, err := wallet.GetKeysetKeys(m.url, idB); err != nil {
		c.MonitorFail("C10", "C10/wallet/own-keys-refused", "wallet.GetKeysetKeys refuses the mint's honest document: "+err.Error(), replay)
	}
	c.Case("keys-substitution", true)
}

// witnessF16: a Melt whose request the mint refuses (the fee estimate of swapToSend is too low at 1000 ppk, K6)
// leaves its proofs pending under the quote id; the same quote melted again with other proofs is PAID and
// DeletePendingProofsByQuoteId removes the first attempt's proofs as well, although they are unspent (C17).
func witnessF16(c *Ctx) {
	hw, err := newHistWorld(c, "f16", []uint{1000}, 1)
	if err != nil {
		c.Disagree([]string{"C17"}, "setup-f16", err.Error(), "", nil)
		return
	}
	hw.model = newBooksModel(hw)
	defer hw.close()
	b := hw.b
	w, m := b.wallets[0], b.mints[0]
	b.begin("mint", 0, "mint w0 m0 100")
	_, err = b.OpMint(w, m, 100)
	hw.model.mint(hw, w, m, 100, err)
	hw.after("witness-f16/mint")
	for _, sd := range []struct {
		amt  uint64
		fees bool
	}{{6, false}, {3, true}, {4, false}} {
		b.begin("send", 0, fmt.Sprintf("send w0 m0 %d fees=%v", sd.amt, sd.fees))
		t, err := b.OpSend(w, m, sd.amt, sd.fees)
		hw.model.send(hw, w, m, sd.amt, sd.fees, t, err)
		hw.after("witness-f16/send/" + errTag(err))
	}
	b.begin("melt", 0, "melt w0 m0 16 ln=paid (first attempt)")
	q, err := b.OpMeltQuote(w, m, 16)
	if err != nil {
		return
	}
	st, err := b.OpMelt(w, m, q.Quote, meltScript("paid"))
	hw.model.melt(hw, w, m, 16, q.Quote, "paid", st, err)
	hw.after("witness-f16/melt-1/" + st + "/" + errTag(err))
	if err == nil {
		c.Hist("witness-f16", "first-attempt-not-refused")
		return
	}
	b.begin("melt", 0, "melt w0 m0 16 ln=paid (same quote again)")
	b.opKind = "melt-retry"
	b.hint = "C17/melt/retry-drops-first-attempt-proofs"
	st, err = b.OpMelt(w, m, q.Quote, meltScript("paid"))
	hw.model.meltAgain(hw, w, m, q.Quote, "paid", st, err)
	hw.after("witness-f16/melt-2/" + st + "/" + errTag(err))
}

// witnessF10: a wallet with more than 200 outputs on one keyset is restored; the restored wallet continues;
// it is restored again (C19 restore_counter / restore_complete).
func witnessF10(c *Ctx) {
	hw, err := newHistWorld(c, "f10", []uint{0}, 1)
	if err != nil {
		c.Disagree([]string{"C19"}, "setup-f10", err.Error(), "", nil)
		return
	}
	hw.model = newBooksModel(hw)
	defer hw.close()
	restoreContinueRestore(hw, 250, "witness-f10")
}

// restoreNoticesSettledMelt (seeded change C19-7): a melt is in flight (the mint answered PENDING, the inputs are
// locked); the payment then succeeds at the backend and NOBODY polls the quote; the wallet is lost and restored from
// the seed. The state check that Restore sends is the first request to notice the settlement: the mint must answer
// with the state AFTER it has settled the melt (inputs SPENT), so the restored wallet holds exactly what is unspent
// or locked at the mint. Model-free (the mint's tables are the truth); the same with a payment that fails.
func restoreNoticesSettledMelt(c *Ctx) {
	for _, outcome := range []string{"succ", "failed"} {
		hw, err := newHistWorld(c, "rsm-"+outcome, []uint{0}, 1)
		if err != nil {
			c.Disagree([]string{"C19"}, "setup-rsm", err.Error(), "", nil)
			return
		}
		func() {
			defer hw.close()
			b := hw.b
			w, m := b.wallets[0], b.mints[0]
			b.begin("mint", 0, "mint w0 m0 100")
			if _, err := b.OpMint(w, m, 100); err != nil {
				c.Hist("rsm", "mint-failed")
				return
			}
			hw.after("rsm/mint")
			b.begin("melt", 0, "melt w0 m0 37 ln=pending")
			q, err := b.OpMeltQuote(w, m, 37)
			if err != nil {
				c.Hist("rsm", "quote-failed")
				return
			}
			st, err := b.OpMelt(w, m, q.Quote, meltScript("pending"))
			hw.after("rsm/melt/" + st + "/" + errTag(err))
			if st != "PENDING" {
				c.Hist("rsm", "melt-not-pending:"+st)
				return
			}
			// the payment is decided at the backend; the only request that asks is the state check of Restore
			b.setScript(m, outcome, outcome, outcome, outcome)
			b.begin("restore", 0, fmt.Sprintf("restore seed%d: first request to notice the %s payment", w.seed, outcome))
			res := b.CheckRestore(w.seed, "rsm-"+outcome, false)
			b.setScript(m)
			c.Case("rsm/restore/"+outcome+"/"+errTag(res.err), true)
			c.Hist("rsm", "restored-"+outcome)
		}()
	}
}

// twoMintsCounters (seeded change C19-4, until now caught by a random history only): a wallet that trusts two mints
// creates outputs at BOTH, twice each, then sends with change at both; the counter of each mint's keyset is looked up in
// the wallet store among the keysets of ALL mints (whichever bucket comes first): no blinded message may be submitted
// twice (the C19 transport monitor runs after every operation). Model-free.
func twoMintsCounters(c *Ctx) {
	hw, err := newHistWorld(c, "two-mints", []uint{0, 0}, 1)
	if err != nil {
		c.Disagree([]string{"C19"}, "setup-two-mints", err.Error(), "", nil)
		return
	}
	defer hw.close()
	b := hw.b
	w := b.wallets[0]
	m0, m1 := b.mints[0], b.mints[1]
	if _, err := w.W.AddMint(m1.url); err != nil {
		c.Hist("two-mints", "addmint-failed")
		return
	}
	for round := 0; round < 2; round++ {
		for _, m := range []*bMint{m0, m1} {
			b.begin("mint", 0, fmt.Sprintf("mint w0 m%d 21 (round %d)", m.idx, round))
			_, err := b.OpMint(w, m, 21)
			hw.after(fmt.Sprintf("two-mints/mint-m%d/%s", m.idx, errTag(err)))
		}
	}
	for _, m := range []*bMint{m0, m1} {
		b.begin("send", 0, fmt.Sprintf("send w0 m%d 3 fees=false", m.idx))
		_, err := b.OpSend(w, m, 3, false)
		hw.after(fmt.Sprintf("two-mints/send-m%d/%s", m.idx, errTag(err)))
	}
	c.Hist("two-mints", "done")
}

// restoreContinueRestore: mint until the wallet has at least nOut signed outputs on the active keyset, restore,
// continue with the RESTORED wallet (the original is retired), restore again.
func restoreContinueRestore(hw *histWorld, nOut int, tag string) {
	b, c := hw.b, hw.c
	w := b.wallets[0]
	m := b.mints[w.home]
	guardN := 0
	for int(w.W.VerifDB().GetKeysetCounter(m.env.ActiveKeysetId())) < nOut && guardN < 400 {
		guardN++
		amt := uint64(1023)
		b.begin("mint", w.idx, fmt.Sprintf("mint w%d m%d %d", w.idx, m.idx, amt))
		_, err := b.OpMint(w, m, amt)
		hw.model.mint(hw, w, m, amt, err)
		hw.after(tag + "/mint/" + errTag(err))
		if guardN%5 == 0 {
			bal := hw.balanceAt(w, m)
			if bal > 700 {
				b.begin("send", w.idx, fmt.Sprintf("send w%d m%d 700 fees=false", w.idx, m.idx))
				t, err := b.OpSend(w, m, 700, false)
				hw.model.send(hw, w, m, 700, false, t, err)
				hw.after(tag + "/send/" + errTag(err))
			}
		}
	}
	c.Hist("long-run", fmt.Sprintf("%s/outputs>=%d", tag, nOut))
	b.begin("restore", w.idx, fmt.Sprintf("restore seed%d (1st)", w.seed))
	res := b.CheckRestore(w.seed, tag+"-first", true)
	c.Case(tag+"/restore-1/"+errTag(res.err), true)
	if res.err != nil {
		return
	}
	// the original is retired; the restored directory is the wallet from now on
	w.W.Shutdown()
	w.dead = true
	nw, err := b.AdoptDir(w.name+"r", res.dir, w.seed, w.home)
	if err != nil {
		b.c.MonitorFail("C19", "C19/restore/does-not-load", "restored wallet does not load: "+err.Error(), b.replay())
		return
	}
	hw.model.adopt(hw, w, nw)
	b.begin("reopen", nw.idx, "adopt restored wallet")
	hw.after(tag + "/adopt")
	for k := 0; k < 3; k++ {
		b.begin("mint", nw.idx, fmt.Sprintf("mint w%d m%d 100 (after restore)", nw.idx, m.idx))
		_, err := b.OpMint(nw, m, 100)
		hw.model.mint(hw, nw, m, 100, err)
		hw.after(tag + "/mint-after-restore/" + errTag(err))
	}
	b.begin("restore", nw.idx, fmt.Sprintf("restore seed%d (2nd, of the restored wallet)", nw.seed))
	res2 := b.CheckRestore(nw.seed, tag+"-second", false)
	c.Case(tag+"/restore-2/"+errTag(res2.err), true)
}

// rotationNoticedBy: the mint rotates its keyset while the wallet session is open; the FIRST wallet call that notices
// it is, in turn, a send that needs a swap, a melt, a mint and a receive — followed by two more sends and a mint.
// After each call the monitors compare the stored counter of every keyset with the counters the mint has signed and
// look for a blinded message submitted twice.
func rotationNoticedBy(c *Ctx, k int) {
	first := []string{"send-swap", "melt", "mint", "receive"}[k%4]
	// k >= 4: the rotation also changes the input fee, and sends ask for includeFees (the fee of the recipient's proofs
	// is the NEW keyset's; inputs of the old keyset are charged the OLD keyset's fee)
	// k >= 8: the same, but the operator rotates the usual way: the mint is RESTARTED with another configured fee and
	// the rotate flag (the keysets are rebuilt from their stored rows; an old keyset keeps the fee it was created with)
	f0, f1, withFees := uint(0), uint(0), false
	byRestart := k >= 8 && k < 12
	if k >= 4 {
		f0, f1, withFees = 100, 500, true
		if first == "receive" {
			f0, f1 = 0, 1000
		}
		first += "+fee"
	}
	// k >= 12 (seeded change C18-7): the rotation goes from a fee-charging keyset to a keyset WITHOUT fee; the wallet
	// still holds proofs of the old keyset, which the mint keeps charging for: a send with includeFees must add THEIR fee
	toZero := k >= 12
	if toZero {
		f0, f1 = 1000, 0
		first += "+tozero"
	}
	if byRestart {
		first += "+restart"
	}
	hw, err := newHistWorld(c, "rot-"+first, []uint{f0}, 2)
	if err != nil {
		c.Disagree([]string{"C19"}, "setup-rot", err.Error(), "", nil)
		return
	}
	hw.model = newBooksModel(hw)
	defer hw.close()
	b := hw.b
	w, w2 := b.wallets[0], b.wallets[1]
	m := b.mints[0]
	mintN := func(x *bWallet, amt uint64, tag string) {
		b.begin("mint", x.idx, fmt.Sprintf("mint w%d m%d %d", x.idx, m.idx, amt))
		_, err := b.OpMint(x, m, amt)
		hw.model.mint(hw, x, m, amt, err)
		hw.after("rot/" + first + "/" + tag + "/" + errTag(err))
	}
	sendN := func(x *bWallet, amt uint64, tag string) *bToken {
		b.begin("send", x.idx, fmt.Sprintf("send w%d m%d %d fees=%v", x.idx, m.idx, amt, withFees))
		t, err := b.OpSend(x, m, amt, withFees)
		hw.model.send(hw, x, m, amt, withFees, t, err)
		if err == nil {
			hw.sendMonitor(m, amt, withFees, t)
		}
		hw.after("rot/" + first + "/" + tag + "/" + errTag(err))
		return t
	}
	mintN(w, 64, "fund")
	mintN(w2, 64, "fund2")
	tok := sendN(w2, 5, "token-for-receive")
	// make sure the first send after the rotation needs a swap WITH change (deterministic outputs on the new
	// keyset): give away the small coins with exact sends, then pick an amount no subset of the coins adds up to
	for it := 0; it < 16; it++ {
		small := uint64(0)
		for _, p := range w.W.VerifDB().GetProofs() {
			if p.Amount <= 2 {
				small = p.Amount
				break
			}
		}
		if small == 0 {
			break
		}
		sendN(w, small, "drain")
	}
	reach := map[uint64]bool{0: true}
	var total uint64
	for _, p := range w.W.VerifDB().GetProofs() {
		total += p.Amount
		next := map[uint64]bool{}
		for v := range reach {
			next[v], next[v+p.Amount] = true, true
		}
		reach = next
	}
	x := uint64(0)
	for v := uint64(1); v < total; v++ {
		// (two or more coins for the recipient: with includeFees the fee of count+1 proofs differs between fee rates)
		if !reach[v] && !reach[v+1] && !reach[v+2] && bits.OnesCount64(v) >= 2 {
			x = v
			break
		}
	}
	if x == 0 {
		c.Res.Notes = append(c.Res.Notes, "rotationNoticedBy: every amount is an exact subset sum, scenario "+first+" runs with amount 3")
		x = 3
	}
	b.begin("rotate", -1, fmt.Sprintf("rotate m0 fee=%d", f1))
	if byRestart {
		if err := m.env.Restart(true, f1); err != nil {
			c.Disagree([]string{"C18"}, "restart-with-rotation", err.Error(), "", nil)
			return
		}
	} else {
		b.OpRotate(m, f1)
	}
	m.env.Opts.FeePpk = f1
	hw.model.rotate(hw, m, f1)
	hw.after("rot/" + first + "/rotate")
	switch strings.TrimSuffix(strings.TrimSuffix(first, "+restart"), "+fee") {
	case "send-swap":
		if withFees {
			// an ordinary send with includeFees whose amount no subset of the coins adds up to: swapToSend prices the
			// recipient's proofs
			sendN(w, x, "first-after-rotation")
			break
		}
		// a locked send always goes through swapToSend, whatever coins the wallet holds
		b.begin("send-locked", w.idx, fmt.Sprintf("sendlocked w%d m%d to=w%d %d sigall=false fees=false", w.idx, m.idx, w2.idx, x))
		t, err := b.OpSendLocked(w, m, w2, x, false, false)
		hw.lockOwner, hw.lockSigAll = w2.seed, false
		hw.model.sendLocked(hw, w, m, x, false, t, err)
		hw.after("rot/" + first + "/first-after-rotation/" + errTag(err))
	case "melt":
		b.begin("melt", w.idx, fmt.Sprintf("melt w%d m%d %d ln=paid", w.idx, m.idx, x))
		q, err := b.OpMeltQuote(w, m, x)
		if err == nil {
			st, err := b.OpMelt(w, m, q.Quote, meltScript("paid"))
			hw.model.melt(hw, w, m, x, q.Quote, "paid", st, err)
			hw.after("rot/" + first + "/first-after-rotation/" + st + "/" + errTag(err))
		} else {
			hw.model.resync(hw, "melt-quote-error")
			hw.after("rot/" + first + "/melt-quote/" + errTag(err))
		}
	case "mint":
		mintN(w, 8, "first-after-rotation")
	case "receive":
		if tok != nil {
			b.begin("receive-same", w.idx, fmt.Sprintf("receive w%d tok%d", w.idx, tok.id))
			got, err := b.OpReceive(w, tok, false, true)
			if err == nil {
				hw.receiveMonitor(tok, got)
			}
			hw.model.receive(hw, w, tok, false, true, "paid", got, err)
			b.pruneTokens()
			hw.after("rot/" + first + "/first-after-rotation/" + errTag(err))
		}
	}
	sendN(w, 3, "send-2")
	b.begin("send-locked", w.idx, fmt.Sprintf("sendlocked w%d m%d to=w%d 5 sigall=false fees=false", w.idx, m.idx, w2.idx))
	t2, err2 := b.OpSendLocked(w, m, w2, 5, false, false)
	hw.lockOwner, hw.lockSigAll = w2.seed, false
	hw.model.sendLocked(hw, w, m, 5, false, t2, err2)
	hw.after("rot/" + first + "/send-locked-3/" + errTag(err2))
	mintN(w, 8, "mint-after")
	if toZero {
		// sends with includeFees whose amount is exactly an old-keyset coin (an offline selection of that coin alone is
		// NOT exact: the mint charges 1 sat for it) and one sat less (that selection IS exact)
		active := m.env.ActiveKeysetId()
		var olds []uint64
		seen := map[uint64]bool{}
		for _, p := range w.W.VerifDB().GetProofs() {
			if p.Id != active && p.Amount >= 2 && !seen[p.Amount] && len(olds) < 3 {
				seen[p.Amount] = true
				olds = append(olds, p.Amount)
			}
		}
		c.Hist("rot-tozero", fmt.Sprintf("old-keyset-coins=%d", len(olds)))
		for _, a := range olds {
			sendN(w, a, "old-coin-amount")
			sendN(w, a-1, "old-coin-amount-minus-fee")
		}
	}
}

// longRun: > 300 outputs on one keyset, rotation, restore -> continue -> restore, with ordinary traffic in between.
func longRun(c *Ctx, k int) {
	fee := []uint{100, 0, 1000, 100}[k%4]
	hw, err := newHistWorld(c, fmt.Sprintf("long%d", k), []uint{fee}, 2)
	if err != nil {
		c.Disagree([]string{"C19"}, "setup-long", err.Error(), "", nil)
		return
	}
	hw.model = newBooksModel(hw)
	defer hw.close()
	b := hw.b
	w := b.wallets[0]
	m := b.mints[0]
	n := 0
	for int(w.W.VerifDB().GetKeysetCounter(m.env.ActiveKeysetId())) < 320 && n < 600 {
		n++
		amt := uint64(511 + c.Rng.Intn(512))
		b.begin("mint", w.idx, fmt.Sprintf("mint w%d m%d %d", w.idx, m.idx, amt))
		_, err := b.OpMint(w, m, amt)
		hw.model.mint(hw, w, m, amt, err)
		hw.after("long/mint/" + errTag(err))
		if n%3 == 0 {
			for j := 0; j < 4; j++ {
				hw.stepFor(w)
			}
		}
	}
	b.begin("rotate", -1, "rotate m0 fee=100")
	b.OpRotate(m, 100)
	m.env.Opts.FeePpk = 100
	hw.model.rotate(hw, m, 100)
	hw.after("long/rotate")
	for j := 0; j < 12; j++ {
		hw.stepFor(w)
	}
	restoreContinueRestore(hw, 0, "long")
}

// stepFor performs a random send / receive / melt for one wallet (long-running variant traffic).
func (hw *histWorld) stepFor(w *bWallet) {
	b, r := hw.b, hw.c.Rng
	if w.dead || w.W == nil {
		return
	}
	m := b.mints[w.home]
	ppk := m.env.Opts.FeePpk
	switch r.Intn(3) {
	case 0:
		bal := hw.balanceAt(w, m)
		if bal == 0 {
			return
		}
		amt := uint64(1 + r.Intn(int(min64(bal, 500))))
		fees := r.Bool()
		b.begin("send", w.idx, fmt.Sprintf("send w%d m%d %d fees=%v", w.idx, m.idx, amt, fees))
		t, err := b.OpSend(w, m, amt, fees)
		hw.model.send(hw, w, m, amt, fees, t, err)
		if err == nil {
			hw.sendMonitor(m, amt, fees, t)
		}
		hw.after(fmt.Sprintf("send/%s/fees=%v/%s", errTag(err), fees, feeClass(ppk)))
	case 1:
		if len(b.tokens) == 0 {
			return
		}
		t := b.tokens[r.Intn(len(b.tokens))]
		if t.to >= 0 || t.mint != w.home {
			return
		}
		rc := b.wallets[1]
		if r.Bool() {
			rc = w
		}
		if rc.dead || rc.W == nil {
			return
		}
		b.begin("receive-same", rc.idx, fmt.Sprintf("receive w%d tok%d", rc.idx, t.id))
		got, err := b.OpReceive(rc, t, false, true)
		if err == nil {
			hw.receiveMonitor(t, got)
		}
		hw.model.receive(hw, rc, t, false, true, "paid", got, err)
		b.pruneTokens()
		hw.after(fmt.Sprintf("receive-same/%s/%s", errTag(err), feeClass(ppk)))
	default:
		bal := hw.balanceAt(w, m)
		if bal < 3 {
			return
		}
		amt := uint64(1 + r.Intn(int(min64(bal*2/3, 300))))
		b.begin("melt", w.idx, fmt.Sprintf("melt w%d m%d %d ln=paid", w.idx, m.idx, amt))
		q, err := b.OpMeltQuote(w, m, amt)
		if err != nil {
			hw.model.resync(hw, "melt-quote-error")
			hw.after("melt-quote/" + errTag(err))
			return
		}
		st, err := b.OpMelt(w, m, q.Quote, meltScript("paid"))
		hw.model.melt(hw, w, m, amt, q.Quote, "paid", st, err)
		hw.after(fmt.Sprintf("melt/paid/%s/%s/%s", st, errTag(err), feeClass(ppk)))
	}
}
