package main

// Stream "wallet-wire" (C08): what real wallets put on the wire.
//
// Random histories over two real wallets (bbolt) and one or two real mints (SQLite, scripted Lightning) connected by the
// in-process transport of walletenv.go.  Every operation path of the property's quantifier is exercised; every request is
// recorded at the moment it is sent together with the API call in progress.
//
// MONITOR (model-free): the harness learns every blinding factor, every DLEQ transcript (e, s) and every output secret
// INDEPENDENTLY of the request bodies —
//   (a) from a storage.WalletDB proxy installed with VerifWrapDB (every proof the wallet saves: secret, dleq.e/s/r),
//   (b) by deriving the NUT-13 (secret, r) pairs itself from the wallet mnemonic (package nut13) for every keyset,
//   (c) from the values the wallet returns to its caller (Send / SendToPubkey / HTLCLockedProofs results), and
//   (d) from the mint's answers (a shadow of constructProofs: which output got a signature with a DLEQ) —
// and searches every request (URL and body; every JSON leaf, nested JSON in strings, and the raw bytes) for each of
// them in every encoding: hex lower/upper, raw bytes, base64 std/url (any alignment, also of the hex text), decimal.
// A blinding factor or a DLEQ transcript anywhere, or a known secret anywhere but at `inputs[].secret` of a swap / melt
// request, is a MonitorFail with a stable signature  C08/<what>-in-request/<site>/<path>.
//
// CORRESPONDENCE: the shape of every request body (field names in order, which leaves are present, and what each leaf IS
// according to the harness's own tables) is compared with the tagged tree the Lean model builds for the same
// construction site from the harness's description of the inputs (driver commands wallet.*), together with the model's
// verdict (`secure`, `no-transcript`) against the monitor's verdict on that very request.

import (
	"bytes"
	"encoding/base64"
	"encoding/hex"
	"encoding/json"
	"errors"
	"fmt"
	"io"
	"math/big"
	"net/http"
	"os"
	"path/filepath"
	"sort"
	"strings"
	"sync"

	"github.com/btcsuite/btcd/btcec/v2"
	"github.com/btcsuite/btcd/btcutil/hdkeychain"
	"github.com/btcsuite/btcd/chaincfg"
	"github.com/decred/dcrd/dcrec/secp256k1/v4"
	"github.com/elnosh/gonuts/cashu"
	"github.com/elnosh/gonuts/cashu/nuts/nut11"
	"github.com/elnosh/gonuts/cashu/nuts/nut13"
	"github.com/elnosh/gonuts/crypto"
	"github.com/elnosh/gonuts/wallet"
	"github.com/elnosh/gonuts/wallet/storage"
	"github.com/tyler-smith/go-bip39"
)

func init() {
	register("wallet-wire", []string{"C08"},
		"random wallet histories (2 wallets, 1-2 in-process mints, input_fee_ppk in {0,100,1000}, fee reserve 0 or 1%, optional keyset rotation) over mint, send with/without swap (includeFees on/off), tokens V3/V4 with/without DLEQ, receive (same mint, untrusted mint kept, swap to trusted), P2PK (SIG_INPUTS/SIG_ALL) and HTLC (with/without signature) lock+receive, melt incl. NUT-08 blank outputs and pending/failed payments, mint-to-mint swap, reclaim, remove-spent, restore from mnemonic; one evaluation per HTTP request; class = operation/site/DLEQ profile of the inputs as known to the harness/witness/outputs; non-trivial = request with a body",
		runWalletWire)
}

// ---------------------------------------------------------------- value tables

const (
	wwKindR = 'r'
	wwKindE = 'e'
	wwKindS = 's'
	wwKindX = 'x' // a secret (64 hex chars form)
)

type wwVal struct {
	kind byte
	sid  int
	src  uint8 // bit 0 db proxy, 1 nut13, 2 caller, 3 mint answer, 4 token (harness-built)
}

const (
	srcDB = 1 << iota
	srcNut13
	srcCaller
	srcAnswer
	srcToken
)

// wwProofInfo: what the harness knows about a proof a wallet holds / is handed.
type wwProofInfo struct {
	Secret  string
	Amount  uint64
	HasDLEQ bool
	HasR    bool
	Witness bool
}

type wwHit struct {
	Kind byte // r, e, s, x
	Sid  int
	Path string // JSON path (arrays implicit), "url", or "body-bytes"
	Enc  string
	Leaf bool // the whole leaf equals the value in its canonical (lower hex / literal) form
}

type wwReqRec struct {
	Idx      int
	Op       string // API call in progress
	Wallet   string
	Site     string
	Method   string
	Endpoint string
	URL      string
	Body     []byte
	Cmd      Sx // driver command describing the request from the harness's knowledge (nil: not modelled)
	Class    string
	Status   int
	InEsr    int // inputs the harness knows to be held WITH dleq{e,s,r} by the sending wallet / in the token
}

type wwTables struct {
	mu        sync.Mutex
	vals      map[[32]byte]wwVal
	secrets   map[string]int // secret string -> sid
	sidSec    []string
	nut10     []int          // sids of secrets that are not 64 hex chars
	bTab      map[string]int // B_ hex -> sid
	sidR      map[int]string
	conflicts []string
}

func newWWTables() *wwTables {
	return &wwTables{vals: map[[32]byte]wwVal{}, secrets: map[string]int{}, bTab: map[string]int{}, sidR: map[int]string{}}
}

func (t *wwTables) sid(secret string) int {
	if s, ok := t.secrets[secret]; ok {
		return s
	}
	s := len(t.sidSec) + 1
	t.secrets[secret] = s
	t.sidSec = append(t.sidSec, secret)
	if b, err := hex.DecodeString(secret); err == nil && len(b) == 32 {
		var k [32]byte
		copy(k[:], b)
		if _, dup := t.vals[k]; !dup {
			t.vals[k] = wwVal{kind: wwKindX, sid: s}
		}
	} else {
		t.nut10 = append(t.nut10, s)
	}
	return s
}

func (t *wwTables) addVal(kind byte, hexv string, sid int, src uint8) {
	b, err := hex.DecodeString(hexv)
	if err != nil || len(b) == 0 || len(b) > 32 {
		return
	}
	var k [32]byte
	copy(k[32-len(b):], b)
	v, ok := t.vals[k]
	if ok && v.kind != kind {
		return // first classification wins (collisions are astronomically unlikely)
	}
	v.kind, v.sid = kind, sid
	v.src |= src
	t.vals[k] = v
	if kind == wwKindR {
		// the sources must agree: the r a wallet stores / hands out for a secret is the r the harness derived for it
		norm := hex.EncodeToString(k[:])
		if old, ok := t.sidR[sid]; ok && old != norm {
			t.conflicts = append(t.conflicts, fmt.Sprintf("secret #%d has two blinding factors: %s (earlier source) and %s (source %d)", sid, old, norm, src))
		}
		t.sidR[sid] = norm
	}
}

// learnProof records everything a proof value reveals.
func (t *wwTables) learnProof(p cashu.Proof, src uint8) int {
	s := t.sid(p.Secret)
	if p.DLEQ != nil {
		t.addVal(wwKindE, p.DLEQ.E, s, src)
		t.addVal(wwKindS, p.DLEQ.S, s, src)
		if p.DLEQ.R != "" {
			t.addVal(wwKindR, p.DLEQ.R, s, src)
		}
	}
	return s
}

// ---------------------------------------------------------------- the byte-level scanner

func isHexCh(c byte) bool {
	return (c >= '0' && c <= '9') || (c >= 'a' && c <= 'f') || (c >= 'A' && c <= 'F')
}
func hexNib(c byte) byte {
	switch {
	case c >= '0' && c <= '9':
		return c - '0'
	case c >= 'a' && c <= 'f':
		return c - 'a' + 10
	default:
		return c - 'A' + 10
	}
}

type wwScanHit struct {
	v   wwVal
	enc string
	off int
	n   int // length of the matched text
}

// scanBytes reports every occurrence of a table value in b in any encoding. depth bounds the decode nesting.
func (t *wwTables) scanBytes(b []byte, depth int, encPrefix string, out *[]wwScanHit) {
	// hex (either case), every alignment
	run := 0
	for i := 0; i < len(b); i++ {
		if isHexCh(b[i]) {
			run++
		} else {
			run = 0
		}
		if run >= 64 {
			var k [32]byte
			upper, lower := false, false
			w := b[i-63 : i+1]
			for j := 0; j < 32; j++ {
				k[j] = hexNib(w[2*j])<<4 | hexNib(w[2*j+1])
			}
			if v, ok := t.vals[k]; ok {
				for _, c := range w {
					if c >= 'A' && c <= 'F' {
						upper = true
					}
					if c >= 'a' && c <= 'f' {
						lower = true
					}
				}
				enc := "hex"
				if upper && !lower {
					enc = "HEX"
				} else if upper && lower {
					enc = "hEx"
				}
				*out = append(*out, wwScanHit{v, encPrefix + enc, i - 63, 64})
			}
		}
	}
	// raw bytes
	for i := 0; i+32 <= len(b); i++ {
		var k [32]byte
		copy(k[:], b[i:i+32])
		if v, ok := t.vals[k]; ok {
			*out = append(*out, wwScanHit{v, encPrefix + "raw", i, 32})
		}
	}
	// decimal
	run = 0
	for i := 0; i <= len(b); i++ {
		if i < len(b) && b[i] >= '0' && b[i] <= '9' {
			run++
			continue
		}
		if run >= 60 && run <= 78 {
			n, ok := new(big.Int).SetString(string(b[i-run:i]), 10)
			if ok && n.BitLen() <= 256 {
				var k [32]byte
				n.FillBytes(k[:])
				if v, ok := t.vals[k]; ok {
					*out = append(*out, wwScanHit{v, encPrefix + "dec", i - run, run})
				}
			}
		}
		run = 0
	}
	// NUT-10 secrets (not 32-byte values): literal and JSON-escaped
	for _, s := range t.nut10 {
		sec := t.sidSec[s-1]
		if i := bytes.Index(b, []byte(sec)); i >= 0 {
			*out = append(*out, wwScanHit{wwVal{kind: wwKindX, sid: s}, encPrefix + "text", i, len(sec)})
		} else if esc, _ := json.Marshal(sec); len(esc) > 2 {
			if i := bytes.Index(b, esc[1:len(esc)-1]); i >= 0 {
				*out = append(*out, wwScanHit{wwVal{kind: wwKindX, sid: s}, encPrefix + "json-text", i, len(esc) - 2})
			}
		}
	}
	if depth <= 0 {
		return
	}
	// base64, both alphabets, every alignment; the decoded bytes are scanned again (raw, and hex text inside base64)
	for ai, alpha := range []string{"+/", "-_"} {
		enc := base64.RawStdEncoding
		name := "b64std"
		if ai == 1 {
			enc = base64.RawURLEncoding
			name = "b64url"
		}
		isB64 := func(c byte) bool {
			return (c >= 'A' && c <= 'Z') || (c >= 'a' && c <= 'z') || (c >= '0' && c <= '9') || c == alpha[0] || c == alpha[1]
		}
		start := -1
		for i := 0; i <= len(b); i++ {
			if i < len(b) && isB64(b[i]) {
				if start < 0 {
					start = i
				}
				continue
			}
			if start >= 0 && i-start >= 43 {
				seg := b[start:i]
				for off := 0; off < 4 && off < len(seg); off++ {
					s := seg[off:]
					if len(s)%4 == 1 {
						s = s[:len(s)-1]
					}
					dec := make([]byte, enc.DecodedLen(len(s)))
					n, err := enc.Decode(dec, s)
					if err != nil || n < 32 {
						continue
					}
					var inner []wwScanHit
					t.scanBytes(dec[:n], depth-1, encPrefix+name+"/", &inner)
					for _, h := range inner {
						h.off = start + off
						h.n = len(s)
						*out = append(*out, h)
					}
				}
			}
			start = -1
		}
	}
}

// jsonWalk visits every leaf of a JSON document with its path (arrays implicit); strings that hold JSON are entered.
func jsonWalk(v any, path string, visit func(path string, leaf any)) {
	switch x := v.(type) {
	case map[string]any:
		for _, k := range sortedKeys(x) {
			p := k
			if path != "" {
				p = path + "." + k
			}
			jsonWalk(x[k], p, visit)
		}
	case []any:
		for _, e := range x {
			jsonWalk(e, path, visit)
		}
	case string:
		visit(path, x)
		ts := strings.TrimSpace(x)
		if len(ts) > 1 && (ts[0] == '{' || ts[0] == '[') {
			var inner any
			d := json.NewDecoder(strings.NewReader(ts))
			d.UseNumber()
			if d.Decode(&inner) == nil {
				jsonWalk(inner, path+"(json)", visit)
			}
		}
	default:
		visit(path, x)
	}
}

// scanRequest: every hit in URL and body with the most specific location known.
func (t *wwTables) scanRequest(r *wwReqRec) []wwHit {
	var hits []wwHit
	seen := map[string]bool{}
	add := func(sh wwScanHit, path string, leaf bool) {
		k := fmt.Sprintf("%c/%d/%s", sh.v.kind, sh.v.sid, path)
		if seen[k] {
			return
		}
		seen[k] = true
		hits = append(hits, wwHit{Kind: sh.v.kind, Sid: sh.v.sid, Path: path, Enc: sh.enc, Leaf: leaf})
	}
	var sh []wwScanHit
	t.scanBytes([]byte(r.URL), 2, "", &sh)
	for _, h := range sh {
		add(h, "url", false)
	}
	inLeaf := map[string]bool{} // kind/sid found inside some leaf
	if len(r.Body) > 0 {
		var doc any
		d := json.NewDecoder(bytes.NewReader(r.Body))
		d.UseNumber()
		if err := d.Decode(&doc); err == nil {
			jsonWalk(doc, "", func(path string, leaf any) {
				var text string
				switch x := leaf.(type) {
				case string:
					text = x
				case json.Number:
					text = x.String()
				default:
					return
				}
				var lh []wwScanHit
				t.scanBytes([]byte(text), 2, "", &lh)
				for _, h := range lh {
					whole := h.off == 0 && h.n == len(text) && (h.enc == "hex" || h.enc == "text")
					add(h, path, whole)
					inLeaf[fmt.Sprintf("%c/%d", h.v.kind, h.v.sid)] = true
				}
			})
		}
		var bh []wwScanHit
		t.scanBytes(r.Body, 2, "", &bh)
		for _, h := range bh {
			if !inLeaf[fmt.Sprintf("%c/%d", h.v.kind, h.v.sid)] {
				add(h, "body-bytes", false)
			}
		}
	}
	return hits
}

// ---------------------------------------------------------------- shape of a real body

type ojField struct {
	k string
	v any
}
type ojObj []ojField

func parseOrdered(d *json.Decoder) (any, error) {
	tok, err := d.Token()
	if err != nil {
		return nil, err
	}
	switch x := tok.(type) {
	case json.Delim:
		if x == '{' {
			var o ojObj
			for d.More() {
				kt, err := d.Token()
				if err != nil {
					return nil, err
				}
				v, err := parseOrdered(d)
				if err != nil {
					return nil, err
				}
				o = append(o, ojField{kt.(string), v})
			}
			_, err := d.Token()
			return o, err
		}
		var a []any
		for d.More() {
			v, err := parseOrdered(d)
			if err != nil {
				return nil, err
			}
			a = append(a, v)
		}
		_, err := d.Token()
		if a == nil {
			a = []any{}
		}
		return a, err
	default:
		return tok, nil
	}
}

func (t *wwTables) shapeOf(v any, key string, path string) Sx {
	switch x := v.(type) {
	case ojObj:
		items := []Sx{A("node")}
		for _, f := range x {
			p := f.k
			if path != "" {
				p = path + "." + f.k
			}
			items = append(items, L(S(f.k), t.shapeOf(f.v, f.k, p)))
		}
		return Ls(items)
	case []any:
		items := []Sx{A("arr")}
		for _, e := range x {
			items = append(items, t.shapeOf(e, key, path))
		}
		return Ls(items)
	case nil:
		// a nil Go slice marshals to null: an empty list in the model
		if key == "inputs" || key == "outputs" || key == "Ys" {
			return L(A("arr"))
		}
		return L(A("null"))
	case json.Number:
		return L(A("num"))
	case string:
		if b, err := hex.DecodeString(x); err == nil && len(b) == 32 {
			var k [32]byte
			copy(k[:], b)
			if val, ok := t.vals[k]; ok && x == strings.ToLower(x) {
				switch val.kind {
				case wwKindR:
					return L(A("blindingFactor"), I(val.sid))
				case wwKindE:
					return L(A("dleqE"), I(val.sid))
				case wwKindS:
					return L(A("dleqS"), I(val.sid))
				case wwKindX:
					if path == "inputs.secret" {
						return L(A("inputSecret"), I(val.sid))
					}
					return L(A("outputSecret"), I(val.sid))
				}
			}
		}
		if s, ok := t.secrets[x]; ok {
			if path == "inputs.secret" {
				return L(A("inputSecret"), I(s))
			}
			return L(A("outputSecret"), I(s))
		}
		if key == "B_" || key == "C" || key == "Ys" {
			if b, err := hex.DecodeString(x); err == nil && len(b) == 33 {
				if _, err := secp256k1.ParsePubKey(b); err == nil {
					k := key
					if key == "Ys" {
						k = "Y"
					}
					return L(A("point"), A(k))
				}
			}
		}
		return L(A("pub"))
	default:
		return L(A("pub"))
	}
}

// ---------------------------------------------------------------- wallet storage proxy

type wwDB struct {
	storage.WalletDB
	h    *wwHist
	name string
}

func (d *wwDB) see(ps cashu.Proofs) {
	d.h.tab.mu.Lock()
	defer d.h.tab.mu.Unlock()
	for _, p := range ps {
		d.h.tab.learnProof(p, srcDB)
		d.h.hold(d.name, p)
		d.h.saved++
		if p.DLEQ != nil && p.DLEQ.R != "" {
			d.h.savedWithR++
		}
	}
}
func (d *wwDB) SaveProofs(ps cashu.Proofs) error { d.see(ps); return d.WalletDB.SaveProofs(ps) }
func (d *wwDB) AddPendingProofs(ps cashu.Proofs) error {
	d.see(ps)
	return d.WalletDB.AddPendingProofs(ps)
}
func (d *wwDB) AddPendingProofsByQuoteId(ps cashu.Proofs, q string) error {
	d.see(ps)
	return d.WalletDB.AddPendingProofsByQuoteId(ps, q)
}

// ---------------------------------------------------------------- one history

type wwMint struct {
	env   *MintEnv
	host  string
	url   string
	label string
}

type wwWallet struct {
	name     string
	dir      string
	w        *wallet.Wallet
	mnemonic string
	master   *hdkeychain.ExtendedKey
	def      int          // index of the default mint
	trusted  map[int]bool // mints the wallet knows
	gen      int          // restore generation
}

type wwToken struct {
	tok      cashu.Token
	mint     int
	from     int
	kind     string // plain | p2pk | htlc
	preimage string
	sigAll   bool
	needSig  bool
	desc     string
}

type wwDerive struct {
	path *hdkeychain.ExtendedKey
	next uint32
	seen uint32 // highest index whose B_ was seen on the wire + 1
}

type wwHist struct {
	id      int
	c       *Ctx // private context (own Rng / scratch); results are merged by the caller
	rng     *Rng
	net     *Net
	tab     *wwTables
	mints   []*wwMint
	wallets []*wwWallet
	tokens  []wwToken
	derive  map[string]*wwDerive // mnemonic|keyset -> state
	bIndex  map[string]wwTabIdx  // B_ -> derivation table and index
	held    map[string]map[string]*wwProofInfo
	fresh   map[string]*wwProofInfo
	meltReq map[string]string // melt quote id -> invoice
	// call in progress
	curOp      string
	curWallet  string
	curTok     map[string]*wwProofInfo
	curP2PK    bool
	curSigAll  bool
	reqs       []*wwReqRec
	oplog      []string
	hist       map[string]map[string]int
	saved      int
	savedWithR int
	notes      []string
	tokCmps    []wwCompare
	failNow    []wwFail
	stripPct   int      // answers: chance that a blind signature loses its DLEQ before the wallet sees it
	dropPct    int      // answers: chance that the response of a POST is lost after the mint executed it
	blind      []string // places where the harness's independent knowledge has a gap (the monitor would be blind there)
	fail       func(sig, what string, replay any)
}

func (h *wwHist) count(table, key string) {
	if h.hist[table] == nil {
		h.hist[table] = map[string]int{}
	}
	h.hist[table][key]++
}

func (h *wwHist) hold(wname string, p cashu.Proof) {
	if h.held[wname] == nil {
		h.held[wname] = map[string]*wwProofInfo{}
	}
	h.held[wname][p.Secret] = &wwProofInfo{Secret: p.Secret, Amount: p.Amount, HasDLEQ: p.DLEQ != nil,
		HasR: p.DLEQ != nil && p.DLEQ.R != "", Witness: p.Witness != ""}
}

// deriveTo extends the harness's own NUT-13 table of (secret, r, B_) for one wallet seed and keyset.
func (h *wwHist) deriveTo(w *wwWallet, keysetId string, upTo uint32) {
	key := w.mnemonic + "|" + keysetId
	d := h.derive[key]
	if d == nil {
		p, err := nut13.DeriveKeysetPath(w.master, keysetId)
		if err != nil {
			h.notes = append(h.notes, "derive path: "+err.Error())
			return
		}
		d = &wwDerive{path: p}
		h.derive[key] = d
	}
	for d.next < upTo {
		secret, err1 := nut13.DeriveSecret(d.path, d.next)
		r, err2 := nut13.DeriveBlindingFactor(d.path, d.next)
		if err1 != nil || err2 != nil {
			h.notes = append(h.notes, "derive failed")
			return
		}
		sid := h.tab.sid(secret)
		h.tab.addVal(wwKindR, hex.EncodeToString(r.Serialize()), sid, srcNut13)
		if B_, _, err := crypto.BlindMessage(secret, r); err == nil {
			bs := hex.EncodeToString(B_.SerializeCompressed())
			h.tab.bTab[bs] = sid
			h.bIndex[bs] = wwTabIdx{d, d.next}
		}
		d.next++
	}
}

func (h *wwHist) keysetsOf(m *wwMint) []string {
	var ids []string
	for id := range m.env.ksIdx {
		ids = append(ids, id)
	}
	sort.Strings(ids)
	return ids
}

// ensureDerived keeps every (wallet, keyset) table `margin` entries ahead of what was seen on the wire.
func (h *wwHist) ensureDerived(margin uint32) {
	h.tab.mu.Lock()
	defer h.tab.mu.Unlock()
	for _, w := range h.wallets {
		for mi := range h.mints {
			// also for mints the wallet does not (yet) trust: swapToTrusted creates outputs at the token's mint
			h.mints[mi].env.refreshKeysets()
			for _, id := range h.keysetsOf(h.mints[mi]) {
				d := h.derive[w.mnemonic+"|"+id]
				var seen uint32
				if d != nil {
					seen = d.seen
				}
				h.deriveTo(w, id, seen+margin)
			}
		}
	}
}

func wwEndpoint(method, path string) string {
	p := path
	if i := strings.IndexByte(p, '?'); i >= 0 {
		p = p[:i]
	}
	switch {
	case method == "POST" && p == "/v1/swap":
		return "swap"
	case method == "POST" && p == "/v1/melt/bolt11":
		return "melt"
	case method == "POST" && p == "/v1/mint/bolt11":
		return "mint"
	case method == "POST" && p == "/v1/mint/quote/bolt11":
		return "mintquote"
	case method == "POST" && p == "/v1/melt/quote/bolt11":
		return "meltquote"
	case method == "POST" && p == "/v1/checkstate":
		return "checkstate"
	case method == "POST" && p == "/v1/restore":
		return "restore"
	case method == "GET" && strings.HasPrefix(p, "/v1/mint/quote/bolt11/"):
		return "get-mintquote"
	case method == "GET" && strings.HasPrefix(p, "/v1/melt/quote/bolt11/"):
		return "get-meltquote"
	case method == "GET" && strings.HasPrefix(p, "/v1/keys"):
		return "get-keys"
	case method == "GET" && p == "/v1/info":
		return "get-info"
	}
	return strings.ToLower(method) + "-other"
}

// site: the request construction site in wallet.go, from the API call in progress and the endpoint
func wwSite(op, ep string) string {
	switch ep {
	case "swap":
		switch op {
		case "send", "sendP2PK", "sendHTLC", "melt", "mintswap":
			return "swapToSend"
		default:
			return "swap"
		}
	case "melt":
		if op == "melt" {
			return "melt"
		}
		return "swapProofs"
	}
	return ep
}

func dleqSx(pi *wwProofInfo, sid int) Sx {
	switch {
	case pi == nil || !pi.HasDLEQ:
		return A("none")
	case pi.HasR:
		return L(A("esr"), I(sid), I(sid), I(sid))
	default:
		return L(A("es"), I(sid), I(sid))
	}
}

// onRequest runs when a request is sent (Net.Hook): record it with its context and describe it for the model.
func (h *wwHist) onRequest(wr *WireReq) {
	h.tab.mu.Lock()
	defer h.tab.mu.Unlock()
	ep := wwEndpoint(wr.Method, wr.Path)
	rec := &wwReqRec{Idx: len(h.reqs), Op: h.curOp, Wallet: h.curWallet, Method: wr.Method, Endpoint: ep, URL: wr.Path,
		Body: append([]byte(nil), wr.Body...)}
	rec.Site = wwSite(h.curOp, ep)
	h.reqs = append(h.reqs, rec)
	if len(wr.Body) == 0 {
		rec.Class = h.curOp + "/" + rec.Site
		return
	}
	var body struct {
		Inputs  []cashu.Proof          `json:"inputs"`
		Outputs []cashu.BlindedMessage `json:"outputs"`
		Ys      []string               `json:"Ys"`
		Sig     string                 `json:"signature"`
	}
	if err := json.Unmarshal(wr.Body, &body); err != nil {
		rec.Class = h.curOp + "/" + rec.Site + "/unparsed"
		return
	}
	// outputs: which of them does the harness know the secret of (own NUT-13 derivation)?
	var outs []Sx
	outW := false
	for _, o := range body.Outputs {
		sid, known := h.tab.bTab[o.B_]
		if known {
			h.count("outputs-secret-known-at-send-time", "yes (own NUT-13 derivation)")
		} else {
			h.count("outputs-secret-known-at-send-time", "no (random r: learned from the caller's proofs)")
			if h.curOp != "sendP2PK" && h.curOp != "sendHTLC" {
				h.blind = append(h.blind, fmt.Sprintf("request %d (%s/%s): output %s is not in the harness's NUT-13 table", len(h.reqs)-1, h.curOp, ep, o.B_))
			}
		}
		if o.Witness != "" {
			outW = true
		}
		outs = append(outs, L(A("o"), N(o.Amount), I(sid), I(sid), B(o.Witness != "")))
	}
	h.markSeen(body.Outputs)
	// inputs: what the harness knows about the proofs behind them (NOT what the body says)
	var ins []Sx
	prof := map[string]bool{}
	inW := false
	for _, p := range body.Inputs {
		sid := h.tab.sid(p.Secret)
		var pi *wwProofInfo
		switch {
		case h.curTok != nil && h.curTok[p.Secret] != nil:
			pi = h.curTok[p.Secret]
		case h.held[h.curWallet] != nil && h.held[h.curWallet][p.Secret] != nil:
			pi = h.held[h.curWallet][p.Secret]
		case h.fresh[p.Secret] != nil:
			pi = h.fresh[p.Secret]
		}
		// fresh proofs of a swap inside the same call supersede the token (SIG_ALL swap to trusted)
		if rec.Site == "swapProofs" && h.curTok != nil && h.curTok[p.Secret] == nil && h.fresh[p.Secret] != nil {
			pi = h.fresh[p.Secret]
		}
		w := pi != nil && pi.Witness
		if rec.Site == "swapProofs" && h.curTok != nil && h.curTok[p.Secret] != nil && h.curP2PK {
			w = true // Receive signs the inputs before swapToTrusted
		}
		switch {
		case pi == nil:
			prof["unknown"] = true
			h.count("inputs/harness-knowledge", "unknown proof")
			h.blind = append(h.blind, fmt.Sprintf("request %d (%s/%s): input %s is a proof the harness knows nothing about", len(h.reqs)-1, h.curOp, ep, p.Secret))
		case pi.HasR:
			prof["esr"] = true
			rec.InEsr++
			h.count("inputs/harness-knowledge", "proof held WITH dleq{e,s,r}")
		case pi.HasDLEQ:
			prof["es"] = true
			h.count("inputs/harness-knowledge", "proof held with dleq{e,s}")
		default:
			prof["none"] = true
			h.count("inputs/harness-knowledge", "proof held WITHOUT dleq")
		}
		if p.DLEQ != nil {
			h.count("inputs/on-the-wire", "dleq present")
		} else {
			h.count("inputs/on-the-wire", "dleq absent")
		}
		if p.Witness != "" {
			inW = true
		}
		if pi != nil && pi.Amount != p.Amount {
			h.blind = append(h.blind, fmt.Sprintf("request %d (%s/%s): input %s travels with amount %d, the wallet holds it with amount %d", len(h.reqs)-1, h.curOp, ep, p.Secret, p.Amount, pi.Amount))
		}
		amt := p.Amount
		ins = append(ins, L(A("p"), N(amt), I(sid), B(w), dleqSx(pi, sid)))
	}
	var pk []string
	for _, k := range sortedKeys(prof) {
		pk = append(pk, k)
	}
	rec.Class = fmt.Sprintf("%s/%s/in:%s/w:%v/outs:%v/ow:%v", h.curOp, rec.Site, strings.Join(pk, "+"), inW, len(outs) > 0, outW)
	switch rec.Site {
	case "swapToSend":
		rec.Cmd = L(A("wallet.swapreq"), A("swapToSend"), Ls(ins), Ls(outs))
	case "swap":
		// strip what the model adds itself
		switch h.curOp {
		case "receive", "receiveTrusted":
			rec.Cmd = L(A("wallet.swapreq"), A("receive"), B(h.curP2PK), B(h.curSigAll), Ls(ins), Ls(wwNoOutW(body.Outputs)))
		case "receiveHTLC":
			rec.Cmd = L(A("wallet.swapreq"), A("receiveHTLC"), B(h.curSigAll), Ls(ins), Ls(wwNoOutW(body.Outputs)))
		case "reclaim":
			rec.Cmd = L(A("wallet.swapreq"), A("reclaim"), Ls(ins), Ls(outs))
		}
	case "melt":
		rec.Cmd = L(A("wallet.meltreq"), A("melt"), Ls(ins), Ls(outs))
	case "swapProofs":
		rec.Cmd = L(A("wallet.meltreq"), A("swapProofs"), Ls(ins))
	case "mint":
		rec.Cmd = L(A("wallet.mintreq"), B(true), Ls(outs))
	case "mintquote":
		rec.Cmd = L(A("wallet.mintquotereq"))
	case "meltquote":
		rec.Cmd = L(A("wallet.meltquotereq"))
	case "checkstate":
		ys := make([]Sx, len(body.Ys))
		for i := range ys {
			ys[i] = I(0)
		}
		rec.Cmd = L(A("wallet.checkstatereq"), Ls(ys))
	case "restore":
		rec.Cmd = L(A("wallet.restorereq"), Ls(outs))
	}
	if rec.Cmd == nil {
		// a request with a body at a place the model has no builder for: the theorems would not speak about it
		h.blind = append(h.blind, fmt.Sprintf("request %d: %s %s during %s (site %s) is not a request construction site of the model", len(h.reqs)-1, wr.Method, wr.Path, h.curOp, rec.Site))
	}
}

// wwNoOutW: the model adds the output witnesses itself (SIG_ALL); describe the outputs without them
func wwNoOutW(real []cashu.BlindedMessage) []Sx {
	res := make([]Sx, len(real))
	for i, o := range real {
		res[i] = L(A("o"), N(o.Amount), I(0), I(0), B(false))
	}
	return res
}

// markSeen advances, per derivation table, the mark of the highest index whose B_ was seen on the wire
func (h *wwHist) markSeen(outs []cashu.BlindedMessage) {
	for _, o := range outs {
		if ti, ok := h.bIndex[o.B_]; ok && ti.idx+1 > ti.d.seen {
			ti.d.seen = ti.idx + 1
		}
	}
}

type wwTabIdx struct {
	d   *wwDerive
	idx uint32
}

// onResponse runs when the mint answered (Net.After): shadow constructProofs, settlement of cross-mint invoices.
func (h *wwHist) onResponse(wr *WireReq, delivered bool) {
	h.tab.mu.Lock()
	defer h.tab.mu.Unlock()
	if len(h.reqs) > 0 {
		h.reqs[len(h.reqs)-1].Status = wr.Status
	}
	ep := wwEndpoint(wr.Method, wr.Path)
	if wr.Status != 200 {
		return
	}
	var req struct {
		Outputs []cashu.BlindedMessage `json:"outputs"`
		Request string                 `json:"request"`
		Quote   string                 `json:"quote"`
	}
	json.Unmarshal(wr.Body, &req)
	var resp struct {
		Signatures []cashu.BlindedSignature `json:"signatures"`
		Change     []cashu.BlindedSignature `json:"change"`
		Quote      string                   `json:"quote"`
		State      string                   `json:"state"`
		Paid       bool                     `json:"paid"`
	}
	json.Unmarshal(wr.Resp, &resp)
	sigs := resp.Signatures
	if ep == "melt" {
		sigs = resp.Change
	}
	if delivered && (ep == "swap" || ep == "mint" || ep == "melt") {
		for i, sg := range sigs {
			if i >= len(req.Outputs) {
				break
			}
			sid, ok := h.tab.bTab[req.Outputs[i].B_]
			if !ok {
				continue
			}
			secret := h.tab.sidSec[sid-1]
			pi := &wwProofInfo{Secret: secret, Amount: sg.Amount, HasDLEQ: sg.DLEQ != nil, HasR: sg.DLEQ != nil}
			h.fresh[secret] = pi
			if sg.DLEQ != nil {
				h.tab.addVal(wwKindE, sg.DLEQ.E, sid, srcAnswer)
				h.tab.addVal(wwKindS, sg.DLEQ.S, sid, srcAnswer)
			}
		}
	}
	if ep == "meltquote" && resp.Quote != "" {
		h.meltReq[resp.Quote] = req.Request
	}
	if ep == "melt" && resp.State == "PAID" {
		// the payer's node paid: an invoice of another mint of this history is now settled
		inv := h.meltReq[req.Quote]
		for _, m := range h.mints {
			m.env.LN.mu.Lock()
			if li := m.env.LN.byReq[inv]; li != nil {
				li.settled = true
			}
			m.env.LN.mu.Unlock()
		}
	}
}

// ---------------------------------------------------------------- setup

func (h *wwHist) newMint(label string, opts MintOpts) error {
	host := fmt.Sprintf("mint-%s-%d", strings.ToLower(label), h.id)
	env, err := NewMintEnv(h.c, host, opts)
	if err != nil {
		return err
	}
	env.LN.DefaultAnswer = "succ"
	url := h.net.AddMint(host, env)
	h.mints = append(h.mints, &wwMint{env: env, host: host, url: url, label: label})
	return nil
}

func (h *wwHist) loadWallet(ww *wwWallet) error {
	h.curOp, h.curWallet = "load", ww.name
	defer func() { h.curOp, h.curWallet = "", "" }()
	w, err := wallet.LoadWallet(wallet.Config{WalletPath: ww.dir, CurrentMintURL: h.mints[ww.def].url})
	if err != nil {
		return err
	}
	ww.w = w
	ww.mnemonic = w.Mnemonic()
	master, err := hdkeychain.NewMaster(bip39.NewSeed(ww.mnemonic, ""), &chaincfg.MainNetParams)
	if err != nil {
		return err
	}
	ww.master = master
	name := ww.name
	w.VerifWrapDB(func(db storage.WalletDB) storage.WalletDB { return &wwDB{WalletDB: db, h: h, name: name} })
	return nil
}

func (h *wwHist) newWallet(name string, def int) error {
	mnemonic, err := bip39.NewMnemonic(h.rng.Bytes(16))
	if err != nil {
		return err
	}
	dir := filepath.Join(h.c.Scratch, fmt.Sprintf("h%d-%s-0", h.id, name))
	// Restore with no mint creates the wallet file around a chosen mnemonic without contacting anybody
	if _, err := wallet.Restore(dir, mnemonic, nil); err != nil {
		return err
	}
	ww := &wwWallet{name: name, dir: dir, def: def, trusted: map[int]bool{def: true}}
	if err := h.loadWallet(ww); err != nil {
		return err
	}
	if ww.mnemonic != mnemonic {
		h.notes = append(h.notes, "wallet did not keep the chosen mnemonic")
	}
	h.wallets = append(h.wallets, ww)
	return nil
}

func (h *wwHist) call(op string, w *wwWallet, fn func() error) (err error) {
	h.ensureDerived(48)
	h.curOp, h.curWallet = op, w.name
	func() {
		defer func() {
			if r := recover(); r != nil {
				err = fmt.Errorf("panic: %v", r)
				h.count("panics", op)
				h.notes = append(h.notes, fmt.Sprintf("panic in %s: %v", op, r))
			}
		}()
		err = fn()
	}()
	h.curOp, h.curWallet = "", ""
	out := "ok"
	es := ""
	if err != nil {
		out = "err"
		es = err.Error()
		if len(es) > 90 {
			es = es[:90]
		}
	}
	h.count("ops", op+":"+out)
	h.oplog = append(h.oplog, fmt.Sprintf("%s %s -> %s %s", w.name, op, out, es))
	return err
}

func (h *wwHist) settle(m *wwMint, request string) {
	m.env.LN.mu.Lock()
	if li := m.env.LN.byReq[request]; li != nil {
		li.settled = true
	}
	m.env.LN.mu.Unlock()
}

func (h *wwHist) learnCaller(ps cashu.Proofs) {
	h.tab.mu.Lock()
	defer h.tab.mu.Unlock()
	for _, p := range ps {
		h.tab.learnProof(p, srcCaller)
		if p.DLEQ != nil && p.DLEQ.R != "" {
			h.count("values-returned-to-the-caller", "proof WITH dleq.r")
		} else {
			h.count("values-returned-to-the-caller", "proof without dleq.r")
		}
	}
}

// ---------------------------------------------------------------- operations

func (h *wwHist) opMint(w *wwWallet, mi int, amount uint64) bool {
	m := h.mints[mi]
	var quote string
	if h.call("requestMint", w, func() error {
		q, err := w.w.RequestMint(amount, m.url)
		if err == nil {
			quote = q.Quote
			h.settle(m, q.Request)
		}
		return err
	}) != nil {
		return false
	}
	return h.call("mint", w, func() error { _, err := w.w.MintTokens(quote); return err }) == nil
}

func (h *wwHist) balance(w *wwWallet, mi int) uint64 {
	return w.w.GetBalanceByMints()[h.mints[mi].url]
}

func (h *wwHist) pickAmount(bal uint64, max int) uint64 {
	if bal == 0 {
		return 0
	}
	n := uint64(max)
	if bal < n {
		n = bal
	}
	return 1 + uint64(h.rng.Intn(int(n)))
}

// makeToken serialises proofs as a sender would and decodes them as a recipient would.
func (h *wwHist) makeToken(proofs cashu.Proofs, mi int, from int, kind string) (wwToken, bool) {
	v4 := h.rng.Bool()
	incl := h.rng.Bool()
	return h.makeTokenAs(proofs, mi, from, kind, v4, incl)
}

func (h *wwHist) makeTokenAs(proofs cashu.Proofs, mi int, from int, kind string, v4, incl bool) (wwToken, bool) {
	cp := make(cashu.Proofs, len(proofs))
	copy(cp, proofs)
	var tok cashu.Token
	var err error
	if v4 {
		var t cashu.TokenV4
		t, err = cashu.NewTokenV4(cp, h.mints[mi].url, cashu.Sat, incl)
		tok = t
	} else {
		var t cashu.TokenV3
		t, err = cashu.NewTokenV3(cp, h.mints[mi].url, cashu.Sat, incl)
		tok = t
	}
	desc := map[bool]string{true: "v4", false: "v3"}[v4] + map[bool]string{true: "+dleq", false: "-dleq"}[incl]
	if err != nil {
		h.count("tokens", desc+" (construction error)")
		return wwToken{}, false
	}
	s, err := tok.Serialize()
	if err != nil {
		h.count("tokens", desc+" (serialize error)")
		return wwToken{}, false
	}
	dec, err := cashu.DecodeToken(s)
	if err != nil {
		h.count("tokens", desc+" (decode error)")
		return wwToken{}, false
	}
	withR := 0
	for _, p := range dec.Proofs() {
		if p.DLEQ != nil && p.DLEQ.R != "" {
			withR++
		}
	}
	h.count("tokens", fmt.Sprintf("%s %s: proofs carry dleq.r = %v", kind, desc, withR > 0))
	h.checkToken(proofs, s, v4, incl, kind, desc)
	return wwToken{tok: dec, mint: mi, from: from, kind: kind, desc: desc}, true
}

// checkToken: the token text is a value for the wallet's CALLER.  It carries blinding factors exactly when the caller
// asked for DLEQs (that is their purpose); built with includeDLEQ = false it must carry none, in any encoding.
func (h *wwHist) checkToken(proofs cashu.Proofs, text string, v4, incl bool, kind, desc string) {
	h.tab.mu.Lock()
	defer h.tab.mu.Unlock()
	var hits []wwScanHit
	h.tab.scanBytes([]byte(text), 3, "", &hits)
	foundR, foundES := false, false
	for _, ht := range hits {
		switch ht.v.kind {
		case wwKindR:
			foundR = true
		case wwKindE, wwKindS:
			foundES = true
		}
	}
	hadR := false
	var ps []Sx
	for _, p := range proofs {
		sid := h.tab.sid(p.Secret)
		pi := &wwProofInfo{HasDLEQ: p.DLEQ != nil, HasR: p.DLEQ != nil && p.DLEQ.R != ""}
		if pi.HasR {
			hadR = true
		}
		ps = append(ps, L(A("p"), N(p.Amount), I(sid), B(p.Witness != ""), dleqSx(pi, sid)))
	}
	want := incl && hadR
	h.count("token-text", fmt.Sprintf("%s: proofs had r=%v, blinding factor in the token text=%v, e/s in the text=%v", desc, hadR, foundR, foundES))
	replay := map[string]any{"history": h.id, "token": text, "includeDLEQ": incl, "version": desc, "ops": append([]string(nil), h.oplog...)}
	if foundR && !incl {
		h.failNow = append(h.failNow, wwFail{Sig: "C08/r-in-token-built-without-dleq/" + map[bool]string{true: "v4", false: "v3"}[v4],
			What: "a token built with includeDLEQ=false carries a blinding factor", Replay: replay})
	}
	if want && !foundR {
		h.blind = append(h.blind, "token built with includeDLEQ=true from proofs with r: the scanner does not find r in the token text ("+desc+")")
	}
	ver := "v3"
	if v4 {
		ver = "v4"
	}
	cmd := L(A("wallet.token"), A(ver), B(incl), Ls(ps))
	if v4 {
		h.tokCmps = append(h.tokCmps, wwCompare{Cmd: cmd, Impl: "(token " + fmt.Sprint(foundR), Prefix: true, Replay: replay})
		return
	}
	raw, err := base64.URLEncoding.DecodeString(strings.TrimPrefix(text, "cashuA"))
	if err != nil {
		return
	}
	d := json.NewDecoder(bytes.NewReader(raw))
	d.UseNumber()
	doc, err := parseOrdered(d)
	if err != nil {
		return
	}
	h.tokCmps = append(h.tokCmps, wwCompare{Cmd: cmd, Impl: Render(L(A("token"), B(foundR), h.tab.shapeOf(doc, "", ""))), Replay: replay})
}

func (h *wwHist) opSend(wi, mi int, amount uint64, includeFees bool) bool {
	w := h.wallets[wi]
	var proofs cashu.Proofs
	op := "send"
	if h.call(op, w, func() error {
		var err error
		proofs, err = w.w.Send(amount, h.mints[mi].url, includeFees)
		return err
	}) != nil {
		return false
	}
	h.learnCaller(proofs)
	if t, ok := h.makeToken(proofs, mi, wi, "plain"); ok {
		h.tokens = append(h.tokens, t)
	}
	return true
}

func (h *wwHist) opSendP2PK(wi, mi, to int, amount uint64, sigAll, includeFees bool) bool {
	w := h.wallets[wi]
	var tags *nut11.P2PKTags
	if sigAll {
		tags = &nut11.P2PKTags{Sigflag: nut11.SIGALL}
	}
	var proofs cashu.Proofs
	if h.call("sendP2PK", w, func() error {
		var err error
		proofs, err = w.w.SendToPubkey(amount, h.mints[mi].url, h.wallets[to].w.GetReceivePubkey(), tags, includeFees)
		return err
	}) != nil {
		return false
	}
	h.learnCaller(proofs)
	if t, ok := h.makeToken(proofs, mi, wi, "p2pk"); ok {
		t.sigAll = sigAll
		h.tokens = append(h.tokens, t)
	}
	return true
}

func (h *wwHist) opSendHTLC(wi, mi, to int, amount uint64, variant int, includeFees bool) bool {
	w := h.wallets[wi]
	preimage := hex.EncodeToString(h.rng.Bytes(32))
	var tags *nut11.P2PKTags
	sigAll := false
	switch variant {
	case 1:
		tags = &nut11.P2PKTags{NSigs: 1, Pubkeys: []*btcec.PublicKey{h.wallets[to].w.GetReceivePubkey()}}
	case 2:
		tags = &nut11.P2PKTags{Sigflag: nut11.SIGALL, NSigs: 1, Pubkeys: []*btcec.PublicKey{h.wallets[to].w.GetReceivePubkey()}}
		sigAll = true
	}
	var proofs cashu.Proofs
	if h.call("sendHTLC", w, func() error {
		var err error
		proofs, err = w.w.HTLCLockedProofs(amount, h.mints[mi].url, preimage, tags, includeFees)
		return err
	}) != nil {
		return false
	}
	h.learnCaller(proofs)
	if t, ok := h.makeToken(proofs, mi, wi, "htlc"); ok {
		t.preimage = preimage
		t.sigAll = sigAll
		t.needSig = variant > 0
		h.tokens = append(h.tokens, t)
	}
	return true
}

func (h *wwHist) opReceive(wi, ti int, swapToTrusted bool) bool {
	w := h.wallets[wi]
	tk := h.tokens[ti]
	info := map[string]*wwProofInfo{}
	h.tab.mu.Lock()
	for _, p := range tk.tok.Proofs() {
		h.tab.learnProof(p, srcToken)
		info[p.Secret] = &wwProofInfo{Secret: p.Secret, Amount: p.Amount, HasDLEQ: p.DLEQ != nil,
			HasR: p.DLEQ != nil && p.DLEQ.R != "", Witness: p.Witness != ""}
	}
	h.tab.mu.Unlock()
	op := "receive"
	trustedPath := swapToTrusted && !(w.trusted[tk.mint] && tk.mint == w.def)
	if trustedPath {
		op = "receiveTrusted"
	}
	if tk.kind == "htlc" {
		op = "receiveHTLC"
	}
	h.curTok, h.curP2PK, h.curSigAll = info, tk.kind == "p2pk", tk.sigAll
	err := h.call(op, w, func() error {
		var err error
		if tk.kind == "htlc" {
			_, err = w.w.ReceiveHTLC(tk.tok, tk.preimage)
		} else {
			_, err = w.w.Receive(tk.tok, swapToTrusted)
		}
		return err
	})
	h.curTok, h.curP2PK, h.curSigAll = nil, false, false
	h.count("receive", fmt.Sprintf("%s of %s token %s: %v", op, tk.kind, tk.desc, err == nil))
	if err == nil {
		if !trustedPath {
			w.trusted[tk.mint] = true
		}
		h.tokens = append(h.tokens[:ti], h.tokens[ti+1:]...)
		return true
	}
	return false
}

func (h *wwHist) opMelt(wi, mi int, amount uint64, answer string) bool {
	w := h.wallets[wi]
	m := h.mints[mi]
	m.env.LN.mu.Lock()
	li, err := m.env.LN.makeInvoice(amount*1000, true)
	m.env.LN.mu.Unlock()
	if err != nil {
		return false
	}
	var quote string
	if h.call("meltQuote", w, func() error {
		q, err := w.w.RequestMeltQuote(li.request, m.url)
		if err == nil {
			quote = q.Quote
		}
		return err
	}) != nil {
		return false
	}
	m.env.LN.mu.Lock()
	m.env.LN.script = []string{answer}
	m.env.LN.mu.Unlock()
	err = h.call("melt", w, func() error { _, err := w.w.Melt(quote); return err })
	m.env.LN.mu.Lock()
	m.env.LN.script = nil
	m.env.LN.mu.Unlock()
	h.count("melt", fmt.Sprintf("lightning answer %s, fee reserve %v: %v", answer, m.env.Opts.FeePct, err == nil))
	if answer == "pending" && h.rng.Chance(40) {
		// the caller retries while the payment is still in flight: Melt checks the quote state first
		m.env.LN.mu.Lock()
		m.env.LN.script = []string{"pending"}
		m.env.LN.mu.Unlock()
		h.call("melt", w, func() error { _, err := w.w.Melt(quote); return err })
	}
	if answer == "pending" {
		// later: the payment resolves; the wallet asks for the quote state
		m.env.LN.mu.Lock()
		m.env.LN.script = []string{map[bool]string{true: "succ", false: "failed"}[h.rng.Bool()]}
		m.env.LN.mu.Unlock()
		h.call("checkMelt", w, func() error { _, err := w.w.CheckMeltQuoteState(quote); return err })
		m.env.LN.mu.Lock()
		m.env.LN.script = nil
		m.env.LN.mu.Unlock()
	}
	return err == nil
}

func (h *wwHist) opTrust(wi, mi int) bool {
	w := h.wallets[wi]
	if w.trusted[mi] {
		return true
	}
	if h.call("addMint", w, func() error { _, err := w.w.AddMint(h.mints[mi].url); return err }) != nil {
		return false
	}
	w.trusted[mi] = true
	return true
}

func (h *wwHist) opMintSwap(wi, from, to int, amount uint64) bool {
	w := h.wallets[wi]
	if !h.opTrust(wi, from) || !h.opTrust(wi, to) {
		return false
	}
	return h.call("mintswap", w, func() error {
		_, err := w.w.MintSwap(amount, h.mints[from].url, h.mints[to].url)
		return err
	}) == nil
}

func (h *wwHist) opReclaim(wi int) bool {
	w := h.wallets[wi]
	return h.call("reclaim", w, func() error { _, err := w.w.ReclaimUnspentProofs(); return err }) == nil
}

func (h *wwHist) opRemoveSpent(wi int) bool {
	w := h.wallets[wi]
	return h.call("removeSpent", w, func() error { return w.w.RemoveSpentProofs() }) == nil
}

// opRestore: the device is lost; the wallet is restored from its mnemonic into a fresh directory and used from there.
func (h *wwHist) opRestore(wi int) bool {
	w := h.wallets[wi]
	var urls []string
	for mi := range h.mints {
		if w.trusted[mi] {
			urls = append(urls, h.mints[mi].url)
		}
	}
	mnemonic := w.w.Mnemonic()
	w.w.Shutdown()
	h.ensureDerived(430)
	w.gen++
	w.dir = filepath.Join(h.c.Scratch, fmt.Sprintf("h%d-%s-%d", h.id, w.name, w.gen))
	err := h.call("restore", w, func() error { _, err := wallet.Restore(w.dir, mnemonic, urls); return err })
	if err != nil {
		// fall back to a fresh wallet file with the same seed
		os.RemoveAll(w.dir)
		wallet.Restore(w.dir, mnemonic, nil)
	}
	h.held[w.name] = map[string]*wwProofInfo{}
	if lerr := h.loadWallet(w); lerr != nil {
		h.notes = append(h.notes, "reload after restore: "+lerr.Error())
		return false
	}
	// the restored store (proofs rebuilt by Restore carry no DLEQ)
	h.tab.mu.Lock()
	for _, p := range w.w.VerifDB().GetProofs() {
		h.tab.learnProof(p, srcDB)
		h.hold(w.name, p)
		h.count("restored-proofs", fmt.Sprintf("dleq=%v", p.DLEQ != nil))
	}
	h.tab.mu.Unlock()
	// mints beyond the default have to be added again by LoadWallet's caller: Restore saved their keysets
	return err == nil
}

// opReopen: the wallet is closed and loaded again: its proofs now come from the bbolt file (which keeps the DLEQs)
func (h *wwHist) opReopen(wi int) bool {
	w := h.wallets[wi]
	w.w.Shutdown()
	if err := h.loadWallet(w); err != nil {
		h.notes = append(h.notes, "reopen: "+err.Error())
		return false
	}
	n, withR := 0, 0
	for _, p := range w.w.VerifDB().GetProofs() {
		n++
		if p.DLEQ != nil && p.DLEQ.R != "" {
			withR++
		}
	}
	h.count("ops", "reopen:ok")
	h.count("reopened-wallet-store", fmt.Sprintf("proofs read back from bbolt with dleq.r: %v", withR > 0 || n == 0))
	h.oplog = append(h.oplog, fmt.Sprintf("%s reopen -> ok (%d proofs, %d with dleq.r)", w.name, n, withR))
	return true
}

func (h *wwHist) opRotate(mi int) bool {
	m := h.mints[mi]
	fees := []uint{0, 100, 1000}
	fee := fees[h.rng.Intn(3)]
	if err := m.env.Restart(true, fee); err != nil {
		h.notes = append(h.notes, "rotate: "+err.Error())
		return false
	}
	m.env.LN.DefaultAnswer = "succ"
	h.count("ops", "rotateKeyset:ok")
	h.oplog = append(h.oplog, fmt.Sprintf("mint %s rotates keyset, fee %d", m.label, fee))
	return true
}

// ---------------------------------------------------------------- scripted regression histories (finding F5)

func (h *wwHist) script(name string) {
	w1 := h.wallets[0]
	switch name {
	case "F5-swapToSend":
		// a proof stored by MintTokens (with DLEQ{e,s,r}) is an input of the swap that a locked send always needs
		// (a plain Send swaps only when the offline selection does not add up)
		h.opMint(w1, 0, 64)
		h.opSendP2PK(0, 0, 1, 5, false, false)
	case "F5-swap":
		// a token that includes DLEQs is redeemed: Receive → createSwapRequest → swap()
		h.opMint(w1, 0, 64)
		var proofs cashu.Proofs
		h.call("send", w1, func() error { var err error; proofs, err = w1.w.Send(64, h.mints[0].url, false); return err })
		h.learnCaller(proofs)
		if t, ok := h.makeTokenAs(proofs, 0, 0, "plain", true, true); ok {
			h.tokens = append(h.tokens, t)
			h.opReceive(1, 0, false)
		}
	case "F5-melt":
		// stored proofs are inputs of the melt request (exact selection)
		h.opMint(w1, 0, 64)
		h.opMelt(0, 0, 64, "succ")
	case "F5-swapProofs":
		// mint-to-mint swap: stored proofs are inputs of the melt at `from`
		h.opMint(w1, 0, 64)
		h.opMintSwap(0, 0, 1, 32)
	case "F5-reclaim-is-safe":
		// pending proofs carry DLEQs too, but ReclaimUnspentProofs rebuilds its inputs without them
		h.opMint(w1, 0, 64)
		var proofs cashu.Proofs
		h.call("send", w1, func() error { var err error; proofs, err = w1.w.Send(64, h.mints[0].url, false); return err })
		h.learnCaller(proofs)
		h.opReclaim(0)
	}
}

// ---------------------------------------------------------------- random history

func (h *wwHist) random(nops int) {
	w1 := h.wallets[0]
	nm := len(h.mints)
	h.opMint(w1, 0, uint64(32+h.rng.Intn(200)))
	if nm > 1 && h.rng.Chance(50) {
		h.opMint(h.wallets[1], h.wallets[1].def, uint64(32+h.rng.Intn(200)))
	}
	for k := 0; k < nops; k++ {
		wi := h.rng.Intn(2)
		w := h.wallets[wi]
		other := 1 - wi
		// a mint the wallet knows and has funds at
		var funded []int
		for mi := range h.mints {
			if w.trusted[mi] && h.balance(w, mi) > 0 {
				funded = append(funded, mi)
			}
		}
		choice := h.rng.Intn(100)
		switch {
		case len(funded) == 0 || choice < 10:
			mi := w.def
			if nm > 1 && h.rng.Chance(30) {
				mi = h.rng.Intn(nm)
				if !h.opTrust(wi, mi) {
					continue
				}
			}
			h.opMint(w, mi, uint64(8+h.rng.Intn(250)))
		case choice < 28:
			mi := funded[h.rng.Intn(len(funded))]
			h.opSend(wi, mi, h.pickAmount(h.balance(w, mi), 70), h.rng.Bool())
		case choice < 36:
			mi := funded[h.rng.Intn(len(funded))]
			h.opSendP2PK(wi, mi, other, h.pickAmount(h.balance(w, mi), 50), h.rng.Chance(40), h.rng.Bool())
		case choice < 44:
			mi := funded[h.rng.Intn(len(funded))]
			h.opSendHTLC(wi, mi, other, h.pickAmount(h.balance(w, mi), 50), h.rng.Intn(3), h.rng.Bool())
		case choice < 64:
			// redeem an outstanding token (by the wallet it was meant for, or reclaimed by anybody for plain tokens)
			if len(h.tokens) == 0 {
				continue
			}
			ti := h.rng.Intn(len(h.tokens))
			tk := h.tokens[ti]
			rw := 1 - tk.from
			if tk.kind == "plain" && h.rng.Chance(15) {
				rw = tk.from
			}
			h.opReceive(rw, ti, h.rng.Chance(45))
		case choice < 76:
			mi := funded[h.rng.Intn(len(funded))]
			ans := "succ"
			if c := h.rng.Intn(10); c == 0 {
				ans = "pending"
			} else if c == 1 {
				ans = "failed"
			}
			h.opMelt(wi, mi, h.pickAmount(h.balance(w, mi), 90), ans)
		case choice < 84:
			if nm < 2 {
				h.opReclaim(wi)
				continue
			}
			from := funded[h.rng.Intn(len(funded))]
			to := (from + 1) % nm
			h.opMintSwap(wi, from, to, h.pickAmount(h.balance(w, from), 60))
		case choice < 89:
			h.opReclaim(wi)
		case choice < 93:
			h.opRemoveSpent(wi)
		case choice < 96:
			h.opRestore(wi)
		case choice < 98:
			h.opReopen(wi)
		default:
			h.opRotate(h.rng.Intn(nm))
		}
	}
	// leftovers: redeem or reclaim what is still outstanding so that those paths see proofs of every kind
	for len(h.tokens) > 0 && h.rng.Chance(70) {
		tk := h.tokens[0]
		if !h.opReceive(1-tk.from, 0, h.rng.Chance(30)) {
			h.tokens = h.tokens[1:]
		}
	}
	h.opReclaim(h.rng.Intn(2))
	h.opRemoveSpent(h.rng.Intn(2))
}

// ---------------------------------------------------------------- evaluation of one history

type wwFail struct {
	Sig    string
	What   string
	Replay any
}

type wwCompare struct {
	Cmd    Sx
	Impl   string
	Prefix bool // compare only the beginning of the model's answer (V4 tokens: verdict only, the body is CBOR)
	Replay any
}

type wwResult struct {
	id       int
	name     string
	classes  []string
	trivial  []bool
	fails    []wwFail
	compares []wwCompare
	hist     map[string]map[string]int
	notes    []string
	blind    []string
	sample   any
	err      string
}

func (h *wwHist) evaluate(res *wwResult) {
	t := h.tab
	t.mu.Lock()
	defer t.mu.Unlock()
	for _, rec := range h.reqs {
		res.classes = append(res.classes, rec.Class)
		res.trivial = append(res.trivial, len(rec.Body) == 0)
		h.count("requests/endpoint", rec.Method+" "+rec.Endpoint)
		h.count("requests/path", rec.Op+" → "+rec.Site)
		hits := t.scanRequest(rec)
		secure, noTranscript := true, true
		for _, ht := range hits {
			what, sigKind := "", ""
			switch ht.Kind {
			case wwKindR:
				sigKind, what = "r-in-request", "blinding factor r"
				secure = false
			case wwKindE, wwKindS:
				sigKind, what = "dleq-transcript-in-request", "the mint's DLEQ "+string(ht.Kind)
				noTranscript = false
			case wwKindX:
				if (rec.Endpoint == "swap" || rec.Endpoint == "melt") && ht.Path == "inputs.secret" && ht.Leaf {
					h.count("secrets-in-requests", "at inputs.secret (spent by this request)")
					continue
				}
				sigKind, what = "secret-in-request", "secret of a proof that is not an input of this request"
				secure = false
			}
			h.count("monitor-hits", sigKind+"/"+rec.Site+"/"+ht.Path+" ("+ht.Enc+")")
			val := ""
			if ht.Kind == wwKindR {
				val = t.sidR[ht.Sid]
			}
			v := wwVal{}
			if ht.Kind != wwKindX {
				for k, vv := range t.vals {
					if vv.kind == ht.Kind && vv.sid == ht.Sid {
						v = vv
						if val == "" {
							val = hex.EncodeToString(k[:])
						}
					}
				}
			}
			var src []string
			for i, n := range []string{"wallet-db-proxy", "own-nut13-derivation", "returned-to-caller", "mint-answer", "token"} {
				if v.src&(1<<i) != 0 {
					src = append(src, n)
				}
			}
			res.fails = append(res.fails, wwFail{
				Sig: "C08/" + sigKind + "/" + rec.Site + "/" + ht.Path,
				What: fmt.Sprintf("%s sent to the mint: %s %s (API call %s, construction site %s) carries it at %s [%s]; the harness knows the value from: %s",
					what, rec.Method, rec.URL, rec.Op, rec.Site, ht.Path, ht.Enc, strings.Join(src, ", ")),
				Replay: map[string]any{"history": h.id, "scenario": res.name, "ops": append([]string(nil), h.oplog...), "request_index": rec.Idx,
					"api_call": rec.Op, "wallet": rec.Wallet, "site": rec.Site, "method": rec.Method, "url": rec.URL, "body": string(rec.Body),
					"value_kind": string(ht.Kind), "value_hex": val, "path": ht.Path, "encoding": ht.Enc, "known_from": src},
			})
		}
		if rec.Cmd != nil && len(rec.Body) > 0 {
			d := json.NewDecoder(bytes.NewReader(rec.Body))
			d.UseNumber()
			doc, err := parseOrdered(d)
			impl := "(unparsed)"
			if err == nil {
				ep := rec.Endpoint
				impl = Render(L(A("req"), A(ep), B(secure), B(noTranscript), t.shapeOf(doc, "", "")))
			}
			res.compares = append(res.compares, wwCompare{Cmd: rec.Cmd, Impl: impl,
				Replay: map[string]any{"history": h.id, "scenario": res.name, "request_index": rec.Idx, "api_call": rec.Op, "site": rec.Site,
					"body": string(rec.Body), "ops": append([]string(nil), h.oplog...)}})
		}
	}
	// regression scenarios of F5 must keep their teeth: the site is reached with inputs that carry dleq{e,s,r} in the wallet
	if strings.HasPrefix(res.name, "F5-") {
		site := strings.TrimPrefix(res.name, "F5-")
		if site == "reclaim-is-safe" {
			site = "swap"
		}
		n, withR := 0, 0
		for _, rec := range h.reqs {
			if rec.Site == site && len(rec.Body) > 0 {
				n++
				withR += rec.InEsr
			}
		}
		hitsHere := 0
		for _, f := range res.fails {
			if strings.Contains(f.Sig, "/"+site+"/") {
				hitsHere++
			}
		}
		h.count("regression-F5", fmt.Sprintf("%s: %d request(s) at site %s with %d input(s) held WITH dleq{e,s,r}; monitor hits: %d", res.name, n, site, withR, hitsHere))
		if n == 0 || withR == 0 {
			h.blind = append(h.blind, fmt.Sprintf("regression scenario %s no longer reaches site %s with DLEQ-carrying inputs (requests %d, such inputs %d)", res.name, site, n, withR))
		}
	}
	// how the harness knows its blinding factors
	for _, v := range t.vals {
		if v.kind != wwKindR {
			continue
		}
		var src []string
		for i, n := range []string{"db", "nut13", "caller", "answer", "token"} {
			if v.src&(1<<i) != 0 {
				src = append(src, n)
			}
		}
		if v.src&(srcDB|srcCaller|srcToken) != 0 {
			h.count("blinding-factors-in-play/known-from", strings.Join(src, "+"))
		}
	}
	h.count("proofs-saved-by-wallets", fmt.Sprintf("with dleq.r: %d", 0)) // replaced below
	delete(h.hist["proofs-saved-by-wallets"], fmt.Sprintf("with dleq.r: %d", 0))
	h.hist["proofs-saved-by-wallets"]["with dleq.r"] += h.savedWithR
	h.hist["proofs-saved-by-wallets"]["without dleq.r"] += h.saved - h.savedWithR
	h.blind = append(h.blind, t.conflicts...)
	res.fails = append(res.fails, h.failNow...)
	res.compares = append(res.compares, h.tokCmps...)
	res.hist = h.hist
	res.notes = h.notes
	res.blind = h.blind
}

func runWWHistory(c *Ctx, net *Net, reg *wwRegistry, id int, seed uint64, name string, tier string) *wwResult {
	res := &wwResult{id: id, name: name}
	rng := NewRng(seed)
	hc := &Ctx{Rng: rng.Fork(), Seed: seed, Tier: tier, Scratch: filepath.Join(c.Scratch, fmt.Sprintf("hist-%d", id))}
	os.MkdirAll(hc.Scratch, 0700)
	defer os.RemoveAll(hc.Scratch)
	h := &wwHist{id: id, c: hc, rng: rng, net: net, tab: newWWTables(), derive: map[string]*wwDerive{}, bIndex: map[string]wwTabIdx{},
		held: map[string]map[string]*wwProofInfo{}, fresh: map[string]*wwProofInfo{}, meltReq: map[string]string{},
		hist: map[string]map[string]int{}}
	defer func() {
		if r := recover(); r != nil {
			res.err = fmt.Sprintf("history %d (%s) panicked: %v", id, name, r)
		}
	}()
	fees := []uint{0, 100, 1000}
	nm := 1 + rng.Intn(2)
	feeA, feeB := fees[rng.Intn(3)], fees[rng.Intn(3)]
	pctA, pctB := rng.Bool(), rng.Bool()
	scripted := strings.HasPrefix(name, "F5-")
	if scripted {
		feeA, feeB, pctA, pctB = 0, 0, false, false
		nm = 1
		if name == "F5-swapProofs" {
			nm = 2
		}
	}
	if err := h.newMint("A", MintOpts{FeePpk: feeA, FeePct: pctA}); err != nil {
		res.err = "mint A: " + err.Error()
		return res
	}
	if nm > 1 {
		if err := h.newMint("B", MintOpts{FeePpk: feeB, FeePct: pctB}); err != nil {
			res.err = "mint B: " + err.Error()
			return res
		}
	}
	for _, m := range h.mints {
		reg.add(m.host, h)
	}
	defer func() {
		for _, w := range h.wallets {
			if w.w != nil {
				w.w.Shutdown()
			}
		}
		for _, m := range h.mints {
			reg.remove(m.host)
			m.env.Close()
		}
	}()
	if err := h.newWallet("w1", 0); err != nil {
		res.err = "wallet 1: " + err.Error()
		return res
	}
	def2 := 0
	if nm > 1 && !scripted {
		def2 = 1
	}
	if err := h.newWallet("w2", def2); err != nil {
		res.err = "wallet 2: " + err.Error()
		return res
	}
	if !scripted {
		switch rng.Intn(4) {
		case 0:
			h.stripPct = 50 // mixed stores: some proofs with DLEQ, some without
		case 1:
			h.stripPct = 100 // a mint that never sends DLEQs
		}
		if rng.Chance(20) {
			h.dropPct = 4
		}
	}
	h.count("setup/answers", fmt.Sprintf("dleq stripped from %d%% of blind signatures, %d%% of POST responses lost", h.stripPct, h.dropPct))
	h.count("setup", fmt.Sprintf("mints=%d", nm))
	h.count("setup/input_fee_ppk", fmt.Sprint(feeA))
	h.count("setup/fee-reserve", map[bool]string{true: "1%", false: "0"}[pctA])
	if scripted {
		h.script(name)
	} else {
		nops := 12 + rng.Intn(8)
		if tier == "thorough" {
			nops = 16 + rng.Intn(16)
		}
		h.random(nops)
	}
	h.evaluate(res)
	res.sample = map[string]any{"history": id, "scenario": name, "mints": nm, "fee_ppk": []uint{feeA, feeB}, "requests": len(h.reqs),
		"ops": h.oplog}
	return res
}

// ---------------------------------------------------------------- registry: which history a host belongs to

type wwRegistry struct {
	mu sync.Mutex
	m  map[string]*wwHist
}

func (r *wwRegistry) add(host string, h *wwHist) { r.mu.Lock(); r.m[host] = h; r.mu.Unlock() }
func (r *wwRegistry) remove(host string)         { r.mu.Lock(); delete(r.m, host); r.mu.Unlock() }
func (r *wwRegistry) get(host string) *wwHist {
	r.mu.Lock()
	defer r.mu.Unlock()
	return r.m[host]
}

// ---------------------------------------------------------------- transport: "every mint answer"

// wwTransport sits between the wallets and the in-process network.  Per history it may strip the DLEQ from some blind
// signatures of an answer (NUT-12 makes them optional: the wallet then holds proofs WITHOUT DLEQ next to proofs with)
// and may lose the response of a POST after the mint executed it (the wallet sees a network error).  What the wallet
// actually received is what the harness's shadow of constructProofs is fed with.
type wwTransport struct {
	net *Net
	reg *wwRegistry
}

func wwStripDLEQ(body []byte, chance func() bool) ([]byte, int) {
	var doc map[string]any
	if json.Unmarshal(body, &doc) != nil {
		return body, 0
	}
	n := 0
	for _, k := range []string{"signatures", "change"} {
		arr, ok := doc[k].([]any)
		if !ok {
			continue
		}
		for _, e := range arr {
			if m, ok := e.(map[string]any); ok && m["dleq"] != nil && chance() {
				delete(m, "dleq")
				n++
			}
		}
	}
	if n == 0 {
		return body, 0
	}
	out, err := json.Marshal(doc)
	if err != nil {
		return body, 0
	}
	return out, n
}

func (t *wwTransport) RoundTrip(req *http.Request) (*http.Response, error) {
	var reqBody []byte
	if req.Body != nil {
		reqBody, _ = io.ReadAll(req.Body)
		req.Body.Close()
		req.Body = io.NopCloser(bytes.NewReader(reqBody))
	}
	res, err := t.net.RoundTrip(req)
	if err != nil {
		return res, err
	}
	h := t.reg.get(req.URL.Host)
	if h == nil {
		return res, nil
	}
	body, _ := io.ReadAll(res.Body)
	res.Body.Close()
	ep := wwEndpoint(req.Method, req.URL.RequestURI())
	if res.StatusCode == 200 && h.stripPct > 0 && (ep == "swap" || ep == "mint" || ep == "melt") {
		var n int
		body, n = wwStripDLEQ(body, func() bool { return h.rng.Chance(h.stripPct) })
		if n > 0 {
			h.count("answers-tampered", fmt.Sprintf("DLEQ stripped from blind signatures of a %s answer", ep))
		}
	}
	if req.Method == "POST" && h.dropPct > 0 && h.curOp != "load" && h.rng.Chance(h.dropPct) {
		h.count("answers-tampered", fmt.Sprintf("response of %s lost after the mint executed it", ep))
		// the mint did answer: settlement bookkeeping still applies, the wallet learns nothing
		h.onResponse(&WireReq{Mint: req.URL.Host, Method: req.Method, Path: req.URL.RequestURI(), Body: reqBody, Status: res.StatusCode, Resp: body}, false)
		return nil, errors.New("verif net: response lost")
	}
	h.onResponse(&WireReq{Mint: req.URL.Host, Method: req.Method, Path: req.URL.RequestURI(), Body: reqBody, Status: res.StatusCode, Resp: body}, true)
	res.Body = io.NopCloser(bytes.NewReader(body))
	res.ContentLength = int64(len(body))
	return res, nil
}

// ---------------------------------------------------------------- scanner self-test

// wwSelfTest: the scanner must find a planted value in every encoding it claims to cover (a monitor that is silent
// after the fix is only evidence if it is known to see).
func wwSelfTest(c *Ctx) {
	t := newWWTables()
	r := c.Rng.Bytes(32)
	r[0] |= 0x80
	rh := hex.EncodeToString(r)
	sid := t.sid(hex.EncodeToString(c.Rng.Bytes(32)))
	t.addVal(wwKindR, rh, sid, srcDB)
	n10 := `["P2PK",{"nonce":"ab","data":"02cd","tags":[["sigflag","SIG_ALL"]]}]`
	t.sid(n10)
	esc, _ := json.Marshal(n10)
	cases := map[string]string{
		"hex":          `{"inputs":[{"dleq":{"r":"` + rh + `"}}]}`,
		"HEX":          `{"inputs":[{"dleq":{"r":"` + strings.ToUpper(rh) + `"}}]}`,
		"hex-embedded": `{"memo":"zz` + rh + `zz"}`,
		"raw":          `{"x":"` + string(r) + `"}`,
		"b64std":       `{"x":"` + base64.StdEncoding.EncodeToString(r) + `"}`,
		"b64url":       `{"x":"` + base64.URLEncoding.EncodeToString(r) + `"}`,
		"b64raw-shift": `{"x":"` + base64.RawStdEncoding.EncodeToString(append([]byte{1}, r...)) + `"}`,
		"b64-of-hex":   `{"x":"` + base64.StdEncoding.EncodeToString([]byte(rh)) + `"}`,
		"b64-of-json":  `{"token":"cashuA` + base64.URLEncoding.EncodeToString([]byte(`{"proofs":[{"dleq":{"r":"`+rh+`"}}]}`)) + `"}`,
		"dec":          `{"x":` + new(big.Int).SetBytes(r).String() + `}`,
		"nested-json":  `{"witness":"{\"signatures\":[\"` + rh + `\"]}"}`,
		"nut10-secret": `{"outputs":[{"secret":` + string(esc) + `}]}`,
		"url":          "",
	}
	for _, name := range sortedKeys(cases) {
		rec := &wwReqRec{Method: "POST", Endpoint: "swap", Site: "swap", URL: "/v1/swap", Body: []byte(cases[name])}
		if name == "url" {
			rec.URL = "/v1/mint/quote/bolt11/" + rh
		}
		if name == "raw" {
			// raw bytes are not valid JSON text in general: the body-bytes pass must still see them
		}
		hits := t.scanRequest(rec)
		ok := false
		for _, h := range hits {
			if (name == "nut10-secret" && h.Kind == wwKindX) || (name != "nut10-secret" && h.Kind == wwKindR) {
				ok = true
			}
		}
		c.Case("scanner-selftest/"+name, true)
		c.Hist("scanner-selftest", fmt.Sprintf("%s: found=%v", name, ok))
		if !ok {
			c.Disagree([]string{"C08"}, "scanner-selftest/"+name, "not found", "found", map[string]any{"body": cases[name]})
		}
	}
	// and it must stay silent on a clean request
	clean := &wwReqRec{Method: "POST", Endpoint: "swap", Site: "swap", URL: "/v1/swap",
		Body: []byte(`{"inputs":[{"amount":1,"id":"00ab","secret":"` + hex.EncodeToString(c.Rng.Bytes(32)) + `","C":"02` + hex.EncodeToString(c.Rng.Bytes(32)) + `"}],"outputs":[]}`)}
	if hits := t.scanRequest(clean); len(hits) != 0 {
		c.Disagree([]string{"C08"}, "scanner-selftest/clean", fmt.Sprint(hits), "no hit", nil)
	}
	c.Case("scanner-selftest/clean", true)
}

// ---------------------------------------------------------------- the stream

func runWalletWire(c *Ctx) {
	wwSelfTest(c)
	net := NewNet()
	reg := &wwRegistry{m: map[string]*wwHist{}}
	net.Hook = func(wr *WireReq) error {
		if h := reg.get(wr.Mint); h != nil {
			h.onRequest(wr)
		}
		return nil
	}
	net.Install()
	http.DefaultTransport = &wwTransport{net: net, reg: reg}

	type job struct {
		id   int
		seed uint64
		name string
	}
	var jobs []job
	for _, s := range []string{"F5-swapToSend", "F5-swap", "F5-melt", "F5-swapProofs", "F5-reclaim-is-safe"} {
		jobs = append(jobs, job{len(jobs), c.Rng.U64(), s})
	}
	n := 110
	if c.Thorough {
		n = 900
	}
	for i := 0; i < n; i++ {
		jobs = append(jobs, job{len(jobs), c.Rng.U64(), "random"})
	}
	results := make([]*wwResult, len(jobs))
	workers := 12
	var wg sync.WaitGroup
	ch := make(chan job)
	for k := 0; k < workers; k++ {
		wg.Add(1)
		go func() {
			defer wg.Done()
			for j := range ch {
				results[j.id] = runWWHistory(c, net, reg, j.id, j.seed, j.name, c.Tier)
			}
		}()
	}
	for _, j := range jobs {
		ch <- j
	}
	close(ch)
	wg.Wait()

	// merge in history order (deterministic), then ask the model about every modelled request in one batch
	var cmds []Sx
	var cmps []wwCompare
	total := 0
	for _, r := range results {
		if r == nil {
			continue
		}
		if r.err != "" {
			c.Disagree([]string{"C08"}, "history", r.err, "", map[string]any{"history": r.id, "scenario": r.name})
			continue
		}
		for i, cl := range r.classes {
			c.Case(cl, !r.trivial[i])
			total++
		}
		for t, hh := range r.hist {
			for k, v := range hh {
				c.Hist(t, k)
				c.Res.Hist[t][k] += v - 1
			}
		}
		for _, f := range r.fails {
			c.MonitorFail("C08", f.Sig, f.What, f.Replay)
		}
		for _, bl := range r.blind {
			// a gap in the harness's independent knowledge is a defect of the harness: report it, never hide it
			c.Disagree([]string{"C08"}, "harness-knowledge", bl, "every input proof and every deterministic output is known to the harness",
				map[string]any{"history": r.id, "scenario": r.name, "ops": r.sample})
		}
		for _, nn := range r.notes {
			if len(c.Res.Notes) < 20 {
				c.Res.Notes = append(c.Res.Notes, fmt.Sprintf("history %d: %s", r.id, nn))
			}
		}
		if strings.HasPrefix(r.name, "F5-") || len(c.Res.Samples) < 7 {
			c.Sample(r.sample)
		}
		for _, cp := range r.compares {
			cmds = append(cmds, cp.Cmd)
			cmps = append(cmps, cp)
		}
	}
	answers := c.Drv.Batch(cmds)
	for i, a := range answers {
		if a == cmps[i].Impl || (cmps[i].Prefix && strings.HasPrefix(a, cmps[i].Impl+" ")) {
			if cmps[i].Prefix {
				c.Hist("shape-comparison", "model verdict == real token (V4, CBOR)")
			} else {
				c.Hist("shape-comparison", "model tree == real body")
			}
			continue
		}
		c.Hist("shape-comparison", "DIFFERENT")
		c.Disagree([]string{"C08"}, Render(cmps[i].Cmd), cmps[i].Impl, a, cmps[i].Replay)
	}
	// every request the transport logged was seen by the monitor
	if len(net.Log) != total {
		c.Disagree([]string{"C08"}, "coverage", fmt.Sprintf("monitor saw %d requests", total), fmt.Sprintf("transport logged %d", len(net.Log)), nil)
	}
	c.Hist("coverage", fmt.Sprintf("requests inspected = requests logged by the transport: %v", len(net.Log) == total))
}
