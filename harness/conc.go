package main

import (
	"bytes"
	"fmt"
	"runtime"
	"strconv"
	"time"
)

// Interleaved / interrupted execution of real mint operations.
//
// A scheduled thread is a goroutine running one Seq operation (OpSwap, OpMeltLn, OpMint, …) whose storage and
// Lightning calls stop at the Gate; the scheduler lets exactly one goroutine run at a time and lets it perform
// exactly one call per step.  The Lean model executes the same schedule (`mint.spawn`, `mint.step`, `mint.crash`:
// Model/MintConc.lean) and every step's label, every thread's outcome and — through the sequential ops that
// follow — the resulting tables are compared.

type CThread struct {
	id     int
	gt     *gthread
	name   string
	line   Sx
	out    Sx
	next   string // label of the call it is parked at ("" when finished)
	done   bool
	dead   bool // parked forever by a crash
	panicv any
	did    []string
	wrote  bool // bg watcher: performed UpdateMintQuoteState
	spawned bool // announced to the model
}

type Conc struct {
	s       *Seq
	threads []*CThread
	cur     *CThread
	nextId  int
	Steps   int
}

func (s *Seq) BeginConc(script []string) *Conc {
	cc := &Conc{s: s, nextId: 1}
	s.conc = cc
	s.env.Gate.mu.Lock()
	s.env.Gate.enabled = true
	s.env.Gate.catchAll = true
	s.env.Gate.mu.Unlock()
	s.env.LN.mu.Lock()
	s.env.LN.script = append([]string(nil), script...)
	s.env.LN.mu.Unlock()
	s.env.DB.ResetTrace()
	if s.model {
		sc := make([]Sx, len(script))
		for i, a := range script {
			sc[i] = A(a)
		}
		line := L(A("mint.cscript"), Ls(sc))
		s.log = append(s.log, Render(line))
		s.c.Drv.Ask(line)
	}
	return cc
}

// End leaves scheduled mode (all threads must be finished or dead).
func (cc *Conc) End() {
	s := cc.s
	s.env.Gate.mu.Lock()
	s.env.Gate.enabled = false
	s.env.Gate.catchAll = false
	s.env.Gate.mu.Unlock()
	s.env.LN.mu.Lock()
	s.env.LN.script = nil
	s.env.LN.mu.Unlock()
	s.conc = nil
	if s.model {
		s.log = append(s.log, "(mint.reap)")
		s.c.Drv.Ask(L(A("mint.reap")))
	}
}

func (cc *Conc) nextSx(t *CThread) Sx {
	if t.done {
		return L(A("done"), t.out)
	}
	return L(A("next"), A(t.next))
}

func (cc *Conc) announce(t *CThread) {
	s := cc.s
	if t.spawned {
		return
	}
	t.spawned = true
	line := L(A("mint.spawn"), I(t.id), t.line)
	s.log = append(s.log, Render(line))
	if s.model {
		impl := Render(L(A("spawned"), cc.nextSx(t)))
		model := s.c.Drv.Ask(line)
		if model != impl {
			s.c.Disagree(s.props, Render(line), impl, model, s.replay())
		}
	}
}

// Spawn starts fn (one Seq operation) as a scheduled thread and runs it up to its first storage / Lightning call.
func (cc *Conc) Spawn(fn func()) *CThread {
	t := &CThread{id: cc.nextId}
	cc.nextId++
	t.gt = &gthread{id: t.id, name: fmt.Sprintf("t%d", t.id), arrive: make(chan string), release: make(chan gateCmd)}
	cc.threads = append(cc.threads, t)
	cc.cur = t
	go func() {
		defer func() {
			if r := recover(); r != nil {
				t.panicv = r
				cc.s.env.Gate.unregister()
			}
			t.gt.arrive <- "done"
		}()
		fn()
	}()
	cc.await(t)
	if t.line != nil {
		cc.announce(t)
	}
	return t
}

func (cc *Conc) await(t *CThread) {
	if t.gt.bg {
		cc.awaitBg(t)
		return
	}
	lab := <-t.gt.arrive
	if lab == "done" {
		t.done, t.next = true, ""
		if t.out == nil {
			t.out = L(A("panic"))
		}
		return
	}
	t.next = lab
}

func goroutineAlive(gid int64) bool {
	buf := make([]byte, 1<<16)
	for {
		n := runtime.Stack(buf, true)
		if n < len(buf) {
			buf = buf[:n]
			break
		}
		buf = make([]byte, 2*len(buf))
	}
	needle := []byte("goroutine " + strconv.FormatInt(gid, 10) + " [")
	return bytes.Contains(buf, needle)
}

func (cc *Conc) awaitBg(t *CThread) {
	tick := time.NewTicker(100 * time.Microsecond)
	defer tick.Stop()
	for {
		select {
		case lab := <-t.gt.arrive:
			t.next = lab
			return
		case <-tick.C:
			if !goroutineAlive(t.gt.gid) {
				t.done, t.next = true, ""
				w := "no-write"
				if t.wrote {
					w = "wrote"
				}
				t.out = L(A("ok"), A(w))
				cc.s.env.Gate.mu.Lock()
				delete(cc.s.env.Gate.threads, t.gt.gid)
				cc.s.env.Gate.mu.Unlock()
				return
			}
		}
	}
}

// SpawnNotify delivers the backend's "invoice settled" notification; the mint's watcher goroutine becomes a thread.
func (cc *Conc) SpawnNotify(q *HMintQ) *CThread {
	s := cc.s
	line := L(A("mint.notify"), I(q.Sym))
	n := s.env.LN.Notify(q.Hash)
	if n == 0 {
		l2 := L(A("mint.spawn"), I(cc.nextId), line)
		s.log = append(s.log, Render(l2))
		if s.model {
			model := s.c.Drv.Ask(l2)
			if model != "(no-thread)" {
				s.c.Disagree(s.props, Render(l2), "(no-thread)", model, s.replay())
			}
		}
		return nil
	}
	var gt *gthread
	select {
	case gt = <-s.env.Gate.adopt:
	case <-time.After(3 * time.Second):
		s.c.Disagree(s.props, Render(line), "(watcher-did-not-wake)", "", s.replay())
		return nil
	}
	t := &CThread{id: cc.nextId, gt: gt, name: "notify", line: line}
	cc.nextId++
	gt.id = t.id
	cc.threads = append(cc.threads, t)
	lab := <-gt.arrive
	t.next = lab
	cc.announce(t)
	return t
}

// Step lets thread t perform the call it is parked at (or fail it with an injected storage error).
func (cc *Conc) Step(t *CThread, fault bool) {
	s := cc.s
	if t.done || t.dead {
		return
	}
	cc.Steps++
	cc.cur = t
	lab := t.next
	t.did = append(t.did, lab)
	if t.gt.bg && lab == "db.UpdateMintQuoteState" && !fault {
		t.wrote = true
	}
	t.gt.release <- gateCmd{fault: fault}
	cc.await(t)
	line := L(A("mint.step"), I(t.id), B(fault))
	s.log = append(s.log, Render(line))
	s.c.Hist("sched-step", lab)
	if s.model {
		impl := Render(L(A("did"), A(lab), cc.nextSx(t)))
		model := s.c.Drv.Ask(line)
		if model != impl {
			s.c.Disagree(s.props, Render(line), impl, model, s.replay())
		}
	}
}

func (cc *Conc) Live() []*CThread {
	var out []*CThread
	for _, t := range cc.threads {
		if !t.done && !t.dead {
			out = append(out, t)
		}
	}
	return out
}

// RunToEnd steps t until it finishes.
func (cc *Conc) RunToEnd(t *CThread) {
	for !t.done && !t.dead {
		cc.Step(t, false)
	}
}

// CrashAll kills the process: every thread parked where it is stays parked forever; the mint is reloaded from the
// same data directory.  Returns false when the mint does not come up again.
func (cc *Conc) CrashAll() bool {
	s := cc.s
	for _, t := range cc.threads {
		if !t.done && !t.dead {
			t.dead = true
			t.gt.release <- gateCmd{park: true}
		}
	}
	s.env.Gate.mu.Lock()
	s.env.Gate.threads = map[int64]*gthread{}
	s.env.Gate.enabled = false
	s.env.Gate.mu.Unlock()
	s.log = append(s.log, "(mint.crash)")
	impl := "(ok)"
	func() {
		defer func() {
			if r := recover(); r != nil {
				impl = "(load-panic)"
			}
		}()
		if err := s.env.Crash(); err != nil {
			impl = "(load-error)"
		}
	}()
	if s.model {
		model := s.c.Drv.Ask(L(A("mint.crash")))
		if model != impl {
			s.c.Disagree(s.props, "(mint.crash)", impl, model, s.replay())
		}
	}
	return impl == "(ok)"
}
