package main

// Stream "mint-sched": two (thorough: up to three) real mint requests run as scheduled threads over one real mint;
// the scheduler interleaves them at the granularity of single storage / Lightning calls.  Quick: the two sequential
// orders plus random interleavings per scenario; thorough: EVERY interleaving of each two-thread scenario
// (depth-first enumeration of the schedule tree) plus random three-thread schedules.  The Lean model executes the
// same schedule step by step (labels, outcomes and — through the sequential ops that follow — tables compared).
//
// Monitors (model-free): value is extracted from one secret at most once (C01); a mint quote is issued at most as
// often as it was paid (C03); plus every sequential monitor of seq.go once the schedule is over (ledger, quote
// states, SPENT/PENDING truth).

import (
	"github.com/elnosh/gonuts/cashu"
	"fmt"
	"sort"
	"strings"
)

var schedProps = []string{"C01", "C03", "C02", "C05", "C07"}

func init() {
	register("mint-sched", schedProps,
		"scenarios = pairs (thorough: also triples) of requests competing for one secret or one quote (swap||swap, swap||melt, melt||melt on two quotes, melt||melt on one quote, mint||mint, mint||watcher notification, internal melt||mint, melt||poll, melt||checkstate) x Lightning answers; a case = one complete schedule (interleaving at single storage/Lightning-call granularity); quick: both sequential orders + random schedules, thorough: every schedule of each two-thread scenario; class = (scenario, outcome pair)",
		runMintSched)
}

// schedModelOff: after a model/implementation disagreement the scheduled and crash streams continue model-free
var schedModelOff bool

type schedEnv struct {
	c    *Ctx
	env  *MintEnv
	s    *Seq
	g    *gen
	runs int
	idx  int
}

func newSchedEnv(c *Ctx, idx int, props []string) *schedEnv {
	opts := MintOpts{FeePpk: 0, FeePct: false, MPP: false}
	env, err := NewMintEnv(c, fmt.Sprintf("sched-%d", idx), opts)
	if err != nil {
		c.Disagree(props, "setup", err.Error(), "", nil)
		return nil
	}
	s := NewSeq(c, env, !schedModelOff, props)
	init := L(A("mint.init"), N(0), B(false), B(false), N(0), N(0), N(0))
	s.log = append(s.log, Render(init))
	if !schedModelOff {
		if m := c.Drv.Ask(init); m != "(ok)" {
			c.Disagree(props, Render(init), "(ok)", m, nil)
			return nil
		}
	}
	return &schedEnv{c: c, env: env, s: s, g: &gen{c: c, s: s, env: env, r: c.Rng}, idx: idx}
}

// fund issues fresh proofs worth `total` (one mint quote, settled, minted) and returns them.
func (e *schedEnv) fund(total uint64) []*HProof {
	q := e.s.OpMintQuote(total, "sat", 0, false)
	if q == nil {
		return nil
	}
	e.s.Settle(q)
	n0 := len(e.s.proofs)
	e.s.OpMint(q, e.g.outputs(total, e.env.ActiveKeysetId()), 0)
	return e.s.proofs[n0:]
}

func (e *schedEnv) reqs(hps []*HProof) []ReqProof {
	var out []ReqProof
	for _, hp := range hps {
		out = append(out, e.g.genuine(hp))
	}
	return out
}

func (e *schedEnv) meltQuote(sat uint64) *HMeltQ {
	li, err := e.env.LN.makeInvoice(sat*1000, true)
	if err != nil {
		return nil
	}
	e.s.regExt(li)
	return e.s.OpMeltQuote(li, "sat", 0, 0)
}

// thr: one request to run as a thread, with the proofs it presents
type thr struct {
	fn func()
	in []*HProof
}

type built struct {
	threads  []thr
	watch    []*HProof // secrets the threads compete for
	notify   *HMintQ   // deliver the invoice notification of this quote as one more thread
	mintq    *HMintQ   // the mint quote the threads compete for (follow-up: one more mint request)
	restore  []ReqOut  // follow-up: restore these outputs (what is stored = what the winners were given, nothing of a loser)
}

// a scenario builds its threads on a prepared environment
type scenario struct {
	name    string
	scripts [][]string // Lightning answer queues to try
	build   func(e *schedEnv) built
}

func schedScenarios() []scenario {
	pollSc := [][]string{{"succ", "succ"}, {"pending", "succ"}, {"pending", "failed"}, {"failed", "succ"}, {"succ", "failed"}, {"notfound", "succ"}, {"err", "notfound", "succ"}}
	paySc := [][]string{{"succ", "succ"}, {"pending", "pending"}, {"failed", "failed"}, {"succ", "failed"}, {"err", "succ", "err", "failed"}}
	return []scenario{
		{"swap||swap", [][]string{nil}, func(e *schedEnv) built {
			p := e.fund(8)
			o1, o2 := e.g.outputs(8, e.env.ActiveKeysetId()), e.g.outputs(8, e.env.ActiveKeysetId())
			return built{threads: []thr{{func() { e.s.OpSwap(e.reqs(p), o1) }, p}, {func() { e.s.OpSwap(e.reqs(p), o2) }, p}}, watch: p, notify: nil}
		}},
		// two swaps of DIFFERENT inputs whose output lists share one blinded message, in second position of the later one:
		// the storage layer must store a request's signatures all or none (the second insert of the loser fails on the key)
		{"swap||swap-shared-output", [][]string{nil}, func(e *schedEnv) built {
			p1, p2 := e.fund(12), e.fund(12)
			o1, o2 := e.g.outputs(12, e.env.ActiveKeysetId()), e.g.outputs(12, e.env.ActiveKeysetId())
			if len(o1) == 2 && len(o2) == 2 && o1[1].BM.Amount == o2[1].BM.Amount {
				o2[1] = o1[1]
				o2[1].O = nil
			}
			return built{threads: []thr{{func() { e.s.OpSwap(e.reqs(p1), o1) }, p1}, {func() { e.s.OpSwap(e.reqs(p2), o2) }, p2}},
				watch: append(append([]*HProof{}, p1...), p2...), notify: nil, restore: append(append([]ReqOut{}, o1...), o2...)}
		}},
		// the same blinded message B_ in two overlapping swaps under DIFFERENT amounts (two devices sharing a seed, or a
		// client that re-uses B_): the two signatures are made with different keys; whichever is stored must be stored
		// whole - C_, amount, keyset AND the DLEQ proof (e, s) of the same signature (seeded change C10-7: an upsert that
		// left the earlier signature's e, s in the row). Follow-up: restore, DLEQ of what comes back verified.
		{"swap||swap-shared-B_-other-amount", [][]string{nil}, func(e *schedEnv) built {
			p1, p2 := e.fund(12), e.fund(10)
			o1, o2 := e.g.outputs(12, e.env.ActiveKeysetId()), e.g.outputs(10, e.env.ActiveKeysetId())
			if len(o1) == 2 && len(o2) == 2 && o1[0].BM.Amount == 4 && o2[0].BM.Amount == 2 {
				o2[0].BM.B_ = o1[0].BM.B_
				o2[0].O = nil
			}
			return built{threads: []thr{{func() { e.s.OpSwap(e.reqs(p1), o1) }, p1}, {func() { e.s.OpSwap(e.reqs(p2), o2) }, p2}},
				watch: append(append([]*HProof{}, p1...), p2...), notify: nil, restore: append(append([]ReqOut{}, o1...), o2...)}
		}},
		{"swap||melt", paySc, func(e *schedEnv) built {
			p := e.fund(8)
			q := e.meltQuote(8)
			o1 := e.g.outputs(8, e.env.ActiveKeysetId())
			return built{threads: []thr{{func() { e.s.OpSwap(e.reqs(p), o1) }, p}, {func() { e.s.OpMeltLn(q, e.reqs(p), nil, false) }, p}}, watch: p, notify: nil}
		}},
		{"melt||melt", paySc, func(e *schedEnv) built {
			p := e.fund(8)
			q1, q2 := e.meltQuote(8), e.meltQuote(8)
			return built{threads: []thr{{func() { e.s.OpMeltLn(q1, e.reqs(p), nil, false) }, p}, {func() { e.s.OpMeltLn(q2, e.reqs(p), nil, false) }, p}}, watch: p, notify: nil}
		}},
		{"melt||melt-one-quote", paySc, func(e *schedEnv) built {
			p1, p2 := e.fund(8), e.fund(8)
			q := e.meltQuote(8)
			return built{threads: []thr{{func() { e.s.OpMeltLn(q, e.reqs(p1), nil, false) }, p1}, {func() { e.s.OpMeltLn(q, e.reqs(p2), nil, false) }, p2}}, watch: append(append([]*HProof{}, p1...), p2...), notify: nil}
		}},
		{"mint||mint", [][]string{nil}, func(e *schedEnv) built {
			q := e.s.OpMintQuote(8, "sat", 0, false)
			e.s.Settle(q)
			o1, o2 := e.g.outputs(8, e.env.ActiveKeysetId()), e.g.outputs(8, e.env.ActiveKeysetId())
			return built{threads: []thr{{func() { e.s.OpMint(q, o1, 0) }, nil}, {func() { e.s.OpMint(q, o2, 0) }, nil}}, mintq: q}
		}},
		{"mint||mint-invalid", [][]string{nil}, func(e *schedEnv) built {
			q := e.s.OpMintQuote(8, "sat", 0, false)
			e.s.Settle(q)
			o1, o2 := e.g.outputs(8, e.env.ActiveKeysetId()), e.g.outputs(16, e.env.ActiveKeysetId())
			return built{threads: []thr{{func() { e.s.OpMint(q, o1, 0) }, nil}, {func() { e.s.OpMint(q, o2, 0) }, nil}}, mintq: q}
		}},
		{"mint||notify", [][]string{nil}, func(e *schedEnv) built {
			q := e.s.OpMintQuote(8, "sat", 0, false)
			e.s.Settle(q)
			o1 := e.g.outputs(8, e.env.ActiveKeysetId())
			return built{threads: []thr{{func() { e.s.OpMint(q, o1, 0) }, nil}}, notify: q, mintq: q}
		}},
		{"internal-melt||mint", [][]string{nil}, func(e *schedEnv) built {
			p := e.fund(8)
			q := e.s.OpMintQuote(8, "sat", 0, false)
			mq := e.s.OpMeltQuote(e.env.LN.byHash[q.Hash], "sat", 0, 0)
			o1 := e.g.outputs(8, e.env.ActiveKeysetId())
			return built{threads: []thr{{func() { e.s.OpMeltLn(mq, e.reqs(p), nil, false) }, p}, {func() { e.s.OpMint(q, o1, 0) }, nil}}, watch: p, mintq: q}
		}},
		{"melt||meltstate", pollSc, func(e *schedEnv) built {
			p := e.fund(8)
			q := e.meltQuote(8)
			return built{threads: []thr{{func() { e.s.OpMeltLn(q, e.reqs(p), nil, false) }, p}, {func() { e.s.OpMeltState(q, nil) }, nil}}, watch: p}
		}},
		{"melt||checkstate", pollSc, func(e *schedEnv) built {
			p := e.fund(8)
			q := e.meltQuote(8)
			ys := []YQuery{{Y: YOf(p[0].P.Secret), Sec: p[0].P.Secret}}
			return built{threads: []thr{{func() { e.s.OpMeltLn(q, e.reqs(p), nil, false) }, p}, {func() { e.s.OpCheckState(ys, nil) }, nil}}, watch: p}
		}},
		{"melt||meltstate||swap", pollSc, func(e *schedEnv) built {
			p := e.fund(8)
			q := e.meltQuote(8)
			o1 := e.g.outputs(8, e.env.ActiveKeysetId())
			return built{threads: []thr{{func() { e.s.OpMeltLn(q, e.reqs(p), nil, false) }, p}, {func() { e.s.OpMeltState(q, nil) }, nil},
				{func() { e.s.OpSwap(e.reqs(p), o1) }, p}}, watch: p}
		}},
		{"swap||swap||melt", [][]string{{"succ"}, {"pending"}}, func(e *schedEnv) built {
			p := e.fund(8)
			q := e.meltQuote(8)
			o1, o2 := e.g.outputs(8, e.env.ActiveKeysetId()), e.g.outputs(8, e.env.ActiveKeysetId())
			return built{threads: []thr{{func() { e.s.OpSwap(e.reqs(p), o1) }, p}, {func() { e.s.OpSwap(e.reqs(p), o2) }, p},
				{func() { e.s.OpMeltLn(q, e.reqs(p), nil, false) }, p}}, watch: p}
		}},
		{"mint||mint||notify", [][]string{nil}, func(e *schedEnv) built {
			q := e.s.OpMintQuote(8, "sat", 0, false)
			e.s.Settle(q)
			o1, o2 := e.g.outputs(8, e.env.ActiveKeysetId()), e.g.outputs(8, e.env.ActiveKeysetId())
			return built{threads: []thr{{func() { e.s.OpMint(q, o1, 0) }, nil}, {func() { e.s.OpMint(q, o2, 0) }, nil}}, notify: q, mintq: q}
		}},
		{"mint||quotestate||notify", [][]string{nil}, func(e *schedEnv) built {
			q := e.s.OpMintQuote(8, "sat", 0, false)
			e.s.Settle(q)
			o1 := e.g.outputs(8, e.env.ActiveKeysetId())
			return built{threads: []thr{{func() { e.s.OpMint(q, o1, 0) }, nil}, {func() { e.s.OpQuoteState(q, false) }, nil}}, notify: q, mintq: q}
		}},
	}
}

// runSchedule runs one complete schedule of a scenario. `choose(i, n)` picks among n live threads at step i.
// Returns the number of live threads seen at each step (the schedule tree's branching) and the choices made.
func (e *schedEnv) runSchedule(sc scenario, script []string, choose func(i int, live []int) int) (lives [][]int, chosen []int, tainted bool) {
	c, s := e.c, e.s
	e.runs++
	fails0, dis0 := c.Fails, len(c.Res.Disagreements)
	b := sc.build(e)
	if len(c.Res.Disagreements) > dis0 || c.Fails > fails0 {
		return nil, nil, true
	}
	var captured []MonitorFailure
	c.Capture = &captured
	defer func() { c.Capture = nil }()
	lnStart := len(e.env.LN.Calls)
	cc := s.BeginConc(script)
	var ts []*CThread
	tin := map[*CThread][]*HProof{}
	for _, th := range b.threads {
		t := cc.Spawn(th.fn)
		tin[t] = th.in
		ts = append(ts, t)
	}
	if b.notify != nil {
		if t := cc.SpawnNotify(b.notify); t != nil {
			ts = append(ts, t)
		}
	}
	for i := 0; ; i++ {
		live := cc.Live()
		if len(live) == 0 {
			break
		}
		ids := make([]int, len(live))
		for j, t := range live {
			ids[j] = t.id
		}
		k := choose(i, ids)
		if k < 0 || k >= len(live) {
			k = 0
		}
		lives = append(lives, ids)
		chosen = append(chosen, ids[k])
		cc.Step(live[k], false)
		if len(c.Res.Disagreements) > dis0 {
			// the model has diverged: stop, abandon the threads
			cc.CrashAll()
			cc.End()
			return lives, chosen, true
		}
	}
	cc.End()
	// ---- C01: per watched secret, the operations that ACCEPTED it: a swap that returned signatures; a melt whose
	// payment went out and was not definitively refused (paid or still in flight), or that settled internally.
	rootC01 := ""
	for _, hp := range b.watch {
		var takers []string
		for _, t := range ts {
			if !hasProof(tin[t], hp) {
				continue
			}
			switch t.name {
			case "swap":
				if isOk(t.out) {
					takers = append(takers, "swap")
				}
			case "melt":
				took := false
				var mine []LnCall
				attempted := false
				for _, lc := range e.env.LN.Calls[lnStart:] {
					if lc.Thread == t.id {
						mine = append(mine, lc)
						if lc.Kind == "SendPayment" || lc.Kind == "PayPartialAmount" {
							attempted = true
						}
					}
				}
				if attempted && expectAfterPay(mine, true, "PENDING") != "UNPAID" {
					took = true
				}
				if isOk(t.out) && strings.HasPrefix(Render(t.out), "(ok PAID") {
					took = true
				}
				if took {
					takers = append(takers, "melt")
				}
			}
		}
		if len(takers) > 1 {
			sort.Strings(takers)
			rootC01 = "accepted-twice:" + strings.Join(takers, "+")
		}
	}
	s.afterOp()
	// ---- adversarial sequential follow-up: present every contested secret once more; ask for the quote once more
	for _, hp := range b.watch {
		s.OpSwap(e.reqs([]*HProof{hp}), e.g.outputs(hp.P.Amount, e.env.ActiveKeysetId()))
	}
	if b.mintq != nil {
		s.OpMint(b.mintq, e.g.outputs(b.mintq.Amount, e.env.ActiveKeysetId()), 0)
	}
	if len(b.restore) > 0 {
		var bms []cashu.BlindedMessage
		for _, o := range b.restore {
			bms = append(bms, o.BM)
		}
		s.OpRestore(bms)
	}
	c.Capture = nil
	// ---- classify what the monitors saw by root cause
	rootC03 := ""
	for _, f := range captured {
		if strings.HasPrefix(f.Signature, "C01/double-spend") && rootC01 == "" {
			rootC01 = "accepted-twice:later"
		}
		if strings.HasPrefix(f.Signature, "C03/issued-more-than-paid") {
			rootC03 = "issued-more-than-paid"
		}
	}
	if rootC01 != "" {
		c.MonitorFail("C01", "C01/sched/"+sc.name+"/"+rootC01, fmt.Sprintf("scenario %s, Lightning answers %v: a secret was accepted by more than one operation under this schedule", sc.name, script), s.replay())
	}
	if rootC03 != "" {
		c.MonitorFail("C03", "C03/sched/"+sc.name+"/"+rootC03, fmt.Sprintf("scenario %s: the quote was issued more often than it was paid under this schedule", sc.name), s.replay())
	}
	if rootC01 == "" && rootC03 == "" {
		for _, f := range captured {
			// No double spend / double issuance in this run.  The other C01/C03 monitors (consumed stays SPENT,
			// NUT-20, amount) are valid under any schedule and are reported; the monitors of other properties
			// compare against a SEQUENTIAL expectation of the melt state machine and only go to the histogram.
			if f.Prop == "C01" || f.Prop == "C03" {
				c.MonitorFail(f.Prop, f.Prop+"/sched/"+sc.name+"/"+strings.TrimPrefix(f.Signature, f.Prop+"/"), f.What, f.Replay)
			}
		}
	}
	// valid under ANY schedule: a signature the mint hands back on restore carries the DLEQ proof of that very signature
	for _, f := range captured {
		if f.Prop == "C10" && strings.HasPrefix(f.Signature, "C10/restore-dleq") {
			c.MonitorFail("C10", "C10/sched/"+sc.name+"/"+strings.TrimPrefix(f.Signature, "C10/"), fmt.Sprintf("scenario %s: %s", sc.name, f.What), f.Replay)
		}
	}
	for _, f := range captured {
		c.Hist("sched-monitor-raw", sc.name+" "+f.Signature)
	}
	outs := make([]string, len(ts))
	for i, t := range ts {
		o := Render(t.out)
		if isOk(t.out) {
			o = "ok"
			if t.name == "melt" || t.name == "notify" {
				o = Render(t.out)
			}
		}
		outs[i] = t.name + ":" + o
	}
	key := sc.name + "|" + strings.Join(script, ",") + "|" + strings.Join(outs, " ")
	c.Case(key, true)
	c.Hist("sched-outcomes", key)
	c.Hist("sched-scenario", sc.name)
	return lives, chosen, len(captured) > 0 || len(c.Res.Disagreements) > dis0
}

func hasProof(ps []*HProof, hp *HProof) bool {
	for _, p := range ps {
		if p == hp {
			return true
		}
	}
	return false
}

func indexOf(xs []int, x int) int {
	for i, v := range xs {
		if v == x {
			return i
		}
	}
	return -1
}

// preemptions counts the context switches away from a thread that could still run.
func preemptions(lives [][]int, chosen []int) int {
	n := 0
	for j := 1; j < len(chosen); j++ {
		if chosen[j] != chosen[j-1] && indexOf(lives[j], chosen[j-1]) >= 0 {
			n++
		}
	}
	return n
}

// enumerate runs every schedule of the scenario with at most maxPre preemptions (maxPre < 0: every schedule),
// depth first: follow a prefix of thread ids, then keep running the current thread (no further preemption).
func enumerate(maxPre int, limit int, run func(choose func(i int, live []int) int) ([][]int, []int)) int {
	prefix := []int{}
	count := 0
	for {
		p := prefix
		lives, chosen := run(func(i int, live []int) int {
			if i < len(p) {
				if k := indexOf(live, p[i]); k >= 0 {
					return k
				}
				return 0
			}
			return -2 // stay on the thread that ran last
		})
		count++
		if lives == nil || (limit > 0 && count >= limit) {
			return count
		}
		// next prefix: the deepest position with an untried alternative that respects the bound
		found := false
		for i := len(chosen) - 1; i >= 0 && !found; i-- {
			// canonical order of the alternatives at step i: the default (stay on the thread that ran last) first
			order := []int{}
			if i > 0 && indexOf(lives[i], chosen[i-1]) >= 0 {
				order = append(order, chosen[i-1])
			}
			for _, id := range lives[i] {
				if indexOf(order, id) < 0 {
					order = append(order, id)
				}
			}
			k := indexOf(order, chosen[i])
			for alt := k + 1; alt < len(order); alt++ {
				cand := append(append([]int{}, chosen[:i]...), order[alt])
				if maxPre >= 0 && preemptions(lives[:i+1], cand) > maxPre {
					continue
				}
				prefix = cand
				found = true
				break
			}
		}
		if !found {
			return count
		}
	}
}

func runMintSched(c *Ctx) {
	var e *schedEnv
	envIdx := 0
	fresh := func() bool {
		if e != nil {
			e.env.Close()
		}
		e = newSchedEnv(c, envIdx, schedProps)
		envIdx++
		return e != nil
	}
	if !fresh() {
		return
	}
	defer func() {
		schedModelOff = false
		if e != nil {
			e.env.Close()
		}
	}()
	maxPre, nRandom := 1, 1
	if c.Thorough {
		maxPre, nRandom = 3, 20
	}
	unit := 0
	for _, sc := range schedScenarios() {
		for si, script := range sc.scripts {
			_ = si
			unit++
			if unit%c.ShardN != c.ShardK {
				continue
			}
			last := -1
			run := func(choose func(i int, live []int) int) ([][]int, []int) {
				if e.runs >= 60 {
					if !fresh() {
						return nil, nil
					}
				}
				last = -1
				lives, chosen, tainted := e.runSchedule(sc, script, func(i int, live []int) int {
					k := choose(i, live)
					if k == -2 { // stay on the current thread
						k = indexOf(live, last)
						if k < 0 {
							k = 0
						}
					}
					last = live[k]
					return k
				})
				if tainted {
					if len(c.Res.Disagreements) > 0 && !schedModelOff {
						// the model has diverged: the disagreement is reported; the rest of the stream runs model-free so
						// that the monitors can still find a concrete schedule on which the property fails
						schedModelOff = true
					}
					fresh()
				}
				return lives, chosen
			}
			mp, nr := maxPre, nRandom
			if strings.Count(sc.name, "||") == 2 { // three threads
				if c.Thorough {
					mp = 2
				} else {
					mp, nr = 0, 2
				}
			}
			n := enumerate(mp, 0, run)
			c.Hist("sched-enumerated", fmt.Sprintf("%s|%s: %d schedules with <= %d preemptions", sc.name, strings.Join(script, ","), n, mp))
			for k := 0; k < nr; k++ {
				run(func(i int, live []int) int { return c.Rng.Intn(len(live)) })
			}
		}
	}
}
