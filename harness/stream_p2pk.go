package main

// Stream "p2pk" (C12): NUT-11 locks through the REAL nut11.VerifyP2PKLockedProof / ProofsSigAll /
// mint.VerifVerifyBlindedMessages / signing helpers, with real BIP-340 keys and signatures, versus Model.Spend
// (symbolised ids) and versus the model-free NUT-11 evaluator of spend_lib.go.

import (
	"crypto/sha256"
	"encoding/hex"
	"fmt"
	"os"
	"path/filepath"
	"runtime"
	"strconv"
	"strings"
	"sync"
	"time"

	"github.com/btcsuite/btcd/btcec/v2"
	"github.com/elnosh/gonuts/cashu"
	"github.com/elnosh/gonuts/cashu/nuts/nut10"
	"github.com/elnosh/gonuts/cashu/nuts/nut11"
	"github.com/elnosh/gonuts/mint"
)

func init() {
	register("p2pk", []string{"C12"},
		"exhaustive product n_sigs{absent,0..4} x keys 1..4 x locktime{absent,past,future} x refund 0..2 x sigflag{absent,SIG_INPUTS,SIG_ALL} x 20 witness shapes "+
			"(real Schnorr keys/signatures) through VerifyP2PKLockedProof; tag-parsing corner cases; seeded random tag lists/witnesses; "+
			"SIG_ALL: the locked proof at every position among plain/other inputs through ProofsSigAll + verifyBlindedMessages with output-witness shapes; "+
			"helpers AddSignatureToInputs/Outputs end to end; class = (phase, configuration, witness shape, outcome)",
		runP2PK)
}

// one verification case: a locked proof + what the harness knows about it
type spendCase struct {
	phase   string
	cfg     string // configuration label
	shape   string // witness shape label
	kind    nut10.SecretKind
	proof   cashu.Proof
	data    string
	tags    [][]string
	impl    string
	op      Sx
	specOp  Sx
	spec    bool // NUT evaluator: spendable?
	keys    []string
	need    int
	sigs    []string
}

func parallelDo(n int, f func(i int)) {
	workers := runtime.NumCPU()
	if workers > 16 {
		workers = 16
	}
	var wg sync.WaitGroup
	ch := make(chan int, 256)
	for k := 0; k < workers; k++ {
		wg.Add(1)
		go func() {
			defer wg.Done()
			for i := range ch {
				f(i)
			}
		}()
	}
	for i := 0; i < n; i++ {
		ch <- i
	}
	close(ch)
	wg.Wait()
}

// lockTags builds the tag list of one configuration.
// nsigs: -1 absent; lt: 0 absent, 1 past, 2 future; flag: 0 absent, 1 SIG_INPUTS, 2 SIG_ALL
func lockTags(nsigs int, pubkeys []string, lt int, refund []string, flag int, now int64) [][]string {
	var tags [][]string
	switch flag {
	case 1:
		tags = append(tags, []string{"sigflag", "SIG_INPUTS"})
	case 2:
		tags = append(tags, []string{"sigflag", "SIG_ALL"})
	}
	if nsigs >= 0 {
		tags = append(tags, []string{"n_sigs", strconv.Itoa(nsigs)})
	}
	if len(pubkeys) > 0 {
		tags = append(tags, append([]string{"pubkeys"}, pubkeys...))
	}
	switch lt {
	case 1:
		tags = append(tags, []string{"locktime", strconv.FormatInt(now-1000000, 10)})
	case 2:
		tags = append(tags, []string{"locktime", strconv.FormatInt(now+1000000, 10)})
	}
	if len(refund) > 0 {
		tags = append(tags, append([]string{"refund"}, refund...))
	}
	return tags
}

// p2pkShapes: the witness shapes of one configuration. auth = authorised signers before the locktime in the order the
// lock lists them (data key first), need = threshold.
func p2pkShapes(w *spendWorld, msg [32]byte, auth []*spKey, need int, refund []*spKey, foreign *spKey, all []*spKey) (names []string, wits []string) {
	add := func(n, wt string) { names = append(names, n); wits = append(wits, wt) }
	other := sha256.Sum256([]byte("another message"))
	sg := func(k *spKey) string { return w.sign(k, msg, 0) }
	distinct := func(n int) []string { // one signature by each of the first n authorised keys (cyclic re-sign with a new nonce beyond)
		var out []string
		for i := 0; i < n; i++ {
			out = append(out, w.sign(auth[i%len(auth)], msg, i/len(auth)))
		}
		return out
	}
	add("none", "")
	add("garbage-json", "{\"signatures\": [")
	add("empty-list", witnessJSON([]string{}))
	add("wrong-type", "{\"signatures\":[\""+sg(auth[0])+"\", 7]}")
	// too few: need-1 distinct signers (padded with an unparseable entry so that the list is never empty)
	tf := []string{w.garbageSig(0)}
	if need-1 <= len(auth) {
		tf = append(tf, distinct(need-1)...)
	} else {
		tf = append(tf, distinct(len(auth))...)
	}
	add("too-few", witnessJSON(tf))
	// exact threshold by distinct authorised signers, in listing order and reversed
	if need <= len(auth) {
		ex := distinct(need)
		add("exact", witnessJSON(ex))
		rev := make([]string, len(ex))
		for i := range ex {
			rev[len(ex)-1-i] = ex[i]
		}
		add("exact-reversed", witnessJSON(rev))
		// the LAST authorised keys sign (not the first ones)
		var tail []string
		for i := len(auth) - need; i < len(auth); i++ {
			tail = append(tail, sg(auth[i]))
		}
		add("exact-tail", witnessJSON(tail))
		add("dup-string", witnessJSON(append(append([]string{}, ex...), ex[0])))
		add("garbage-mixed", witnessJSON(append([]string{w.garbageSig(0), w.garbageSig(2)}, append(ex, w.garbageSig(3))...)))
		wm := append([]string{}, ex...)
		wm[len(wm)-1] = w.sign(auth[(need-1)%len(auth)], other, 0)
		add("wrong-message", witnessJSON(wm))
		fk := append([]string{}, ex...)
		fk[0] = sg(foreign)
		add("foreign-key", witnessJSON(fk))
	} else {
		add("exact", witnessJSON(distinct(len(auth)))) // every key signs once: still below the threshold
	}
	// the same signer twice: `need` signatures, but one signer (the first) re-signs with another nonce
	{
		st := []string{sg(auth[0]), w.sign(auth[0], msg, 7)}
		for i := 1; len(st) < need && i < len(auth); i++ {
			st = append(st, sg(auth[i]))
		}
		add("same-key-twice", witnessJSON(st))
	}
	// recount shapes: every authorised key signs once, then the LAST listed key re-signs until `need` is reached
	// (need <= #keys: the last of the first need-1 signers re-signs once) — more signatures than distinct signers
	{
		n := need - 1
		if n > len(auth) {
			n = len(auth)
		}
		if n < 1 {
			n = 1
		}
		rc := distinct(n)
		last := auth[(n-1)%len(auth)]
		up := append([]string{}, rc...)
		for v := 1; len(rc) < need || v == 1; v++ {
			rc = append(rc, w.sign(last, msg, 10+v))
		}
		add("recount-last-nonce", witnessJSON(rc))
		up = append(up, w.sign(last, msg, -1)) // the same signature in upper-case hex
		add("recount-last-uppercase", witnessJSON(up))
	}
	// more than needed: everybody signs, plus a foreign key and garbage
	{
		var m []string
		for _, k := range auth {
			m = append(m, sg(k))
		}
		m = append(m, sg(foreign), w.garbageSig(1))
		add("more", witnessJSON(m))
	}
	// refund key alone / refund key together with the lock signers
	{
		rk := foreign
		if len(refund) > 0 {
			rk = refund[len(refund)-1]
		}
		add("refund-sig", witnessJSON([]string{sg(rk)}))
		var m []string
		for i := 0; i < need && i < len(auth); i++ {
			m = append(m, sg(auth[i]))
		}
		add("refund+lock", witnessJSON(append([]string{sg(rk)}, m...)))
	}
	// only the co-signer keys (not the data key)
	if len(auth) > 1 {
		var m []string
		for i := 1; i < len(auth) && len(m) < need; i++ {
			m = append(m, sg(auth[i]))
		}
		add("cosigners-only", witnessJSON(m))
	}
	// extra JSON fields / preimage field present (ignored by P2PKWitness)
	add("extra-fields", "{\"preimage\":\"00\",\"signatures\":[\""+sg(auth[0])+"\"],\"x\":1}")
	_ = all
	return
}

func runP2PK(c *Ctx) {
	props := []string{"C12"}
	w := newSpendWorld(c.Rng.Fork(), 10)
	now := time.Now().Unix()
	var cases []*spendCase

	// ---------------- phase A: the full product of the quantifier
	foreign := w.keys[9]
	cfgIdx := 0
	for _, nsigs := range []int{-1, 0, 1, 2, 3, 4} {
		for nkeys := 1; nkeys <= 4; nkeys++ {
			for lt := 0; lt <= 2; lt++ {
				for nref := 0; nref <= 2; nref++ {
					for flag := 0; flag <= 2; flag++ {
						cfgIdx++
						dataKey := w.keys[0]
						var pubs []string
						var pubKeys []*spKey
						for i := 1; i < nkeys; i++ {
							pubs = append(pubs, w.keys[i].hex)
							pubKeys = append(pubKeys, w.keys[i])
						}
						var refs []string
						var refKeys []*spKey
						for i := 0; i < nref; i++ {
							refs = append(refs, w.keys[6+i].hex)
							refKeys = append(refKeys, w.keys[6+i])
						}
						tags := lockTags(nsigs, pubs, lt, refs, flag, now)
						secret := secretString(nut10.P2PK, fmt.Sprintf("%064x", cfgIdx), dataKey.hex, tags)
						msg := secretDigest(secret)
						auth := []*spKey{dataKey}
						need := 1
						if nsigs > 0 {
							auth = append(auth, pubKeys...)
							need = nsigs
						}
						names, wits := p2pkShapes(w, msg, auth, need, refKeys, foreign, w.keys)
						cfg := fmt.Sprintf("n=%d/k=%d/lt=%d/r=%d/f=%d", nsigs, nkeys, lt, nref, flag)
						for i := range names {
							cases = append(cases, &spendCase{phase: "product", cfg: cfg, shape: names[i], kind: nut10.P2PK,
								proof: cashu.Proof{Amount: 1, Id: "00", Secret: secret, C: "02", Witness: wits[i]}, data: dataKey.hex, tags: tags})
						}
					}
				}
			}
		}
	}
	nProduct := len(cases)

	// ---------------- phase A2: tag-parsing corner cases
	cases = append(cases, p2pkCornerCases(w, now)...)
	// ---------------- phase A3: seeded random locks and witnesses
	nRandom := 3000
	if c.Thorough {
		nRandom = 60000
	}
	cases = append(cases, p2pkRandomCases(w, c.Rng, now, nRandom)...)

	// run the REAL verifier (parallel; results indexed, order deterministic)
	parallelDo(len(cases), func(i int) {
		cs := cases[i]
		cs.impl = guardOutcome(func() error {
			s, err := nut10.DeserializeSecret(cs.proof.Secret)
			if err != nil {
				return fmt.Errorf("harness: secret does not deserialize: %v", err)
			}
			return nut11.VerifyP2PKLockedProof(cs.proof, s)
		})
	})
	// model ops + NUT evaluator
	ops := make([]Sx, 0, 2*len(cases))
	for _, cs := range cases {
		e := w.newEnv(now)
		p := e.proofSx(cs.proof)
		env := e.Sx()
		cs.op = L(A("spend.p2pk"), env, p)
		cs.specOp = L(A("spend.spec-p2pk"), env, p)
		ops = append(ops, cs.op, cs.specOp)
		sigs, _ := witnessFields(cs.proof.Witness)
		cs.sigs = sigs
		cs.spec, cs.keys, cs.need = w.nutSpendableP2PK(cs.data, cs.tags, secretDigest(cs.proof.Secret), sigs, now)
		// harness self-check of the by-construction validity table against the library
		for _, s := range sigs {
			for _, k := range cs.keys {
				w.selfCheck(s, k, secretDigest(cs.proof.Secret))
			}
		}
	}
	answers := c.Drv.Batch(ops)
	for i, cs := range cases {
		model, lspec := answers[2*i], answers[2*i+1]
		key := cs.phase + "/" + cs.cfg + "/" + cs.shape + "/" + cs.impl
		c.Case(key, true)
		c.Hist("verify/outcome", cs.impl)
		c.Hist("verify/shape", cs.shape+" -> "+cs.impl)
		c.Hist("verify/phase", cs.phase)
		if i%997 == 0 {
			c.Sample(map[string]any{"cfg": cs.cfg, "shape": cs.shape, "secret": cs.proof.Secret, "witness": cs.proof.Witness, "impl": cs.impl, "model": model, "nut_evaluator": cs.spec})
		}
		replay := map[string]any{"secret": cs.proof.Secret, "witness": cs.proof.Witness, "now": now, "op": Render(cs.op)}
		if model != cs.impl {
			c.Disagree(props, Render(cs.op), cs.impl, model, replay)
		}
		// the Lean declarative spec (exhaustive search) must agree with the Go NUT evaluator: two independent readings
		if lspec != strconv.FormatBool(cs.spec) {
			c.Disagree(props, Render(cs.specOp), "nut-evaluator:"+strconv.FormatBool(cs.spec), lspec, replay)
		}
		// MONITOR C12: accepted <=> spendable according to NUT-11
		accepted := cs.impl == "ok"
		if accepted != cs.spec {
			sig, what := classifyP2PKFailure(w, cs, accepted)
			c.MonitorFail("C12", sig, what, replay)
			c.Hist("monitor", sig)
			saveFinding(sig, map[string]any{"finding": findingID(sig), "signature": sig, "what": what, "function": "nut11.VerifyP2PKLockedProof",
				"secret": cs.proof.Secret, "witness": cs.proof.Witness, "now": now, "observed": cs.impl, "nut11_evaluator_spendable": cs.spec,
				"authorised_keys": cs.keys, "threshold": cs.need})
		} else {
			c.Hist("monitor", "agree")
		}
	}
	c.Hist("sizes", fmt.Sprintf("product=%d", nProduct))
	for _, f := range w.selfCheckFailures {
		c.Disagree(props, "harness-selfcheck", "by-construction validity differs from btcec verification", f, nil)
	}

	runP2PKParse(c, w, now, cases, true)
	runP2PKSigAll(c, w, now)
	runP2PKHelpers(c, w, now)
	runP2PKRegressions(c, w, now)
	c.Res.Exhaustive = true
}

// classifyP2PKFailure gives a monitor failure its stable signature.
func classifyP2PKFailure(w *spendWorld, cs *spendCase, accepted bool) (string, string) {
	msg := secretDigest(cs.proof.Secret)
	if accepted && cs.need > 0 && !hasDupString(cs.sigs) &&
		w.maxMatching(cs.sigs, cs.keys, msg) < cs.need && w.countWithRepetition(cs.sigs, cs.keys, msg) >= cs.need {
		return "C12/hasValidSignatures/last-key-recount",
			fmt.Sprintf("accepted with %d signatures from only %d distinct authorised keys (threshold %d): the last remaining key is counted again",
				w.countWithRepetition(cs.sigs, cs.keys, msg), w.maxMatching(cs.sigs, cs.keys, msg), cs.need)
	}
	if accepted {
		return "C12/VerifyP2PKLockedProof/accepts-unspendable", "accepted a witness that NUT-11 does not allow (" + cs.cfg + ", " + cs.shape + ")"
	}
	return "C12/VerifyP2PKLockedProof/rejects-spendable", "rejected (" + cs.impl + ") a witness that NUT-11 allows (" + cs.cfg + ", " + cs.shape + ")"
}

// ---------------------------------------------------------------- findings files

var findingBySignature = map[string]string{
	"C12/hasValidSignatures/last-key-recount":    "F6",
	"C13/hasValidSignatures/last-key-recount":    "F6-htlc",
	"C12/ProofsSigAll/plain-first":               "F7",
	"C13/AddWitnessHTLCToOutputs/hex-text":       "F8",
}

func findingID(sig string) string { return findingBySignature[sig] }

var savedFindings = map[string]bool{}
var savedFindingsMu sync.Mutex

// saveFinding writes the FIRST (generation order = smallest) failing case of a signature to $VERIF_FINDINGS/<id>.json
// (only when that variable is set: the normal check run writes nothing into the verification tree).
func saveFinding(sig string, v map[string]any) {
	dir := os.Getenv("VERIF_FINDINGS")
	id := findingID(sig)
	if dir == "" || id == "" {
		return
	}
	savedFindingsMu.Lock()
	defer savedFindingsMu.Unlock()
	if savedFindings[sig] {
		return
	}
	savedFindings[sig] = true
	os.MkdirAll(dir, 0755)
	writeJSON(filepath.Join(dir, id+".json"), v)
}

// ---------------------------------------------------------------- corner cases of tag parsing

func p2pkCornerCases(w *spendWorld, now int64) []*spendCase {
	k0, k1, k2 := w.keys[0], w.keys[1], w.keys[2]
	past := strconv.FormatInt(now-1000000, 10)
	type tc struct {
		name string
		data string
		tags [][]string
	}
	xonly := k1.xonly
	tcs := []tc{
		{"no-tags", k0.hex, nil},
		{"empty-tags", k0.hex, [][]string{}},
		{"six-tags", k0.hex, [][]string{{"a", "1"}, {"b", "1"}, {"c", "1"}, {"d", "1"}, {"e", "1"}, {"f", "1"}}},
		{"five-unknown-tags", k0.hex, [][]string{{"a", "1"}, {"b", "1"}, {"c", "1"}, {"d", "1"}, {"e", "1"}}},
		{"one-element-tag", k0.hex, [][]string{{"sigflag"}}},
		{"zero-element-tag", k0.hex, [][]string{{}}},
		{"unknown-one-element", k0.hex, [][]string{{"whatever"}}},
		{"sigflag-bad", k0.hex, [][]string{{"sigflag", "SIG_NONE"}}},
		{"sigflag-lower", k0.hex, [][]string{{"sigflag", "sig_all"}}},
		{"sigflag-three", k0.hex, [][]string{{"sigflag", "SIG_ALL", "x"}}},
		{"sigflag-twice", k0.hex, [][]string{{"sigflag", "SIG_ALL"}, {"sigflag", "SIG_INPUTS"}}},
		{"nsigs--1", k0.hex, [][]string{{"n_sigs", "-1"}, {"pubkeys", k1.hex}}},
		{"nsigs--0", k0.hex, [][]string{{"n_sigs", "-0"}, {"pubkeys", k1.hex}}},
		{"nsigs-127", k0.hex, [][]string{{"n_sigs", "127"}, {"pubkeys", k1.hex}}},
		{"nsigs-128", k0.hex, [][]string{{"n_sigs", "128"}, {"pubkeys", k1.hex}}},
		{"nsigs--129", k0.hex, [][]string{{"n_sigs", "-129"}, {"pubkeys", k1.hex}}},
		{"nsigs-abc", k0.hex, [][]string{{"n_sigs", "abc"}, {"pubkeys", k1.hex}}},
		{"nsigs-empty", k0.hex, [][]string{{"n_sigs", ""}, {"pubkeys", k1.hex}}},
		{"nsigs-plus", k0.hex, [][]string{{"n_sigs", "+2"}, {"pubkeys", k1.hex}}},
		{"nsigs-sign-only", k0.hex, [][]string{{"n_sigs", "+"}, {"pubkeys", k1.hex}}},
		{"nsigs-leading-zeros", k0.hex, [][]string{{"n_sigs", "002"}, {"pubkeys", k1.hex}}},
		{"nsigs-space", k0.hex, [][]string{{"n_sigs", " 1"}, {"pubkeys", k1.hex}}},
		{"nsigs-underscore", k0.hex, [][]string{{"n_sigs", "1_0"}, {"pubkeys", k1.hex}}},
		{"nsigs-hex", k0.hex, [][]string{{"n_sigs", "0x1"}, {"pubkeys", k1.hex}}},
		{"nsigs-float", k0.hex, [][]string{{"n_sigs", "1.0"}, {"pubkeys", k1.hex}}},
		{"nsigs-huge", k0.hex, [][]string{{"n_sigs", "99999999999999999999999999"}, {"pubkeys", k1.hex}}},
		{"nsigs-unicode-digit", k0.hex, [][]string{{"n_sigs", "١"}, {"pubkeys", k1.hex}}},
		{"nsigs-twice-last-wins", k0.hex, [][]string{{"n_sigs", "2"}, {"n_sigs", "1"}, {"pubkeys", k1.hex}}},
		{"nsigs-twice-last-wins-2", k0.hex, [][]string{{"n_sigs", "1"}, {"pubkeys", k1.hex}, {"n_sigs", "2"}}},
		{"nsigs-three-elements", k0.hex, [][]string{{"n_sigs", "1", "9"}, {"pubkeys", k1.hex}}},
		{"nsigs-1-no-pubkeys", k0.hex, [][]string{{"n_sigs", "1"}}},
		{"nsigs-0-no-pubkeys", k0.hex, [][]string{{"n_sigs", "0"}}},
		{"pubkeys-without-nsigs", k0.hex, [][]string{{"pubkeys", k1.hex, k2.hex}}},
		{"pubkeys-twice-last-wins", k0.hex, [][]string{{"n_sigs", "2"}, {"pubkeys", k1.hex}, {"pubkeys", k2.hex}}},
		{"pubkeys-bad-hex", k0.hex, [][]string{{"n_sigs", "1"}, {"pubkeys", "zz"}}},
		{"pubkeys-bad-point", k0.hex, [][]string{{"n_sigs", "1"}, {"pubkeys", "02" + strings.Repeat("ff", 32)}}},
		{"pubkeys-xonly", k0.hex, [][]string{{"n_sigs", "1"}, {"pubkeys", xonly}}},
		{"pubkeys-second-bad", k0.hex, [][]string{{"n_sigs", "1"}, {"pubkeys", k1.hex, "00"}}},
		{"pubkeys-uncompressed", k0.hex, [][]string{{"n_sigs", "2"}, {"pubkeys", k1.uncompressedHex()}}},
		{"pubkeys-uppercase", k0.hex, [][]string{{"n_sigs", "2"}, {"pubkeys", strings.ToUpper(k1.hex)}}},
		{"pubkeys-contains-data-key", k0.hex, [][]string{{"n_sigs", "2"}, {"pubkeys", k0.hex}}},
		{"pubkeys-same-key-twice", k0.hex, [][]string{{"n_sigs", "3"}, {"pubkeys", k1.hex, k1.hex}}},
		{"pubkeys-twin-of-data", k0.hex, [][]string{{"n_sigs", "2"}, {"pubkeys", k0.twinHex()}}},
		{"data-twin", k0.twinHex(), nil},
		{"data-uncompressed", k0.uncompressedHex(), nil},
		{"data-uppercase", strings.ToUpper(k0.hex), nil},
		{"data-bad-hex", "nothex", nil},
		{"data-empty", "", nil},
		{"data-xonly", k0.xonly, nil},
		{"data-bad-expired", "nothex", [][]string{{"locktime", past}}},
		{"data-bad-expired-refund", "nothex", [][]string{{"locktime", past}, {"refund", k2.hex}}},
		{"locktime-abc", k0.hex, [][]string{{"locktime", "abc"}}},
		{"locktime-empty", k0.hex, [][]string{{"locktime", ""}}},
		{"locktime-0", k0.hex, [][]string{{"locktime", "0"}}},
		{"locktime-1", k0.hex, [][]string{{"locktime", "1"}}},
		{"locktime--5", k0.hex, [][]string{{"locktime", "-5"}}},
		{"locktime-max", k0.hex, [][]string{{"locktime", "9223372036854775807"}}},
		{"locktime-overflow", k0.hex, [][]string{{"locktime", "9223372036854775808"}}},
		{"locktime-min", k0.hex, [][]string{{"locktime", "-9223372036854775808"}}},
		{"locktime-underflow", k0.hex, [][]string{{"locktime", "-9223372036854775809"}}},
		{"locktime-twice-last-wins", k0.hex, [][]string{{"locktime", past}, {"locktime", "0"}}},
		{"locktime-twice-last-wins-2", k0.hex, [][]string{{"locktime", "0"}, {"locktime", past}}},
		{"refund-bad", k0.hex, [][]string{{"locktime", past}, {"refund", "zz"}}},
		{"refund-bad-not-expired", k0.hex, [][]string{{"refund", "zz"}}},
		{"refund-twice-last-wins", k0.hex, [][]string{{"locktime", past}, {"refund", k1.hex}, {"refund", k2.hex}}},
		{"refund-is-data-key", k0.hex, [][]string{{"locktime", past}, {"refund", k0.hex}}},
		{"refund-one-element", k0.hex, [][]string{{"locktime", past}, {"refund"}}},
		{"unknown-tag-with-keys", k0.hex, [][]string{{"n_sigs", "1"}, {"pubkeys", k1.hex}, {"note", "zz", "yy"}}},
		{"tag-name-case", k0.hex, [][]string{{"N_SIGS", "2"}, {"PUBKEYS", "zz"}}},
	}
	var out []*spendCase
	for i, t := range tcs {
		secret := secretString(nut10.P2PK, fmt.Sprintf("c0%062x", i), t.data, t.tags)
		msg := secretDigest(secret)
		all := []*spKey{k0, k1, k2}
		wits := map[string]string{
			"none":      "",
			"k0":        witnessJSON([]string{w.sign(k0, msg, 0)}),
			"k1":        witnessJSON([]string{w.sign(k1, msg, 0)}),
			"k2":        witnessJSON([]string{w.sign(k2, msg, 0)}),
			"k0+k1":     witnessJSON([]string{w.sign(k0, msg, 0), w.sign(k1, msg, 0)}),
			"k0+k0'":    witnessJSON([]string{w.sign(k0, msg, 0), w.sign(k0, msg, 3)}),
			"k1+k1'+k0": witnessJSON([]string{w.sign(k1, msg, 0), w.sign(k1, msg, 3), w.sign(k0, msg, 0)}),
			"k0+k1+k1'": witnessJSON([]string{w.sign(k0, msg, 0), w.sign(k1, msg, 0), w.sign(k1, msg, 3)}),
			"all":       witnessJSON([]string{w.sign(k0, msg, 0), w.sign(k1, msg, 0), w.sign(k2, msg, 0)}),
		}
		_ = all
		for _, sh := range sortedKeys(wits) {
			out = append(out, &spendCase{phase: "corner", cfg: t.name, shape: sh, kind: nut10.P2PK,
				proof: cashu.Proof{Amount: 1, Id: "00", Secret: secret, C: "02", Witness: wits[sh]}, data: t.data, tags: t.tags})
		}
	}
	return out
}

// ---------------------------------------------------------------- random locks and witnesses

func p2pkRandomCases(w *spendWorld, r *Rng, now int64, n int) []*spendCase {
	var out []*spendCase
	pool := w.keys[:6]
	keyStr := func() string {
		k := pool[r.Intn(len(pool))]
		switch r.Intn(12) {
		case 0:
			return k.uncompressedHex()
		case 1:
			return k.twinHex()
		case 2:
			return strings.ToUpper(k.hex)
		case 3:
			return []string{"zz", "", "02" + strings.Repeat("ff", 32), k.xonly}[r.Intn(4)]
		}
		return k.hex
	}
	for i := 0; i < n; i++ {
		var tags [][]string
		nt := r.Intn(7)
		for j := 0; j < nt; j++ {
			switch r.Intn(8) {
			case 0:
				tags = append(tags, []string{"sigflag", []string{"SIG_ALL", "SIG_INPUTS", "SIG_ALL", "x"}[r.Intn(4)]})
			case 1, 2:
				tags = append(tags, []string{"n_sigs", []string{"0", "1", "2", "3", "4", "2", "-1", "x", "128"}[r.Intn(9)]})
			case 3, 4:
				t := []string{"pubkeys"}
				for m := r.Intn(4); m >= 0; m-- {
					t = append(t, keyStr())
				}
				if r.Chance(5) {
					t = t[:1]
				}
				tags = append(tags, t)
			case 5:
				tags = append(tags, []string{"locktime", []string{strconv.FormatInt(now-1000000, 10), strconv.FormatInt(now+1000000, 10), "0", "-7", "x", "1"}[r.Intn(6)]})
			case 6:
				t := []string{"refund"}
				for m := r.Intn(3); m >= 0; m-- {
					t = append(t, keyStr())
				}
				tags = append(tags, t)
			default:
				tags = append(tags, []string{"memo", "hello"})
			}
		}
		data := keyStr()
		secret := secretString(nut10.P2PK, fmt.Sprintf("aa%062x", i), data, tags)
		msg := secretDigest(secret)
		other := sha256.Sum256([]byte("other"))
		var sigs []string
		for m := r.Intn(6); m > 0; m-- {
			k := pool[r.Intn(len(pool))]
			switch r.Intn(10) {
			case 0:
				sigs = append(sigs, w.garbageSig(r.Intn(4)))
			case 1:
				sigs = append(sigs, w.sign(k, other, 0))
			case 2:
				sigs = append(sigs, w.sign(k, msg, 1+r.Intn(2)))
			case 3:
				sigs = append(sigs, w.sign(k, msg, -1))
			case 4:
				if len(sigs) > 0 {
					sigs = append(sigs, sigs[r.Intn(len(sigs))])
				}
			default:
				sigs = append(sigs, w.sign(k, msg, 0))
			}
		}
		wit := witnessJSON(sigs)
		if r.Chance(4) {
			wit = []string{"", "null", "[]", "{\"signatures\":null}", "{\"signatures\":{}}"}[r.Intn(5)]
		}
		out = append(out, &spendCase{phase: "random", cfg: fmt.Sprintf("tags=%d", nt), shape: fmt.Sprintf("sigs=%d", len(sigs)), kind: nut10.P2PK,
			proof: cashu.Proof{Amount: 1, Id: "00", Secret: secret, C: "02", Witness: wit}, data: data, tags: tags})
	}
	return out
}


// ---------------------------------------------------------------- SIG_ALL: ProofsSigAll + verifyBlindedMessages

// sigAllInput: one kind of input used to compose input lists
type sigAllInput struct {
	label   string
	plain   bool
	kind    nut10.SecretKind
	kindStr string // for the unknown-kind secret
	data    string
	tags    [][]string
	sigAll  bool // carries SIG_ALL as a P2PK/HTLC lock (what the property speaks about)
}

func (in sigAllInput) secret(nonce string) string {
	if in.plain {
		return nonce // an ordinary random hex secret
	}
	if in.kindStr != "" {
		s := secretString(nut10.P2PK, nonce, in.data, in.tags)
		return strings.Replace(s, "[\"P2PK\"", "[\""+in.kindStr+"\"", 1)
	}
	return secretString(in.kind, nonce, in.data, in.tags)
}

type outShape struct {
	label string
	build func(w *spendWorld, B_ string, idx int) cashu.BlindedMessage
}

func decodedDigest(B_ string) ([32]byte, bool) {
	b, err := hex.DecodeString(B_)
	if err != nil {
		return [32]byte{}, false
	}
	return sha256.Sum256(b), true
}

func runP2PKSigAll(c *Ctx, w *spendWorld, now int64) {
	props := []string{"C12"}
	k0, k1, k2, fk := w.keys[0], w.keys[1], w.keys[2], w.keys[9]
	pre := "aabbccdd"
	preHash := sha256.Sum256([]byte{0xaa, 0xbb, 0xcc, 0xdd})
	alphabet := []sigAllInput{
		{label: "plain", plain: true},
		{label: "A", kind: nut10.P2PK, data: k0.hex, tags: [][]string{{"sigflag", "SIG_ALL"}, {"n_sigs", "2"}, {"pubkeys", k1.hex}}, sigAll: true},
		{label: "A1", kind: nut10.P2PK, data: k0.hex, tags: [][]string{{"sigflag", "SIG_ALL"}}, sigAll: true},
		{label: "A1p", kind: nut10.P2PK, data: k0.hex, tags: [][]string{{"sigflag", "SIG_ALL"}, {"pubkeys", k1.hex}}, sigAll: true},
		{label: "Au", kind: nut10.P2PK, data: k0.uncompressedHex(), tags: [][]string{{"sigflag", "SIG_ALL"}, {"n_sigs", "2"}, {"pubkeys", k1.hex}}, sigAll: true},
		{label: "B", kind: nut10.P2PK, data: k0.hex, tags: [][]string{{"sigflag", "SIG_ALL"}, {"n_sigs", "2"}, {"pubkeys", k2.hex}}, sigAll: true},
		{label: "C", kind: nut10.P2PK, data: k0.hex, tags: [][]string{{"sigflag", "SIG_ALL"}, {"n_sigs", "1"}, {"pubkeys", k1.hex}}, sigAll: true},
		{label: "I", kind: nut10.P2PK, data: k0.hex, tags: [][]string{{"sigflag", "SIG_INPUTS"}, {"n_sigs", "2"}, {"pubkeys", k1.hex}}},
		{label: "N", kind: nut10.P2PK, data: k0.hex, tags: nil},
		{label: "X", kindStr: "FOO", data: k0.hex, tags: [][]string{{"sigflag", "SIG_ALL"}}},
		{label: "H", kind: nut10.HTLC, data: hex.EncodeToString(preHash[:]), tags: [][]string{{"sigflag", "SIG_ALL"}, {"n_sigs", "1"}, {"pubkeys", k0.hex}}, sigAll: true},
		{label: "Abad", kind: nut10.P2PK, data: "zz", tags: [][]string{{"sigflag", "SIG_ALL"}}, sigAll: true},
		{label: "Atag", kind: nut10.P2PK, data: k0.hex, tags: [][]string{{"sigflag", "SIG_ALL"}, {"n_sigs", "x"}}, sigAll: true},
	}
	sgn := func(k *spKey, B_ string, variant int) string {
		d, ok := decodedDigest(B_)
		if !ok {
			d = sha256.Sum256([]byte(B_))
		}
		return w.sign(k, d, variant)
	}
	mk := func(B_ string, wit string) cashu.BlindedMessage {
		return cashu.BlindedMessage{Amount: 1, Id: "00", B_: B_, Witness: wit}
	}
	shapes := []outShape{
		{"unsigned", func(w *spendWorld, B_ string, i int) cashu.BlindedMessage { return mk(B_, "") }},
		{"k0", func(w *spendWorld, B_ string, i int) cashu.BlindedMessage { return mk(B_, witnessJSON([]string{sgn(k0, B_, 0)})) }},
		{"k1", func(w *spendWorld, B_ string, i int) cashu.BlindedMessage { return mk(B_, witnessJSON([]string{sgn(k1, B_, 0)})) }},
		{"k0+k1", func(w *spendWorld, B_ string, i int) cashu.BlindedMessage {
			return mk(B_, witnessJSON([]string{sgn(k0, B_, 0), sgn(k1, B_, 0)}))
		}},
		{"k1+k0", func(w *spendWorld, B_ string, i int) cashu.BlindedMessage {
			return mk(B_, witnessJSON([]string{sgn(k1, B_, 0), sgn(k0, B_, 0)}))
		}},
		{"k0+k0'", func(w *spendWorld, B_ string, i int) cashu.BlindedMessage {
			return mk(B_, witnessJSON([]string{sgn(k0, B_, 0), sgn(k0, B_, 5)}))
		}},
		{"k1+k1'", func(w *spendWorld, B_ string, i int) cashu.BlindedMessage {
			return mk(B_, witnessJSON([]string{sgn(k1, B_, 0), sgn(k1, B_, 5)}))
		}},
		{"k0+k0", func(w *spendWorld, B_ string, i int) cashu.BlindedMessage {
			return mk(B_, witnessJSON([]string{sgn(k0, B_, 0), sgn(k0, B_, 0)}))
		}},
		{"k0+foreign", func(w *spendWorld, B_ string, i int) cashu.BlindedMessage {
			return mk(B_, witnessJSON([]string{sgn(k0, B_, 0), sgn(fk, B_, 0)}))
		}},
		{"k0+k2", func(w *spendWorld, B_ string, i int) cashu.BlindedMessage {
			return mk(B_, witnessJSON([]string{sgn(k0, B_, 0), sgn(k2, B_, 0)}))
		}},
		{"text-signed", func(w *spendWorld, B_ string, i int) cashu.BlindedMessage {
			d := sha256.Sum256([]byte(B_))
			return mk(B_, witnessJSON([]string{w.sign(k0, d, 0), w.sign(k1, d, 0)}))
		}},
		{"garbage-json", func(w *spendWorld, B_ string, i int) cashu.BlindedMessage { return mk(B_, "{") }},
		{"htlc-k0", func(w *spendWorld, B_ string, i int) cashu.BlindedMessage {
			return mk(B_, htlcWitnessJSON(pre, []string{sgn(k0, B_, 0)}))
		}},
		{"htlc-wrong-preimage", func(w *spendWorld, B_ string, i int) cashu.BlindedMessage {
			return mk(B_, htlcWitnessJSON("00", []string{sgn(k0, B_, 0)}))
		}},
		{"htlc-preimage-type", func(w *spendWorld, B_ string, i int) cashu.BlindedMessage {
			return mk(B_, "{\"preimage\":5,\"signatures\":[\""+sgn(k0, B_, 0)+"\"]}")
		}},
		{"only-first-signed", func(w *spendWorld, B_ string, i int) cashu.BlindedMessage {
			if i == 0 {
				return mk(B_, witnessJSON([]string{sgn(k0, B_, 0), sgn(k1, B_, 0)}))
			}
			return mk(B_, "")
		}},
	}
	Bs := []string{w.keys[3].hex, w.keys[4].hex, w.keys[5].hex}
	type saCase struct {
		labels  []string
		proofs  cashu.Proofs
		anySA   bool
		plainBeforeSA bool
		outsLbl string
		outs    cashu.BlindedMessages
		implSA  bool
		implOut string
	}
	var cases []*saCase
	var lists [][]int
	for a := range alphabet {
		lists = append(lists, []int{a})
		for b := range alphabet {
			lists = append(lists, []int{a, b})
		}
	}
	// length 3 over a smaller alphabet (plain, A, A1, B, I, X, H) — every position of the SIG_ALL proof among plain inputs
	small := []int{0, 1, 2, 5, 7, 9, 10}
	for _, a := range small {
		for _, b := range small {
			for _, d := range small {
				lists = append(lists, []int{a, b, d})
			}
		}
	}
	lists = append(lists, []int{0, 0, 0, 1}, []int{0, 0, 0, 0, 1}, []int{1, 1, 1, 1}, []int{8, 7, 0, 1})
	nonce := 0
	for _, lst := range lists {
		var ps cashu.Proofs
		var labels []string
		anySA, seenPlain, plainBefore := false, false, false
		for _, a := range lst {
			in := alphabet[a]
			nonce++
			sec := in.secret(fmt.Sprintf("5a%062x", nonce))
			// input witness: signed by both k0 and k1 (enough for every P2PK condition used here); HTLC: preimage + k0
			d := secretDigest(sec)
			wit := witnessJSON([]string{w.sign(k0, d, 0), w.sign(k1, d, 0)})
			if in.kind == nut10.HTLC && !in.plain {
				wit = htlcWitnessJSON(pre, []string{w.sign(k0, d, 0)})
			}
			if in.plain {
				wit = ""
				seenPlain = true
			}
			if in.sigAll {
				if !anySA && seenPlain {
					plainBefore = true
				}
				anySA = true
			}
			ps = append(ps, cashu.Proof{Amount: 1, Id: "00", Secret: sec, C: "02", Witness: wit})
			labels = append(labels, in.label)
		}
		// output variants: for lists of length <= 2 all shapes x {1,2 outputs}; otherwise a fixed handful
		var variants []struct {
			lbl  string
			outs cashu.BlindedMessages
		}
		addV := func(lbl string, outs cashu.BlindedMessages) {
			variants = append(variants, struct {
				lbl  string
				outs cashu.BlindedMessages
			}{lbl, outs})
		}
		addV("no-outputs", cashu.BlindedMessages{})
		use := shapes
		if len(lst) > 2 {
			use = []outShape{shapes[0], shapes[1], shapes[3], shapes[6], shapes[12]}
		}
		for _, sh := range use {
			for n := 1; n <= 2; n++ {
				var outs cashu.BlindedMessages
				for i := 0; i < n; i++ {
					outs = append(outs, sh.build(w, Bs[i], i))
				}
				addV(fmt.Sprintf("%s x%d", sh.label, n), outs)
			}
		}
		if len(lst) <= 2 {
			up := strings.ToUpper(Bs[0])
			addV("uppercase-B_", cashu.BlindedMessages{shapes[3].build(w, up, 0)})
			addV("nonhex-B_", cashu.BlindedMessages{shapes[3].build(w, "zz"+Bs[0][2:], 0)})
			addV("odd-B_", cashu.BlindedMessages{shapes[3].build(w, Bs[0][1:], 0)})
			addV("second-nonhex-B_", cashu.BlindedMessages{shapes[3].build(w, Bs[0], 0), shapes[3].build(w, "xy", 1)})
		}
		for _, v := range variants {
			cases = append(cases, &saCase{labels: labels, proofs: ps, anySA: anySA, plainBeforeSA: plainBefore, outsLbl: v.lbl, outs: v.outs})
		}
	}
	cases = append(cases, &saCase{labels: []string{}, proofs: cashu.Proofs{}, outsLbl: "no-outputs", outs: cashu.BlindedMessages{}})

	parallelDo(len(cases), func(i int) {
		cs := cases[i]
		func() {
			defer func() { recover() }()
			cs.implSA = nut11.ProofsSigAll(cs.proofs)
		}()
		cs.implOut = guardOutcome(func() error { return mint.VerifVerifyBlindedMessages(cs.proofs, cs.outs) })
	})
	var ops []Sx
	for _, cs := range cases {
		e := w.newEnv(now)
		ps := e.proofsSx(cs.proofs)
		kind := nut10.AnyoneCanSpend
		if len(cs.proofs) > 0 {
			kind = secretKindOf(cs.proofs[0].Secret)
		}
		outs := e.outputsSx(cs.outs, kind)
		env := e.Sx()
		ops = append(ops, L(A("spend.sigall"), ps), L(A("spend.outputs"), env, ps, outs))
	}
	ans := c.Drv.Batch(ops)
	for i, cs := range cases {
		lbl := strings.Join(cs.labels, ",")
		mSA, mOut := ans[2*i], ans[2*i+1]
		c.Case("sigall/"+lbl+"/"+cs.outsLbl+"/"+cs.implOut, true)
		c.Hist("sigall/ProofsSigAll", strconv.FormatBool(cs.implSA))
		c.Hist("sigall/verifyBlindedMessages", cs.implOut)
		replay := map[string]any{"inputs": cs.labels, "proofs": cs.proofs, "outputs": cs.outs, "now": now}
		if mSA != strconv.FormatBool(cs.implSA) {
			c.Disagree(props, Render(ops[2*i]), strconv.FormatBool(cs.implSA), mSA, replay)
		}
		if mOut != cs.implOut {
			c.Disagree(props, Render(ops[2*i+1]), cs.implOut, mOut, replay)
		}
		if i%1499 == 0 {
			c.Sample(map[string]any{"phase": "sigall", "inputs": lbl, "outputs": cs.outsLbl, "ProofsSigAll": cs.implSA, "verifyBlindedMessages": cs.implOut, "model": mOut})
		}
		// MONITOR (a): an input that carries SIG_ALL must be seen, wherever it sits
		if cs.anySA && !cs.implSA {
			sig := "C12/ProofsSigAll/missed"
			if cs.plainBeforeSA {
				sig = "C12/ProofsSigAll/plain-first"
			}
			what := "ProofsSigAll is false for inputs [" + lbl + "] although one of them carries SIG_ALL: the output check of Swap and the SIG_ALL refusal of MeltTokens are skipped"
			c.MonitorFail("C12", sig, what, replay)
			c.Hist("monitor-sigall", sig)
			if cs.outsLbl == "no-outputs" {
				saveFinding(sig, map[string]any{"finding": findingID(sig), "signature": sig, "what": what, "function": "nut11.ProofsSigAll",
					"inputs": cs.labels, "proofs": cs.proofs, "observed": cs.implSA, "expected": true})
			}
		} else {
			c.Hist("monitor-sigall", "agree")
		}
		// MONITOR (b): verifyBlindedMessages accepts  =>  what NUT-11 SIG_ALL demands (independent evaluation)
		want, why := nutSigAllOutputsOK(w, cs.proofs, cs.outs)
		accepted := cs.implOut == "ok"
		if accepted && !want && cs.anySA {
			sig, what := "C12/verifyBlindedMessages/accepts-unsigned", "verifyBlindedMessages accepted although "+why
			if strings.HasPrefix(why, "recount:") {
				sig = "C12/hasValidSignatures/last-key-recount"
			}
			c.MonitorFail("C12", sig, what, replay)
			c.Hist("monitor-outputs", sig)
		} else if !accepted && want {
			c.MonitorFail("C12", "C12/verifyBlindedMessages/rejects-signed", "verifyBlindedMessages rejected ("+cs.implOut+") correctly signed outputs of inputs ["+lbl+"] / "+cs.outsLbl, replay)
			c.Hist("monitor-outputs", "rejects-signed")
		} else {
			c.Hist("monitor-outputs", "agree")
		}
	}
}

// nutSigAllOutputsOK: the SIG_ALL rule of NUT-11 evaluated from the strings (never calling the repository's verifier):
// every input is a P2PK/HTLC secret with SIG_ALL and the same keys and threshold; every output has a decodable B_ and
// carries `threshold` signatures over sha256(decoded B_) from distinct listed keys (and, for HTLC, the preimage).
func nutSigAllOutputsOK(w *spendWorld, proofs cashu.Proofs, outs cashu.BlindedMessages) (bool, string) {
	if len(proofs) == 0 {
		return false, "there is no input"
	}
	type cnd struct {
		kind nut10.SecretKind
		keys []string // x-only identities do not matter here: the lists must be the same points in the same order
		need int
		data string
	}
	var first *cnd
	for i, p := range proofs {
		s, err := nut10.DeserializeSecret(p.Secret)
		if err != nil {
			return false, fmt.Sprintf("input %d is not a NUT-10 secret", i)
		}
		c := nutParse(s.Data.Tags)
		if !c.ok {
			return false, fmt.Sprintf("input %d has malformed tags", i)
		}
		if !c.sigAll || (s.Kind != nut10.P2PK && s.Kind != nut10.HTLC) {
			return false, fmt.Sprintf("input %d does not carry SIG_ALL", i)
		}
		keys := append([]string{}, c.pubkeys...)
		if s.Kind == nut10.P2PK {
			if !nutIsKey(s.Data.Data) {
				return false, fmt.Sprintf("input %d has no valid lock key", i)
			}
			keys = append(keys, s.Data.Data)
		}
		need := 1
		if c.nSigs > 0 {
			need = c.nSigs
		}
		cur := &cnd{s.Kind, keys, need, s.Data.Data}
		if first == nil {
			first = cur
			continue
		}
		if cur.need != first.need || len(cur.keys) != len(first.keys) {
			return false, fmt.Sprintf("input %d has another condition than input 0", i)
		}
		for j := range cur.keys {
			if w.keySym(cur.keys[j]) != w.keySym(first.keys[j]) {
				return false, fmt.Sprintf("input %d has other keys than input 0", i)
			}
		}
	}
	for i, o := range outs {
		d, ok := decodedDigest(o.B_)
		if !ok {
			return false, fmt.Sprintf("output %d has an undecodable B_", i)
		}
		if !witnessWellTyped(o.Witness, first.kind == nut10.HTLC) {
			return false, fmt.Sprintf("output %d has no witness", i)
		}
		sigs, pre := witnessFields(o.Witness)
		if first.kind == nut10.HTLC {
			pb, err := hex.DecodeString(pre)
			h := sha256.Sum256(pb)
			if err != nil || len(first.data) != 64 || hex.EncodeToString(h[:]) != first.data {
				return false, fmt.Sprintf("output %d does not carry the preimage", i)
			}
		}
		if hasDupString(sigs) {
			return false, fmt.Sprintf("output %d repeats a signature", i)
		}
		if w.maxMatching(sigs, first.keys, d) < first.need {
			if w.countWithRepetition(sigs, first.keys, d) >= first.need {
				return false, fmt.Sprintf("recount: output %d has %d signatures from only %d distinct listed keys (threshold %d)", i,
					w.countWithRepetition(sigs, first.keys, d), w.maxMatching(sigs, first.keys, d), first.need)
			}
			return false, fmt.Sprintf("output %d is not signed by %d distinct listed keys", i, first.need)
		}
	}
	return true, ""
}

// ---------------------------------------------------------------- helpers: AddSignatureToInputs / AddSignatureToOutputs

func witnessesSx(e *symEnv, ws []string, kind nut10.SecretKind) Sx {
	out := make([]Sx, len(ws))
	for i, x := range ws {
		out[i] = e.witnessSx(x, kind)
	}
	return Ls(out)
}

func runP2PKHelpers(c *Ctx, w *spendWorld, now int64) {
	props := []string{"C12"}
	k0, k1, rk, fk := w.keys[0], w.keys[1], w.keys[6], w.keys[9]
	signers := []struct {
		lbl string
		k   *spKey
	}{{"lock-key", k0}, {"cosigner", k1}, {"refund-key", rk}, {"foreign", fk}}
	idx := 0
	var ops []Sx
	var impls []string
	var opLbl []string
	ask := func(op Sx, impl string, lbl string) {
		ops = append(ops, op)
		impls = append(impls, impl)
		opLbl = append(opLbl, lbl)
	}
	for _, nsigs := range []int{-1, 1, 2} {
		for npk := 0; npk <= 1; npk++ {
			for lt := 0; lt <= 2; lt++ {
				for nref := 0; nref <= 1; nref++ {
					for _, flag := range []int{0, 2} {
						var pubs, refs []string
						if npk == 1 {
							pubs = []string{k1.hex}
						}
						if nref == 1 {
							refs = []string{rk.hex}
						}
						tags := lockTags(nsigs, pubs, lt, refs, flag, now)
						for _, sg := range signers {
							for nproofs := 1; nproofs <= 2; nproofs++ {
								idx++
								var ps cashu.Proofs
								for j := 0; j < nproofs; j++ {
									ps = append(ps, cashu.Proof{Amount: 1, Id: "00", C: "02",
										Secret: secretString(nut10.P2PK, fmt.Sprintf("4e%060x%02x", idx, j), k0.hex, tags)})
								}
								cfg := fmt.Sprintf("n=%d/pk=%d/lt=%d/r=%d/f=%d/%s/x%d", nsigs, npk, lt, nref, flag, sg.lbl, nproofs)
								// --- inputs
								signed, err := nut11.AddSignatureToInputs(append(cashu.Proofs{}, ps...), sg.k.priv)
								if err != nil {
									c.Disagree(props, "AddSignatureToInputs "+cfg, "error: "+err.Error(), "the model's helper cannot fail", nil)
									continue
								}
								e := w.newEnv(now)
								var signTab []Sx
								var ws []string
								kid := w.keySym(sg.k.hex)
								for _, p := range signed {
									d := secretDigest(p.Secret)
									signTab = append(signTab, L(I(kid), I(w.msgSym(d)), I(w.sigSym(w.sign(sg.k, d, 0)))))
									ws = append(ws, p.Witness)
								}
								plain := e.proofsSx(ps)
								ask(L(A("spend.help-in"), Ls(signTab), I(kid), plain), Render(witnessesSx(e, ws, nut10.P2PK)), "help-in")
								// every signed proof through the real verifier
								allOK := true
								for _, p := range signed {
									p := p
									impl := guardOutcome(func() error {
										s, _ := nut10.DeserializeSecret(p.Secret)
										return nut11.VerifyP2PKLockedProof(p, s)
									})
									e2 := w.newEnv(now)
									px := e2.proofSx(p)
									ask(L(A("spend.p2pk"), e2.Sx(), px), impl, "help-in-verify")
									if impl != "ok" {
										allOK = false
									}
								}
								// MONITOR helpers_accepted (inputs): the holder of an authorised key who needs one signature
								cnd := nutParse(tags)
								expired := cnd.locktime > 0 && now > cnd.locktime
								should := false
								if expired {
									should = len(cnd.refund) == 0 || sg.k == rk
								} else if cnd.nSigs <= 1 && !(cnd.nSigs > 0 && len(cnd.pubkeys) == 0) {
									should = sg.k == k0 || (cnd.nSigs == 1 && npk == 1 && sg.k == k1)
								}
								c.Case("helper-in/"+cfg+"/"+strconv.FormatBool(allOK), true)
								c.Hist("helpers/inputs", fmt.Sprintf("should=%v accepted=%v", should, allOK))
								if should && !allOK {
									c.MonitorFail("C12", "C12/AddSignatureToInputs/rejected", "the witness written by AddSignatureToInputs with an authorised key is rejected ("+cfg+")",
										map[string]any{"proofs": signed, "now": now})
								}
								// --- outputs (SIG_ALL)
								for _, bv := range []string{"ok", "upper", "nonhex"} {
									var outs cashu.BlindedMessages
									for j := 0; j < 2; j++ {
										B_ := w.keys[3+j].hex
										if bv == "upper" {
											B_ = strings.ToUpper(B_)
										}
										if bv == "nonhex" && j == 1 {
											B_ = "zz" + B_[2:]
										}
										outs = append(outs, cashu.BlindedMessage{Amount: 1, Id: "00", B_: B_})
									}
									var so cashu.BlindedMessages
									helperOut := guardOutcome(func() error {
										var err error
										so, err = nut11.AddSignatureToOutputs(append(cashu.BlindedMessages{}, outs...), sg.k.priv)
										return err
									})
									e3 := w.newEnv(now)
									var st []Sx
									for _, o := range outs {
										if d, ok := decodedDigest(o.B_); ok {
											st = append(st, L(I(kid), I(w.msgSym(d)), I(w.sigSym(w.sign(sg.k, d, 0)))))
										}
									}
									plainOuts := e3.outputsSx(outs, nut10.P2PK)
									implH := "(err built:B_)"
									if helperOut == "ok" {
										var ows []string
										for _, o := range so {
											ows = append(ows, o.Witness)
										}
										implH = Render(L(A("ok"), witnessesSx(e3, ows, nut10.P2PK)))
									} else if helperOut != "(err built:B_)" {
										implH = helperOut
									}
									ask(L(A("spend.help-out"), Ls(st), I(kid), plainOuts), implH, "help-out")
									if helperOut != "ok" {
										c.Hist("helpers/outputs", "helper failed: "+helperOut)
										continue
									}
									implV := guardOutcome(func() error { return mint.VerifVerifyBlindedMessages(signed, so) })
									e4 := w.newEnv(now)
									pxs := e4.proofsSx(signed)
									oxs := e4.outputsSx(so, nut10.P2PK)
									ask(L(A("spend.outputs"), e4.Sx(), pxs, oxs), implV, "help-out-verify")
									shouldO := flag == 2 && cnd.nSigs <= 1 && (sg.k == k0 || (npk == 1 && sg.k == k1))
									c.Case("helper-out/"+cfg+"/"+bv+"/"+implV, true)
									c.Hist("helpers/outputs", fmt.Sprintf("should=%v outcome=%s", shouldO, implV))
									if shouldO && implV != "ok" {
										c.MonitorFail("C12", "C12/AddSignatureToOutputs/rejected", "the output witness written by AddSignatureToOutputs with a listed key is rejected: "+implV+" ("+cfg+")",
											map[string]any{"proofs": signed, "outputs": so, "now": now})
									}
								}
							}
						}
					}
				}
			}
		}
	}
	ans := c.Drv.Batch(ops)
	for i := range ops {
		c.Hist("helpers/ops", opLbl[i])
		if ans[i] != impls[i] {
			c.Disagree(props, Render(ops[i]), impls[i], ans[i], nil)
		}
	}
}

// ---------------------------------------------------------------- regressions: the minimal witnesses of F6 and F7

func runP2PKRegressions(c *Ctx, w *spendWorld, now int64) {
	k0, k1 := w.keys[0], w.keys[1]
	// F6: lock key k0 + co-signer k1, threshold 3: k0, k1 and k1 again (another nonce) — two signers
	tags := [][]string{{"n_sigs", "3"}, {"pubkeys", k1.hex}}
	secret := secretString(nut10.P2PK, strings.Repeat("f6", 32), k0.hex, tags)
	d := secretDigest(secret)
	p := cashu.Proof{Amount: 1, Id: "00", C: "02", Secret: secret, Witness: witnessJSON([]string{w.sign(k0, d, 0), w.sign(k1, d, 0), w.sign(k1, d, 1)})}
	impl := guardOutcome(func() error {
		s, _ := nut10.DeserializeSecret(p.Secret)
		return nut11.VerifyP2PKLockedProof(p, s)
	})
	c.Case("regression/F6/"+impl, true)
	c.Hist("regression", "F6 3-of-2 -> "+impl)
	if impl == "ok" {
		c.MonitorFail("C12", "C12/hasValidSignatures/last-key-recount", "regression witness of F6 accepted: 3 signatures by 2 keys meet n_sigs=3",
			map[string]any{"secret": p.Secret, "witness": p.Witness})
	}
	e := w.newEnv(now)
	px := e.proofSx(p)
	if m := c.Drv.Ask(L(A("spend.p2pk"), e.Sx(), px)); m != impl {
		c.Disagree([]string{"C12"}, "regression F6", impl, m, nil)
	}
	// F7: [plain, SIG_ALL-locked] and [SIG_ALL-locked, plain]
	locked := cashu.Proof{Amount: 1, Id: "00", C: "02", Secret: secretString(nut10.P2PK, strings.Repeat("f7", 32), k0.hex, [][]string{{"sigflag", "SIG_ALL"}})}
	plain := cashu.Proof{Amount: 1, Id: "00", C: "02", Secret: strings.Repeat("ab", 32)}
	for _, ps := range []cashu.Proofs{{plain, locked}, {locked, plain}, {plain, plain, locked}} {
		got := nut11.ProofsSigAll(ps)
		c.Case(fmt.Sprintf("regression/F7/%d/%v", len(ps), got), true)
		c.Hist("regression", fmt.Sprintf("F7 locked at %d of %d -> %v", indexOfLocked(ps), len(ps), got))
		if !got {
			c.MonitorFail("C12", "C12/ProofsSigAll/plain-first", "regression witness of F7: ProofsSigAll([plain, SIG_ALL]) = false",
				map[string]any{"proofs": ps})
		}
		e := w.newEnv(now)
		if m := c.Drv.Ask(L(A("spend.sigall"), e.proofsSx(ps))); m != strconv.FormatBool(got) {
			c.Disagree([]string{"C12"}, "regression F7", strconv.FormatBool(got), m, nil)
		}
	}
}

func indexOfLocked(ps cashu.Proofs) int {
	for i, p := range ps {
		if strings.HasPrefix(p.Secret, "[") {
			return i
		}
	}
	return -1
}

// ---------------------------------------------------------------- ParseP2PKTags / PublicKeys / IsSigAll values, and the two stdlib models

func runP2PKParse(c *Ctx, w *spendWorld, now int64, cases []*spendCase, stdlib bool) {
	props := []string{"C12", "C13"}
	var ops []Sx
	var impls []string
	var lbls []string
	ask := func(op Sx, impl, lbl string) { ops = append(ops, op); impls = append(impls, impl); lbls = append(lbls, lbl) }
	keyIDs := func(ks []*btcec.PublicKey) Sx {
		out := make([]Sx, len(ks))
		for i, k := range ks {
			out[i] = I(w.keySym(hex.EncodeToString(k.SerializeCompressed())))
		}
		return Ls(out)
	}
	seen := map[string]bool{}
	for _, cs := range cases {
		if seen[cs.proof.Secret] {
			continue
		}
		seen[cs.proof.Secret] = true
		sec, err := nut10.DeserializeSecret(cs.proof.Secret)
		if err != nil {
			continue
		}
		e := w.newEnv(now)
		sx := e.secretSx(cs.proof.Secret)
		env := e.Sx()
		tagsSx := sx.(sxList)[3]
		// ParseP2PKTags: the parsed VALUES
		pt, err := nut11.ParseP2PKTags(sec.Data.Tags)
		impl := ""
		if err != nil {
			impl = "(err " + spendErrName(err) + ")"
		} else {
			impl = Render(L(A("ok"), L(A("tags"), S(pt.Sigflag), I(pt.NSigs), keyIDs(pt.Pubkeys), A(strconv.FormatInt(pt.Locktime, 10)), keyIDs(pt.Refund))))
		}
		ask(L(A("spend.tags"), env, tagsSx), impl, "ParseP2PKTags")
		// PublicKeys
		pks, err := nut11.PublicKeys(sec)
		if err != nil {
			impl = "(err " + spendErrName(err) + ")"
		} else {
			impl = Render(L(A("ok"), keyIDs(pks)))
		}
		ask(L(A("spend.pubkeys"), env, sx), impl, "PublicKeys")
		ask(L(A("spend.issigall"), sx), strconv.FormatBool(nut11.IsSigAll(sec)), "IsSigAll")
	}
	// strconv.ParseInt(s,10,8|64) and hex.DecodeString: the two standard-library functions the model re-implements
	r := c.Rng
	alphabet := []string{"0", "1", "9", "7", "-", "+", "_", " ", "a", "f", "F", "g", "x", ".", "e", "٣", "\x00", "12", "00", "128", "127", "9223372036854775807", "9223372036854775808"}
	n := 3000
	if c.Thorough {
		n = 40000
	}
	if !stdlib {
		n = 0
	}
	for i := 0; i < n; i++ {
		var sb strings.Builder
		for k := r.Intn(5); k >= 0; k-- {
			sb.WriteString(alphabet[r.Intn(len(alphabet))])
		}
		str := sb.String()
		if i%50 == 0 {
			str = ""
		}
		bits := []int{8, 64}[r.Intn(2)]
		v, err := strconv.ParseInt(str, 10, bits)
		impl := "err"
		if err == nil {
			impl = "(ok " + strconv.FormatInt(v, 10) + ")"
		}
		ask(L(A("spend.parseint"), S(str), I(bits)), impl, "strconv.ParseInt")
		b, err := hex.DecodeString(str)
		impl = "err"
		if err == nil {
			xs := make([]Sx, len(b))
			for j, x := range b {
				xs[j] = I(int(x))
			}
			impl = Render(L(A("ok"), Ls(xs)))
		}
		ask(L(A("spend.hex"), S(str)), impl, "hex.DecodeString")
	}
	ans := c.Drv.Batch(ops)
	for i := range ops {
		c.Case("parse/"+lbls[i]+"/"+strings.SplitN(impls[i], " ", 2)[0], i < 200000)
		c.Hist("parse/ops", lbls[i])
		if ans[i] != impls[i] {
			c.Disagree(props, Render(ops[i]), impls[i], ans[i], nil)
		}
	}
}
