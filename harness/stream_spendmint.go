package main

// Stream "spendmint" (C12, C13): the REAL Mint.Swap and Mint.MeltTokens (LoadMint on SQLite in the scratch directory,
// the repository's FakeBackend as Lightning client) on proofs that the mint itself issued for NUT-10 secrets, with the
// locked proof at every position among plain and other inputs, versus Model.Spend.swapSpendCheck / meltSpendCheck and
// versus the model-free SIG_ALL evaluator.  Everything around the spending conditions (amounts, BDHKE, storage) is
// valid by construction, so the only reason for a rejection is a spending condition.

import (
	"context"
	"crypto/sha256"
	"encoding/hex"
	"fmt"
	"path/filepath"
	"strconv"
	"strings"
	"time"

	"github.com/decred/dcrd/dcrec/secp256k1/v4"
	"github.com/elnosh/gonuts/cashu"
	"github.com/elnosh/gonuts/cashu/nuts/nut04"
	"github.com/elnosh/gonuts/cashu/nuts/nut05"
	"github.com/elnosh/gonuts/cashu/nuts/nut10"
	"github.com/elnosh/gonuts/crypto"
	"github.com/elnosh/gonuts/mint"
	"github.com/elnosh/gonuts/mint/lightning"
)

func init() {
	register("spendmint", []string{"C12", "C13"},
		"real Mint.Swap / Mint.MeltTokens on mint-issued proofs: every input list of length 1..3 over {plain, P2PK SIG_ALL (1-of-1), P2PK SIG_ALL (2-of-2), P2PK SIG_INPUTS, HTLC SIG_ALL} "+
			"plus the SIG_ALL proof at each position among up to 4 plain inputs and the F6/F7/F8 regression shapes, x 6 output-witness variants for Swap and one MeltTokens each; "+
			"class = (operation, input list, output variant, outcome)",
		runSpendMint)
}

type smInputKind struct {
	label  string
	plain  bool
	kind   nut10.SecretKind
	data   string
	tags   [][]string
	sigAll bool
	wit    func(w *spendWorld, secret string) string
	// ser rewrites the canonical serialisation of the secret into another JSON text of the same value (nil: canonical)
	ser func(string) string
}

type smCase struct {
	op      string // swap | melt
	labels  []string
	kinds   []int
	outsLbl string
	secrets []string
	proofs  cashu.Proofs
	outs    cashu.BlindedMessages
	anySA   bool
	impl    string
}

func runSpendMint(c *Ctx) {
	props := []string{"C12", "C13"}
	w := newSpendWorld(c.Rng.Fork(), 10)
	now := time.Now().Unix()
	k0, k1, fk := w.keys[0], w.keys[1], w.keys[9]
	pre := "c0ffee"
	pb, _ := hex.DecodeString(pre)
	ph := sha256.Sum256(pb)
	hash := hex.EncodeToString(ph[:])
	sigBy := func(ks ...*spKey) func(w *spendWorld, secret string) string {
		return func(w *spendWorld, secret string) string {
			d := secretDigest(secret)
			var s []string
			for _, k := range ks {
				s = append(s, w.sign(k, d, 0))
			}
			return witnessJSON(s)
		}
	}
	kindsTab := []smInputKind{
		{label: "plain", plain: true, wit: func(*spendWorld, string) string { return "" }},
		{label: "A1", kind: nut10.P2PK, data: k0.hex, tags: [][]string{{"sigflag", "SIG_ALL"}}, sigAll: true, wit: sigBy(k0)},
		{label: "A2", kind: nut10.P2PK, data: k0.hex, tags: [][]string{{"sigflag", "SIG_ALL"}, {"n_sigs", "2"}, {"pubkeys", k1.hex}}, sigAll: true, wit: sigBy(k0, k1)},
		{label: "I1", kind: nut10.P2PK, data: k0.hex, tags: [][]string{{"sigflag", "SIG_INPUTS"}}, wit: sigBy(k0)},
		{label: "H1", kind: nut10.HTLC, data: hash, tags: [][]string{{"sigflag", "SIG_ALL"}, {"n_sigs", "1"}, {"pubkeys", k0.hex}}, sigAll: true,
			wit: func(w *spendWorld, secret string) string {
				return htlcWitnessJSON(pre, []string{w.sign(k0, secretDigest(secret), 0)})
			}},
		// 5: P2PK input whose witness is missing; 6: the F6 shape (threshold 3, two keys, second key signs twice)
		{label: "I1-unsigned", kind: nut10.P2PK, data: k0.hex, tags: [][]string{{"sigflag", "SIG_INPUTS"}}, wit: func(*spendWorld, string) string { return "" }},
		{label: "F6", kind: nut10.P2PK, data: k0.hex, tags: [][]string{{"n_sigs", "3"}, {"pubkeys", k1.hex}},
			wit: func(w *spendWorld, secret string) string {
				d := secretDigest(secret)
				return witnessJSON([]string{w.sign(k0, d, 0), w.sign(k1, d, 0), w.sign(k1, d, 1)})
			}},
		// 7: HTLC without sigflag, threshold 2 with ONE key signed twice (F6, HTLC path)
		{label: "F6h", kind: nut10.HTLC, data: hash, tags: [][]string{{"n_sigs", "2"}, {"pubkeys", k0.hex}},
			wit: func(w *spendWorld, secret string) string {
				d := secretDigest(secret)
				return htlcWitnessJSON(pre, []string{w.sign(k0, d, 0), w.sign(k0, d, 1)})
			}},
		// 8..13: the same NUT-10 secrets in other JSON spellings of the same value (insignificant whitespace, an escaped
		// letter in the kind, other member order): whoever builds the locked output chooses the text, and the lock must hold
		{label: "I1-unsigned/lead-space", kind: nut10.P2PK, data: k0.hex, tags: [][]string{{"sigflag", "SIG_INPUTS"}}, wit: func(*spendWorld, string) string { return "" },
			ser: func(c string) string { return " " + c }},
		{label: "H-wrong-preimage/lead-newline", kind: nut10.HTLC, data: hash, tags: [][]string{{"pubkeys", k0.hex}},
			wit: func(w *spendWorld, secret string) string { return htlcWitnessJSON("00", []string{w.sign(k0, secretDigest(secret), 0)}) },
			ser: func(c string) string { return "\n\t " + c }},
		{label: "H-no-witness/escaped-kind", kind: nut10.HTLC, data: hash, tags: nil, wit: func(*spendWorld, string) string { return "" },
			ser: func(c string) string { return strings.Replace(c, `["HTLC"`, `["\u0048TLC"`, 1) }},
		{label: "I1-unsigned/inner-space", kind: nut10.P2PK, data: k0.hex, tags: [][]string{{"sigflag", "SIG_INPUTS"}}, wit: func(*spendWorld, string) string { return "" },
			ser: func(c string) string { return strings.Replace(strings.Replace(c, `["P2PK",`, "[ \"P2PK\" ,\r\n", 1), `}]`, "} ] ", 1) }},
		{label: "I1/lead-space", kind: nut10.P2PK, data: k0.hex, tags: [][]string{{"sigflag", "SIG_INPUTS"}}, wit: sigBy(k0),
			ser: func(c string) string { return " " + c }},
		{label: "H1/trail-space", kind: nut10.HTLC, data: hash, tags: [][]string{{"pubkeys", k0.hex}},
			wit: func(w *spendWorld, secret string) string { return htlcWitnessJSON(pre, []string{w.sign(k0, secretDigest(secret), 0)}) },
			ser: func(c string) string { return c + "\n" }},
	}
	var lists [][]int
	base := []int{0, 1, 2, 3, 4}
	for _, a := range base {
		lists = append(lists, []int{a})
		for _, b := range base {
			lists = append(lists, []int{a, b})
			for _, d := range base {
				if c.Thorough || (a+2*b+3*d)%3 == 0 || a == 0 || b == 0 || d == 0 {
					lists = append(lists, []int{a, b, d})
				}
			}
		}
	}
	lists = append(lists, []int{0, 0, 0, 1}, []int{0, 0, 1, 0}, []int{0, 1, 0, 0}, []int{1, 0, 0, 0}, []int{0, 0, 0, 4},
		[]int{5}, []int{1, 5}, []int{6}, []int{0, 6}, []int{7}, []int{3, 3, 3}, []int{1, 1, 1, 1},
		[]int{8}, []int{0, 8}, []int{9}, []int{9, 0}, []int{10}, []int{0, 10, 0}, []int{11}, []int{12}, []int{0, 12}, []int{13}, []int{13, 0})
	type outVariant struct {
		label string
		wit   func(B_ string, i int) string
	}
	dg := func(B_ string) [32]byte { d, _ := decodedDigest(B_); return d }
	variants := []outVariant{
		{"unsigned", func(string, int) string { return "" }},
		{"k0", func(B_ string, i int) string { return witnessJSON([]string{w.sign(k0, dg(B_), 0)}) }},
		{"k0+k1", func(B_ string, i int) string { return witnessJSON([]string{w.sign(k0, dg(B_), 0), w.sign(k1, dg(B_), 0)}) }},
		{"pre+k0", func(B_ string, i int) string { return htlcWitnessJSON(pre, []string{w.sign(k0, dg(B_), 0)}) }},
		{"foreign", func(B_ string, i int) string { return witnessJSON([]string{w.sign(fk, dg(B_), 0)}) }},
		{"k0-first-only", func(B_ string, i int) string {
			if i == 0 {
				return witnessJSON([]string{w.sign(k0, dg(B_), 0), w.sign(k1, dg(B_), 0)})
			}
			return ""
		}},
		{"k0-over-text", func(B_ string, i int) string { return witnessJSON([]string{w.sign(k0, sha256.Sum256([]byte(B_)), 0)}) }},
	}

	// ---- the mint
	fb := &lightning.FakeBackend{}
	m, err := mint.LoadMint(mint.Config{MintPath: filepath.Join(c.Scratch, "mint"), LightningClient: fb, LogLevel: mint.Disable})
	if err != nil {
		c.Disagree(props, "LoadMint", err.Error(), "", nil)
		return
	}
	ks := m.GetActiveKeyset()

	// ---- generate the cases (secrets first: all proofs are minted in one request)
	var cases []*smCase
	nonce := 0
	for _, lst := range lists {
		mk := func(op, outsLbl string) *smCase {
			cs := &smCase{op: op, outsLbl: outsLbl, kinds: lst}
			for _, a := range lst {
				in := kindsTab[a]
				nonce++
				var sec string
				if in.plain {
					sec = fmt.Sprintf("%064x", 0x5e0000000000+nonce)
				} else {
					sec = secretString(in.kind, fmt.Sprintf("%064x", nonce), in.data, in.tags)
					if in.ser != nil {
						sec = in.ser(sec)
					}
				}
				cs.secrets = append(cs.secrets, sec)
				cs.labels = append(cs.labels, in.label)
				cs.anySA = cs.anySA || in.sigAll
			}
			return cs
		}
		for _, v := range variants {
			cases = append(cases, mk("swap", v.label))
		}
		cases = append(cases, mk("melt", "-"))
	}
	const amt = uint64(4)
	var allSecrets []string
	for _, cs := range cases {
		allSecrets = append(allSecrets, cs.secrets...)
	}
	minted, err := smMint(m, ks.Id, ks.Keys[amt], c.Rng, allSecrets, amt)
	if err != nil {
		c.Disagree(props, "minting the input proofs", err.Error(), "", nil)
		return
	}
	c.Hist("sizes", fmt.Sprintf("proofs minted=%d", len(minted)))

	// ---- run
	var ops []Sx
	idx := 0
	vi := 0
	for _, cs := range cases {
		n := len(cs.secrets)
		for j := 0; j < n; j++ {
			p := minted[idx]
			idx++
			p.Witness = kindsTab[cs.kinds[j]].wit(w, p.Secret)
			cs.proofs = append(cs.proofs, p)
		}
		e := w.newEnv(now)
		if cs.op == "swap" {
			v := variants[vi%len(variants)]
			vi++
			outAmts := map[int][]uint64{1: {2, 2}, 2: {4, 4}, 3: {8, 4}, 4: {8, 8}}[n]
			for i, a := range outAmts {
				r, _ := secp256k1.GeneratePrivateKeyFromRand(c.Rng)
				B_, _, _ := crypto.BlindMessage(hex.EncodeToString(c.Rng.Bytes(32)), r)
				bs := hex.EncodeToString(B_.SerializeCompressed())
				cs.outs = append(cs.outs, cashu.BlindedMessage{Amount: a, Id: ks.Id, B_: bs, Witness: v.wit(bs, i)})
			}
			cs.impl = guardOutcome(func() error { _, err := m.Swap(cs.proofs, cs.outs); return err })
			px := e.proofsSx(cs.proofs)
			ox := e.outputsSx(cs.outs, secretKindOf(cs.proofs[0].Secret))
			ops = append(ops, L(A("spend.swap"), e.Sx(), px, ox))
		} else {
			req, _, _, err := lightning.CreateFakeInvoice(1, false)
			if err != nil {
				c.Disagree(props, "CreateFakeInvoice", err.Error(), "", nil)
				return
			}
			q, err := m.RequestMeltQuote(nut05.PostMeltQuoteBolt11Request{Request: req, Unit: "sat"})
			if err != nil {
				c.Disagree(props, "RequestMeltQuote", err.Error(), "", nil)
				return
			}
			cs.impl = guardOutcome(func() error {
				_, err := m.MeltTokens(context.Background(), nut05.PostMeltBolt11Request{Quote: q.Id, Inputs: cs.proofs})
				return err
			})
			px := e.proofsSx(cs.proofs)
			ops = append(ops, L(A("spend.melt"), e.Sx(), px))
		}
	}
	ans := c.Drv.Batch(ops)
	for i, cs := range cases {
		lbl := strings.Join(cs.labels, ",")
		c.Case(cs.op+"/"+lbl+"/"+cs.outsLbl+"/"+cs.impl, true)
		c.Hist(cs.op+"/outcome", cs.impl)
		replay := map[string]any{"op": cs.op, "inputs": cs.labels, "proofs": cs.proofs, "outputs": cs.outs, "now": now}
		if i%211 == 0 {
			c.Sample(map[string]any{"op": cs.op, "inputs": lbl, "outputs": cs.outsLbl, "impl": cs.impl, "model": ans[i]})
		}
		if ans[i] != cs.impl {
			c.Disagree(props, Render(ops[i]), cs.impl, ans[i], replay)
		}
		accepted := cs.impl == "ok"
		prop := "C12"
		for _, k := range cs.kinds {
			if kindsTab[k].kind == nut10.HTLC && !kindsTab[k].plain {
				prop = "C13"
			}
		}
		// MONITOR 1: an accepted operation spends only inputs that are spendable according to NUT-11/14
		if accepted {
			for j, p := range cs.proofs {
				in := kindsTab[cs.kinds[j]]
				if in.plain {
					continue
				}
				sigs, pp := witnessFields(p.Witness)
				ok := false
				if in.kind == nut10.P2PK {
					ok, _, _ = w.nutSpendableP2PK(in.data, in.tags, secretDigest(p.Secret), sigs, now)
				} else {
					ok, _, _ = w.nutSpendableHTLC(in.data, in.tags, secretDigest(p.Secret), sigs, pp, now)
				}
				if !ok {
					sig := prop + "/Mint." + strings.Title(cs.op) + "/spends-unspendable-input"
					if in.label == "F6" || in.label == "F6h" {
						sig = prop + "/hasValidSignatures/last-key-recount"
					}
					c.MonitorFail(prop, sig, "Mint "+cs.op+" accepted inputs ["+lbl+"] although input "+strconv.Itoa(j)+" is not spendable with its witness", replay)
				}
			}
		}
		// MONITOR 2 (SIG_ALL): swap accepted => outputs signed & one shared condition; melt never accepted
		plainBeforeSA := false
		for _, k := range cs.kinds {
			if kindsTab[k].sigAll {
				break
			}
			if kindsTab[k].plain {
				plainBeforeSA = true
			}
		}
		if cs.anySA && accepted {
			if cs.op == "melt" {
				sig := prop + "/MeltTokens/sigall-melted"
				if plainBeforeSA {
					sig = "C12/ProofsSigAll/plain-first"
				}
				c.MonitorFail(prop, sig, "MeltTokens accepted inputs ["+lbl+"] although one of them carries SIG_ALL", replay)
			} else if want, why := nutSigAllOutputsOK(w, cs.proofs, cs.outs); !want {
				sig := prop + "/Swap/sigall-outputs-unchecked"
				if plainBeforeSA {
					sig = "C12/ProofsSigAll/plain-first"
				}
				c.MonitorFail(prop, sig, "Swap accepted inputs ["+lbl+"] with outputs '"+cs.outsLbl+"' although "+why, replay)
			}
		}
		// MONITOR 3 (completeness for the honest holder): all inputs SIG_ALL with one condition and outputs signed => accepted
		if cs.op == "swap" && !accepted {
			allGood := true
			for _, k := range cs.kinds {
				if k >= 5 {
					allGood = false
				}
			}
			if want, _ := nutSigAllOutputsOK(w, cs.proofs, cs.outs); want && allGood {
				c.MonitorFail(prop, prop+"/Swap/rejects-signed", "Swap rejected ("+cs.impl+") correctly signed SIG_ALL inputs ["+lbl+"] / outputs '"+cs.outsLbl+"'", replay)
			}
		}
		c.Hist("monitor", "evaluated")
	}
	c.Res.Exhaustive = true
}

// smMint lets the mint issue one proof of `amt` for every secret (RequestMintQuote + MintTokens; the FakeBackend invoice
// counts as paid), and unblinds.
func smMint(m *mint.Mint, keysetId string, K *secp256k1.PublicKey, rng *Rng, secrets []string, amt uint64) (cashu.Proofs, error) {
	if K == nil {
		return nil, fmt.Errorf("keyset has no key for amount %d", amt)
	}
	q, err := m.RequestMintQuote(nut04.PostMintQuoteBolt11Request{Amount: amt * uint64(len(secrets)), Unit: "sat"})
	if err != nil {
		return nil, fmt.Errorf("RequestMintQuote: %v", err)
	}
	outs := make(cashu.BlindedMessages, len(secrets))
	rs := make([]*secp256k1.PrivateKey, len(secrets))
	for i, s := range secrets {
		r, err := secp256k1.GeneratePrivateKeyFromRand(rng)
		if err != nil {
			return nil, err
		}
		B_, _, err := crypto.BlindMessage(s, r)
		if err != nil {
			return nil, err
		}
		rs[i] = r
		outs[i] = cashu.NewBlindedMessage(keysetId, amt, B_)
	}
	var sigs cashu.BlindedSignatures
	for try := 0; try < 50; try++ {
		sigs, err = m.MintTokens(nut04.PostMintBolt11Request{Quote: q.Id, Outputs: outs})
		if err == nil {
			break
		}
		time.Sleep(20 * time.Millisecond) // the invoice watcher may still be writing PAID
	}
	if err != nil {
		return nil, fmt.Errorf("MintTokens: %v", err)
	}
	proofs := make(cashu.Proofs, len(secrets))
	for i, s := range secrets {
		cb, err := hex.DecodeString(sigs[i].C_)
		if err != nil {
			return nil, err
		}
		C_, err := secp256k1.ParsePubKey(cb)
		if err != nil {
			return nil, err
		}
		C := crypto.UnblindSignature(C_, rs[i], K)
		proofs[i] = cashu.Proof{Amount: amt, Id: keysetId, Secret: s, C: hex.EncodeToString(C.SerializeCompressed())}
	}
	return proofs, nil
}
