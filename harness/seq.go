package main

// Seq: a sequential history driver over a MintEnv. Every operation is (1) executed against the
// real mint, (2) canonicalised, (3) checked by the model-free property monitors, and
// (4) compared with the Lean model's outcome for the same symbolic op line.

import (
	"encoding/json"
	"net/http/httptest"
	"context"
	"encoding/hex"
	"errors"
	"fmt"
	"runtime"
	"sort"
	"strings"
	"time"

	"github.com/btcsuite/btcd/btcec/v2/schnorr"
	"github.com/decred/dcrd/dcrec/secp256k1/v4"
	"github.com/elnosh/gonuts/cashu"
	"github.com/elnosh/gonuts/cashu/nuts/nut04"
	"github.com/elnosh/gonuts/cashu/nuts/nut05"
	"github.com/elnosh/gonuts/cashu/nuts/nut07"
	"github.com/elnosh/gonuts/cashu/nuts/nut12"
	"github.com/elnosh/gonuts/cashu/nuts/nut20"
	"github.com/elnosh/gonuts/mint/storage"
)

// ---------------------------------------------------------------- error canonicalisation

var dynErrTags = []struct{ prefix, tag string }{
	{"unit '", "unit-not-supported"},
	{"invalid public key '", "bad-pubkey"},
	{"could not get mint balance", "db"},
	{"could not generate invoice", "ln"},
	{"error getting invoice status", "ln"},
	{"invalid C:", "bad-C-hex"},
	{"invalid B_:", "bad-B-hex"},
	{"invalid invoice", "bad-invoice"},
	{"invoice has no amount", "invoice-no-amount"},
	{"mpp for internal invoice", "mpp-internal"},
	{"mpp amount is not less", "mpp-not-less"},
	{"MPP is not supported", "mpp-unsupported"},
	{"malformed public key", "bad-point"},
	{"invalid public key:", "bad-point"},
	{"invalig sigflag", "bad-sigflag"},
	{"invalig n_sigs", "bad-nsigs"},
	{"invalid locktime", "bad-locktime"},
	{"invalid signature", "bad-signature"},
}

func canonErr(err error) Sx {
	var code int
	var detail string
	switch e := err.(type) {
	case cashu.Error:
		code, detail = int(e.Code), e.Detail
	case *cashu.Error:
		code, detail = int(e.Code), e.Detail
	default:
		return L(A("err"), I(0), S("raw"))
	}
	if code == int(cashu.DBErrCode) {
		return L(A("err"), I(code), S("db"))
	}
	if code == int(cashu.LightningBackendErrCode) {
		return L(A("err"), I(code), S("ln"))
	}
	for _, t := range dynErrTags {
		if strings.HasPrefix(detail, t.prefix) {
			return L(A("err"), I(code), S(t.tag))
		}
	}
	if code == int(cashu.StandardErrCode) && !knownDetail[detail] {
		// secp256k1 parse errors and the like
		return L(A("err"), I(code), S("bad-point"))
	}
	return L(A("err"), I(code), S(detail))
}

var knownDetail = map[string]bool{}

func init() {
	for _, e := range []cashu.Error{cashu.StandardErr, cashu.EmptyBodyErr, cashu.InvalidBlindedMessageAmount, cashu.InvalidProofAmount,
		cashu.OutputsOverQuoteAmountErr} {
		knownDetail[e.Detail] = true
	}
}

// ---------------------------------------------------------------- harness-side records

type HProof struct {
	P        cashu.Proof
	SecretId int
	KsIdx    int
	Amount   uint64 // the amount it was signed for
	Long     bool
	// ghost
	ConsumedBy []string // successful operations that took it as input
	LockedBy   int      // melt quote sym id + 1 while locked in a pending melt, else 0
	Witness    string
}

type HMintQ struct {
	Id       string
	Sym      int
	Amount   uint64
	Hash     string
	HashSym  int
	Key      *secp256k1.PrivateKey
	KeySym   int
	Payments int // external settlement (max 1) + internal settlements
	Issued   int // successful issuances
	IssuedAmt uint64
}

type HMeltQ struct {
	Id      string
	Sym     int
	Inv     *lnInvoice
	Amount  uint64
	Reserve uint64
	IsMpp   bool
	Msat    uint64
	Inputs  []*HProof // inputs of the in-flight / last melt
	Last    []*HProof // inputs of the last accepted melt (kept after it is resolved: adversarial re-spend attempts)
	// expected (by the property text) state after the last Lightning answer
	Expect string // UNPAID | PENDING | PAID
	Internal bool
}

type Seq struct {
	c     *Ctx
	env   *MintEnv
	model bool
	props []string
	// symbols
	secretSym map[string]int
	bSym      map[string]int
	keySym    map[string]int
	witnessSym map[string]int
	nDleq     int
	// ghost state
	proofs    []*HProof
	bySecret  map[string]*HProof
	mintQs    []*HMintQ
	meltQs    []*HMeltQ
	sigsSeen  map[string]cashu.BlindedSignature // B_ -> signature as first returned
	sigOrder  []string
	issuedByKs   map[string]uint64
	redeemedByKs map[string]uint64
	lnInMsat  uint64
	hugeIn    bool // an invoice beyond 2^40 sat was settled: 64-bit ledger arithmetic no longer applies
	opIndex   int
	conc      *Conc    // non-nil while operations run as scheduled threads
	log       []string // op lines so far (replay)
	lastLnCall int
}

func NewSeq(c *Ctx, env *MintEnv, model bool, props []string) *Seq {
	s := &Seq{c: c, env: env, model: model, props: props, secretSym: map[string]int{}, bSym: map[string]int{}, keySym: map[string]int{},
		witnessSym: map[string]int{"": 0}, bySecret: map[string]*HProof{}, sigsSeen: map[string]cashu.BlindedSignature{},
		issuedByKs: map[string]uint64{}, redeemedByKs: map[string]uint64{}}
	return s
}

func (s *Seq) symSecret(sec string) int {
	if v, ok := s.secretSym[sec]; ok {
		return v
	}
	v := len(s.secretSym)
	s.secretSym[sec] = v
	return v
}
func (s *Seq) symB(b string) int {
	if v, ok := s.bSym[b]; ok {
		return v
	}
	v := len(s.bSym)
	s.bSym[b] = v
	return v
}
func (s *Seq) symWitness(w string) int {
	if v, ok := s.witnessSym[w]; ok {
		return v
	}
	v := len(s.witnessSym)
	s.witnessSym[w] = v
	return v
}

func (s *Seq) replay() any {
	n := len(s.log)
	from := 0
	if n > 400 {
		from = n - 400
	}
	return map[string]any{"seed": s.c.Seed, "op_index": s.opIndex, "ops": s.log[from:]}
}

// ---------------------------------------------------------------- symbolisation of requests

func (s *Seq) sxKs(id string) Sx {
	if idx, ok := s.env.ksIdx[id]; ok {
		return L(A("k"), I(idx))
	}
	return L(A("u"), I(s.symWitness("ks:"+id)))
}

// CInfo tells the model what a C string is, by provenance.
type CInfo struct {
	Kind string // sig | other | nonhex | nonpoint
	Ks   int
	Amt  uint64
	Sec  int
	Tag  int
	Enc  int
}

func (ci CInfo) sx() Sx {
	switch ci.Kind {
	case "sig":
		return L(A("sig"), I(ci.Ks), N(ci.Amt), I(ci.Sec))
	default:
		return L(A(ci.Kind), I(ci.Tag))
	}
}

type ReqProof struct {
	P    cashu.Proof
	C    CInfo
	Long bool
	Dleq int
	H    *HProof // the genuine proof this was derived from (nil for forgeries)
}

func (s *Seq) sxProof(rp ReqProof) Sx {
	lock := A("plain")
	return L(N(rp.P.Amount), s.sxKs(rp.P.Id), I(s.symSecret(rp.P.Secret)), B(len(rp.P.Secret) > 512), rp.C.sx(), I(rp.C.Enc),
		I(s.symWitness(rp.P.Witness)), I(rp.Dleq), lock)
}

type ReqOut struct {
	BM   cashu.BlindedMessage
	Kind string // pt | nonhex | nonpoint
	O    *Output
}

func (s *Seq) sxOut(ro ReqOut) Sx {
	var b Sx
	switch ro.Kind {
	case "pt":
		b = L(A("pt"), I(s.symB(ro.BM.B_)))
	default:
		b = L(A(ro.Kind), I(s.symB(ro.BM.B_)))
	}
	return L(N(ro.BM.Amount), s.sxKs(ro.BM.Id), b, I(s.symWitness(ro.BM.Witness)))
}

func (s *Seq) sxProofs(ps []ReqProof) Sx {
	xs := make([]Sx, len(ps))
	for i, p := range ps {
		xs[i] = s.sxProof(p)
	}
	return Ls(xs)
}
func (s *Seq) sxOuts(os []ReqOut) Sx {
	xs := make([]Sx, len(os))
	for i, o := range os {
		xs[i] = s.sxOut(o)
	}
	return Ls(xs)
}

func (s *Seq) sxSigs(sigs cashu.BlindedSignatures, outs []ReqOut) Sx {
	xs := make([]Sx, len(sigs))
	for i, sg := range sigs {
		b := -1
		if i < len(outs) {
			b = s.symB(outs[i].BM.B_)
		}
		xs[i] = L(N(sg.Amount), I(s.env.ksIdx[sg.Id]), I(b))
	}
	return L(A("ok"), Ls(xs))
}

// ---------------------------------------------------------------- running one op (with trace, panic capture, model compare)

type opResult struct {
	out    Sx
	panicv any
	trace  []string
	ln     []LnCall
}

func (s *Seq) runOp(name string, line Sx, script []string, f func() Sx) opResult {
	if s.conc != nil {
		return s.runOpConc(name, line, f)
	}
	s.opIndex++
	s.log = append(s.log, Render(line))
	s.env.DB.ResetTrace()
	s.env.LN.mu.Lock()
	s.env.LN.script = append([]string(nil), script...)
	lnStart := len(s.env.LN.Calls)
	s.env.LN.mu.Unlock()
	var res opResult
	func() {
		defer func() {
			if r := recover(); r != nil {
				res.panicv = r
				res.out = L(A("panic"))
			}
		}()
		res.out = f()
	}()
	res.trace = s.env.DB.ResetTrace()
	s.env.LN.mu.Lock()
	res.ln = append([]LnCall(nil), s.env.LN.Calls[lnStart:]...)
	s.env.LN.script = nil
	s.env.LN.mu.Unlock()
	s.c.Hist("op", name)
	outS := Render(res.out)
	kind := outS
	if len(kind) > 48 {
		kind = kind[:48]
	}
	if strings.HasPrefix(outS, "(ok") {
		kind = "ok"
	}
	s.c.Hist("outcome", name+" "+kind)
	s.c.Case(name+"|"+kind, true)
	if res.panicv != nil {
		s.c.MonitorFail("C06", "C06/panic/"+name+"/"+panicSig(res.panicv), fmt.Sprintf("%s panicked: %v", name, res.panicv), s.replay())
	}
	// C20: a request handler hands the error of the Mint method to writeErr, which marshals it: anything that is not a
	// cashu.Error becomes the body `{}` (no detail, no code).  The balance accessors are not behind a handler.
	if outS == `(err 0 "raw")` && name != "balance" && name != "rotate" && name != "restart" {
		s.c.MonitorFail("C20", "C20/error-shape/"+name+"/not-a-cashu-error", name+" was refused with an error that is not a cashu.Error: over HTTP the answer is the body {} without detail and code", s.replay())
	}
	if s.model {
		lnc := res.ln
		if name == "checkstate" {
			// the Go iterates pending quotes in map order: compare the calls as a set ordered by hash
			lnc = append([]LnCall(nil), res.ln...)
			sort.SliceStable(lnc, func(i, j int) bool { return lnc[i].Hash < lnc[j].Hash })
		}
		lnx := make([]Sx, len(lnc))
		for i, c := range lnc {
			lnx[i] = L(A(c.Kind), I(c.Hash), N(c.Msat), N(c.MaxFee), A(c.Answer))
		}
		tr := make([]Sx, len(res.trace))
		for i, t := range res.trace {
			tr[i] = A(t)
		}
		impl := Render(L(res.out, Ls(tr), Ls(lnx)))
		model := s.c.Drv.Ask(line)
		if model != impl {
			s.c.Disagree(s.props, Render(line), impl, model, s.replay())
		}
	}
	return res
}

// runOpConc: the operation runs inside a scheduled thread: its calls stop at the gate, the model is stepped by the
// scheduler (conc.go), the outcome is compared when the thread finishes.
func (s *Seq) runOpConc(name string, line Sx, f func() Sx) opResult {
	t := s.conc.cur
	s.opIndex++
	t.name, t.line = name, line
	s.env.LN.mu.Lock()
	lnStart := len(s.env.LN.Calls)
	s.env.LN.mu.Unlock()
	var res opResult
	s.env.Gate.register(t.gt)
	func() {
		defer func() {
			if r := recover(); r != nil {
				res.panicv = r
				res.out = L(A("panic"))
			}
		}()
		res.out = f()
	}()
	s.env.Gate.unregister()
	t.out = res.out
	s.env.LN.mu.Lock()
	for _, c := range s.env.LN.Calls[lnStart:] {
		if c.Thread == t.id {
			res.ln = append(res.ln, c)
		}
	}
	s.env.LN.mu.Unlock()
	s.c.Hist("op", "conc-"+name)
	kind := Render(res.out)
	if len(kind) > 48 {
		kind = kind[:48]
	}
	if isOk(res.out) {
		kind = "ok"
	}
	s.c.Hist("outcome", "conc-"+name+" "+kind)
	if res.panicv != nil {
		s.c.MonitorFail("C06", "C06/panic/"+name+"/"+panicSig(res.panicv), fmt.Sprintf("%s panicked: %v", name, res.panicv), s.replay())
	}
	return res
}

func panicSig(v any) string {
	m := fmt.Sprint(v)
	switch {
	case strings.Contains(m, "negative Repeat count"):
		return "negative-repeat"
	case strings.Contains(m, "index out of range"):
		return "index-out-of-range"
	case strings.Contains(m, "nil pointer"):
		return "nil-deref"
	case strings.Contains(m, "slice bounds"):
		return "slice-bounds"
	}
	if len(m) > 30 {
		m = m[:30]
	}
	return m
}

// ---------------------------------------------------------------- snapshots (direct storage reads; no Lightning polls)

type snapshot struct {
	spent   map[string]string // Y -> witness
	pending map[string]string // Y -> quote id
	sigs    map[string]string // B_ -> "amount/id/C_"
	mintQ   map[string]string
	meltQ   map[string]string
	issued  map[string]uint64
	redeem  map[string]uint64
}

func (s *Seq) allYs() ([]string, map[string]string) {
	ys := make([]string, 0, len(s.secretSym))
	back := map[string]string{}
	for sec := range s.secretSym {
		y := YOf(sec)
		ys = append(ys, y)
		back[y] = sec
	}
	sort.Strings(ys)
	return ys, back
}

func (s *Seq) snap() snapshot {
	db := s.env.DB.inner
	sn := snapshot{spent: map[string]string{}, pending: map[string]string{}, sigs: map[string]string{}, mintQ: map[string]string{}, meltQ: map[string]string{}}
	ys, _ := s.allYs()
	if len(ys) > 0 {
		if rows, err := db.GetProofsUsed(ys); err == nil {
			for _, r := range rows {
				sn.spent[r.Y] = r.Witness
			}
		}
		if rows, err := db.GetPendingProofs(ys); err == nil {
			for _, r := range rows {
				sn.pending[r.Y] = r.MeltQuoteId
			}
		}
	}
	for b := range s.bSym {
		if sg, err := db.GetBlindSignature(b); err == nil {
			sn.sigs[b] = fmt.Sprintf("%d/%s/%s", sg.Amount, sg.Id, sg.C_)
		}
	}
	for _, q := range s.mintQs {
		if mq, err := db.GetMintQuote(q.Id); err == nil {
			sn.mintQ[q.Id] = mq.State.String()
		}
	}
	for _, q := range s.meltQs {
		if mq, err := db.GetMeltQuote(q.Id); err == nil {
			sn.meltQ[q.Id] = mq.State.String() + "/" + mq.Preimage
		}
	}
	sn.issued, _ = db.GetIssuedEcash()
	sn.redeem, _ = db.GetRedeemedEcash()
	return sn
}

func diffSnap(a, b snapshot, allowPaid map[string]bool) string {
	cmp := func(name string, x, y map[string]string) string {
		for k, v := range x {
			if w, ok := y[k]; !ok || w != v {
				return fmt.Sprintf("%s[%s]: %q -> %q", name, short(k), v, y[k])
			}
		}
		for k, v := range y {
			if _, ok := x[k]; !ok {
				return fmt.Sprintf("%s[%s]: absent -> %q", name, short(k), v)
			}
		}
		return ""
	}
	if d := cmp("spent", a.spent, b.spent); d != "" {
		return d
	}
	if d := cmp("pending", a.pending, b.pending); d != "" {
		return d
	}
	if d := cmp("sigs", a.sigs, b.sigs); d != "" {
		return d
	}
	for k, v := range a.mintQ {
		if w := b.mintQ[k]; w != v {
			if v == "UNPAID" && w == "PAID" && allowPaid[k] {
				continue
			}
			return fmt.Sprintf("mintquote[%s]: %s -> %s", short(k), v, w)
		}
	}
	if d := cmp("meltquote", a.meltQ, b.meltQ); d != "" {
		return d
	}
	for k, v := range a.issued {
		if b.issued[k] != v {
			return fmt.Sprintf("issued[%s]: %d -> %d", k, v, b.issued[k])
		}
	}
	for k, v := range b.redeem {
		if a.redeem[k] != v {
			return fmt.Sprintf("redeemed[%s]: %d -> %d", k, a.redeem[k], v)
		}
	}
	return ""
}

func short(s string) string {
	if len(s) > 10 {
		return s[:10]
	}
	return s
}

func isErr(out Sx) bool { return strings.HasPrefix(Render(out), "(err") }
func isOk(out Sx) bool  { return strings.HasPrefix(Render(out), "(ok") }

// ---------------------------------------------------------------- operations

// OpMintQuote requests a mint quote. pkMode: 0 none, 1 valid key, 2 invalid key string.
func (s *Seq) OpMintQuote(amount uint64, unit string, pkMode int, lnFail bool) *HMintQ {
	req := nut04.PostMintQuoteBolt11Request{Amount: amount, Unit: unit}
	var key *secp256k1.PrivateKey
	pk := A("none")
	switch pkMode {
	case 1:
		key = secp256k1.PrivKeyFromBytes(s.c.Rng.Bytes(32))
		req.Pubkey = hex.EncodeToString(key.PubKey().SerializeCompressed())
		if _, ok := s.keySym[req.Pubkey]; !ok {
			s.keySym[req.Pubkey] = len(s.keySym)
		}
		pk = L(A("key"), I(s.keySym[req.Pubkey]))
	case 2:
		req.Pubkey = []string{"zz", "02ab", hex.EncodeToString(s.c.Rng.Bytes(33))}[s.c.Rng.Intn(3)]
		pk = A("bad")
	}
	line := L(A("mint.mintquote"), N(amount), A(unitAtom(unit)), pk, B(lnFail))
	before := s.snap()
	balBefore, balErr := s.env.M.TotalBalance()
	var hq *HMintQ
	res := s.runOp("mintquote", line, nil, func() Sx {
		if lnFail {
			s.env.LN.mu.Lock()
			s.env.LN.failNext["CreateInvoice"] = 1
			s.env.LN.mu.Unlock()
		}
		q, err := s.env.M.RequestMintQuote(req)
		s.env.LN.mu.Lock()
		s.env.LN.failNext["CreateInvoice"] = 0
		s.env.LN.mu.Unlock()
		if err != nil {
			return canonErr(err)
		}
		li := s.env.LN.byHash[q.PaymentHash]
		hs := -1
		if li != nil {
			hs = li.id
		}
		// the watcher goroutine started by RequestMintQuote reads the quote back and subscribes: wait for it so
		// that its storage call lands in this operation's trace
		deadline := time.Now().Add(3 * time.Second)
		for {
			s.env.LN.mu.Lock()
			n := len(s.env.LN.subs[q.PaymentHash])
			s.env.LN.mu.Unlock()
			if n > 0 || time.Now().After(deadline) {
				break
			}
			time.Sleep(200 * time.Microsecond)
		}
		hq = &HMintQ{Id: q.Id, Sym: s.env.symMintQ(q.Id), Amount: q.Amount, Hash: q.PaymentHash, HashSym: hs, Key: key}
		if key != nil {
			hq.KeySym = s.keySym[req.Pubkey]
		}
		s.mintQs = append(s.mintQs, hq)
		return L(A("ok"), I(hq.Sym), N(q.Amount), I(hs), A(q.State.String()))
	})
	// C16 monitor: limits (natural-number arithmetic)
	lim := s.env.Opts.Limits
	if isOk(res.out) && balErr == nil {
		if lim.MintingSettings.MaxAmount > 0 && amount > lim.MintingSettings.MaxAmount {
			s.c.MonitorFail("C16", "C16/mintquote/over-max-amount", fmt.Sprintf("mint quote for %d accepted above max %d", amount, lim.MintingSettings.MaxAmount), s.replay())
		}
		if lim.MaxBalance > 0 && (amount > lim.MaxBalance || balBefore > lim.MaxBalance-amount) {
			s.c.MonitorFail("C16", "C16/mintquote/over-max-balance", fmt.Sprintf("mint quote for %d accepted: balance %d max %d", amount, balBefore, lim.MaxBalance), s.replay())
		}
	}
	if isErr(res.out) {
		s.checkNoChange("mintquote", before, nil)
	}
	return hq
}

func unitAtom(u string) string {
	if u == "sat" {
		return "sat"
	}
	return "other"
}

// checkNoChange: C06 monitor — a refused request leaves the observable state as it was.
func (s *Seq) checkNoChange(op string, before snapshot, allowPaid map[string]bool) {
	if s.conc != nil {
		return // other threads run in between
	}
	after := s.snap()
	if d := diffSnap(before, after, allowPaid); d != "" {
		s.c.MonitorFail("C06", "C06/rejected-changed/"+op+"/"+strings.SplitN(d, "[", 2)[0], "rejected "+op+" changed state: "+d, s.replay())
	}
}

// Settle marks an invoice as paid from outside (the payer's node settled it). Not a mint call.
func (s *Seq) Settle(q *HMintQ) {
	li := s.env.LN.byHash[q.Hash]
	if li == nil {
		return
	}
	s.log = append(s.log, Render(L(A("mint.settle"), I(q.HashSym))))
	if !li.settled {
		li.settled = true
		q.Payments++
		if li.huge {
			s.hugeIn = true
		} else {
			s.lnInMsat += li.msat
		}
	}
	if s.model {
		if m := s.c.Drv.Ask(L(A("mint.settle"), I(q.HashSym))); m != "(ok)" {
			s.c.Disagree(s.props, "mint.settle", "(ok)", m, s.replay())
		}
	}
}

// Notify delivers the backend's asynchronous "invoice settled" notification for the quote and waits
// until the watcher goroutine has finished reacting to it (its two goroutines have exited).
func (s *Seq) Notify(q *HMintQ) {
	line := L(A("mint.notify"), I(q.Sym))
	s.runOp("notify", line, nil, func() Sx {
		before := runtime.NumGoroutine()
		n := s.env.LN.Notify(q.Hash)
		if n == 0 {
			return L(A("ok"), A("no-subscriber"))
		}
		deadline := time.Now().Add(3 * time.Second)
		for runtime.NumGoroutine() > before-2 && time.Now().Before(deadline) {
			time.Sleep(200 * time.Microsecond)
		}
		s.env.DB.mu.Lock()
		wrote := false
		for _, t := range s.env.DB.Trace {
			if t == "db.UpdateMintQuoteState" {
				wrote = true
			}
		}
		s.env.DB.mu.Unlock()
		if wrote {
			return L(A("ok"), A("wrote"))
		}
		return L(A("ok"), A("no-write"))
	})
	s.afterOp()
}

func (s *Seq) OpQuoteState(q *HMintQ, lnFail bool) string {
	line := L(A("mint.quotestate"), I(q.Sym), B(lnFail))
	st := ""
	s.runOp("quotestate", line, nil, func() Sx {
		if lnFail {
			s.env.LN.mu.Lock()
			s.env.LN.failNext["InvoiceStatus"] = 1
			s.env.LN.mu.Unlock()
		}
		mq, err := s.env.M.GetMintQuoteState(q.Id)
		s.env.LN.mu.Lock()
		s.env.LN.failNext["InvoiceStatus"] = 0
		s.env.LN.mu.Unlock()
		if err != nil {
			return canonErr(err)
		}
		st = mq.State.String()
		return L(A("ok"), A(st))
	})
	s.afterOp()
	return st
}

func (s *Seq) OpQuoteStateUnknown() {
	line := L(A("mint.quotestate"), I(-1), B(false))
	s.runOp("quotestate", line, nil, func() Sx {
		_, err := s.env.M.GetMintQuoteState(hex.EncodeToString(s.c.Rng.Bytes(32)))
		if err != nil {
			return canonErr(err)
		}
		return L(A("ok"), A("?"))
	})
}

// sigMode: 0 none, 1 honest, 2 garbage hex, 3 wrong key, 4 signed other output order, 5 signed other quote, 6 non-hex
func (s *Seq) OpMint(q *HMintQ, outs []ReqOut, sigMode int) cashu.BlindedSignatures {
	req := nut04.PostMintBolt11Request{Quote: q.Id}
	for _, o := range outs {
		req.Outputs = append(req.Outputs, o.BM)
	}
	sigSx := Sx(A("none"))
	signWith := func(key *secp256k1.PrivateKey, quote string, bms cashu.BlindedMessages) string {
		sg, err := nut20.SignMintQuote(key, quote, bms)
		if err != nil {
			return ""
		}
		return hex.EncodeToString(sg.Serialize())
	}
	bids := func(bms cashu.BlindedMessages) Sx {
		xs := make([]Sx, len(bms))
		for i, b := range bms {
			xs[i] = I(s.symB(b.B_))
		}
		return Ls(xs)
	}
	switch sigMode {
	case 1:
		if q.Key != nil {
			req.Signature = signWith(q.Key, q.Id, req.Outputs)
			sigSx = L(A("s"), I(q.KeySym), I(q.Sym), bids(req.Outputs))
		}
	case 2:
		req.Signature = hex.EncodeToString(s.c.Rng.Bytes(64))
		sigSx = A("garbage")
	case 3:
		k := secp256k1.PrivKeyFromBytes(s.c.Rng.Bytes(32))
		req.Signature = signWith(k, q.Id, req.Outputs)
		sigSx = L(A("s"), I(1000000+s.c.Rng.Intn(1000)), I(q.Sym), bids(req.Outputs))
	case 4:
		if q.Key != nil && len(req.Outputs) >= 2 {
			rev := make(cashu.BlindedMessages, len(req.Outputs))
			for i, b := range req.Outputs {
				rev[len(rev)-1-i] = b
			}
			req.Signature = signWith(q.Key, q.Id, rev)
			sigSx = L(A("s"), I(q.KeySym), I(q.Sym), bids(rev))
		}
	case 5:
		if q.Key != nil {
			other := hex.EncodeToString(s.c.Rng.Bytes(32))
			req.Signature = signWith(q.Key, other, req.Outputs)
			sigSx = L(A("s"), I(q.KeySym), I(-2), bids(req.Outputs))
		}
	case 6:
		req.Signature = "zz" + hex.EncodeToString(s.c.Rng.Bytes(8))
		sigSx = A("garbage")
	}
	line := L(A("mint.mint"), I(q.Sym), s.sxOuts(outs), sigSx)
	before := s.snap()
	li := s.env.LN.byHash[q.Hash]
	settled := li != nil && li.settled
	var sigs cashu.BlindedSignatures
	res := s.runOp("mint", line, nil, func() Sx {
		var err error
		sigs, err = s.env.M.MintTokens(req)
		if err != nil {
			return canonErr(err)
		}
		return s.sxSigs(sigs, outs)
	})
	if isErr(res.out) {
		s.checkNoChange("mint", before, map[string]bool{q.Id: settled})
	}
	if isOk(res.out) {
		q.Issued++
		var sum uint64
		for _, sg := range sigs {
			sum += sg.Amount
		}
		q.IssuedAmt += sum
		// C03 / C02 monitors
		if s.conc == nil {
			s.checkIssued(q)
		}
		if sum > q.Amount {
			s.c.MonitorFail("C02", "C02/mint/outputs-over-quote", fmt.Sprintf("issued %d for a quote of %d", sum, q.Amount), s.replay())
		}
		if q.Key != nil && sigMode != 1 {
			s.c.MonitorFail("C03", fmt.Sprintf("C03/nut20/accepted-sigmode-%d", sigMode), "NUT-20 locked quote issued without the valid signature", s.replay())
		}
		s.recordSigs(outs, sigs, "mint")
	}
	s.afterOp()
	return sigs
}

// checkIssued: C03 monitor — a quote is issued at most as often as it was paid.  Under a schedule the comparison is
// made once all threads have finished (a concurrent internal settlement counts its payment when it returns).
func (s *Seq) checkIssued(q *HMintQ) {
	if q.Issued > q.Payments {
		s.c.MonitorFail("C03", fmt.Sprintf("C03/issued-more-than-paid/issuance-%d-payments-%d", q.Issued, q.Payments),
			fmt.Sprintf("mint quote issued %d times for %d payment(s) (amount %d, issued total %d)", q.Issued, q.Payments, q.Amount, q.IssuedAmt), s.replay())
	}
}

func (s *Seq) recordSigs(outs []ReqOut, sigs cashu.BlindedSignatures, op string) {
	if len(sigs) != len(outs) {
		s.c.MonitorFail("C15", "C15/sig-count", fmt.Sprintf("%s returned %d signatures for %d outputs", op, len(sigs), len(outs)), s.replay())
		return
	}
	for i, sg := range sigs {
		b := outs[i].BM.B_
		if _, dup := s.sigsSeen[b]; dup {
			s.c.MonitorFail("C15", "C15/b-signed-twice", "a blinded message was signed twice", s.replay())
		} else {
			s.sigsSeen[b] = sg
			s.sigOrder = append(s.sigOrder, b)
		}
		s.issuedByKs[sg.Id] += sg.Amount
		if sg.Amount != outs[i].BM.Amount {
			s.c.MonitorFail("C02", "C02/sig-amount-differs", "signature amount differs from output amount", s.replay())
		}
		if sg.Id != s.env.ActiveKeysetId() {
			s.c.MonitorFail("C09", "C09/signed-on-inactive", "signature produced on a keyset that is not the active one", s.replay())
		}
		// C10 (history part): the DLEQ the mint attaches verifies under the published key
		ks, err := s.env.M.GetKeysetById(sg.Id)
		if err == nil && sg.DLEQ != nil {
			if K, ok := ks.Keys[sg.Amount]; ok {
				if !nut12.VerifyBlindSignatureDLEQ(*sg.DLEQ, K, b, sg.C_) {
					s.c.MonitorFail("C10", "C10/mint-dleq-invalid", "the mint returned a blind signature whose DLEQ proof does not verify", s.replay())
				}
			}
		} else if sg.DLEQ == nil {
			s.c.MonitorFail("C10", "C10/mint-dleq-missing", "the mint returned a blind signature without DLEQ proof", s.replay())
		}
		// keep the proof if the output was one of ours
		if outs[i].O != nil {
			p, err := s.env.Unblind(*outs[i].O, sg)
			if err == nil {
				hp := &HProof{P: p, SecretId: s.symSecret(p.Secret), KsIdx: s.env.ksIdx[sg.Id], Amount: sg.Amount, Long: len(p.Secret) > 512}
				if old, ok := s.bySecret[p.Secret]; ok {
					_ = old // same secret signed again (different r): the second proof is the same ecash
				} else {
					s.bySecret[p.Secret] = hp
					s.proofs = append(s.proofs, hp)
				}
			}
		}
	}
}

// feeOf: the mint's input fee for the given proofs recomputed independently from the published keyset fees.
func (s *Seq) feeOf(ps []ReqProof) (uint64, bool) {
	ksl := s.env.M.ListKeysets()
	fee := map[string]uint64{}
	for _, k := range ksl.Keysets {
		fee[k.Id] = uint64(k.InputFeePpk)
	}
	var sum uint64
	for _, p := range ps {
		f, ok := fee[p.P.Id]
		if !ok {
			return 0, false
		}
		sum += f
	}
	return (sum + 999) / 1000, true
}

func (s *Seq) consume(ps []ReqProof, op string, res opResult) {
	seen := map[string]bool{}
	for _, rp := range ps {
		sec := rp.P.Secret
		if seen[sec] {
			s.c.MonitorFail("C01", "C01/duplicate-in-request/"+strings.SplitN(op, " ", 2)[0], "a secret was accepted twice inside one request", s.replay())
			continue
		}
		seen[sec] = true
		hp := s.bySecret[sec]
		if hp == nil || rp.C.Kind != "sig" || rp.C.Ks != hp.KsIdx || rp.C.Amt != rp.P.Amount || s.env.ksIdx[rp.P.Id] != hp.KsIdx || rp.C.Sec != hp.SecretId || len(rp.P.Secret) > 512 {
			what := "not a genuine signature at its signed amount"
			s.c.MonitorFail("C04", "C04/accepted-non-genuine/"+strings.SplitN(op, " ", 2)[0]+"/"+rp.C.Kind, "an input was accepted that is "+what, s.replay())
			continue
		}
		if len(hp.ConsumedBy) > 0 || hp.LockedBy != 0 {
			s.c.MonitorFail("C01", "C01/double-spend/"+strings.SplitN(op, " ", 2)[0], fmt.Sprintf("secret consumed again by %s (earlier: %v, locked by melt %d)", op, hp.ConsumedBy, hp.LockedBy-1), s.replay())
		}
		hp.ConsumedBy = append(hp.ConsumedBy, op)
		hp.Witness = rp.P.Witness
		s.redeemedByKs[rp.P.Id] += rp.P.Amount
	}
}

func (s *Seq) OpSwap(ps []ReqProof, outs []ReqOut) cashu.BlindedSignatures {
	var proofs cashu.Proofs
	for _, p := range ps {
		proofs = append(proofs, p.P)
	}
	var bms cashu.BlindedMessages
	for _, o := range outs {
		bms = append(bms, o.BM)
	}
	line := L(A("mint.swap"), s.sxProofs(ps), s.sxOuts(outs))
	before := s.snap()
	var sigs cashu.BlindedSignatures
	res := s.runOp("swap", line, nil, func() Sx {
		var err error
		sigs, err = s.env.M.Swap(proofs, bms)
		if err != nil {
			return canonErr(err)
		}
		return s.sxSigs(sigs, outs)
	})
	if isErr(res.out) {
		s.checkNoChange("swap", before, nil)
	}
	if isOk(res.out) {
		// C02 monitor: outputs <= inputs - fee, in natural numbers
		var in, out uint64
		inOverflow := false
		for _, p := range ps {
			if in+p.P.Amount < in {
				inOverflow = true
			}
			in += p.P.Amount
		}
		for _, sg := range sigs {
			out += sg.Amount
		}
		fee, okFee := s.feeOf(ps)
		if inOverflow || !okFee || out+fee > in || out+fee < out {
			s.c.MonitorFail("C02", "C02/swap/outputs-exceed-inputs-minus-fee", fmt.Sprintf("swap issued %d for inputs %d with fee %d", out, in, fee), s.replay())
			if okFee && fee > 0 && !inOverflow && out <= in {
				// C09: every input is charged the fee its OWN keyset publishes (GET /v1/keysets), whichever keyset is active
				// and however that keyset came to be (configured at start-up or created by a runtime rotation)
				s.c.MonitorFail("C09", "C09/fee/published-keyset-fee-not-charged", fmt.Sprintf("swap issued %d for inputs %d although the published input fee of the inputs' keysets is %d", out, in, fee), s.replay())
			}
		}
		s.consume(ps, fmt.Sprintf("swap #%d", s.opIndex), res)
		s.recordSigs(outs, sigs, "swap")
	}
	s.afterOp()
	return sigs
}

// invMode: 0 valid invoice, 1 garbage string, 2 invoice without amount
func (s *Seq) OpMeltQuote(inv *lnInvoice, unit string, mppMsat uint64, invMode int) *HMeltQ {
	req := nut05.PostMeltQuoteBolt11Request{Unit: unit}
	invSx := Sx(A("bad"))
	switch invMode {
	case 0:
		req.Request = inv.request
		invSx = L(A("inv"), I(inv.id))
		if inv.forgedOf != nil {
			invSx = L(A("forged"), I(inv.id), I(inv.forgedOf.id))
		}
	case 1:
		req.Request = "lnbc1" + hex.EncodeToString(s.c.Rng.Bytes(10))
	case 2:
		req.Request = inv.request
		invSx = L(A("noamount"), I(inv.id))
	}
	mppSx := Sx(A("none"))
	if mppMsat > 0 {
		req.Options = map[string]nut05.MppOption{"mpp": {AmountMsat: mppMsat}}
		mppSx = L(A("mpp"), N(mppMsat))
	}
	line := L(A("mint.meltquote"), invSx, A(unitAtom(unit)), mppSx)
	before := s.snap()
	var hq *HMeltQ
	res := s.runOp("meltquote", line, nil, func() Sx {
		q, err := s.env.M.RequestMeltQuote(req)
		if err != nil {
			return canonErr(err)
		}
		hq = &HMeltQ{Id: q.Id, Sym: s.env.symMeltQ(q.Id), Inv: inv, Amount: q.Amount, Reserve: q.FeeReserve, IsMpp: q.IsMpp, Msat: q.AmountMsat, Expect: "UNPAID"}
		s.meltQs = append(s.meltQs, hq)
		return L(A("ok"), I(hq.Sym), N(q.Amount), N(q.FeeReserve), B(q.IsMpp))
	})
	if isOk(res.out) && hq != nil {
		lim := s.env.Opts.Limits
		if lim.MeltingSettings.MaxAmount > 0 && hq.Amount > lim.MeltingSettings.MaxAmount {
			s.c.MonitorFail("C16", "C16/meltquote/over-max-amount", "melt quote accepted above the melt maximum", s.replay())
		}
		// C02: the quoted amount (sat) must cover the msat that will be paid
		pay := inv.msat
		if hq.IsMpp {
			pay = hq.Msat
		}
		if hq.Amount*1000 < pay && !inv.huge {
			s.c.MonitorFail("C02", "C02/meltquote/amount-rounded-down", fmt.Sprintf("melt quote amount %d sat does not cover the %d msat that will be paid", hq.Amount, pay), s.replay())
		}
		for _, mq := range s.mintQs {
			if mq.Hash == inv.hash && inv.forgedOf == nil {
				hq.Internal = true
			}
		}
	}
	if isErr(res.out) {
		s.checkNoChange("meltquote", before, nil)
	}
	return hq
}

// expectAfter computes, from the property text alone (C05), the state a melt must be in after the
// backend gave the listed answers: first the pay call, then status lookups.
func expectAfterPay(calls []LnCall, inMelt bool, cur string) string {
	st := cur
	for _, c := range calls {
		switch c.Kind {
		case "SendPayment", "PayPartialAmount":
			switch c.Answer {
			case "succ":
				return "PAID"
			case "pending":
				st = "PENDING"
			default: // failed, failed-err, err: ambiguous until the status lookup
				st = "PENDING"
			}
		case "OutgoingPaymentStatus":
			switch c.Answer {
			case "succ":
				return "PAID"
			case "failed":
				st = "UNPAID"
				return st
			case "notfound", "notfound-grpc":
				if inMelt {
					return "UNPAID"
				}
				// a poll treats not-found as an ambiguous error: stays pending (the property's "only when" permits)
			}
		}
	}
	return st
}

func (s *Seq) OpMelt(q *HMeltQ, ps []ReqProof, script []string) string {
	return s.OpMeltLn(q, ps, script, false)
}

// OpMeltLn: lnFail makes the next InvoiceStatus call of the backend fail (only the internal-settlement path calls it).
func (s *Seq) OpMeltLn(q *HMeltQ, ps []ReqProof, script []string, lnFail bool) string {
	req := nut05.PostMeltBolt11Request{Quote: q.Id}
	for _, p := range ps {
		req.Inputs = append(req.Inputs, p.P)
	}
	sc := make([]Sx, len(script))
	for i, a := range script {
		sc[i] = A(a)
	}
	line := L(A("mint.melt"), I(q.Sym), s.sxProofs(ps), Ls(sc), B(lnFail))
	before := s.snap()
	state := ""
	// which mint quote would be settled internally
	var internal *HMintQ
	// (only a melt of the mint quote's OWN invoice pays that quote; another invoice with the same payment hash does not)
	for _, mq := range s.mintQs {
		if mq.Hash == q.Inv.hash && q.Inv.forgedOf == nil {
			internal = mq
		}
	}
	res := s.runOp("melt", line, script, func() Sx {
		if lnFail {
			s.env.LN.mu.Lock()
			s.env.LN.failNext["InvoiceStatus"] = 1
			s.env.LN.mu.Unlock()
		}
		mq, err := s.env.M.MeltTokens(context.Background(), req)
		s.env.LN.mu.Lock()
		s.env.LN.failNext["InvoiceStatus"] = 0
		s.env.LN.mu.Unlock()
		if err != nil {
			return canonErr(err)
		}
		state = mq.State.String()
		pre := 0
		if mq.Preimage != "" {
			pre = 1
			if mq.Preimage != q.Inv.preimage {
				pre = 2
			}
		}
		return L(A("ok"), A(state), I(pre))
	})
	attempted := false
	for _, c := range res.ln {
		if c.Kind == "SendPayment" || c.Kind == "PayPartialAmount" {
			attempted = true
			// C02: fee limit handed to the backend never exceeds the reserve the user pays
			if c.MaxFee > q.Reserve {
				s.c.MonitorFail("C02", "C02/melt/fee-limit-exceeds-reserve", fmt.Sprintf("fee limit %d handed to the backend exceeds the fee reserve %d (amount %d)", c.MaxFee, q.Reserve, q.Amount), s.replay())
			}
			want := q.Inv.msat
			if q.IsMpp {
				want = q.Msat
			}
			if c.Msat != want {
				s.c.MonitorFail("C02", "C02/melt/paid-amount-differs", fmt.Sprintf("backend asked to pay %d msat, quote says %d", c.Msat, want), s.replay())
			}
		}
	}
	if isErr(res.out) && !attempted && s.conc == nil {
		// errors after a payment attempt are storage faults (not generated here)
		after := s.snap()
		allow := map[string]bool{}
		if d := diffSnap(before, after, allow); d != "" {
			s.c.MonitorFail("C06", "C06/rejected-changed/melt/"+strings.SplitN(d, "[", 2)[0], "rejected melt changed state: "+d, s.replay())
		}
	}
	if isOk(res.out) {
		// accepted: inputs were valid, unspent, sufficient
		var in uint64
		for _, p := range ps {
			in += p.P.Amount
		}
		fee, okFee := s.feeOf(ps)
		if !okFee || in < q.Amount+q.Reserve+fee {
			s.c.MonitorFail("C02", "C02/melt/inputs-below-amount-reserve-fee", fmt.Sprintf("melt accepted inputs %d for amount %d reserve %d fee %d", in, q.Amount, q.Reserve, fee), s.replay())
		}
		q.Last = nil
		for _, rp := range ps {
			if hp := s.bySecret[rp.P.Secret]; hp != nil {
				q.Last = append(q.Last, hp)
			}
		}
		expect := "PENDING"
		if internal != nil {
			expect = "PAID"
		} else {
			expect = expectAfterPay(res.ln, true, "PENDING")
		}
		q.Expect = expect
		if state != expect {
			s.c.MonitorFail("C05", "C05/melt/state-"+state+"-expected-"+expect+"/"+lnSig(res.ln), fmt.Sprintf("melt returned %s, the Lightning answers %s require %s", state, lnSig(res.ln), expect), s.replay())
		}
		switch expect {
		case "PAID":
			s.consume(ps, fmt.Sprintf("melt #%d", s.opIndex), res)
			q.Inputs = nil
			if internal != nil {
				internal.Payments++
				if q.Inv.huge {
					s.hugeIn = true
				}
			}
		case "PENDING":
			// locked
			seen := map[string]bool{}
			for _, rp := range ps {
				hp := s.bySecret[rp.P.Secret]
				if hp == nil || seen[rp.P.Secret] {
					s.c.MonitorFail("C04", "C04/accepted-non-genuine/melt/"+rp.C.Kind, "a melt locked an input that is not a genuine distinct proof", s.replay())
					continue
				}
				seen[rp.P.Secret] = true
				if len(hp.ConsumedBy) > 0 || hp.LockedBy != 0 {
					s.c.MonitorFail("C01", "C01/double-spend/melt-lock", "melt locked an already consumed or locked secret", s.replay())
				}
				hp.LockedBy = q.Sym + 1
				hp.Witness = rp.P.Witness
				q.Inputs = append(q.Inputs, hp)
			}
		case "UNPAID":
			q.Inputs = nil
		}
	}
	s.afterOp()
	return state
}

func lnSig(calls []LnCall) string {
	var parts []string
	for _, c := range calls {
		k := map[string]string{"SendPayment": "pay", "PayPartialAmount": "paypart", "OutgoingPaymentStatus": "status", "InvoiceStatus": "inv", "CreateInvoice": "mkinv"}[c.Kind]
		parts = append(parts, k+":"+c.Answer)
	}
	return strings.Join(parts, ",")
}

// resolve applies the Lightning answers consumed by a poll to the harness's expectation of melt q.
func (s *Seq) resolve(q *HMeltQ, calls []LnCall, op string) {
	if q.Expect != "PENDING" {
		return
	}
	mine := []LnCall{}
	for _, c := range calls {
		if c.Kind == "OutgoingPaymentStatus" && c.Hash == q.Inv.id {
			mine = append(mine, c)
		}
	}
	exp := expectAfterPay(mine, false, "PENDING")
	q.Expect = exp
	switch exp {
	case "PAID":
		for _, hp := range q.Inputs {
			hp.LockedBy = 0
			hp.ConsumedBy = append(hp.ConsumedBy, fmt.Sprintf("melt m%d resolved by %s", q.Sym, op))
			s.redeemedByKs[hp.P.Id] += hp.P.Amount
		}
		q.Inputs = nil
	case "UNPAID":
		for _, hp := range q.Inputs {
			hp.LockedBy = 0
		}
		q.Inputs = nil
	}
}

func (s *Seq) OpMeltState(q *HMeltQ, script []string) string {
	sc := make([]Sx, len(script))
	for i, a := range script {
		sc[i] = A(a)
	}
	line := L(A("mint.meltstate"), I(q.Sym), Ls(sc))
	state := ""
	res := s.runOp("meltstate", line, script, func() Sx {
		mq, err := s.env.M.GetMeltQuoteState(context.Background(), q.Id)
		if err != nil {
			return canonErr(err)
		}
		state = mq.State.String()
		pre := 0
		if mq.Preimage != "" {
			pre = 1
			if mq.Preimage != q.Inv.preimage {
				pre = 2
			}
		}
		return L(A("ok"), A(state), I(pre))
	})
	s.resolve(q, res.ln, "poll")
	if isOk(res.out) && state != q.Expect {
		s.c.MonitorFail("C05", "C05/poll/state-"+state+"-expected-"+q.Expect+"/"+lnSig(res.ln), fmt.Sprintf("melt quote poll returned %s, expected %s after %s", state, q.Expect, lnSig(res.ln)), s.replay())
	}
	s.afterOp()
	return state
}

type YQuery struct {
	Y   string
	Sec string // "" for unknown Ys
}

func (s *Seq) OpCheckState(qs []YQuery, script []string) []nut07.ProofState {
	ys := make([]string, len(qs))
	yx := make([]Sx, len(qs))
	for i, q := range qs {
		ys[i] = q.Y
		if q.Sec != "" {
			yx[i] = L(A("y"), I(s.symSecret(q.Sec)))
		} else {
			yx[i] = L(A("unk"), I(s.symWitness("y:"+q.Y)))
		}
	}
	sc := make([]Sx, len(script))
	for i, a := range script {
		sc[i] = A(a)
	}
	line := L(A("mint.checkstate"), Ls(yx), Ls(sc))
	var states []nut07.ProofState
	res := s.runOp("checkstate", line, script, func() Sx {
		var err error
		states, err = s.env.M.ProofsStateCheck(ys)
		if err != nil {
			return canonErr(err)
		}
		xs := make([]Sx, len(states))
		for i, st := range states {
			xs[i] = L(A(st.State.String()), I(s.symWitness(st.Witness)))
		}
		return L(A("ok"), Ls(xs))
	})
	// polls may have resolved pending melts (in the order the code chose; each poll consumed one answer)
	for _, q := range s.meltQs {
		s.resolve(q, res.ln, "checkstate")
	}
	if isOk(res.out) {
		// C15 monitor: truth, order, length
		if len(states) != len(qs) {
			s.c.MonitorFail("C15", "C15/checkstate/length", "checkstate answer has a different length than the request", s.replay())
		} else {
			for i, st := range states {
				want, wit := "UNSPENT", ""
				if hp := s.bySecret[qs[i].Sec]; hp != nil && qs[i].Sec != "" {
					if len(hp.ConsumedBy) > 0 {
						want, wit = "SPENT", hp.Witness
					} else if hp.LockedBy != 0 {
						want, wit = "PENDING", hp.Witness
					}
				}
				if st.Y != qs[i].Y || st.State.String() != want || st.Witness != wit {
					s.c.MonitorFail("C15", "C15/checkstate/wrong-"+st.State.String()+"-expected-"+want,
						fmt.Sprintf("checkstate[%d] says %s (witness %q), history says %s (witness %q)", i, st.State, st.Witness, want, wit), s.replay())
					break
				}
			}
		}
	}
	s.afterOp()
	return states
}

type BQuery struct {
	BM cashu.BlindedMessage
}

func (s *Seq) OpRestore(qs []cashu.BlindedMessage) {
	bx := make([]Sx, len(qs))
	for i, q := range qs {
		bx[i] = I(s.symB(q.B_))
	}
	line := L(A("mint.restore"), Ls(bx))
	var outs cashu.BlindedMessages
	var sigs cashu.BlindedSignatures
	res := s.runOp("restore", line, nil, func() Sx {
		var err error
		outs, sigs, err = s.env.M.RestoreSignatures(cashu.BlindedMessages(qs))
		if err != nil {
			return canonErr(err)
		}
		xs := make([]Sx, len(sigs))
		for i, sg := range sigs {
			xs[i] = L(I(s.symB(outs[i].B_)), N(sg.Amount), I(s.env.ksIdx[sg.Id]))
		}
		return L(A("ok"), Ls(xs))
	})
	if isOk(res.out) {
		// C10: every restored (blinded message, signature) pair carries a DLEQ that verifies for THAT message under the
		// keyset's published key for that amount
		for i := range sigs {
			if i >= len(outs) {
				break
			}
			g := sigs[i]
			if g.DLEQ == nil {
				s.c.MonitorFail("C10", "C10/restore-dleq-missing", "a restored signature carries no DLEQ", s.replay())
				break
			}
			if ks, err := s.env.M.GetKeysetById(g.Id); err == nil {
				if K, ok := ks.Keys[g.Amount]; !ok || !nut12.VerifyBlindSignatureDLEQ(*g.DLEQ, K, outs[i].B_, g.C_) {
					s.c.MonitorFail("C10", "C10/restore-dleq-invalid", "a restored signature's DLEQ does not verify for the blinded message it is returned with", s.replay())
					break
				}
			}
		}
		// C15 monitor: exactly the signed ones, in request order, with the original signature
		var want []string
		for _, q := range qs {
			if _, ok := s.sigsSeen[q.B_]; ok {
				want = append(want, q.B_)
			}
		}
		if len(want) != len(sigs) || len(outs) != len(sigs) {
			s.c.MonitorFail("C15", "C15/restore/count", fmt.Sprintf("restore returned %d signatures, history says %d", len(sigs), len(want)), s.replay())
		} else {
			for i, b := range want {
				o := s.sigsSeen[b]
				g := sigs[i]
				if outs[i].B_ != b || g.Amount != o.Amount || g.Id != o.Id || g.C_ != o.C_ || g.DLEQ == nil || o.DLEQ == nil || g.DLEQ.E != o.DLEQ.E || g.DLEQ.S != o.DLEQ.S {
					s.c.MonitorFail("C15", "C15/restore/differs", "restore returned a signature that differs from the one originally returned", s.replay())
					break
				}
			}
		}
	}
}

func (s *Seq) OpBalance() {
	line := L(A("mint.balance"))
	var lastTot uint64
	haveTot := false
	defer func() {
		// the same report as a wallet sees it: GET /v1/info through the mint's real HTTP handler, twice (whatever the
		// handler keeps between requests must not make the report stale)
		if !haveTot || s.conc != nil {
			return
		}
		mb := s.env.Opts.Limits.MaxBalance
		want := mb > 0 && lastTot >= mb
		for k := 0; k < 2; k++ {
			rec := httptest.NewRecorder()
			req := httptest.NewRequest("GET", "/v1/info", nil)
			func() {
				defer func() {
					if r := recover(); r != nil {
						s.c.MonitorFail("C06", "C06/panic/info/"+panicSig(r), fmt.Sprintf("GET /v1/info panicked: %v", r), s.replay())
					}
				}()
				s.env.Srv.VerifHandler().ServeHTTP(rec, req)
			}()
			var doc struct {
				Nuts map[string]json.RawMessage `json:"nuts"`
			}
			if rec.Code != 200 || json.Unmarshal(rec.Body.Bytes(), &doc) != nil {
				continue
			}
			var n4 struct {
				Disabled bool `json:"disabled"`
			}
			if raw, ok := doc.Nuts["4"]; ok && json.Unmarshal(raw, &n4) == nil && n4.Disabled != want {
				s.c.MonitorFail("C16", "C16/info-endpoint-disabled", fmt.Sprintf("GET /v1/info says nuts.4.disabled=%v with balance %d and max balance %d", n4.Disabled, lastTot, mb), s.replay())
			}
		}
		s.env.DB.ResetTrace()
	}()
	s.runOp("balance", line, nil, func() Sx {
		iss, err1 := s.env.M.IssuedEcash()
		red, err2 := s.env.M.RedeemedEcash()
		tot, err3 := s.env.M.TotalBalance()
		if err3 == nil {
			lastTot, haveTot = tot, true
		}
		if err1 != nil || err2 != nil || err3 != nil {
			return L(A("err"), I(0), S("raw"))
		}
		info, err := s.env.M.RetrieveMintInfo()
		dis := false
		if err == nil {
			dis = info.Nuts.Nut04.Disabled
		}
		toSx := func(m map[string]uint64) Sx {
			var ks []string
			for k := range m {
				ks = append(ks, k)
			}
			sort.Slice(ks, func(i, j int) bool { return s.env.ksIdx[ks[i]] < s.env.ksIdx[ks[j]] })
			xs := make([]Sx, len(ks))
			for i, k := range ks {
				xs[i] = L(I(s.env.ksIdx[k]), N(m[k]))
			}
			return Ls(xs)
		}
		// C16 monitor: exact per-keyset totals, difference, disabled flag
		var si, sr uint64
		for k, v := range s.issuedByKs {
			if iss[k] != v {
				s.c.MonitorFail("C16", "C16/issued-differs", fmt.Sprintf("issued[%s]=%d, signatures handed out sum to %d", k, iss[k], v), s.replay())
			}
			si += v
		}
		for k, v := range iss {
			if s.issuedByKs[k] != v {
				s.c.MonitorFail("C16", "C16/issued-differs", fmt.Sprintf("issued[%s]=%d, signatures handed out sum to %d", k, v, s.issuedByKs[k]), s.replay())
			}
		}
		for k, v := range s.redeemedByKs {
			if red[k] != v {
				s.c.MonitorFail("C16", "C16/redeemed-differs", fmt.Sprintf("redeemed[%s]=%d, consumed inputs sum to %d", k, red[k], v), s.replay())
			}
			sr += v
		}
		for k, v := range red {
			if s.redeemedByKs[k] != v {
				s.c.MonitorFail("C16", "C16/redeemed-differs", fmt.Sprintf("redeemed[%s]=%d, consumed inputs sum to %d", k, v, s.redeemedByKs[k]), s.replay())
			}
		}
		if sr > si || tot != si-sr {
			s.c.MonitorFail("C16", "C16/balance-differs", fmt.Sprintf("total balance %d, issued %d, redeemed %d", tot, si, sr), s.replay())
		}
		mb := s.env.Opts.Limits.MaxBalance
		if mb > 0 {
			s.c.Hist("balance-report", fmt.Sprintf("limit set, minting disabled=%v", dis))
		}
		if dis != (mb > 0 && tot >= mb) {
			s.c.MonitorFail("C16", "C16/info-disabled", fmt.Sprintf("info says disabled=%v with balance %d and max %d", dis, tot, mb), s.replay())
		}
		return L(A("ok"), toSx(iss), toSx(red), N(tot), B(dis))
	})
}

func (s *Seq) OpRotate(fee uint) {
	line := L(A("mint.rotate"), N(uint64(fee)))
	before := s.keysetView()
	s.runOp("rotate", line, nil, func() Sx {
		ks, err := s.env.M.RotateKeyset(fee)
		if err != nil {
			return L(A("err"), I(0), S("raw"))
		}
		s.env.refreshKeysets()
		return L(A("ok"), I(s.env.ksIdx[ks.Id]), N(uint64(ks.InputFeePpk)))
	})
	s.checkKeysets(before, true, fee)
}

func (s *Seq) OpRestart(rotate bool, fee uint) {
	line := L(A("mint.restart"), B(rotate), N(uint64(fee)))
	before := s.keysetView()
	s.runOp("restart", line, nil, func() Sx {
		if err := s.env.Restart(rotate, fee); err != nil {
			return L(A("err"), I(0), S(err.Error()))
		}
		return L(A("ok"), I(s.env.ksIdx[s.env.ActiveKeysetId()]))
	})
	s.checkKeysets(before, rotate, fee)
	s.afterOp()
}

type ksView struct {
	ids  []string
	keys map[string]string // id -> concatenated public keys
	fee  map[string]uint
	act  string
}

func (s *Seq) keysetView() ksView {
	v := ksView{keys: map[string]string{}, fee: map[string]uint{}}
	for _, k := range s.env.M.ListKeysets().Keysets {
		v.ids = append(v.ids, k.Id)
		v.fee[k.Id] = k.InputFeePpk
		if k.Active {
			if v.act != "" {
				v.act = "multiple"
			} else {
				v.act = k.Id
			}
		}
		if ks, err := s.env.M.GetKeysetById(k.Id); err == nil {
			var amts []uint64
			for a := range ks.Keys {
				amts = append(amts, a)
			}
			sort.Slice(amts, func(i, j int) bool { return amts[i] < amts[j] })
			var sb strings.Builder
			for _, a := range amts {
				sb.WriteString(hex.EncodeToString(ks.Keys[a].SerializeCompressed()))
			}
			v.keys[k.Id] = sb.String()
		}
	}
	sort.Strings(v.ids)
	return v
}

// C09 monitor: earlier keysets keep id, keys and fee; exactly one active; rotation adds exactly one.
func (s *Seq) checkKeysets(before ksView, rotated bool, fee uint) {
	after := s.keysetView()
	for _, id := range before.ids {
		if after.keys[id] != before.keys[id] || after.keys[id] == "" {
			s.c.MonitorFail("C09", "C09/keyset-changed", "an earlier keyset disappeared or changed its public keys", s.replay())
		}
		if after.fee[id] != before.fee[id] {
			s.c.MonitorFail("C09", "C09/keyset-fee-changed", "an earlier keyset changed its input fee", s.replay())
		}
	}
	if after.act == "" || after.act == "multiple" {
		s.c.MonitorFail("C09", "C09/active-count", "not exactly one active keyset", s.replay())
	}
	want := len(before.ids)
	if rotated {
		want++
	}
	if len(after.ids) != want {
		s.c.MonitorFail("C09", "C09/keyset-count", fmt.Sprintf("%d keysets after, expected %d", len(after.ids), want), s.replay())
	}
	if rotated {
		if after.act == before.act {
			s.c.MonitorFail("C09", "C09/rotation-kept-active", "rotation did not activate a new keyset", s.replay())
		}
		if after.fee[after.act] != fee {
			s.c.MonitorFail("C09", "C09/rotation-fee", "the new keyset does not carry the requested fee", s.replay())
		}
	} else if after.act != before.act {
		s.c.MonitorFail("C09", "C09/active-changed", "the active keyset changed without a rotation", s.replay())
	}
	if s.env.ActiveKeysetId() != after.act {
		s.c.MonitorFail("C09", "C09/active-mismatch", "GetActiveKeyset disagrees with the keyset list", s.replay())
	}
}

// afterOp: global monitors evaluated on the state after every operation.
func (s *Seq) afterOp() {
	if s.conc != nil {
		return // checked once the schedule is over
	}
	sn := s.snap()
	for _, q := range s.mintQs {
		s.checkIssued(q)
	}
	// C01: spent forever; consumed secrets are in the spent table, locked ones in pending
	for _, hp := range s.proofs {
		y := YOf(hp.P.Secret)
		_, sp := sn.spent[y]
		_, pe := sn.pending[y]
		if len(hp.ConsumedBy) > 0 && !sp {
			s.c.MonitorFail("C01", "C01/consumed-not-spent", "a consumed secret is not reported SPENT", s.replay())
		}
		if len(hp.ConsumedBy) == 0 && sp {
			s.c.MonitorFail("C15", "C15/spent-without-consumption", "a secret is SPENT that no successful operation consumed", s.replay())
		}
		if hp.LockedBy != 0 && !pe {
			s.c.MonitorFail("C05", "C05/locked-not-pending", "an input of an in-flight melt is not locked", s.replay())
		}
		if hp.LockedBy == 0 && pe {
			s.c.MonitorFail("C05", "C05/pending-without-melt", "a secret is PENDING although no in-flight melt holds it", s.replay())
		}
	}
	// C05: quote states follow the expectation
	for _, q := range s.meltQs {
		got := strings.SplitN(sn.meltQ[q.Id], "/", 2)[0]
		if got != q.Expect {
			s.c.MonitorFail("C05", "C05/quote-state-"+got+"-expected-"+q.Expect, fmt.Sprintf("melt quote m%d is %s, Lightning history requires %s", q.Sym, got, q.Expect), s.replay())
		}
	}
	// C02: ledger in msat
	var issued, redeemed, locked, credit uint64
	for _, v := range sn.issued {
		issued += v
	}
	for _, v := range sn.redeem {
		redeemed += v
	}
	for _, hp := range s.proofs {
		if hp.LockedBy != 0 {
			locked += hp.P.Amount
		}
	}
	for _, q := range s.mintQs {
		st := sn.mintQ[q.Id]
		if st == "PAID" || st == "PENDING" {
			credit += q.Amount
		}
	}
	lnOut := s.lnOutMsat()
	lhs := (issued+credit)*1000 + lnOut
	rhs := s.lnInMsat + (redeemed+locked)*1000
	if lhs > rhs && !s.hugeIn {
		s.c.MonitorFail("C02", "C02/ledger", fmt.Sprintf("ledger broken: issued %d + credit %d sat, ln out %d msat > ln in %d msat + redeemed %d + locked %d sat", issued, credit, lnOut, s.lnInMsat, redeemed, locked), s.replay())
	}
}

// lnOutMsat: what the backend may have paid out — per melt quote whose payment was attempted and not
// definitively failed: amount + the whole fee limit it was given.
func (s *Seq) lnOutMsat() uint64 {
	var total uint64
	calls := s.env.LN.Calls
	for _, q := range s.meltQs {
		var attempt *LnCall
		for i := range calls {
			c := &calls[i]
			if c.Hash != q.Inv.id {
				continue
			}
			switch c.Kind {
			case "SendPayment", "PayPartialAmount":
				attempt = c
			case "OutgoingPaymentStatus":
				if attempt != nil && (c.Answer == "failed" || c.Answer == "notfound" || c.Answer == "notfound-grpc") && q.Expect == "UNPAID" {
					attempt = nil
				}
			}
		}
		if attempt != nil {
			total += attempt.Msat + attempt.MaxFee*1000
		}
	}
	return total
}

var _ = errors.New
var _ = schnorr.Sign
var _ storage.MintDB
