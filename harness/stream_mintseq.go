package main

// Stream "mint-seq": random sequential histories against the real mint (real SQLite, real
// secp256k1), adversarial request generator, scripted Lightning answers; every op is compared
// with the Lean model (Model.Mint) and checked by the model-free monitors in seq.go.

import (
	"encoding/hex"
	"fmt"
	"strings"

	"github.com/elnosh/gonuts/cashu"
	"github.com/elnosh/gonuts/mint"
)

var mintSeqProps = []string{"C01", "C02", "C03", "C05", "C06", "C09", "C15", "C16", "C04"}

func init() {
	register("mint-seq", mintSeqProps,
		"random sequential histories (quick: 24 histories x 60-120 ops; thorough: 150 x 80-200) of mint-quote/settle/notify/poll/mint/swap/melt-quote/melt/melt-poll/checkstate/restore/balance/rotate/restart against the real mint on SQLite; requests are mostly valid with adversarial variants (re-presented, duplicated, mutated, forged, overflowing, malformed inputs and outputs); Lightning answers scripted per op; a case = one op, class = (op kind, canonical outcome)",
		runMintSeq)
}

type gen struct {
	c   *Ctx
	s   *Seq
	env *MintEnv
	r   *Rng
	ext []*lnInvoice // external invoices created so far
	// random histories only: now and then request a signature over a secret beyond the 512-byte limit
	longSecrets bool
	// monitor-only random histories (mint-mon): NUT-10 envelopes with hostile content
	hostile bool
}

var feeChoices = []uint{0, 0, 1, 100, 999, 1000, 2500}

func (g *gen) unspent() []*HProof {
	var out []*HProof
	for _, hp := range g.s.proofs {
		if len(hp.ConsumedBy) == 0 && hp.LockedBy == 0 {
			out = append(out, hp)
		}
	}
	return out
}

func (g *gen) genuine(hp *HProof) ReqProof {
	return ReqProof{P: hp.P, C: CInfo{Kind: "sig", Ks: hp.KsIdx, Amt: hp.Amount, Sec: hp.SecretId}, H: hp, Long: hp.Long}
}

// pick up to n distinct unspent proofs
func (g *gen) pick(n int) []ReqProof {
	u := g.unspent()
	var out []ReqProof
	for len(out) < n && len(u) > 0 {
		i := g.r.Intn(len(u))
		out = append(out, g.genuine(u[i]))
		u = append(u[:i], u[i+1:]...)
	}
	return out
}

// witnesses: a proof may carry a witness whatever its secret (the mint ignores it for plain secrets but must store it
// with the spent / pending row and report it back in state checks, through every settlement path)
func (g *gen) witnesses(ps []ReqProof) {
	if !g.r.Chance(35) {
		return
	}
	for i := range ps {
		if g.r.Bool() {
			ps[i].P.Witness = fmt.Sprintf(`{"signatures":["%02x"]}`, g.r.Intn(256))
		}
	}
}

// respend: the adversarial follow-up of a melt or of a poll — present the melt's inputs again in a swap, whatever
// state the mint says they are in (refused while locked or spent; accepted, and then consumed, only once released)
func (g *gen) respend(q *HMeltQ, pct int) {
	if len(q.Last) == 0 || !g.r.Chance(pct) {
		return
	}
	var ps []ReqProof
	for _, hp := range q.Last {
		ps = append(ps, g.genuine(hp))
	}
	fee, _ := g.s.feeOf(ps)
	in := sumReq(ps)
	if in <= fee || in > 1<<40 {
		return
	}
	g.s.OpSwap(ps, g.outputs(in-fee, g.env.ActiveKeysetId()))
}

// corpus: minimised sequences that exposed earlier defects / seeded changes, run first in the first history of every
// run (with the model and all monitors, like any other operation).
func (g *gen) corpus() {
	s, env := g.s, g.env
	if env.Opts.Limits.MaxBalance > 0 || env.Opts.Limits.MintingSettings.MaxAmount > 0 || env.Opts.Limits.MeltingSettings.MaxAmount > 0 {
		return // the sequences assume no limits
	}
	take := func(total uint64) []ReqProof {
		var ps []ReqProof
		var have uint64
		for _, hp := range g.unspent() {
			if have >= total {
				break
			}
			if hp.Long {
				continue
			}
			ps = append(ps, g.genuine(hp))
			have += hp.P.Amount
		}
		return ps
	}
	// funds
	qf := s.OpMintQuote(256, "sat", 0, false)
	if qf == nil {
		return
	}
	s.Settle(qf)
	long := g.longSecrets
	g.longSecrets = false
	s.OpMint(qf, g.outputs(256, env.ActiveKeysetId()), 0)
	// (1) internal settlement that cannot reach the backend: nothing may be credited (F15; seeded C03-2)
	if qa := s.OpMintQuote(64, "sat", 0, false); qa != nil {
		if mq := s.OpMeltQuote(env.LN.byHash[qa.Hash], "sat", 0, 0); mq != nil {
			s.OpMeltLn(mq, take(mq.Amount+mq.Reserve+2), nil, true)
			s.OpMint(qa, g.outputs(64, env.ActiveKeysetId()), 0)  // must be refused: the quote was never paid
			s.OpMeltLn(mq, take(mq.Amount+mq.Reserve+2), nil, false) // now it settles
			s.OpMint(qa, g.outputs(64, env.ActiveKeysetId()), 0)
		}
	}
	// (2) two keysets: old ecash stays valid under its own keyset, and only under it (seeded C04-1)
	oldId := env.ActiveKeysetId()
	s.OpRotate(env.Opts.FeePpk)
	if ps := take(8); len(ps) > 0 {
		fee, _ := s.feeOf(ps)
		if in := sumReq(ps); in > fee {
			s.OpSwap(ps, g.outputs(in-fee, env.ActiveKeysetId())) // honest proofs of the inactive keyset
		}
	}
	qn := s.OpMintQuote(16, "sat", 0, false)
	if qn != nil {
		s.Settle(qn)
		n0 := len(s.proofs)
		s.OpMint(qn, g.outputs(16, env.ActiveKeysetId()), 0)
		if len(s.proofs) > n0 {
			rp := g.genuine(s.proofs[n0])
			rp.P.Id = oldId // a valid proof of the active keyset relabelled to the inactive one
			rp.H = nil
			s.OpSwap([]ReqProof{rp}, g.outputs(rp.P.Amount, env.ActiveKeysetId()))
		}
	}
	// (2b) a RUNTIME rotation to a keyset with another, non-zero fee: inputs of the new keyset are charged the fee the mint
	//      publishes for it from the first request on, not only after a restart (seeded change C09-7): a swap that leaves
	//      no room for the fee must be refused, one that pays it is accepted
	if env.Opts.FeePpk != 1000 {
		feeBefore := env.Opts.FeePpk
		s.OpRotate(1000)
		if qr := s.OpMintQuote(32, "sat", 0, false); qr != nil {
			s.Settle(qr)
			n0 := len(s.proofs)
			s.OpMint(qr, g.outputs(32, env.ActiveKeysetId()), 0)
			if len(s.proofs) > n0 {
				hp := s.proofs[len(s.proofs)-1]
				for _, c := range s.proofs[n0:] {
					if c.P.Amount > hp.P.Amount {
						hp = c
					}
				}
				if hp.P.Amount >= 2 {
					s.OpSwap([]ReqProof{g.genuine(hp)}, g.outputs(hp.P.Amount, env.ActiveKeysetId()))   // fee unpaid: refused
					s.OpSwap([]ReqProof{g.genuine(hp)}, g.outputs(hp.P.Amount-1, env.ActiveKeysetId())) // fee of 1 paid
				}
			}
		}
		s.OpRotate(feeBefore)
	}
	// (2c) delayed settlement keeps the witness (seeded change C15-1, first caught by a random history only): inputs that
	//      carry a witness are melted, the payment stays PENDING, and is settled later - once by a poll of the quote, once by
	//      a state check; the state check afterwards reports them SPENT with the witness they were presented with
	for variant := 0; variant < 2; variant++ {
		ps := take(40)
		if len(ps) == 0 {
			break
		}
		for i := range ps {
			ps[i].P.Witness = fmt.Sprintf("{\"signatures\":[\"%02x\"]}", 0x30+i+variant)
		}
		li, err := env.LN.makeInvoice(20000, true)
		if err != nil {
			break
		}
		s.regExt(li)
		mq := s.OpMeltQuote(li, "sat", 0, 0)
		if mq == nil {
			break
		}
		s.OpMeltLn(mq, ps, []string{"pending", "pending"}, false)
		var qs []YQuery
		for _, p := range ps {
			qs = append(qs, YQuery{Y: YOf(p.P.Secret), Sec: p.P.Secret})
		}
		if variant == 0 {
			s.OpMeltState(mq, []string{"succ"})
		} else {
			s.OpCheckState(qs, []string{"succ"})
		}
		s.OpCheckState(qs, nil)
	}
	// (3) an invoice of somebody else carrying the PAYMENT HASH of one of the mint's own unpaid invoices, for a smaller
	//     amount: melting it must not settle the mint quote (F17: 1 sat burned, the quote PAID, its whole amount issued)
	if qv := s.OpMintQuote(128, "sat", 0, false); qv != nil {
		if fi, err := env.LN.forgeInvoice(env.LN.byHash[qv.Hash], 1000); err == nil {
			s.regExt(fi)
			if mq := s.OpMeltQuote(fi, "sat", 0, 0); mq != nil {
				s.OpMeltLn(mq, take(mq.Amount+mq.Reserve+2), []string{"failed", "failed"}, false)
			}
			s.OpMint(qv, g.outputs(128, env.ActiveKeysetId()), 0) // never paid: must be refused
			s.OpQuoteState(qv, false)
		}
	}
	g.longSecrets = long
}

// bigLists: requests far longer than anything the random generator builds (the storage layer looks the inputs up with one
// statement per request: nothing may depend on the length of the list or on the position of a secret in it).  One used and
// one locked secret at each of a set of positions around 2^8..2^10 and 1000 inside otherwise fresh inputs, one accepted
// request of that size, and one state check over every secret of the history (every position at once).
func (g *gen) bigLists() {
	s, env := g.s, g.env
	n := 1040
	d := uint64(1) // denomination of the fresh inputs: above the per-input fee
	for uint64(env.Opts.FeePpk) >= 1000*d {
		d *= 2
	}
	q := s.OpMintQuote(uint64(n)*d+511, "sat", 0, false)
	if q == nil {
		return
	}
	s.Settle(q)
	long := g.longSecrets
	g.longSecrets = false
	defer func() { g.longSecrets = long }()
	outs := g.outputs(511, env.ActiveKeysetId()) // 1, 2, 4, .., 256
	for i := 0; i < n; i++ {
		o, err := env.MakeOutput(env.RandomSecret(), d, env.ActiveKeysetId())
		if err != nil {
			return
		}
		oc := o
		outs = append(outs, ReqOut{BM: o.BM, Kind: "pt", O: &oc})
	}
	n0 := len(s.proofs)
	s.OpMint(q, outs, 0)
	if len(s.proofs) < n0+n+9 {
		return
	}
	var used, toLock *HProof
	for _, hp := range s.proofs[n0 : n0+9] {
		switch hp.P.Amount {
		case 256:
			used = hp
		case 128:
			toLock = hp
		}
	}
	fresh := s.proofs[n0+9 : n0+9+n]
	if used == nil || toLock == nil {
		return
	}
	// a used and a locked secret
	spend := []ReqProof{g.genuine(used)}
	fee, _ := s.feeOf(spend)
	s.OpSwap(spend, g.outputs(256-fee, env.ActiveKeysetId()))
	var locked *HProof
	if li, err := env.LN.makeInvoice(2000, true); err == nil {
		s.regExt(li)
		if mq := s.OpMeltQuote(li, "sat", 0, 0); mq != nil {
			s.OpMeltLn(mq, []ReqProof{g.genuine(toLock)}, []string{"pending", "pending"}, false)
			if toLock.LockedBy != 0 {
				locked = toLock
			}
		}
	}
	build := func(bad *HProof, at int) []ReqProof {
		var ps []ReqProof
		for i := 0; len(ps) <= at+1 && i < len(fresh); i++ {
			if len(ps) == at {
				ps = append(ps, g.genuine(bad))
			}
			ps = append(ps, g.genuine(fresh[i]))
		}
		return ps
	}
	tryAt := func(bad *HProof, at int) {
		ps := build(bad, at)
		if len(ps) <= at {
			return
		}
		f, _ := s.feeOf(ps)
		in := sumReq(ps)
		if in <= f {
			return
		}
		s.OpSwap(ps, g.outputs(in-f, env.ActiveKeysetId()))
	}
	for _, at := range []int{255, 256, 499, 500, 511, 512, 998, 999, 1000} {
		tryAt(used, at)
		if locked != nil {
			tryAt(locked, at)
		}
	}
	// melt: the used / locked secret at position 999 of the inputs (must be refused before anything is paid)
	if li, err := env.LN.makeInvoice(5000, true); err == nil {
		s.regExt(li)
		if mq := s.OpMeltQuote(li, "sat", 0, 0); mq != nil {
			s.OpMeltLn(mq, build(used, 999), []string{"succ"}, false)
			if locked != nil {
				s.OpMeltLn(mq, build(locked, 999), []string{"succ"}, false)
			}
		}
	}
	// a request that the STORAGE layer refuses late: the same secret twice, the copies differing in the witness (they are
	// different structs for CheckDuplicateProofs and pass verification), at positions 129 and 130 of otherwise fresh
	// inputs. The insert of the second copy fails on the unique key; the request must be refused as a whole - none of the
	// 129 inputs before it may end up SPENT or locked (seeded change C15-7: multi-row inserts in batches of 128 without an
	// enclosing transaction). The state check over every secret below sees what was left behind.
	if len(fresh) >= 1000 {
		var ps []ReqProof
		for _, hp := range fresh[870 : 870+129] {
			ps = append(ps, g.genuine(hp))
		}
		twin := g.genuine(fresh[870+128])
		twin.P.Witness = "{\"signatures\":[\"00\"]}"
		ps = append(ps, twin)
		f, _ := s.feeOf(ps)
		if in := sumReq(ps); in > f+uint64(d) {
			s.OpSwap(ps, g.outputs(in-f-d, env.ActiveKeysetId()))
		}
		if li, err := env.LN.makeInvoice(3000, true); err == nil {
			s.regExt(li)
			if mq := s.OpMeltQuote(li, "sat", 0, 0); mq != nil {
				s.OpMeltLn(mq, ps, []string{"succ"}, false)
			}
		}
		s.c.Hist("corpus", "late storage refusal: twin secret at position 130")
	}
	// every secret of the history in one state check (every position at once)
	all := func() []YQuery {
		var qs []YQuery
		for _, hp := range s.proofs {
			if !hp.Long {
				qs = append(qs, YQuery{Y: YOf(hp.P.Secret), Sec: hp.P.Secret})
			}
		}
		return qs
	}
	s.OpCheckState(all(), []string{"pending", "pending", "pending", "pending", "pending", "pending"})
	// and one accepted request of that size
	var ps []ReqProof
	for _, hp := range fresh[:1001] {
		ps = append(ps, g.genuine(hp))
	}
	f, _ := s.feeOf(ps)
	if in := sumReq(ps); in > f {
		s.OpSwap(ps, g.outputs(in-f, env.ActiveKeysetId()))
	}
	s.OpCheckState(all(), []string{"pending", "pending", "pending", "pending", "pending", "pending"})
	// list lengths that are exact multiples of the batch sizes a storage layer might look lists up in (SQLite's
	// historical limit of 999 bound variables, powers of two, round numbers): seeded change C06-7 panicked on an EMPTY
	// trailing batch when the length was a multiple of 999
	qs := all()
	for _, k := range []int{512, 999, 1000, 1024, 1998, 2000} {
		if len(qs) >= k {
			s.OpCheckState(qs[:k], []string{"pending", "pending", "pending", "pending", "pending", "pending"})
			s.c.Hist("corpus", fmt.Sprintf("state check of exactly %d Ys", k))
		}
	}
	s.c.Hist("corpus", "long request lists")
}

func sumReq(ps []ReqProof) uint64 {
	var s uint64
	for _, p := range ps {
		s += p.P.Amount
	}
	return s
}

// honest outputs for a total, on keyset ksId
func (g *gen) outputs(total uint64, ksId string) []ReqOut {
	var outs []ReqOut
	for _, a := range cashu.AmountSplit(total) {
		secret := g.env.RandomSecret()
		if g.longSecrets && g.r.Chance(2) {
			// the mint signs blind: anybody can obtain a genuine signature over a secret beyond the 512-byte limit
			// (which must then be refused when presented) — ASCII and multi-byte text
			secret = []string{strings.Repeat("é", 300), strings.Repeat("世", 200), strings.Repeat("a", 511) + "é", strings.Repeat("a", 520)}[g.r.Intn(4)] + secret
		}
		o, err := g.env.MakeOutput(secret, a, ksId)
		if err != nil {
			continue
		}
		oc := o
		outs = append(outs, ReqOut{BM: o.BM, Kind: "pt", O: &oc})
	}
	return outs
}

// mutateOutputs applies one adversarial variant to honest outputs
func (g *gen) mutateOutputs(outs []ReqOut) ([]ReqOut, string) {
	r := g.r
	switch r.Intn(15) {
	case 13: // the same point in upper-case hex (a valid spelling: the mint decodes B_ with hex.DecodeString)
		if len(outs) > 0 {
			i := r.Intn(len(outs))
			outs[i].BM.B_ = strings.ToUpper(outs[i].BM.B_)
			return outs, "B-uppercase"
		}
	case 14: // one point twice in one request, once in lower- and once in upper-case hex (two different strings)
		if len(outs) >= 2 {
			outs[1].BM.B_ = strings.ToUpper(outs[0].BM.B_)
			outs[1].O = nil
			return outs, "same-point-other-case"
		}
	case 0: // duplicate output (identical struct)
		if len(outs) > 0 {
			return append(outs, outs[r.Intn(len(outs))]), "dup-output"
		}
	case 1: // raise one amount (still a key)
		if len(outs) > 0 {
			i := r.Intn(len(outs))
			outs[i].BM.Amount *= 2
			outs[i].O = nil
			return outs, "raised-amount"
		}
	case 2: // amount that is not a key
		if len(outs) > 0 {
			i := r.Intn(len(outs))
			outs[i].BM.Amount = outs[i].BM.Amount*2 + 1
			outs[i].O = nil
			return outs, "non-key-amount"
		}
	case 3: // unknown keyset
		if len(outs) > 0 {
			i := r.Intn(len(outs))
			outs[i].BM.Id = "00" + hex.EncodeToString(r.Bytes(7))
			outs[i].O = nil
			return outs, "unknown-keyset"
		}
	case 4: // inactive keyset (if any)
		if len(outs) > 0 && len(g.env.ksIds) > 1 {
			i := r.Intn(len(outs))
			act := g.env.ActiveKeysetId()
			for _, id := range g.env.ksIds {
				if id != act && id != "" {
					outs[i].BM.Id = id
					outs[i].O = nil
					return outs, "inactive-keyset"
				}
			}
		}
	case 5: // malformed B_
		if len(outs) > 0 {
			i := r.Intn(len(outs))
			outs[i].O = nil
			if r.Bool() {
				outs[i].BM.B_ = "zz" + outs[i].BM.B_[2:]
				outs[i].Kind = "nonhex"
			} else {
				outs[i].BM.B_ = "05" + outs[i].BM.B_[2:]
				outs[i].Kind = "nonpoint"
			}
			return outs, "bad-B"
		}
	case 6: // a B_ the mint already signed
		if len(g.s.sigOrder) > 0 && len(outs) > 0 {
			i := r.Intn(len(outs))
			outs[i].BM.B_ = g.s.sigOrder[r.Intn(len(g.s.sigOrder))]
			outs[i].O = nil
			return outs, "already-signed"
		}
	case 7: // overflowing amounts
		if len(outs) > 0 {
			outs = append(outs, g.rawOut(^uint64(0)-uint64(r.Intn(3))), g.rawOut(uint64(1+r.Intn(5))))
			return outs, "overflow-amounts"
		}
	case 8: // empty
		return nil, "empty-outputs"
	case 9: // extra output beyond the total
		o := g.outputs(uint64(1)<<uint(r.Intn(4)), g.env.ActiveKeysetId())
		return append(outs, o...), "extra-output"
	case 10: // same B_ twice with different amounts (not a struct duplicate)
		if len(outs) > 0 {
			d := outs[r.Intn(len(outs))]
			d.BM.Amount *= 2
			d.O = nil
			return append(outs, d), "same-B-other-amount"
		}
	case 12: // same B_ on two outputs with different amounts, total unchanged
		if len(outs) >= 2 {
			outs[1].BM.B_ = outs[0].BM.B_
			outs[1].O = nil
			return outs, "same-B-two-amounts"
		}
	case 11: // huge single amount 2^63
		outs = append(outs, g.rawOut(uint64(1)<<63))
		return outs, "amount-2^63"
	}
	return outs, "honest"
}

func (g *gen) rawOut(amount uint64) ReqOut {
	o, _ := g.env.MakeOutput(g.env.RandomSecret(), amount, g.env.ActiveKeysetId())
	return ReqOut{BM: o.BM, Kind: "pt"}
}

// mutateInputs applies one adversarial variant to genuine unspent inputs
var hostileSecrets = []string{
	`["P2PK",{"nonce":"00","data":"02aaaaaaaaaaaaaaaaaaaaaaaaaaaaaaaaaaaaaaaaaaaaaaaaaaaaaaaaaaaaaaaaaa","tags":[["locktime"]]}]`,
	`["P2PK",{"nonce":"00","data":"02aaaaaaaaaaaaaaaaaaaaaaaaaaaaaaaaaaaaaaaaaaaaaaaaaaaaaaaaaaaaaaaaaa","tags":[["sigflag"]]}]`,
	`["P2PK",{"nonce":"00","data":"02aaaaaaaaaaaaaaaaaaaaaaaaaaaaaaaaaaaaaaaaaaaaaaaaaaaaaaaaaaaaaaaaaa","tags":[["n_sigs"]]}]`,
	`["P2PK",{"nonce":"00","data":"02aaaaaaaaaaaaaaaaaaaaaaaaaaaaaaaaaaaaaaaaaaaaaaaaaaaaaaaaaaaaaaaaaa","tags":[["pubkeys"]]}]`,
	`["P2PK",{"nonce":"00","data":"02aaaaaaaaaaaaaaaaaaaaaaaaaaaaaaaaaaaaaaaaaaaaaaaaaaaaaaaaaaaaaaaaaa","tags":[["refund"]]}]`,
	`["P2PK",{"nonce":"00","data":"02aaaaaaaaaaaaaaaaaaaaaaaaaaaaaaaaaaaaaaaaaaaaaaaaaaaaaaaaaaaaaaaaaa","tags":[[]]}]`,
	`["P2PK",{"nonce":"00","data":"02aaaaaaaaaaaaaaaaaaaaaaaaaaaaaaaaaaaaaaaaaaaaaaaaaaaaaaaaaaaaaaaaaa","tags":[["n_sigs","x"]]}]`,
	`["P2PK",{"nonce":"00","data":"02aaaaaaaaaaaaaaaaaaaaaaaaaaaaaaaaaaaaaaaaaaaaaaaaaaaaaaaaaaaaaaaaaa","tags":[["n_sigs","-1"]]}]`,
	`["P2PK",{"nonce":"00","data":"02aaaaaaaaaaaaaaaaaaaaaaaaaaaaaaaaaaaaaaaaaaaaaaaaaaaaaaaaaaaaaaaaaa","tags":[["locktime","99999999999999999999999999"]]}]`,
	`["P2PK",{"nonce":"00","data":"02aaaaaaaaaaaaaaaaaaaaaaaaaaaaaaaaaaaaaaaaaaaaaaaaaaaaaaaaaaaaaaaaaa","tags":[["pubkeys","zz"],["n_sigs","2"]]}]`,
	`["P2PK",{"nonce":"00","data":"","tags":[]}]`,
	// keys that are hex but not a compressed secp256k1 point: an x-only key, a point not on the curve, a bad prefix
	`["P2PK",{"nonce":"00","data":"79be667ef9dcbbac55a06295ce870b07029bfcdb2dce28d959f2815b16f81798","tags":[]}]`,
	`["P2PK",{"nonce":"00","data":"020000000000000000000000000000000000000000000000000000000000000005","tags":[]}]`,
	`["P2PK",{"nonce":"00","data":"0579be667ef9dcbbac55a06295ce870b07029bfcdb2dce28d959f2815b16f81798","tags":[]}]`,
	`["P2PK",{"nonce":"00","data":"0279be667ef9dcbbac55a06295ce870b07029bfcdb2dce28d959f2815b16f81798","tags":[["pubkeys","79be667ef9dcbbac55a06295ce870b07029bfcdb2dce28d959f2815b16f81798"],["n_sigs","1"]]}]`,
	`["P2PK",{"nonce":"00","data":"0279be667ef9dcbbac55a06295ce870b07029bfcdb2dce28d959f2815b16f81798","tags":[["refund","00"],["locktime","1"]]}]`,
	`["HTLC",{"nonce":"00","data":"0000000000000000000000000000000000000000000000000000000000000000","tags":[["pubkeys","79be667ef9dcbbac55a06295ce870b07029bfcdb2dce28d959f2815b16f81798"],["n_sigs","1"]]}]`,
	`["P2PK",{"nonce":"00","data":"02","tags":null}]`,
	`["P2PK",{}]`,
	`["P2PK"]`,
	`["HTLC",{"nonce":"00","data":"00","tags":[["locktime"]]}]`,
	`["HTLC",{"nonce":"00","data":"zz","tags":[["pubkeys"]]}]`,
	`["HTLC",{"nonce":"00","data":"0000000000000000000000000000000000000000000000000000000000000000","tags":[["refund"],["locktime","1"]]}]`,
	`["XXXX",{"nonce":"00","data":"00","tags":[["a"]]}]`,
	`[1,{"nonce":"00","data":"00"}]`,
	`["P2PK",{"nonce":"00","data":"02aaaaaaaaaaaaaaaaaaaaaaaaaaaaaaaaaaaaaaaaaaaaaaaaaaaaaaaaaaaaaaaaaa","tags":[["sigflag","SIG_ALL"],["locktime"]]}]`,
}

func (g *gen) mutateInputs(ps []ReqProof) ([]ReqProof, string) {
	r := g.r
	all := g.s.proofs
	if g.hostile && len(ps) > 0 && r.Chance(12) {
		// monitor-only streams: a well-formed NUT-10 envelope with hostile content (the spending condition is parsed
		// before the signature is checked, so the proof need not be genuine): short / empty / odd tags, wrong kinds,
		// non-numeric numbers.  Must be refused without a panic and without any change.
		i := r.Intn(len(ps))
		ps[i].P.Secret = hostileSecrets[r.Intn(len(hostileSecrets))]
		ps[i].H = nil
		ps[i].C = CInfo{Kind: "other", Enc: 0}
		return ps, "nut10-hostile"
	}
	switch r.Intn(17) {
	case 16: // keyset id in upper-case hex: another string, not the id of any keyset
		if len(ps) > 0 {
			i := r.Intn(len(ps))
			if up := strings.ToUpper(ps[i].P.Id); up != ps[i].P.Id {
				ps[i].P.Id = up
				return ps, "id-uppercase"
			}
		}
	case 0: // re-present an already consumed or locked secret
		var used []*HProof
		for _, hp := range all {
			if len(hp.ConsumedBy) > 0 || hp.LockedBy != 0 {
				used = append(used, hp)
			}
		}
		if len(used) > 0 {
			rp := g.genuine(used[r.Intn(len(used))])
			if r.Bool() {
				rp.P.Witness = "{\"signatures\":[\"" + hex.EncodeToString(r.Bytes(4)) + "\"]}"
			}
			return append(ps, rp), "replayed-secret"
		}
	case 1: // identical duplicate inside the request
		if len(ps) > 0 {
			return append(ps, ps[r.Intn(len(ps))]), "dup-identical"
		}
	case 2: // same secret, changed witness (passes struct-equality duplicate check)
		if len(ps) > 0 {
			d := ps[r.Intn(len(ps))]
			d.P.Witness = "w" + hex.EncodeToString(r.Bytes(3))
			return append(ps, d), "dup-other-witness"
		}
	case 3: // same secret with a DLEQ pointer
		if len(ps) > 0 {
			d := ps[r.Intn(len(ps))]
			d.P.DLEQ = &cashu.DLEQProof{E: "00", S: "00"}
			g.s.nDleq++
			d.Dleq = g.s.nDleq
			return append(ps, d), "dup-with-dleq"
		}
	case 4: // amount changed to another denomination
		if len(ps) > 0 {
			i := r.Intn(len(ps))
			ps[i].P.Amount = uint64(1) << uint(r.Intn(60))
			return ps, "amount-mutated"
		}
	case 5: // amount that is no key
		if len(ps) > 0 {
			i := r.Intn(len(ps))
			ps[i].P.Amount = ps[i].P.Amount*2 + 1
			return ps, "amount-non-key"
		}
	case 6: // keyset id changed to another known keyset / unknown
		if len(ps) > 0 {
			i := r.Intn(len(ps))
			if len(g.env.ksIds) > 1 && r.Bool() {
				for _, id := range g.env.ksIds {
					if id != ps[i].P.Id && id != "" {
						ps[i].P.Id = id
						break
					}
				}
				return ps, "id-other-keyset"
			}
			ps[i].P.Id = "00" + hex.EncodeToString(r.Bytes(7))
			return ps, "id-unknown"
		}
	case 7: // C of another proof
		if len(ps) > 0 && len(all) > 1 {
			i := r.Intn(len(ps))
			o := all[r.Intn(len(all))]
			if o.P.Secret != ps[i].P.Secret {
				ps[i].P.C = o.P.C
				ps[i].C = CInfo{Kind: "sig", Ks: o.KsIdx, Amt: o.Amount, Sec: o.SecretId}
				return ps, "C-of-other"
			}
		}
	case 8: // C = some other valid point
		if len(ps) > 0 {
			i := r.Intn(len(ps))
			ps[i].P.C = YOf(hex.EncodeToString(r.Bytes(8)))
			ps[i].C = CInfo{Kind: "other", Tag: g.s.symWitness("c:" + ps[i].P.C)}
			return ps, "C-other-point"
		}
	case 9: // C not hex / not a point
		if len(ps) > 0 {
			i := r.Intn(len(ps))
			if r.Bool() {
				ps[i].P.C = "zz" + ps[i].P.C[2:]
				ps[i].C = CInfo{Kind: "nonhex", Tag: g.s.symWitness("c:" + ps[i].P.C)}
			} else {
				ps[i].P.C = "07" + ps[i].P.C[2:]
				ps[i].C = CInfo{Kind: "nonpoint", Tag: g.s.symWitness("c:" + ps[i].P.C)}
			}
			return ps, "C-malformed"
		}
	case 10: // secret edited
		if len(ps) > 0 {
			i := r.Intn(len(ps))
			ps[i].P.Secret = ps[i].P.Secret + "00"
			ps[i].H = nil
			return ps, "secret-edited"
		}
	case 11: // oversized secret
		if len(ps) > 0 {
			i := r.Intn(len(ps))
			// the limit is in BYTES: ASCII just over it, and multi-byte text that is short in characters
			switch r.Intn(4) {
			case 0:
				ps[i].P.Secret = strings.Repeat("é", 257+r.Intn(100)) // 514.. bytes, <= 356 characters
			case 1:
				ps[i].P.Secret = strings.Repeat("世", 171+r.Intn(300)) // 513.. bytes, <= 470 characters
			case 2:
				ps[i].P.Secret = strings.Repeat("a", 511) + "é" // 513 bytes, 512 characters
			default:
				ps[i].P.Secret = strings.Repeat("a", 513+r.Intn(3))
			}
			ps[i].Long = len(ps[i].P.Secret) > 512
			ps[i].H = nil
			return ps, "secret-too-long"
		}
	case 12: // exactly 512 bytes (allowed length, but not genuine)
		if len(ps) > 0 {
			i := r.Intn(len(ps))
			ps[i].P.Secret = strings.Repeat("b", 512)
			if r.Bool() {
				ps[i].P.Secret = strings.Repeat("é", 256) // 512 bytes in 256 characters
			}
			ps[i].H = nil
			return ps, "secret-512"
		}
	case 13: // no inputs
		return nil, "empty-inputs"
	case 14: // upper-case hex C (same point, different string)
		if len(ps) > 0 {
			i := r.Intn(len(ps))
			ps[i].P.C = strings.ToUpper(ps[i].P.C)
			ps[i].C.Enc = 1
			return ps, "C-uppercase"
		}
	case 15: // forged proof out of thin air
		sec := g.env.RandomSecret()
		p := cashu.Proof{Amount: uint64(1) << uint(r.Intn(8)), Id: g.env.ActiveKeysetId(), Secret: sec, C: YOf(sec)}
		return append(ps, ReqProof{P: p, C: CInfo{Kind: "other", Tag: g.s.symWitness("c:" + p.C)}}), "forged"
	}
	return ps, "honest"
}

func (g *gen) script(n int, forPay bool) []string {
	pay := []string{"succ", "succ", "pending", "failed", "failed-err", "err"}
	st := []string{"succ", "pending", "failed", "notfound", "notfound-grpc", "err"}
	var out []string
	for i := 0; i < n; i++ {
		if i == 0 && forPay {
			out = append(out, pay[g.r.Intn(len(pay))])
		} else {
			out = append(out, st[g.r.Intn(len(st))])
		}
	}
	return out
}

func runMintSeq(c *Ctx) {
	histories, minOps, maxOps := 24, 60, 120
	if c.Thorough {
		histories, minOps, maxOps = 150, 80, 200
	}
	// sharded runs (different seeds) split the histories between them
	if !c.Thorough {
		histories = (histories + c.ShardN - 1) / c.ShardN
	}
	for h := 0; h < histories; h++ {
		runOneHistory(c, h, minOps+c.Rng.Intn(maxOps-minOps+1), true)
	}
}

func runOneHistory(c *Ctx, h int, nOps int, model bool) {
	// every history draws from its own fork of the run's PRNG: how much one history consumes (the corpus of history 0
	// grows with every seeded change that was missed) does not change the histories after it
	parent := c.Rng
	c.Rng = parent.Fork()
	defer func() { c.Rng = parent }()
	r := c.Rng
	opts := MintOpts{FeePpk: feeChoices[r.Intn(len(feeChoices))], FeePct: r.Chance(60), MPP: r.Chance(40)}
	if r.Chance(25) {
		opts.Limits = mint.MintLimits{MaxBalance: uint64(200 + r.Intn(3000))}
		opts.Limits.MintingSettings.MaxAmount = uint64(64 + r.Intn(2000))
		opts.Limits.MeltingSettings.MaxAmount = uint64(64 + r.Intn(2000))
	}
	if h == 0 {
		opts.Limits = mint.MintLimits{} // the first history runs the corpus, which assumes no limits
	}
	env, err := NewMintEnv(c, fmt.Sprintf("mint-%d", h), opts)
	if err != nil {
		c.Disagree(mintSeqProps, "setup", err.Error(), "", nil)
		return
	}
	defer env.Close()
	s := NewSeq(c, env, model, mintSeqProps)
	g := &gen{c: c, s: s, env: env, r: r, longSecrets: true, hostile: !model}
	if model {
		init := L(A("mint.init"), N(uint64(opts.FeePpk)), B(opts.FeePct), B(opts.MPP), N(opts.Limits.MintingSettings.MaxAmount),
			N(opts.Limits.MaxBalance), N(opts.Limits.MeltingSettings.MaxAmount))
		s.log = append(s.log, Render(init))
		if m := c.Drv.Ask(init); m != "(ok)" {
			c.Disagree(mintSeqProps, Render(init), "(ok)", m, nil)
			return
		}
	}
	if h == 0 {
		g.corpus()
		if len(c.Res.Disagreements) > 0 {
			return
		}
		g.bigLists()
		if len(c.Res.Disagreements) > 0 {
			return
		}
	}
	for i := 0; i < nOps; i++ {
		g.step()
		if len(c.Res.Disagreements) > 0 {
			return // the model state has diverged; later comparisons are meaningless
		}
	}
	if h < 2 {
		c.Sample(map[string]any{"history": h, "first_ops": s.log[:min(len(s.log), 12)]})
	}
}

func min(a, b int) int {
	if a < b {
		return a
	}
	return b
}

func (g *gen) step() {
	r, s, env := g.r, g.s, g.env
	u := g.unspent()
	w := r.Intn(100)
	if env.Opts.Limits.MaxBalance > 0 && r.Chance(8) {
		s.OpBalance() // the report is watched more closely where a limit depends on it
		return
	}
	if mb := env.Opts.Limits.MaxBalance; mb > 0 && r.Chance(10) {
		// walk the balance up to EXACTLY the maximum (the only way to reach "minting disabled": a quote that would pass
		// the maximum is refused), reading the report before and after
		var iss, red uint64
		for _, v := range s.issuedByKs {
			iss += v
		}
		for _, v := range s.redeemedByKs {
			red += v
		}
		if iss >= red && iss-red < mb {
			amt := mb - (iss - red)
			if ma := env.Opts.Limits.MintingSettings.MaxAmount; ma > 0 && amt > ma {
				amt = ma
			}
			s.OpBalance()
			if q := s.OpMintQuote(amt, "sat", 0, false); q != nil {
				s.Settle(q)
				s.OpMint(q, g.outputs(amt, env.ActiveKeysetId()), 0)
			}
			s.OpBalance()
			return
		}
	}
	switch {
	case w < 12: // mint quote
		amt := uint64(1 + r.Intn(300))
		switch r.Intn(14) {
		case 0:
			amt = 0
		case 1:
			amt = uint64(1)<<63 - uint64(r.Intn(2))
		case 2:
			amt = ^uint64(0) - uint64(r.Intn(2))
		case 3:
			amt = uint64(1) << 62
		case 4, 5:
			amt = uint64(1000 + r.Intn(5000))
		}
		unit := "sat"
		if r.Chance(4) {
			unit = "usd"
		}
		pk := 0
		if r.Chance(25) {
			pk = 1
		} else if r.Chance(4) {
			pk = 2
		}
		if r.Chance(15) {
			env.LN.ExpireNext = true // settled-then-expired invoices must still be honoured
		}
		q := s.OpMintQuote(amt, unit, pk, r.Chance(4))
		env.LN.ExpireNext = false
		if q != nil && r.Chance(75) {
			s.Settle(q)
		}
	case w < 16: // late / duplicate notifications and polls
		if len(s.mintQs) > 0 {
			q := s.mintQs[r.Intn(len(s.mintQs))]
			switch r.Intn(4) {
			case 0:
				s.Settle(q)
			case 1:
				li := env.LN.byHash[q.Hash]
				// (the watcher of a quote stops at the quote's expiry: no notification reaches it afterwards)
				if li != nil && li.settled && !li.expired {
					s.Notify(q)
				}
			default:
				s.OpQuoteState(q, r.Chance(10))
			}
		} else {
			s.OpQuoteStateUnknown()
		}
	case w < 32: // mint tokens
		if len(s.mintQs) == 0 {
			return
		}
		q := s.mintQs[r.Intn(len(s.mintQs))]
		// prefer quotes that can still be issued
		for t := 0; t < 4 && q.Issued > 0; t++ {
			q = s.mintQs[r.Intn(len(s.mintQs))]
		}
		total := q.Amount
		if total > 1<<40 {
			total = uint64(1 + r.Intn(1000))
		}
		if r.Chance(15) && total > 1 {
			total = uint64(1 + r.Intn(int(total)))
		}
		outs := g.outputs(total, env.ActiveKeysetId())
		if r.Chance(30) {
			outs, _ = g.mutateOutputs(outs)
		}
		sigMode := 0
		if q.Key != nil {
			sigMode = 1
			if r.Chance(30) {
				sigMode = []int{0, 2, 3, 4, 5, 6}[r.Intn(6)]
			}
		} else if r.Chance(10) {
			sigMode = 2
		}
		s.OpMint(q, outs, sigMode)
	case w < 58: // swap
		n := 1 + r.Intn(4)
		ps := g.pick(n)
		if len(ps) == 0 && !r.Chance(20) {
			return
		}
		variant := "honest"
		g.witnesses(ps)
		if r.Chance(40) {
			ps, variant = g.mutateInputs(ps)
		}
		fee, _ := s.feeOf(ps)
		in := sumReq(ps)
		var total uint64
		if in > fee {
			total = in - fee
		}
		if total > 1<<40 {
			total = uint64(1 + r.Intn(1000))
		}
		switch r.Intn(12) {
		case 0:
			total++ // outputs exceed inputs minus fee by one
		case 1:
			total += fee // ignores the fee
		case 2:
			if total > 1 {
				total-- // leaves a tip
			}
		}
		outs := g.outputs(total, env.ActiveKeysetId())
		if r.Chance(20) {
			outs, _ = g.mutateOutputs(outs)
		}
		_ = variant
		s.OpSwap(ps, outs)
	case w < 66: // melt quote
		var inv *lnInvoice
		mode := 0
		var mpp uint64
		switch r.Intn(10) {
		case 0: // own mint quote's invoice => internal settlement
			if len(s.mintQs) > 0 {
				q := s.mintQs[r.Intn(len(s.mintQs))]
				inv = env.LN.byHash[q.Hash]
			}
		case 1: // an invoice already quoted
			if len(g.ext) > 0 {
				inv = g.ext[r.Intn(len(g.ext))]
			}
		case 2:
			mode = 1
		case 3: // amountless invoice
			li, err := env.LN.makeInvoice(0, true)
			if err == nil {
				s.regExt(li)
				inv, mode = li, 2
			}
		case 4: // somebody else's invoice with the payment hash of one of the mint's own invoices, any amount (F17)
			if len(s.mintQs) > 0 {
				q := s.mintQs[r.Intn(len(s.mintQs))]
				if own := env.LN.byHash[q.Hash]; own != nil && !own.huge {
					msat := uint64(1+r.Intn(300)) * 1000
					if r.Chance(30) {
						msat = own.msat
					}
					if fi, err := env.LN.forgeInvoice(own, msat); err == nil {
						s.regExt(fi)
						inv = fi
					}
				}
			}
		}
		if inv == nil && mode == 0 {
			msat := uint64(1+r.Intn(200)) * 1000
			if r.Chance(35) {
				msat += uint64(1 + r.Intn(999)) // msat precision
			}
			if r.Chance(5) {
				msat = uint64(1 + r.Intn(999)) // below one sat
			}
			if mm := env.Opts.Limits.MeltingSettings.MaxAmount; mm > 0 && r.Chance(35) {
				// around the configured melt maximum, with and without a sub-sat remainder (the quote burns the amount
				// rounded UP to whole sats: max*1000+1 msat is already over the maximum)
				msat = []uint64{mm * 1000, mm*1000 + 1, mm*1000 + 999, mm*1000 + 1000, mm*1000 - 1, mm*1000 + uint64(1+r.Intn(999))}[r.Intn(6)]
			}
			li, err := env.LN.makeInvoice(msat, true)
			if err != nil {
				return
			}
			s.regExt(li)
			g.ext = append(g.ext, li)
			inv = li
		}
		if mm := env.Opts.Limits.MeltingSettings.MaxAmount; inv != nil && env.Opts.MPP && mm > 0 && inv.msat > mm*1000+1000 && r.Chance(30) {
			mpp = mm*1000 + uint64(r.Intn(1001)) // an MPP part around the melt maximum
		} else if inv != nil && r.Chance(25) {
			switch r.Intn(4) {
			case 0:
				mpp = inv.msat // not less
			case 1:
				mpp = inv.msat + 1
			default:
				if inv.msat > 1 {
					mpp = 1 + uint64(r.Intn(int(inv.msat-1)))
				}
			}
		}
		unit := "sat"
		if r.Chance(4) {
			unit = "eur"
		}
		s.OpMeltQuote(inv, unit, mpp, mode)
	case w < 80: // melt
		if len(s.meltQs) == 0 {
			return
		}
		q := s.meltQs[r.Intn(len(s.meltQs))]
		for t := 0; t < 3 && q.Expect != "UNPAID"; t++ {
			q = s.meltQs[r.Intn(len(s.meltQs))]
		}
		need := q.Amount + q.Reserve
		var ps []ReqProof
		// greedy cover
		var have uint64
		for _, hp := range u {
			if have >= need+3 {
				break
			}
			ps = append(ps, g.genuine(hp))
			have += hp.P.Amount
		}
		if r.Chance(15) && len(ps) > 1 {
			ps = ps[:len(ps)-1] // probably insufficient
		}
		g.witnesses(ps)
		if r.Chance(25) {
			ps, _ = g.mutateInputs(ps)
		}
		s.OpMeltLn(q, ps, g.script(1+r.Intn(2), true), q.Internal && r.Chance(15))
		g.respend(q, 35)
	case w < 86: // melt poll
		if len(s.meltQs) == 0 {
			return
		}
		q := s.meltQs[r.Intn(len(s.meltQs))]
		for t := 0; t < 3 && q.Expect != "PENDING"; t++ {
			q = s.meltQs[r.Intn(len(s.meltQs))]
		}
		s.OpMeltState(q, g.script(1, false))
		g.respend(q, 60)
	case w < 92: // checkstate
		var qs []YQuery
		n := 1 + r.Intn(6)
		for i := 0; i < n; i++ {
			switch {
			case len(s.proofs) > 0 && r.Chance(75):
				hp := s.proofs[r.Intn(len(s.proofs))]
				qs = append(qs, YQuery{Y: YOf(hp.P.Secret), Sec: hp.P.Secret})
			case r.Chance(50):
				qs = append(qs, YQuery{Y: YOf(hex.EncodeToString(r.Bytes(8)))})
			default:
				qs = append(qs, YQuery{Y: []string{"", "zz", "02abc", strings.Repeat("f", 66)}[r.Intn(4)]})
			}
		}
		if r.Chance(20) && len(qs) > 0 {
			qs = append(qs, qs[0]) // repeated Y
		}
		if r.Chance(5) {
			qs = nil
		}
		// pending melts among them are re-polled: give each poll an answer
		// (map iteration order in the mint: all polls of one request get the same answer)
		one := g.script(1, false)[0]
		s.OpCheckState(qs, []string{one, one, one, one, one, one})
	case w < 96: // restore
		var qs []cashu.BlindedMessage
		n := 1 + r.Intn(6)
		for i := 0; i < n; i++ {
			if len(s.sigOrder) > 0 && r.Chance(65) {
				qs = append(qs, cashu.BlindedMessage{B_: s.sigOrder[r.Intn(len(s.sigOrder))], Id: env.ActiveKeysetId()})
			} else if r.Chance(70) {
				qs = append(qs, g.rawOut(1).BM)
			} else {
				qs = append(qs, cashu.BlindedMessage{B_: []string{"", "zz", "02ab"}[r.Intn(3)]})
			}
		}
		if r.Chance(20) && len(qs) > 0 {
			qs = append(qs, qs[0])
		}
		if r.Chance(5) {
			qs = nil
		}
		s.OpRestore(qs)
	case w < 98:
		s.OpBalance()
	default:
		if r.Chance(50) {
			s.OpRotate(feeChoices[r.Intn(len(feeChoices))])
		} else {
			rot := r.Chance(40)
			fee := env.Opts.FeePpk
			if rot {
				fee = feeChoices[r.Intn(len(feeChoices))]
			}
			s.OpRestart(rot, fee)
		}
	}
}

// regExt tells the model about an invoice created outside the mint.
func (s *Seq) regExt(li *lnInvoice) {
	line := L(A("mint.extinvoice"), I(li.id), N(li.msat))
	s.log = append(s.log, Render(line))
	if s.model {
		if m := s.c.Drv.Ask(line); m != "(ok)" {
			s.c.Disagree(s.props, Render(line), "(ok)", m, s.replay())
		}
	}
}

func init() {
	register("mint-mon", mintSeqProps,
		"same generator as mint-seq but model-free: only the property monitors (ledger, double-spend, issuance count, melt table, no-change-on-reject, truth of checkstate/restore, balances) run, on more histories",
		func(c *Ctx) {
			histories := 30
			if c.Thorough {
				histories = 300
			}
			if !c.Thorough {
				histories = (histories + c.ShardN - 1) / c.ShardN
			}
			for h := 0; h < histories; h++ {
				runOneHistory(c, h, 80+c.Rng.Intn(100), false)
			}
		})
}
