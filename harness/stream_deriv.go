package main

// Stream "deriv" (property C11): hash_to_curve, keyset id, NUT-13 secret / blinding factor,
// the wallet P2PK key and the mint keysets of the REAL Go code, bit for bit against
//   (1) the Lean reference `Gonuts.Spec.*` behind the driver's `spec.*` commands, and
//   (2) the model-free Go monitor in spec_monitor.go (crypto/sha256, crypto/hmac, math/big only).
// Go ≠ Lean is a correspondence disagreement; Go ≠ monitor is a C11 monitor failure.

import (
	"bytes"
	"crypto/hmac"
	"crypto/sha256"
	"crypto/sha512"
	"encoding/hex"
	"fmt"
	"math/big"
	"os"
	"strings"
	"time"

	"github.com/btcsuite/btcd/btcutil/hdkeychain"
	"github.com/btcsuite/btcd/chaincfg"
	"github.com/decred/dcrd/dcrec/secp256k1/v4"
	"github.com/elnosh/gonuts/cashu/nuts/nut13"
	"github.com/elnosh/gonuts/crypto"
	"github.com/elnosh/gonuts/wallet"
)

var dvDeepCorpus = []string{
	"000000000000000000000000000000000000000000000000000000000000590d",
	"0000000000000000000000000000000000000000000000000000000000005cb2",
	"000000000000000000000000000000000000000000000000000000000000f5df",
	"000000000000000000000000000000000000000000000000000000000001095e",
	"0000000000000000000000000000000000000000000000000000000000033043",
	"00000000000000000000000000000000000000000000000000000000000048ca",
	"0000000000000000000000000000000000000000000000000000000000087de8",
	"000000000000000000000000000000000000000000000000000000000003960a",
	"00000000000000000000000000000000000000000000000000000000000e9c57",
	"000000000000000000000000000000000000000000000000000000000009292b",
}

func init() {
	register("deriv", []string{"C11", "C09"},
		"real Go derivations vs Lean Spec.* (driver) vs math/big monitor, bit for bit: (a) hash_to_curve on messages of length 0..600 "+
			"(block-boundary lengths, non-UTF-8, pre-searched pool with >=20 messages for every counter depth 1..8 and the deepest found), "+
			"(b) keyset ids of key sets of size 1..64 with random/edge amounts in shuffled order + real 60-key keysets, "+
			"(c) NUT-13 (seed,id,counter) triples: seeds of 16..64 bytes x ids 00../ff../80../real/mod-boundary x counters {0,1,2,2^31-2,2^31-1,random} "+
			"+ pre-searched triples whose path or result has a leading zero byte, (d) wallet P2PK key, (e) mint keysets idx 0..3 (+large idx): id, 60 public and private keys, "+
			"(f) SHA-256/512, HMAC-SHA512, BIP32 paths and SEC1 parsing against the Go standard library / hdkeychain / dcrec; "+
			"class = (function, shape of the input)",
		runDeriv)
}

var derivProps = []string{"C11"}

// ---------- a batch of driver questions with the implementation's answers ----------

type specCase struct {
	op     Sx
	impl   string // canonical outcome of the real code
	key    string // class
	replay any
	props  []string
}

type specBatch struct {
	c     *Ctx
	cases []specCase
}

func (b *specBatch) add(op Sx, impl, key string, replay any) {
	b.cases = append(b.cases, specCase{op, impl, key, replay, derivProps})
}

func (b *specBatch) addFor(props []string, op Sx, impl, key string, replay any) {
	b.cases = append(b.cases, specCase{op, impl, key, replay, props})
}

// flush asks the driver and compares; returns the wall time spent waiting for Lean.
func (b *specBatch) flush(section string) time.Duration {
	if len(b.cases) == 0 {
		return 0
	}
	ops := make([]Sx, len(b.cases))
	for i, cs := range b.cases {
		ops[i] = cs.op
	}
	t0 := time.Now()
	models := b.c.Drv.Batch(ops)
	dt := time.Since(t0)
	for i, cs := range b.cases {
		b.c.Case(cs.key, true)
		b.c.Hist("class", strings.SplitN(cs.key, "/", 3)[0]+"/"+dvClassSecond(cs.key))
		if i < 2 {
			b.c.Sample(map[string]string{"op": dvClip(Render(cs.op), 300), "impl": dvClip(cs.impl, 300), "model": dvClip(models[i], 300)})
		}
		if models[i] != cs.impl {
			b.c.Disagree(cs.props, dvClip(Render(cs.op), 4000), dvClip(cs.impl, 4000), dvClip(models[i], 4000), cs.replay)
		}
	}
	n := len(b.cases)
	b.cases = b.cases[:0]
	msg := fmt.Sprintf("spec timing: %-10s %6d cases, Lean %8.1f ms (%.3f ms/case)", section, n, float64(dt.Microseconds())/1000, float64(dt.Microseconds())/1000/float64(n))
	fmt.Fprintln(os.Stderr, msg)
	b.c.Res.Notes = append(b.c.Res.Notes, msg)
	return dt
}

func dvClassSecond(key string) string {
	p := strings.Split(key, "/")
	if len(p) > 1 {
		return p[1]
	}
	return ""
}

func dvClip(s string, n int) string {
	if len(s) > n {
		return s[:n] + "…"
	}
	return s
}

func dvHex(b []byte) Sx { return S(hex.EncodeToString(b)) }

func dvOk(xs ...Sx) string { return Render(L(append([]Sx{A("ok")}, xs...)...)) }

// dvProtect runs f and turns a panic of the code under test into an outcome.
func dvProtect(f func() string) (out string) {
	defer func() {
		if r := recover(); r != nil {
			out = Render(L(A("panic"), S(fmt.Sprint(r))))
		}
	}()
	return f()
}

// ---------- generators ----------

// message lengths around the SHA-256 block boundaries of (28-byte separator ‖ msg)
var dvH2CEdgeLens = []int{0, 1, 2, 26, 27, 28, 29, 31, 32, 33, 35, 36, 37, 63, 64, 65, 90, 91, 92, 93, 99, 100, 101, 119, 120, 127, 128, 155, 156, 163, 164, 255, 256, 511, 512, 513, 599, 600}

func dvGenMessage(r *Rng, i int) []byte {
	switch r.Intn(8) {
	case 0:
		return r.Bytes(dvH2CEdgeLens[r.Intn(len(dvH2CEdgeLens))])
	case 1: // 64-char hex text, what wallets actually hash (NUT-13 secrets)
		return []byte(hex.EncodeToString(r.Bytes(32)))
	case 2: // constant bytes
		return bytes.Repeat([]byte{byte(r.U64())}, r.Intn(601))
	case 3: // invalid UTF-8 on purpose
		b := r.Bytes(1 + r.Intn(64))
		b[0] = 0xff
		b[len(b)-1] = 0xc0
		return b
	case 4: // NUT-10 style JSON secret
		return []byte(fmt.Sprintf(`["P2PK",{"nonce":"%x","data":"02%x","tags":[["sigflag","SIG_ALL"]]}]`, r.Bytes(16), r.Bytes(32)))
	case 5:
		return r.Bytes(i % 601)
	default:
		return r.Bytes(r.Intn(601))
	}
}

// dvH2CDepth: the harness' own loop (crypto/sha256 + secp256k1.ParsePubKey), as the task demands,
// used only to classify and pre-search messages by the number of iterations they need.
func dvH2CDepth(msg []byte) int {
	mh := sha256.Sum256(append([]byte("Secp256k1_HashToCurve_Cashu_"), msg...))
	for counter := uint32(0); counter < 1<<16; counter++ {
		c := []byte{byte(counter), byte(counter >> 8), byte(counter >> 16), byte(counter >> 24)}
		h := sha256.Sum256(append(mh[:], c...))
		if _, err := secp256k1.ParsePubKey(append([]byte{2}, h[:]...)); err == nil {
			return int(counter) + 1
		}
	}
	return -1
}

func dvEdgeAmount(r *Rng) uint64 {
	switch r.Intn(6) {
	case 0:
		return uint64(1) << uint(r.Intn(64))
	case 1:
		return uint64(r.Intn(5))
	case 2:
		return ^uint64(0) - uint64(r.Intn(3))
	case 3:
		return uint64(1)<<63 + uint64(r.Intn(3)) - 1
	case 4:
		return r.U64() >> uint(r.Intn(64))
	default:
		return r.U64()
	}
}

func dvRandScalar(r *Rng) *secp256k1.PrivateKey {
	for {
		b := r.Bytes(32)
		var s secp256k1.ModNScalar
		if overflow := s.SetByteSlice(b); !overflow && !s.IsZero() {
			return secp256k1.PrivKeyFromBytes(b)
		}
	}
}

func dvGenSeed(r *Rng) []byte {
	switch r.Intn(6) {
	case 0:
		return r.Bytes(16)
	case 1:
		return r.Bytes(32)
	case 2:
		return r.Bytes(64)
	case 3:
		return r.Bytes(16 + r.Intn(49))
	case 4:
		return bytes.Repeat([]byte{byte(r.Intn(3)) * 0x7f}, 16+r.Intn(49))
	default:
		return r.Bytes(64)
	}
}

func dvU64be(v uint64) []byte {
	return []byte{byte(v >> 56), byte(v >> 48), byte(v >> 40), byte(v >> 32), byte(v >> 24), byte(v >> 16), byte(v >> 8), byte(v)}
}

const dvIdMod = uint64(1)<<31 - 1

// dvGenKeysetIdBytes: 8-byte ids by class.
func dvGenKeysetIdBytes(r *Rng, realIds [][]byte) ([]byte, string) {
	switch r.Intn(10) {
	case 0:
		return dvU64be(0), "00.."
	case 1:
		return dvU64be(^uint64(0)), "ff.."
	case 2:
		return dvU64be(uint64(1) << 63), "80.."
	case 3, 4:
		return realIds[r.Intn(len(realIds))], "real"
	case 5: // value ≡ 0 mod 2^31-1
		k := r.U64() % (^uint64(0) / dvIdMod)
		return dvU64be(k * dvIdMod), "mod=0"
	case 6: // value ≡ 2^31-2
		k := r.U64()%(^uint64(0)/dvIdMod-1) + 1
		return dvU64be(k*dvIdMod - 1), "mod=max"
	case 7: // high bits set
		return dvU64be(r.U64() | 0xff00000000000000), "high"
	case 8: // small values around the modulus
		return dvU64be(dvIdMod - 2 + uint64(r.Intn(5))), "near-mod"
	default:
		b := r.Bytes(8)
		b[0] = 0
		return b, "00+random"
	}
}

func dvGenCounter(r *Rng) (uint32, string) {
	switch r.Intn(9) {
	case 0:
		return 0, "0"
	case 1:
		return 1, "1"
	case 2:
		return 2, "2"
	case 3:
		return 1<<31 - 2, "2^31-2"
	case 4:
		return 1<<31 - 1, "2^31-1"
	case 5:
		return uint32(r.Intn(1000)), "small"
	default:
		return uint32(r.U64() % (1 << 31)), "random"
	}
}

// ---------- the real code, canonicalised ----------

func dvGoH2C(msg []byte) string {
	return dvProtect(func() string {
		pk, err := crypto.HashToCurve(msg)
		if err != nil {
			return "(none)"
		}
		return hex.EncodeToString(pk.SerializeCompressed())
	})
}

func dvGoNut13(seed []byte, idHex string, counter uint32) string {
	return dvProtect(func() string {
		master, err := hdkeychain.NewMaster(seed, &chaincfg.MainNetParams)
		if err != nil {
			return "(invalid-seed)"
		}
		path, err := nut13.DeriveKeysetPath(master, idHex)
		if err != nil {
			return "(invalid-child)"
		}
		secret, err := nut13.DeriveSecret(path, counter)
		if err != nil {
			return "(invalid-child)"
		}
		r, err := nut13.DeriveBlindingFactor(path, counter)
		if err != nil {
			return "(invalid-child)"
		}
		return dvOk(S(secret), dvHex(r.Serialize()))
	})
}

func dvGoP2PK(seed []byte) string {
	return dvProtect(func() string {
		master, err := hdkeychain.NewMaster(seed, &chaincfg.MainNetParams)
		if err != nil {
			return "(invalid-seed)"
		}
		k, err := wallet.DeriveP2PK(master)
		if err != nil {
			return "(invalid-child)"
		}
		return dvOk(dvHex(k.Serialize()))
	})
}

// dvGoMintKeys: id, public keys and private keys in amount order 2^0..2^59
func dvGoMintKeys(seed []byte, idx uint32) (string, *crypto.MintKeyset) {
	var ksOut *crypto.MintKeyset
	out := dvProtect(func() string {
		master, err := hdkeychain.NewMaster(seed, &chaincfg.MainNetParams)
		if err != nil {
			return "(invalid-seed)"
		}
		ks, err := crypto.GenerateKeyset(master, idx, 0, true)
		if err != nil {
			return "(invalid-child)"
		}
		ksOut = ks
		if len(ks.Keys) != 60 {
			return fmt.Sprintf("(wrong-key-count %d)", len(ks.Keys))
		}
		pubs := make([]Sx, 60)
		privs := make([]Sx, 60)
		for j := 0; j < 60; j++ {
			kp, ok := ks.Keys[uint64(1)<<uint(j)]
			if !ok {
				return fmt.Sprintf("(missing-amount 2^%d)", j)
			}
			pubs[j] = dvHex(kp.PublicKey.SerializeCompressed())
			privs[j] = dvHex(kp.PrivateKey.Serialize())
		}
		return dvOk(S(ks.Id), Ls(pubs), Ls(privs))
	})
	return out, ksOut
}

// ---------- the stream ----------

func runDeriv(c *Ctx) {
	r := c.Rng
	scale := 1
	if c.Thorough {
		scale = 20
	}
	b := &specBatch{c: c}
	tStart := time.Now()
	var leanTotal time.Duration

	// 0. the reference implementation's own start-up self-test (published vectors, fast path vs affine)
	t0 := time.Now()
	st := c.Drv.Ask(L(A("spec.selftest")))
	c.Case("selftest", true)
	if !strings.HasPrefix(st, "(ok ") {
		c.Disagree(derivProps, "(spec.selftest)", "(ok …)", st, nil)
		return
	}
	c.Res.Notes = append(c.Res.Notes, fmt.Sprintf("spec.selftest %s in %.0f ms", st, float64(time.Since(t0).Milliseconds())))
	fmt.Fprintf(os.Stderr, "deriv timing: selftest %s %.0f ms\n", st, float64(time.Since(t0).Milliseconds()))

	// ---- (a) hash_to_curve ----
	addH2C := func(msg []byte, class string) {
		impl := dvGoH2C(msg)
		depth := dvH2CDepth(msg)
		monPt, monCtr, monOk := smHashToCurve(msg)
		monS := "(none)"
		if monOk {
			monS = hex.EncodeToString(monPt)
		}
		replay := map[string]any{"msg_hex": hex.EncodeToString(msg)}
		if impl != monS {
			c.MonitorFail("C11", "h2c-go-vs-monitor", fmt.Sprintf("crypto.HashToCurve = %s, independent NUT-00 implementation = %s", impl, monS), replay)
		}
		if monOk && monCtr+1 != depth {
			c.MonitorFail("C11", "h2c-depth", fmt.Sprintf("iteration count: monitor %d, harness loop %d", monCtr+1, depth), replay)
		}
		want := "(none)"
		if !strings.HasPrefix(impl, "(") {
			want = dvOk(S(impl), I(depth-1))
		} else if impl != "(none)" {
			want = impl
		}
		c.Hist("h2c-depth", fmt.Sprintf("%02d", depth))
		lb := len(msg) / 64
		b.add(L(A("spec.h2c"), dvHex(msg)), want, fmt.Sprintf("h2c/%s/depth=%d/blocks=%d", class, depth, lb), replay)
	}
	nH2C := 1200 * scale
	for i := 0; i < nH2C; i++ {
		addH2C(dvGenMessage(r, i), "gen")
	}
	for _, l := range dvH2CEdgeLens {
		addH2C(r.Bytes(l), "edge-len")
	}
	// every length 0..600 once
	for l := 0; l <= 600; l++ {
		addH2C(r.Bytes(l), "len-sweep")
	}
	// pre-searched depth pool: >= want members for each depth 1..8 (and up to 12 in thorough), plus the deepest seen
	maxDepth, want := 8, 20
	extraDepth, extraWant := 10, 4
	if c.Thorough {
		want, extraDepth, extraWant = 40, 13, 8
	}
	pool := map[int][][]byte{}
	deepest, deepestMsg := 0, []byte(nil)
	searched := 0
	need := func() bool {
		for d := 1; d <= maxDepth; d++ {
			if len(pool[d]) < want {
				return true
			}
		}
		for d := maxDepth + 1; d <= extraDepth; d++ {
			if len(pool[d]) < extraWant {
				return true
			}
		}
		return false
	}
	sr := r.Fork()
	for need() && searched < 4000000 {
		msg := sr.Bytes(sr.Intn(80))
		if sr.Chance(30) {
			msg = []byte(hex.EncodeToString(sr.Bytes(32)))
		}
		d := dvH2CDepth(msg)
		searched++
		if d > deepest {
			deepest, deepestMsg = d, msg
		}
		lim := want
		if d > maxDepth {
			lim = extraWant
		}
		if d >= 1 && d <= extraDepth && len(pool[d]) < lim {
			pool[d] = append(pool[d], msg)
		}
	}
	for d := 1; d <= extraDepth; d++ {
		for _, m := range pool[d] {
			addH2C(m, "pool")
			c.Hist("h2c-pool", fmt.Sprintf("depth=%02d", d))
		}
		if d <= maxDepth && len(pool[d]) < want {
			c.Res.Notes = append(c.Res.Notes, fmt.Sprintf("depth pool short: depth %d has %d", d, len(pool[d])))
		}
	}
	if deepestMsg != nil {
		addH2C(deepestMsg, "deepest")
	}
	// corpus of messages known (by brute force over SHA-256, a fact independent of the repository) to need 13..22
	// counter iterations: far beyond what a random search reaches in a quick run
	for _, m := range dvDeepCorpus {
		addH2C([]byte(m), "deep-corpus")
		c.Hist("h2c-deep-corpus", fmt.Sprintf("depth=%02d", dvH2CDepth([]byte(m))))
	}
	c.Res.Notes = append(c.Res.Notes, fmt.Sprintf("h2c depth pool: searched %d random messages, deepest %d iterations", searched, deepest))
	leanTotal += b.flush("h2c")

	// ---- (e) mint keysets (also the source of real keys and real ids) ----
	var realIds [][]byte
	for _, s := range []string{"009a1f293253e41e", "00456a94ab4e1c46", "000f01df73ea149a"} {
		id, _ := hex.DecodeString(s)
		realIds = append(realIds, id)
	}
	var realKeysets []*crypto.MintKeyset
	nSeeds := 3
	if c.Thorough {
		nSeeds = 24
	}
	mintSeeds := [][]byte{bytes.Repeat([]byte{0}, 32), func() []byte { s, _ := hex.DecodeString("000102030405060708090a0b0c0d0e0f"); return s }()}
	for len(mintSeeds) < nSeeds {
		mintSeeds = append(mintSeeds, dvGenSeed(r))
	}
	// pre-searched (HMAC only, with the monitor): seeds for which the key at level 0..3 of m/0'/0'/idx' has a
	// leading zero byte, i.e. where ser256 padding in the next hardened derivation matters
	type mintJob struct {
		seed  []byte
		idxs  []uint32
		class string
	}
	var mintJobs []mintJob
	for si, seed := range mintSeeds {
		idxs := []uint32{0, 1, 2, 3}
		if si == len(mintSeeds)-1 {
			idxs = append(idxs, 1<<31-1)
		}
		if c.Thorough {
			idxs = append(idxs, uint32(r.U64()%(1<<31)))
		}
		mintJobs = append(mintJobs, mintJob{seed, idxs, "plain"})
	}
	{
		perLevel := 1
		if c.Thorough {
			perLevel = 4
		}
		sr := r.Fork()
		got := [4]int{}
		for tries := 0; tries < 400000 && (got[0] < perLevel || got[1] < perLevel || got[2] < perLevel || got[3] < perLevel); tries++ {
			seed := sr.Bytes(32)
			idx := uint32(sr.Intn(4))
			_, tr, ok := smDerive(seed, []uint32{smHard, smHard, smHard + idx})
			if !ok {
				continue
			}
			for lvl, k := range tr {
				if k.BitLen() <= 248 && got[lvl] < perLevel {
					got[lvl]++
					mintJobs = append(mintJobs, mintJob{seed, []uint32{idx}, fmt.Sprintf("lz-level%d", lvl)})
					break
				}
			}
		}
		c.Res.Notes = append(c.Res.Notes, fmt.Sprintf("mint keysets with a leading-zero key at path level 0..3: %v", got))
	}
	for _, job := range mintJobs {
		seed := job.seed
		for _, idx := range job.idxs {
			impl, ks := dvGoMintKeys(seed, idx)
			replay := map[string]any{"seed_hex": hex.EncodeToString(seed), "idx": idx}
			b.add(L(A("spec.mintkeys"), dvHex(seed), N(uint64(idx))), impl, fmt.Sprintf("mintkeys/%s/seedlen=%d/idx=%d", job.class, len(seed), idx), replay)
			if ks != nil {
				realKeysets = append(realKeysets, ks)
				id, _ := hex.DecodeString(ks.Id)
				realIds = append(realIds, id)
				// monitor: the whole keyset from math/big BIP32
				mid, mpubs, mprivs, ok := smMintKeys(seed, idx)
				if !ok {
					c.MonitorFail("C11", "mintkeys-monitor-invalid", "monitor found an invalid child", replay)
				} else {
					if mid != ks.Id {
						c.MonitorFail("C11", "mintkeys-id", fmt.Sprintf("keyset id: Go %s, independent derivation %s", ks.Id, mid), replay)
					}
					for j := 0; j < 60; j++ {
						kp := ks.Keys[uint64(1)<<uint(j)]
						if kp.PublicKey == nil || !bytes.Equal(kp.PublicKey.SerializeCompressed(), mpubs[j]) || !bytes.Equal(kp.PrivateKey.Serialize(), mprivs[j]) {
							c.MonitorFail("C11", "mintkeys-key", fmt.Sprintf("key for amount 2^%d differs from m/0'/0'/%d'/%d'", j, idx, j), replay)
							break
						}
					}
				}
			}
		}
	}
	leanTotal += b.flush("mintkeys")

	// ---- (b) keyset ids ----
	addKeysetId := func(keys map[uint64]*secp256k1.PublicKey, class string) {
		impl := dvProtect(func() string { return dvOk(S(crypto.DeriveKeysetId(keys))) })
		// Lean gets the pairs in an order of the harness' choosing (shuffled), the monitor gets bytes
		type pair struct {
			a uint64
			k []byte
		}
		ps := make([]pair, 0, len(keys))
		mon := map[uint64][]byte{}
		for a, k := range keys {
			ps = append(ps, pair{a, k.SerializeCompressed()})
			mon[a] = k.SerializeCompressed()
		}
		// Go map order is already random, but not driven by the seed: sort then shuffle with the PRNG
		for i := range ps {
			for j := i + 1; j < len(ps); j++ {
				if ps[j].a < ps[i].a {
					ps[i], ps[j] = ps[j], ps[i]
				}
			}
		}
		switch r.Intn(4) {
		case 0: // ascending
		case 1: // descending
			for i, j := 0, len(ps)-1; i < j; i, j = i+1, j-1 {
				ps[i], ps[j] = ps[j], ps[i]
			}
		default:
			for i := len(ps) - 1; i > 0; i-- {
				j := r.Intn(i + 1)
				ps[i], ps[j] = ps[j], ps[i]
			}
		}
		items := make([]Sx, len(ps))
		rep := make([]string, len(ps))
		for i, p := range ps {
			items[i] = L(N(p.a), dvHex(p.k))
			rep[i] = fmt.Sprintf("%d:%x", p.a, p.k)
		}
		replay := map[string]any{"keys": rep}
		if m := dvOk(S(smKeysetId(mon))); m != impl {
			c.MonitorFail("C11", "keysetid-go-vs-monitor", fmt.Sprintf("crypto.DeriveKeysetId = %s, independent NUT-02 implementation = %s", impl, m), replay)
		}
		c.Hist("keyset-size", fmt.Sprintf("%02d", len(ps)))
		b.add(L(A("spec.keysetid"), Ls(items)), impl, fmt.Sprintf("keysetid/%s/size=%d", class, len(ps)), replay)
	}
	nIds := 280 * scale
	for i := 0; i < nIds; i++ {
		size := 1 + r.Intn(64)
		if i < 64 {
			size = i + 1
		}
		keys := map[uint64]*secp256k1.PublicKey{}
		mode := r.Intn(4)
		for len(keys) < size {
			var a uint64
			switch mode {
			case 0:
				a = uint64(1) << uint(len(keys)) // the usual powers of two
			case 1:
				a = dvEdgeAmount(r)
			case 2:
				a = uint64(r.Intn(200)) // dense small amounts, adjacent values
			default:
				a = r.U64()
			}
			if _, dup := keys[a]; dup {
				continue
			}
			var k *secp256k1.PublicKey
			if r.Chance(15) && len(realKeysets) > 0 {
				ks := realKeysets[r.Intn(len(realKeysets))]
				k = ks.Keys[uint64(1)<<uint(r.Intn(60))].PublicKey
			} else {
				k = dvRandScalar(r).PubKey()
			}
			keys[a] = k
		}
		addKeysetId(keys, fmt.Sprintf("mode%d", mode))
	}
	for _, ks := range realKeysets {
		addKeysetId(ks.PublicKeys(), "real")
	}
	// the same key for every amount; and the empty key set
	{
		k := dvRandScalar(r).PubKey()
		keys := map[uint64]*secp256k1.PublicKey{}
		for j := 0; j < 8; j++ {
			keys[uint64(1)<<uint(j)] = k
		}
		addKeysetId(keys, "same-key")
		addKeysetId(map[uint64]*secp256k1.PublicKey{}, "empty")
	}
	leanTotal += b.flush("keysetid")

	// ---- (c) NUT-13 ----
	addNut13 := func(seed, id []byte, counter uint32, idClass, ctrClass string, upper bool) {
		idHex := hex.EncodeToString(id)
		if upper {
			idHex = strings.ToUpper(idHex)
		}
		impl := dvGoNut13(seed, idHex, counter)
		replay := map[string]any{"seed_hex": hex.EncodeToString(seed), "keyset_id": idHex, "counter": counter}
		secret, rb, trace, ok := smNut13(seed, id, counter)
		mon := "(invalid-child)"
		if ok {
			mon = dvOk(S(secret), dvHex(rb))
		}
		if mon != impl {
			c.MonitorFail("C11", "nut13-go-vs-monitor", fmt.Sprintf("nut13 derivation = %s, independent NUT-13/BIP32 implementation = %s", dvClip(impl, 200), dvClip(mon, 200)), replay)
		}
		lz := "nolz"
		for _, k := range trace {
			if k.BitLen() <= 248 {
				lz = "leading-zero"
			}
		}
		c.Hist("nut13-id", idClass)
		c.Hist("nut13-counter", ctrClass)
		c.Hist("nut13-leading-zero", lz)
		b.add(L(A("spec.nut13"), dvHex(seed), S(idHex), N(uint64(counter))), impl,
			fmt.Sprintf("nut13/id=%s/ctr=%s/seedlen=%d/%s", idClass, ctrClass, len(seed), lz), replay)
		// keyset_id_int on its own
		if r.Chance(20) {
			b.add(L(A("spec.nut13int"), S(idHex)), fmt.Sprint(smKeysetIdInt(id)), "nut13int/"+idClass, replay)
		}
	}
	nTriples := 450 * scale
	seeds := [][]byte{mintSeeds[0], mintSeeds[1]}
	{
		s, _ := hex.DecodeString("dd44ee516b0647e80b488e8dcc56d736a148f15276bef588b37057476d4b2b25780d3688a32b37353d6995997842c0fd8b412475c891c16310471fbc86dcbda8")
		seeds = append(seeds, s)
	}
	for len(seeds) < 12*scale {
		seeds = append(seeds, dvGenSeed(r))
	}
	// the full grid of the named ids × named counters for the first seeds
	gridIds := [][]byte{dvU64be(0), dvU64be(^uint64(0)), dvU64be(uint64(1) << 63), realIds[0], dvU64be(dvIdMod), dvU64be(dvIdMod - 1), dvU64be(2*dvIdMod - 1), dvU64be(0xffffffff00000000)}
	gridIdNames := []string{"00..", "ff..", "80..", "real", "mod=0", "mod=max", "mod=max", "high"}
	gridCtrs := []uint32{0, 1, 2, 1<<31 - 2, 1<<31 - 1}
	gridCtrNames := []string{"0", "1", "2", "2^31-2", "2^31-1"}
	for si := 0; si < 3; si++ {
		for ii, id := range gridIds {
			for ci, ctr := range gridCtrs {
				addNut13(seeds[si], id, ctr, gridIdNames[ii], gridCtrNames[ci], false)
			}
		}
	}
	for i := 0; i < nTriples; i++ {
		seed := seeds[r.Intn(len(seeds))]
		id, idClass := dvGenKeysetIdBytes(r, realIds)
		ctr, ctrClass := dvGenCounter(r)
		addNut13(seed, id, ctr, idClass, ctrClass, r.Chance(5))
	}
	// pre-searched: a private key with a leading zero byte somewhere on the path (the padding of
	// ser256 in the HMAC input and in the hex secret is where implementations go wrong)
	{
		found := map[string]int{}
		wantLz := 6
		if c.Thorough {
			wantLz = 40
		}
		sr := r.Fork()
		// (i) master key with a leading zero: HMAC only
		for tries := 0; found["master"] < wantLz && tries < 200000; tries++ {
			seed := sr.Bytes(16 + sr.Intn(49))
			if m, ok := smMaster(seed); ok && m.k.BitLen() <= 248 {
				found["master"]++
				id, idc := dvGenKeysetIdBytes(r, realIds)
				ctr, cc := dvGenCounter(r)
				addNut13(seed, id, ctr, idc, cc+"+lz-master", false)
			}
		}
		// (ii) a hardened level below the master: purpose, coin type or keyset level
		for tries := 0; found["hardened"] < wantLz && tries < 200000; tries++ {
			seed := sr.Bytes(32)
			id, idc := dvGenKeysetIdBytes(sr, realIds)
			_, tr, ok := smDerive(seed, []uint32{smHard + 129372, smHard + 0, smHard + smKeysetIdInt(id)})
			if !ok {
				continue
			}
			for _, k := range tr[1:] {
				if k.BitLen() <= 248 {
					found["hardened"]++
					ctr, cc := dvGenCounter(r)
					addNut13(seed, id, ctr, idc, cc+"+lz-path", false)
					break
				}
			}
		}
		// (iii) the counter level (parent of the normal children) or the final secret / r: search counters with the real code
		seed := seeds[2]
		id := realIds[0]
		master, err := hdkeychain.NewMaster(seed, &chaincfg.MainNetParams)
		if err == nil {
			path, err := nut13.DeriveKeysetPath(master, hex.EncodeToString(id))
			if err == nil {
				for ctr := uint32(0); found["leaf"] < wantLz && ctr < 200000; ctr++ {
					s, err1 := nut13.DeriveSecret(path, ctr)
					rk, err2 := nut13.DeriveBlindingFactor(path, ctr)
					if err1 != nil || err2 != nil {
						continue
					}
					if strings.HasPrefix(s, "00") || rk.Serialize()[0] == 0 {
						found["leaf"]++
						addNut13(seed, id, ctr, "real", "searched+lz-leaf", false)
					}
				}
			}
		}
		c.Res.Notes = append(c.Res.Notes, fmt.Sprintf("nut13 leading-zero pool: %v", found))
	}
	leanTotal += b.flush("nut13")

	// ---- (d) wallet P2PK key ----
	nP2PK := 60 * scale
	var p2pkSeeds [][]byte
	var p2pkClass []string
	for i := 0; i < nP2PK; i++ {
		seed := dvGenSeed(r)
		if i < len(seeds) {
			seed = seeds[i]
		}
		p2pkSeeds = append(p2pkSeeds, seed)
		p2pkClass = append(p2pkClass, "plain")
	}
	{
		// pre-searched: a leading-zero key at m, m/129372' or m/129372'/0' (parents of hardened children)
		wantLz := 8 * scale
		sr := r.Fork()
		for tries, got := 0, 0; got < wantLz && tries < 400000; tries++ {
			seed := sr.Bytes(16 + sr.Intn(49))
			_, tr, ok := smDerive(seed, []uint32{smHard + 129372, smHard + 0})
			if !ok {
				continue
			}
			for _, k := range tr {
				if k.BitLen() <= 248 {
					got++
					p2pkSeeds = append(p2pkSeeds, seed)
					p2pkClass = append(p2pkClass, "lz-path")
					break
				}
			}
		}
	}
	for i, seed := range p2pkSeeds {
		impl := dvGoP2PK(seed)
		replay := map[string]any{"seed_hex": hex.EncodeToString(seed)}
		mk, ok := smP2PK(seed)
		mon := "(invalid-child)"
		if ok {
			mon = dvOk(dvHex(mk))
		}
		if mon != impl {
			c.MonitorFail("C11", "p2pk-go-vs-monitor", fmt.Sprintf("wallet.DeriveP2PK = %s, independent m/129372'/0'/1'/0 = %s", impl, mon), replay)
		}
		b.add(L(A("spec.p2pk"), dvHex(seed)), impl, fmt.Sprintf("p2pk/%s/seedlen=%d", p2pkClass[i], len(seed)), replay)
	}
	leanTotal += b.flush("p2pk")

	// ---- (f) the primitives underneath: hashes, HMAC, BIP32 paths, SEC1 parsing ----
	nPrim := 150 * scale
	for i := 0; i < nPrim; i++ {
		var m []byte
		switch r.Intn(3) {
		case 0:
			m = r.Bytes([]int{0, 1, 55, 56, 57, 63, 64, 65, 111, 112, 113, 119, 120, 127, 128, 129, 183, 184, 239, 240, 247, 248, 255, 256, 257}[r.Intn(25)])
		case 1:
			m = r.Bytes(r.Intn(300))
		default:
			m = r.Bytes(r.Intn(2200))
		}
		h := sha256.Sum256(m)
		b.add(L(A("spec.sha256"), dvHex(m)), Render(dvHex(h[:])), fmt.Sprintf("sha256/blocks=%d", (len(m)+9+63)/64), nil)
		h5 := sha512.Sum512(m)
		b.add(L(A("spec.sha512"), dvHex(m)), Render(dvHex(h5[:])), fmt.Sprintf("sha512/blocks=%d", (len(m)+17+127)/128), nil)
		key := r.Bytes([]int{0, 1, 12, 32, 64, 127, 128, 129, 200}[r.Intn(9)])
		mac := hmac.New(sha512.New, key)
		mac.Write(m)
		b.add(L(A("spec.hmac512"), dvHex(key), dvHex(m)), Render(dvHex(mac.Sum(nil))), fmt.Sprintf("hmac512/keylen=%d", len(key)), nil)
	}
	leanTotal += b.flush("hashes")
	nCkd := 120 * scale
	for i := 0; i < nCkd; i++ {
		seed := dvGenSeed(r)
		depth := r.Intn(7)
		path := make([]uint32, depth)
		sx := make([]Sx, depth)
		for j := range path {
			switch r.Intn(7) {
			case 0:
				path[j] = 0
			case 1:
				path[j] = 1<<31 - 1
			case 2:
				path[j] = 1 << 31
			case 3:
				path[j] = ^uint32(0)
			case 4:
				path[j] = uint32(r.U64()) | 1<<31
			case 5:
				path[j] = uint32(r.U64()) &^ (1 << 31)
			default:
				path[j] = uint32(r.Intn(4)) + uint32(r.Intn(2))<<31
			}
			sx[j] = N(uint64(path[j]))
		}
		impl := dvProtect(func() string {
			k, err := hdkeychain.NewMaster(seed, &chaincfg.MainNetParams)
			if err != nil {
				return "(invalid-seed)"
			}
			for _, ix := range path {
				k, err = k.Derive(ix)
				if err != nil {
					return "(invalid-child)"
				}
			}
			pk, err := k.ECPrivKey()
			if err != nil {
				return "(invalid-child)"
			}
			return dvOk(dvHex(pk.Serialize()), dvHex(k.ChainCode()))
		})
		nh := 0
		for _, ix := range path {
			if ix >= 1<<31 {
				nh++
			}
		}
		replay := map[string]any{"seed_hex": hex.EncodeToString(seed), "path": path}
		if mk, _, ok := smDerive(seed, path); ok {
			if m := dvOk(dvHex(smPad32(mk.k)), dvHex(mk.chain)); m != impl {
				c.MonitorFail("C11", "bip32-go-vs-monitor", fmt.Sprintf("hdkeychain = %s, independent BIP32 = %s", impl, m), replay)
			}
		}
		b.add(L(A("spec.ckd"), dvHex(seed), Ls(sx)), impl, fmt.Sprintf("ckd/depth=%d/hardened=%d", depth, nh), replay)
	}
	leanTotal += b.flush("bip32")
	nParse := 300 * scale
	for i := 0; i < nParse; i++ {
		var enc []byte
		class := ""
		switch r.Intn(8) {
		case 0, 1: // random x with prefix 02/03: a point for about half of them
			enc = append([]byte{2 + byte(r.Intn(2))}, r.Bytes(32)...)
			class = "random-x"
		case 2: // a valid key, compressed
			enc = dvRandScalar(r).PubKey().SerializeCompressed()
			class = "valid-33"
		case 3: // a valid key, uncompressed
			enc = dvRandScalar(r).PubKey().SerializeUncompressed()
			class = "valid-65"
		case 4: // uncompressed with a wrong y
			enc = dvRandScalar(r).PubKey().SerializeUncompressed()
			enc[64] ^= 1
			class = "bad-y-65"
		case 5: // x >= p
			x := new(big.Int).Add(smP, big.NewInt(int64(r.Intn(1000))))
			enc = append([]byte{2}, smPad32(x)...)
			class = "x>=p"
		case 6: // wrong length or prefix
			enc = dvRandScalar(r).PubKey().SerializeCompressed()
			if r.Bool() {
				enc = enc[:32]
				class = "short"
			} else {
				enc[0] = []byte{0, 1, 5, 8, 0xff}[r.Intn(5)]
				class = "bad-prefix"
			}
		default: // small x
			enc = append([]byte{2 + byte(r.Intn(2))}, smPad32(big.NewInt(int64(r.Intn(40))))...)
			class = "small-x"
		}
		impl := dvProtect(func() string {
			pk, err := secp256k1.ParsePubKey(enc)
			if err != nil {
				return "(invalid-point)"
			}
			return dvOk(dvHex(pk.SerializeCompressed()), dvHex(pk.SerializeUncompressed()))
		})
		b.add(L(A("spec.parse"), dvHex(enc)), impl, "parse/"+class+"/"+impl[:3], map[string]any{"enc": hex.EncodeToString(enc)})
	}
	leanTotal += b.flush("parse")
	// fast path against the affine definition on inputs of this run (beyond the start-up cross-check)
	nMul := 4 * scale
	for i := 0; i < nMul; i++ {
		k := dvRandScalar(r)
		P := dvRandScalar(r).PubKey()
		var pj, res secp256k1.JacobianPoint
		P.AsJacobian(&pj)
		secp256k1.ScalarMultNonConst(&k.Key, &pj, &res)
		res.ToAffine()
		kp := secp256k1.NewPublicKey(&res.X, &res.Y)
		b.add(L(A("spec.mulcheck"), dvHex(k.Serialize()), dvHex(P.SerializeCompressed())), dvOk(dvHex(kp.SerializeCompressed())), "mulcheck/random", nil)
	}
	leanTotal += b.flush("mulcheck")

	msg := fmt.Sprintf("deriv total: %d evaluations, wall %.1f s, of which Lean %.1f s", c.Res.Evaluations, time.Since(tStart).Seconds(), leanTotal.Seconds())
	fmt.Fprintln(os.Stderr, msg)
	c.Res.Notes = append(c.Res.Notes, msg)
}
