package main

import (
	"fmt"
	"os"
	"strings"
)

// Stream "wallet-crash" (C19): the wallet process is killed at EVERY call of an operation — before each
// storage call (storage.WalletDB proxy installed through VerifWrapDB) and before / after each client call
// (in-process transport: before = the mint never saw the request, after = the mint executed it and the wallet
// never saw the answer).  After each kill: the bbolt file is closed as the OS would, the directory is loaded
// again (must load), the wallet's state is compared with the Lean model's crash prefix (Prog.runN), the seed is
// restored into an empty directory and compared with the mint-side truth, the reopened wallet continues with
// two more operations (compared with the model as well; a wallet whose counter fell behind is refused with
// "already signed": recorded, not a failure of C19), and the seed is restored and compared once more.
func init() {
	register("wallet-crash", []string{"C19"},
		"for each scenario (mint, send offline, send with swap, receive same mint, receive trusting a new mint, melt paid / pending / failed, reclaim, mint-to-mint swap; input_fee_ppk 0/100/1000) and EVERY call k of the operation: fresh wallet, prefix, kill before call k (and after it for client calls), reopen, compare with the model's crash prefix, Restore vs mint-side truth, continue, Restore again; class = (scenario, call label, before/after)",
		runWalletCrash)
}

type crashScenario struct {
	name  string
	mints []uint
	// prep funds the fresh wallet w (and whatever else the operation needs); false = could not
	prep func(hw *histWorld, w *bWallet) bool
	// op runs the operation under test (real call + model call); returns the error of the real call
	op func(hw *histWorld, w *bWallet) error
	// want: a label that must occur in the fault-free trace (e.g. client.PostSwap), "" = none; the probe tries
	// the amounts in params (hw.param) until the trace has it
	want   string
	params []uint64
}

func crashMint(hw *histWorld, w *bWallet, m *bMint, amt uint64) error {
	b := hw.b
	b.begin("mint", w.idx, fmt.Sprintf("mint w%d m%d %d", w.idx, m.idx, amt))
	_, err := b.OpMint(w, m, amt)
	hw.model.mint(hw, w, m, amt, err)
	return err
}

func crashScenarios(thorough bool) []crashScenario {
	fund := func(amt uint64) func(hw *histWorld, w *bWallet) bool {
		return func(hw *histWorld, w *bWallet) bool {
			return crashMint(hw, w, hw.b.mints[w.home], amt) == nil
		}
	}
	// drained: mint 8 and send 1 sat four times: the wallet is left with [2 2] and must swap to send 1
	drained := func(hw *histWorld, w *bWallet) bool {
		b, m := hw.b, hw.b.mints[w.home]
		if crashMint(hw, w, m, 8) != nil {
			return false
		}
		for i := 0; i < 4; i++ {
			b.begin("send", w.idx, fmt.Sprintf("send w%d m%d 1 fees=false", w.idx, m.idx))
			t, err := b.OpSend(w, m, 1, false)
			hw.model.send(hw, w, m, 1, false, t, err)
			hw.after("crash/prep-drain/" + errTag(err))
			if err != nil {
				return false
			}
		}
		return true
	}
	send := func(amt uint64, fees bool) func(hw *histWorld, w *bWallet) error {
		return func(hw *histWorld, w *bWallet) error {
			b, m := hw.b, hw.b.mints[w.home]
			if hw.param > 0 {
				amt = hw.param
			}
			b.begin("send", w.idx, fmt.Sprintf("send w%d m%d %d fees=%v", w.idx, m.idx, amt, fees))
			t, err := b.OpSend(w, m, amt, fees)
			hw.model.send(hw, w, m, amt, fees, t, err)
			return err
		}
	}
	melt := func(amt uint64, outcome string) func(hw *histWorld, w *bWallet) error {
		return func(hw *histWorld, w *bWallet) error {
			b, m := hw.b, hw.b.mints[w.home]
			if hw.param > 0 {
				amt = hw.param
			}
			b.begin("melt", w.idx, fmt.Sprintf("melt w%d m%d %d ln=%s", w.idx, m.idx, amt, outcome))
			q, err := b.OpMeltQuote(w, m, amt)
			if err != nil {
				// killed inside RequestMeltQuote: the model dies in its meltquote sub-operation
				hw.model.melt(hw, w, m, amt, "", outcome, "none", err)
				return err
			}
			st, err := b.OpMelt(w, m, q.Quote, meltScript(outcome))
			hw.model.melt(hw, w, m, amt, q.Quote, outcome, st, err)
			return err
		}
	}
	// the token to receive is sent by wallet 0 of the world (never killed)
	receive := func(trust bool) func(hw *histWorld, w *bWallet) error {
		return func(hw *histWorld, w *bWallet) error {
			b := hw.b
			if len(b.tokens) == 0 {
				return fmt.Errorf("no token")
			}
			t := b.tokens[len(b.tokens)-1]
			b.begin("receive-same", w.idx, fmt.Sprintf("receive w%d tok%d", w.idx, t.id))
			got, err := b.OpReceive(w, t, false, false)
			hw.model.receive(hw, w, t, false, false, "paid", got, err)
			b.pruneTokens()
			return err
		}
	}
	sendFrom0 := func(mintIdx int, amt uint64) func(hw *histWorld, w *bWallet) bool {
		return func(hw *histWorld, w *bWallet) bool {
			b := hw.b
			s := b.wallets[0]
			m := b.mints[mintIdx]
			if hw.balanceAt(s, m) < amt+200 {
				if crashMint(hw, s, m, 1000) != nil {
					return false
				}
			}
			b.begin("send", s.idx, fmt.Sprintf("send w%d m%d %d fees=false", s.idx, m.idx, amt))
			t, err := b.OpSend(s, m, amt, false)
			hw.model.send(hw, s, m, amt, false, t, err)
			hw.after("crash/prep-send/" + errTag(err))
			return err == nil
		}
	}
	sc := []crashScenario{
		{name: "mint", mints: []uint{100}, prep: func(*histWorld, *bWallet) bool { return true },
			op: func(hw *histWorld, w *bWallet) error { return crashMint(hw, w, hw.b.mints[w.home], 100) }},
		{name: "send-offline", mints: []uint{0}, prep: fund(100), op: send(30, false)},
		{name: "send-swap", mints: []uint{0}, prep: drained, op: send(1, false), want: "client.PostSwap"},
		{name: "receive-same", mints: []uint{100}, prep: sendFrom0(0, 21), op: receive(false)},
		{name: "melt-paid", mints: []uint{100}, prep: fund(100), op: melt(20, "paid")},
	}
	if thorough {
		sc = append(sc,
			crashScenario{name: "mint-ppk1000", mints: []uint{1000}, prep: func(*histWorld, *bWallet) bool { return true },
				op: func(hw *histWorld, w *bWallet) error { return crashMint(hw, w, hw.b.mints[w.home], 255) }},
			crashScenario{name: "send-swap-fees", mints: []uint{100}, prep: drained, op: send(2, true), want: "client.PostSwap"},
			crashScenario{name: "melt-pending", mints: []uint{100}, prep: fund(100), op: melt(20, "pending")},
			crashScenario{name: "melt-failed", mints: []uint{0}, prep: fund(100), op: melt(20, "failed")},
			crashScenario{name: "melt-swap", mints: []uint{100}, prep: drained, op: melt(1, "paid"), want: "client.PostSwap", params: []uint64{1, 2}},
			crashScenario{name: "receive-trust-new-mint", mints: []uint{0, 100}, prep: sendFrom0(0, 21), op: receive(true)},
		)
	}
	return sc
}

func runWalletCrash(c *Ctx) {
	only := os.Getenv("WB_ONLY") // debugging aid: run a single scenario
	for si, sc := range crashScenarios(c.Thorough) {
		if only != "" && sc.name != only {
			continue
		}
		runCrashScenario(c, si, sc)
	}
}

// newCrashWallet adds a fresh wallet (new seed) to the world and to the model.
func newCrashWallet(hw *histWorld, home int, tag string) (*bWallet, bool) {
	b := hw.b
	seed := b.NewSeed()
	w, err := b.NewWallet(fmt.Sprintf("c%s", tag), seed, home)
	if err != nil {
		hw.c.Disagree([]string{"C19"}, "crash-newwallet", err.Error(), "", nil)
		return nil, false
	}
	if hw.model.active(hw) {
		ans := hw.c.Drv.Ask(L(A("books.newwallet"), I(seed), I(home)))
		if !strings.HasPrefix(ans, "((ok") {
			hw.model.lose(hw, "newwallet", ans)
		}
	}
	return w, true
}

func runCrashScenario(c *Ctx, si int, sc crashScenario) {
	hw, err := newHistWorld(c, fmt.Sprintf("crash%d", si), sc.mints, 1)
	if err != nil {
		c.Disagree([]string{"C19"}, "setup-crash", err.Error(), "", nil)
		return
	}
	defer hw.close()
	hw.model = newBooksModel(hw)
	b := hw.b
	home := len(sc.mints) - 1 // the crashing wallets live at the last mint; wallet 0 (sender) at mint 0
	// 1. fault-free probe: the number of calls and their labels
	params := sc.params
	if len(params) == 0 {
		params = []uint64{0}
	}
	var labels []string
	found := false
	for pi, prm := range params {
		hw.param = prm
		probe, ok := newCrashWallet(hw, home, fmt.Sprintf("probe%d", pi))
		if !ok || !sc.prep(hw, probe) {
			c.Disagree([]string{"C19"}, "crash-prep/"+sc.name, "prefix failed", "", b.replay())
			return
		}
		hw.after("crash/" + sc.name + "/prep")
		err := sc.op(hw, probe)
		labels = append([]string(nil), b.lastTrace...)
		hw.after("crash/" + sc.name + "/probe")
		if err == nil && (sc.want == "" || contains(labels, sc.want)) {
			found = true
			break
		}
	}
	if !found {
		c.Disagree([]string{"C19"}, "crash-probe/"+sc.name, "no parameter gives a run with "+sc.want+": "+strings.Join(labels, " "), "", nil)
		return
	}
	c.Hist("crash-calls", fmt.Sprintf("%s=%d", sc.name, len(labels)))
	// 2. every kill point
	for k := 0; k < len(labels); k++ {
		modes := []string{"before"}
		if strings.HasPrefix(labels[k], "client.") {
			modes = append(modes, "after")
		}
		for _, mode := range modes {
			crashOnce(hw, sc, home, k, mode, labels)
		}
	}
}

func contains(xs []string, x string) bool {
	for _, y := range xs {
		if y == x {
			return true
		}
	}
	return false
}

func crashOnce(hw *histWorld, sc crashScenario, home, k int, mode string, labels []string) {
	b, c := hw.b, hw.c
	class := fmt.Sprintf("%s/%s/%s", sc.name, mode, labels[k])
	w, ok := newCrashWallet(hw, home, fmt.Sprintf("%s-%d-%s", sc.name, k, mode))
	if !ok || !sc.prep(hw, w) {
		c.Disagree([]string{"C19"}, "crash-prep/"+class, "prefix failed", "", b.replay())
		return
	}
	hw.after("crash/" + sc.name + "/prep")
	// arm: the real wallet is killed before call k (or after the mint served client call k); the model's
	// wallet dies before call k, resp. k+1
	mk := k
	if mode == "after" {
		b.killAfter = k
		mk = k + 1
	} else {
		b.killAt = k
	}
	hw.model.armCrash(mk)
	err := sc.op(hw, w)
	killed := err != nil && strings.HasPrefix(err.Error(), "killed ")
	b.killAt, b.killAfter = -1, -1
	realTrace := append([]string(nil), b.trace...)
	modelDied, modelTrace := hw.model.died, hw.model.crashTrace
	hw.model.disarm()
	c.Case("crash/"+class, true)
	c.Hist("crash", sc.name+"/"+mode)
	if !killed {
		// only possible when the kill point is past the end of this run (the operation took another path)
		if modelDied {
			c.Disagree([]string{"C19"}, "crash/"+class, "operation completed: "+errTag(err), "model died", b.replay())
			hw.model.lose(hw, class, "model died, implementation did not")
		}
		hw.after("crash/" + sc.name + "/not-killed")
		return
	}
	b.faulted[w.idx] = true
	if hw.model.active(hw) {
		if !modelDied {
			c.Disagree([]string{"C19"}, "crash/"+class, "killed: "+err.Error(), "model completed the operation", b.replay())
			hw.model.lose(hw, class, "implementation died, model did not")
		} else if strings.Join(realTrace, " ") != strings.Join(modelTrace, " ") {
			c.Disagree([]string{"C19"}, "crash-trace/"+class, strings.Join(realTrace, " "), strings.Join(modelTrace, " "), b.replay())
			hw.model.lose(hw, class, "crash traces differ")
		}
	}
	b.scanLog()
	// 3. the process is gone: file handle closed; the directory must load again
	w.Abandon()
	b.begin("reopen", w.idx, fmt.Sprintf("reopen w%d after kill %s", w.idx, class))
	if err := b.Reopen(w); err != nil {
		c.MonitorFail("C19", "C19/crash/does-not-load/"+sc.name, fmt.Sprintf("after a kill %s the wallet directory does not load: %v", class, err), b.replay())
		return
	}
	hw.model.reopen(hw, w)
	// 4. restore from the mnemonic into an empty directory vs mint-side truth
	b.begin("restore-check", w.idx, fmt.Sprintf("restorecheck seed%d after kill %s", w.seed, class))
	b.hint = "C19/crash/restore-incomplete/" + sc.name + "/" + mode + "/" + labels[k]
	b.CheckRestore(w.seed, "crash-"+class, false)
	// 5. the reopened wallet goes on: a mint and a send (compared with the model; refusals are recorded)
	m := b.mints[w.home]
	err1 := crashMint(hw, w, m, 8)
	b.scanLog()
	c.Hist("after-crash/mint", sc.name+"/"+labels[k]+"/"+mode+"/"+errTag(err1))
	b.begin("send", w.idx, fmt.Sprintf("send w%d m%d 3 fees=false (after crash)", w.idx, m.idx))
	t, err2 := b.OpSend(w, m, 3, false)
	hw.model.send(hw, w, m, 3, false, t, err2)
	b.scanLog()
	c.Hist("after-crash/send", sc.name+"/"+labels[k]+"/"+mode+"/"+errTag(err2))
	b.begin("restore-check", w.idx, fmt.Sprintf("restorecheck seed%d after kill %s and two more operations", w.seed, class))
	b.hint = "C19/crash/restore-incomplete-later/" + sc.name + "/" + mode + "/" + labels[k]
	b.CheckRestore(w.seed, "crash-later-"+class, false)
	// the wallet is retired (keeps the world small)
	w.W.Shutdown()
	w.dead = true
}
