package main

import (
	"fmt"

	"github.com/elnosh/gonuts/cashu"
)

// Stream "arith": cashu.OverflowAddUint64, UnderflowSubUint64, AmountChecked, Amount, AmountSplit
// versus Model.Amount, on boundary-heavy uint64 inputs.
func init() {
	register("arith", []string{"C02", "C18", "C16"},
		"boundary-heavy uint64 tuples (0,1,2^k,2^k±1,2^63,2^64-1,random) through the real cashu arithmetic helpers vs the Lean model; class = (function, overflow/ok, #elements bucket)",
		runArith)
}

func edgeU64(r *Rng) uint64 {
	switch r.Intn(8) {
	case 0:
		return uint64(r.Intn(4))
	case 1:
		return ^uint64(0) - uint64(r.Intn(4))
	case 2:
		return uint64(1) << uint(r.Intn(64))
	case 3:
		return (uint64(1) << uint(r.Intn(64))) - 1
	case 4:
		return (uint64(1) << uint(r.Intn(64))) + 1
	case 5:
		return uint64(1)<<63 + uint64(r.Intn(3)) - 1
	case 6:
		return r.U64() >> uint(r.Intn(64))
	default:
		return r.U64()
	}
}

func runArith(c *Ctx) {
	n := 4000
	if c.Thorough {
		n = 200000
	}
	props := []string{"C02", "C18", "C16"}
	var ops []Sx
	var impls []string
	var keys []string
	for i := 0; i < n; i++ {
		r := c.Rng
		switch r.Intn(5) {
		case 0:
			a, b := edgeU64(r), edgeU64(r)
			s, o := cashu.OverflowAddUint64(a, b)
			ops = append(ops, L(A("arith.add"), N(a), N(b)))
			impls = append(impls, Render(L(N(s), B(o))))
			keys = append(keys, fmt.Sprintf("add/%v", o))
		case 1:
			a, b := edgeU64(r), edgeU64(r)
			s, o := cashu.UnderflowSubUint64(a, b)
			ops = append(ops, L(A("arith.sub"), N(a), N(b)))
			impls = append(impls, Render(L(N(s), B(o))))
			keys = append(keys, fmt.Sprintf("sub/%v", o))
		case 2:
			k := r.Intn(6)
			xs := make([]uint64, k)
			bms := make(cashu.BlindedMessages, k)
			for j := range xs {
				xs[j] = edgeU64(r)
				if r.Chance(60) {
					xs[j] >>= 3
				}
				bms[j].Amount = xs[j]
			}
			s, err := bms.AmountChecked()
			ops = append(ops, L(A("arith.checked"), Ns(xs)))
			if err != nil {
				impls = append(impls, "(overflow)")
			} else {
				impls = append(impls, Render(L(A("ok"), N(s))))
			}
			keys = append(keys, fmt.Sprintf("checked/%v/%d", err != nil, k))
		case 3:
			k := r.Intn(6)
			xs := make([]uint64, k)
			ps := make(cashu.Proofs, k)
			for j := range xs {
				xs[j] = edgeU64(r)
				ps[j].Amount = xs[j]
			}
			ops = append(ops, L(A("arith.wrap"), Ns(xs)))
			impls = append(impls, Render(N(ps.Amount())))
			keys = append(keys, fmt.Sprintf("wrap/%d", k))
		case 4:
			a := edgeU64(r)
			ops = append(ops, L(A("arith.split"), N(a)))
			impls = append(impls, Render(Ns(cashu.AmountSplit(a))))
			keys = append(keys, fmt.Sprintf("split/%d", len(cashu.AmountSplit(a))))
		}
	}
	models := c.Drv.Batch(ops)
	for i := range ops {
		c.Case(keys[i], true)
		c.Hist("class", keys[i])
		if i < 4 {
			c.Sample(map[string]string{"op": Render(ops[i]), "impl": impls[i], "model": models[i]})
		}
		if models[i] != impls[i] {
			c.Disagree(props, Render(ops[i]), impls[i], models[i], nil)
		}
	}
}
