package main

import (
	"bytes"
	"runtime"
	"strconv"
)

// goid returns the current goroutine id (parsed from the stack header; harness-only scheduling aid).
func goid() int64 {
	var buf [64]byte
	n := runtime.Stack(buf[:], false)
	b := bytes.TrimPrefix(buf[:n], []byte("goroutine "))
	i := bytes.IndexByte(b, ' ')
	if i < 0 {
		return -1
	}
	id, err := strconv.ParseInt(string(b[:i]), 10, 64)
	if err != nil {
		return -1
	}
	return id
}
