package main

// Shared machinery of the streams "p2pk" (C12) and "htlc" (C13):
//   * a world of REAL btcec keys and REAL BIP-340 signatures, every one registered with what the harness
//     knows about it by construction (who signed which digest, is the string parseable),
//   * symbolisation: signature strings, key strings and 32-byte digests -> the ids of Model.Spend,
//   * canonical outcomes of the real verifiers (ok | (err <Go variable name>)),
//   * the model-free monitors: evaluators of NUT-11 / NUT-14 written from the NUT text (tag lookup, threshold as a
//     maximum bipartite matching, locktime / refund rule); they never call the repository's verifiers.

import (
	"crypto/sha256"
	"encoding/hex"
	"encoding/json"
	"errors"
	"fmt"
	"sort"
	"strconv"
	"strings"

	"github.com/btcsuite/btcd/btcec/v2"
	"github.com/btcsuite/btcd/btcec/v2/schnorr"
	"github.com/elnosh/gonuts/cashu"
	"github.com/elnosh/gonuts/cashu/nuts/nut10"
	"github.com/elnosh/gonuts/cashu/nuts/nut11"
	"github.com/elnosh/gonuts/cashu/nuts/nut14"
)

// ---------------------------------------------------------------- keys

type spKey struct {
	priv  *btcec.PrivateKey
	pub   *btcec.PublicKey
	hex   string // compressed encoding (what wallets write)
	xonly string // BIP-340 x-only key: the identity a signature is checked against
}

func (k *spKey) uncompressedHex() string { return hex.EncodeToString(k.pub.SerializeUncompressed()) }

// twinHex: the encoding of the NEGATED point (same x, other parity): a different point, the same BIP-340 key.
func (k *spKey) twinHex() string {
	b := k.pub.SerializeCompressed()
	b[0] ^= 1 // 02 <-> 03
	return hex.EncodeToString(b)
}

type sigMeta struct {
	xonly     string   // signer's x-only key ("" = nobody: garbage)
	msg       [32]byte // digest signed
	parseable bool
}

type spendWorld struct {
	rng    *Rng
	keys   []*spKey
	sigID  map[string]int
	sigs   map[string]sigMeta // by construction
	msgID  map[[32]byte]int
	pointID map[string]int // compressed hex of the point -> id
	sigCache map[string]string
	selfCheckFailures []string
}

func newSpendWorld(r *Rng, nkeys int) *spendWorld {
	w := &spendWorld{rng: r, sigID: map[string]int{}, sigs: map[string]sigMeta{}, msgID: map[[32]byte]int{},
		pointID: map[string]int{}, sigCache: map[string]string{}}
	for i := 0; i < nkeys; i++ {
		var priv *btcec.PrivateKey
		for {
			b := r.Bytes(32)
			p, _ := btcec.PrivKeyFromBytes(b)
			if !p.Key.IsZero() {
				priv = p
				break
			}
		}
		pub := priv.PubKey()
		w.keys = append(w.keys, &spKey{priv: priv, pub: pub, hex: hex.EncodeToString(pub.SerializeCompressed()),
			xonly: hex.EncodeToString(schnorr.SerializePubKey(pub))})
	}
	return w
}

// keySym: symbolic id of a key STRING = id of the point it denotes, or -1 if it is not a public key.
// Uses btcec directly (the library, not the repository's ParsePublicKey).
func (w *spendWorld) keySym(s string) int {
	b, err := hex.DecodeString(s)
	if err != nil {
		return -1
	}
	p, err := btcec.ParsePubKey(b)
	if err != nil {
		return -1
	}
	c := hex.EncodeToString(p.SerializeCompressed())
	id, ok := w.pointID[c]
	if !ok {
		id = len(w.pointID) + 1
		w.pointID[c] = id
	}
	return id
}

func xonlyOfKeyString(s string) (string, bool) {
	b, err := hex.DecodeString(s)
	if err != nil {
		return "", false
	}
	p, err := btcec.ParsePubKey(b)
	if err != nil {
		return "", false
	}
	return hex.EncodeToString(schnorr.SerializePubKey(p)), true
}

func (w *spendWorld) msgSym(h [32]byte) int {
	id, ok := w.msgID[h]
	if !ok {
		id = len(w.msgID) + 1
		w.msgID[h] = id
	}
	return id
}

func (w *spendWorld) sigSym(s string) int {
	id, ok := w.sigID[s]
	if !ok {
		id = len(w.sigID) + 1
		w.sigID[s] = id
		if _, known := w.sigs[s]; !known {
			// a string the harness did not construct (e.g. "" left by a JSON type error): parseable only if it
			// happens to be 64 bytes of hex in range — decide with the library
			m := sigMeta{}
			if b, err := hex.DecodeString(s); err == nil {
				if _, err := schnorr.ParseSignature(b); err == nil {
					m.parseable = true
				}
			}
			w.sigs[s] = m
		}
	}
	return id
}

// sign: a real BIP-340 signature by key k over digest msg.
// variant 0: default nonce; variant n>0: auxiliary randomness n (a different, equally valid signature);
// variant -1: the variant-0 signature re-encoded in UPPER-CASE hex (a different string, the same signature).
func (w *spendWorld) sign(k *spKey, msg [32]byte, variant int) string {
	ck := fmt.Sprintf("%s/%x/%d", k.xonly, msg, variant)
	if s, ok := w.sigCache[ck]; ok {
		return s
	}
	var s string
	if variant == -1 {
		s = strings.ToUpper(w.sign(k, msg, 0))
	} else {
		var sig *schnorr.Signature
		var err error
		if variant == 0 {
			sig, err = schnorr.Sign(k.priv, msg[:])
		} else {
			var aux [32]byte
			aux[0] = byte(variant)
			aux[31] = 0xA5
			sig, err = schnorr.Sign(k.priv, msg[:], schnorr.CustomNonce(aux))
		}
		if err != nil {
			panic("harness: schnorr.Sign: " + err.Error())
		}
		s = hex.EncodeToString(sig.Serialize())
	}
	w.sigCache[ck] = s
	w.sigs[s] = sigMeta{xonly: k.xonly, msg: msg, parseable: true}
	return s
}

// garbage signature strings (valid for nobody)
func (w *spendWorld) garbageSig(kind int) string {
	var s string
	switch kind % 4 {
	case 0:
		s = "zz-not-hex"
	case 1:
		s = "abcd" // hex, wrong length
	case 2:
		s = strings.Repeat("ff", 64) // r >= p: ParseSignature fails
	default:
		// 64 bytes of hex that parse but verify under no key in the world
		b := sha256.Sum256([]byte("garbage-r"))
		c := sha256.Sum256([]byte("garbage-s"))
		b[0] &= 0x7f
		c[0] &= 0x7f
		s = hex.EncodeToString(append(b[:], c[:]...))
	}
	if _, ok := w.sigs[s]; !ok {
		m := sigMeta{}
		if b, err := hex.DecodeString(s); err == nil {
			if _, err := schnorr.ParseSignature(b); err == nil {
				m.parseable = true
			}
		}
		w.sigs[s] = m
	}
	return s
}

// validByConstruction: does signature string s verify for digest msg under the key written as keyStr?
// Answered from what the harness knows (who signed what); BIP-340 identifies a key by its x coordinate.
func (w *spendWorld) validByConstruction(s string, keyXonly string, msg [32]byte) bool {
	m, ok := w.sigs[s]
	if !ok {
		w.sigSym(s)
		m = w.sigs[s]
	}
	return m.parseable && m.xonly != "" && m.xonly == keyXonly && m.msg == msg
}

// selfCheck compares validByConstruction with the library's own verification (not the repository's code).
func (w *spendWorld) selfCheck(s string, keyStr string, msg [32]byte) {
	xo, ok := xonlyOfKeyString(keyStr)
	if !ok {
		return
	}
	want := w.validByConstruction(s, xo, msg)
	got := false
	if b, err := hex.DecodeString(s); err == nil {
		if sig, err := schnorr.ParseSignature(b); err == nil {
			kb, _ := hex.DecodeString(keyStr)
			p, _ := btcec.ParsePubKey(kb)
			got = sig.Verify(msg[:], p)
		}
	}
	if want != got && len(w.selfCheckFailures) < 5 {
		w.selfCheckFailures = append(w.selfCheckFailures, fmt.Sprintf("sig %.16s… key %.16s… construction=%v library=%v", s, keyStr, want, got))
	}
}

// ---------------------------------------------------------------- symbolisation

// symEnv accumulates the tables one driver op needs.
type symEnv struct {
	w       *spendWorld
	now     int64
	keyStrs map[string]bool
	sigStrs map[string]bool
	msgs    map[[32]byte]bool
	pres    map[string]bool
}

func (w *spendWorld) newEnv(now int64) *symEnv {
	return &symEnv{w: w, now: now, keyStrs: map[string]bool{}, sigStrs: map[string]bool{}, msgs: map[[32]byte]bool{}, pres: map[string]bool{}}
}

func keyStringsOfSecret(s nut10.WellKnownSecret) []string {
	var out []string
	if s.Kind == nut10.P2PK {
		out = append(out, s.Data.Data)
	}
	for _, t := range s.Data.Tags {
		if len(t) > 0 && (t[0] == "pubkeys" || t[0] == "refund") {
			out = append(out, t[1:]...)
		}
	}
	return out
}

func (e *symEnv) secretSx(secretStr string) Sx {
	s, err := nut10.DeserializeSecret(secretStr)
	if err != nil {
		return A("plain")
	}
	kind := "anyone"
	switch s.Kind {
	case nut10.P2PK:
		kind = "p2pk"
	case nut10.HTLC:
		kind = "htlc"
	}
	for _, k := range keyStringsOfSecret(s) {
		e.keyStrs[k] = true
	}
	tags := make([]Sx, len(s.Data.Tags))
	for i, t := range s.Data.Tags {
		el := make([]Sx, len(t))
		for j, x := range t {
			el[j] = S(x)
		}
		tags[i] = Ls(el)
	}
	return L(A("secret"), A(kind), S(s.Data.Data), Ls(tags))
}

// witnessSx symbolises a witness string the way the verifier for `kind` reads it (P2PKWitness or HTLCWitness).
func (e *symEnv) witnessSx(witness string, kind nut10.SecretKind) Sx {
	var sigs []string
	pre := ""
	ok := true
	if kind == nut10.HTLC {
		var hw nut14.HTLCWitness
		ok = json.Unmarshal([]byte(witness), &hw) == nil
		sigs, pre = hw.Signatures, hw.Preimage
	} else {
		var pw nut11.P2PKWitness
		ok = json.Unmarshal([]byte(witness), &pw) == nil
		sigs = pw.Signatures
	}
	ids := make([]Sx, len(sigs))
	for i, s := range sigs {
		e.sigStrs[s] = true
		ids[i] = I(e.w.sigSym(s))
	}
	e.pres[pre] = true
	return L(A("w"), B(ok), Ls(ids), S(pre))
}

func secretKindOf(secretStr string) nut10.SecretKind {
	s, err := nut10.DeserializeSecret(secretStr)
	if err != nil {
		return nut10.AnyoneCanSpend
	}
	return s.Kind
}

func (e *symEnv) proofSx(p cashu.Proof) Sx {
	h := sha256.Sum256([]byte(p.Secret))
	e.msgs[h] = true
	return L(A("proof"), e.secretSx(p.Secret), I(e.w.msgSym(h)), e.witnessSx(p.Witness, secretKindOf(p.Secret)))
}

func (e *symEnv) proofsSx(ps cashu.Proofs) Sx {
	out := make([]Sx, len(ps))
	for i, p := range ps {
		out[i] = e.proofSx(p)
	}
	return Ls(out)
}

// outputSx: kind = the kind of the FIRST proof's secret (that is how verifyBlindedMessages reads output witnesses).
func (e *symEnv) outputSx(o cashu.BlindedMessage, kind nut10.SecretKind) Sx {
	var dec Sx = A("none")
	if b, err := hex.DecodeString(o.B_); err == nil {
		h := sha256.Sum256(b)
		e.msgs[h] = true
		dec = I(e.w.msgSym(h))
	}
	ht := sha256.Sum256([]byte(o.B_))
	e.msgs[ht] = true
	return L(A("out"), dec, I(e.w.msgSym(ht)), e.witnessSx(o.Witness, kind))
}

func (e *symEnv) outputsSx(os cashu.BlindedMessages, kind nut10.SecretKind) Sx {
	out := make([]Sx, len(os))
	for i, o := range os {
		out[i] = e.outputSx(o, kind)
	}
	return Ls(out)
}

// Sx renders the env AFTER all proofs/outputs of the op were symbolised (tables restricted to what occurs).
func (e *symEnv) Sx() Sx {
	var keys []Sx
	type kx struct {
		id    int
		xonly string
	}
	var kxs []kx
	for _, k := range sortedKeys(e.keyStrs) {
		id := e.w.keySym(k)
		if id < 0 {
			keys = append(keys, L(S(k), A("bad")))
		} else {
			keys = append(keys, L(S(k), I(id)))
			xo, _ := xonlyOfKeyString(k)
			kxs = append(kxs, kx{id, xo})
		}
	}
	var msgs [][32]byte
	for m := range e.msgs {
		msgs = append(msgs, m)
	}
	sort.Slice(msgs, func(i, j int) bool { return e.w.msgSym(msgs[i]) < e.w.msgSym(msgs[j]) })
	var valid []Sx
	seen := map[[3]int]bool{}
	for _, s := range sortedKeys(e.sigStrs) {
		for _, k := range kxs {
			for _, m := range msgs {
				if e.w.validByConstruction(s, k.xonly, m) {
					t := [3]int{e.w.sigSym(s), k.id, e.w.msgSym(m)}
					if !seen[t] {
						seen[t] = true
						valid = append(valid, L(I(t[0]), I(t[1]), I(t[2])))
					}
				}
			}
		}
	}
	var sha []Sx
	for _, p := range sortedKeys(e.pres) {
		if b, err := hex.DecodeString(p); err == nil {
			h := sha256.Sum256(b)
			sha = append(sha, L(S(hex.EncodeToString(b)), S(hex.EncodeToString(h[:]))))
		}
	}
	now := A(strconv.FormatInt(e.now, 10))
	return L(A("env"), now, Ls(keys), Ls(valid), Ls(sha))
}

// ---------------------------------------------------------------- canonical outcomes

var spendErrNames = map[cashu.Error]string{
	nut11.InvalidTagErr: "InvalidTagErr", nut11.TooManyTagsErr: "TooManyTagsErr",
	nut11.NSigsMustBePositiveErr: "NSigsMustBePositiveErr", nut11.EmptyPubkeysErr: "EmptyPubkeysErr",
	nut11.InvalidWitness: "InvalidWitness", nut11.InvalidKindErr: "InvalidKindErr",
	nut11.DuplicateSignaturesErr: "DuplicateSignaturesErr", nut11.NotEnoughSignaturesErr: "NotEnoughSignaturesErr",
	nut11.NoSignaturesErr: "NoSignaturesErr", nut11.AllSigAllFlagsErr: "AllSigAllFlagsErr",
	nut11.SigAllKeysMustBeEqualErr: "SigAllKeysMustBeEqualErr", nut11.SigAllOnlySwap: "SigAllOnlySwap",
	nut11.NSigsMustBeEqualErr: "NSigsMustBeEqualErr",
	nut14.InvalidPreimageErr: "InvalidPreimageErr", nut14.InvalidHashErr: "InvalidHashErr",
}

func spendErrName(err error) string {
	var ce cashu.Error
	switch x := err.(type) {
	case cashu.Error:
		ce = x
	case *cashu.Error:
		ce = *x
	default:
		msg := err.Error()
		var ibe hex.InvalidByteError
		switch {
		case errors.As(err, &ibe) || errors.Is(err, hex.ErrLength):
			return "built:B_"
		case strings.HasPrefix(msg, "unable to provide enough signatures"):
			return "helper:too-many-sigs"
		case strings.HasPrefix(msg, "signing key is not part"):
			return "helper:cannot-sign"
		}
		return "other:" + msg
	}
	if n, ok := spendErrNames[ce]; ok {
		return n
	}
	switch {
	case ce.Code == nut11.NUT11ErrCode && strings.HasPrefix(ce.Detail, "invalig sigflag"):
		return "built:sigflag"
	case ce.Code == nut11.NUT11ErrCode && strings.HasPrefix(ce.Detail, "invalig n_sigs value"):
		return "built:n_sigs"
	case ce.Code == nut11.NUT11ErrCode && strings.HasPrefix(ce.Detail, "invalid locktime"):
		return "built:locktime"
	case ce.Code == nut11.NUT11ErrCode && strings.HasPrefix(ce.Detail, "invalid public key"):
		return "built:pubkey"
	case ce.Code == cashu.StandardErrCode && strings.HasPrefix(ce.Detail, "encoding/hex"):
		return "built:B_"
	case ce.Code == cashu.StandardErrCode:
		return "built:secret"
	}
	return fmt.Sprintf("other:%d:%s", ce.Code, ce.Detail)
}

func canonOutcome(err error) string {
	if err == nil {
		return "ok"
	}
	return "(err " + spendErrName(err) + ")"
}

// guard runs f, turning a panic of the code under test into the outcome "(err panic)".
func guardOutcome(f func() error) (out string) {
	defer func() {
		if r := recover(); r != nil {
			out = "(err panic)"
		}
	}()
	return canonOutcome(f())
}

// ---------------------------------------------------------------- the NUT-11 / NUT-14 evaluator (monitor)

// nutCond: what a tag list means according to NUT-11 (written from the NUT text, not from the code).
type nutCond struct {
	ok       bool // the tag list is one a mint accepts at all
	nSigs    int
	pubkeys  []string // x-only identities are derived when matching; positions matter
	locktime int64
	refund   []string
	sigAll   bool
}

func nutDecimal(s string, bits int) (int64, bool) {
	// decimal integer, optional sign, digits only, within the signed range of `bits`
	if s == "" {
		return 0, false
	}
	neg := false
	t := s
	if t[0] == '+' || t[0] == '-' {
		neg = t[0] == '-'
		t = t[1:]
	}
	if t == "" || len(t) > 25 {
		return 0, false
	}
	var v uint64
	for _, c := range []byte(t) {
		if c < '0' || c > '9' {
			return 0, false
		}
		if v > (1<<63)/10+1 {
			return 0, false
		}
		v = v*10 + uint64(c-'0')
	}
	lim := uint64(1) << (bits - 1)
	if neg {
		if v > lim {
			return 0, false
		}
		return -int64(v), true
	}
	if v >= lim {
		return 0, false
	}
	return int64(v), true
}

func nutIsKey(s string) bool {
	_, ok := xonlyOfKeyString(s)
	return ok
}

func nutParse(tags [][]string) nutCond {
	c := nutCond{ok: true}
	if len(tags) > 5 {
		return nutCond{}
	}
	for _, t := range tags {
		if len(t) < 2 {
			return nutCond{}
		}
		switch t[0] {
		case "sigflag":
			if t[1] != "SIG_INPUTS" && t[1] != "SIG_ALL" {
				return nutCond{}
			}
			c.sigAll = t[1] == "SIG_ALL"
		case "n_sigs":
			n, ok := nutDecimal(t[1], 8)
			if !ok || n < 0 {
				return nutCond{}
			}
			c.nSigs = int(n)
		case "locktime":
			l, ok := nutDecimal(t[1], 64)
			if !ok {
				return nutCond{}
			}
			c.locktime = l
		case "pubkeys", "refund":
			for _, k := range t[1:] {
				if !nutIsKey(k) {
					return nutCond{}
				}
			}
			if t[0] == "pubkeys" {
				c.pubkeys = t[1:]
			} else {
				c.refund = t[1:]
			}
		}
	}
	return c
}

// maxMatching: the largest number of signatures that can be assigned to pairwise distinct key POSITIONS, each
// verifying (Kuhn's augmenting paths; not the greedy first-fit of the code).
func (w *spendWorld) maxMatching(sigs []string, keys []string, msg [32]byte) int {
	xo := make([]string, len(keys))
	for i, k := range keys {
		xo[i], _ = xonlyOfKeyString(k)
	}
	matchKey := make([]int, len(keys))
	for i := range matchKey {
		matchKey[i] = -1
	}
	var try func(si int, seen []bool) bool
	try = func(si int, seen []bool) bool {
		for ki := range keys {
			if seen[ki] || !w.validByConstruction(sigs[si], xo[ki], msg) {
				continue
			}
			seen[ki] = true
			if matchKey[ki] < 0 || try(matchKey[ki], seen) {
				matchKey[ki] = si
				return true
			}
		}
		return false
	}
	n := 0
	for si := range sigs {
		if try(si, make([]bool, len(keys))) {
			n++
		}
	}
	return n
}

// countWithRepetition: signatures valid for SOME listed key (keys may be re-used) — only used to classify a failure.
func (w *spendWorld) countWithRepetition(sigs []string, keys []string, msg [32]byte) int {
	n := 0
	for _, s := range sigs {
		for _, k := range keys {
			xo, _ := xonlyOfKeyString(k)
			if w.validByConstruction(s, xo, msg) {
				n++
				break
			}
		}
	}
	return n
}

func hasDupString(xs []string) bool {
	seen := map[string]bool{}
	for _, x := range xs {
		if seen[x] {
			return true
		}
		seen[x] = true
	}
	return false
}

// witnessSigs: the signature strings / preimage a witness carries (empty when the witness is not the JSON object).
func witnessFields(witness string) (sigs []string, preimage string) {
	var v struct {
		Preimage   string   `json:"preimage"`
		Signatures []string `json:"signatures"`
	}
	json.Unmarshal([]byte(witness), &v)
	return v.Signatures, v.Preimage
}

// nutSpendableP2PK: NUT-11. (data, tags) = the lock; msg = sha256(secret); sigs = witness signatures.
// Returns (spendable, authorised keys before the locktime, threshold).
func (w *spendWorld) nutSpendableP2PK(data string, tags [][]string, msg [32]byte, sigs []string, now int64) (bool, []string, int) {
	c := nutParse(tags)
	if !c.ok {
		return false, nil, 0
	}
	if c.locktime > 0 && now > c.locktime {
		if len(c.refund) == 0 {
			return true, nil, 0
		}
		return w.maxMatching(sigs, c.refund, msg) >= 1, c.refund, 1
	}
	if !nutIsKey(data) {
		return false, nil, 0
	}
	keys := []string{data}
	need := 1
	if c.nSigs > 0 {
		if len(c.pubkeys) == 0 {
			return false, nil, 0
		}
		keys = append(keys, c.pubkeys...)
		need = c.nSigs
	}
	if hasDupString(sigs) {
		return false, keys, need
	}
	return w.maxMatching(sigs, keys, msg) >= need, keys, need
}

// nutSpendableHTLC: NUT-14.
func (w *spendWorld) nutSpendableHTLC(data string, tags [][]string, msg [32]byte, sigs []string, preimage string, now int64) (bool, []string, int) {
	c := nutParse(tags)
	if !c.ok {
		return false, nil, 0
	}
	if c.locktime > 0 && now > c.locktime {
		if len(c.refund) == 0 {
			return true, nil, 0
		}
		return w.maxMatching(sigs, c.refund, msg) >= 1, c.refund, 1
	}
	pb, err := hex.DecodeString(preimage)
	if err != nil || len(data) != 64 {
		return false, nil, 0
	}
	h := sha256.Sum256(pb)
	if hex.EncodeToString(h[:]) != data {
		return false, nil, 0
	}
	if c.nSigs > 0 {
		if hasDupString(sigs) {
			return false, c.pubkeys, c.nSigs
		}
		return w.maxMatching(sigs, c.pubkeys, msg) >= c.nSigs, c.pubkeys, c.nSigs
	}
	return true, nil, 0
}

// ---------------------------------------------------------------- small builders

func witnessJSON(sigs []string) string {
	b, _ := json.Marshal(nut11.P2PKWitness{Signatures: sigs})
	return string(b)
}

func htlcWitnessJSON(pre string, sigs []string) string {
	b, _ := json.Marshal(nut14.HTLCWitness{Preimage: pre, Signatures: sigs})
	return string(b)
}

// secretString serialises a NUT-10 secret with a chosen nonce (so that digests are reproducible).
func secretString(kind nut10.SecretKind, nonce, data string, tags [][]string) string {
	s, err := nut10.SerializeSecret(nut10.WellKnownSecret{Kind: kind, Data: nut10.SecretData{Nonce: nonce, Data: data, Tags: tags}})
	if err != nil {
		panic(err)
	}
	return s
}

func secretDigest(secret string) [32]byte { return sha256.Sum256([]byte(secret)) }

// witnessWellTyped: the witness is a JSON object whose `signatures` is a list of strings (and, for HTLC, whose
// `preimage` is a string).
func witnessWellTyped(witness string, htlc bool) bool {
	if htlc {
		var v struct {
			Preimage   string   `json:"preimage"`
			Signatures []string `json:"signatures"`
		}
		return json.Unmarshal([]byte(witness), &v) == nil
	}
	var v struct {
		Signatures []string `json:"signatures"`
	}
	return json.Unmarshal([]byte(witness), &v) == nil
}
