package main

// Stream "htlc" (C13): NUT-14 locks through the REAL nut14.VerifyHTLCProof / AddWitnessHTLC /
// AddWitnessHTLCToOutputs / mint.VerifVerifyBlindedMessages, versus Model.Spend and the NUT-14 evaluator.

import (
	"crypto/sha256"
	"encoding/hex"
	"fmt"
	"strconv"
	"strings"
	"time"

	"github.com/elnosh/gonuts/cashu"
	"github.com/elnosh/gonuts/cashu/nuts/nut10"
	"github.com/elnosh/gonuts/cashu/nuts/nut11"
	"github.com/elnosh/gonuts/cashu/nuts/nut14"
	"github.com/elnosh/gonuts/mint"
)

func init() {
	register("htlc", []string{"C13"},
		"exhaustive product hash{well-formed,63 chars,non-hex,upper-case} x n_sigs{absent,0..3} x pubkeys 0..3 x locktime{absent,past,future} x refund 0..2 x sigflag{absent,SIG_INPUTS,SIG_ALL} "+
			"x (7 preimage shapes + 14 signature shapes, real Schnorr signatures) through VerifyHTLCProof; seeded random; SIG_ALL output check with preimage/signature shapes; "+
			"helpers AddWitnessHTLC / AddWitnessHTLCToOutputs end to end; class = (phase, configuration, witness shape, outcome)",
		runHTLC)
}

func htlcSigShapes(w *spendWorld, msg [32]byte, auth []*spKey, need int, refund []*spKey, foreign *spKey) (names []string, sigLists [][]string) {
	add := func(n string, s []string) { names = append(names, n); sigLists = append(sigLists, s) }
	other := sha256.Sum256([]byte("another message"))
	sg := func(k *spKey) string { return w.sign(k, msg, 0) }
	distinct := func(n int) []string {
		var out []string
		for i := 0; i < n && len(auth) > 0; i++ {
			out = append(out, w.sign(auth[i%len(auth)], msg, i/len(auth)))
		}
		return out
	}
	add("no-sigs", nil)
	add("empty-list", []string{})
	n := need
	if n < 1 {
		n = 1
	}
	if len(auth) > 0 {
		tf := []string{w.garbageSig(0)}
		if n-1 <= len(auth) {
			tf = append(tf, distinct(n-1)...)
		} else {
			tf = append(tf, distinct(len(auth))...)
		}
		add("too-few", tf)
		if n <= len(auth) {
			ex := distinct(n)
			add("exact", ex)
			rev := make([]string, len(ex))
			for i := range ex {
				rev[len(ex)-1-i] = ex[i]
			}
			add("exact-reversed", rev)
			add("dup-string", append(append([]string{}, ex...), ex[0]))
			wm := append([]string{}, ex...)
			wm[len(wm)-1] = w.sign(auth[(n-1)%len(auth)], other, 0)
			add("wrong-message", wm)
			fk := append([]string{}, ex...)
			fk[0] = sg(foreign)
			add("foreign-key", fk)
		} else {
			add("exact", distinct(len(auth)))
		}
		// recount: distinct signers first, then the last one re-signs until the threshold is met
		{
			m := n - 1
			if m > len(auth) {
				m = len(auth)
			}
			if m < 1 {
				m = 1
			}
			rc := distinct(m)
			last := auth[(m-1)%len(auth)]
			up := append([]string{}, rc...)
			for v := 1; len(rc) < n || v == 1; v++ {
				rc = append(rc, w.sign(last, msg, 10+v))
			}
			add("recount-last-nonce", rc)
			add("recount-last-uppercase", append(up, w.sign(last, msg, -1)))
		}
		var m []string
		for _, k := range auth {
			m = append(m, sg(k))
		}
		add("more", append(m, sg(foreign), w.garbageSig(1)))
	} else {
		add("foreign-key", []string{sg(foreign)})
	}
	rk := foreign
	if len(refund) > 0 {
		rk = refund[len(refund)-1]
	}
	add("refund-sig", []string{sg(rk)})
	add("garbage-only", []string{w.garbageSig(0), w.garbageSig(3)})
	return
}

func runHTLC(c *Ctx) {
	props := []string{"C13"}
	w := newSpendWorld(c.Rng.Fork(), 10)
	now := time.Now().Unix()
	foreign := w.keys[9]
	preBytes := []byte{0xde, 0xad, 0xbe, 0xef, 0x01, 0x02}
	pre := hex.EncodeToString(preBytes)
	hsum := sha256.Sum256(preBytes)
	goodHash := hex.EncodeToString(hsum[:])
	emptySum := sha256.Sum256(nil)
	hashes := []struct{ lbl, h string }{
		{"ok", goodHash}, {"63chars", goodHash[:63]}, {"nonhex", "zz" + goodHash[2:]}, {"uppercase", strings.ToUpper(goodHash)},
	}
	preimages := []struct{ lbl, p string }{
		{"right", pre}, {"wrong", "00" + pre}, {"nonhex", "xyz!"}, {"empty", ""}, {"odd", pre[:len(pre)-1]}, {"right-uppercase", strings.ToUpper(pre)},
	}
	var cases []*spendCase
	cfgIdx := 0
	for _, hh := range hashes {
		for _, nsigs := range []int{-1, 0, 1, 2, 3} {
			for npk := 0; npk <= 3; npk++ {
				for lt := 0; lt <= 2; lt++ {
					for nref := 0; nref <= 2; nref++ {
						for flag := 0; flag <= 2; flag++ {
							cfgIdx++
							var pubs, refs []string
							var auth, refKeys []*spKey
							for i := 0; i < npk; i++ {
								pubs = append(pubs, w.keys[i].hex)
								auth = append(auth, w.keys[i])
							}
							for i := 0; i < nref; i++ {
								refs = append(refs, w.keys[6+i].hex)
								refKeys = append(refKeys, w.keys[6+i])
							}
							tags := lockTags(nsigs, pubs, lt, refs, flag, now)
							secret := secretString(nut10.HTLC, fmt.Sprintf("%064x", cfgIdx), hh.h, tags)
							msg := secretDigest(secret)
							cfg := fmt.Sprintf("h=%s/n=%d/k=%d/lt=%d/r=%d/f=%d", hh.lbl, nsigs, npk, lt, nref, flag)
							names, sigLists := htlcSigShapes(w, msg, auth, nsigs, refKeys, foreign)
							mkCase := func(shape, wit string) {
								cases = append(cases, &spendCase{phase: "product", cfg: cfg, shape: shape, kind: nut10.HTLC,
									proof: cashu.Proof{Amount: 1, Id: "00", Secret: secret, C: "02", Witness: wit}, data: hh.h, tags: tags})
							}
							exact := []string(nil)
							for i, n := range names {
								if n == "exact" {
									exact = sigLists[i]
								}
							}
							// preimage shapes with the exact-threshold signatures
							for _, pp := range preimages {
								mkCase("pre="+pp.lbl+"/exact", htlcWitnessJSON(pp.p, exact))
							}
							mkCase("pre=absent/exact", witnessJSON(exact))
							// signature shapes with the right preimage (the sigflag does not influence VerifyHTLCProof:
							// the full signature-shape set runs for flag absent, a reduced one for the other two)
							for i, n := range names {
								if flag != 0 && !(n == "no-sigs" || n == "recount-last-nonce" || n == "refund-sig" || n == "too-few") {
									continue
								}
								mkCase("pre=right/"+n, htlcWitnessJSON(pre, sigLists[i]))
							}
							if flag == 0 {
								mkCase("no-witness", "")
								mkCase("garbage-json", "{\"preimage\":\""+pre+"\",")
								mkCase("preimage-wrong-type", "{\"preimage\":7,\"signatures\":[]}")
							}
						}
					}
				}
			}
		}
	}
	nProduct := len(cases)
	_ = emptySum
	// corner: the empty preimage against the hash of the empty string; tag corner cases shared with NUT-11
	{
		eh := hex.EncodeToString(emptySum[:])
		k0 := w.keys[0]
		corner := []struct {
			name string
			data string
			tags [][]string
			wit  string
		}{
			{"empty-preimage-opens-sha256-of-nothing", eh, nil, htlcWitnessJSON("", nil)},
			{"no-witness-opens-sha256-of-nothing", eh, nil, ""},
			{"garbage-witness-opens-sha256-of-nothing", eh, nil, "not json"},
			{"six-tags", goodHash, [][]string{{"a", "1"}, {"b", "1"}, {"c", "1"}, {"d", "1"}, {"e", "1"}, {"f", "1"}}, htlcWitnessJSON(pre, nil)},
			{"short-tag", goodHash, [][]string{{"pubkeys"}}, htlcWitnessJSON(pre, nil)},
			{"bad-sigflag", goodHash, [][]string{{"sigflag", "x"}}, htlcWitnessJSON(pre, nil)},
			{"nsigs-128", goodHash, [][]string{{"n_sigs", "128"}}, htlcWitnessJSON(pre, nil)},
			{"nsigs--1", goodHash, [][]string{{"n_sigs", "-1"}}, htlcWitnessJSON(pre, nil)},
			{"bad-pubkey", goodHash, [][]string{{"pubkeys", "zz"}}, htlcWitnessJSON(pre, nil)},
			{"bad-refund", goodHash, [][]string{{"refund", "zz"}}, htlcWitnessJSON(pre, nil)},
			{"bad-locktime", goodHash, [][]string{{"locktime", "soon"}}, htlcWitnessJSON(pre, nil)},
			{"pubkeys-without-nsigs", goodHash, [][]string{{"pubkeys", k0.hex}}, htlcWitnessJSON(pre, nil)},
			{"nsigs-twice", goodHash, [][]string{{"n_sigs", "1"}, {"n_sigs", "0"}, {"pubkeys", k0.hex}}, htlcWitnessJSON(pre, nil)},
			{"hash-65", goodHash + "0", nil, htlcWitnessJSON(pre, nil)},
			// Go's len() counts BYTES: 63 hex digits and a two-byte rune are 64 characters but 65 bytes (Invalid hash), 62 and
			// a two-byte rune are 63 characters but 64 bytes (passes the length test, then Invalid preimage). The model
			// counted characters until the translation of VerifyHTLCProof was tied to it (corrected: utf8ByteSize).
			{"hash-64-chars-65-bytes", goodHash[:63] + "é", nil, htlcWitnessJSON(pre, nil)},
			{"hash-63-chars-64-bytes", goodHash[:62] + "é", nil, htlcWitnessJSON(pre, nil)},
			{"hash-empty", "", nil, htlcWitnessJSON(pre, nil)},
			{"hash-is-key", k0.hex[:64], nil, htlcWitnessJSON(pre, nil)},
		}
		for i, t := range corner {
			secret := secretString(nut10.HTLC, fmt.Sprintf("c0%062x", i), t.data, t.tags)
			cases = append(cases, &spendCase{phase: "corner", cfg: t.name, shape: "-", kind: nut10.HTLC,
				proof: cashu.Proof{Amount: 1, Id: "00", Secret: secret, C: "02", Witness: t.wit}, data: t.data, tags: t.tags})
		}
	}
	// seeded random
	nRandom := 2000
	if c.Thorough {
		nRandom = 60000
	}
	{
		r := c.Rng
		pool := w.keys[:5]
		for i := 0; i < nRandom; i++ {
			var tags [][]string
			for j := r.Intn(6); j > 0; j-- {
				switch r.Intn(6) {
				case 0:
					tags = append(tags, []string{"sigflag", []string{"SIG_ALL", "SIG_INPUTS"}[r.Intn(2)]})
				case 1, 2:
					tags = append(tags, []string{"n_sigs", []string{"0", "1", "2", "3", "1", "x"}[r.Intn(6)]})
				case 3:
					t := []string{"pubkeys"}
					for m := r.Intn(4); m >= 0; m-- {
						k := pool[r.Intn(len(pool))]
						t = append(t, []string{k.hex, k.hex, k.hex, k.twinHex(), k.uncompressedHex(), "zz"}[r.Intn(6)])
					}
					tags = append(tags, t)
				case 4:
					tags = append(tags, []string{"locktime", []string{strconv.FormatInt(now-1000000, 10), strconv.FormatInt(now+1000000, 10), "0", "x"}[r.Intn(4)]})
				default:
					t := []string{"refund"}
					for m := r.Intn(2); m >= 0; m-- {
						t = append(t, pool[r.Intn(len(pool))].hex)
					}
					tags = append(tags, t)
				}
			}
			data := hashes[[]int{0, 0, 0, 1, 2, 3}[r.Intn(6)]].h
			secret := secretString(nut10.HTLC, fmt.Sprintf("aa%062x", i), data, tags)
			msg := secretDigest(secret)
			var sigs []string
			for m := r.Intn(5); m > 0; m-- {
				k := pool[r.Intn(len(pool))]
				switch r.Intn(8) {
				case 0:
					sigs = append(sigs, w.garbageSig(r.Intn(4)))
				case 1:
					sigs = append(sigs, w.sign(k, msg, 1+r.Intn(2)))
				case 2:
					sigs = append(sigs, w.sign(k, msg, -1))
				case 3:
					if len(sigs) > 0 {
						sigs = append(sigs, sigs[r.Intn(len(sigs))])
					}
				default:
					sigs = append(sigs, w.sign(k, msg, 0))
				}
			}
			pp := preimages[[]int{0, 0, 0, 0, 1, 2, 3, 4, 5}[r.Intn(9)]].p
			cases = append(cases, &spendCase{phase: "random", cfg: fmt.Sprintf("tags=%d", len(tags)), shape: fmt.Sprintf("sigs=%d", len(sigs)), kind: nut10.HTLC,
				proof: cashu.Proof{Amount: 1, Id: "00", Secret: secret, C: "02", Witness: htlcWitnessJSON(pp, sigs)}, data: data, tags: tags})
		}
	}

	parallelDo(len(cases), func(i int) {
		cs := cases[i]
		cs.impl = guardOutcome(func() error {
			s, err := nut10.DeserializeSecret(cs.proof.Secret)
			if err != nil {
				return fmt.Errorf("harness: secret does not deserialize: %v", err)
			}
			return nut14.VerifyHTLCProof(cs.proof, s)
		})
	})
	ops := make([]Sx, 0, 2*len(cases))
	for _, cs := range cases {
		e := w.newEnv(now)
		p := e.proofSx(cs.proof)
		env := e.Sx()
		cs.op = L(A("spend.htlc"), env, p)
		cs.specOp = L(A("spend.spec-htlc"), env, p)
		ops = append(ops, cs.op, cs.specOp)
		sigs, pp := witnessFields(cs.proof.Witness)
		cs.sigs = sigs
		cs.spec, cs.keys, cs.need = w.nutSpendableHTLC(cs.data, cs.tags, secretDigest(cs.proof.Secret), sigs, pp, now)
		for _, s := range sigs {
			for _, k := range cs.keys {
				w.selfCheck(s, k, secretDigest(cs.proof.Secret))
			}
		}
	}
	answers := c.Drv.Batch(ops)
	for i, cs := range cases {
		model, lspec := answers[2*i], answers[2*i+1]
		c.Case(cs.phase+"/"+cs.cfg+"/"+cs.shape+"/"+cs.impl, true)
		c.Hist("verify/outcome", cs.impl)
		shapeKey := cs.shape
		if cs.phase != "product" {
			shapeKey = cs.phase
		}
		c.Hist("verify/shape", shapeKey+" -> "+cs.impl)
		c.Hist("verify/phase", cs.phase)
		if i%2999 == 0 {
			c.Sample(map[string]any{"cfg": cs.cfg, "shape": cs.shape, "secret": cs.proof.Secret, "witness": cs.proof.Witness, "impl": cs.impl, "model": model, "nut_evaluator": cs.spec})
		}
		replay := map[string]any{"secret": cs.proof.Secret, "witness": cs.proof.Witness, "now": now, "op": Render(cs.op)}
		if model != cs.impl {
			c.Disagree(props, Render(cs.op), cs.impl, model, replay)
		}
		if lspec != strconv.FormatBool(cs.spec) {
			c.Disagree(props, Render(cs.specOp), "nut-evaluator:"+strconv.FormatBool(cs.spec), lspec, replay)
		}
		accepted := cs.impl == "ok"
		if accepted != cs.spec {
			msg := secretDigest(cs.proof.Secret)
			sig, what := "C13/VerifyHTLCProof/rejects-spendable", "rejected ("+cs.impl+") a witness that NUT-14 allows ("+cs.cfg+", "+cs.shape+")"
			if accepted {
				sig, what = "C13/VerifyHTLCProof/accepts-unspendable", "accepted a witness that NUT-14 does not allow ("+cs.cfg+", "+cs.shape+")"
				if cs.need > 0 && !hasDupString(cs.sigs) && w.maxMatching(cs.sigs, cs.keys, msg) < cs.need && w.countWithRepetition(cs.sigs, cs.keys, msg) >= cs.need {
					sig = "C13/hasValidSignatures/last-key-recount"
					what = fmt.Sprintf("accepted with %d signatures from only %d distinct listed keys (threshold %d): the last remaining key is counted again",
						w.countWithRepetition(cs.sigs, cs.keys, msg), w.maxMatching(cs.sigs, cs.keys, msg), cs.need)
				}
			}
			c.MonitorFail("C13", sig, what, replay)
			c.Hist("monitor", sig)
			saveFinding(sig, map[string]any{"finding": findingID(sig), "signature": sig, "what": what, "function": "nut14.VerifyHTLCProof",
				"secret": cs.proof.Secret, "witness": cs.proof.Witness, "now": now, "observed": cs.impl, "nut14_evaluator_spendable": cs.spec,
				"listed_keys": cs.keys, "threshold": cs.need})
		} else {
			c.Hist("monitor", "agree")
		}
	}
	c.Hist("sizes", fmt.Sprintf("product=%d", nProduct))
	for _, f := range w.selfCheckFailures {
		c.Disagree(props, "harness-selfcheck", "by-construction validity differs from btcec verification", f, nil)
	}
	runP2PKParse(c, w, now, cases, false)
	runHTLCSigAll(c, w, now, pre, goodHash)
	runHTLCHelpers(c, w, now, pre, goodHash)
	runHTLCRegressions(c, w, now, pre, goodHash)
	c.Res.Exhaustive = true
}

// ---------------------------------------------------------------- SIG_ALL with HTLC inputs

func runHTLCSigAll(c *Ctx, w *spendWorld, now int64, pre, goodHash string) {
	props := []string{"C13"}
	k0, k1, fk := w.keys[0], w.keys[1], w.keys[9]
	otherPre := "0badc0de"
	ob, _ := hex.DecodeString(otherPre)
	oh := sha256.Sum256(ob)
	otherHash := hex.EncodeToString(oh[:])
	type inp struct {
		lbl   string
		plain bool
		kind  nut10.SecretKind
		data  string
		tags  [][]string
		pre   string
		sa    bool
	}
	alphabet := []inp{
		{lbl: "plain", plain: true},
		{lbl: "H1", kind: nut10.HTLC, data: goodHash, pre: pre, tags: [][]string{{"sigflag", "SIG_ALL"}, {"n_sigs", "1"}, {"pubkeys", k0.hex}}, sa: true},
		{lbl: "H2", kind: nut10.HTLC, data: goodHash, pre: pre, tags: [][]string{{"sigflag", "SIG_ALL"}, {"n_sigs", "2"}, {"pubkeys", k0.hex, k1.hex}}, sa: true},
		{lbl: "H2one", kind: nut10.HTLC, data: goodHash, pre: pre, tags: [][]string{{"sigflag", "SIG_ALL"}, {"n_sigs", "2"}, {"pubkeys", k0.hex}}, sa: true},
		{lbl: "H0", kind: nut10.HTLC, data: goodHash, pre: pre, tags: [][]string{{"sigflag", "SIG_ALL"}}, sa: true},
		{lbl: "H0p", kind: nut10.HTLC, data: goodHash, pre: pre, tags: [][]string{{"sigflag", "SIG_ALL"}, {"pubkeys", k0.hex}}, sa: true},
		{lbl: "H1other", kind: nut10.HTLC, data: otherHash, pre: otherPre, tags: [][]string{{"sigflag", "SIG_ALL"}, {"n_sigs", "1"}, {"pubkeys", k0.hex}}, sa: true},
		{lbl: "H1short", kind: nut10.HTLC, data: goodHash[:63], pre: pre, tags: [][]string{{"sigflag", "SIG_ALL"}, {"n_sigs", "1"}, {"pubkeys", k0.hex}}, sa: true},
		{lbl: "Hin", kind: nut10.HTLC, data: goodHash, pre: pre, tags: [][]string{{"sigflag", "SIG_INPUTS"}, {"n_sigs", "1"}, {"pubkeys", k0.hex}}},
		{lbl: "P1", kind: nut10.P2PK, data: k0.hex, tags: [][]string{{"sigflag", "SIG_ALL"}}, sa: true},
	}
	Bs := []string{w.keys[3].hex, w.keys[4].hex}
	dg := func(B_ string) [32]byte { d, _ := decodedDigest(B_); return d }
	type oshape struct {
		lbl string
		f   func(B_ string, i int) string
	}
	oshapes := []oshape{
		{"unsigned", func(B_ string, i int) string { return "" }},
		{"pre+k0", func(B_ string, i int) string { return htlcWitnessJSON(pre, []string{w.sign(k0, dg(B_), 0)}) }},
		{"pre+k0+k1", func(B_ string, i int) string {
			return htlcWitnessJSON(pre, []string{w.sign(k0, dg(B_), 0), w.sign(k1, dg(B_), 0)})
		}},
		{"pre+k0+k0'", func(B_ string, i int) string {
			return htlcWitnessJSON(pre, []string{w.sign(k0, dg(B_), 0), w.sign(k0, dg(B_), 4)})
		}},
		{"pre+k0+k0", func(B_ string, i int) string {
			return htlcWitnessJSON(pre, []string{w.sign(k0, dg(B_), 0), w.sign(k0, dg(B_), 0)})
		}},
		{"pre-only", func(B_ string, i int) string { return htlcWitnessJSON(pre, nil) }},
		{"sig-only", func(B_ string, i int) string { return witnessJSON([]string{w.sign(k0, dg(B_), 0)}) }},
		{"wrongpre+k0", func(B_ string, i int) string { return htlcWitnessJSON("00", []string{w.sign(k0, dg(B_), 0)}) }},
		{"otherpre+k0", func(B_ string, i int) string { return htlcWitnessJSON(otherPre, []string{w.sign(k0, dg(B_), 0)}) }},
		{"nonhexpre+k0", func(B_ string, i int) string { return htlcWitnessJSON("zz", []string{w.sign(k0, dg(B_), 0)}) }},
		{"pre+foreign", func(B_ string, i int) string { return htlcWitnessJSON(pre, []string{w.sign(fk, dg(B_), 0)}) }},
		{"pre+k0-over-text", func(B_ string, i int) string {
			return htlcWitnessJSON(pre, []string{w.sign(k0, sha256.Sum256([]byte(B_)), 0)})
		}},
		{"garbage-json", func(B_ string, i int) string { return "[" }},
		{"pre+k0-first-only", func(B_ string, i int) string {
			if i == 0 {
				return htlcWitnessJSON(pre, []string{w.sign(k0, dg(B_), 0)})
			}
			return ""
		}},
	}
	type saCase struct {
		labels []string
		proofs cashu.Proofs
		anySA, plainBefore bool
		olbl   string
		outs   cashu.BlindedMessages
		implSA bool
		impl   string
	}
	var cases []*saCase
	var lists [][]int
	for a := range alphabet {
		lists = append(lists, []int{a})
		for b := range alphabet {
			lists = append(lists, []int{a, b})
		}
	}
	lists = append(lists, []int{0, 0, 1}, []int{1, 0, 1}, []int{1, 1, 1}, []int{0, 2, 2})
	nonce := 0
	for _, lst := range lists {
		var ps cashu.Proofs
		var labels []string
		anySA, seenPlain, plainBefore := false, false, false
		for _, a := range lst {
			in := alphabet[a]
			nonce++
			var p cashu.Proof
			if in.plain {
				p = cashu.Proof{Amount: 1, Id: "00", C: "02", Secret: fmt.Sprintf("7b%062x", nonce)}
				seenPlain = true
			} else {
				sec := secretString(in.kind, fmt.Sprintf("7a%062x", nonce), in.data, in.tags)
				d := secretDigest(sec)
				wit := htlcWitnessJSON(in.pre, []string{w.sign(k0, d, 0), w.sign(k1, d, 0)})
				p = cashu.Proof{Amount: 1, Id: "00", C: "02", Secret: sec, Witness: wit}
			}
			if in.sa {
				if !anySA && seenPlain {
					plainBefore = true
				}
				anySA = true
			}
			ps = append(ps, p)
			labels = append(labels, in.lbl)
		}
		cases = append(cases, &saCase{labels: labels, proofs: ps, anySA: anySA, plainBefore: plainBefore, olbl: "no-outputs", outs: cashu.BlindedMessages{}})
		for _, sh := range oshapes {
			for n := 1; n <= 2; n++ {
				var outs cashu.BlindedMessages
				for i := 0; i < n; i++ {
					outs = append(outs, cashu.BlindedMessage{Amount: 1, Id: "00", B_: Bs[i], Witness: sh.f(Bs[i], i)})
				}
				cases = append(cases, &saCase{labels: labels, proofs: ps, anySA: anySA, plainBefore: plainBefore, olbl: fmt.Sprintf("%s x%d", sh.lbl, n), outs: outs})
			}
		}
	}
	parallelDo(len(cases), func(i int) {
		cs := cases[i]
		cs.implSA = nut11.ProofsSigAll(cs.proofs)
		cs.impl = guardOutcome(func() error { return mint.VerifVerifyBlindedMessages(cs.proofs, cs.outs) })
	})
	var ops []Sx
	for _, cs := range cases {
		e := w.newEnv(now)
		ps := e.proofsSx(cs.proofs)
		outs := e.outputsSx(cs.outs, secretKindOf(cs.proofs[0].Secret))
		env := e.Sx()
		ops = append(ops, L(A("spend.sigall"), ps), L(A("spend.outputs"), env, ps, outs), L(A("spend.verify"), env, ps))
	}
	ans := c.Drv.Batch(ops)
	for i, cs := range cases {
		lbl := strings.Join(cs.labels, ",")
		c.Case("sigall/"+lbl+"/"+cs.olbl+"/"+cs.impl, true)
		c.Hist("sigall/verifyBlindedMessages", cs.impl)
		replay := map[string]any{"inputs": cs.labels, "proofs": cs.proofs, "outputs": cs.outs, "now": now}
		if ans[3*i] != strconv.FormatBool(cs.implSA) {
			c.Disagree(props, Render(ops[3*i]), strconv.FormatBool(cs.implSA), ans[3*i], replay)
		}
		if ans[3*i+1] != cs.impl {
			c.Disagree(props, Render(ops[3*i+1]), cs.impl, ans[3*i+1], replay)
		}
		// MONITOR htlc_sigall_outputs: accepted => every output carries the preimage and the signatures
		want, why := nutSigAllOutputsOK(w, cs.proofs, cs.outs)
		accepted := cs.impl == "ok"
		switch {
		case accepted && !want && cs.anySA:
			sig := "C13/verifyBlindedMessages/accepts-unsigned"
			if strings.HasPrefix(why, "recount:") {
				sig = "C13/hasValidSignatures/last-key-recount"
			}
			c.MonitorFail("C13", sig, "verifyBlindedMessages accepted although "+why, replay)
			c.Hist("monitor-outputs", sig)
		case !accepted && want:
			c.MonitorFail("C13", "C13/verifyBlindedMessages/rejects-signed", "verifyBlindedMessages rejected ("+cs.impl+") outputs carrying preimage and signatures; inputs ["+lbl+"] / "+cs.olbl, replay)
			c.Hist("monitor-outputs", "rejects-signed")
		default:
			c.Hist("monitor-outputs", "agree")
		}
	}
}

// ---------------------------------------------------------------- helpers AddWitnessHTLC / AddWitnessHTLCToOutputs

func runHTLCHelpers(c *Ctx, w *spendWorld, now int64, pre, goodHash string) {
	props := []string{"C13"}
	k0, k1, rk, fk := w.keys[0], w.keys[1], w.keys[6], w.keys[9]
	signers := []struct {
		lbl string
		k   *spKey
	}{{"listed-first", k0}, {"listed-second", k1}, {"refund-key", rk}, {"foreign", fk}}
	var ops []Sx
	var impls, lbls []string
	ask := func(op Sx, impl, lbl string) { ops = append(ops, op); impls = append(impls, impl); lbls = append(lbls, lbl) }
	idx := 0
	for _, nsigs := range []int{-1, 0, 1, 2} {
		for npk := 0; npk <= 2; npk++ {
			for lt := 0; lt <= 2; lt++ {
				for nref := 0; nref <= 1; nref++ {
					for _, flag := range []int{0, 2} {
						for _, pv := range []struct{ lbl, p string }{{"right", pre}, {"wrong", "00"}, {"nonhex", "zz"}} {
							var pubs, refs []string
							for i := 0; i < npk; i++ {
								pubs = append(pubs, w.keys[i].hex)
							}
							if nref == 1 {
								refs = []string{rk.hex}
							}
							tags := lockTags(nsigs, pubs, lt, refs, flag, now)
							for _, sg := range signers {
								idx++
								var ps cashu.Proofs
								for j := 0; j < 2; j++ {
									ps = append(ps, cashu.Proof{Amount: 1, Id: "00", C: "02",
										Secret: secretString(nut10.HTLC, fmt.Sprintf("4f%060x%02x", idx, j), goodHash, tags)})
								}
								cfg := fmt.Sprintf("n=%d/pk=%d/lt=%d/r=%d/f=%d/pre=%s/%s", nsigs, npk, lt, nref, flag, pv.lbl, sg.lbl)
								sec0, _ := nut10.DeserializeSecret(ps[0].Secret)
								var signed cashu.Proofs
								hOut := guardOutcome(func() error {
									var err error
									signed, err = nut14.AddWitnessHTLC(append(cashu.Proofs{}, ps...), sec0, pv.p, sg.k.priv)
									return err
								})
								kid := w.keySym(sg.k.hex)
								e := w.newEnv(now)
								var st []Sx
								for _, p := range ps {
									d := secretDigest(p.Secret)
									st = append(st, L(I(kid), I(w.msgSym(d)), I(w.sigSym(w.sign(sg.k, d, 0)))))
								}
								plain := e.proofsSx(ps)
								secSx := e.secretSx(ps[0].Secret)
								implH := hOut
								if hOut == "ok" {
									var ws []string
									for _, p := range signed {
										ws = append(ws, p.Witness)
									}
									implH = Render(L(A("ok"), witnessesSx(e, ws, nut10.HTLC)))
								}
								ask(L(A("spend.help-htlc-in"), e.Sx(), Ls(st), plain, secSx, S(pv.p), I(kid)), implH, "help-htlc-in")
								c.Hist("helpers/AddWitnessHTLC", hOut)
								if hOut != "ok" {
									c.Case("helper-in/"+cfg+"/"+hOut, true)
									continue
								}
								allOK := true
								firstErr := ""
								for _, p := range signed {
									p := p
									impl := guardOutcome(func() error {
										s, _ := nut10.DeserializeSecret(p.Secret)
										return nut14.VerifyHTLCProof(p, s)
									})
									e2 := w.newEnv(now)
									px := e2.proofSx(p)
									ask(L(A("spend.htlc"), e2.Sx(), px), impl, "help-htlc-in-verify")
									if impl != "ok" {
										allOK = false
										firstErr = impl
									}
								}
								cnd := nutParse(tags)
								expired := cnd.locktime > 0 && now > cnd.locktime
								// helper succeeded, right preimage; before the locktime (or after it with no refund key)
								should := pv.lbl == "right" && (!expired || len(cnd.refund) == 0)
								c.Case("helper-in/"+cfg+"/"+strconv.FormatBool(allOK), true)
								c.Hist("helpers/inputs", fmt.Sprintf("should=%v accepted=%v", should, allOK))
								if should && !allOK {
									c.MonitorFail("C13", "C13/AddWitnessHTLC/rejected", "the witness written by AddWitnessHTLC is rejected: "+firstErr+" ("+cfg+")",
										map[string]any{"proofs": signed, "now": now})
								}
								// outputs
								for _, bv := range []string{"ok", "upper", "nonhex"} {
									var outs cashu.BlindedMessages
									for j := 0; j < 2; j++ {
										B_ := w.keys[3+j].hex
										if bv == "upper" {
											B_ = strings.ToUpper(B_)
										}
										if bv == "nonhex" && j == 1 {
											B_ = "zz" + B_[2:]
										}
										outs = append(outs, cashu.BlindedMessage{Amount: 1, Id: "00", B_: B_})
									}
									var so cashu.BlindedMessages
									hO := guardOutcome(func() error {
										var err error
										so, err = nut14.AddWitnessHTLCToOutputs(append(cashu.BlindedMessages{}, outs...), pv.p, sg.k.priv)
										return err
									})
									e3 := w.newEnv(now)
									var st2 []Sx
									for _, o := range outs {
										if d, ok := decodedDigest(o.B_); ok {
											st2 = append(st2, L(I(kid), I(w.msgSym(d)), I(w.sigSym(w.sign(sg.k, d, 0)))))
										}
										dt := sha256.Sum256([]byte(o.B_))
										st2 = append(st2, L(I(kid), I(w.msgSym(dt)), I(w.sigSym(w.sign(sg.k, dt, 0)))))
									}
									plainOuts := e3.outputsSx(outs, nut10.HTLC)
									implHO := hO
									if hO == "ok" {
										var ows []string
										for _, o := range so {
											ows = append(ows, o.Witness)
										}
										implHO = Render(L(A("ok"), witnessesSx(e3, ows, nut10.HTLC)))
									}
									ask(L(A("spend.help-htlc-out"), Ls(st2), S(pv.p), I(kid), plainOuts), implHO, "help-htlc-out")
									c.Hist("helpers/AddWitnessHTLCToOutputs", bv+" -> "+hO)
									if hO != "ok" {
										continue
									}
									implV := guardOutcome(func() error { return mint.VerifVerifyBlindedMessages(signed, so) })
									e4 := w.newEnv(now)
									pxs := e4.proofsSx(signed)
									oxs := e4.outputsSx(so, nut10.HTLC)
									ask(L(A("spend.outputs"), e4.Sx(), pxs, oxs), implV, "help-htlc-out-verify")
									listed := (npk >= 1 && sg.k == k0) || (npk >= 2 && sg.k == k1)
									shouldO := flag == 2 && pv.lbl == "right" && cnd.nSigs <= 1 && listed
									c.Case("helper-out/"+cfg+"/"+bv+"/"+implV, true)
									c.Hist("helpers/outputs", fmt.Sprintf("should=%v outcome=%s", shouldO, implV))
									if shouldO && implV != "ok" {
										sig := "C13/AddWitnessHTLCToOutputs/rejected"
										what := "the output witness written by AddWitnessHTLCToOutputs with a listed key is rejected: " + implV + " (" + cfg + ")"
										// classify: is the helper's signature one over the hex TEXT of B_?
										sgs, _ := witnessFields(so[0].Witness)
										if len(sgs) == 1 && sgs[0] == w.sign(sg.k, sha256.Sum256([]byte(so[0].B_)), 0) {
											sig = "C13/AddWitnessHTLCToOutputs/hex-text"
											what = "AddWitnessHTLCToOutputs signs sha256 of the hex TEXT of B_; the mint verifies over the decoded bytes: the helper's output witness is rejected (" + implV + ")"
										}
										c.MonitorFail("C13", sig, what, map[string]any{"proofs": signed, "outputs": so, "now": now})
										c.Hist("monitor-helpers", sig)
										saveFinding(sig, map[string]any{"finding": findingID(sig), "signature": sig, "what": what, "function": "nut14.AddWitnessHTLCToOutputs -> mint.verifyBlindedMessages",
											"proofs": signed, "outputs": so, "preimage": pv.p, "signing_key_pub": sg.k.hex, "observed": implV, "expected": "ok"})
									}
								}
							}
						}
					}
				}
			}
		}
	}
	ans := c.Drv.Batch(ops)
	for i := range ops {
		c.Hist("helpers/ops", lbls[i])
		if ans[i] != impls[i] {
			c.Disagree(props, Render(ops[i]), impls[i], ans[i], nil)
		}
	}
}

// ---------------------------------------------------------------- regressions: the minimal witnesses of F6 (HTLC path) and F8

func runHTLCRegressions(c *Ctx, w *spendWorld, now int64, pre, goodHash string) {
	k0 := w.keys[0]
	// F6 in the HTLC path: one listed key, threshold 2, two signatures of that key
	tags := [][]string{{"n_sigs", "2"}, {"pubkeys", k0.hex}}
	secret := secretString(nut10.HTLC, strings.Repeat("f6", 32), goodHash, tags)
	d := secretDigest(secret)
	p := cashu.Proof{Amount: 1, Id: "00", C: "02", Secret: secret, Witness: htlcWitnessJSON(pre, []string{w.sign(k0, d, 0), w.sign(k0, d, 1)})}
	impl := guardOutcome(func() error {
		s, _ := nut10.DeserializeSecret(p.Secret)
		return nut14.VerifyHTLCProof(p, s)
	})
	c.Case("regression/F6-htlc/"+impl, true)
	c.Hist("regression", "F6 (HTLC) 2-of-1 -> "+impl)
	if impl == "ok" {
		c.MonitorFail("C13", "C13/hasValidSignatures/last-key-recount", "regression witness of F6 accepted: two signatures of the only listed key meet n_sigs=2",
			map[string]any{"secret": p.Secret, "witness": p.Witness})
	}
	e := w.newEnv(now)
	px := e.proofSx(p)
	if m := c.Drv.Ask(L(A("spend.htlc"), e.Sx(), px)); m != impl {
		c.Disagree([]string{"C13"}, "regression F6-htlc", impl, m, nil)
	}
	// F8: SIG_ALL HTLC input (threshold 1, key k0); outputs signed by the helper
	saTags := [][]string{{"sigflag", "SIG_ALL"}, {"n_sigs", "1"}, {"pubkeys", k0.hex}}
	sec := secretString(nut10.HTLC, strings.Repeat("f8", 32), goodHash, saTags)
	s0, _ := nut10.DeserializeSecret(sec)
	ins, err := nut14.AddWitnessHTLC(cashu.Proofs{{Amount: 1, Id: "00", C: "02", Secret: sec}}, s0, pre, k0.priv)
	if err != nil {
		c.Disagree([]string{"C13"}, "regression F8", "AddWitnessHTLC failed: "+err.Error(), "", nil)
		return
	}
	outs := cashu.BlindedMessages{{Amount: 1, Id: "00", B_: w.keys[3].hex}}
	so, err := nut14.AddWitnessHTLCToOutputs(append(cashu.BlindedMessages{}, outs...), pre, k0.priv)
	implV := "helper failed"
	if err == nil {
		implV = guardOutcome(func() error { return mint.VerifVerifyBlindedMessages(ins, so) })
	}
	c.Case("regression/F8/"+implV, true)
	c.Hist("regression", "F8 helper-signed output -> "+implV)
	if implV != "ok" {
		c.MonitorFail("C13", "C13/AddWitnessHTLCToOutputs/hex-text", "regression witness of F8: the output witness written by AddWitnessHTLCToOutputs is rejected: "+implV,
			map[string]any{"proofs": ins, "outputs": so})
	}
	// the OLD helper output (signature over the hex text) must be refused by the mint
	old := cashu.BlindedMessages{{Amount: 1, Id: "00", B_: outs[0].B_, Witness: htlcWitnessJSON(pre, []string{w.sign(k0, sha256.Sum256([]byte(outs[0].B_)), 0)})}}
	implOld := guardOutcome(func() error { return mint.VerifVerifyBlindedMessages(ins, old) })
	c.Case("regression/F8-old/"+implOld, true)
	c.Hist("regression", "F8 old-style (hex-text) output -> "+implOld)
	if implOld == "ok" {
		c.MonitorFail("C13", "C13/verifyBlindedMessages/accepts-unsigned", "an output signed over the hex text of B_ is accepted", map[string]any{"proofs": ins, "outputs": old})
	}
	for _, oo := range []cashu.BlindedMessages{so, old} {
		if oo == nil {
			continue
		}
		e := w.newEnv(now)
		pxs := e.proofsSx(ins)
		oxs := e.outputsSx(oo, nut10.HTLC)
		want := guardOutcome(func() error { return mint.VerifVerifyBlindedMessages(ins, oo) })
		if m := c.Drv.Ask(L(A("spend.outputs"), e.Sx(), pxs, oxs)); m != want {
			c.Disagree([]string{"C13"}, "regression F8 outputs", want, m, nil)
		}
	}
}
