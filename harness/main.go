package main

import (
	"flag"
	"fmt"
	"os"
	"path/filepath"
	"runtime/debug"
	"strings"
)

func main() {
	stream := flag.String("stream", "", "stream name (or 'list')")
	seed := flag.Uint64("seed", 1, "PRNG seed")
	tier := flag.String("tier", "quick", "quick|thorough")
	driver := flag.String("driver", "", "path to the Lean driver executable")
	out := flag.String("out", "", "result JSON path")
	scratch := flag.String("scratch", "/var/tmp/gonuts-verif", "scratch directory (outside /repo, /verif, /tmp)")
	shard := flag.String("shard", "0/1", "k/n: this run is shard k of n (streams that enumerate split their work by it)")
	flag.Parse()
	shardK, shardN := 0, 1
	fmt.Sscanf(*shard, "%d/%d", &shardK, &shardN)
	if shardN < 1 || shardK < 0 || shardK >= shardN {
		shardK, shardN = 0, 1
	}

	if *stream == "list" {
		for _, k := range sortedKeys(streams) {
			fmt.Println(k, strings.Join(streams[k].props, ","))
		}
		return
	}
	info, ok := streams[*stream]
	if !ok {
		fmt.Fprintln(os.Stderr, "unknown stream", *stream)
		os.Exit(2)
	}
	drv, err := StartDriver(*driver)
	if err != nil {
		fmt.Fprintln(os.Stderr, "cannot start driver:", err)
		os.Exit(2)
	}
	dir, err := os.MkdirTemp(*scratch, "run-"+*stream+"-")
	if err != nil {
		os.MkdirAll(*scratch, 0700)
		dir, err = os.MkdirTemp(*scratch, "run-"+*stream+"-")
		if err != nil {
			fmt.Fprintln(os.Stderr, "cannot create scratch:", err)
			os.Exit(2)
		}
	}
	defer os.RemoveAll(dir)
	res := &Result{Stream: *stream, Seed: *seed, Tier: *tier, Rule: info.rule, Props: info.props,
		Samples: []any{}, Disagreements: []Disagreement{}, MonitorFailures: []MonitorFailure{}, KnownWitnesses: []MonitorFailure{}}
	ctx := &Ctx{Rng: NewRng(*seed), Seed: *seed, Tier: *tier, Thorough: *tier == "thorough", Drv: drv, Res: res,
		Scratch: dir, distinct: map[string]bool{}, ShardK: shardK, ShardN: shardN}
	func() {
		defer func() {
			if r := recover(); r != nil {
				res.Notes = append(res.Notes, fmt.Sprintf("stream panicked: %v\n%s", r, debug.Stack()))
				ctx.Disagree(info.props, "stream-panic", fmt.Sprint(r), "", nil)
			}
		}()
		info.fn(ctx)
	}()
	drv.Close()
	os.RemoveAll(dir)
	if *out != "" {
		os.MkdirAll(filepath.Dir(*out), 0755)
		if err := writeJSON(*out, res); err != nil {
			fmt.Fprintln(os.Stderr, err)
			os.Exit(2)
		}
	}
	fmt.Printf("stream=%s evaluations=%d distinct=%d disagreements=%d monitor_failures=%d known_witnesses=%d\n",
		*stream, res.Evaluations, res.DistinctNontrivial, len(res.Disagreements), len(res.MonitorFailures), len(res.KnownWitnesses))
}
