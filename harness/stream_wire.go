package main

// Streams "wire" (C20) and "wire-malformed" (C06): the mint driven ONLY through its HTTP handler.
//
// wire:           (1) a scripted table of refusal causes — each cashu.Error variable that some code path returns is
//                     provoked once through HTTP and its status / code / detail compared with the NUT error table
//                     written independently in the harness (seq_wire.go) and with the Lean model;
//                 (2) random histories (mint quote, poll, mint, swap, melt quote, melt, melt poll, checkstate, restore,
//                     keys, keysets, info, routing variants, decode-class variants, storage / Lightning faults, rotation,
//                     restart, cache ageing and ticks) compared request by request with Model.Wire.handleX;
//                 (3) replays and near-replays of cached requests with before/after snapshots;
//                 (4) the real mint.Cache object against the model's cache functions (Set / Get / DeleteExpired,
//                     already-expired entries, the `<=` limit boundary at 10000 / 10001 entries).
// wire-malformed: a grammar of structural mutations of valid hand-built requests × mint states, model-free monitors:
//                 a 4xx answer leaves storage unchanged, no handler panics, every answer is 200/400 JSON.

import (
	"encoding/hex"
	"fmt"
	"reflect"
	"sort"
	"strconv"
	"strings"
	"time"

	"github.com/elnosh/gonuts/cashu"
	"github.com/elnosh/gonuts/mint"
)

func init() {
	register("wire", []string{"C20", "C06"},
		"requests sent in-process to MintServer's http.Handler as hand-built JSON text, answers parsed generically and canonicalised (ids, invoices, points, times -> model symbols); every request compared with Model.Wire.handleX (status, ordered body tree, storage trace, Lightning calls, cache size) and checked by model-free monitors (status in {200,400}, NUT shape per endpoint, detail->code table, NUT code per cause, generic body on DB/LN faults, cache hit => no storage call and identical bytes, near-replay never served from the cache); parts: cause table (one scripted scenario per refusal cause), random histories (quick 8 x 60-100 requests, thorough 80 x 100-220), replay block per history, cache object unit block; a case = one request, class = (handler, status, code, detail class); distinct_nontrivial additionally counts each cashu.Error variable reached",
		runWire)
	register("wire-malformed", []string{"C06", "C20"},
		"structural mutations (list emptied; field dropped / null / retyped to number, string, bool, object, array; string garbled, made non-hex, oversized; number negative, fractional, huge, exponent; unknown ids; duplicated key; upper-cased key; wrong or parameterised content type; truncated, empty, null, array, garbage bodies; a >2MB body) of the seven valid request kinds, sent at five mint states of a running history (fresh, paid quote, pending melt, spent inputs, after rotation); monitors only: refused => direct storage snapshot unchanged (UNPAID->PAID of a settled quote allowed), no panic (own recover around the handler), answer is 200/400 JSON of the NUT shape, decode class predicted by the harness's own schema walker; a case = one mutated request, class = (kind, mutation, state, outcome)",
		runWireMalformed)
}

// ---------------------------------------------------------------- helpers shared by the parts

type wgen struct {
	*gen
	w *WSeq
}

func newWireEnv(c *Ctx, name string, opts MintOpts, model bool) (*WSeq, *wgen, bool) {
	env, err := NewMintEnv(c, name, opts)
	if err != nil {
		c.Disagree(wireProps, "setup", err.Error(), "", nil)
		return nil, nil, false
	}
	w := NewWSeq(c, env, model)
	g := &wgen{gen: &gen{c: c, s: w.Seq, env: env, r: c.Rng}, w: w}
	if !w.initModel() {
		env.Close()
		return nil, nil, false
	}
	return w, g, true
}

var plainT = transport{CType: "application/json"}

// fund: mint quote + settle + mint for `amount`; returns the quote (proofs land in w.proofs).
func (g *wgen) fund(amount uint64) *HMintQ {
	q, _ := g.w.WMintQuote(amount, "sat", 0, false, plainT)
	if q == nil {
		return nil
	}
	g.w.WSettle(q)
	g.w.WMint(q, g.outputs(amount, g.env.ActiveKeysetId()), 0, plainT)
	return q
}

func (g *wgen) honestSwapOuts(ps []ReqProof) []ReqOut {
	fee, _ := g.w.feeOf(ps)
	in := sumReq(ps)
	var total uint64
	if in > fee {
		total = in - fee
	}
	return g.outputs(total, g.env.ActiveKeysetId())
}

func (g *wgen) extInvoice(msat uint64) *lnInvoice {
	li, err := g.env.LN.makeInvoice(msat, true)
	if err != nil {
		return nil
	}
	g.w.WRegExt(li)
	g.ext = append(g.ext, li)
	return li
}

// cover picks unspent proofs worth at least need (greedy), or nil.
func (g *wgen) cover(need uint64) []ReqProof {
	var ps []ReqProof
	var have uint64
	for _, hp := range g.unspent() {
		if have >= need {
			break
		}
		ps = append(ps, g.genuine(hp))
		have += hp.P.Amount
	}
	if have < need {
		return nil
	}
	return ps
}

// ---------------------------------------------------------------- part 1: the table of refusal causes

type causeRow struct {
	Cause   string
	WantVar string // error variable expected ("" = a generated message)
	Nut     string // cause name in the NUT table ("" = the NUT table does not name this cause)
}

func (w *WSeq) expectCause(row causeRow, res *wres) {
	if res == nil {
		w.c.Hist("cause", row.Cause+": request not sent")
		return
	}
	got := fmt.Sprintf("%d", res.Status)
	if res.IsErr {
		got = fmt.Sprintf("%d %d %s", res.Status, res.Code, strings.TrimPrefix(detailClass(res.Code, res.Detail, strings.HasSuffix(row.Cause, "-json")), "$detail:"))
	}
	w.c.Hist("cause", row.Cause+" -> "+got)
	w.causes[row.Cause] = true
	w.c.Case("cause|"+row.Cause+"|"+got, true)
	if res.Status != 400 {
		w.c.MonitorFail("C20", "C20/cause/"+row.Cause+"/not-refused", fmt.Sprintf("cause %s was answered %d", row.Cause, res.Status), w.replay())
		return
	}
	if row.Nut != "" {
		if want := nutCause[row.Nut]; res.Code != want {
			w.c.MonitorFail("C20", fmt.Sprintf("C20/code/%s/got-%d-nut-%d", row.Cause, res.Code, want),
				fmt.Sprintf("refusal cause %q (NUT: %s = %d) was answered with code %d, detail %q", row.Cause, row.Nut, want, res.Code, res.Detail), w.replay())
			return
		}
	}
	if row.WantVar != "" {
		if vn := wireLiteral[res.Detail]; vn != row.WantVar {
			w.c.MonitorFail("C20", "C20/cause/"+row.Cause+"/other-error-than-"+row.WantVar, fmt.Sprintf("cause %s answered %d %q", row.Cause, res.Code, res.Detail), w.replay())
		}
	}
}

func runCauseTable(c *Ctx) {
	lim := mint.MintLimits{MaxBalance: 400}
	lim.MintingSettings.MaxAmount = 300
	lim.MeltingSettings.MaxAmount = 150
	w, g, ok := newWireEnv(c, "cause", MintOpts{FeePpk: 2500, FeePct: true, MPP: false, Limits: lim}, true)
	if !ok {
		return
	}
	defer w.env.Close()
	env := w.env
	act := env.ActiveKeysetId()
	ex := func(cause, wantVar, nut string, res *wres) { w.expectCause(causeRow{cause, wantVar, nut}, res) }
	raw := func(kind, method, target, ctype string, body string, dec Sx, cls string) *wres {
		return w.do(&wreq{Kind: kind, Method: method, Target: target, CType: ctype, Body: []byte(body), Dec: dec, DecClass: cls, PathSym: -1})
	}

	// --- transport / decoding
	ex("empty-body", "EmptyBodyErr", "", raw("swap", "POST", "/v1/swap", "application/json", "", A("empty"), "empty"))
	ex("whitespace-body", "EmptyBodyErr", "", raw("swap", "POST", "/v1/swap", "application/json", " \n\t ", A("empty"), "empty"))
	ex("get-mint-quote-without-body", "EmptyBodyErr", "", raw("mintquote", "GET", "/v1/mint/quote/bolt11", "", "", A("empty"), "empty"))
	ex("bad-json", "", "", raw("swap", "POST", "/v1/swap", "application/json", `{"inputs":[}`, A("syntax"), "syntax"))
	ex("truncated-json", "", "", raw("swap", "POST", "/v1/swap", "application/json", `{"inputs":[`, A("other"), "other"))
	ex("type-error", "", "", raw("mintquote", "POST", "/v1/mint/quote/bolt11", "application/json", `{"amount":"12","unit":"sat"}`, A("type"), "type"))
	ex("content-type", "(content type)", "", raw("checkstate", "POST", "/v1/checkstate", "text/plain", `{"Ys":[]}`, okDec(L(A("checkstate"), L())), "ok"))
	ex("content-type-space-before-semicolon", "(content type)", "", raw("checkstate", "POST", "/v1/checkstate", "application/json ; charset=utf-8", `{"Ys":[]}`, okDec(L(A("checkstate"), L())), "ok"))
	if r := raw("checkstate", "POST", "/v1/checkstate", "APPLİCATION/JSON;q=1", `{"Ys":[]}`, okDec(L(A("checkstate"), L())), "ok"); r != nil {
		c.Hist("cause", fmt.Sprintf("content-type-dotted-capital-I -> %d", r.Status))
	}
	ex("payment-method-mint-quote", "PaymentMethodNotSupportedErr", "", raw("mintquote", "POST", "/v1/mint/quote/bolt12", "application/json", `{"amount":1,"unit":"sat"}`, okDec(L(A("mintquote"), N(1), A("sat"), A("none"))), "ok"))
	ex("payment-method-mint", "PaymentMethodNotSupportedErr", "", raw("mint", "POST", "/v1/mint/quote", "application/json", `{}`, okDec(L(A("mint"), I(-1), L(), A("none"))), "ok"))
	ex("payment-method-melt", "PaymentMethodNotSupportedErr", "", raw("melt", "POST", "/v1/melt/onchain", "application/json", `{}`, okDec(L(A("melt"), I(-1), L())), "ok"))
	ex("payment-method-melt-quote-state", "PaymentMethodNotSupportedErr", "", raw("meltstate", "GET", "/v1/melt/quote/BOLT11/abc", "", "", nil, "n/a"))
	ex("keyset-unknown-get", "UnknownKeysetErr", "keyset-unknown", w.WKeysById("00ffffffffffffff"))

	// --- mint quotes
	_, r := w.WMintQuote(10, "usd", 0, false, plainT)
	ex("unit-not-supported-mint-quote", "", "unit-not-supported", r)
	_, r = w.WMintQuote(10, "sat", 2, false, plainT)
	ex("bad-pubkey", "", "", r)
	_, r = w.WMintQuote(301, "sat", 0, false, plainT)
	ex("mint-amount-over-max", "MintAmountExceededErr", "amount-out-of-limit", r)
	_, r = w.WMintQuote(50, "sat", 0, true, plainT)
	ex("lightning-fault-mint-quote", "StandardErr", "", r)
	w.ArmFault(0)
	_, r = w.WMintQuote(50, "sat", 0, false, plainT)
	w.Disarm()
	ex("storage-fault-mint-quote", "StandardErr", "", r)
	ex("mint-quote-unknown-poll", "QuoteNotExistErr", "", w.WQuoteState(hex.EncodeToString(c.Rng.Bytes(32)), -1, "GET", false))

	q1, _ := w.WMintQuote(259, "sat", 0, false, plainT) // 259 = 1+2+256
	if q1 == nil {
		return
	}
	_, r = w.WMint(q1, g.outputs(259, act), 0, plainT)
	ex("quote-not-paid", "MintQuoteRequestNotPaid", "quote-not-paid", r)
	ex("lightning-fault-quote-poll", "StandardErr", "", w.WQuoteState(q1.Id, q1.Sym, "GET", true))
	w.WSettle(q1)
	_, r = w.WMint(q1, g.outputs(260, act), 0, plainT)
	ex("outputs-over-quote", "OutputsOverQuoteAmountErr", "", r)
	o3 := g.outputs(2, act)
	o3[0].BM.Amount = 3
	o3[0].O = nil
	_, r = w.WMint(q1, o3, 0, plainT)
	ex("output-amount-not-a-key", "InvalidBlindedMessageAmount", "", r)
	od := g.outputs(8, act)
	_, r = w.WMint(q1, append(od, od[0]), 0, plainT)
	ex("duplicate-outputs", "DuplicateOutputs", "duplicate-outputs", r)
	ou := g.outputs(8, act)
	ou[0].BM.Id = "00ffffffffffffff"
	ou[0].O = nil
	_, r = w.WMint(q1, ou, 0, plainT)
	ex("keyset-unknown-output", "UnknownKeysetErr", "keyset-unknown", r)
	oo := append(g.outputs(8, act), g.rawOut(^uint64(0)))
	_, r = w.WMint(q1, oo, 0, plainT)
	ex("output-amounts-overflow", "InvalidBlindedMessageAmount", "", r)
	ob := g.outputs(8, act)
	ob[0].BM.B_ = "zz" + ob[0].BM.B_[2:]
	ob[0].Kind, ob[0].O = "nonhex", nil
	_, r = w.WMint(q1, ob, 0, plainT)
	ex("output-B-not-hex", "", "", r)
	// regression of fix 1c07e11 (was: 400 with the body {}): a storage fault at the "restore previous state" write
	w.ArmFault(2) // GetMintQuote, UpdateMintQuoteState(PENDING), [refused: over quote], UpdateMintQuoteState(PAID) <- fails
	_, r = w.WMint(q1, g.outputs(260, act), 0, plainT)
	consumed := w.Disarm()
	if r != nil {
		c.Hist("cause", fmt.Sprintf("storage-fault-at-restore-write -> %d %s (fault consumed: %v)", r.Status, r.Canon, consumed))
		w.causes["storage-fault-at-restore-write"] = true
		if consumed && r.Status == 400 && string(r.Body) != stdErrBody {
			w.internalNotGeneric("mint", r, "at the restore-previous-state write")
		}
	}
	// the quote is now stuck PENDING (C07 territory): a further mint request is told so
	_, r = w.WMint(q1, g.outputs(259, act), 0, plainT)
	ex("mint-quote-pending", "QuotePending", "quote-pending", r)
	// … and a poll shows a state NUT-04 does not list
	if pr := w.WQuoteState(q1.Id, q1.Sym, "GET", false); pr != nil && pr.JV != nil && pr.JV.get("state") != nil {
		c.Hist("cause", "poll of the stranded quote -> state "+pr.JV.get("state").S)
	}

	q2 := g.fund(259)
	if q2 == nil {
		return
	}
	_, r = w.WMint(q2, g.outputs(259, act), 0, plainT)
	ex("quote-already-issued", "MintQuoteAlreadyIssued", "quote-already-issued", r)
	qk, _ := w.WMintQuote(8, "sat", 1, false, plainT)
	if qk != nil {
		w.WSettle(qk)
		_, r = w.WMint(qk, g.outputs(8, act), 0, plainT)
		ex("quote-signature-missing", "MintQuoteInvalidSigErr", "quote-signature", r)
		_, r = w.WMint(qk, g.outputs(8, act), 3, plainT)
		ex("quote-signature-wrong-key", "MintQuoteInvalidSigErr", "quote-signature", r)
	}
	if len(w.sigOrder) > 0 && qk != nil {
		oa := g.outputs(8, act)
		oa[0].BM.B_ = w.sigOrder[0]
		oa[0].O = nil
		_, r = w.WMint(qk, oa, 1, plainT)
		ex("output-already-signed", "BlindedMessageAlreadySigned", "output-already-signed", r)
	}
	_, r = w.WMint(&HMintQ{Id: hex.EncodeToString(c.Rng.Bytes(32)), Sym: -1}, g.outputs(8, act), 0, plainT)
	ex("mint-quote-unknown", "QuoteNotExistErr", "", r)

	// --- swap (proofs of q2: 1, 2, 256; fee 3 per input at 2500 ppk)
	byAmt := func(a uint64) *HProof {
		for _, hp := range g.unspent() {
			if hp.P.Amount == a {
				return hp
			}
		}
		return nil
	}
	p1, p2, p256 := byAmt(1), byAmt(2), byAmt(256)
	if p1 == nil || p2 == nil || p256 == nil {
		c.Disagree(wireProps[:1], "cause-table", "funding did not produce proofs 1,2,256", "", w.replay())
		return
	}
	_, r = w.WSwap(nil, g.outputs(1, act), plainT)
	ex("no-inputs", "InsufficientProofsAmount", "not-balanced", r)
	_, r = w.WSwap(nil, nil, plainT)
	ex("no-inputs-no-outputs", "NoProofsProvided", "proof-invalid", r)
	_, r = w.WSwap([]ReqProof{g.genuine(p1)}, nil, plainT)
	ex("fee-exceeds-inputs", "InvalidProofAmount", "", r)
	_, r = w.WSwap([]ReqProof{g.genuine(p256)}, g.outputs(254, act), plainT)
	ex("outputs-exceed-inputs-minus-fee", "InsufficientProofsAmount", "not-balanced", r)
	forged := g.genuine(p256)
	forged.P.C = YOf("forged")
	forged.C = CInfo{Kind: "other", Tag: w.symWitness("c:" + forged.P.C)}
	_, r = w.WSwap([]ReqProof{forged}, g.outputs(253, act), plainT)
	ex("forged-signature", "InvalidProofErr", "proof-invalid", r)
	long := g.genuine(p256)
	long.P.Secret, long.Long, long.H = strings.Repeat("a", 513), true, nil
	_, r = w.WSwap([]ReqProof{long}, g.outputs(253, act), plainT)
	ex("secret-too-long", "SecretTooLongErr", "", r)
	uk := g.genuine(p256)
	uk.P.Id = "00ffffffffffffff"
	_, r = w.WSwap([]ReqProof{uk}, g.outputs(256, act), plainT)
	ex("keyset-unknown-input", "UnknownKeysetErr", "keyset-unknown", r)
	nk := g.genuine(p256)
	nk.P.Amount = 257
	_, r = w.WSwap([]ReqProof{nk}, g.outputs(254, act), plainT)
	ex("input-amount-not-a-key", "InvalidProofErr", "proof-invalid", r)
	chx := g.genuine(p256)
	chx.P.C = "zz" + chx.P.C[2:]
	chx.C = CInfo{Kind: "nonhex", Tag: w.symWitness("c:" + chx.P.C)}
	_, r = w.WSwap([]ReqProof{chx}, g.outputs(253, act), plainT)
	ex("input-C-not-hex", "", "", r)
	dup := []ReqProof{g.genuine(p256), g.genuine(p256)}
	_, r = w.WSwap(dup, g.outputs(506, act), plainT)
	ex("duplicate-inputs-identical", "DuplicateProofs", "duplicate-inputs", r)
	dw := g.genuine(p256)
	dw.P.Witness = "w" + hex.EncodeToString(c.Rng.Bytes(3))
	_, r = w.WSwap([]ReqProof{g.genuine(p256), dw}, g.outputs(506, act), plainT)
	ex("duplicate-inputs-other-witness", "DuplicateProofs", "duplicate-inputs", r)
	dd1, dd2 := g.genuine(p256), g.genuine(p256)
	dd1.P.DLEQ = &cashu.DLEQProof{E: "00", S: "00"}
	dd2.P.DLEQ = &cashu.DLEQProof{E: "00", S: "00"}
	_, r = w.WSwap([]ReqProof{dd1, dd2}, g.outputs(506, act), plainT)
	ex("duplicate-inputs-identical-with-dleq", "DuplicateProofs", "duplicate-inputs", r)
	w.ArmFault(0)
	_, r = w.WSwap([]ReqProof{g.genuine(p256)}, g.outputs(253, act), plainT)
	w.Disarm()
	ex("storage-fault-swap", "StandardErr", "", r)
	// an honest swap: 256 -> 253 (1+4+8+16+32+64+128)
	sreq, sres := w.WSwap([]ReqProof{g.genuine(p256)}, g.outputs(253, act), plainT)
	if sres == nil || sres.Status != 200 {
		c.Disagree(wireProps[:1], "cause-table", "honest swap refused", "", w.replay())
		return
	}
	_ = sreq
	_, r = w.WSwap([]ReqProof{g.genuine(p256)}, g.outputs(253, act), plainT)
	ex("proof-already-spent", "ProofAlreadyUsedErr", "proof-already-spent", r)

	// --- melt
	_, r = w.WMeltQuote(nil, "sat", 0, 1, plainT)
	ex("melt-invoice-garbage", "", "", r)
	inv0 := g.extInvoice(0)
	if inv0 != nil {
		_, r = w.WMeltQuote(inv0, "sat", 0, 2, plainT)
		ex("melt-invoice-without-amount", "", "", r)
	}
	invA := g.extInvoice(100500) // 101 sat
	_, r = w.WMeltQuote(invA, "eur", 0, 0, plainT)
	ex("unit-not-supported-melt-quote", "", "unit-not-supported", r)
	_, r = w.WMeltQuote(invA, "sat", 50000, 0, plainT)
	ex("mpp-not-supported", "", "", r)
	invBig := g.extInvoice(151000)
	_, r = w.WMeltQuote(invBig, "sat", 0, 0, plainT)
	ex("melt-amount-over-max", "MeltAmountExceededErr", "amount-out-of-limit", r)
	mq, _ := w.WMeltQuote(invA, "sat", 0, 0, plainT)
	if mq == nil {
		c.Disagree(wireProps[:1], "cause-table", "melt quote refused", "", w.replay())
		return
	}
	_, r = w.WMeltQuote(invA, "sat", 0, 0, plainT)
	ex("melt-quote-for-request-exists", "MeltQuoteForRequestExists", "", r)
	ex("melt-quote-unknown-poll", "QuoteNotExistErr", "", w.WMeltState(hex.EncodeToString(c.Rng.Bytes(32)), -1, nil, nil))
	ex("melt-quote-unknown", "QuoteNotExistErr", "", w.WMelt(&HMeltQ{Id: "nope", Sym: -1}, []ReqProof{g.genuine(byAmt(128))}, nil, false, plainT))
	ex("melt-insufficient", "InsufficientProofsAmount", "not-balanced", w.WMelt(mq, []ReqProof{g.genuine(byAmt(64)), g.genuine(byAmt(32))}, nil, false, plainT))
	ex("melt-no-inputs", "NoProofsProvided", "proof-invalid", w.WMelt(mq, nil, nil, false, plainT))
	// amount 101 + reserve 2 + fee 3 = 106 <= 128
	mp := []ReqProof{g.genuine(byAmt(128))}
	res := w.WMelt(mq, mp, []string{"pending"}, false, plainT)
	if res == nil || res.Status != 200 {
		c.Disagree(wireProps[:1], "cause-table", "honest melt refused", "", w.replay())
		return
	}
	ex("melt-quote-pending", "QuotePending", "quote-pending", w.WMelt(mq, []ReqProof{g.genuine(byAmt(64)), g.genuine(byAmt(32)), g.genuine(byAmt(16))}, nil, false, plainT))
	_, r = w.WSwap(mp, g.outputs(125, act), plainT)
	ex("proof-pending", "ProofPendingErr", "", r)
	w.WMeltState(mq.Id, mq.Sym, mq, []string{"succ"})
	ex("melt-quote-already-paid", "MeltQuoteAlreadyPaid", "invoice-already-paid", w.WMelt(mq, []ReqProof{g.genuine(byAmt(64)), g.genuine(byAmt(32)), g.genuine(byAmt(16))}, nil, false, plainT))
	// internal settlement with a failing backend: the one place with its own Lightning error text
	qi, _ := w.WMintQuote(20, "sat", 0, false, plainT)
	if qi != nil {
		if li := env.LN.byHash[qi.Hash]; li != nil {
			mi, _ := w.WMeltQuote(li, "sat", 0, 0, plainT)
			if mi != nil {
				r := w.WMelt(mi, []ReqProof{g.genuine(byAmt(32))}, nil, true, plainT)
				ex("lightning-fault-internal-melt", "(meltTokens LN)", "", r)
			}
		}
	}
	w.ArmFault(0)
	r = w.WMelt(mq, []ReqProof{g.genuine(byAmt(64))}, nil, false, plainT)
	consumed = w.Disarm()
	if r != nil && consumed {
		// GetMeltQuote failed: the code answers "quote does not exist"
		c.Hist("cause", fmt.Sprintf("storage-fault-melt-quote-lookup -> %d %d %s", r.Status, r.Code, r.Detail))
		if r.Status == 400 && string(r.Body) != stdErrBody {
			w.internalNotGeneric("melt", r, "at GetMeltQuote")
		}
	}
	w.ArmFault(0)
	r = w.WCheckState([]YQuery{{Y: YOf(p1.P.Secret), Sec: p1.P.Secret}}, nil, plainT)
	w.Disarm()
	ex("storage-fault-checkstate", "StandardErr", "", r)
	if len(w.sigOrder) > 0 {
		w.ArmFault(0)
		r = w.WRestore([]cashu.BlindedMessage{{B_: w.sigOrder[0], Id: act, Amount: 1}}, plainT)
		w.Disarm()
		ex("storage-fault-restore", "StandardErr", "", r)
	}
	w.ArmFault(0)
	r = w.WGet("info", "/v1/info", -1)
	w.Disarm()
	ex("storage-fault-info", "StandardErr", "", r)

	// --- limits: balance now 259 + 259 issued … minting disabled when balance + amount > 400
	_, r = w.WMintQuote(300, "sat", 0, false, plainT)
	ex("minting-disabled", "MintingDisabled", "minting-disabled", r)

	// --- rotation: the old keyset no longer signs
	oldKs := act
	w.WRotate(100)
	oi := g.outputs(8, oldKs)
	for i := range oi {
		oi[i].O = nil
	}
	if qk != nil {
		_, r = w.WMint(qk, oi, 1, plainT)
		ex("keyset-inactive-output", "InactiveKeysetSignatureRequest", "keyset-inactive", r)
	}

	// --- the two key ambiguities of the shared cache map (deterministic reproductions)
	g.keyAmbiguity()
	g.activeKeyCollision()

	// coverage of the error variables (every variable some code path returns must have been answered at least once)
	for _, e := range wireErrVars {
		switch {
		case w.hitVars[e.Var]:
			c.Hist("error-variable-coverage", "reached: "+e.Var)
			c.Case("errvar|"+e.Var, true)
		case wireErrUnreachable[e.Var]:
			c.Hist("error-variable-coverage", "unreachable (no code path returns it): "+e.Var)
		default:
			c.Hist("error-variable-coverage", "NOT REACHED: "+e.Var)
			w.c.MonitorFail("C20", "C20/coverage/error-variable-not-reached/"+e.Var, "the cause table did not provoke "+e.Var, nil)
		}
	}
	c.Sample(map[string]any{"cause_table_first_ops": w.log[:min(len(w.log), 6)]})
}

// internalNotGeneric: a consumed storage fault led to a refusal whose body is not the constant StandardErr body.
func (w *WSeq) internalNotGeneric(kind string, r *wres, how string) {
	switch {
	case kind == "meltquote":
		// RequestMeltQuote ignores the errors of its two lookups (GetMintQuoteByPaymentHash: "not internal";
		// GetMeltQuoteByPaymentRequest: "no quote yet"): a consumed fault there is not the cause of a later, legitimate refusal
		w.c.Hist("storage-fault-swallowed", "meltquote "+how)
	case r.JV != nil && r.JV.K == 'o' && len(r.JV.O) == 0:
		// already reported by the shape monitor as C20/error-shape/<kind>/empty-object
	case r.IsErr && r.Code == 20009 && r.Detail == "quote does not exist":
		w.c.MonitorFail("C20", "C20/internal-not-generic/quote-lookup-answered-20009",
			fmt.Sprintf("a storage fault (%s) during %s was answered with %s: a failing quote lookup is reported as 'quote does not exist'", how, kind, string(r.Body)), w.replay())
	default:
		w.c.MonitorFail("C20", "C20/internal-not-generic/"+kind+"/"+shapeOf(r),
			fmt.Sprintf("a storage fault (%s) during %s was answered with %s instead of the constant StandardErr body", how, kind, short(string(r.Body))), w.replay())
	}
}

func shapeOf(r *wres) string {
	if r.JV != nil && r.JV.K == 'o' && len(r.JV.O) == 0 {
		return "empty-object"
	}
	if r.IsErr {
		return fmt.Sprintf("%d-%s", r.Code, strings.ReplaceAll(strings.TrimPrefix(detailClass(r.Code, r.Detail, false), "$detail:"), " ", "-"))
	}
	return "other"
}

// ---------------------------------------------------------------- part 3: replays and near-replays of a cached request

// replayBlock: rq was answered 200 by /v1/swap or /v1/mint/bolt11 just now (first execution).
func (g *wgen) replayBlock(rq *wreq, first *wres) {
	w := g.w
	c := w.c
	send := func(variant, method, target, ctype string, body []byte, dec Sx, cls string, kind string) (*wres, string) {
		before := w.snap()
		q := &wreq{Kind: kind, Method: method, Target: target, CType: ctype, Body: body, Dec: dec, DecClass: cls, PathSym: -1, Aux: rq.Aux, Label: variant}
		res := w.do(q)
		if res == nil {
			return nil, ""
		}
		d := diffSnap(before, w.snap(), nil)
		executed := len(res.Trace) > 0 || len(res.Ln) > 0
		c.Hist("replay", fmt.Sprintf("%s -> %d%s executed=%v", variant, res.Status, codeSuffix(res), executed))
		c.Case("replay|"+variant+"|"+fmt.Sprint(res.Status, res.Code, executed), true)
		if d != "" && res.Status != 200 {
			c.MonitorFail("C06", "C06/rejected-changed/"+kind+"-replay/"+strings.SplitN(d, "[", 2)[0], "a refused near-replay changed state: "+d, w.replay())
		}
		return res, d
	}
	sameBytes := func(res *wres) bool { return res != nil && res.Status == 200 && string(res.Body) == string(first.Body) }

	// (a) byte-identical replay: served from the cache, nothing executed
	for i := 0; i < 2; i++ {
		res, d := send("identical", rq.Method, rq.Target, rq.CType, rq.Body, rq.Dec, "ok", rq.Kind)
		if res == nil {
			return
		}
		if !sameBytes(res) {
			c.MonitorFail("C20", "C20/cache/replay-differs/"+rq.Kind, fmt.Sprintf("byte-identical replay answered %d %s instead of the identical 200 body", res.Status, short(string(res.Body))), w.replay())
		}
		if len(res.Trace) > 0 || len(res.Ln) > 0 || d != "" {
			c.MonitorFail("C20", "C20/cache/replay-executed/"+rq.Kind, fmt.Sprintf("byte-identical replay touched storage: trace %v diff %q", res.Trace, d), w.replay())
		}
	}
	// content type is not part of the key: another accepted content type is still a hit
	if res, _ := send("other-accepted-content-type", rq.Method, rq.Target, "application/json; charset=utf-8", rq.Body, rq.Dec, "ok", rq.Kind); res != nil && !sameBytes(res) {
		c.Hist("replay-note", "other accepted content type was not served from the cache")
	}
	// (b) near-replays: must be executed (and refused: inputs spent / quote issued), never served from the cache
	near := func(variant, method, target, ctype string, body []byte, dec Sx, cls, kind string) {
		res, _ := send(variant, method, target, ctype, body, dec, cls, kind)
		if sameBytes(res) {
			c.MonitorFail("C20", "C20/cache/near-replay-served/"+variant, fmt.Sprintf("a request that differs from the cached one (%s) was answered from the cache", variant), w.replay())
		}
	}
	b := rq.Body
	near("trailing-space", rq.Method, rq.Target, rq.CType, append(append([]byte{}, b...), ' '), rq.Dec, "ok", rq.Kind)
	near("leading-newline", rq.Method, rq.Target, rq.CType, append([]byte{'\n'}, b...), rq.Dec, "ok", rq.Kind)
	if i := strings.IndexByte(string(b), ':'); i > 0 {
		nb := append(append(append([]byte{}, b[:i+1]...), ' '), b[i+1:]...)
		near("space-after-colon", rq.Method, rq.Target, rq.CType, nb, rq.Dec, "ok", rq.Kind)
	}
	near("added-query", rq.Method, rq.Target+"?a=b", rq.CType, b, rq.Dec, "ok", rq.Kind)
	near("empty-query", rq.Method, rq.Target+"?", rq.CType, b, rq.Dec, "ok", rq.Kind)
	near("escaped-path", rq.Method, strings.Replace(rq.Target, "/v1/", "/v1/%2e%2E/v1/", 1), rq.CType, b, rq.Dec, "ok", "route")
	near("escaped-letter", rq.Method, strings.Replace(rq.Target, "/v1/", "/%761/", 1), rq.CType, b, rq.Dec, "ok", rq.Kind)
	near("other-method", "GET", rq.Target, rq.CType, b, rq.Dec, "ok", "route")
	near("put-method", "PUT", rq.Target, rq.CType, b, rq.Dec, "ok", "route")
	near("trailing-slash", rq.Method, rq.Target+"/", rq.CType, b, rq.Dec, "ok", "route")
	near("rejected-content-type", rq.Method, rq.Target, "text/plain", b, rq.Dec, "ok", rq.Kind)
	if rq.Kind == "swap" {
		// the same bytes sent to the other cached endpoint: decodes as a mint request without quote
		near("other-cached-path", "POST", "/v1/mint/bolt11", rq.CType, b, okDec(L(A("mint"), I(-1), L(), A("none"))), "ok", "mint")
	}
}

func codeSuffix(r *wres) string {
	if r.IsErr {
		return fmt.Sprintf(" %d", r.Code)
	}
	return ""
}

// keyAmbiguity (regression of fix 65f9524): the cache key WAS the plain concatenation method + URL + body, so a request whose
// URL ends with the first JSON value of an earlier request's body and whose body is the rest had the same key and was
// served the earlier response.  With NUL separators the second request is executed (and refused: a swap without inputs).
func (g *wgen) keyAmbiguity() {
	w := g.w
	ps := g.pick(1)
	if len(ps) == 0 {
		return
	}
	outs := g.honestSwapOuts(ps)
	ps = w.freshDleq(ps)
	d := jobj("inputs", proofsJV(ps), "outputs", outsJV(outs)).Encode(0) // compact: no whitespace, fits into a request target
	dec := okDec(L(A("swap"), w.sxProofs(ps), w.sxOuts(outs)))
	first := &wreq{Kind: "swap", Method: "POST", Target: "/v1/swap?x", CType: "application/json", Body: []byte(d + "null"), Dec: dec, DecClass: "ok", PathSym: -1, Aux: &canonAux{Outs: outs}}
	r1 := w.do(first)
	if r1 == nil || r1.Status != 200 {
		return
	}
	w.afterSigs(first, r1, outs, func() { w.markConsumed(ps, "swap (key ambiguity)") })
	before := w.snap()
	second := &wreq{Kind: "swap", Method: "POST", Target: "/v1/swap?x" + d, CType: "application/json", Body: []byte("null"),
		Dec: okDec(L(A("swap"), L(), L())), DecClass: "ok", PathSym: -1, Aux: &canonAux{Outs: outs}}
	r2 := w.do(second)
	if r2 == nil {
		return
	}
	w.c.Hist("replay", fmt.Sprintf("key-concatenation (other URL, other body, same method+URL+body text) -> %d executed=%v", r2.Status, len(r2.Trace) > 0))
	w.c.Case("replay|key-concatenation|"+fmt.Sprint(r2.Status), true)
	if r2.Status == 200 && string(r2.Body) == string(r1.Body) && diffSnap(before, w.snap(), nil) == "" {
		w.c.MonitorFail("C20", "C20/cache/near-replay-served/key-concatenation",
			"a request with another URL (…?x{json}) and another body (null) was answered from the cache with the signatures of an earlier swap: the key method+URL+body has no separators", w.replay())
	}
}

// activeKeyCollision: `GET /v1/keys/active_keyset_key` looks up the `{id}` in the map that also holds the ACTIVE_KEYSET entry.
func (g *wgen) activeKeyCollision() {
	w := g.w
	w.WGet("keys", "/v1/keys", -1)
	res := w.WGet("keys", "/v1/keys/active_keyset_key", -1)
	if res == nil {
		return
	}
	w.c.Hist("replay", fmt.Sprintf("GET /v1/keys/active_keyset_key after GET /v1/keys -> %d", res.Status))
	if res.Status == 200 {
		w.c.MonitorFail("C20", "C20/keys/id-collides-with-active-keyset-key", "GET /v1/keys/active_keyset_key (no such keyset) was answered 200 with the cached active keyset", w.replay())
	}
}

// ---------------------------------------------------------------- part 2: random histories

func (g *wgen) routeCases() {
	w := g.w
	r := g.r
	cases := []struct{ method, target string }{
		{"GET", "/"}, {"GET", "/v1"}, {"GET", "/v1/"}, {"GET", "/v2/keys"}, {"GET", "/v1/keys/"}, {"POST", "/v1/keys"}, {"DELETE", "/v1/keysets"},
		{"GET", "/v1/swap"}, {"get", "/v1/keys"}, {"OPTIONS", "/v1/swap"}, {"OPTIONS", "/v1/mint/quote/bolt11"}, {"OPTIONS", "/v1/nothing"},
		{"GET", "/v1//keys"}, {"GET", "/v1/./keys"}, {"GET", "/v1/keys/../keysets"}, {"POST", "/v1/mint/quote/bolt11/"}, {"GET", "/v1/mint/bolt11"},
		{"POST", "/v1/melt/quote/bolt11/x/y"}, {"HEAD", "/v1/info"}, {"GET", "/v1/keys/a%2Fb"}, {"POST", "/v1/checkstate/"}, {"PATCH", "/v1/restore"},
		{"GET", "/v1/melt/quote/bolt11"}, {"POST", "/v1/melt/quote/bolt11/abc"}, {"GET", "/V1/keys"}, {"GET", "/v1/KEYS"},
	}
	cse := cases[r.Intn(len(cases))]
	w.do(&wreq{Kind: "route", Method: cse.method, Target: cse.target, DecClass: "n/a", PathSym: -1, Dec: A("empty")})
}

// decodeCases: one request per decode outcome class, on a random body-reading endpoint.
func (g *wgen) decodeCases() {
	w := g.w
	r := g.r
	eps := []struct {
		kind, target string
		null         Sx
		valid        string
	}{
		{"mintquote", "/v1/mint/quote/bolt11", L(A("mintquote"), N(0), A("other"), A("none")), `{"amount":1,"unit":"sat"}`},
		{"mint", "/v1/mint/bolt11", L(A("mint"), I(-1), L(), A("none")), `{"quote":"x","outputs":[]}`},
		{"swap", "/v1/swap", L(A("swap"), L(), L()), `{"inputs":[],"outputs":[]}`},
		{"meltquote", "/v1/melt/quote/bolt11", L(A("meltquote"), A("bad"), A("other"), A("none")), `{"request":"x","unit":"sat"}`},
		{"melt", "/v1/melt/bolt11", L(A("melt"), I(-1), L()), `{"quote":"x","inputs":[]}`},
		{"checkstate", "/v1/checkstate", L(A("checkstate"), L()), `{"Ys":[]}`},
		{"restore", "/v1/restore", L(A("restore"), L()), `{"outputs":[]}`},
	}
	ep := eps[r.Intn(len(eps))]
	type dc struct {
		body, ctype string
		dec         Sx
		cls         string
	}
	v := ep.valid
	cases := []dc{
		{"", "application/json", A("empty"), "empty"},
		{"  \r\n", "application/json", A("empty"), "empty"},
		{v[:len(v)-1], "application/json", A("other"), "other"},
		{v[:len(v)/2], "application/json", A("other"), "other"},
		{strings.Replace(v, ":", ";", 1), "application/json", A("syntax"), "syntax"},
		{"{'a':1}", "application/json", A("syntax"), "syntax"},
		{"\xff\xfe", "application/json", A("syntax"), "syntax"},
		{"[]", "application/json", A("type"), "type"},
		{"17", "application/json", A("type"), "type"},
		{`"text"`, "application/json", A("type"), "type"},
		{"true", "application/json", A("type"), "type"},
		{"null", "application/json", okDec(ep.null), "ok"},
		{"{}", "application/json", okDec(ep.null), "ok"},
		{"null", "text/plain", okDec(ep.null), "ok"},
		{"null", "application/json ", okDec(ep.null), "ok"},
		{"null", "multipart/form-data; boundary=x", okDec(ep.null), "ok"},
		{"null", "APPLICATION/JSON;charset=UTF-8", okDec(ep.null), "ok"},
		{"{} trailing", "", okDec(ep.null), "ok"},
	}
	d := cases[r.Intn(len(cases))]
	w.do(&wreq{Kind: ep.kind, Method: "POST", Target: ep.target, CType: d.ctype, Body: []byte(d.body), Dec: d.dec, DecClass: d.cls, PathSym: -1, Aux: &canonAux{}})
}

func (g *wgen) stepWire() {
	w, r, env := g.w, g.r, g.env
	u := g.unspent()
	t := plainT
	if r.Chance(30) {
		t = w.randTransport()
	}
	fault := -1
	if r.Chance(7) {
		fault = r.Intn(7)
		w.ArmFault(fault)
	}
	var lastRq *wreq
	var lastRes *wres
	kind := ""
	x := r.Intn(100)
	switch {
	case x < 10:
		kind = "mintquote"
		amt := uint64(1 + r.Intn(300))
		switch r.Intn(16) {
		case 0:
			amt = 0
		case 1:
			amt = uint64(1)<<63 - uint64(r.Intn(2))
		case 2:
			amt = ^uint64(0) - uint64(r.Intn(2))
		case 3, 4:
			amt = uint64(1000 + r.Intn(5000))
		}
		unit := "sat"
		if r.Chance(4) {
			unit = "usd"
		}
		pk := 0
		if r.Chance(25) {
			pk = 1
		} else if r.Chance(4) {
			pk = 2
		}
		var q *HMintQ
		q, lastRes = w.WMintQuote(amt, unit, pk, r.Chance(4), t)
		if q != nil && r.Chance(75) {
			w.WSettle(q)
		}
	case x < 15:
		kind = "quotestate"
		if len(w.mintQs) > 0 && r.Chance(85) {
			q := w.mintQs[r.Intn(len(w.mintQs))]
			switch r.Intn(5) {
			case 0:
				w.WSettle(q)
			case 1:
				if li := env.LN.byHash[q.Hash]; li != nil && li.settled {
					w.WNotify(q)
				}
			default:
				m := "GET"
				if r.Chance(20) {
					m = "POST"
				}
				lastRes = w.WQuoteState(q.Id, q.Sym, m, r.Chance(10))
			}
		} else {
			lastRes = w.WQuoteState(hex.EncodeToString(r.Bytes(32)), -1, "GET", false)
		}
	case x < 30:
		kind = "mint"
		if len(w.mintQs) == 0 {
			break
		}
		q := w.mintQs[r.Intn(len(w.mintQs))]
		for i := 0; i < 4 && q.Issued > 0; i++ {
			q = w.mintQs[r.Intn(len(w.mintQs))]
		}
		total := q.Amount
		if total > 1<<40 {
			total = uint64(1 + r.Intn(1000))
		}
		if r.Chance(15) && total > 1 {
			total = uint64(1 + r.Intn(int(total)))
		}
		outs := g.outputs(total, env.ActiveKeysetId())
		if r.Chance(30) {
			outs, _ = g.mutateOutputs(outs)
		}
		sigMode := 0
		if q.Key != nil {
			sigMode = 1
			if r.Chance(30) {
				sigMode = []int{0, 2, 3, 4, 5, 6}[r.Intn(6)]
			}
		} else if r.Chance(10) {
			sigMode = 2
		}
		lastRq, lastRes = w.WMint(q, outs, sigMode, t)
	case x < 52:
		kind = "swap"
		ps := g.pick(1 + r.Intn(4))
		if len(ps) == 0 && !r.Chance(20) {
			break
		}
		if r.Chance(40) {
			ps, _ = g.mutateInputs(ps)
		}
		fee, _ := w.feeOf(ps)
		in := sumReq(ps)
		var total uint64
		if in > fee {
			total = in - fee
		}
		if total > 1<<40 {
			total = uint64(1 + r.Intn(1000))
		}
		switch r.Intn(12) {
		case 0:
			total++
		case 1:
			total += fee
		case 2:
			if total > 1 {
				total--
			}
		}
		outs := g.outputs(total, env.ActiveKeysetId())
		if r.Chance(20) {
			outs, _ = g.mutateOutputs(outs)
		}
		lastRq, lastRes = w.WSwap(ps, outs, t)
	case x < 59:
		kind = "meltquote"
		var inv *lnInvoice
		mode := 0
		var mpp uint64
		switch r.Intn(10) {
		case 0:
			if len(w.mintQs) > 0 {
				inv = env.LN.byHash[w.mintQs[r.Intn(len(w.mintQs))].Hash]
			}
		case 1:
			if len(g.ext) > 0 {
				inv = g.ext[r.Intn(len(g.ext))]
			}
		case 2:
			mode = 1
		case 3:
			if li, err := env.LN.makeInvoice(0, true); err == nil {
				w.WRegExt(li)
				inv, mode = li, 2
			}
		}
		if inv == nil && mode == 0 {
			msat := uint64(1+r.Intn(200)) * 1000
			if r.Chance(35) {
				msat += uint64(1 + r.Intn(999))
			}
			inv = g.extInvoice(msat)
			if inv == nil {
				break
			}
		}
		if inv != nil && r.Chance(25) {
			switch r.Intn(4) {
			case 0:
				mpp = inv.msat
			case 1:
				mpp = inv.msat + 1
			default:
				if inv.msat > 1 {
					mpp = 1 + uint64(r.Intn(int(inv.msat-1)))
				}
			}
		}
		unit := "sat"
		if r.Chance(4) {
			unit = "eur"
		}
		_, lastRes = w.WMeltQuote(inv, unit, mpp, mode, t)
	case x < 70:
		kind = "melt"
		if len(w.meltQs) == 0 {
			break
		}
		q := w.meltQs[r.Intn(len(w.meltQs))]
		for i := 0; i < 3 && q.Expect != "UNPAID"; i++ {
			q = w.meltQs[r.Intn(len(w.meltQs))]
		}
		need := q.Amount + q.Reserve
		var ps []ReqProof
		var have uint64
		for _, hp := range u {
			if have >= need+3 {
				break
			}
			ps = append(ps, g.genuine(hp))
			have += hp.P.Amount
		}
		if r.Chance(15) && len(ps) > 1 {
			ps = ps[:len(ps)-1]
		}
		if r.Chance(25) {
			ps, _ = g.mutateInputs(ps)
		}
		lastRes = w.WMelt(q, ps, g.script(1+r.Intn(2), true), r.Chance(6), t)
	case x < 75:
		kind = "meltstate"
		if len(w.meltQs) > 0 && r.Chance(85) {
			q := w.meltQs[r.Intn(len(w.meltQs))]
			for i := 0; i < 3 && q.Expect != "PENDING"; i++ {
				q = w.meltQs[r.Intn(len(w.meltQs))]
			}
			lastRes = w.WMeltState(q.Id, q.Sym, q, g.script(1, false))
		} else {
			lastRes = w.WMeltState(hex.EncodeToString(r.Bytes(16)), -1, nil, nil)
		}
	case x < 80:
		kind = "checkstate"
		var qs []YQuery
		n := 1 + r.Intn(6)
		for i := 0; i < n; i++ {
			switch {
			case len(w.proofs) > 0 && r.Chance(75):
				hp := w.proofs[r.Intn(len(w.proofs))]
				qs = append(qs, YQuery{Y: YOf(hp.P.Secret), Sec: hp.P.Secret})
			case r.Chance(50):
				qs = append(qs, YQuery{Y: YOf(hex.EncodeToString(r.Bytes(8)))})
			default:
				qs = append(qs, YQuery{Y: []string{"", "zz", "02abc", strings.Repeat("f", 66)}[r.Intn(4)]})
			}
		}
		if r.Chance(20) && len(qs) > 0 {
			qs = append(qs, qs[0])
		}
		if r.Chance(5) {
			qs = nil
		}
		one := g.script(1, false)[0]
		lastRes = w.WCheckState(qs, []string{one, one, one, one, one, one}, t)
	case x < 84:
		kind = "restore"
		var qs []cashu.BlindedMessage
		n := 1 + r.Intn(6)
		for i := 0; i < n; i++ {
			if len(w.sigOrder) > 0 && r.Chance(65) {
				bm := cashu.BlindedMessage{B_: w.sigOrder[r.Intn(len(w.sigOrder))], Id: env.ActiveKeysetId(), Amount: uint64(r.Intn(9))}
				if r.Chance(20) {
					bm.Witness = "w" + hex.EncodeToString(r.Bytes(2))
				}
				if r.Chance(15) {
					bm.Id = "00" + hex.EncodeToString(r.Bytes(7))
				}
				qs = append(qs, bm)
			} else if r.Chance(70) {
				qs = append(qs, g.rawOut(1).BM)
			} else {
				qs = append(qs, cashu.BlindedMessage{B_: []string{"", "zz", "02ab"}[r.Intn(3)]})
			}
		}
		if r.Chance(20) && len(qs) > 0 {
			qs = append(qs, qs[0])
		}
		if r.Chance(5) {
			qs = nil
		}
		lastRes = w.WRestore(qs, t)
	case x < 88:
		kind = "keys"
		switch r.Intn(6) {
		case 0, 1:
			lastRes = w.WGet("keys", "/v1/keys", -1)
		case 2:
			lastRes = w.WGet("keysets", "/v1/keysets", -1)
		case 3:
			ids := env.ksIds
			lastRes = w.WKeysById(ids[r.Intn(len(ids))])
		case 4:
			lastRes = w.WKeysById([]string{"00" + hex.EncodeToString(r.Bytes(7)), "active_keyset_key", "x", strings.Repeat("k", 300), "POST"}[r.Intn(5)])
		default:
			lastRes = w.WGet("info", "/v1/info", -1)
		}
	case x < 92:
		kind = "route"
		g.routeCases()
	case x < 96:
		kind = "decode"
		g.decodeCases()
	case x < 98:
		kind = "clock"
		switch r.Intn(4) {
		case 0:
			w.Age(false)
		case 1:
			w.Tick()
		case 2:
			w.Age(false)
			w.Tick()
		default:
			if r.Chance(30) {
				w.Age(true)
			} else {
				w.Tick()
			}
		}
	default:
		kind = "lifecycle"
		if fault >= 0 {
			break // keep faults away from rotation / restart (those are C07/C09 matters)
		}
		if r.Chance(50) {
			w.WRotate(feeChoices[r.Intn(len(feeChoices))])
		} else {
			rot := r.Chance(40)
			fee := env.Opts.FeePpk
			if rot {
				fee = feeChoices[r.Intn(len(feeChoices))]
			}
			w.WRestart(rot, fee)
		}
	}
	if fault >= 0 {
		consumed := w.Disarm()
		// monitor: a consumed storage fault that leads to a refusal is reported with the constant StandardErr body
		if consumed && lastRes != nil && lastRes.Status == 400 && string(lastRes.Body) != stdErrBody {
			w.internalNotGeneric(kind, lastRes, fmt.Sprintf("storage call %d", fault))
		}
		if consumed && lastRes != nil {
			w.c.Hist("storage-fault", fmt.Sprintf("%s fault@%d -> %d%s", kind, fault, lastRes.Status, codeSuffix(lastRes)))
		}
		return
	}
	// Lightning faults that lead to a refusal: constant body as well (meltTokens has its own constant)
	if lastRes != nil && lastRes.Status == 400 {
		for _, lc := range lastRes.Ln {
			if (lc.Kind == "CreateInvoice" || lc.Kind == "InvoiceStatus") && lc.Answer == "err" && lc.Hash >= 0 || (lc.Kind == "CreateInvoice" && lc.Answer == "err") {
				if b := string(lastRes.Body); b != stdErrBody && b != unableToPayBody {
					w.c.MonitorFail("C20", "C20/internal-not-generic/"+kind+"/ln-"+shapeOf(lastRes), "a Lightning backend error was answered with "+short(b), w.replay())
				}
			}
		}
	}
	// a first successful swap / mint: replay block (sometimes)
	if lastRq != nil && lastRes != nil && lastRes.Status == 200 && len(lastRes.Trace) > 0 && t.Tail != "garbage after the value" && r.Chance(35) {
		g.replayBlock(lastRq, lastRes)
	}
}

func runWireHistory(c *Ctx, h int, nOps int) {
	r := c.Rng
	opts := MintOpts{FeePpk: feeChoices[r.Intn(len(feeChoices))], FeePct: r.Chance(60), MPP: r.Chance(40)}
	if r.Chance(25) {
		opts.Limits = mint.MintLimits{MaxBalance: uint64(200 + r.Intn(3000))}
		opts.Limits.MintingSettings.MaxAmount = uint64(64 + r.Intn(2000))
		opts.Limits.MeltingSettings.MaxAmount = uint64(64 + r.Intn(2000))
	}
	w, g, ok := newWireEnv(c, fmt.Sprintf("wire-%d", h), opts, true)
	if !ok {
		return
	}
	defer w.env.Close()
	g.fund(uint64(64 + r.Intn(400)))
	for i := 0; i < nOps; i++ {
		g.stepWire()
		if len(c.Res.Disagreements) > 0 {
			return
		}
	}
	if r.Chance(60) {
		g.keyAmbiguity()
	}
	if r.Chance(40) {
		g.activeKeyCollision()
	}
	// replay after a restart: the cache lives in MintServer, the new server executes the request again
	if ps := g.pick(1); len(ps) > 0 {
		rq, res := w.WSwap(ps, g.honestSwapOuts(ps), plainT)
		if res != nil && res.Status == 200 {
			w.WRestart(false, w.env.Opts.FeePpk)
			before := w.snap()
			res2 := w.do(&wreq{Kind: "swap", Method: "POST", Target: rq.Target, CType: rq.CType, Body: rq.Body, Dec: rq.Dec, DecClass: "ok", PathSym: -1, Aux: rq.Aux})
			if res2 != nil {
				c.Hist("replay", fmt.Sprintf("identical-after-restart -> %d%s executed=%v", res2.Status, codeSuffix(res2), len(res2.Trace) > 0))
				c.Case("replay|after-restart|"+fmt.Sprint(res2.Status, res2.Code), true)
				if res2.Status == 200 && string(res2.Body) == string(res.Body) {
					c.MonitorFail("C20", "C20/cache/survived-restart", "a replay after a mint restart was answered from a cache", w.replay())
				}
				if d := diffSnap(before, w.snap(), nil); d != "" && res2.Status != 200 {
					c.MonitorFail("C06", "C06/rejected-changed/swap-replay/"+strings.SplitN(d, "[", 2)[0], "refused replay changed state: "+d, w.replay())
				}
			}
		}
	}
	if h < 2 {
		c.Sample(map[string]any{"history": h, "first_ops": w.log[:min(len(w.log), 8)]})
	}
}

// ---------------------------------------------------------------- part 4: the cache object

func runCacheUnit(c *Ctx) {
	r := c.Rng
	ask := func(line Sx, impl string) {
		c.Case("cache-unit|"+strings.SplitN(Render(line), " ", 2)[0]+"|"+strings.SplitN(impl, " ", 2)[0], true)
		if m := c.Drv.Ask(line); m != impl {
			c.Disagree(wireProps[:1], Render(line), impl, m, nil)
		}
	}
	lenOf := func(ch *mint.Cache) int { return reflect.ValueOf(ch).Elem().FieldByName("items").Len() }
	rounds := 6
	if c.Thorough {
		rounds = 40
	}
	for round := 0; round < rounds && len(c.Res.Disagreements) == 0; round++ {
		ch := mint.NewCache()
		c.Drv.Ask(L(A("wire.init"), N(0), B(false), B(false), N(0), N(0), N(0)))
		keys := []string{"a", "b", "POST/v1/swap{}", "active_keyset_key", "00abcdef", ""}
		n := 60
		if round == 0 {
			// the limit boundary: Set is allowed while len <= 10000, so the 10001st distinct key is stored and the 10002nd is not
			var lines []Sx
			var impls []string
			for i := 0; i < 10003; i++ {
				k := "k" + strconv.Itoa(i)
				ch.Set(k, []byte("v"), time.Hour)
				lines = append(lines, L(A("wire.cache.set"), S(k), S("v"), A(strconv.FormatInt(int64(time.Hour), 10))))
				impls = append(impls, Render(L(A("ok"), I(lenOf(ch)))))
			}
			for i, m := range c.Drv.Batch(lines) {
				c.Case("cache-unit|(wire.cache.set|fill", true)
				if m != impls[i] {
					c.Disagree(wireProps[:1], Render(lines[i]), impls[i], m, nil)
					break
				}
			}
			c.Hist("cache-unit", fmt.Sprintf("entries after 10003 distinct Set calls: %d", lenOf(ch)))
			// overwriting an existing key at the limit is refused too
			ch.Set("k0", []byte("new"), time.Hour)
			ask(L(A("wire.cache.set"), S("k0"), S("new"), A(strconv.FormatInt(int64(time.Hour), 10))), Render(L(A("ok"), I(lenOf(ch)))))
			v, ok := ch.Get("k0")
			impl := Render(L(A("none"), I(lenOf(ch))))
			if ok {
				impl = Render(L(A("found"), S(string(v)), I(lenOf(ch))))
			}
			ask(L(A("wire.cache.get"), S("k0")), impl)
			n = 20
		}
		for i := 0; i < n; i++ {
			k := keys[r.Intn(len(keys))]
			switch r.Intn(5) {
			case 0, 1:
				d := time.Hour
				if r.Chance(45) {
					d = -time.Hour // already expired when stored
				}
				v := "v" + strconv.Itoa(r.Intn(1000))
				ch.Set(k, []byte(v), d)
				ask(L(A("wire.cache.set"), S(k), S(v), A(strconv.FormatInt(int64(d), 10))), Render(L(A("ok"), I(lenOf(ch)))))
			case 2, 3:
				v, ok := ch.Get(k)
				impl := Render(L(A("none"), I(lenOf(ch))))
				if ok {
					impl = Render(L(A("found"), S(string(v)), I(lenOf(ch))))
				}
				ask(L(A("wire.cache.get"), S(k)), impl)
			default:
				ch.DeleteExpired()
				ask(L(A("wire.cache.delexp")), Render(L(A("ok"), I(lenOf(ch)))))
			}
		}
	}
}

func runWire(c *Ctx) {
	t0 := time.Now()
	runCauseTable(c)
	if len(c.Res.Disagreements) > 0 {
		return
	}
	t1 := time.Now()
	runCacheUnit(c)
	t2 := time.Now()
	defer func() {
		c.Res.Notes = append(c.Res.Notes, fmt.Sprintf("wall: cause table %.1fs, cache object %.1fs, histories %.1fs", t1.Sub(t0).Seconds(), t2.Sub(t1).Seconds(), time.Since(t2).Seconds()))
	}()
	histories, minOps, maxOps := 8, 60, 100
	if c.Thorough {
		histories, minOps, maxOps = 80, 100, 220
	}
	for h := 0; h < histories && len(c.Res.Disagreements) == 0; h++ {
		runWireHistory(c, h, minOps+c.Rng.Intn(maxOps-minOps+1))
	}
}

var _ = sort.Strings
