package main

// WSeq: a sequential history driver that reaches the mint ONLY through its HTTP handler
// (env.Srv.VerifHandler(), in-process httptest requests).  Requests are JSON text built by the harness's own
// encoder (wirejson.go), responses are parsed generically (ordered tree) and canonicalised to the text the Lean
// model renders (Model.Wire): real ids, invoices, points and times become the model's symbols.
// Every request is compared with `Wire.handleX` (status, body tree, storage trace, Lightning calls, cache size)
// and checked by the model-free monitors of C20 (and C06 in stream wire-malformed).

import (
	"bytes"
	"crypto/sha256"
	"encoding/hex"
	"fmt"
	"io"
	"net/http"
	"net/http/httptest"
	"reflect"
	"runtime"
	"sort"
	"strconv"
	"strings"
	"time"
	"unsafe"

	"github.com/decred/dcrd/dcrec/secp256k1/v4"
	"github.com/elnosh/gonuts/cashu"
	"github.com/elnosh/gonuts/cashu/nuts/nut20"
	"github.com/elnosh/gonuts/mint"
)

var wireProps = []string{"C20", "C06"}

// ---------------------------------------------------------------- independent tables (written from the NUT documents)

// nutCause: refusal causes the NUT error table names, with the NUT code, keyed by the harness's cause name.
var nutCause = map[string]int{
	"output-already-signed": 10002,
	"proof-invalid":         10003,
	"proof-already-spent":   11001,
	"not-balanced":          11002,
	"unit-not-supported":    11005,
	"amount-out-of-limit":   11006,
	"duplicate-inputs":      11007,
	"duplicate-outputs":     11008,
	"keyset-unknown":        12001,
	"keyset-inactive":       12002,
	"quote-not-paid":        20001,
	"quote-already-issued":  20002,
	"minting-disabled":      20003,
	"quote-pending":         20005,
	"invoice-already-paid":  20006,
	"quote-signature":       20008,
}

// literal details of the source's error variables (name of the variable for the coverage table) and the code
// each must carry.  Independent copy, compared with what the mint really answers.
var wireErrVars = []struct {
	Var, Detail string
	Code        int
}{
	{"StandardErr", "mint is currently unable to process request", 10000},
	{"EmptyBodyErr", "request body cannot be empty", 10000},
	{"UnknownKeysetErr", "unknown keyset", 12001},
	{"PaymentMethodNotSupportedErr", "payment method not supported", 11003},
	{"UnitNotSupportedErr", "unit not supported", 11005},
	{"InvalidBlindedMessageAmount", "invalid amount in blinded message", 10000},
	{"InvalidProofAmount", "invalid amount in proof", 10000},
	{"BlindedMessageAlreadySigned", "blinded message already signed", 10002},
	{"MintQuoteRequestNotPaid", "quote request has not been paid", 20001},
	{"MintQuoteAlreadyIssued", "quote already issued", 20002},
	{"MintingDisabled", "minting is disabled", 20003},
	{"MintAmountExceededErr", "max amount for minting exceeded", 11006},
	{"MintQuoteInvalidSigErr", "Mint quote with pubkey but no valid signature provided.", 20008},
	{"OutputsOverQuoteAmountErr", "sum of the output amounts is greater than quote amount", 10000},
	{"ProofAlreadyUsedErr", "proof already used", 11001},
	{"ProofPendingErr", "proof is pending", 11001},
	{"InvalidProofErr", "invalid proof", 10003},
	{"SecretTooLongErr", "secret too long", 10004},
	{"NoProofsProvided", "no proofs provided", 10003},
	{"DuplicateProofs", "duplicate inputs", 11007},
	{"DuplicateOutputs", "duplicate outputs", 11008},
	{"QuoteNotExistErr", "quote does not exist", 20009},
	{"QuotePending", "quote is pending", 20005},
	{"LightningPaymentFailed", "Lightning payment failed", 20004},
	{"MeltQuoteAlreadyPaid", "quote already paid", 20006},
	{"MeltAmountExceededErr", "max amount for melting exceeded", 11006},
	{"MeltQuoteForRequestExists", "melt quote for payment request already exists", 20009},
	{"InsufficientProofsAmount", "amount of input proofs is below amount needed for transaction", 11002},
	{"InactiveKeysetSignatureRequest", "requested signature from inactive keyset", 12002},
}

// the two variables no code path returns (tied statically: Tie.Wire.errVars_unused)
var wireErrUnreachable = map[string]bool{"UnitNotSupportedErr": true, "LightningPaymentFailed": true}

var wireLiteral = map[string]string{} // detail -> variable name
var wireLiteralCode = map[string]int{}

const stdErrBody = `{"detail":"mint is currently unable to process request","code":10000}`
const unableToPayBody = `{"detail":"unable to send payment","code":10000}`

func init() {
	for _, e := range wireErrVars {
		wireLiteral[e.Detail] = e.Var
		wireLiteralCode[e.Detail] = e.Code
	}
	wireLiteral["unable to send payment"] = "(meltTokens LN)"
	wireLiteralCode["unable to send payment"] = 10000
	wireLiteral["Content-Type header is not application/json"] = "(content type)"
	wireLiteralCode["Content-Type header is not application/json"] = 10000
	wireLiteral["SIG_ALL can only be used in /swap operation"] = "nut11.SigAllOnlySwap"
	wireLiteralCode["SIG_ALL can only be used in /swap operation"] = 30001
}

var wireDynTags = []struct{ prefix, tag string }{
	{"unit '", "unit-not-supported"},
	{"invalid public key '", "bad-pubkey"},
	{"invalid C:", "bad-C-hex"},
	{"invalid B_:", "bad-B-hex"},
	{"invalid invoice", "bad-invoice"},
	{"invoice has no amount", "invoice-no-amount"},
	{"mpp for internal invoice", "mpp-internal"},
	{"mpp amount is not less", "mpp-not-less"},
	{"MPP is not supported", "mpp-unsupported"},
	{"bad json at ", "bad-json"},
	{"malformed public key", "bad-point"},
	{"invalid public key:", "bad-point"},
}

// detailClass: the model's name of a detail: the literal for the source's constant strings, a class otherwise.
func detailClass(code int, detail string, decodeStage bool) string {
	if _, ok := wireLiteral[detail]; ok {
		return detail
	}
	for _, t := range wireDynTags {
		if strings.HasPrefix(detail, t.prefix) {
			return "$detail:" + t.tag
		}
	}
	if strings.HasPrefix(detail, "invalid ") && strings.Contains(detail, " for field ") {
		return "$detail:invalid-type"
	}
	if decodeStage {
		return "$detail:decode-other"
	}
	if code == 10000 {
		return "$detail:bad-point" // secp256k1 / btcec parse errors
	}
	return "$detail:?" + detail
}

// ---------------------------------------------------------------- requests and results

type canonAux struct {
	Outs []ReqOut // swap / mint: the request's outputs by position; restore: the request's blinded messages
	Ys   []YQuery
}

type wreq struct {
	Kind     string // mintquote quotestate mint swap meltquote meltstate melt checkstate restore keys keysets keysbyid info route
	Method   string
	Target   string
	CType    string
	Body     []byte
	Dec      Sx     // the model's decode outcome: (ok PARSED) | syntax | type | empty | other
	DecClass string // ok | syntax | type | empty | other | n/a
	PathSym  int
	LnFail   bool
	Script   []string
	Aux      *canonAux
	Label    string
	Hash     string // mint quote creation: filled from the answer to wait for the watcher
}

type wres struct {
	Status   int
	Body     []byte
	JV       *JV
	Canon    string
	Trace    []string
	Ln       []LnCall
	Panic    any
	Info     string
	Code     int
	Detail   string
	IsErr    bool
	CacheLen int
	Header   http.Header
}

type cachedRec struct {
	Key   string
	Resp  []byte
	Req   *wreq
	Epoch int
}

type WSeq struct {
	*Seq
	model     bool
	epoch     int                   // bumped by a restart / ageing: entries of earlier epochs are gone
	cached    map[string]*cachedRec // harness's own belief of the NUT-19 cache: key -> first successful response
	cachedOrd []string
	hitVars   map[string]bool // cashu.Error variables seen in answers
	causes    map[string]bool
	preimages map[string]int
	lastSnap  *snapshot
}

func NewWSeq(c *Ctx, env *MintEnv, model bool) *WSeq {
	s := NewSeq(c, env, false, wireProps)
	return &WSeq{Seq: s, model: model, cached: map[string]*cachedRec{}, hitVars: map[string]bool{}, causes: map[string]bool{}, preimages: map[string]int{}}
}

func (w *WSeq) initModel() bool {
	o := w.env.Opts
	init := L(A("wire.init"), N(uint64(o.FeePpk)), B(o.FeePct), B(o.MPP), N(o.Limits.MintingSettings.MaxAmount),
		N(o.Limits.MaxBalance), N(o.Limits.MeltingSettings.MaxAmount))
	w.log = append(w.log, Render(init))
	if !w.model {
		return true
	}
	if m := w.c.Drv.Ask(init); m != "(ok)" {
		w.c.Disagree(wireProps, Render(init), "(ok)", m, nil)
		return false
	}
	return true
}

func bodySx(b []byte) Sx {
	if len(b) > 1<<16 {
		h := sha256.Sum256(b)
		return S(fmt.Sprintf("#sha256:%s:%d", hex.EncodeToString(h[:]), len(b)))
	}
	return S(string(b))
}

// serve runs the real handler under the harness's own recover (net/http recovers handler panics only in a real server).
func (w *WSeq) serve(r *http.Request) (rec *httptest.ResponseRecorder, panicv any) {
	rec = httptest.NewRecorder()
	func() {
		defer func() {
			if p := recover(); p != nil {
				panicv = p
			}
		}()
		w.env.Srv.VerifHandler().ServeHTTP(rec, r)
	}()
	return rec, panicv
}

func newHTTPRequest(method, target string, body []byte) (r *http.Request, err error) {
	defer func() {
		if p := recover(); p != nil {
			err = fmt.Errorf("httptest.NewRequest: %v", p)
		}
	}()
	r = httptest.NewRequest(method, target, bytes.NewReader(body))
	return r, nil
}

func (w *WSeq) do(q *wreq) *wres {
	res := &wres{}
	r, err := newHTTPRequest(q.Method, q.Target, q.Body)
	if err != nil {
		w.c.Hist("skipped", "unbuildable-request")
		return nil
	}
	if q.CType != "" {
		r.Header.Set("Content-Type", q.CType)
	}
	segs := strings.Split(r.URL.Path, "/")
	if len(segs) > 0 {
		segs = segs[1:]
	}
	segx := make([]Sx, len(segs))
	for i, sg := range segs {
		segx[i] = S(sg)
	}
	sc := make([]Sx, len(q.Script))
	for i, a := range q.Script {
		sc[i] = A(a)
	}
	dec := q.Dec
	if dec == nil {
		dec = A("empty")
	}
	line := L(A("wire.req"), S(q.Method), Ls(segx), S(r.URL.String()), S(q.CType), bodySx(q.Body), I(len(q.Body)), dec, I(q.PathSym), B(q.LnFail), Ls(sc))
	w.opIndex++
	lr := Render(line)
	if len(lr) > 6000 {
		lr = lr[:6000] + "…"
	}
	w.log = append(w.log, lr)
	if !strings.Contains(r.URL.String(), "/") {
		w.c.MonitorFail("C20", "C20/cache/url-without-slash", "URL.String() of a routed request contains no '/': "+r.URL.String(), w.replay())
	}

	w.env.DB.ResetTrace()
	w.env.LN.mu.Lock()
	w.env.LN.script = append([]string(nil), q.Script...)
	lnStart := len(w.env.LN.Calls)
	if q.LnFail {
		w.env.LN.failNext["CreateInvoice"] = 1
		w.env.LN.failNext["InvoiceStatus"] = 1
	}
	w.env.LN.mu.Unlock()

	rec, pv := w.serve(r)
	res.Panic = pv
	hr := rec.Result()
	res.Status = hr.StatusCode
	res.Header = hr.Header
	res.Body, _ = io.ReadAll(hr.Body)

	// a successful mint quote starts the watcher goroutine: wait until it has subscribed (its storage read belongs to this request)
	if q.Kind == "mintquote" && res.Status == 200 {
		if jv, err := parseJV(res.Body); err == nil {
			if rq := jv.get("request"); rq != nil {
				if li := w.env.LN.byReq[rq.S]; li != nil {
					q.Hash = li.hash
					deadline := time.Now().Add(3 * time.Second)
					for {
						w.env.LN.mu.Lock()
						n := len(w.env.LN.subs[li.hash])
						w.env.LN.mu.Unlock()
						if n > 0 || time.Now().After(deadline) {
							break
						}
						time.Sleep(200 * time.Microsecond)
					}
				}
			}
		}
	}

	res.Trace = w.env.DB.ResetTrace()
	w.env.LN.mu.Lock()
	res.Ln = append([]LnCall(nil), w.env.LN.Calls[lnStart:]...)
	w.env.LN.script = nil
	w.env.LN.failNext["CreateInvoice"] = 0
	w.env.LN.failNext["InvoiceStatus"] = 0
	w.env.LN.mu.Unlock()
	res.CacheLen = w.env.Srv.VerifCacheLen()

	w.c.Hist("op", q.Kind)
	if pv != nil {
		w.c.MonitorFail("C06", "C06/panic/"+q.Kind+"/"+panicSig(pv), fmt.Sprintf("handler %s panicked: %v", q.Kind, pv), w.replay())
		w.c.Hist("outcome", q.Kind+" panic")
		w.c.Case(q.Kind+"|panic", true)
		res.Canon = "(panic)"
	} else {
		w.canonAndMonitor(q, res)
	}

	if w.model {
		lnc := res.Ln
		if q.Kind == "checkstate" {
			lnc = append([]LnCall(nil), res.Ln...)
			sort.SliceStable(lnc, func(i, j int) bool { return lnc[i].Hash < lnc[j].Hash })
		}
		lnx := make([]Sx, len(lnc))
		for i, c := range lnc {
			lnx[i] = L(A(c.Kind), I(c.Hash), N(c.Msat), N(c.MaxFee), A(c.Answer))
		}
		trace := res.Trace
		if q.Kind == "checkstate" {
			// re-polls of two or more melt quotes happen in Go's map iteration order: compare as a multiset
			n := 0
			for _, t := range trace {
				if t == "db.GetMeltQuote" {
					n++
				}
			}
			if n >= 2 {
				trace = append([]string(nil), trace...)
				sort.Strings(trace)
			}
		}
		tr := make([]Sx, len(trace))
		for i, t := range trace {
			tr[i] = A(t)
		}
		impl := Render(L(I(res.Status), S(res.Canon), Ls(tr), Ls(lnx), I(res.CacheLen)))
		modelAns := w.c.Drv.Ask(line)
		mcore := modelAns
		if i := strings.LastIndexByte(modelAns, ' '); i > 0 && strings.HasSuffix(modelAns, ")") {
			mcore = modelAns[:i] + ")"
			res.Info = modelAns[i+1 : len(modelAns)-1]
		}
		if mcore != impl {
			w.c.Disagree(wireProps[:1], lr, impl, modelAns, w.replay())
		}
		w.c.Hist("model-info", res.Info)
	}
	return res
}

func (w *WSeq) replay() any {
	n := len(w.log)
	from := 0
	if n > 300 {
		from = n - 300
	}
	return map[string]any{"seed": w.c.Seed, "op_index": w.opIndex, "stream": "wire", "ops": w.log[from:]}
}

// ---------------------------------------------------------------- canonicalisation + shape monitors

func isHexPoint(s string) bool {
	b, err := hex.DecodeString(s)
	if err != nil || len(b) != 33 {
		return false
	}
	_, err = secp256k1.ParsePubKey(b)
	return err == nil
}

func isHex(s string, n int) bool {
	b, err := hex.DecodeString(s)
	return err == nil && len(b) == n
}

var (
	mintStates  = map[string]bool{"UNPAID": true, "PAID": true, "ISSUED": true} // NUT-04
	meltStates  = map[string]bool{"UNPAID": true, "PENDING": true, "PAID": true}
	proofStates = map[string]bool{"UNSPENT": true, "PENDING": true, "SPENT": true}
)

func (w *WSeq) shapeFail(q *wreq, what string) {
	sig := what
	if len(sig) > 60 {
		sig = sig[:60]
	}
	w.c.MonitorFail("C20", "C20/shape/"+q.Kind+"/"+sig, fmt.Sprintf("%s %s answered a body that is not NUT-shaped: %s", q.Method, q.Target, what), w.replay())
}

// need: the object has exactly the required fields (in any order) plus optional ones, with the given JSON kinds.
func (w *WSeq) need(q *wreq, v *JV, where string, required map[string]byte, optional map[string]byte) bool {
	if v == nil || v.K != 'o' {
		w.shapeFail(q, where+" is not an object")
		return false
	}
	seen := map[string]bool{}
	for _, kv := range v.O {
		k, okr := required[kv.Key]
		if !okr {
			var oko bool
			k, oko = optional[kv.Key]
			if !oko {
				w.shapeFail(q, where+" has unexpected field "+kv.Key)
				return false
			}
		}
		if seen[kv.Key] {
			w.shapeFail(q, where+" repeats field "+kv.Key)
			return false
		}
		seen[kv.Key] = true
		if kv.V.K != k {
			w.shapeFail(q, where+"."+kv.Key+" has JSON type "+jvKindName(kv.V))
			return false
		}
	}
	for k := range required {
		if !seen[k] {
			w.shapeFail(q, where+" lacks field "+k)
			return false
		}
	}
	return true
}

func (w *WSeq) canonSig(q *wreq, sg *JV, b string) *JV {
	out := sg.clone()
	if !w.need(q, sg, "signature", map[string]byte{"amount": 'n', "C_": 's', "id": 's'}, map[string]byte{"dleq": 'o'}) {
		return out
	}
	for i, kv := range out.O {
		switch kv.Key {
		case "C_":
			if !isHexPoint(kv.V.S) {
				w.shapeFail(q, "C_ is not a compressed point in hex")
			}
			out.O[i].V = jstr("$C_:" + b)
		case "id":
			out.O[i].V = jstr(w.ksSym(kv.V.S))
		case "dleq":
			if w.need(q, kv.V, "dleq", map[string]byte{"e": 's', "s": 's'}, map[string]byte{"r": 's'}) {
				for j, d := range kv.V.O {
					if (d.Key == "e" || d.Key == "s") && !isHex(d.V.S, 32) {
						w.shapeFail(q, "dleq."+d.Key+" is not 32 bytes of hex")
					}
					out.O[i].V.O[j].V = jstr("$" + d.Key)
				}
			}
		}
	}
	return out
}

func (w *WSeq) ksSym(id string) string {
	if idx, ok := w.env.ksIdx[id]; ok {
		return "$ks:" + strconv.Itoa(idx)
	}
	return "$uks:" + strconv.Itoa(w.symWitness("ks:"+id))
}

func (w *WSeq) preimageSym(p string) string {
	for _, li := range w.env.LN.invoices {
		if li.preimage == p {
			return "$pre:" + strconv.Itoa(li.id)
		}
	}
	return "$pre:?"
}

func (w *WSeq) canonAndMonitor(q *wreq, res *wres) {
	kindOutcome := func(k string) {
		w.c.Hist("outcome", q.Kind+" "+k)
		w.c.Case(q.Kind+"|"+k, true)
	}
	// transport-level answers without a JSON body
	if q.Kind == "route" || res.Status == 404 || res.Status == 405 || res.Status == 301 || (q.Method == "OPTIONS" && res.Status == 200 && len(res.Body) == 0) {
		res.Canon = string(res.Body)
		kindOutcome(fmt.Sprintf("http-%d", res.Status))
		if q.Kind != "route" {
			w.c.MonitorFail("C20", fmt.Sprintf("C20/status/%s/%d", q.Kind, res.Status), fmt.Sprintf("%s %s answered %d", q.Method, q.Target, res.Status), w.replay())
		}
		return
	}
	// monitor: a routed request is answered 200 or 400 …
	if res.Status != 200 && res.Status != 400 {
		w.c.MonitorFail("C20", fmt.Sprintf("C20/status/%s/%d", q.Kind, res.Status), fmt.Sprintf("%s %s answered %d", q.Method, q.Target, res.Status), w.replay())
	}
	// … with a JSON document and the JSON content type
	if ct := res.Header.Get("Content-Type"); ct != "application/json" {
		w.c.MonitorFail("C20", "C20/header/content-type/"+q.Kind, "response Content-Type is "+ct, w.replay())
	}
	jv, err := parseJV(res.Body)
	if err != nil {
		res.Canon = "raw:" + string(res.Body)
		w.shapeFail(q, "body is not one JSON document")
		kindOutcome(fmt.Sprintf("%d non-json", res.Status))
		return
	}
	res.JV = jv
	if res.Status == 400 {
		res.IsErr = true
		if jv.K == 'o' && len(jv.O) == 0 {
			// json.Marshal of a Go error value without exported fields
			res.Canon = "{}"
			w.c.MonitorFail("C20", "C20/error-shape/"+q.Kind+"/empty-object", fmt.Sprintf("%s %s refused with the body {} (no detail, no code)", q.Method, q.Target), w.replay())
			kindOutcome("400 {}")
			return
		}
		if !w.need(q, jv, "error", map[string]byte{"detail": 's', "code": 'n'}, nil) {
			res.Canon = canonPrint(jv)
			kindOutcome("400 misshaped")
			return
		}
		res.Detail = jv.get("detail").S
		res.Code, _ = strconv.Atoi(jv.get("code").S)
		cls := detailClass(res.Code, res.Detail, q.DecClass == "other" || q.DecClass == "syntax" || q.DecClass == "type")
		out := jv.clone()
		for i, kv := range out.O {
			if kv.Key == "detail" {
				out.O[i].V = jstr(cls)
			}
		}
		res.Canon = canonPrint(out)
		// monitor: a constant detail carries its table code (independent copy of the table)
		if vn, ok := wireLiteral[res.Detail]; ok {
			w.hitVars[vn] = true
			w.c.Hist("error-variable", vn)
			if wireLiteralCode[res.Detail] != res.Code {
				w.c.MonitorFail("C20", "C20/code/detail-code-mismatch/"+vn, fmt.Sprintf("detail %q answered with code %d", res.Detail, res.Code), w.replay())
			}
		} else {
			w.c.Hist("error-class", strings.TrimPrefix(cls, "$detail:"))
		}
		// monitor: internal codes never leave the mint
		if res.Code == 1 || res.Code == 2 {
			w.c.MonitorFail("C20", fmt.Sprintf("C20/internal-code-leaked/%s/%d", q.Kind, res.Code), "an internal error code (DB/LN) was sent to the client: "+res.Detail, w.replay())
		}
		kindOutcome(fmt.Sprintf("400 %d %s", res.Code, strings.TrimPrefix(cls, "$detail:")))
		return
	}
	// 200
	kindOutcome("200")
	out := jv.clone()
	switch q.Kind {
	case "mintquote", "quotestate":
		if w.need(q, jv, "mint quote", map[string]byte{"quote": 's', "request": 's', "amount": 'n', "unit": 's', "state": 's', "expiry": 'n'}, map[string]byte{"pubkey": 's'}) {
			if st := jv.get("state").S; st == "PENDING" {
				w.c.MonitorFail("C20", "C20/shape/quotestate/mint-quote-state-PENDING", "a mint quote was reported in state PENDING, which NUT-04 (UNPAID, PAID, ISSUED) does not list", w.replay())
			} else if !mintStates[st] {
				w.shapeFail(q, "state "+st)
			}
			if jv.get("unit").S != "sat" {
				w.shapeFail(q, "unit "+jv.get("unit").S)
			}
			for i, kv := range out.O {
				switch kv.Key {
				case "quote":
					out.O[i].V = jstr("$mq:" + strconv.Itoa(w.env.symMintQ(kv.V.S)))
				case "request":
					if li := w.env.LN.byReq[kv.V.S]; li != nil {
						out.O[i].V = jstr("$inv:" + strconv.Itoa(li.id))
					} else {
						out.O[i].V = jstr("$inv:?")
					}
				case "expiry":
					out.O[i].V = jstr("$T")
				case "pubkey":
					if !isHexPoint(kv.V.S) {
						w.shapeFail(q, "pubkey is not a compressed point")
					}
					if ks, ok := w.keySym[kv.V.S]; ok {
						out.O[i].V = jstr("$key:" + strconv.Itoa(ks))
					} else {
						out.O[i].V = jstr("$key:?")
					}
				}
			}
		}
	case "meltquote", "meltstate", "melt":
		if w.need(q, jv, "melt quote", map[string]byte{"quote": 's', "request": 's', "amount": 'n', "unit": 's', "fee_reserve": 'n', "state": 's', "expiry": 'n'},
			map[string]byte{"payment_preimage": 's', "change": 'a'}) {
			if !meltStates[jv.get("state").S] {
				w.shapeFail(q, "state "+jv.get("state").S)
			}
			for i, kv := range out.O {
				switch kv.Key {
				case "quote":
					out.O[i].V = jstr("$lq:" + strconv.Itoa(w.env.symMeltQ(kv.V.S)))
				case "request":
					if li := w.env.LN.byReq[kv.V.S]; li != nil {
						out.O[i].V = jstr("$inv:" + strconv.Itoa(li.id))
					} else {
						out.O[i].V = jstr("$inv:?")
					}
				case "expiry":
					out.O[i].V = jstr("$T")
				case "payment_preimage":
					out.O[i].V = jstr(w.preimageSym(kv.V.S))
				}
			}
		}
	case "mint", "swap":
		if w.need(q, jv, "response", map[string]byte{"signatures": 'a'}, nil) {
			sigs := jv.get("signatures")
			for i, sg := range sigs.A {
				b := "?"
				if q.Aux != nil && i < len(q.Aux.Outs) {
					b = strconv.Itoa(w.symB(q.Aux.Outs[i].BM.B_))
				}
				out.O[0].V.A[i] = w.canonSig(q, sg, b)
			}
		}
	case "restore":
		if w.need(q, jv, "response", map[string]byte{"outputs": 'a', "signatures": 'a'}, nil) {
			outs, sigs := jv.get("outputs"), jv.get("signatures")
			if len(outs.A) != len(sigs.A) {
				w.shapeFail(q, "outputs and signatures differ in length")
			}
			co := out.get("outputs")
			cs := out.get("signatures")
			for i, o := range outs.A {
				if !w.need(q, o, "output", map[string]byte{"amount": 'n', "B_": 's', "id": 's'}, map[string]byte{"witness": 's'}) {
					continue
				}
				for j, kv := range o.O {
					switch kv.Key {
					case "B_":
						co.A[i].O[j].V = jstr("$b:" + strconv.Itoa(w.symB(kv.V.S)))
					case "id":
						co.A[i].O[j].V = jstr(w.ksSym(kv.V.S))
					case "witness":
						co.A[i].O[j].V = jstr("$w:" + strconv.Itoa(w.symWitness(kv.V.S)))
					}
				}
				if i < len(sigs.A) {
					cs.A[i] = w.canonSig(q, sigs.A[i], strconv.Itoa(w.symB(o.get("B_").S)))
				}
			}
		}
	case "checkstate":
		if w.need(q, jv, "response", map[string]byte{"states": 'a'}, nil) {
			for i, st := range jv.get("states").A {
				if !w.need(q, st, "state", map[string]byte{"Y": 's', "state": 's'}, map[string]byte{"witness": 's'}) {
					continue
				}
				if !proofStates[st.get("state").S] {
					w.shapeFail(q, "state "+st.get("state").S)
				}
				for j, kv := range st.O {
					switch kv.Key {
					case "Y":
						sym := "$unk:" + strconv.Itoa(w.symWitness("y:"+kv.V.S))
						if q.Aux != nil && i < len(q.Aux.Ys) && q.Aux.Ys[i].Y == kv.V.S && q.Aux.Ys[i].Sec != "" {
							sym = "$y:" + strconv.Itoa(w.symSecret(q.Aux.Ys[i].Sec))
						}
						out.O[0].V.A[i].O[j].V = jstr(sym)
					case "witness":
						out.O[0].V.A[i].O[j].V = jstr("$w:" + strconv.Itoa(w.symWitness(kv.V.S)))
					}
				}
			}
		}
	case "keys", "keysbyid":
		if w.need(q, jv, "response", map[string]byte{"keysets": 'a'}, nil) {
			for i, ks := range jv.get("keysets").A {
				if !w.need(q, ks, "keyset", map[string]byte{"id": 's', "unit": 's', "keys": 'o'}, nil) {
					continue
				}
				id := ks.get("id").S
				idx, known := w.env.ksIdx[id]
				if !known {
					w.shapeFail(q, "keyset id unknown to the harness")
				}
				// monitor: keys ascending by amount, powers of two, compressed points; id = NUT-02 derivation of the keys
				var prev uint64
				var concat []byte
				for j, kv := range ks.get("keys").O {
					a, err := strconv.ParseUint(kv.Key, 10, 64)
					if err != nil || a == 0 || a&(a-1) != 0 {
						w.shapeFail(q, "key amount "+kv.Key)
					}
					if j > 0 && a <= prev {
						w.c.MonitorFail("C20", "C20/keys/not-ascending", fmt.Sprintf("key map not ascending: %d after %d", a, prev), w.replay())
					}
					prev = a
					if kv.V.K != 's' || !isHexPoint(kv.V.S) {
						w.shapeFail(q, "public key is not a compressed point")
					} else {
						pb, _ := hex.DecodeString(kv.V.S)
						concat = append(concat, pb...)
					}
					out.O[0].V.A[i].get("keys").O[j].V = jstr(fmt.Sprintf("$K:%d:%d", idx, a))
				}
				h := sha256.Sum256(concat)
				if want := "00" + hex.EncodeToString(h[:])[:14]; want != id {
					w.c.MonitorFail("C20", "C20/keys/id-not-derived-from-keys", "keyset id "+id+" is not the NUT-02 id of the returned keys ("+want+")", w.replay())
				}
				for j, kv := range ks.O {
					if kv.Key == "id" {
						out.O[0].V.A[i].O[j].V = jstr(w.ksSym(id))
					}
				}
			}
		}
	case "keysets":
		if w.need(q, jv, "response", map[string]byte{"keysets": 'a'}, nil) {
			arr := out.get("keysets")
			okAll := true
			for _, ks := range jv.get("keysets").A {
				if !w.need(q, ks, "keyset", map[string]byte{"id": 's', "unit": 's', "active": 'b', "input_fee_ppk": 'n'}, nil) {
					okAll = false
				}
			}
			if okAll {
				// the array order is a Go map iteration order: compare as a set ordered by derivation index
				sort.SliceStable(arr.A, func(i, j int) bool { return w.env.ksIdx[arr.A[i].get("id").S] < w.env.ksIdx[arr.A[j].get("id").S] })
				for _, ks := range arr.A {
					for j, kv := range ks.O {
						if kv.Key == "id" {
							ks.O[j].V = jstr(w.ksSym(kv.V.S))
						}
					}
				}
			}
		}
	case "info":
		if jv.K == 'o' {
			for i, kv := range out.O {
				switch kv.Key {
				case "name", "pubkey", "version", "description":
					out.O[i].V = jstr("$" + kv.Key)
				case "time":
					out.O[i].V = jstr("$T")
				}
			}
			if n := jv.get("nuts"); n == nil || n.K != 'o' {
				w.shapeFail(q, "info lacks nuts")
			}
		}
	}
	res.Canon = canonPrint(out)
}

// ---------------------------------------------------------------- events that reach the mint without HTTP

// mintEvent runs f against the real mint (not through HTTP: it is not a client request) and the same
// `mint.*` op on the model's session inside the wire state.
func (w *WSeq) mintEvent(name string, line Sx, f func() Sx) opResult {
	res := w.Seq.runOp(name, line, nil, f)
	w.log[len(w.log)-1] = Render(L(A("wire.mint"), line))
	if w.model {
		lnx := make([]Sx, len(res.ln))
		for i, c := range res.ln {
			lnx[i] = L(A(c.Kind), I(c.Hash), N(c.Msat), N(c.MaxFee), A(c.Answer))
		}
		tr := make([]Sx, len(res.trace))
		for i, t := range res.trace {
			tr[i] = A(t)
		}
		impl := Render(L(res.out, Ls(tr), Ls(lnx)))
		m := w.c.Drv.Ask(L(A("wire.mint"), line))
		if m != impl {
			w.c.Disagree(wireProps[:1], Render(L(A("wire.mint"), line)), impl, m, w.replay())
		}
	}
	return res
}

func (w *WSeq) plainEvent(line Sx) {
	w.log = append(w.log, Render(L(A("wire.mint"), line)))
	if w.model {
		if m := w.c.Drv.Ask(L(A("wire.mint"), line)); m != "(ok)" {
			w.c.Disagree(wireProps[:1], Render(line), "(ok)", m, w.replay())
		}
	}
}

func (w *WSeq) WSettle(q *HMintQ) {
	li := w.env.LN.byHash[q.Hash]
	if li == nil {
		return
	}
	if !li.settled {
		li.settled = true
		q.Payments++
	}
	w.plainEvent(L(A("mint.settle"), I(q.HashSym)))
}

func (w *WSeq) WRegExt(li *lnInvoice) {
	w.plainEvent(L(A("mint.extinvoice"), I(li.id), N(li.msat)))
}

func (w *WSeq) WNotify(q *HMintQ) {
	line := L(A("mint.notify"), I(q.Sym))
	w.mintEvent("notify", line, func() Sx {
		before := runtime.NumGoroutine()
		n := w.env.LN.Notify(q.Hash)
		if n == 0 {
			return L(A("ok"), A("no-subscriber"))
		}
		deadline := time.Now().Add(3 * time.Second)
		for runtime.NumGoroutine() > before-2 && time.Now().Before(deadline) {
			time.Sleep(200 * time.Microsecond)
		}
		w.env.DB.mu.Lock()
		wrote := false
		for _, t := range w.env.DB.Trace {
			if t == "db.UpdateMintQuoteState" {
				wrote = true
			}
		}
		w.env.DB.mu.Unlock()
		if wrote {
			return L(A("ok"), A("wrote"))
		}
		return L(A("ok"), A("no-write"))
	})
}

func (w *WSeq) WRotate(fee uint) {
	line := L(A("mint.rotate"), N(uint64(fee)))
	w.mintEvent("rotate", line, func() Sx {
		ks, err := w.env.M.RotateKeyset(fee)
		if err != nil {
			return L(A("err"), I(0), S("raw"))
		}
		w.env.refreshKeysets()
		return L(A("ok"), I(w.env.ksIdx[ks.Id]), N(uint64(ks.InputFeePpk)))
	})
}

// WRestart: clean shutdown + LoadMint + SetupMintServer: the new server starts with an empty response cache.
func (w *WSeq) WRestart(rotate bool, fee uint) {
	line := L(A("mint.restart"), B(rotate), N(uint64(fee)))
	w.mintEvent("restart", line, func() Sx {
		if err := w.env.Restart(rotate, fee); err != nil {
			return L(A("err"), I(0), S(err.Error()))
		}
		return L(A("ok"), I(w.env.ksIdx[w.env.ActiveKeysetId()]))
	})
	w.epoch++
}

func (w *WSeq) ArmFault(k int) {
	w.env.DB.ArmFault(k)
	w.plainEvent(L(A("mint.fault"), I(k)))
}

// Disarm returns whether the armed fault was consumed by the operation in between.
func (w *WSeq) Disarm() bool {
	w.env.DB.mu.Lock()
	consumed := !w.env.DB.faultArm
	w.env.DB.mu.Unlock()
	w.env.DB.Disarm()
	w.plainEvent(L(A("mint.nofault")))
	return consumed
}

// ---------------------------------------------------------------- the server's cache object (exported type mint.Cache behind an unexported field)

func (w *WSeq) serverCache() *mint.Cache {
	f := reflect.ValueOf(w.env.Srv).Elem().FieldByName("cache")
	return (*mint.Cache)(unsafe.Pointer(f.Pointer()))
}

func cacheKeys(c *mint.Cache) []string {
	items := reflect.ValueOf(c).Elem().FieldByName("items")
	var ks []string
	for _, k := range items.MapKeys() {
		ks = append(ks, k.String())
	}
	sort.Strings(ks)
	return ks
}

// Age lets `dt` pass for the server's cache: every entry whose remaining life is shorter than dt is rewritten as
// already expired (Get returns the value, Set with a negative duration stores it expired).  Only two steps are
// used: 6 minutes (NUT-19 entries, TTL 5 min, expire; keyset entries, TTL 1 day, do not) and 2 days (everything).
func (w *WSeq) Age(all bool) {
	c := w.serverCache()
	for _, k := range cacheKeys(c) {
		if all || strings.Contains(k, "/") {
			if v, ok := c.Get(k); ok {
				c.Set(k, v, -time.Hour)
			}
		}
	}
	dt := int64(6 * time.Minute)
	if all {
		dt = int64(48 * time.Hour)
	}
	line := L(A("wire.advance"), A(strconv.FormatInt(dt, 10)))
	w.log = append(w.log, Render(line))
	if w.model {
		if m := w.c.Drv.Ask(line); m != "(ok)" {
			w.c.Disagree(wireProps[:1], Render(line), "(ok)", m, w.replay())
		}
	}
	w.epoch++ // every NUT-19 entry is past its TTL now (it may still be served ONCE more: Get returns an expired item and deletes it)
}

// Tick: Cache.DeleteExpired as the 30 s loop of MintServer.Start calls it.
func (w *WSeq) Tick() {
	c := w.serverCache()
	c.DeleteExpired()
	line := L(A("wire.tick"), B(false))
	w.log = append(w.log, Render(line))
	if w.model {
		impl := Render(L(A("ok"), I(w.env.Srv.VerifCacheLen())))
		if m := w.c.Drv.Ask(line); m != impl {
			w.c.Disagree(wireProps[:1], Render(line), impl, m, w.replay())
		}
	}
}

// ---------------------------------------------------------------- request builders (hand-written JSON)

func proofJV(p cashu.Proof) *JV {
	o := jobj("amount", jnum(p.Amount), "id", jstr(p.Id), "secret", jstr(p.Secret), "C", jstr(p.C))
	if p.Witness != "" {
		o.O = append(o.O, JKV{"witness", jstr(p.Witness)})
	}
	if p.DLEQ != nil {
		d := jobj("e", jstr(p.DLEQ.E), "s", jstr(p.DLEQ.S))
		if p.DLEQ.R != "" {
			d.O = append(d.O, JKV{"r", jstr(p.DLEQ.R)})
		}
		o.O = append(o.O, JKV{"dleq", d})
	}
	return o
}

func bmJV(b cashu.BlindedMessage) *JV {
	o := jobj("amount", jnum(b.Amount), "id", jstr(b.Id), "B_", jstr(b.B_))
	if b.Witness != "" {
		o.O = append(o.O, JKV{"witness", jstr(b.Witness)})
	}
	return o
}

func proofsJV(ps []ReqProof) *JV {
	a := jarr()
	for _, p := range ps {
		a.A = append(a.A, proofJV(p.P))
	}
	return a
}

func outsJV(os []ReqOut) *JV {
	a := jarr()
	for _, o := range os {
		a.A = append(a.A, bmJV(o.BM))
	}
	return a
}

// over HTTP every decoded proof with a dleq object gets its own pointer: struct equality never holds between two of them
func (w *WSeq) freshDleq(ps []ReqProof) []ReqProof {
	out := make([]ReqProof, len(ps))
	for i, p := range ps {
		out[i] = p
		out[i].Dleq = 0
		if p.P.DLEQ != nil {
			w.nDleq++
			out[i].Dleq = w.nDleq
		}
	}
	return out
}

// transport variants of a JSON body that do not change what it decodes to
type transport struct {
	CType string
	WS    int    // whitespace style of the encoder
	Tail  string // bytes after the JSON value (ignored by the stream decoder)
	Query string // "?…" appended to the path
}

func (w *WSeq) randTransport() transport {
	r := w.c.Rng
	t := transport{CType: "application/json"}
	switch r.Intn(12) {
	case 0:
		t.CType = ""
	case 1:
		t.CType = "application/json; charset=utf-8"
	case 2:
		t.CType = "Application/JSON"
	case 3:
		t.WS = 1
	case 4:
		t.WS = 2
	case 5:
		t.Tail = " \n"
	case 6:
		t.Tail = "garbage after the value"
	case 7:
		t.Query = "?x=1"
	}
	return t
}

func (t transport) body(v *JV) []byte { return []byte(v.Encode(t.WS) + t.Tail) }

func okDec(p Sx) Sx { return L(A("ok"), p) }

// ---------------------------------------------------------------- operations

func (w *WSeq) WMintQuote(amount uint64, unit string, pkMode int, lnFail bool, t transport) (*HMintQ, *wres) {
	body := jobj("amount", jnum(amount), "unit", jstr(unit))
	var key *secp256k1.PrivateKey
	pk := A("none")
	pub := ""
	switch pkMode {
	case 1:
		key = secp256k1.PrivKeyFromBytes(w.c.Rng.Bytes(32))
		pub = hex.EncodeToString(key.PubKey().SerializeCompressed())
		if _, ok := w.keySym[pub]; !ok {
			w.keySym[pub] = len(w.keySym)
		}
		pk = L(A("key"), I(w.keySym[pub]))
	case 2:
		pub = []string{"zz", "02ab", hex.EncodeToString(w.c.Rng.Bytes(33))}[w.c.Rng.Intn(3)]
		pk = A("bad")
	}
	if pub != "" {
		body.O = append(body.O, JKV{"pubkey", jstr(pub)})
	}
	q := &wreq{Kind: "mintquote", Method: "POST", Target: "/v1/mint/quote/bolt11" + t.Query, CType: t.CType, Body: t.body(body),
		Dec: okDec(L(A("mintquote"), N(amount), A(unitAtom(unit)), pk)), DecClass: "ok", PathSym: -1, LnFail: lnFail}
	res := w.do(q)
	if res == nil || res.Status != 200 || res.JV == nil {
		return nil, res
	}
	id := res.JV.get("quote")
	if id == nil {
		return nil, res
	}
	hs := -1
	if li := w.env.LN.byHash[q.Hash]; li != nil {
		hs = li.id
	}
	hq := &HMintQ{Id: id.S, Sym: w.env.symMintQ(id.S), Amount: amount, Hash: q.Hash, HashSym: hs, Key: key}
	if key != nil {
		hq.KeySym = w.keySym[pub]
	}
	w.mintQs = append(w.mintQs, hq)
	return hq, res
}

func (w *WSeq) WQuoteState(id string, sym int, method string, lnFail bool) *wres {
	return w.do(&wreq{Kind: "quotestate", Method: method, Target: "/v1/mint/quote/bolt11/" + id, DecClass: "n/a", PathSym: sym, LnFail: lnFail})
}

// mintBody builds the NUT-04 mint request; sigMode as in Seq.OpMint.
func (w *WSeq) mintBody(q *HMintQ, outs []ReqOut, sigMode int) (*JV, Sx) {
	var bms cashu.BlindedMessages
	for _, o := range outs {
		bms = append(bms, o.BM)
	}
	sigSx := Sx(A("none"))
	sig := ""
	signWith := func(key *secp256k1.PrivateKey, quote string, bms cashu.BlindedMessages) string {
		sg, err := nut20.SignMintQuote(key, quote, bms)
		if err != nil {
			return ""
		}
		return hex.EncodeToString(sg.Serialize())
	}
	bids := func(bms cashu.BlindedMessages) Sx {
		xs := make([]Sx, len(bms))
		for i, b := range bms {
			xs[i] = I(w.symB(b.B_))
		}
		return Ls(xs)
	}
	switch sigMode {
	case 1:
		if q.Key != nil {
			sig = signWith(q.Key, q.Id, bms)
			sigSx = L(A("s"), I(q.KeySym), I(q.Sym), bids(bms))
		}
	case 2:
		sig = hex.EncodeToString(w.c.Rng.Bytes(64))
		sigSx = A("garbage")
	case 3:
		k := secp256k1.PrivKeyFromBytes(w.c.Rng.Bytes(32))
		sig = signWith(k, q.Id, bms)
		sigSx = L(A("s"), I(1000000+w.c.Rng.Intn(1000)), I(q.Sym), bids(bms))
	case 4:
		if q.Key != nil && len(bms) >= 2 {
			rev := make(cashu.BlindedMessages, len(bms))
			for i, b := range bms {
				rev[len(rev)-1-i] = b
			}
			sig = signWith(q.Key, q.Id, rev)
			sigSx = L(A("s"), I(q.KeySym), I(q.Sym), bids(rev))
		}
	case 5:
		if q.Key != nil {
			sig = signWith(q.Key, hex.EncodeToString(w.c.Rng.Bytes(32)), bms)
			sigSx = L(A("s"), I(q.KeySym), I(-2), bids(bms))
		}
	case 6:
		sig = "zz" + hex.EncodeToString(w.c.Rng.Bytes(8))
		sigSx = A("garbage")
	}
	if sig == "" {
		sigSx = A("none")
	}
	body := jobj("quote", jstr(q.Id), "outputs", outsJV(outs))
	if sig != "" {
		body.O = append(body.O, JKV{"signature", jstr(sig)})
	}
	return body, sigSx
}

func (w *WSeq) WMint(q *HMintQ, outs []ReqOut, sigMode int, t transport) (*wreq, *wres) {
	body, sigSx := w.mintBody(q, outs, sigMode)
	rq := &wreq{Kind: "mint", Method: "POST", Target: "/v1/mint/bolt11" + t.Query, CType: t.CType, Body: t.body(body),
		Dec: okDec(L(A("mint"), I(q.Sym), w.sxOuts(outs), sigSx)), DecClass: "ok", PathSym: -1, Aux: &canonAux{Outs: outs}}
	res := w.do(rq)
	w.afterSigs(rq, res, outs, func() { q.Issued++ })
	return rq, res
}

// afterSigs: bookkeeping after a mint / swap answer: cache belief, signatures seen, new proofs.
func (w *WSeq) afterSigs(rq *wreq, res *wres, outs []ReqOut, onExec func()) {
	if res == nil || res.Status != 200 || res.JV == nil {
		return
	}
	key := rq.Method + rq.Target + string(rq.Body)
	if c, ok := w.cached[key]; ok && c.Epoch == w.epoch {
		return // a replay: nothing new happened (checked by the replay monitor)
	}
	if len(rq.Body) < 2*1024*1024 {
		w.cached[key] = &cachedRec{Key: key, Resp: res.Body, Req: rq, Epoch: w.epoch}
		w.cachedOrd = append(w.cachedOrd, key)
	}
	if onExec != nil {
		onExec()
	}
	sigs := res.JV.get("signatures")
	if sigs == nil || len(sigs.A) != len(outs) {
		if sigs != nil {
			w.c.MonitorFail("C20", "C20/shape/"+rq.Kind+"/signature-count", fmt.Sprintf("%d signatures for %d outputs", len(sigs.A), len(outs)), w.replay())
		}
		return
	}
	for i, sg := range sigs.A {
		b := outs[i].BM.B_
		bs := cashu.BlindedSignature{Id: sg.get("id").S, C_: sg.get("C_").S}
		bs.Amount, _ = strconv.ParseUint(sg.get("amount").S, 10, 64)
		if _, dup := w.sigsSeen[b]; !dup {
			w.sigsSeen[b] = bs
			w.sigOrder = append(w.sigOrder, b)
		}
		if bs.Amount != outs[i].BM.Amount || bs.Id != outs[i].BM.Id {
			w.c.MonitorFail("C20", "C20/shape/"+rq.Kind+"/signature-not-for-output", "signature amount / keyset differs from the output's", w.replay())
		}
		if outs[i].O != nil {
			if p, err := w.env.Unblind(*outs[i].O, bs); err == nil {
				if _, ok := w.bySecret[p.Secret]; !ok {
					hp := &HProof{P: p, SecretId: w.symSecret(p.Secret), KsIdx: w.env.ksIdx[bs.Id], Amount: bs.Amount}
					w.bySecret[p.Secret] = hp
					w.proofs = append(w.proofs, hp)
				}
			}
		}
	}
}

func (w *WSeq) markConsumed(ps []ReqProof, by string) {
	for _, rp := range ps {
		if hp := w.bySecret[rp.P.Secret]; hp != nil {
			hp.ConsumedBy = append(hp.ConsumedBy, by)
			hp.LockedBy = 0
			hp.Witness = rp.P.Witness
		}
	}
}

func (w *WSeq) WSwap(ps []ReqProof, outs []ReqOut, t transport) (*wreq, *wres) {
	ps = w.freshDleq(ps)
	body := jobj("inputs", proofsJV(ps), "outputs", outsJV(outs))
	rq := &wreq{Kind: "swap", Method: "POST", Target: "/v1/swap" + t.Query, CType: t.CType, Body: t.body(body),
		Dec: okDec(L(A("swap"), w.sxProofs(ps), w.sxOuts(outs))), DecClass: "ok", PathSym: -1, Aux: &canonAux{Outs: outs}}
	res := w.do(rq)
	w.afterSigs(rq, res, outs, func() { w.markConsumed(ps, fmt.Sprintf("swap #%d", w.opIndex)) })
	return rq, res
}

// invMode: 0 valid invoice, 1 garbage string, 2 invoice without amount
func (w *WSeq) WMeltQuote(inv *lnInvoice, unit string, mppMsat uint64, invMode int, t transport) (*HMeltQ, *wres) {
	request := ""
	invSx := Sx(A("bad"))
	switch invMode {
	case 0:
		request = inv.request
		invSx = L(A("inv"), I(inv.id))
	case 1:
		request = "lnbc1" + hex.EncodeToString(w.c.Rng.Bytes(10))
	case 2:
		request = inv.request
		invSx = L(A("noamount"), I(inv.id))
	}
	body := jobj("request", jstr(request), "unit", jstr(unit))
	mppSx := Sx(A("none"))
	if mppMsat > 0 {
		body.O = append(body.O, JKV{"options", jobj("mpp", jobj("amount", jnum(mppMsat)))})
		mppSx = L(A("mpp"), N(mppMsat))
	}
	rq := &wreq{Kind: "meltquote", Method: "POST", Target: "/v1/melt/quote/bolt11" + t.Query, CType: t.CType, Body: t.body(body),
		Dec: okDec(L(A("meltquote"), invSx, A(unitAtom(unit)), mppSx)), DecClass: "ok", PathSym: -1}
	res := w.do(rq)
	if res == nil || res.Status != 200 || res.JV == nil || res.JV.get("quote") == nil {
		return nil, res
	}
	id := res.JV.get("quote").S
	hq := &HMeltQ{Id: id, Sym: w.env.symMeltQ(id), Inv: inv, Expect: "UNPAID", IsMpp: mppMsat > 0, Msat: mppMsat}
	hq.Amount, _ = strconv.ParseUint(res.JV.get("amount").S, 10, 64)
	hq.Reserve, _ = strconv.ParseUint(res.JV.get("fee_reserve").S, 10, 64)
	w.meltQs = append(w.meltQs, hq)
	return hq, res
}

func (w *WSeq) applyMeltState(q *HMeltQ, state string, ps []ReqProof) {
	switch state {
	case "PAID":
		if ps != nil {
			w.markConsumed(ps, fmt.Sprintf("melt #%d", w.opIndex))
		} else {
			for _, hp := range q.Inputs {
				hp.LockedBy = 0
				hp.ConsumedBy = append(hp.ConsumedBy, "melt resolved")
			}
		}
		q.Inputs = nil
	case "PENDING":
		if ps != nil {
			q.Inputs = nil
			for _, rp := range ps {
				if hp := w.bySecret[rp.P.Secret]; hp != nil {
					hp.LockedBy = q.Sym + 1
					hp.Witness = rp.P.Witness
					q.Inputs = append(q.Inputs, hp)
				}
			}
		}
	case "UNPAID":
		for _, hp := range q.Inputs {
			hp.LockedBy = 0
		}
		q.Inputs = nil
	}
	q.Expect = state
}

func (w *WSeq) WMelt(q *HMeltQ, ps []ReqProof, script []string, lnFail bool, t transport) *wres {
	ps = w.freshDleq(ps)
	body := jobj("quote", jstr(q.Id), "inputs", proofsJV(ps))
	rq := &wreq{Kind: "melt", Method: "POST", Target: "/v1/melt/bolt11" + t.Query, CType: t.CType, Body: t.body(body),
		Dec: okDec(L(A("melt"), I(q.Sym), w.sxProofs(ps))), DecClass: "ok", PathSym: -1, Script: script, LnFail: lnFail}
	res := w.do(rq)
	if res != nil && res.Status == 200 && res.JV != nil && res.JV.get("state") != nil {
		w.applyMeltState(q, res.JV.get("state").S, ps)
	} else if res != nil && res.Status == 400 {
		// refused after the inputs were locked (Lightning error during internal settlement, storage fault): the inputs may be stuck pending
		for _, c := range res.Trace {
			if c == "db.AddPendingProofs" {
				for _, rp := range ps {
					if hp := w.bySecret[rp.P.Secret]; hp != nil && len(hp.ConsumedBy) == 0 {
						hp.LockedBy = q.Sym + 1
					}
				}
				q.Expect = "PENDING"
			}
		}
	}
	return res
}

func (w *WSeq) WMeltState(id string, sym int, q *HMeltQ, script []string) *wres {
	res := w.do(&wreq{Kind: "meltstate", Method: "GET", Target: "/v1/melt/quote/bolt11/" + id, DecClass: "n/a", PathSym: sym, Script: script})
	if q != nil && res != nil && res.Status == 200 && res.JV != nil && res.JV.get("state") != nil {
		if st := res.JV.get("state").S; st != q.Expect {
			w.applyMeltState(q, st, nil)
		}
	}
	return res
}

func (w *WSeq) WCheckState(qs []YQuery, script []string, t transport) *wres {
	ys := jarr()
	yx := make([]Sx, len(qs))
	for i, q := range qs {
		ys.A = append(ys.A, jstr(q.Y))
		if q.Sec != "" {
			yx[i] = L(A("y"), I(w.symSecret(q.Sec)))
		} else {
			yx[i] = L(A("unk"), I(w.symWitness("y:"+q.Y)))
		}
	}
	body := jobj("Ys", ys)
	res := w.do(&wreq{Kind: "checkstate", Method: "POST", Target: "/v1/checkstate" + t.Query, CType: t.CType, Body: t.body(body),
		Dec: okDec(L(A("checkstate"), Ls(yx))), DecClass: "ok", PathSym: -1, Script: script, Aux: &canonAux{Ys: qs}})
	// polls may have resolved pending melts: re-read the quotes' states from storage for the bookkeeping
	w.syncMeltQuotes()
	return res
}

func (w *WSeq) syncMeltQuotes() {
	for _, q := range w.meltQs {
		if q.Expect != "PENDING" {
			continue
		}
		if mq, err := w.env.DB.inner.GetMeltQuote(q.Id); err == nil {
			if st := mq.State.String(); st != "PENDING" {
				w.applyMeltState(q, st, nil)
			}
		}
	}
}

func (w *WSeq) WRestore(bms []cashu.BlindedMessage, t transport) *wres {
	outs := make([]ReqOut, len(bms))
	for i, b := range bms {
		kind := "pt"
		if bb, err := hex.DecodeString(b.B_); err != nil {
			kind = "nonhex"
		} else if _, err := secp256k1.ParsePubKey(bb); err != nil {
			kind = "nonpoint"
		}
		outs[i] = ReqOut{BM: b, Kind: kind}
	}
	body := jobj("outputs", outsJV(outs))
	return w.do(&wreq{Kind: "restore", Method: "POST", Target: "/v1/restore" + t.Query, CType: t.CType, Body: t.body(body),
		Dec: okDec(L(A("restore"), w.sxOuts(outs))), DecClass: "ok", PathSym: -1, Aux: &canonAux{Outs: outs}})
}

func (w *WSeq) WGet(kind, target string, pathSym int) *wres {
	return w.do(&wreq{Kind: kind, Method: "GET", Target: target, DecClass: "n/a", PathSym: pathSym})
}

func (w *WSeq) WKeysById(id string) *wres {
	sym := -1
	if idx, ok := w.env.ksIdx[id]; ok {
		sym = idx
	}
	return w.WGet("keysbyid", "/v1/keys/"+id, sym)
}
