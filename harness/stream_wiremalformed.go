package main

// Stream "wire-malformed" (C06, with the transport monitors of C20): structural mutations of valid hand-built JSON
// requests, sent through the real HTTP handler at five states of a running history.  Model-free:
//   * a 4xx answer leaves storage exactly as it was (direct storage reads: Seq.snap / diffSnap; the legitimate
//     UNPAID -> PAID observation of a settled quote is allowed, as in seq.go);
//   * no request makes a handler panic (the handler runs under the harness's own recover);
//   * every answer is 200/400 with a JSON body of the NUT shape (monitors of WSeq.do);
//   * the refusal class (empty / bad json / type error / other decode error) is the one the harness's own schema
//     walker predicts from the bytes it sent.

import (
	"encoding/hex"
	"fmt"
	"strconv"
	"strings"

	"github.com/elnosh/gonuts/cashu"
)

type mutant struct {
	Label string
	Body  []byte
	CType string
}

type jpos struct {
	parent *JV
	idx    int // index into parent.A or parent.O
}

func collectPos(v *JV, out *[]jpos) {
	switch v.K {
	case 'o':
		for i := range v.O {
			*out = append(*out, jpos{v, i})
			collectPos(v.O[i].V, out)
		}
	case 'a':
		for i := range v.A {
			*out = append(*out, jpos{v, i})
			collectPos(v.A[i], out)
		}
	}
}

func (p jpos) get() *JV {
	if p.parent.K == 'o' {
		return p.parent.O[p.idx].V
	}
	return p.parent.A[p.idx]
}
func (p jpos) set(v *JV) {
	if p.parent.K == 'o' {
		p.parent.O[p.idx].V = v
	} else {
		p.parent.A[p.idx] = v
	}
}
func (p jpos) name() string {
	if p.parent.K == 'o' {
		return p.parent.O[p.idx].Key
	}
	return "[]"
}
func (p jpos) drop() {
	if p.parent.K == 'o' {
		p.parent.O = append(append([]JKV{}, p.parent.O[:p.idx]...), p.parent.O[p.idx+1:]...)
	} else {
		p.parent.A = append(append([]*JV{}, p.parent.A[:p.idx]...), p.parent.A[p.idx+1:]...)
	}
}

var structuralOps = []string{"drop", "null", "to-number", "to-string", "to-bool", "to-object", "to-array", "upper-key", "dup-key", "empty-list", "dup-element",
	"str-garble", "str-nonhex", "str-empty", "str-truncate", "str-long", "str-unknown-id", "str-upper", "str-unicode", "str-json",
	"num-zero", "num-negative", "num-fraction", "num-huge", "num-exponent", "num-2^63", "num-max", "num-leading-zero", "num-as-string"}

// mutate applies one structural mutation at a random position; returns the label ("" if not applicable there).
func mutateTree(r *Rng, root *JV, op string) string {
	var ps []jpos
	collectPos(root, &ps)
	if len(ps) == 0 {
		return ""
	}
	// try a few positions until the op applies
	for try := 0; try < 12; try++ {
		p := ps[r.Intn(len(ps))]
		v := p.get()
		where := p.name()
		switch op {
		case "drop":
			p.drop()
		case "null":
			p.set(jnull())
		case "to-number":
			if v.K == 'n' {
				continue
			}
			p.set(jlit("7"))
		case "to-string":
			if v.K == 's' {
				continue
			}
			p.set(jstr("x"))
		case "to-bool":
			p.set(jbool(r.Bool()))
		case "to-object":
			if v.K == 'o' {
				continue
			}
			p.set(jobj())
		case "to-array":
			if v.K == 'a' {
				continue
			}
			p.set(jarr())
		case "upper-key":
			if p.parent.K != 'o' {
				continue
			}
			p.parent.O[p.idx].Key = strings.ToUpper(p.parent.O[p.idx].Key)
		case "dup-key":
			if p.parent.K != 'o' {
				continue
			}
			p.parent.O = append(p.parent.O, JKV{p.parent.O[p.idx].Key, []*JV{jnull(), jlit("1"), jstr(""), jarr(), v.clone()}[r.Intn(5)]})
		case "empty-list":
			if v.K != 'a' {
				continue
			}
			v.A = nil
		case "dup-element":
			if v.K != 'a' || len(v.A) == 0 {
				continue
			}
			v.A = append(v.A, v.A[r.Intn(len(v.A))].clone())
		case "str-garble", "str-nonhex", "str-empty", "str-truncate", "str-long", "str-unknown-id", "str-upper", "str-unicode", "str-json":
			if v.K != 's' {
				continue
			}
			switch op {
			case "str-garble":
				b := []byte(v.S)
				if len(b) == 0 {
					b = []byte("x")
				}
				b[r.Intn(len(b))] ^= byte(1 + r.Intn(255))
				v.S = strings.ToValidUTF8(string(b), "�")
			case "str-nonhex":
				v.S = "zz" + v.S
			case "str-empty":
				v.S = ""
			case "str-truncate":
				if len(v.S) > 1 {
					v.S = v.S[:1+r.Intn(len(v.S)-1)]
				}
			case "str-long":
				v.S = strings.Repeat("a", 513+r.Intn(100000))
			case "str-unknown-id":
				v.S = hex.EncodeToString(r.Bytes((len(v.S) + 1) / 2))
			case "str-upper":
				v.S = strings.ToUpper(v.S)
			case "str-unicode":
				v.S = v.S + "\u0000 é😀\"\\"
			case "str-json":
				v.S = `["P2PK",{"nonce":"00","data":"` + v.S + `","tags":[["sigflag","SIG_ALL"]]}]`
			}
		case "num-zero", "num-negative", "num-fraction", "num-huge", "num-exponent", "num-2^63", "num-max", "num-leading-zero", "num-as-string":
			if v.K != 'n' {
				continue
			}
			switch op {
			case "num-zero":
				v.S = "0"
			case "num-negative":
				v.S = "-" + v.S
			case "num-fraction":
				v.S = v.S + ".5"
			case "num-huge":
				v.S = "18446744073709551616"
			case "num-exponent":
				v.S = "1e3"
			case "num-2^63":
				v.S = "9223372036854775808"
			case "num-max":
				v.S = "18446744073709551615"
			case "num-leading-zero":
				v.S = "0" + v.S
			case "num-as-string":
				p.set(jstr(v.S))
			}
		default:
			return ""
		}
		return op + "@" + where
	}
	return ""
}

var bodyOps = []string{"truncated", "empty", "whitespace", "null", "array", "number", "garbage", "bom", "deep-nesting", "trailing-garbage", "two-documents",
	"ctype-text", "ctype-form", "ctype-missing", "ctype-param", "ctype-upper", "single-quotes", "oversized-2MB"}

func bodyMutant(r *Rng, tmpl *JV, op string) mutant {
	valid := tmpl.Encode(r.Intn(3))
	m := mutant{Label: op, Body: []byte(valid), CType: "application/json"}
	switch op {
	case "truncated":
		if len(valid) > 1 {
			m.Body = []byte(valid[:1+r.Intn(len(valid)-1)])
		}
	case "empty":
		m.Body = nil
	case "whitespace":
		m.Body = []byte(" \t\r\n")
	case "null":
		m.Body = []byte("null")
	case "array":
		m.Body = []byte("[" + valid + "]")
	case "number":
		m.Body = []byte("12345")
	case "garbage":
		m.Body = r.Bytes(1 + r.Intn(64))
	case "bom":
		m.Body = append([]byte{0xEF, 0xBB, 0xBF}, m.Body...)
	case "deep-nesting":
		m.Body = []byte(strings.Repeat("[", 10001+r.Intn(5)))
	case "trailing-garbage":
		m.Body = append(m.Body, []byte("}]garbage")...)
	case "two-documents":
		m.Body = append(m.Body, m.Body...)
	case "ctype-text":
		m.CType = "text/plain"
	case "ctype-form":
		m.CType = "application/x-www-form-urlencoded"
	case "ctype-missing":
		m.CType = ""
	case "ctype-param":
		m.CType = "application/json; charset=utf-8"
	case "ctype-upper":
		m.CType = "APPLICATION/JSON"
	case "single-quotes":
		m.Body = []byte(strings.ReplaceAll(valid, `"`, `'`))
	case "oversized-2MB":
		// a syntactically valid request with one unknown, ignored member of more than 2 MB
		big := tmpl.clone()
		big.O = append(big.O, JKV{"padding", jstr(strings.Repeat("p", 2*1024*1024+r.Intn(1000)))})
		m.Body = []byte(big.Encode(0))
	}
	return m
}

type malTemplate struct {
	Kind   string
	Target string
	Schema *schema
	Tree   *JV
}

// templates: one valid request per kind, built from the current state of the history.
func (g *wgen) malTemplates() []malTemplate {
	w, env := g.w, g.env
	act := env.ActiveKeysetId()
	var ts []malTemplate
	key := hex.EncodeToString(g.r.Bytes(33))
	ts = append(ts, malTemplate{"mintquote", "/v1/mint/quote/bolt11", scMintQuoteReq, jobj("amount", jnum(uint64(1+g.r.Intn(64))), "unit", jstr("sat"), "pubkey", jstr("02"+key[:64]))})
	// mint: a quote that can be issued if there is one
	qid := hex.EncodeToString(g.r.Bytes(32))
	var qamt uint64 = 8
	for _, q := range w.mintQs {
		if li := env.LN.byHash[q.Hash]; li != nil && li.settled && q.Issued == 0 && q.Key == nil {
			qid, qamt = q.Id, q.Amount
		}
	}
	if qamt > 1<<20 {
		qamt = 8
	}
	ts = append(ts, malTemplate{"mint", "/v1/mint/bolt11", scMintReq, jobj("quote", jstr(qid), "outputs", outsJV(g.outputs(qamt, act)), "signature", jstr(hex.EncodeToString(g.r.Bytes(64))))})
	// swap / melt: unspent proofs if there are any, else a forged one
	ps := g.pick(1 + g.r.Intn(2))
	if len(ps) == 0 {
		sec := env.RandomSecret()
		ps = []ReqProof{{P: cashu.Proof{Amount: 2, Id: act, Secret: sec, C: YOf(sec)}}}
	}
	ps[0].P.Witness = `{"signatures":["` + hex.EncodeToString(g.r.Bytes(64)) + `"]}`
	ps[0].P.DLEQ = &cashu.DLEQProof{E: hex.EncodeToString(g.r.Bytes(32)), S: hex.EncodeToString(g.r.Bytes(32)), R: hex.EncodeToString(g.r.Bytes(32))}
	outs := g.honestSwapOuts(ps)
	if len(outs) > 0 {
		outs[0].BM.Witness = "w"
	}
	ts = append(ts, malTemplate{"swap", "/v1/swap", scSwapReq, jobj("inputs", proofsJV(ps), "outputs", outsJV(outs))})
	inv := "lnbc1" + hex.EncodeToString(g.r.Bytes(8))
	if li, err := env.LN.makeInvoice(uint64(1+g.r.Intn(50))*1000, true); err == nil {
		inv = li.request
	}
	ts = append(ts, malTemplate{"meltquote", "/v1/melt/quote/bolt11", scMeltQuoteReq, jobj("request", jstr(inv), "unit", jstr("sat"), "options", jobj("mpp", jobj("amount", jnum(500))))})
	mid := hex.EncodeToString(g.r.Bytes(32))
	for _, q := range w.meltQs {
		if q.Expect == "UNPAID" {
			mid = q.Id
		}
	}
	ts = append(ts, malTemplate{"melt", "/v1/melt/bolt11", scMeltReq, jobj("quote", jstr(mid), "inputs", proofsJV(ps), "outputs", outsJV(g.outputs(1, act)))})
	ys := jarr(jstr(YOf(env.RandomSecret())))
	for i, hp := range w.proofs {
		if i < 3 {
			ys.A = append(ys.A, jstr(YOf(hp.P.Secret)))
		}
	}
	ts = append(ts, malTemplate{"checkstate", "/v1/checkstate", scCheckReq, jobj("Ys", ys)})
	ro := g.outputs(3, act)
	if len(w.sigOrder) > 0 {
		ro = append(ro, ReqOut{BM: cashu.BlindedMessage{Amount: 1, Id: act, B_: w.sigOrder[g.r.Intn(len(w.sigOrder))]}})
	}
	ts = append(ts, malTemplate{"restore", "/v1/restore", scRestoreReq, jobj("outputs", outsJV(ro))})
	return ts
}

// resync: after a mutant that was ACCEPTED, bring the bookkeeping back in line with storage.
func (w *WSeq) resync() {
	sn := w.snap()
	for _, hp := range w.proofs {
		y := YOf(hp.P.Secret)
		if _, ok := sn.spent[y]; ok && len(hp.ConsumedBy) == 0 {
			hp.ConsumedBy = append(hp.ConsumedBy, "accepted mutant")
		}
		if _, ok := sn.pending[y]; ok {
			hp.LockedBy = 1
		} else {
			hp.LockedBy = 0
		}
	}
	for _, q := range w.mintQs {
		if sn.mintQ[q.Id] == "ISSUED" && q.Issued == 0 {
			q.Issued = 1
		}
	}
	for _, q := range w.meltQs {
		if st := strings.SplitN(sn.meltQ[q.Id], "/", 2)[0]; st != "" {
			q.Expect = st
		}
	}
}

func (g *wgen) malRound(state string, n int) {
	w, c, r := g.w, g.w.c, g.r
	for i := 0; i < n; i++ {
		ts := g.malTemplates()
		t := ts[r.Intn(len(ts))]
		var m mutant
		if r.Chance(22) {
			m = bodyMutant(r, t.Tree, bodyOps[r.Intn(len(bodyOps))])
			if m.Label == "oversized-2MB" && !c.Thorough && r.Chance(80) {
				m = bodyMutant(r, t.Tree, "truncated")
			}
		} else {
			tree := t.Tree.clone()
			lab := mutateTree(r, tree, structuralOps[r.Intn(len(structuralOps))])
			if lab == "" {
				continue
			}
			if r.Chance(25) { // a second mutation on top
				if l2 := mutateTree(r, tree, structuralOps[r.Intn(len(structuralOps))]); l2 != "" {
					lab += "+" + l2
				}
			}
			m = mutant{Label: lab, Body: []byte(tree.Encode(r.Intn(3))), CType: "application/json"}
		}
		class, predicted, _ := decodeClass(m.Body, t.Schema)
		if m.CType != "" && strings.ToLower(strings.Split(m.CType, ";")[0]) != "application/json" {
			class, predicted = "ctype", "Content-Type header is not application/json"
		}
		// allowed UNPAID -> PAID: every quote whose invoice is settled
		allow := map[string]bool{}
		for _, q := range w.mintQs {
			if li := g.env.LN.byHash[q.Hash]; li != nil && li.settled {
				allow[q.Id] = true
			}
		}
		before := w.snap()
		rq := &wreq{Kind: t.Kind, Method: "POST", Target: t.Target, CType: m.CType, Body: m.Body, DecClass: class, PathSym: -1,
			Script: []string{"pending", "pending", "pending"}, Aux: &canonAux{}, Label: m.Label}
		res := w.do(rq)
		if res == nil {
			continue
		}
		mutClass := strings.SplitN(strings.SplitN(m.Label, "+", 2)[0], "@", 2)[0]
		outcome := fmt.Sprintf("%d", res.Status)
		if res.IsErr {
			outcome = fmt.Sprintf("%d %d", res.Status, res.Code)
		}
		if res.Panic != nil {
			outcome = "panic"
		}
		c.Hist("mutation", mutClass+" -> "+outcome)
		c.Hist("state", state)
		c.Case(t.Kind+"|"+mutClass+"|"+state+"|"+outcome, true)
		c.Hist("decode-class", class)
		// monitor C06: refused => nothing changed
		if res.Status >= 400 || res.Panic != nil {
			after := w.snap()
			if d := diffSnap(before, after, allow); d != "" {
				c.MonitorFail("C06", "C06/rejected-changed/"+t.Kind+"/"+strings.SplitN(d, "[", 2)[0],
					fmt.Sprintf("request refused (%s) but state changed: %s; mutation %s", outcome, d, m.Label), w.replay())
			}
		}
		// monitor C20: the refusal class is the one predicted from the bytes
		if res.Panic == nil {
			got := "ok"
			switch {
			case res.Status == 400 && res.Detail == "request body cannot be empty":
				got = "empty"
			case res.Status == 400 && strings.HasPrefix(res.Detail, "bad json at "):
				got = "syntax"
			case res.Status == 400 && strings.HasPrefix(res.Detail, "invalid ") && strings.Contains(res.Detail, " for field "):
				got = "type"
			case res.Status == 400 && res.Detail == "Content-Type header is not application/json":
				got = "ctype"
			case res.Status == 400 && class == "other":
				got = "other"
			}
			if got != class {
				c.MonitorFail("C20", "C20/decode-class/predicted-"+class+"-got-"+got, fmt.Sprintf("body %q (%s): predicted decode class %s, answer %d %q", short(string(m.Body)), m.Label, class, res.Status, res.Detail), w.replay())
			} else if predicted != "" && res.Status == 400 && res.Detail != predicted {
				c.Hist("decode-detail-differs", class)
				if len(c.Res.Notes) < 5 {
					c.Res.Notes = append(c.Res.Notes, fmt.Sprintf("decode detail predicted %q got %q", predicted, res.Detail))
				}
			}
			if (class == "syntax" || class == "type" || class == "empty" || class == "other" || class == "ctype") && (res.Status != 400 || res.Code != 10000) {
				c.MonitorFail("C20", "C20/decode-refusal/"+class+"/"+outcome, "an undecodable body was not answered 400 / 10000", w.replay())
			}
		}
		if res.Status == 200 {
			w.resync()
			c.Hist("accepted-mutation", t.Kind+" "+mutClass)
		}
	}
}

func runWireMalformed(c *Ctx) {
	perState := 230
	rounds := 5
	if c.Thorough {
		perState, rounds = 900, 14
	}
	for round := 0; round < rounds; round++ {
		r := c.Rng
		opts := MintOpts{FeePpk: feeChoices[r.Intn(len(feeChoices))], FeePct: r.Chance(60), MPP: r.Chance(50)}
		w, g, ok := newWireEnv(c, "mal-"+strconv.Itoa(round), opts, false)
		if !ok {
			return
		}
		// state 1: fresh mint
		g.malRound("fresh", perState)
		// state 2: paid quotes (settled, some polled, one NUT-20 locked)
		for i := 0; i < 3; i++ {
			if q, _ := w.WMintQuote(uint64(16+r.Intn(200)), "sat", 0, false, plainT); q != nil {
				w.WSettle(q)
				if i == 0 {
					w.WQuoteState(q.Id, q.Sym, "GET", false)
				}
			}
		}
		if q, _ := w.WMintQuote(32, "sat", 1, false, plainT); q != nil {
			w.WSettle(q)
		}
		g.malRound("paid-quote", perState)
		// state 3: funds + a pending melt
		g.fund(uint64(300 + r.Intn(300)))
		g.fund(uint64(100 + r.Intn(100)))
		if inv := g.extInvoice(uint64(20+r.Intn(40)) * 1000); inv != nil {
			if mq, _ := w.WMeltQuote(inv, "sat", 0, 0, plainT); mq != nil {
				if ps := g.cover(mq.Amount + mq.Reserve + 8); ps != nil {
					w.WMelt(mq, ps, []string{"pending"}, false, plainT)
				}
			}
		}
		if inv := g.extInvoice(uint64(5+r.Intn(10)) * 1000); inv != nil {
			w.WMeltQuote(inv, "sat", 0, 0, plainT) // an unpaid melt quote for the melt templates
		}
		g.malRound("pending-melt", perState)
		// state 4: spent inputs
		for i := 0; i < 3; i++ {
			if ps := g.pick(1 + r.Intn(2)); len(ps) > 0 {
				w.WSwap(ps, g.honestSwapOuts(ps), plainT)
			}
		}
		g.malRound("spent-inputs", perState)
		// state 5: after a keyset rotation (old proofs on an inactive keyset)
		w.WRotate(feeChoices[r.Intn(len(feeChoices))])
		if q, _ := w.WMintQuote(64, "sat", 0, false, plainT); q != nil {
			w.WSettle(q)
		}
		g.malRound("after-rotation", perState)
		if round == 0 {
			c.Sample(map[string]any{"round": 0, "last_ops": w.log[max(0, len(w.log)-4):]})
		}
		w.env.Close()
	}
}

func max(a, b int) int {
	if a > b {
		return a
	}
	return b
}
