package main

func runWireMalformed(c *Ctx) {}
