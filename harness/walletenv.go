package main

// In-process network between real wallets and real mints: http.DefaultTransport is replaced by a
// RoundTripper that serves each request with the target mint's real HTTP handler and records every
// request (method, URL, body) for inspection (C08) and crash control (C19).

import (
	"bytes"
	"errors"
	"io"
	"net/http"
	"net/http/httptest"
	"path/filepath"
	"sync"

	"github.com/elnosh/gonuts/wallet"
)

type WireReq struct {
	Mint   string
	Method string
	Path   string
	Body   []byte
	Status int
	Resp   []byte
}

type Net struct {
	mu    sync.Mutex
	mints map[string]*MintEnv // host -> mint
	Log   []WireReq
	// Hook, when set, is called before a request is served; returning an error makes the transport fail
	// (the wallet sees a network error) — used to cut a wallet off at a chosen call.
	Hook func(r *WireReq) error
	// After, when set, is called after the mint answered and before the wallet sees the answer; returning an
	// error drops the response (the mint executed the request, the wallet never learns the result).
	After func(r *WireReq) error
}

func NewNet() *Net { return &Net{mints: map[string]*MintEnv{}} }

func (n *Net) AddMint(host string, e *MintEnv) string {
	n.mu.Lock()
	n.mints[host] = e
	n.mu.Unlock()
	return "http://" + host
}

func (n *Net) RoundTrip(req *http.Request) (*http.Response, error) {
	n.mu.Lock()
	e := n.mints[req.URL.Host]
	n.mu.Unlock()
	if e == nil {
		return nil, errors.New("verif net: no such mint " + req.URL.Host)
	}
	var body []byte
	if req.Body != nil {
		body, _ = io.ReadAll(req.Body)
		req.Body.Close()
	}
	wr := WireReq{Mint: req.URL.Host, Method: req.Method, Path: req.URL.RequestURI(), Body: body}
	if n.Hook != nil {
		if err := n.Hook(&wr); err != nil {
			return nil, err
		}
	}
	r2 := httptest.NewRequest(req.Method, req.URL.String(), bytes.NewReader(body))
	r2.Header = req.Header.Clone()
	rec := httptest.NewRecorder()
	e.Srv.VerifHandler().ServeHTTP(rec, r2)
	res := rec.Result()
	rb, _ := io.ReadAll(res.Body)
	wr.Status, wr.Resp = res.StatusCode, rb
	n.mu.Lock()
	n.Log = append(n.Log, wr)
	n.mu.Unlock()
	if n.After != nil {
		if err := n.After(&wr); err != nil {
			return nil, err
		}
		// (a hook may rewrite what the wallet gets to see: somebody between wallet and mint)
		rb = wr.Resp
	}
	res.Body = io.NopCloser(bytes.NewReader(rb))
	res.ContentLength = int64(len(rb))
	return res, nil
}

// Install makes every http.Get / http.Post of this process (the wallet's client package uses the
// default client) go through the in-process network.
func (n *Net) Install() { http.DefaultTransport = n }

type WalletEnv struct {
	Dir string
	W   *wallet.Wallet
}

func NewWalletEnv(c *Ctx, name, mintURL string) (*WalletEnv, error) {
	dir := filepath.Join(c.Scratch, name)
	w, err := wallet.LoadWallet(wallet.Config{WalletPath: dir, CurrentMintURL: mintURL})
	if err != nil {
		return nil, err
	}
	return &WalletEnv{Dir: dir, W: w}, nil
}

// Reopen closes the wallet and loads it again from the same directory.
func (we *WalletEnv) Reopen(mintURL string) error {
	we.W.Shutdown()
	w, err := wallet.LoadWallet(wallet.Config{WalletPath: we.Dir, CurrentMintURL: mintURL})
	if err != nil {
		return err
	}
	we.W = w
	return nil
}
