package main

import (
	"errors"
	"fmt"
	"math/bits"
	"sort"
	"strconv"
	"strings"

	"github.com/elnosh/gonuts/cashu"
	"github.com/elnosh/gonuts/wallet"
	"github.com/elnosh/gonuts/wallet/storage"
)

// Stream "select": the wallet's pure coin selection / fee / split code (wallet.selectProofsToSend,
// (w *Wallet).selectProofsForAmount, feesForProofs, feesForCount, the swapToSend split arithmetic,
// splitWalletTarget, calculateBlankOutputs) through the verif-tagged hooks, versus Model.Select.
//
// What is compared (precisely):
//   - selectProofsToSend, blind prediction with the model's stable sorter:
//     tie class 1 (no two proofs of equal amount in different keysets): the ordered list of
//     (amount, keyset) of the selected proofs and the exact error text numbers;
//     tie class 2 (such ties exist, but the tied keysets have the same fee, or includeFees=false): the
//     ordered list of amounts and the error numbers;
//     tie class 3 (ties between keysets of different fee, includeFees=true): nothing blind (Go's unstable
//     sort.Slice decides which keyset's proof goes first and that changes the fees).
//   - selectProofsToSend, oracle replay (all classes, whenever Go returned proofs): the model is run with
//     a sorter that breaks ties between equal amounts in the order Go picked (Model.Select.oracleSorter,
//     proved to be a sorter: permutation, sorted by amount); the ordered list of proof uids must be equal.
//   - selectProofsForAmount (real Wallet around an in-memory store): blind: multiset of (amount, keyset)
//     (class 1), multiset of amounts (class 2); oracle replay: set of uids.
//   - feesForProofs, feesForCount, send split (AmountSplit/feesForCount composed as swapToSend does),
//     splitWalletTarget: exact values; calculateBlankOutputs: exact where the float evaluation is
//     provably the integer function (x < 2^48 or float64(x) a power of two), else model or model-1.
//
// Monitors (model-free): see the signatures "C18/…" below.
func init() {
	register("select", []string{"C18"},
		"random wallets (0..14 [thorough 0..24] proofs, mostly small powers of two so that ties and fee interactions occur, some huge amounts for uint64 wrap-around) over one active keyset and 0..2 inactive keysets with ppk in {0,1,100,250,500,999,1000,2000,2500}, amount in 0..balance+3 (sometimes huge), includeFees on/off; class = (function, tie class, outcome kind, #inactive keysets, includeFees, fee bucket)",
		runSelect)
}

var selPpks = []uint64{0, 1, 100, 250, 500, 999, 1000, 2000, 2500}

type selProof struct {
	amount uint64
	ks     int
	uid    int
}

type selCase struct {
	activePpk uint64
	inact     map[int]uint64 // keyset 2,3 -> ppk
	proofs    []selProof     // keyset 1 = active, 2/3 = inactive, 9 = unknown to the wallet
	amount    uint64
	inc       bool
}

func ksName(ks int) string { return "ks" + strconv.Itoa(ks) }

func (sc *selCase) ppkOf(ks int) uint64 {
	if ks == 1 {
		return sc.activePpk
	}
	if p, ok := sc.inact[ks]; ok {
		return p
	}
	return 0
}

func (sc *selCase) inactMap() map[string]uint {
	m := map[string]uint{}
	for k, p := range sc.inact {
		m[ksName(k)] = uint(p)
	}
	return m
}

func (sc *selCase) mintSx() Sx {
	var ks []int
	for k := range sc.inact {
		ks = append(ks, k)
	}
	sort.Ints(ks)
	var ina []Sx
	for _, k := range ks {
		ina = append(ina, L(I(k), N(sc.inact[k])))
	}
	return L(I(1), N(sc.activePpk), Ls(ina))
}

func proofsSx(ps []selProof) Sx {
	out := make([]Sx, len(ps))
	for i, p := range ps {
		out[i] = L(N(p.amount), I(p.ks), I(p.uid))
	}
	return Ls(out)
}

func toGoProofs(ps []selProof) cashu.Proofs {
	out := make(cashu.Proofs, len(ps))
	for i, p := range ps {
		out[i] = cashu.Proof{Amount: p.amount, Id: ksName(p.ks), Secret: "s" + strconv.Itoa(p.uid)}
	}
	return out
}

func fromGoProofs(ps cashu.Proofs) ([]selProof, bool) {
	out := make([]selProof, len(ps))
	for i, p := range ps {
		uid, err1 := strconv.Atoi(strings.TrimPrefix(p.Secret, "s"))
		ks, err2 := strconv.Atoi(strings.TrimPrefix(p.Id, "ks"))
		if err1 != nil || err2 != nil {
			return nil, false
		}
		out[i] = selProof{p.Amount, ks, uid}
	}
	return out, true
}

// in-memory wallet store: only GetProofsByKeysetId is reached by selectProofsForAmount / splitWalletTarget.
type selMemDB struct {
	storage.WalletDB
	by map[string]cashu.Proofs
}

func (m *selMemDB) GetProofsByKeysetId(id string) cashu.Proofs {
	out := make(cashu.Proofs, len(m.by[id]))
	copy(out, m.by[id])
	return out
}

func filterKs(ps []selProof, keep func(int) bool) []selProof {
	var out []selProof
	for _, p := range ps {
		if keep(p.ks) {
			out = append(out, p)
		}
	}
	return out
}

// ---- exact arithmetic for the monitors (never the repository's helpers) ----

func sumNoWrap(xs []uint64) (uint64, bool) {
	var s, c uint64
	for _, x := range xs {
		var cc uint64
		s, cc = bits.Add64(s, x, 0)
		c |= cc
	}
	return s, c == 0
}

func addNoWrap(a, b uint64) (uint64, bool) {
	s, c := bits.Add64(a, b, 0)
	return s, c == 0
}

// specFee: ceil(sum(ppk)/1000) as NUT-02 defines the input fee; ok=false when the sum does not fit 64 bits.
func specFee(ppks []uint64) (uint64, bool) {
	s, ok := sumNoWrap(ppks)
	if !ok {
		return 0, false
	}
	q, r := s/1000, s%1000
	if r > 0 {
		q++
	}
	return q, true
}

func amountsOf(ps []selProof) []uint64 {
	out := make([]uint64, len(ps))
	for i, p := range ps {
		out[i] = p.amount
	}
	return out
}

func (sc *selCase) ppksOf(ps []selProof) []uint64 {
	out := make([]uint64, len(ps))
	for i, p := range ps {
		out[i] = sc.ppkOf(p.ks)
	}
	return out
}

// tieClass: 1 = no equal amounts in different keysets; 2 = such ties, but same fee (or fees not included);
// 3 = ties between keysets of different fee with includeFees.
func (sc *selCase) tieClass(ps []selProof, inc bool) int {
	by := map[uint64]map[int]bool{}
	for _, p := range ps {
		if by[p.amount] == nil {
			by[p.amount] = map[int]bool{}
		}
		by[p.amount][p.ks] = true
	}
	class := 1
	for _, kss := range by {
		if len(kss) < 2 {
			continue
		}
		if class < 2 {
			class = 2
		}
		if inc {
			first := true
			var f uint64
			for k := range kss {
				if first {
					f, first = sc.ppkOf(k), false
				} else if sc.ppkOf(k) != f {
					class = 3
				}
			}
		}
	}
	return class
}

// ---- canonical rendering of the implementation's outcome, per view ----

func viewProofs(view string, ps []selProof) Sx {
	switch view {
	case "uid":
		out := make([]Sx, len(ps))
		for i, p := range ps {
			out[i] = I(p.uid)
		}
		return Ls(out)
	case "ak":
		out := make([]Sx, len(ps))
		for i, p := range ps {
			out[i] = L(N(p.amount), I(p.ks))
		}
		return Ls(out)
	case "a":
		return Ns(amountsOf(ps))
	case "set":
		ids := make([]int, len(ps))
		for i, p := range ps {
			ids[i] = p.uid
		}
		sort.Ints(ids)
		out := make([]Sx, len(ids))
		for i, u := range ids {
			out[i] = I(u)
		}
		return Ls(out)
	case "akset":
		cp := append([]selProof(nil), ps...)
		sort.SliceStable(cp, func(i, j int) bool {
			if cp[i].ks != cp[j].ks {
				return cp[i].ks < cp[j].ks
			}
			return cp[i].amount < cp[j].amount
		})
		out := make([]Sx, len(cp))
		for i, p := range cp {
			out[i] = L(N(p.amount), I(p.ks))
		}
		return Ls(out)
	case "aset":
		as := amountsOf(ps)
		sort.Slice(as, func(i, j int) bool { return as[i] < as[j] })
		return Ns(as)
	default: // kind
		return L()
	}
}

type selOutcome struct {
	ok     bool
	ps     []selProof
	kind   string // "ok", "err-balance", "err-funds", "err-other", "panic"
	a, f   uint64
	t      uint64
	detail string
}

func (o selOutcome) render(view string) string {
	switch o.kind {
	case "ok":
		return Render(L(A("ok"), viewProofs(view, o.ps)))
	case "err-balance":
		return "(err-balance)"
	case "err-funds":
		if view == "kind" {
			return "(err-funds)"
		}
		return Render(L(A("err-funds"), N(o.a), N(o.f), N(o.t)))
	case "panic":
		return Render(L(A("panic"), S(o.detail)))
	}
	return Render(L(A("err-other"), S(o.detail)))
}

func classifySel(ps cashu.Proofs, err error) selOutcome {
	if err == nil {
		sp, ok := fromGoProofs(ps)
		if !ok {
			return selOutcome{kind: "err-other", detail: "returned a proof the harness did not supply"}
		}
		return selOutcome{ok: true, ps: sp, kind: "ok"}
	}
	if errors.Is(err, wallet.ErrInsufficientMintBalance) {
		return selOutcome{kind: "err-balance"}
	}
	var a, f, t uint64
	if n, _ := fmt.Sscanf(err.Error(), "insufficient funds for transaction. Amount needed %d + %d(fees) = %d", &a, &f, &t); n == 3 {
		return selOutcome{kind: "err-funds", a: a, f: f, t: t}
	}
	return selOutcome{kind: "err-other", detail: err.Error()}
}

func callSelectToSend(sc *selCase, list []selProof, amount uint64, inc bool) (out selOutcome) {
	defer func() {
		if r := recover(); r != nil {
			out = selOutcome{kind: "panic", detail: fmt.Sprint(r)}
		}
	}()
	ps, err := wallet.VerifSelectProofsToSend(toGoProofs(list), amount, ksName(1), uint(sc.activePpk), sc.inactMap(), inc)
	return classifySel(ps, err)
}

func newSelWallet(sc *selCase) *wallet.Wallet {
	by := map[string]cashu.Proofs{}
	for _, p := range sc.proofs {
		by[ksName(p.ks)] = append(by[ksName(p.ks)], toGoProofs([]selProof{p})...)
	}
	return wallet.VerifNewWallet(&selMemDB{by: by}, "verif", ksName(1), uint(sc.activePpk), sc.inactMap())
}

func callSelectForAmount(sc *selCase, amount uint64, inc bool) (out selOutcome) {
	defer func() {
		if r := recover(); r != nil {
			out = selOutcome{kind: "panic", detail: fmt.Sprint(r)}
		}
	}()
	ps, err := newSelWallet(sc).VerifSelectProofsForAmount(amount, "verif", inc)
	return classifySel(ps, err)
}

func oracleSx(ps []selProof) Sx {
	out := []Sx{A("oracle")}
	for _, p := range ps {
		out = append(out, I(p.uid))
	}
	return Ls(out)
}

// ---- generators ----

func genAmount(r *Rng, maxExp int) uint64 {
	switch r.Intn(20) {
	case 0:
		return uint64(r.Intn(40)) // not necessarily a power of two, possibly 0
	case 1:
		return edgeU64(r) // huge / wrap-around material
	default:
		return uint64(1) << uint(r.Intn(maxExp+1))
	}
}

func genSelCase(r *Rng, thorough bool) *selCase {
	sc := &selCase{inact: map[int]uint64{}}
	pick := func() uint64 { return selPpks[r.Intn(len(selPpks))] }
	sc.activePpk = pick()
	nIn := 0
	switch x := r.Intn(100); {
	case x < 40:
		nIn = 0
	case x < 75:
		nIn = 1
	default:
		nIn = 2
	}
	for k := 0; k < nIn; k++ {
		if r.Chance(35) {
			sc.inact[2+k] = sc.activePpk // equal fees: tie class 2 material
		} else {
			sc.inact[2+k] = pick()
		}
	}
	maxN := 14
	if thorough {
		maxN = 24
	}
	n := r.Intn(maxN + 1)
	if r.Chance(30) {
		n = r.Intn(6)
	}
	maxExp := 2 + r.Intn(7)
	huge := r.Chance(4)
	for i := 0; i < n; i++ {
		ks := 1
		if nIn > 0 && r.Chance(45) {
			ks = 2 + r.Intn(nIn)
		}
		if r.Chance(2) {
			ks = 9 // a keyset the wallet's mint entry does not know: feesForProofs adds nothing
		}
		var a uint64
		if huge && r.Chance(40) {
			a = edgeU64(r)
		} else {
			a = genAmount(r, maxExp)
			if a > 1<<40 && !huge {
				a = 1 << uint(r.Intn(maxExp+1))
			}
		}
		sc.proofs = append(sc.proofs, selProof{a, ks, i})
	}
	bal, _ := sumNoWrap(amountsOf(sc.proofs))
	switch x := r.Intn(100); {
	case x < 3:
		sc.amount = 0
	case x < 6:
		sc.amount = edgeU64(r)
	default:
		m := bal + 3
		if m < 3 {
			m = ^uint64(0)
		}
		sc.amount = 1 + r.U64()%m
	}
	sc.inc = r.Bool()
	return sc
}

func feeBucket(ppk uint64) string {
	switch {
	case ppk == 0:
		return "0"
	case ppk < 1000:
		return "<1000"
	case ppk == 1000:
		return "1000"
	}
	return ">1000"
}

// ---- the stream ----

type selPending struct {
	op    Sx
	impl  string
	key   string
	nontr bool
	alt   string // second acceptable answer ("" = none), used by calculateBlankOutputs outside the exact range
}

const (
	sigK6          = "C18/swapToSend/fee-split-popcount"
	sigDiscarded   = "C18/selectProofsForAmount/inactive-selection-discarded"
	sigCeilings    = "C18/selectProofsForAmount/per-call-fee-ceilings"
	sigRefuses     = "C18/select/refuses-affordable"
	sigNotSub      = "C18/select/not-a-sub-multiset"
	sigUnderfunded = "C18/select/underfunded"
	sigFeeFormula  = "C18/fees/not-ceil-ppk-sum"
	sigSplit       = "C18/split/sum-or-shape"
)

func runSelect(c *Ctx) {
	n := 20000
	if c.Thorough {
		n = 250000
	}
	props := []string{"C18"}

	selWitnesses(c)

	var pend []selPending
	flush := func() {
		if len(pend) == 0 {
			return
		}
		ops := make([]Sx, len(pend))
		for i, p := range pend {
			ops[i] = p.op
		}
		models := c.Drv.Batch(ops)
		for i, p := range pend {
			c.Case(p.key, p.nontr)
			c.Hist("class", p.key)
			if c.Res.Evaluations%4001 == 1 {
				c.Sample(map[string]string{"op": Render(p.op), "impl": p.impl, "model": models[i]})
			}
			if p.alt != "" && models[i] == p.alt {
				c.Hist("blank", "go-float-one-below-exact")
			} else if p.alt != "" && models[i] == p.impl {
				c.Hist("blank", "uncertain-but-equal")
			}
			if models[i] != p.impl && (p.alt == "" || models[i] != p.alt) {
				c.Disagree(props, Render(p.op), p.impl, models[i], map[string]any{"seed": c.Seed, "tier": c.Tier})
			}
		}
		pend = pend[:0]
	}
	add := func(op Sx, impl, key string, nontr bool) {
		pend = append(pend, selPending{op: op, impl: impl, key: key, nontr: nontr})
	}

	for i := 0; i < n; i++ {
		r := c.Rng
		sc := genSelCase(r, c.Thorough)
		replay := map[string]any{"seed": c.Seed, "case": i, "mint": Render(sc.mintSx()), "proofs": Render(proofsSx(sc.proofs)),
			"amount": sc.amount, "includeFees": sc.inc}

		// ---- A. selectProofsToSend on one list
		var list []selProof
		switch x := r.Intn(4); x {
		case 0:
			list = filterKs(sc.proofs, func(k int) bool { return k == 1 })
		case 1:
			list = filterKs(sc.proofs, func(k int) bool { return k != 1 })
		default:
			list = sc.proofs
		}
		// amount for this call: relative to the value of the list it is called on (so that refusals are mostly
		// the interesting near-the-limit ones), sometimes the case's amount
		amtA := sc.amount
		if r.Chance(75) {
			lb, _ := sumNoWrap(amountsOf(list))
			mm := lb + 3
			if mm < 3 {
				mm = ^uint64(0)
			}
			amtA = 1 + r.U64()%mm
		}
		selectToSendCase(c, sc, list, amtA, replay, add)

		// ---- B. selectProofsForAmount through a real Wallet
		selectForAmountCase(c, sc, replay, add)

		// ---- B2. getProofsForAmount / swapToSend up to the swap request, recomposed from the real pieces
		getProofsForAmountCase(c, sc, replay, add)

		// ---- C. fees
		{
			got := uint64(wallet.VerifFeesForProofs(toGoProofs(sc.proofs), ksName(1), uint(sc.activePpk), sc.inactMap()))
			add(L(A("select.fees-proofs"), sc.mintSx(), proofsSx(sc.proofs)), Render(N(got)),
				fmt.Sprintf("feesForProofs/n%d", bucketN(len(sc.proofs))), len(sc.proofs) > 0)
			if want, ok := specFee(sc.ppksOf(sc.proofs)); ok && want != got {
				c.MonitorFail("C18", sigFeeFormula, fmt.Sprintf("feesForProofs = %d, ceil(sum ppk/1000) = %d", got, want), replay)
			}
			count := r.Intn(70)
			ppk := selPpks[r.Intn(len(selPpks))]
			if r.Chance(5) {
				ppk = edgeU64(r)
				count = r.Intn(5)
			}
			gotc := uint64(wallet.VerifFeesForCount(count, uint(ppk)))
			add(L(A("select.fees-count"), I(count), N(ppk)), Render(N(gotc)), "feesForCount/"+feeBucket(ppk), count > 0)
			hi, lo := bits.Mul64(uint64(count), ppk)
			if hi == 0 && lo < ^uint64(0)-999 {
				if want := (lo + 999) / 1000; want != gotc {
					c.MonitorFail("C18", sigFeeFormula, fmt.Sprintf("feesForCount(%d,%d) = %d, ceil = %d", count, ppk, gotc, want), replay)
				}
			}
		}

		// ---- D. the send split of swapToSend, composed from the real helpers exactly as swapToSend composes them
		sendSplitCase(c, sc.activePpk, sc.amount, sc.inc, replay, add, false)

		// ---- E. splitWalletTarget through a real (zero) Wallet whose store returns the case's proofs
		if i%2 == 0 {
			splitTargetCase(c, sc, replay, add)
		}

		// ---- F. calculateBlankOutputs
		if i%2 == 1 {
			x := blankInput(r)
			got := wallet.VerifCalculateBlankOutputs(x)
			cert := blankCertain(x)
			// the model answers (exact integer value, certain?); where the float evaluation is not provably the
			// integer function Go may be one below the exact value (math.Log2 rounds down to the integer)
			p := selPending{op: L(A("select.blank"), N(x)), key: fmt.Sprintf("blank/%d/certain=%v", got, cert), nontr: true,
				impl: Render(L(I(got), B(cert)))}
			if !cert {
				p.alt = Render(L(I(got+1), B(false)))
			}
			pend = append(pend, p)
		}
		if len(pend) > 20000 {
			flush()
		}
	}
	flush()
}

func bucketN(n int) int {
	switch {
	case n == 0:
		return 0
	case n <= 2:
		return 2
	case n <= 6:
		return 6
	case n <= 14:
		return 14
	}
	return 24
}

// blankCertain mirrors Model.Select.blankOutputsCertain (x < 2^48 or float64(x) is a power of two).
func blankCertain(x uint64) bool {
	if x < 1<<48 {
		return true
	}
	f := float64(x)
	for k := 0; k <= 64; k++ {
		if f == pow2f(k) {
			return true
		}
	}
	return false
}

func pow2f(k int) float64 {
	f := 1.0
	for i := 0; i < k; i++ {
		f *= 2
	}
	return f
}

func blankInput(r *Rng) uint64 {
	switch r.Intn(6) {
	case 0:
		return uint64(r.Intn(130))
	case 1, 2:
		k := uint(r.Intn(64))
		d := uint64(r.Intn(3))
		return (uint64(1) << k) + d - 1 // 2^k - 1, 2^k, 2^k + 1 for every k ≤ 63
	case 3:
		k := uint(r.Intn(64))
		return (uint64(1) << k) + r.U64()%(uint64(1)<<k)
	default:
		return edgeU64(r)
	}
}

func selectToSendCase(c *Ctx, sc *selCase, list []selProof, amount uint64, replay map[string]any, add func(Sx, string, string, bool)) {
	out := callSelectToSend(sc, list, amount, sc.inc)
	class := sc.tieClass(list, sc.inc)
	key := fmt.Sprintf("toSend/tie%d/%s/inc=%v/ppk%s/n%d", class, out.kind, sc.inc, feeBucket(sc.activePpk), bucketN(len(list)))
	args := func(srt Sx, view string) Sx {
		return L(A("select.send"), srt, A(view), sc.mintSx(), proofsSx(list), N(amount), B(sc.inc))
	}
	view := map[int]string{1: "ak", 2: "a"}[class]
	if out.kind == "panic" || out.kind == "err-other" {
		add(args(A("stable"), "kind"), out.render("kind"), key, true)
	} else if class < 3 {
		add(args(A("stable"), view), out.render(view), key+"/blind", len(list) > 0)
	} else {
		c.Hist("unchecked-blind", "toSend/tie3/"+out.kind)
	}
	if out.ok {
		add(args(oracleSx(out.ps), "uid"), out.render("uid"), key+"/oracle", len(out.ps) > 1)
	}
	rp := map[string]any{"amountToSend": amount}
	for k, v := range replay {
		rp[k] = v
	}
	selMonitors(c, sc, "selectProofsToSend", list, amount, sc.inc, out, rp, "")
}

func selectForAmountCase(c *Ctx, sc *selCase, replay map[string]any, add func(Sx, string, string, bool)) {
	inactive := filterKs(sc.proofs, func(k int) bool { _, ok := sc.inact[k]; return ok })
	active := filterKs(sc.proofs, func(k int) bool { return k == 1 })
	held := append(append([]selProof(nil), inactive...), active...)
	out := callSelectForAmount(sc, sc.amount, sc.inc)
	class := sc.tieClass(inactive, sc.inc)
	key := fmt.Sprintf("forAmount/tie%d/%s/inc=%v/in%d/ppk%s", class, out.kind, sc.inc, len(sc.inact), feeBucket(sc.activePpk))
	args := func(srt Sx, view string) Sx {
		return L(A("select.spfa"), srt, A(view), sc.mintSx(), proofsSx(inactive), proofsSx(active), N(sc.amount), B(sc.inc))
	}
	view := map[int]string{1: "akset", 2: "aset"}[class]
	if out.kind == "panic" || out.kind == "err-other" {
		add(args(A("stable"), "kind"), out.render("kind"), key, true)
	} else if class < 3 {
		add(args(A("stable"), view), out.render(view), key+"/blind", len(held) > 0)
	} else {
		c.Hist("unchecked-blind", "forAmount/tie3/"+out.kind)
	}
	if out.ok {
		// The oracle is the order of the proofs Go returned. When Go's inner selection over the inactive proofs
		// failed (its error is dropped, no inactive proof is returned) the tie-breaking of that failed call is
		// not observable; in tie class 3 it decides whether the inner call fails at all, so no replay then.
		hasInactive := false
		for _, p := range out.ps {
			if p.ks != 1 {
				hasInactive = true
			}
		}
		if class < 3 || hasInactive || len(inactive) == 0 {
			add(args(oracleSx(out.ps), "set"), out.render("set"), key+"/oracle", len(out.ps) > 1)
		} else {
			c.Hist("unchecked-oracle", "forAmount/tie3/inner-selection-dropped")
		}
	}
	// shape of a refusal, from inputs and outcome only
	shape := ""
	if !out.ok {
		sI, okI := sumNoWrap(amountsOf(inactive))
		switch {
		case len(inactive) == 0:
			shape = ""
		case okI && sI >= sc.amount:
			shape = sigDiscarded // the inner selection over the inactive proofs was made and its error dropped
		case okI:
			shape = sigCeilings // every inactive proof was taken, the active call then needs its own rounded-up fee
		}
	}
	selMonitors(c, sc, "selectProofsForAmount", held, sc.amount, sc.inc, out, replay, shape)
}

// getProofsForAmountCase recomposes, from the REAL functions, what getProofsForAmount and swapToSend compute before
// the swap request goes out (Tie.Select pins the statements copied here):
//
//	selectedProofs, err := w.selectProofsForAmount(amount, mint, includeFees)
//	fees = uint64(feesForProofs(selectedProofs, mint)) (if includeFees); totalAmount := amount + fees
//	if selectedProofs.Amount() == totalAmount { return selectedProofs }           -> (offline …)
//	swapToSend: send split, amount += feesToReceive, proofsToSwap := w.selectProofsForAmount(amount, mint, true),
//	proofsAmount, fees, changeAmount := proofsAmount - amount - uint64(fees), changeSplit := w.splitWalletTarget(…)
//
// and compares it with the model's getProofsForAmount (blind, tie classes 1 and 2 only: two selections with
// independent tie-breaking are involved).  Monitors: the offline proofs are worth exactly amount + the mint's
// fee for them; a swap request is balanced: inputs = send + change + the mint's fee for the inputs.
func getProofsForAmountCase(c *Ctx, sc *selCase, replay map[string]any, add func(Sx, string, string, bool)) {
	inactive := filterKs(sc.proofs, func(k int) bool { _, ok := sc.inact[k]; return ok })
	active := filterKs(sc.proofs, func(k int) bool { return k == 1 })
	held := append(append([]selProof(nil), inactive...), active...)
	class := sc.tieClass(inactive, true)
	if class == 3 {
		c.Hist("unchecked-blind", "getProofsForAmount/tie3")
		return
	}
	view := map[int]string{1: "akset", 2: "aset"}[class]
	var impl string
	kind := ""
	func() {
		defer func() {
			if r := recover(); r != nil {
				impl, kind = Render(L(A("panic"), S(fmt.Sprint(r)))), "panic"
			}
		}()
		first := callSelectForAmount(sc, sc.amount, sc.inc)
		if !first.ok {
			impl, kind = first.render(view), first.kind
			return
		}
		var fees uint64
		if sc.inc {
			fees = uint64(wallet.VerifFeesForProofs(toGoProofs(first.ps), ksName(1), uint(sc.activePpk), sc.inactMap()))
		}
		if toGoProofs(first.ps).Amount() == sc.amount+fees {
			impl, kind = Render(L(A("offline"), viewProofs(view, first.ps))), "offline"
			// monitor: exactly amount + the fee the mint charges for those very proofs
			if got, ok := sumNoWrap(amountsOf(first.ps)); ok {
				var fee uint64
				if sc.inc {
					fee, _ = specFee(sc.ppksOf(first.ps))
				}
				if need, ok2 := addNoWrap(sc.amount, fee); ok2 && got != need {
					c.MonitorFail("C18", "C18/getProofsForAmount/offline-not-exact",
						fmt.Sprintf("offline selection worth %d handed over for amount %d + fee %d", got, sc.amount, fee), replay)
				}
			}
			return
		}
		ftr, amount2, split := realSendSplit(sc.activePpk, sc.amount, sc.inc)
		second := callSelectForAmount(sc, amount2, true)
		if !second.ok {
			impl, kind = second.render(view), "swap-"+second.kind
			return
		}
		inputs := toGoProofs(second.ps)
		pa := inputs.Amount()
		f := uint64(wallet.VerifFeesForProofs(inputs, ksName(1), uint(sc.activePpk), sc.inactMap()))
		changeAmount := pa - amount2 - f
		var change []uint64
		if changeAmount > 0 {
			if changeAmount > 1<<62 {
				// only reachable through uint64 wrap-around; the split of such an amount is compared in part E
				impl, kind = "", "skip"
				return
			}
			change = newSelWallet(sc).VerifSplitWalletTarget(changeAmount, "verif")
		}
		impl = Render(L(A("swap"), N(amount2), N(ftr), viewProofs(view, second.ps), Ns(split), N(pa), N(f), N(changeAmount), Ns(change)))
		kind = "swap"
		// monitor: balanced swap request (exact arithmetic, independent fee evaluator)
		S, ok1 := sumNoWrap(amountsOf(second.ps))
		fee, ok2 := specFee(sc.ppksOf(second.ps))
		snd, ok3 := sumNoWrap(split)
		chg, ok4 := sumNoWrap(change)
		if ok1 && ok2 && ok3 && ok4 {
			t1, o1 := addNoWrap(snd, chg)
			t2, o2 := addNoWrap(t1, fee)
			if o1 && o2 && t2 != S {
				c.MonitorFail("C18", "C18/swapToSend/unbalanced-swap",
					fmt.Sprintf("swap inputs worth %d, send %d + change %d + mint fee %d", S, snd, chg, fee), replay)
			}
		}
	}()
	if kind == "skip" {
		return
	}
	key := fmt.Sprintf("getProofsForAmount/tie%d/%s/inc=%v/in%d/ppk%s", class, kind, sc.inc, len(sc.inact), feeBucket(sc.activePpk))
	add(L(A("select.gpfa"), A("stable"), A(view), sc.mintSx(), proofsSx(inactive), proofsSx(active), N(sc.amount), B(sc.inc)),
		impl, key, len(held) > 0)
}

// selMonitors: model-free statements of C18 over one selection outcome.
//   - a successful selection is a sub-multiset of the holdings (no proof twice, none invented);
//   - its value covers amount + ceil(sum ppk(selected)/1000) when fees are included, amount otherwise;
//   - a selection of no more than (holdings - fee of spending every proof held) is not refused.
//
// All three are evaluated in exact arithmetic and only when no 64-bit sum involved wraps.
func selMonitors(c *Ctx, sc *selCase, fn string, held []selProof, amount uint64, inc bool, out selOutcome,
	replay map[string]any, refusalShape string) {
	rp := map[string]any{"fn": fn, "held": Render(proofsSx(held)), "outcome": out.render("uid")}
	for k, v := range replay {
		rp[k] = v
	}
	S, ok1 := sumNoWrap(amountsOf(held))
	Fall, ok2 := specFee(sc.ppksOf(held))
	_, ok3 := addNoWrap(S, Fall)
	if !inc {
		Fall = 0
	}
	need, ok4 := addNoWrap(amount, Fall)
	if !(ok1 && ok2 && ok3 && ok4) {
		c.Hist("monitor", fn+"/wrap-excluded")
		return
	}
	if out.ok {
		byUid := map[int]selProof{}
		for _, p := range held {
			byUid[p.uid] = p
		}
		seen := map[int]bool{}
		for _, p := range out.ps {
			h, ok := byUid[p.uid]
			if !ok || seen[p.uid] || h != p {
				c.MonitorFail("C18", sigNotSub, fn+" returned a proof that is not held or returned it twice", rp)
				return
			}
			seen[p.uid] = true
		}
		got, _ := sumNoWrap(amountsOf(out.ps))
		var fee uint64
		if inc {
			fee, _ = specFee(sc.ppksOf(out.ps))
		}
		if got < amount+fee {
			c.MonitorFail("C18", sigUnderfunded,
				fmt.Sprintf("%s returned proofs worth %d for amount %d + fee %d", fn, got, amount, fee), rp)
		}
		c.Hist("monitor", fn+"/sound")
		if got == amount+fee {
			c.Hist("monitor", fn+"/exact")
		}
		return
	}
	if out.kind == "panic" {
		return
	}
	if need <= S {
		sig := sigRefuses
		if refusalShape != "" {
			sig = refusalShape
		}
		c.MonitorFail("C18", sig,
			fmt.Sprintf("%s refuses amount %d (includeFees=%v) although holdings %d - fee of spending every proof held %d = %d cover it: %s",
				fn, amount, inc, S, Fall, S-Fall, out.render("uid")), rp)
		c.Hist("monitor", fn+"/refused-affordable")
		return
	}
	c.Hist("monitor", fn+"/refused-unaffordable")
}

// realSendSplit composes the real helpers the way swapToSend does (Tie.Select pins the source text):
//
//	splitForSendAmount := cashu.AmountSplit(amount)
//	feesToReceive = feesForCount(len(splitForSendAmount)+1, activeSatKeyset); amount += uint64(feesToReceive)
//	split := append(splitForSendAmount, cashu.AmountSplit(uint64(feesToReceive))...); slices.Sort(split)
func realSendSplit(ppk, amount uint64, inc bool) (fees, amount2 uint64, split []uint64) {
	splitForSend := cashu.AmountSplit(amount)
	if inc {
		fees = uint64(wallet.VerifFeesForCount(len(splitForSend)+1, uint(ppk)))
	}
	amount2 = amount + fees
	split = append(append([]uint64(nil), splitForSend...), cashu.AmountSplit(fees)...)
	sort.Slice(split, func(i, j int) bool { return split[i] < split[j] })
	return
}

func sendSplitCase(c *Ctx, ppk, amount uint64, inc bool, replay map[string]any, add func(Sx, string, string, bool), witness bool) bool {
	fees, amount2, split := realSendSplit(ppk, amount, inc)
	if add != nil {
		add(L(A("select.send-split"), N(ppk), N(amount), B(inc)), Render(L(N(fees), N(amount2), Ns(split))),
			fmt.Sprintf("sendSplit/inc=%v/ppk%s/len%d", inc, feeBucket(ppk), len(split)), amount > 0)
	}
	rp := map[string]any{"ppk": ppk, "amount": amount, "includeFees": inc, "feesToReceive": fees, "split": split}
	for k, v := range replay {
		rp[k] = v
	}
	// AmountSplit shape: distinct ascending powers of two, popcount many, summing to the input
	for _, a := range []uint64{amount, fees} {
		sp := cashu.AmountSplit(a)
		sum, ok := sumNoWrap(sp)
		bad := !ok || sum != a || len(sp) != bits.OnesCount64(a)
		for j, x := range sp {
			if bits.OnesCount64(x) != 1 || (j > 0 && sp[j-1] >= x) {
				bad = true
			}
		}
		if bad {
			c.MonitorFail("C18", sigSplit, fmt.Sprintf("AmountSplit(%d) = %v", a, sp), rp)
		}
	}
	handed, ok := sumNoWrap(split)
	if !ok {
		return false
	}
	if !inc {
		if handed != amount {
			c.MonitorFail("C18", sigSplit, fmt.Sprintf("send split %v is worth %d, requested %d (no fees)", split, handed, amount), rp)
		}
		return false
	}
	// with fees: the proofs handed over (all of the active keyset) must be worth amount + the mint's fee for them
	hi, lo := bits.Mul64(uint64(len(split)), ppk)
	if hi != 0 || lo > ^uint64(0)-999 {
		return false
	}
	mintFee := (lo + 999) / 1000
	if need, ok := addNoWrap(amount, mintFee); ok && handed != need {
		what := fmt.Sprintf("swapToSend(amount=%d, includeFees, ppk=%d): fee estimate feesForCount(%d+1)=%d is split into %d proofs; %d proofs worth %d are handed over, the mint charges %d to redeem them, recipient nets %d instead of %d",
			amount, ppk, bits.OnesCount64(amount), fees, bits.OnesCount64(fees), len(split), handed, mintFee, int64(handed)-int64(mintFee), amount)
		if witness {
			c.KnownWitness("C18", sigK6, what, rp)
		} else {
			c.MonitorFail("C18", sigK6, what, rp)
		}
		c.Hist("monitor", "sendSplit/fee-not-exact")
		return true
	}
	c.Hist("monitor", "sendSplit/fee-exact")
	return false
}

func splitTargetCase(c *Ctx, sc *selCase, replay map[string]any, add func(Sx, string, string, bool)) {
	r := c.Rng
	bal, _ := sumNoWrap(amountsOf(sc.proofs))
	var amt uint64
	switch x := r.Intn(20); {
	case x == 0:
		amt = 0
	case x == 1:
		amt = edgeU64(r)
	case x < 6:
		amt = r.U64() % (uint64(1) << uint(1+r.Intn(62)))
	default:
		m := 2*bal + 70
		if bal > 1<<62 {
			m = ^uint64(0)
		}
		amt = r.U64() % m
	}
	// a zero Wallet has no mint entry: getProofsFromMint then reads the active keyset id "" from the store
	w := &wallet.Wallet{}
	gp := toGoProofs(sc.proofs)
	w.VerifWrapDB(func(storage.WalletDB) storage.WalletDB { return &selMemDB{by: map[string]cashu.Proofs{"": gp}} })
	var got []uint64
	var pmsg string
	func() {
		defer func() {
			if rr := recover(); rr != nil {
				pmsg = fmt.Sprint(rr)
			}
		}()
		got = w.VerifSplitWalletTarget(amt, "verif")
	}()
	impl := Render(Ns(got))
	if pmsg != "" {
		impl = Render(L(A("panic"), S(pmsg)))
	}
	add(L(A("select.split-target"), Ns(amountsOf(sc.proofs)), N(amt)), impl,
		fmt.Sprintf("splitTarget/n%d/len%d", bucketN(len(sc.proofs)), len(got)), amt > 0)
	if pmsg == "" {
		sum, ok := sumNoWrap(got)
		bad := !ok || sum != amt
		for j, x := range got {
			if bits.OnesCount64(x) != 1 || (j > 0 && got[j-1] > x) {
				bad = true
			}
		}
		if bad {
			rp := map[string]any{"wallet": amountsOf(sc.proofs), "amountToSplit": amt, "got": got}
			for k, v := range replay {
				rp[k] = v
			}
			c.MonitorFail("C18", sigSplit, fmt.Sprintf("splitWalletTarget(%d) = %v: not sorted powers of two summing to the amount", amt, got), rp)
		}
	}
}

// selWitnesses replays, on every run, the recorded witnesses of the known C18 findings through the real code.
func selWitnesses(c *Ctx) {
	// K6: ppk 1000, amount 3, includeFees
	if !sendSplitCase(c, 1000, 3, true, map[string]any{"witness": "K6"}, nil, true) {
		c.Res.Notes = append(c.Res.Notes, "K6 witness (ppk 1000, amount 3) no longer fails")
	}
	type wit struct {
		sig     string
		sc      *selCase
		affords string
	}
	wits := []wit{
		{sigDiscarded, &selCase{activePpk: 1000, inact: map[int]uint64{2: 1000},
			proofs: []selProof{{4, 2, 0}, {4, 2, 1}, {2, 1, 2}}, amount: 7, inc: true},
			"holdings 10, fee of spending all three proofs 3, amount 7 <= 10 - 3 (inputs [4,4,2] -> outputs worth 7 is a valid swap)"},
		{sigCeilings, &selCase{activePpk: 500, inact: map[int]uint64{2: 500},
			proofs: []selProof{{1, 2, 0}, {2, 1, 1}}, amount: 2, inc: true},
			"holdings 3, fee of spending both proofs ceil(1000/1000) = 1, amount 2 <= 3 - 1"},
	}
	for _, w := range wits {
		out := callSelectForAmount(w.sc, w.sc.amount, w.sc.inc)
		rp := map[string]any{"witness": w.sig, "mint": Render(w.sc.mintSx()), "proofs": Render(proofsSx(w.sc.proofs)),
			"amount": w.sc.amount, "includeFees": w.sc.inc, "outcome": out.render("uid")}
		if !out.ok {
			c.KnownWitness("C18", w.sig, fmt.Sprintf("selectProofsForAmount(%d, includeFees=true) as swapToSend calls it refuses (%s) although %s",
				w.sc.amount, out.render("uid"), w.affords), rp)
		} else {
			c.Res.Notes = append(c.Res.Notes, "witness "+w.sig+" no longer fails")
		}
	}
}
