package main

// The harness's OWN JSON: an ordered value tree, an encoder with controllable insignificant whitespace, a
// parser that keeps field order (built on encoding/json's tokenizer — standard library, not repository code),
// and hand-written request builders.  No request or response type of the repository is used on this path.

import (
	"bytes"
	"encoding/json"
	"fmt"
	"io"
	"sort"
	"strconv"
	"strings"
)

type JV struct {
	K byte // 'o' object, 'a' array, 's' string, 'n' number (literal text in S), 'b' bool, 'z' null, 'r' raw text injected verbatim
	S string
	B bool
	A []*JV
	O []JKV
}

type JKV struct {
	Key string
	V   *JV
}

func jstr(s string) *JV  { return &JV{K: 's', S: s} }
func jnum(n uint64) *JV  { return &JV{K: 'n', S: strconv.FormatUint(n, 10)} }
func jlit(s string) *JV  { return &JV{K: 'n', S: s} }
func jraw(s string) *JV  { return &JV{K: 'r', S: s} }
func jbool(b bool) *JV   { return &JV{K: 'b', B: b} }
func jnull() *JV         { return &JV{K: 'z'} }
func jarr(xs ...*JV) *JV { return &JV{K: 'a', A: xs} }
func jobj(kvs ...any) *JV {
	o := &JV{K: 'o'}
	for i := 0; i+1 < len(kvs); i += 2 {
		o.O = append(o.O, JKV{kvs[i].(string), kvs[i+1].(*JV)})
	}
	return o
}

func (v *JV) get(k string) *JV {
	if v == nil || v.K != 'o' {
		return nil
	}
	for _, kv := range v.O {
		if kv.Key == k {
			return kv.V
		}
	}
	return nil
}

func (v *JV) clone() *JV {
	if v == nil {
		return nil
	}
	c := &JV{K: v.K, S: v.S, B: v.B}
	for _, x := range v.A {
		c.A = append(c.A, x.clone())
	}
	for _, kv := range v.O {
		c.O = append(c.O, JKV{kv.Key, kv.V.clone()})
	}
	return c
}

// jsonString: JSON string literal, own escaping (control characters, quote, backslash; everything else verbatim UTF-8).
func jsonString(s string) string {
	var sb strings.Builder
	sb.WriteByte('"')
	for _, c := range s {
		switch {
		case c == '"':
			sb.WriteString(`\"`)
		case c == '\\':
			sb.WriteString(`\\`)
		case c == '\n':
			sb.WriteString(`\n`)
		case c == '\r':
			sb.WriteString(`\r`)
		case c == '\t':
			sb.WriteString(`\t`)
		case c < 0x20:
			fmt.Fprintf(&sb, `\u%04x`, c)
		default:
			sb.WriteRune(c)
		}
	}
	sb.WriteByte('"')
	return sb.String()
}

// Encode renders the tree. ws: 0 compact, 1 a space after ':' and ',', 2 newlines + indentation.
func (v *JV) Encode(ws int) string {
	var sb strings.Builder
	v.enc(&sb, ws, 0)
	return sb.String()
}

func (v *JV) enc(sb *strings.Builder, ws, depth int) {
	nl := func(d int) {
		if ws == 2 {
			sb.WriteByte('\n')
			sb.WriteString(strings.Repeat(" ", d))
		}
	}
	sep := func() {
		sb.WriteByte(',')
		if ws == 1 {
			sb.WriteByte(' ')
		}
	}
	switch v.K {
	case 'o':
		sb.WriteByte('{')
		for i, kv := range v.O {
			if i > 0 {
				sep()
			}
			nl(depth + 1)
			sb.WriteString(jsonString(kv.Key))
			sb.WriteByte(':')
			if ws > 0 {
				sb.WriteByte(' ')
			}
			kv.V.enc(sb, ws, depth+1)
		}
		if len(v.O) > 0 {
			nl(depth)
		}
		sb.WriteByte('}')
	case 'a':
		sb.WriteByte('[')
		for i, x := range v.A {
			if i > 0 {
				sep()
			}
			nl(depth + 1)
			x.enc(sb, ws, depth+1)
		}
		if len(v.A) > 0 {
			nl(depth)
		}
		sb.WriteByte(']')
	case 's':
		sb.WriteString(jsonString(v.S))
	case 'n', 'r':
		sb.WriteString(v.S)
	case 'b':
		sb.WriteString(strconv.FormatBool(v.B))
	default:
		sb.WriteString("null")
	}
}

// parseJV parses exactly one JSON document (nothing but whitespace may follow), keeping field order.
func parseJV(data []byte) (*JV, error) {
	dec := json.NewDecoder(bytes.NewReader(data))
	dec.UseNumber()
	v, err := parseTok(dec)
	if err != nil {
		return nil, err
	}
	if _, err := dec.Token(); err != io.EOF {
		return nil, fmt.Errorf("trailing data after the JSON document")
	}
	return v, nil
}

func parseTok(dec *json.Decoder) (*JV, error) {
	t, err := dec.Token()
	if err != nil {
		return nil, err
	}
	switch x := t.(type) {
	case json.Delim:
		switch x {
		case '{':
			o := &JV{K: 'o'}
			for dec.More() {
				kt, err := dec.Token()
				if err != nil {
					return nil, err
				}
				k, ok := kt.(string)
				if !ok {
					return nil, fmt.Errorf("object key is not a string")
				}
				v, err := parseTok(dec)
				if err != nil {
					return nil, err
				}
				o.O = append(o.O, JKV{k, v})
			}
			if _, err := dec.Token(); err != nil {
				return nil, err
			}
			return o, nil
		case '[':
			a := &JV{K: 'a'}
			for dec.More() {
				v, err := parseTok(dec)
				if err != nil {
					return nil, err
				}
				a.A = append(a.A, v)
			}
			if _, err := dec.Token(); err != nil {
				return nil, err
			}
			return a, nil
		}
		return nil, fmt.Errorf("unexpected delimiter %v", x)
	case string:
		return jstr(x), nil
	case json.Number:
		return jlit(string(x)), nil
	case bool:
		return jbool(x), nil
	case nil:
		return jnull(), nil
	}
	return nil, fmt.Errorf("unexpected token %v", t)
}

// canonString: the model's rendering of a string (Model.Wire.quoteStr): only quote and backslash are escaped.
func canonString(s string) string {
	var sb strings.Builder
	sb.WriteByte('"')
	for _, c := range s {
		switch c {
		case '"':
			sb.WriteString(`\"`)
		case '\\':
			sb.WriteString(`\\`)
		default:
			sb.WriteRune(c)
		}
	}
	sb.WriteByte('"')
	return sb.String()
}

// canonPrint: Model.Wire.Json.render.
func canonPrint(v *JV) string {
	var sb strings.Builder
	var rec func(v *JV)
	rec = func(v *JV) {
		switch v.K {
		case 'o':
			sb.WriteByte('{')
			for i, kv := range v.O {
				if i > 0 {
					sb.WriteByte(',')
				}
				sb.WriteString(canonString(kv.Key))
				sb.WriteByte(':')
				rec(kv.V)
			}
			sb.WriteByte('}')
		case 'a':
			sb.WriteByte('[')
			for i, x := range v.A {
				if i > 0 {
					sb.WriteByte(',')
				}
				rec(x)
			}
			sb.WriteByte(']')
		case 's':
			sb.WriteString(canonString(v.S))
		case 'n', 'r':
			sb.WriteString(v.S)
		case 'b':
			sb.WriteString(strconv.FormatBool(v.B))
		default:
			sb.WriteString("null")
		}
	}
	rec(v)
	return sb.String()
}

// ---------------------------------------------------------------- classification of a body by the Go decoder's rules

// bodyClass tells how encoding/json's stream decoder treats the FIRST value of body (standard library only):
// "empty" (io.EOF), "syntax" (*json.SyntaxError), "other" (io.ErrUnexpectedEOF …) or "value".
func bodyClass(body []byte) (string, *JV, int64) {
	dec := json.NewDecoder(bytes.NewReader(body))
	dec.UseNumber()
	var raw json.RawMessage
	err := dec.Decode(&raw)
	if err == nil {
		v, perr := parseJV(raw)
		if perr != nil {
			return "other", nil, 0
		}
		return "value", v, 0
	}
	if err == io.EOF {
		return "empty", nil, 0
	}
	if se, ok := err.(*json.SyntaxError); ok {
		return "syntax", nil, se.Offset
	}
	return "other", nil, 0
}

// schema of a request type, written from the NUTs (field name -> kind). kinds: u64, str, obj, arr, map, ptr (nullable object)
type schema struct {
	kind   string
	fields []schemaField
	elem   *schema
}
type schemaField struct {
	name string
	s    *schema
}

var (
	scU64   = &schema{kind: "u64"}
	scStr   = &schema{kind: "str"}
	scDleq  = &schema{kind: "obj", fields: []schemaField{{"e", scStr}, {"s", scStr}, {"r", scStr}}}
	scProof = &schema{kind: "obj", fields: []schemaField{{"amount", scU64}, {"id", scStr}, {"secret", scStr}, {"C", scStr}, {"witness", scStr}, {"dleq", scDleq}}}
	scBM    = &schema{kind: "obj", fields: []schemaField{{"amount", scU64}, {"B_", scStr}, {"id", scStr}, {"witness", scStr}}}
	scMpp   = &schema{kind: "obj", fields: []schemaField{{"amount", scU64}}}

	scMintQuoteReq = &schema{kind: "obj", fields: []schemaField{{"amount", scU64}, {"unit", scStr}, {"pubkey", scStr}}}
	scMintReq      = &schema{kind: "obj", fields: []schemaField{{"quote", scStr}, {"outputs", &schema{kind: "arr", elem: scBM}}, {"signature", scStr}}}
	scSwapReq      = &schema{kind: "obj", fields: []schemaField{{"inputs", &schema{kind: "arr", elem: scProof}}, {"outputs", &schema{kind: "arr", elem: scBM}}}}
	scMeltQuoteReq = &schema{kind: "obj", fields: []schemaField{{"request", scStr}, {"unit", scStr}, {"options", &schema{kind: "map", elem: scMpp}}}}
	scMeltReq      = &schema{kind: "obj", fields: []schemaField{{"quote", scStr}, {"inputs", &schema{kind: "arr", elem: scProof}}, {"outputs", &schema{kind: "arr", elem: scBM}}}}
	scCheckReq     = &schema{kind: "obj", fields: []schemaField{{"Ys", &schema{kind: "arr", elem: scStr}}}}
	scRestoreReq   = &schema{kind: "obj", fields: []schemaField{{"outputs", &schema{kind: "arr", elem: scBM}}}}
)

func jvKindName(v *JV) string {
	switch v.K {
	case 'o':
		return "object"
	case 'a':
		return "array"
	case 's':
		return "string"
	case 'n':
		return "number"
	case 'b':
		return "bool"
	}
	return "null"
}

// typeError walks value v against schema sc the way encoding/json assigns into Go values and returns the first
// mismatch in document order as (json kind, field path) — the data of the *json.UnmarshalTypeError — or "".
func typeError(v *JV, sc *schema, path string) (string, string) {
	if v.K == 'z' {
		return "", "" // null is a no-op for every target
	}
	switch sc.kind {
	case "u64":
		if v.K != 'n' {
			return jvKindName(v), path
		}
		if _, err := strconv.ParseUint(v.S, 10, 64); err != nil {
			return "number " + v.S, path
		}
	case "str":
		if v.K != 's' {
			return jvKindName(v), path
		}
	case "obj":
		if v.K != 'o' {
			return jvKindName(v), path
		}
		for _, kv := range v.O {
			var f *schemaField
			for i := range sc.fields {
				if sc.fields[i].name == kv.Key {
					f = &sc.fields[i]
					break
				}
			}
			if f == nil {
				for i := range sc.fields {
					if strings.EqualFold(sc.fields[i].name, kv.Key) {
						f = &sc.fields[i]
						break
					}
				}
			}
			if f == nil {
				continue // unknown fields are ignored
			}
			p := f.name
			if path != "" {
				p = path + "." + f.name
			}
			if k, fp := typeError(kv.V, f.s, p); k != "" {
				return k, fp
			}
		}
	case "arr":
		if v.K != 'a' {
			return jvKindName(v), path
		}
		for _, x := range v.A {
			if k, fp := typeError(x, sc.elem, path); k != "" {
				return k, fp
			}
		}
	case "map":
		if v.K != 'o' {
			return jvKindName(v), path
		}
		for _, kv := range v.O {
			if k, fp := typeError(kv.V, sc.elem, path); k != "" { // map keys are not part of the reported field path
				return k, fp
			}
		}
	}
	return "", ""
}

// decodeClass predicts decodeJsonReqBody's outcome class for body against the request schema:
// ok | syntax | type | empty | other, plus the predicted detail text where it is determined.
func decodeClass(body []byte, sc *schema) (class string, detail string, v *JV) {
	c, v, off := bodyClass(body)
	switch c {
	case "empty":
		return "empty", "request body cannot be empty", nil
	case "syntax":
		return "syntax", fmt.Sprintf("bad json at %d", off), nil
	case "other":
		return "other", "", nil
	}
	if k, f := typeError(v, sc, ""); k != "" {
		return "type", fmt.Sprintf("invalid %v for field %q", k, f), v
	}
	return "ok", "", v
}

func sortedJKeys(v *JV) []string {
	var ks []string
	if v != nil && v.K == 'o' {
		for _, kv := range v.O {
			ks = append(ks, kv.Key)
		}
	}
	sort.Strings(ks)
	return ks
}
