package main

// Stream "bdhke-spec" (property C10): crypto.BlindMessage / SignBlindedMessage / UnblindSignature /
// Verify / HashE / GenerateDLEQ / VerifyDLEQ of the real code, recomputed bit for bit (B_, C_, C, K,
// hash_e, DLEQ verdict) by the Lean reference `Gonuts.Spec.Bdhke` over `Spec.Secp256k1` through the
// driver, plus the model-free identity  C == k·hash_to_curve(secret)  checked with the math/big monitor.

import (
	"bytes"
	"encoding/hex"
	"fmt"
	"os"
	"time"

	"github.com/btcsuite/btcd/btcutil/hdkeychain"
	"github.com/btcsuite/btcd/chaincfg"
	"github.com/decred/dcrd/dcrec/secp256k1/v4"
	"github.com/elnosh/gonuts/crypto"
)

func init() {
	register("bdhke-spec", []string{"C10"},
		"tuples (secret, r, k): secrets empty / 1 byte / 512 bytes / arbitrary non-UTF-8 bytes / hex text / NUT-10 JSON; scalars 1, 2, n-1, n-2, 2^255, small, random; "+
			"k from the 60 private keys of real keysets (3 seeds) or random; each tuple goes through the real BlindMessage, SignBlindedMessage, UnblindSignature, Verify "+
			"and is recomputed by the Lean reference bit for bit (B_, C_, C, K, verify); monitor: C == k*hash_to_curve(secret) with independent math/big arithmetic, "+
			"C independent of r; every 4th tuple: GenerateDLEQ/VerifyDLEQ and hash_e vs the reference, with single-field tampering; class = (secret kind, r kind, k kind)",
		runBdhkeSpec)
}

var bdhkeProps = []string{"C10"}

func dvEdgeScalar(r *Rng) (*secp256k1.PrivateKey, string) {
	n := smN
	mk := func(v int64, fromN bool) *secp256k1.PrivateKey {
		x := dvBigFrom(v)
		if fromN {
			x.Sub(n, x)
		}
		return secp256k1.PrivKeyFromBytes(smPad32(x))
	}
	switch r.Intn(10) {
	case 0:
		return mk(1, false), "1"
	case 1:
		return mk(2, false), "2"
	case 2:
		return mk(1, true), "n-1"
	case 3:
		return mk(2, true), "n-2"
	case 4:
		b := make([]byte, 32)
		b[0] = 0x80
		return secp256k1.PrivKeyFromBytes(b), "2^255"
	case 5:
		return mk(int64(3+r.Intn(1000)), false), "small"
	case 6: // leading zero bytes
		b := r.Bytes(32)
		b[0], b[1] = 0, 0
		b[31] |= 1
		return secp256k1.PrivKeyFromBytes(b), "lz"
	default:
		return dvRandScalar(r), "random"
	}
}

func dvGenSecret(r *Rng) (string, string) {
	switch r.Intn(9) {
	case 0:
		return "", "empty"
	case 1:
		return string(r.Bytes(1)), "1byte"
	case 2:
		return string(r.Bytes(512)), "512"
	case 3:
		b := r.Bytes(1 + r.Intn(100))
		b[0] = 0xfe
		return string(b), "non-utf8"
	case 4:
		return hex.EncodeToString(r.Bytes(32)), "hex64"
	case 5:
		return fmt.Sprintf(`["P2PK",{"nonce":"%x","data":"02%x"}]`, r.Bytes(16), r.Bytes(32)), "nut10"
	case 6:
		return "test_message", "test_message"
	case 7:
		return string(bytes.Repeat([]byte{0}, r.Intn(70))), "zeros"
	default:
		return string(r.Bytes(r.Intn(513))), "random"
	}
}

func runBdhkeSpec(c *Ctx) {
	r := c.Rng
	scale := 1
	if c.Thorough {
		scale = 20
	}
	b := &specBatch{c: c}
	tStart := time.Now()

	st := c.Drv.Ask(L(A("spec.selftest")))
	c.Case("selftest", true)
	if len(st) < 4 || st[:4] != "(ok " {
		c.Disagree(bdhkeProps, "(spec.selftest)", "(ok …)", st, nil)
		return
	}

	// real mint keys: 60 keys of 3 keysets
	var mintKeys []*secp256k1.PrivateKey
	for i := 0; i < 3; i++ {
		seed := r.Bytes(32)
		master, err := hdkeychain.NewMaster(seed, &chaincfg.MainNetParams)
		if err != nil {
			continue
		}
		ks, err := crypto.GenerateKeyset(master, uint32(i), 0, true)
		if err != nil {
			continue
		}
		for j := 0; j < 60; j++ {
			mintKeys = append(mintKeys, ks.Keys[uint64(1)<<uint(j)].PrivateKey)
		}
	}

	comp := func(p *secp256k1.PublicKey) Sx { return dvHex(p.SerializeCompressed()) }
	n := 420 * scale
	for i := 0; i < n; i++ {
		secret, sc := dvGenSecret(r)
		rk, rc := dvEdgeScalar(r)
		var k *secp256k1.PrivateKey
		kc := "mint"
		if i < len(mintKeys) && i < n/2 {
			k = mintKeys[i]
		} else if r.Chance(50) && len(mintKeys) > 0 {
			k = mintKeys[r.Intn(len(mintKeys))]
		} else {
			k, kc = dvEdgeScalar(r)
		}
		key := fmt.Sprintf("bdhke/secret=%s/r=%s/k=%s", sc, rc, kc)
		replay := map[string]any{"secret_hex": hex.EncodeToString([]byte(secret)), "r": hex.EncodeToString(rk.Serialize()), "k": hex.EncodeToString(k.Serialize())}
		var B_, C_, C, K *secp256k1.PublicKey
		var verified bool
		out := dvProtect(func() string {
			var err error
			B_, _, err = crypto.BlindMessage(secret, rk)
			if err != nil {
				return "(none)"
			}
			C_ = crypto.SignBlindedMessage(B_, k)
			K = k.PubKey()
			C = crypto.UnblindSignature(C_, rk, K)
			verified = crypto.Verify(secret, k, C)
			return "ok"
		})
		if out != "ok" {
			c.MonitorFail("C10", "bdhke-go-failed", "the BDHKE round trip failed or panicked: "+out, replay)
			continue
		}
		sh, rh, kh := dvHex([]byte(secret)), dvHex(rk.Serialize()), dvHex(k.Serialize())
		b.addFor(bdhkeProps, L(A("spec.blind"), sh, rh), dvOk(comp(B_)), key+"/blind", replay)
		b.addFor(bdhkeProps, L(A("spec.sign"), comp(B_), kh), dvOk(comp(C_)), key+"/sign", replay)
		b.addFor(bdhkeProps, L(A("spec.pub"), kh), dvOk(comp(K)), key+"/pub", replay)
		b.addFor(bdhkeProps, L(A("spec.unblind"), comp(C_), rh, comp(K)), dvOk(comp(C)), key+"/unblind", replay)
		b.addFor(bdhkeProps, L(A("spec.verify"), sh, kh, comp(C)), Render(B(verified)), key+"/verify", replay)
		// monitors (model-free): verification succeeds; C == k·hash_to_curve(secret); so C does not depend on r
		if !verified {
			c.MonitorFail("C10", "verify-honest-false", "crypto.Verify rejects an honestly unblinded signature", replay)
		}
		if yb, _, ok := smHashToCurve([]byte(secret)); ok {
			Y, _ := smParse33(yb)
			kY := smScalarMult(smBig(k.Serialize()), Y)
			if !bytes.Equal(smCompress(kY), C.SerializeCompressed()) {
				c.MonitorFail("C10", "unblind-identity", fmt.Sprintf("C = %x but k*hash_to_curve(secret) = %x", C.SerializeCompressed(), smCompress(kY)), replay)
			}
			// B_ = Y + rG recomputed independently
			if B2 := smAddP(Y, smScalarMult(smBig(rk.Serialize()), smG)); !bytes.Equal(smCompress(B2), B_.SerializeCompressed()) {
				c.MonitorFail("C10", "blind-identity", "B_ differs from hash_to_curve(secret) + r*G", replay)
			}
		}
		// a wrong key or a wrong secret must not verify (both sides)
		if i%5 == 0 {
			k2 := dvRandScalar(r)
			bad := crypto.Verify(secret, k2, C)
			b.addFor(bdhkeProps, L(A("spec.verify"), sh, dvHex(k2.Serialize()), comp(C)), Render(B(bad)), key+"/verify-wrong-key", replay)
			if bad {
				c.MonitorFail("C10", "verify-wrong-key-true", "crypto.Verify accepts a signature under another key", replay)
			}
			bad2 := crypto.Verify(secret+"x", k, C)
			b.addFor(bdhkeProps, L(A("spec.verify"), dvHex([]byte(secret+"x")), kh, comp(C)), Render(B(bad2)), key+"/verify-wrong-secret", replay)
			if bad2 {
				c.MonitorFail("C10", "verify-wrong-secret-true", "crypto.Verify accepts a signature for another secret", replay)
			}
		}
		// DLEQ: the real prover (random nonce), the reference verifier; single-field tampering on both sides
		if i%4 == 0 {
			e, s := crypto.GenerateDLEQ(k, B_, C_)
			good := crypto.VerifyDLEQ(e, s, K, B_, C_)
			eh, sh2 := dvHex(e.Serialize()), dvHex(s.Serialize())
			rp := map[string]any{"base": replay, "e": hex.EncodeToString(e.Serialize()), "s": hex.EncodeToString(s.Serialize())}
			b.addFor(bdhkeProps, L(A("spec.dleqverify"), eh, sh2, comp(K), comp(B_), comp(C_)), Render(B(good)), key+"/dleq-honest", rp)
			if !good {
				// e is compared unreduced: an honest proof whose hash is >= n is rejected (probability ~2^-128); report if ever seen
				c.MonitorFail("C10", "dleq-honest-rejected", "VerifyDLEQ rejects a proof made by GenerateDLEQ", rp)
			}
			he := crypto.HashE([]*secp256k1.PublicKey{K, B_, C_, C})
			b.addFor(bdhkeProps, L(A("spec.hashe"), L(comp(K), comp(B_), comp(C_), comp(C))), dvOk(dvHex(he[:])), key+"/hashe", rp)
			other := dvRandScalar(r)
			otherP := dvRandScalar(r).PubKey()
			type tam struct {
				name      string
				e, s      *secp256k1.PrivateKey
				A, B2, C2 *secp256k1.PublicKey
			}
			tams := []tam{
				{"e", other, s, K, B_, C_}, {"s", e, other, K, B_, C_}, {"A", e, s, otherP, B_, C_},
				{"B_", e, s, K, otherP, C_}, {"C_", e, s, K, B_, otherP},
			}
			t := tams[r.Intn(len(tams))]
			v := crypto.VerifyDLEQ(t.e, t.s, t.A, t.B2, t.C2)
			b.addFor(bdhkeProps, L(A("spec.dleqverify"), dvHex(t.e.Serialize()), dvHex(t.s.Serialize()), comp(t.A), comp(t.B2), comp(t.C2)),
				Render(B(v)), key+"/dleq-tamper-"+t.name, rp)
			if v {
				c.MonitorFail("C10", "dleq-tamper-accepted", "VerifyDLEQ accepts a proof with a changed "+t.name, rp)
			}
		}
	}
	dt := b.flush("bdhke")
	msg := fmt.Sprintf("bdhke-spec total: %d evaluations, wall %.1f s, of which Lean %.1f s", c.Res.Evaluations, time.Since(tStart).Seconds(), dt.Seconds())
	fmt.Fprintln(os.Stderr, msg)
	c.Res.Notes = append(c.Res.Notes, msg)
}
