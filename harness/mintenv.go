package main

// In-process mint environment: real Mint on real SQLite in a scratch directory, a scripted
// Lightning backend, a storage proxy (effect trace, fault injection, crash/park, scheduling),
// and the symbol tables that map real values (secrets, B_, quote ids, hashes) to the ids the
// Lean model uses.

import (
	"context"
	"crypto/sha256"
	"encoding/hex"
	"errors"
	"fmt"
	"os"
	"path/filepath"
	"sync"
	"time"

	"github.com/btcsuite/btcd/chaincfg"
	"github.com/decred/dcrd/dcrec/secp256k1/v4"
	"github.com/decred/dcrd/dcrec/secp256k1/v4/ecdsa"
	"github.com/elnosh/gonuts/cashu"
	"github.com/elnosh/gonuts/cashu/nuts/nut04"
	"github.com/elnosh/gonuts/cashu/nuts/nut05"
	"github.com/elnosh/gonuts/crypto"
	"github.com/elnosh/gonuts/mint"
	"github.com/elnosh/gonuts/mint/lightning"
	"github.com/elnosh/gonuts/mint/storage"
	"github.com/lightningnetwork/lnd/lnwire"
	"github.com/lightningnetwork/lnd/zpay32"
	"google.golang.org/grpc/codes"
	"google.golang.org/grpc/status"
)

// ---------------------------------------------------------------- scripted Lightning backend

type lnInvoice struct {
	id       int // h<id>
	request  string
	hash     string
	preimage string
	amount   uint64 // sat
	settled  bool
	external bool // created by the harness's "other node", not by this mint
	msat     uint64
	huge     bool
	expired  bool // created with a validity of 0 seconds
	// forgedOf: this invoice was made by somebody else with the PAYMENT HASH of that (own) invoice and another amount
	forgedOf *lnInvoice
}

type LnCall struct {
	Kind    string // SendPayment | PayPartialAmount | OutgoingPaymentStatus | InvoiceStatus | CreateInvoice | FeeReserve
	Hash    int    // symbolic hash id of the invoice concerned (-1 unknown)
	Msat    uint64 // amount attempted (msat)
	MaxFee  uint64 // fee limit handed to the backend (sat)
	Answer  string
	Thread  int // scheduler thread that made the call (0 = not under the scheduler)
}

// ScriptedLN implements lightning.Client. Incoming side (invoices) is persistent state driven by
// harness events; outgoing side answers come from a per-operation script consumed in order.
type ScriptedLN struct {
	mu        sync.Mutex
	rng       *Rng
	invoices  []*lnInvoice
	byHash    map[string]*lnInvoice
	byReq     map[string]*lnInvoice
	script    []string // answers for SendPayment / PayPartialAmount / OutgoingPaymentStatus, in order
	failNext  map[string]int // method -> number of upcoming calls that return a transport error
	feePct    bool // true: ceil(1%) like LND/CLN; false: 0 like FakeBackend
	// DefaultAnswer is used for payment / status calls when the script is empty ("" = transport error)
	DefaultAnswer string
	// ExpireNext: the next invoice created has a validity of 0 seconds
	ExpireNext bool
	Calls     []LnCall
	subs      map[string][]chan lightning.Invoice
	// scheduling gate shared with the storage proxy (nil = free running)
	gate *Gate
}

func NewScriptedLN(rng *Rng, feePct bool) *ScriptedLN {
	return &ScriptedLN{rng: rng, byHash: map[string]*lnInvoice{}, byReq: map[string]*lnInvoice{}, failNext: map[string]int{},
		feePct: feePct, subs: map[string][]chan lightning.Invoice{}}
}

func (l *ScriptedLN) ConnectionStatus() error { return nil }

// makeInvoice builds a real BOLT11 invoice (signet) for msat milli-satoshi.
func (l *ScriptedLN) makeInvoice(msat uint64, external bool) (*lnInvoice, error) {
	var pre [32]byte
	copy(pre[:], l.rng.Bytes(32))
	ph := sha256.Sum256(pre[:])
	opts := []func(*zpay32.Invoice){zpay32.Description("verif")}
	if msat > 0 {
		opts = append(opts, zpay32.Amount(lnwire.MilliSatoshi(msat)))
	}
	inv, err := zpay32.NewInvoice(&chaincfg.SigNetParams, ph, time.Now(), opts...)
	if err != nil {
		return nil, err
	}
	key := secp256k1.PrivKeyFromBytes(l.rng.Bytes(32))
	req, err := inv.Encode(zpay32.MessageSigner{SignCompact: func(msg []byte) ([]byte, error) {
		return ecdsa.SignCompact(key, msg, true), nil
	}})
	if err != nil {
		return nil, err
	}
	li := &lnInvoice{id: len(l.invoices), request: req, hash: hex.EncodeToString(ph[:]), preimage: hex.EncodeToString(pre[:]),
		amount: msat / 1000, msat: msat, external: external}
	l.invoices = append(l.invoices, li)
	l.byHash[li.hash] = li
	l.byReq[li.request] = li
	return li, nil
}

// forgeInvoice: another node's invoice (own key, own amount) carrying the payment hash of `orig`.  Anybody can make one:
// BOLT11 signs with the payee's node key, which a decoder does not know in advance.
func (l *ScriptedLN) forgeInvoice(orig *lnInvoice, msat uint64) (*lnInvoice, error) {
	hb, err := hex.DecodeString(orig.hash)
	if err != nil || len(hb) != 32 {
		return nil, errors.New("bad hash")
	}
	var ph [32]byte
	copy(ph[:], hb)
	inv, err := zpay32.NewInvoice(&chaincfg.SigNetParams, ph, time.Now(), zpay32.Description("forged"), zpay32.Amount(lnwire.MilliSatoshi(msat)))
	if err != nil {
		return nil, err
	}
	key := secp256k1.PrivKeyFromBytes(l.rng.Bytes(32))
	req, err := inv.Encode(zpay32.MessageSigner{SignCompact: func(msg []byte) ([]byte, error) {
		return ecdsa.SignCompact(key, msg, true), nil
	}})
	if err != nil {
		return nil, err
	}
	li := &lnInvoice{id: len(l.invoices), request: req, hash: orig.hash, amount: msat / 1000, msat: msat, external: true, forgedOf: orig}
	l.invoices = append(l.invoices, li)
	l.byReq[li.request] = li
	return li, nil
}

func (l *ScriptedLN) takeFail(method string) bool {
	if l.failNext[method] > 0 {
		l.failNext[method]--
		return true
	}
	return false
}

func (l *ScriptedLN) CreateInvoice(amount uint64) (lightning.Invoice, error) {
	l.gate.wait("ln.CreateInvoice")
	l.mu.Lock()
	defer l.mu.Unlock()
	if l.takeFail("CreateInvoice") {
		l.Calls = append(l.Calls, LnCall{Thread: l.gate.current(), Kind: "CreateInvoice", Hash: -1, Answer: "err"})
		return lightning.Invoice{}, errors.New("scripted: cannot create invoice")
	}
	// the scripted backend accepts ANY amount (C16 quantifies over amounts near 2^63 and 2^64): amounts that
	// BOLT11 cannot carry are encoded with a token amount, the true amount is kept in the record.
	enc := amount * 1000
	huge := amount > (1 << 40)
	if huge {
		enc = 1000
	}
	li, err := l.makeInvoice(enc, false)
	if err == nil && huge {
		li.amount = amount
		li.huge = true // the invoice text carries a token 1000 msat: ledger monitors skip histories where it is paid
	}
	if err != nil {
		l.Calls = append(l.Calls, LnCall{Thread: l.gate.current(), Kind: "CreateInvoice", Hash: -1, Answer: "err-encode"})
		return lightning.Invoice{}, err
	}
	l.Calls = append(l.Calls, LnCall{Thread: l.gate.current(), Kind: "CreateInvoice", Hash: li.id, Msat: li.msat, Answer: "ok"})
	// ExpireNext: the invoice's validity is 0 seconds — by the time anybody asks about the quote its expiry has passed
	// (an invoice can be settled just before it expires and the quote polled / minted afterwards)
	expiry := uint64(3600)
	if l.ExpireNext {
		expiry, l.ExpireNext = 0, false
		li.expired = true
	}
	return lightning.Invoice{PaymentRequest: li.request, PaymentHash: li.hash, Amount: amount, Expiry: expiry}, nil
}

func (l *ScriptedLN) InvoiceStatus(hash string) (lightning.Invoice, error) {
	l.gate.wait("ln.InvoiceStatus")
	l.mu.Lock()
	defer l.mu.Unlock()
	li := l.byHash[hash]
	id := -1
	if li != nil {
		id = li.id
	}
	if l.takeFail("InvoiceStatus") || li == nil {
		l.Calls = append(l.Calls, LnCall{Thread: l.gate.current(), Kind: "InvoiceStatus", Hash: id, Answer: "err"})
		return lightning.Invoice{}, errors.New("scripted: invoice status unavailable")
	}
	ans := "unsettled"
	inv := lightning.Invoice{PaymentRequest: li.request, PaymentHash: li.hash, Settled: li.settled, Amount: li.amount, Expiry: 3600}
	if li.expired {
		inv.Expiry = 0
	}
	// the preimage of an own invoice is always known to the backend (used by internal settlement)
	inv.Preimage = li.preimage
	if li.settled {
		ans = "settled"
	}
	l.Calls = append(l.Calls, LnCall{Thread: l.gate.current(), Kind: "InvoiceStatus", Hash: id, Answer: ans})
	return inv, nil
}

func (l *ScriptedLN) nextAnswer() string {
	if len(l.script) == 0 {
		if l.DefaultAnswer != "" {
			return l.DefaultAnswer
		}
		return "err"
	}
	a := l.script[0]
	l.script = l.script[1:]
	return a
}

func (l *ScriptedLN) pay(kind, request string, msat, maxFee uint64) (lightning.PaymentStatus, error) {
	l.mu.Lock()
	defer l.mu.Unlock()
	li := l.byReq[request]
	id := -1
	pre := ""
	if li != nil {
		id = li.id
		pre = li.preimage
		if msat == 0 {
			msat = li.msat
		}
	}
	a := l.nextAnswer()
	l.Calls = append(l.Calls, LnCall{Thread: l.gate.current(), Kind: kind, Hash: id, Msat: msat, MaxFee: maxFee, Answer: a})
	switch a {
	case "succ":
		return lightning.PaymentStatus{Preimage: pre, PaymentStatus: lightning.Succeeded}, nil
	case "pending":
		return lightning.PaymentStatus{PaymentStatus: lightning.Pending}, nil
	case "failed":
		return lightning.PaymentStatus{PaymentStatus: lightning.Failed, PaymentFailureReason: "scripted failure"}, nil
	case "failed-err":
		return lightning.PaymentStatus{PaymentStatus: lightning.Failed}, errors.New("scripted: payment error")
	default: // "err": transport error, zero-value status as the real clients return on some paths
		return lightning.PaymentStatus{}, errors.New("scripted: transport error")
	}
}

func (l *ScriptedLN) SendPayment(ctx context.Context, request string, maxFee uint64) (lightning.PaymentStatus, error) {
	l.gate.wait("ln.SendPayment")
	return l.pay("SendPayment", request, 0, maxFee)
}

func (l *ScriptedLN) PayPartialAmount(ctx context.Context, request string, amountMsat uint64, maxFee uint64) (lightning.PaymentStatus, error) {
	l.gate.wait("ln.PayPartialAmount")
	return l.pay("PayPartialAmount", request, amountMsat, maxFee)
}

func (l *ScriptedLN) OutgoingPaymentStatus(ctx context.Context, hash string) (lightning.PaymentStatus, error) {
	l.gate.wait("ln.OutgoingPaymentStatus")
	l.mu.Lock()
	defer l.mu.Unlock()
	li := l.byHash[hash]
	id := -1
	pre := ""
	if li != nil {
		id = li.id
		pre = li.preimage
	}
	a := l.nextAnswer()
	l.Calls = append(l.Calls, LnCall{Thread: l.gate.current(), Kind: "OutgoingPaymentStatus", Hash: id, Answer: a})
	switch a {
	case "succ":
		return lightning.PaymentStatus{Preimage: pre, PaymentStatus: lightning.Succeeded}, nil
	case "pending":
		return lightning.PaymentStatus{PaymentStatus: lightning.Pending}, nil
	case "failed":
		return lightning.PaymentStatus{PaymentStatus: lightning.Failed, PaymentFailureReason: "scripted failure"}, nil
	case "notfound":
		return lightning.PaymentStatus{PaymentStatus: lightning.Failed}, lightning.OutgoingPaymentNotFound
	case "notfound-grpc":
		return lightning.PaymentStatus{PaymentStatus: lightning.Failed}, status.Error(codes.NotFound, "payment isn't initiated")
	default:
		return lightning.PaymentStatus{}, errors.New("scripted: status unavailable")
	}
}

func (l *ScriptedLN) FeeReserve(amount uint64) uint64 {
	if !l.feePct {
		return 0
	}
	// ceil(1%) in integer arithmetic (LND/CLN compute it in float64; the mint is generic in this function)
	return (amount + 99) / 100
}

type scriptedSub struct {
	ch  chan lightning.Invoice
	ctx context.Context
}

func (s *scriptedSub) Recv() (lightning.Invoice, error) {
	select {
	case inv := <-s.ch:
		return inv, nil
	case <-s.ctx.Done():
		return lightning.Invoice{}, s.ctx.Err()
	}
}

func (l *ScriptedLN) SubscribeInvoice(ctx context.Context, paymentHash string) (lightning.InvoiceSubscriptionClient, error) {
	l.mu.Lock()
	defer l.mu.Unlock()
	ch := make(chan lightning.Invoice, 1)
	l.subs[paymentHash] = append(l.subs[paymentHash], ch)
	return &scriptedSub{ch: ch, ctx: ctx}, nil
}

// Notify delivers the "invoice settled" notification to every subscriber of the hash.
func (l *ScriptedLN) Notify(hash string) int {
	l.mu.Lock()
	li := l.byHash[hash]
	chs := l.subs[hash]
	l.subs[hash] = nil
	l.mu.Unlock()
	if li == nil {
		return 0
	}
	n := 0
	for _, ch := range chs {
		select {
		case ch <- lightning.Invoice{PaymentRequest: li.request, PaymentHash: li.hash, Preimage: li.preimage, Settled: true, Amount: li.amount}:
			n++
		default:
		}
	}
	return n
}

// ---------------------------------------------------------------- gate (scheduler / crash control)

// Gate lets the harness control when each storage / Lightning call of a goroutine proceeds.
// A nil *Gate means free running.
type Gate struct {
	mu      sync.Mutex
	enabled bool
	// per goroutine-id control: the harness registers a goroutine for the duration of the operation it runs.
	threads map[int64]*gthread
	// catchAll: an unregistered goroutine arriving at the gate (the mint's invoice watcher) is adopted as a new
	// thread and announced on adopt.
	catchAll bool
	adopt    chan *gthread
}

type gthread struct {
	id      int
	gid     int64
	name    string
	arrive  chan string  // proxy -> scheduler: "I am about to do <label>" / "done"
	release chan gateCmd // scheduler -> proxy
	steps   int
	bg      bool // adopted goroutine: ends by exiting, never says "done"
}

type gateCmd struct {
	fault bool // return an injected error instead of performing the call
	park  bool // never return (crash): the goroutine is abandoned
}

func (g *Gate) register(t *gthread) {
	g.mu.Lock()
	t.gid = goid()
	g.threads[t.gid] = t
	g.mu.Unlock()
}

func (g *Gate) unregister() {
	g.mu.Lock()
	delete(g.threads, goid())
	g.mu.Unlock()
}

// current returns the scheduler thread id of the calling goroutine (0 if none).
func (g *Gate) current() int {
	if g == nil {
		return 0
	}
	g.mu.Lock()
	defer g.mu.Unlock()
	if !g.enabled {
		return 0
	}
	if t := g.threads[goid()]; t != nil {
		return t.id
	}
	return 0
}

func (g *Gate) wait(label string) gateCmd {
	if g == nil {
		return gateCmd{}
	}
	g.mu.Lock()
	if !g.enabled {
		g.mu.Unlock()
		return gateCmd{}
	}
	id := goid()
	t := g.threads[id]
	if t == nil && g.catchAll {
		t = &gthread{id: -1, gid: id, name: "bg", arrive: make(chan string), release: make(chan gateCmd), bg: true}
		g.threads[id] = t
		g.mu.Unlock()
		g.adopt <- t
	} else {
		g.mu.Unlock()
	}
	if t == nil {
		return gateCmd{}
	}
	t.arrive <- label
	cmd := <-t.release
	if cmd.park {
		select {} // abandoned forever: models a process kill for this goroutine
	}
	return cmd
}

// ---------------------------------------------------------------- storage proxy

type DBProxy struct {
	inner storage.MintDB
	mu    sync.Mutex
	Trace []string // labels of the calls performed, in order
	// fault injection without scheduling: fail the k-th upcoming call (0-based) when armed
	faultAt  int
	faultArm bool
	count    int
	gate     *Gate
	// watcher bookkeeping: completed UpdateMintQuoteState calls, signalled to whoever waits
	updates chan string
	dead    bool // after a simulated crash every call blocks forever
}

var errInjected = errors.New("injected storage fault")

func (p *DBProxy) pre(label string) error {
	cmd := p.gate.wait("db." + label)
	p.mu.Lock()
	defer p.mu.Unlock()
	p.Trace = append(p.Trace, "db."+label)
	if cmd.fault {
		return errInjected
	}
	if p.faultArm {
		if p.count == p.faultAt {
			p.faultArm = false
			p.count++
			return errInjected
		}
		p.count++
	}
	return nil
}

func (p *DBProxy) ArmFault(k int) {
	p.mu.Lock()
	p.faultArm, p.faultAt, p.count = true, k, 0
	p.mu.Unlock()
}
func (p *DBProxy) Disarm() {
	p.mu.Lock()
	p.faultArm = false
	p.mu.Unlock()
}
func (p *DBProxy) ResetTrace() []string {
	p.mu.Lock()
	t := p.Trace
	p.Trace = nil
	p.mu.Unlock()
	return t
}

func (p *DBProxy) SaveSeed(b []byte) error {
	if err := p.pre("SaveSeed"); err != nil {
		return err
	}
	return p.inner.SaveSeed(b)
}
func (p *DBProxy) GetSeed() ([]byte, error) {
	if err := p.pre("GetSeed"); err != nil {
		return nil, err
	}
	return p.inner.GetSeed()
}
func (p *DBProxy) SaveKeyset(k storage.DBKeyset) error {
	if err := p.pre("SaveKeyset"); err != nil {
		return err
	}
	return p.inner.SaveKeyset(k)
}
func (p *DBProxy) GetKeysets() ([]storage.DBKeyset, error) {
	if err := p.pre("GetKeysets"); err != nil {
		return nil, err
	}
	return p.inner.GetKeysets()
}
func (p *DBProxy) UpdateKeysetActive(id string, a bool) error {
	if err := p.pre("UpdateKeysetActive"); err != nil {
		return err
	}
	return p.inner.UpdateKeysetActive(id, a)
}
func (p *DBProxy) SaveProofs(ps cashu.Proofs) error {
	if err := p.pre("SaveProofs"); err != nil {
		return err
	}
	return p.inner.SaveProofs(ps)
}
func (p *DBProxy) GetProofsUsed(ys []string) ([]storage.DBProof, error) {
	if err := p.pre("GetProofsUsed"); err != nil {
		return nil, err
	}
	return p.inner.GetProofsUsed(ys)
}
func (p *DBProxy) AddPendingProofs(ps cashu.Proofs, q string) error {
	if err := p.pre("AddPendingProofs"); err != nil {
		return err
	}
	return p.inner.AddPendingProofs(ps, q)
}
func (p *DBProxy) GetPendingProofs(ys []string) ([]storage.DBProof, error) {
	if err := p.pre("GetPendingProofs"); err != nil {
		return nil, err
	}
	return p.inner.GetPendingProofs(ys)
}
func (p *DBProxy) GetPendingProofsByQuote(q string) ([]storage.DBProof, error) {
	if err := p.pre("GetPendingProofsByQuote"); err != nil {
		return nil, err
	}
	return p.inner.GetPendingProofsByQuote(q)
}
func (p *DBProxy) RemovePendingProofs(ys []string) error {
	if err := p.pre("RemovePendingProofs"); err != nil {
		return err
	}
	return p.inner.RemovePendingProofs(ys)
}
func (p *DBProxy) SaveMintQuote(q storage.MintQuote) error {
	if err := p.pre("SaveMintQuote"); err != nil {
		return err
	}
	return p.inner.SaveMintQuote(q)
}
func (p *DBProxy) GetMintQuote(id string) (storage.MintQuote, error) {
	if err := p.pre("GetMintQuote"); err != nil {
		return storage.MintQuote{}, err
	}
	return p.inner.GetMintQuote(id)
}
func (p *DBProxy) GetMintQuoteByPaymentHash(h string) (storage.MintQuote, error) {
	if err := p.pre("GetMintQuoteByPaymentHash"); err != nil {
		return storage.MintQuote{}, err
	}
	return p.inner.GetMintQuoteByPaymentHash(h)
}
func (p *DBProxy) UpdateMintQuoteState(id string, s nut04.State) error {
	if err := p.pre("UpdateMintQuoteState"); err != nil {
		return err
	}
	err := p.inner.UpdateMintQuoteState(id, s)
	select {
	case p.updates <- id + ":" + s.String():
	default:
	}
	return err
}
func (p *DBProxy) SaveMeltQuote(q storage.MeltQuote) error {
	if err := p.pre("SaveMeltQuote"); err != nil {
		return err
	}
	return p.inner.SaveMeltQuote(q)
}
func (p *DBProxy) GetMeltQuote(id string) (storage.MeltQuote, error) {
	if err := p.pre("GetMeltQuote"); err != nil {
		return storage.MeltQuote{}, err
	}
	return p.inner.GetMeltQuote(id)
}
func (p *DBProxy) GetMeltQuoteByPaymentRequest(r string) (*storage.MeltQuote, error) {
	if err := p.pre("GetMeltQuoteByPaymentRequest"); err != nil {
		return nil, err
	}
	return p.inner.GetMeltQuoteByPaymentRequest(r)
}
func (p *DBProxy) UpdateMeltQuote(id, pre string, s nut05.State) error {
	if err := p.pre("UpdateMeltQuote"); err != nil {
		return err
	}
	return p.inner.UpdateMeltQuote(id, pre, s)
}
func (p *DBProxy) SaveBlindSignatures(bs []string, sigs cashu.BlindedSignatures) error {
	if err := p.pre("SaveBlindSignatures"); err != nil {
		return err
	}
	return p.inner.SaveBlindSignatures(bs, sigs)
}
func (p *DBProxy) GetBlindSignature(b string) (cashu.BlindedSignature, error) {
	if err := p.pre("GetBlindSignature"); err != nil {
		return cashu.BlindedSignature{}, err
	}
	return p.inner.GetBlindSignature(b)
}
func (p *DBProxy) GetBlindSignatures(bs []string) (cashu.BlindedSignatures, error) {
	if err := p.pre("GetBlindSignatures"); err != nil {
		return nil, err
	}
	return p.inner.GetBlindSignatures(bs)
}
func (p *DBProxy) GetIssuedEcash() (map[string]uint64, error) {
	if err := p.pre("GetIssuedEcash"); err != nil {
		return nil, err
	}
	return p.inner.GetIssuedEcash()
}
func (p *DBProxy) GetRedeemedEcash() (map[string]uint64, error) {
	if err := p.pre("GetRedeemedEcash"); err != nil {
		return nil, err
	}
	return p.inner.GetRedeemedEcash()
}
func (p *DBProxy) Close() error { return p.inner.Close() }

// ---------------------------------------------------------------- the environment

type MintOpts struct {
	FeePpk     uint
	FeePct     bool // Lightning fee reserve ceil(1%) (true) or 0
	MPP        bool
	Limits     mint.MintLimits
	Rotate     bool
	Seed       []byte // optional: written to the seed table before first load
}

type MintEnv struct {
	Dir   string
	Opts  MintOpts
	M     *mint.Mint
	Srv   *mint.MintServer
	LN    *ScriptedLN
	DB    *DBProxy
	Gate  *Gate
	rng   *Rng
	// symbol tables
	ksIdx    map[string]int // keyset id -> derivation index
	ksIds    []string       // derivation index -> keyset id
	mintQ    map[string]int
	mintQIds []string
	meltQ    map[string]int
	meltQIds []string
}

func NewMintEnv(c *Ctx, name string, opts MintOpts) (*MintEnv, error) {
	dir := filepath.Join(c.Scratch, name)
	if err := os.MkdirAll(dir, 0700); err != nil {
		return nil, err
	}
	e := &MintEnv{Dir: dir, Opts: opts, rng: c.Rng.Fork(), ksIdx: map[string]int{}, mintQ: map[string]int{}, meltQ: map[string]int{}}
	e.Gate = &Gate{threads: map[int64]*gthread{}, adopt: make(chan *gthread, 16)}
	e.LN = NewScriptedLN(e.rng.Fork(), opts.FeePct)
	e.LN.gate = e.Gate
	if err := e.load(opts.Rotate); err != nil {
		return nil, err
	}
	return e, nil
}

func (e *MintEnv) load(rotate bool) error {
	cfg := mint.Config{
		RotateKeyset:    rotate,
		MintPath:        e.Dir,
		InputFeePpk:     e.Opts.FeePpk,
		Limits:          e.Opts.Limits,
		LightningClient: e.LN,
		EnableMPP:       e.Opts.MPP,
		LogLevel:        mint.Disable,
	}
	m, err := mint.LoadMint(cfg)
	if err != nil {
		return err
	}
	e.M = m
	var old []string
	if e.DB != nil {
		old = e.DB.Trace
	}
	e.DB = &DBProxy{gate: e.Gate, updates: make(chan string, 64)}
	e.DB.Trace = old
	m.VerifWrapDB(func(db storage.MintDB) storage.MintDB { e.DB.inner = db; return e.DB })
	e.Srv = mint.SetupMintServer(m, mint.ServerConfig{Port: 0})
	e.refreshKeysets()
	return nil
}

func (e *MintEnv) refreshKeysets() {
	rows, err := e.DB.inner.GetKeysets()
	if err != nil {
		return
	}
	for _, r := range rows {
		idx := int(r.DerivationPathIdx)
		e.ksIdx[r.Id] = idx
		for len(e.ksIds) <= idx {
			e.ksIds = append(e.ksIds, "")
		}
		e.ksIds[idx] = r.Id
	}
}

// Restart closes the mint cleanly and loads it again from the same directory.
func (e *MintEnv) Restart(rotate bool, feePpk uint) error {
	e.M.Shutdown()
	// Shutdown cancels the watchers' contexts: their subscriptions are gone
	e.LN.mu.Lock()
	e.LN.subs = map[string][]chan lightning.Invoice{}
	e.LN.mu.Unlock()
	e.Opts.FeePpk = feePpk
	return e.load(rotate)
}

// Crash abandons the running Mint without Shutdown (its goroutines stay parked) and reloads from disk.
func (e *MintEnv) Crash() error {
	// the sqlite handle of the abandoned instance is closed so the file can be reopened; parked
	// goroutines never touch it again (they block inside the gate forever).
	e.DB.inner.Close()
	// the watchers died with the process
	e.LN.mu.Lock()
	e.LN.subs = map[string][]chan lightning.Invoice{}
	e.LN.mu.Unlock()
	return e.load(false)
}

func (e *MintEnv) Close() {
	if e.M != nil {
		e.M.Shutdown()
	}
}

func (e *MintEnv) ActiveKeysetId() string { return e.M.GetActiveKeyset().Id }

func (e *MintEnv) symMintQ(id string) int {
	if v, ok := e.mintQ[id]; ok {
		return v
	}
	v := len(e.mintQIds)
	e.mintQ[id] = v
	e.mintQIds = append(e.mintQIds, id)
	return v
}

func (e *MintEnv) symMeltQ(id string) int {
	if v, ok := e.meltQ[id]; ok {
		return v
	}
	v := len(e.meltQIds)
	e.meltQ[id] = v
	e.meltQIds = append(e.meltQIds, id)
	return v
}

// WaitWatcher waits until the background watcher has performed an UpdateMintQuoteState (or timeout).
func (e *MintEnv) WaitWatcher(d time.Duration) (string, bool) {
	select {
	case s := <-e.DB.updates:
		return s, true
	case <-time.After(d):
		return "", false
	}
}

func (e *MintEnv) DrainUpdates() {
	for {
		select {
		case <-e.DB.updates:
		default:
			return
		}
	}
}

// ---------------------------------------------------------------- wallet-side crypto helpers (harness's own, not wallet package)

type Output struct {
	Secret string
	R      *secp256k1.PrivateKey
	BM     cashu.BlindedMessage
}

func (e *MintEnv) MakeOutput(secret string, amount uint64, ksId string) (Output, error) {
	r := secp256k1.PrivKeyFromBytes(e.rng.Bytes(32))
	B_, r2, err := crypto.BlindMessage(secret, r)
	if err != nil {
		return Output{}, err
	}
	return Output{Secret: secret, R: r2, BM: cashu.NewBlindedMessage(ksId, amount, B_)}, nil
}

func (e *MintEnv) RandomSecret() string { return hex.EncodeToString(e.rng.Bytes(32)) }

// Unblind turns the mint's signature on output o into a proof, using the keyset's published key.
func (e *MintEnv) Unblind(o Output, sig cashu.BlindedSignature) (cashu.Proof, error) {
	ks, err := e.M.GetKeysetById(sig.Id)
	if err != nil {
		return cashu.Proof{}, err
	}
	K, ok := ks.Keys[sig.Amount]
	if !ok {
		return cashu.Proof{}, fmt.Errorf("no key for amount %d", sig.Amount)
	}
	cb, err := hex.DecodeString(sig.C_)
	if err != nil {
		return cashu.Proof{}, err
	}
	C_, err := secp256k1.ParsePubKey(cb)
	if err != nil {
		return cashu.Proof{}, err
	}
	C := crypto.UnblindSignature(C_, o.R, K)
	return cashu.Proof{Amount: sig.Amount, Id: sig.Id, Secret: o.Secret, C: hex.EncodeToString(C.SerializeCompressed())}, nil
}

func YOf(secret string) string {
	Y, err := crypto.HashToCurve([]byte(secret))
	if err != nil {
		return ""
	}
	return hex.EncodeToString(Y.SerializeCompressed())
}
