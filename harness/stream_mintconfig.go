package main

// Stream "mint-config" (C16): the REAL mint binary (cmd/mint: godotenv + configFromEnv + LoadMint + the HTTP server, with
// LIGHTNING_BACKEND=FakeBackend) is started from a generated .env file for every combination of configured limits —
// each limit set or unset independently — and asked, over real HTTP on the loopback interface:
//
//	GET /v1/info                       the advertised maxima are the configured ones (absent / 0 when unset)
//	POST /v1/mint/quote/bolt11         an amount above MINTING_MAX_AMOUNT (or above MAX_BALANCE) is refused, the maximum itself accepted
//	POST /v1/melt/quote/bolt11         an invoice above MELTING_MAX_AMOUNT is refused, one of exactly the maximum accepted
//
// "Configured limits are enforced" is a statement about what the OPERATOR configures; everything else in this project
// builds mint.Config in code, so cmd/mint's translation of the environment into a Config was outside every check.
// Environment variables the binary reads that this stream does not know (found by scanning cmd/mint/mint.go at run
// time) are, in half of the configurations, set to a small number as well: a setting added later must not switch a
// configured limit off (seeded change C16-7: a new *_MIN_AMOUNT setting rebuilt the settings struct and reset the maximum).
// Model-free.

import (
	"bytes"
	"encoding/json"
	"fmt"
	"io"
	"net"
	"net/http"
	"os"
	"os/exec"
	"path/filepath"
	"regexp"
	"sort"
	"strings"
	"syscall"
	"time"

	"github.com/elnosh/gonuts/mint/lightning"
)

func init() {
	register("mint-config", []string{"C16"},
		"the real cmd/mint binary started from a generated .env for every combination of {MINTING_MAX_AMOUNT, MELTING_MAX_AMOUNT, MAX_BALANCE} set / unset "+
			"x {further numeric settings found in cmd/mint/mint.go unset / set}; GET /v1/info, mint quotes at max / max+1, melt quotes at max / max+1 over HTTP; "+
			"class = (configuration, request, outcome)",
		runMintConfig)
}

var mcKnownEnv = map[string]bool{"MINT_PORT": true, "MINT_DB_PATH": true, "LIGHTNING_BACKEND": true, "INPUT_FEE_PPK": true,
	"MAX_BALANCE": true, "MINTING_MAX_AMOUNT": true, "MELTING_MAX_AMOUNT": true, "ROTATE_KEYSET": true, "ENABLE_MPP": true,
	"ENABLE_ADMIN_SERVER": true, "LOG": true}

func mcFreePort() int {
	l, err := net.Listen("tcp", "127.0.0.1:0")
	if err != nil {
		return 0
	}
	defer l.Close()
	return l.Addr().(*net.TCPAddr).Port
}

type mcProc struct {
	cmd  *exec.Cmd
	out  *bytes.Buffer
	base string
	done chan error
}

func mcStart(bin, dir string, env map[string]string) (*mcProc, error) {
	port := mcFreePort()
	if port == 0 {
		return nil, fmt.Errorf("no free port")
	}
	env["MINT_PORT"] = fmt.Sprint(port)
	env["MINT_DB_PATH"] = filepath.Join(dir, "db")
	env["LIGHTNING_BACKEND"] = "FakeBackend"
	var lines []string
	for _, k := range sortedKeys(env) {
		lines = append(lines, k+"="+env[k])
	}
	os.MkdirAll(dir, 0700)
	if err := os.WriteFile(filepath.Join(dir, ".env"), []byte(strings.Join(lines, "\n")+"\n"), 0600); err != nil {
		return nil, err
	}
	p := &mcProc{out: &bytes.Buffer{}, base: fmt.Sprintf("http://127.0.0.1:%d", port), done: make(chan error, 1)}
	p.cmd = exec.Command(bin)
	p.cmd.Dir = dir
	// the settings come from the .env file only: nothing of the harness's own environment may leak into the mint
	p.cmd.Env = []string{"HOME=" + dir, "PATH=" + os.Getenv("PATH")}
	p.cmd.Stdout, p.cmd.Stderr = p.out, p.out
	if err := p.cmd.Start(); err != nil {
		return nil, err
	}
	go func() { p.done <- p.cmd.Wait() }()
	for i := 0; i < 400; i++ {
		select {
		case err := <-p.done:
			return nil, fmt.Errorf("the mint exited during start-up (%v): %s", err, p.out.String())
		default:
		}
		if c, err := net.DialTimeout("tcp", fmt.Sprintf("127.0.0.1:%d", port), 100*time.Millisecond); err == nil {
			c.Close()
			return p, nil
		}
		time.Sleep(25 * time.Millisecond)
	}
	p.stop()
	return nil, fmt.Errorf("the mint did not open its port: %s", p.out.String())
}

func (p *mcProc) stop() {
	if p == nil || p.cmd == nil || p.cmd.Process == nil {
		return
	}
	p.cmd.Process.Signal(syscall.SIGTERM)
	select {
	case <-p.done:
	case <-time.After(3 * time.Second):
		p.cmd.Process.Kill()
		<-p.done
	}
}

func (p *mcProc) call(method, path string, body any) (int, map[string]any, string) {
	var rd io.Reader
	if body != nil {
		b, _ := json.Marshal(body)
		rd = bytes.NewReader(b)
	}
	req, _ := http.NewRequest(method, p.base+path, rd)
	req.Header.Set("Content-Type", "application/json")
	cl := &http.Client{Timeout: 10 * time.Second, Transport: &http.Transport{}}
	resp, err := cl.Do(req)
	if err != nil {
		return 0, nil, err.Error()
	}
	defer resp.Body.Close()
	raw, _ := io.ReadAll(resp.Body)
	var m map[string]any
	json.Unmarshal(raw, &m)
	return resp.StatusCode, m, string(raw)
}

// advertised max_amount of NUT-04 / NUT-05 in GET /v1/info (0 = not advertised)
func mcInfoMax(info map[string]any, nut string) uint64 {
	nuts, _ := info["nuts"].(map[string]any)
	n, _ := nuts[nut].(map[string]any)
	ms, _ := n["methods"].([]any)
	for _, x := range ms {
		m, _ := x.(map[string]any)
		if v, ok := m["max_amount"].(float64); ok {
			return uint64(v)
		}
	}
	return 0
}

func runMintConfig(c *Ctx) {
	repo := os.Getenv("VERIF_REPO")
	if repo == "" {
		repo = "/repo"
	}
	bin := filepath.Join(c.Scratch, "mintd")
	bc := exec.Command("go", "build", "-o", bin, "./cmd/mint")
	bc.Dir = repo
	if out, err := bc.CombinedOutput(); err != nil {
		c.Disagree([]string{"C16"}, "build cmd/mint", err.Error()+": "+string(out), "", nil)
		return
	}
	src, _ := os.ReadFile(filepath.Join(repo, "cmd", "mint", "mint.go"))
	var extra []string
	seen := map[string]bool{}
	for _, m := range regexp.MustCompile(`os\.(?:LookupEnv|Getenv)\("([A-Z0-9_]+)"\)`).FindAllStringSubmatch(string(src), -1) {
		n := m[1]
		if seen[n] || mcKnownEnv[n] || strings.HasPrefix(n, "LND_") || strings.HasPrefix(n, "CLN_") || strings.HasPrefix(n, "MINT_") {
			continue
		}
		seen[n] = true
		extra = append(extra, n)
	}
	sort.Strings(extra)
	c.Hist("settings", fmt.Sprintf("further settings read by cmd/mint: %d %v", len(extra), extra))
	// also a numeric reading of every *_AMOUNT / *_BALANCE / *_FEE* name the binary knows and this stream does not set
	type cfg struct {
		mintMax, meltMax, maxBal uint64
		extras                   bool
	}
	var cfgs []cfg
	vals := func(i int, v uint64) uint64 {
		if i == 0 {
			return 0
		}
		return v
	}
	for i := 0; i < 16; i++ {
		cfgs = append(cfgs, cfg{vals(i&1, 1000), vals(i&2, 2000), vals(i&4, 5000), i&8 != 0})
	}
	if c.Thorough {
		for i := 0; i < 48; i++ {
			cfgs = append(cfgs, cfg{vals(c.Rng.Intn(3), uint64(1+c.Rng.Intn(100000))), vals(c.Rng.Intn(3), uint64(1+c.Rng.Intn(100000))),
				vals(c.Rng.Intn(3), uint64(1+c.Rng.Intn(1000000))), c.Rng.Bool()})
		}
	}
	for i, cf := range cfgs {
		if i%c.ShardN != c.ShardK {
			continue
		}
		if cf.extras && len(extra) == 0 && i >= 8 && i < 16 {
			c.Hist("configuration", "no further settings to set")
			continue
		}
		env := map[string]string{}
		if cf.mintMax > 0 {
			env["MINTING_MAX_AMOUNT"] = fmt.Sprint(cf.mintMax)
		}
		if cf.meltMax > 0 {
			env["MELTING_MAX_AMOUNT"] = fmt.Sprint(cf.meltMax)
		}
		if cf.maxBal > 0 {
			env["MAX_BALANCE"] = fmt.Sprint(cf.maxBal)
		}
		if cf.extras {
			for _, n := range extra {
				env[n] = "1"
			}
		}
		name := fmt.Sprintf("mintmax=%d meltmax=%d maxbalance=%d extras=%v", cf.mintMax, cf.meltMax, cf.maxBal, cf.extras)
		replay := map[string]any{"configuration": env, "how": "write these lines to .env, run cmd/mint there, send the request named in the failure"}
		dir := filepath.Join(c.Scratch, fmt.Sprintf("cfg%d", i))
		p, err := mcStart(bin, dir, env)
		if err != nil && cf.extras {
			// a further setting may not be numeric: start without the ones that make the binary refuse its configuration
			c.Hist("configuration", "further settings refused by the binary; retried one by one")
			for _, n := range extra {
				delete(env, n)
			}
			for _, n := range extra {
				env[n] = "1"
				if q, e2 := mcStart(bin, dir+"-probe", env); e2 == nil {
					q.stop()
				} else {
					delete(env, n)
				}
				os.RemoveAll(dir + "-probe")
			}
			p, err = mcStart(bin, dir, env)
		}
		if err != nil {
			c.MonitorFail("C16", "C16/config/does-not-start", fmt.Sprintf("cmd/mint does not start with the configuration %s: %v", name, err), replay)
			continue
		}
		func() {
			defer p.stop()
			defer os.RemoveAll(dir)
			cls := func(tag, outcome string) {
				c.Case(fmt.Sprintf("cfg(mint=%v,melt=%v,bal=%v,extras=%v)/%s/%s", cf.mintMax > 0, cf.meltMax > 0, cf.maxBal > 0, cf.extras, tag, outcome), true)
				c.Hist("request", tag+"/"+outcome)
			}
			st, info, raw := p.call("GET", "/v1/info", nil)
			if st != 200 {
				c.MonitorFail("C16", "C16/config/info-unavailable", fmt.Sprintf("%s: GET /v1/info answered %d %s", name, st, raw), replay)
				return
			}
			if got := mcInfoMax(info, "4"); got != cf.mintMax {
				c.MonitorFail("C16", "C16/config/info-mint-max", fmt.Sprintf("%s: GET /v1/info advertises a minting maximum of %d", name, got), replay)
			}
			if got := mcInfoMax(info, "5"); got != cf.meltMax {
				c.MonitorFail("C16", "C16/config/info-melt-max", fmt.Sprintf("%s: GET /v1/info advertises a melting maximum of %d", name, got), replay)
			}
			cls("info", "ok")
			mintQuote := func(amount uint64) int {
				st, _, _ := p.call("POST", "/v1/mint/quote/bolt11", map[string]any{"amount": amount, "unit": "sat"})
				return st
			}
			// the smallest configured ceiling for a mint quote on an empty mint
			ceil := cf.mintMax
			if cf.maxBal > 0 && (ceil == 0 || cf.maxBal < ceil) {
				ceil = cf.maxBal
			}
			if ceil > 0 {
				if st := mintQuote(ceil + 1); st == 200 {
					c.MonitorFail("C16", "C16/config/mint-limit-not-enforced", fmt.Sprintf("%s: a mint quote for %d sat was accepted (HTTP 200)", name, ceil+1), replay)
					cls("mint-quote-above", "ACCEPTED")
				} else {
					cls("mint-quote-above", fmt.Sprint(st))
				}
				if st := mintQuote(ceil); st != 200 {
					c.Hist("request", fmt.Sprintf("mint-quote-at-limit/%d", st))
				} else {
					cls("mint-quote-at-limit", "200")
				}
			} else {
				st := mintQuote(1 << 40)
				cls("mint-quote-unlimited", fmt.Sprint(st))
			}
			meltQuote := func(sat uint64) (int, string) {
				req, _, _, err := lightning.CreateFakeInvoice(sat, false)
				if err != nil {
					return -1, err.Error()
				}
				st, _, raw := p.call("POST", "/v1/melt/quote/bolt11", map[string]any{"request": req, "unit": "sat"})
				return st, raw
			}
			if cf.meltMax > 0 {
				if st, _ := meltQuote(cf.meltMax + 1); st == 200 {
					c.MonitorFail("C16", "C16/config/melt-limit-not-enforced", fmt.Sprintf("%s: a melt quote for an invoice of %d sat was accepted (HTTP 200)", name, cf.meltMax+1), replay)
					cls("melt-quote-above", "ACCEPTED")
				} else {
					cls("melt-quote-above", fmt.Sprint(st))
				}
				st, _ := meltQuote(cf.meltMax)
				cls("melt-quote-at-limit", fmt.Sprint(st))
			} else {
				st, _ := meltQuote(1 << 30)
				cls("melt-quote-unlimited", fmt.Sprint(st))
			}
		}()
		c.Hist("configuration", fmt.Sprintf("mint=%v melt=%v balance=%v extras=%v", cf.mintMax > 0, cf.meltMax > 0, cf.maxBal > 0, cf.extras))
		c.Sample(map[string]any{"configuration": name})
	}
}
