package main

// Stream "mint-crash" (C07): every operation the property lists is run as a scheduled thread against the real mint
// and interrupted at EVERY position k between two consecutive storage / Lightning calls — once by a process kill
// (the goroutine is parked forever, the mint reloaded from the same SQLite directory) and once by a storage error
// injected into call k — followed by restart and an adversarial follow-up: state check, poll, retry of the same
// request, restore of the outputs, re-spend of the inputs.  The Lean model runs the same prefix, crash and follow-up
// (`mint.spawn / mint.step / mint.crash`), compared step by step.
//
// Verdict per (operation, interruption point), model-free, from storage + Lightning facts only:
//   unsafe    value can be taken twice (paid-for input spendable; more issued than paid; keysets changed)
//   lost      something acknowledged before the interruption is no longer honoured
//   stranded  the client has neither its inputs back nor its outputs / payment (after retry, poll and restore)
//   ok

import (
	"fmt"
	"strings"

	"github.com/elnosh/gonuts/cashu"
)

var crashProps = []string{"C07", "C15", "C06", "C16", "C01"}

func init() {
	register("mint-crash", crashProps,
		"operations {swap, mint, melt x Lightning outcome (paid, pending, failed, error then paid, error then unknown), internal melt, pending-melt resolution by quote poll / by state check x (paid, failed), keyset rotation} x every interruption point k = 0..n x {process kill + restart, storage error at call k} x follow-up (state check, poll, retry, restore, re-spend); a case = one (operation, point, mode); class = (operation, point, mode, verdict)",
		runMintCrash)
}

type crashBuilt struct {
	kind   string // swap | mint | melt | poll | rotate
	run    func()
	inputs []*HProof
	outs   []ReqOut
	mintq  *HMintQ
	meltq  *HMeltQ
	retry  func() bool // sequential retry of the same request; true if it succeeded
	// notify: the interrupted "operation" is the mint's invoice watcher reacting to the settle notification of this quote
	notify *HMintQ
}

type crashCase struct {
	name   string
	script []string
	build  func(e *schedEnv, script []string) crashBuilt
}

func crashCases() []crashCase {
	meltCase := func(name string, script []string) crashCase {
		return crashCase{name, script, func(e *schedEnv, script []string) crashBuilt {
			p := e.fund(8)
			q := e.meltQuote(8)
			return crashBuilt{kind: "melt", inputs: p, meltq: q, run: func() { e.s.OpMeltLn(q, e.reqs(p), nil, false) }}
		}}
	}
	pollCase := func(name string, script []string, viaCheck bool) crashCase {
		return crashCase{name, script, func(e *schedEnv, script []string) crashBuilt {
			p := e.fund(8)
			q := e.meltQuote(8)
			e.s.OpMeltLn(q, e.reqs(p), []string{"pending"}, false)
			b := crashBuilt{kind: "poll", inputs: p, meltq: q}
			if viaCheck {
				ys := []YQuery{{Y: YOf(p[0].P.Secret), Sec: p[0].P.Secret}}
				b.run = func() { e.s.OpCheckState(ys, nil) }
			} else {
				b.run = func() { e.s.OpMeltState(q, nil) }
			}
			return b
		}}
	}
	return []crashCase{
		{"swap", nil, func(e *schedEnv, _ []string) crashBuilt {
			p := e.fund(8)
			outs := e.g.outputs(8, e.env.ActiveKeysetId())
			return crashBuilt{kind: "swap", inputs: p, outs: outs, run: func() { e.s.OpSwap(e.reqs(p), outs) },
				retry: func() bool { return len(e.s.OpSwap(e.reqs(p), outs)) > 0 }}
		}},
		{"mint", nil, func(e *schedEnv, _ []string) crashBuilt {
			q := e.s.OpMintQuote(8, "sat", 0, false)
			e.s.Settle(q)
			outs := e.g.outputs(8, e.env.ActiveKeysetId())
			return crashBuilt{kind: "mint", mintq: q, outs: outs, run: func() { e.s.OpMint(q, outs, 0) },
				retry: func() bool { return len(e.s.OpMint(q, outs, 0)) > 0 }}
		}},
		{"mint-expired-invoice", nil, func(e *schedEnv, _ []string) crashBuilt {
			// the invoice was settled just before it expired; every later poll / mint request comes after the expiry
			e.env.LN.ExpireNext = true
			q := e.s.OpMintQuote(8, "sat", 0, false)
			e.env.LN.ExpireNext = false
			e.s.Settle(q)
			outs := e.g.outputs(8, e.env.ActiveKeysetId())
			return crashBuilt{kind: "mint", mintq: q, outs: outs, run: func() { e.s.OpMint(q, outs, 0) },
				retry: func() bool { return len(e.s.OpMint(q, outs, 0)) > 0 }}
		}},
		meltCase("melt-paid", []string{"succ"}),
		meltCase("melt-pending", []string{"pending"}),
		meltCase("melt-failed", []string{"failed", "failed"}),
		meltCase("melt-error-then-paid", []string{"err", "succ"}),
		meltCase("melt-error-then-unknown", []string{"err", "notfound"}),
		{"melt-internal", nil, func(e *schedEnv, _ []string) crashBuilt {
			p := e.fund(8)
			mq := e.s.OpMintQuote(8, "sat", 0, false)
			q := e.s.OpMeltQuote(e.env.LN.byHash[mq.Hash], "sat", 0, 0)
			return crashBuilt{kind: "melt", inputs: p, meltq: q, mintq: mq, run: func() { e.s.OpMeltLn(q, e.reqs(p), nil, false) }}
		}},
		pollCase("poll-paid", []string{"succ"}, false),
		pollCase("poll-failed", []string{"failed"}, false),
		pollCase("checkstate-paid", []string{"succ"}, true),
		pollCase("checkstate-failed", []string{"failed"}, true),
		{"notify-after-issued", nil, func(e *schedEnv, _ []string) crashBuilt {
			// the client minted through the state-check path (the quote is ISSUED) before the node's settle notification
			// reaches the watcher: whatever happens to the watcher's guarded read, an ISSUED quote stays ISSUED
			q := e.s.OpMintQuote(8, "sat", 0, false)
			e.s.Settle(q)
			e.s.OpMint(q, e.g.outputs(8, e.env.ActiveKeysetId()), 0)
			return crashBuilt{kind: "noop", notify: q}
		}},
		{"restart-after-fee-changing-rotation", nil, func(e *schedEnv, _ []string) crashBuilt {
			// the active keyset was created by a runtime rotation with a fee that differs from the configured one: after
			// ANY restart every keyset must come back with its own stored fee (safety: "the keysets are unchanged")
			e.s.OpRotate(100)
			ys := []YQuery{{Y: YOf("no-such-secret")}}
			return crashBuilt{kind: "noop", run: func() { e.s.OpCheckState(ys, nil) }}
		}},
		{"rotate", nil, func(e *schedEnv, _ []string) crashBuilt {
			return crashBuilt{kind: "rotate", run: func() { e.s.OpRotate(100) }}
		}},
	}
}

func (e *schedEnv) stateOfY(hp *HProof) string {
	y := YOf(hp.P.Secret)
	db := e.env.DB.inner
	if rows, err := db.GetPendingProofs([]string{y}); err == nil && len(rows) > 0 {
		return "PENDING"
	}
	if rows, err := db.GetProofsUsed([]string{y}); err == nil && len(rows) > 0 {
		return "SPENT"
	}
	return "UNSPENT"
}

func (e *schedEnv) restorable(outs []ReqOut) int {
	n := 0
	for _, o := range outs {
		if _, err := e.env.DB.inner.GetBlindSignature(o.BM.B_); err == nil {
			n++
		}
	}
	return n
}

// runCrashPoint runs one (case, k, mode). Returns false when the operation finished before reaching point k
// (no more points), and whether the environment must be discarded.
func (e *schedEnv) runCrashPoint(cs crashCase, k int, fault bool) (reached bool, tainted bool) {
	c, s := e.c, e.s
	e.runs++
	fails0, dis0 := c.Fails, len(c.Res.Disagreements)
	b := cs.build(e, cs.script)
	if len(c.Res.Disagreements) > dis0 || c.Fails > fails0 {
		return false, true
	}
	mode := "crash"
	if fault {
		mode = "fault"
	}
	pre := s.snap()
	ksBefore := s.keysetView()
	var captured []MonitorFailure
	c.Capture = &captured
	defer func() { c.Capture = nil }()
	lnStart := len(e.env.LN.Calls)
	cc := s.BeginConc(cs.script)
	var t *CThread
	if b.notify != nil {
		if t = cc.SpawnNotify(b.notify); t == nil {
			cc.End()
			return false, len(c.Res.Disagreements) > dis0
		}
	} else {
		t = cc.Spawn(b.run)
	}
	for i := 0; i < k && !t.done; i++ {
		cc.Step(t, false)
	}
	if t.done && !(b.kind == "rotate" && !fault) {
		// finished before point k: nothing to interrupt (rotation: the kill after the last call is still a point)
		cc.End()
		c.Capture = nil
		if len(captured) > 0 {
			for _, f := range captured {
				c.MonitorFail(f.Prop, f.Prop+"/crash-stream-uninterrupted/"+cs.name+"/"+strings.TrimPrefix(f.Signature, f.Prop+"/"), f.What, f.Replay)
			}
		}
		return false, len(captured) > 0 || len(c.Res.Disagreements) > dis0
	}
	// the interruption point is named by the call it precedes and how often that call was made before: inserting
	// or removing an unrelated call elsewhere in the operation does not rename it
	occ := 1
	for _, d := range t.did {
		if d == t.next {
			occ++
		}
	}
	point := fmt.Sprintf("before-%s#%d", t.next, occ)
	if t.done {
		point = "after-last-call"
	}
	if fault {
		if !strings.HasPrefix(t.next, "db.") {
			// Lightning calls fail through the answer scripts, not through storage errors
			cc.RunToEnd(t)
			cc.End()
			return true, len(captured) > 0
		}
		cc.Step(t, true)
		cc.RunToEnd(t)
		// C06, literally: a request that is ANSWERED WITH AN ERROR (here because a storage call failed) leaves every
		// proof state, quote state and stored signature as it was (a leading quote-state check may record PAID)
		if t.out != nil && isErr(t.out) {
			allow := map[string]bool{}
			if b.mintq != nil {
				allow[b.mintq.Id] = true
			}
			if d := diffSnap(pre, s.snap(), allow); d != "" {
				nm := sigName(cs.name)
				if b.kind == "melt" && b.mintq == nil {
					attempted := false
					for _, lc := range e.env.LN.Calls[lnStart:] {
						if lc.Thread == t.id {
							attempted = true
						}
					}
					if !attempted {
						nm = "melt"
					}
				}
				c.Capture = nil
				c.MonitorFail("C06", fmt.Sprintf("C06/fault/%s/%s/changed:%s", nm, point, strings.SplitN(d, "[", 2)[0]),
					fmt.Sprintf("%s answered with an error after a storage error at %s, but state changed: %s", cs.name, point, d), s.replay())
				c.Capture = &captured
			}
		}
	}
	// process kill (crash mode: now; fault mode: after the failed operation returned) and restart
	up := cc.CrashAll()
	cc.End()
	if !up {
		c.Capture = nil
		e.verdict(cs, mode, point, "stranded:mint-does-not-start", "after the restart the mint panics in LoadMint on the same data directory", s.replay())
		return true, true
	}
	if len(c.Res.Disagreements) > dis0 {
		return true, true
	}
	// ---- Lightning truth for the interrupted melt / poll
	var mine []LnCall
	attempted, paid := false, false
	for _, lc := range e.env.LN.Calls[lnStart:] {
		if lc.Thread == t.id {
			mine = append(mine, lc)
			if lc.Kind == "SendPayment" || lc.Kind == "PayPartialAmount" {
				attempted = true
			}
			if (lc.Kind == "SendPayment" || lc.Kind == "PayPartialAmount" || lc.Kind == "OutgoingPaymentStatus") && lc.Answer == "succ" {
				paid = true
			}
			if (lc.Kind == "SendPayment" || lc.Kind == "PayPartialAmount") && lc.Answer == "pending" {
				paid = true // in flight: the backend will report success at the next lookup
			}
		}
	}
	if b.kind == "poll" {
		// the payment was sent (pending) by the melt before; its fate is what the script of the poll says
		attempted = true
		paid = cs.script[0] == "succ"
	}
	if b.kind == "melt" && strings.HasSuffix(cs.name, "then-unknown") && attempted {
		paid = false
	}
	answer := "notfound"
	if paid {
		answer = "succ"
	} else if attempted {
		answer = "failed"
	}
	internalPaid := false
	// ---- follow-up
	if len(b.inputs) > 0 {
		var ys []YQuery
		for _, hp := range b.inputs {
			ys = append(ys, YQuery{Y: YOf(hp.P.Secret), Sec: hp.P.Secret})
		}
		s.OpCheckState(ys, []string{answer, answer, answer})
	}
	if b.meltq != nil {
		s.OpMeltState(b.meltq, []string{answer})
	}
	retried := false
	if b.retry != nil {
		retried = b.retry()
	}
	if b.kind == "melt" && !paid && b.mintq == nil {
		// nothing was paid: the client tries the same melt again; this time the backend pays
		st := s.OpMeltLn(b.meltq, e.reqs(b.inputs), []string{"succ"}, false)
		if st == "PAID" {
			retried, paid = true, true
		}
	}
	if b.mintq != nil && b.kind == "melt" {
		if mq, err := e.env.DB.inner.GetMintQuote(b.mintq.Id); err == nil && (mq.State.String() == "PAID" || mq.State.String() == "ISSUED") {
			internalPaid = true
			paid = true
		}
	}
	if len(b.outs) > 0 {
		var bms []cashu.BlindedMessage
		for _, o := range b.outs {
			bms = append(bms, o.BM)
		}
		s.OpRestore(bms)
	}
	respent := false
	if len(b.inputs) > 0 {
		if sigs := s.OpSwap(e.reqs(b.inputs), e.g.outputs(8, e.env.ActiveKeysetId())); len(sigs) > 0 {
			respent = true
		}
	}
	freshIssued := false
	if b.kind == "mint" {
		if sigs := s.OpMint(b.mintq, e.g.outputs(8, e.env.ActiveKeysetId()), 0); len(sigs) > 0 {
			freshIssued = true
		}
	}
	c.Capture = nil
	// ---- verdict
	post := s.snap()
	verdict, what := "ok", ""
	// durability: everything recorded before the operation is still there
	for y, w := range pre.spent {
		if w2, ok := post.spent[y]; !ok || w2 != w {
			verdict, what = "lost:spent-row", "a secret that was SPENT before the interruption is no longer SPENT (or its witness changed)"
		}
	}
	for bb, v := range pre.sigs {
		if post.sigs[bb] != v {
			verdict, what = "lost:signature", "a signature returned before the interruption is no longer stored identically"
		}
	}
	for id, st := range pre.mintQ {
		if st == "ISSUED" && post.mintQ[id] != "ISSUED" {
			verdict, what = "lost:issued-quote", "a quote that was ISSUED before the interruption is "+post.mintQ[id]
		}
	}
	// durability of the interrupted operation's own answer: if it RETURNED signatures (the storage error came late, or
	// was swallowed), they must be stored: restorable after the restart
	if t.out != nil && isOk(t.out) && (b.kind == "swap" || b.kind == "mint") && e.restorable(b.outs) != len(b.outs) {
		verdict, what = "lost:returned-signatures-not-restorable", "the request was answered with signatures, but after the restart they are not stored (restore returns nothing for them)"
		c.MonitorFail("C15", fmt.Sprintf("C15/%s/%s/%s/returned-signatures-not-restorable", mode, sigName(cs.name), point),
			fmt.Sprintf("%s of %s at %s: %s", mode, cs.name, point, what), s.replay())
	}
	// C16: the issued view counts every signature a request has ever RETURNED (it may count more: a signature stored
	// for a request whose answer was lost)
	{
		var seen, total uint64
		for _, sg := range s.sigsSeen {
			seen += sg.Amount
		}
		if iss, err := e.env.M.IssuedEcash(); err == nil {
			for _, v := range iss {
				total += v
			}
			if total < seen {
				c.MonitorFail("C16", fmt.Sprintf("C16/%s/%s/%s/issued-view-below-returned-signatures", mode, sigName(cs.name), point),
					fmt.Sprintf("%s of %s at %s: IssuedEcash reports %d but signatures worth %d have been returned to clients", mode, cs.name, point, total, seen), s.replay())
			}
		}
		e.env.DB.ResetTrace()
	}
	ksAfter := s.keysetView()
	if b.kind != "rotate" {
		if strings.Join(ksBefore.ids, ",") != strings.Join(ksAfter.ids, ",") || ksBefore.act != ksAfter.act {
			verdict, what = "unsafe:keysets-changed", "the keysets differ after the interruption"
		}
		for id, k0 := range ksBefore.keys {
			if ksAfter.keys[id] != k0 || ksAfter.fee[id] != ksBefore.fee[id] {
				verdict, what = "unsafe:keysets-changed", "keys or fee of keyset "+id+" differ after the interruption"
			}
		}
	} else {
		nact := 0
		for _, k := range e.env.M.ListKeysets().Keysets {
			if k.Active {
				nact++
			}
		}
		if nact != 1 {
			verdict, what = fmt.Sprintf("unsafe:%d-active-keysets", nact), "after the interrupted rotation the mint does not have exactly one active keyset"
		}
		for id, k0 := range ksBefore.keys {
			if ksAfter.keys[id] != k0 {
				verdict, what = "unsafe:keysets-changed", "keys of keyset "+id+" differ after the interrupted rotation"
			}
		}
	}
	if verdict == "ok" {
		switch b.kind {
		case "swap":
			signed := e.restorable(b.outs) == len(b.outs)
			spent := e.stateOfY(b.inputs[0]) == "SPENT"
			switch {
			case signed && respent:
				verdict, what = "unsafe:outputs-signed-and-inputs-respent", "the outputs of the interrupted swap are signed AND its inputs were spent again"
			case spent && !signed && !respent && !retried:
				verdict, what = "stranded:inputs-spent-outputs-not-recoverable", "the inputs of the interrupted swap are SPENT, its outputs are not restorable and the retry is refused"
			case !spent && !respent:
				verdict, what = "stranded:inputs-unusable", "the inputs are neither spent nor spendable"
			}
		case "mint":
			signed := e.restorable(b.outs) == len(b.outs)
			switch {
			case signed && freshIssued:
				verdict, what = "unsafe:issued-twice", "the outputs of the interrupted mint are signed AND the quote issued again"
			case !signed && !freshIssued && !retried:
				verdict, what = "stranded:paid-quote-not-issuable", fmt.Sprintf("the paid quote (state %s) yields no signatures: outputs not restorable, retry and a fresh request refused", post.mintQ[b.mintq.Id])
			}
		case "melt", "poll":
			st := e.stateOfY(b.inputs[0])
			qst := strings.SplitN(post.meltQ[b.meltq.Id], "/", 2)[0]
			switch {
			case paid && respent:
				verdict, what = "unsafe:paid-for-inputs-respent", "the invoice was paid (or the mint quote settled) with these inputs AND they were spent again"
			case !paid && !respent:
				verdict, what = "stranded:inputs-locked-nothing-paid", fmt.Sprintf("nothing was paid but the inputs stay %s (quote %s) after state check, poll and retry", st, qst)
			case paid && (st != "SPENT" || qst != "PAID"):
				verdict, what = "stranded:paid-not-settled", fmt.Sprintf("the invoice was paid but after state check and poll the inputs are %s and the quote %s", st, qst)
			}
			_ = internalPaid
		}
	}
	for _, f := range captured {
		c.Hist("crash-monitor-raw", cs.name+" "+f.Signature)
	}
	if b.kind == "melt" && b.mintq == nil && len(mine) == 0 {
		// interrupted before the first Lightning call: the point is the same whatever the backend would have answered
		cs.name = "melt"
	}
	e.verdict(cs, mode, point, verdict, what, s.replay())
	return true, verdict != "ok" || len(captured) > 0 || len(c.Res.Disagreements) > dis0 || b.kind == "noop"
}

// sigName: the operation as it appears in finding signatures (variants of one operation that only differ in the
// environment share the operation's name: a stranding point of `mint` is the same defect whatever the invoice's expiry)
func sigName(name string) string {
	if name == "mint-expired-invoice" {
		return "mint"
	}
	return name
}

func (e *schedEnv) verdict(cs crashCase, mode, point, verdict, what string, replay any) {
	c := e.c
	c.Hist("crash-case", cs.name)
	key := fmt.Sprintf("%s/%s/%s/%s", mode, sigName(cs.name), point, verdict)
	c.Case(key, true)
	c.Hist("crash-verdict", key)
	if verdict != "ok" {
		c.MonitorFail("C07", "C07/"+key, fmt.Sprintf("%s of %s at %s: %s", mode, cs.name, point, what), replay)
		// a secret accepted again after it paid for a melt / was swapped is a double spend (C01: "including after a
		// restart"): the same interruption point seen by C01 (seeded change C01-7)
		if strings.HasPrefix(verdict, "unsafe:") && strings.Contains(verdict, "respent") {
			c.MonitorFail("C01", "C01/"+key, fmt.Sprintf("%s of %s at %s: %s", mode, cs.name, point, what), replay)
		}
	}
}

func runMintCrash(c *Ctx) {
	var e *schedEnv
	envIdx := 0
	fresh := func() bool {
		if e != nil {
			e.env.Close()
		}
		e = newSchedEnv(c, envIdx, crashProps)
		envIdx++
		return e != nil
	}
	if !fresh() {
		return
	}
	defer func() {
		if e != nil {
			e.env.Close()
		}
	}()
	unit := 0
	modelOff := false
	defer func() { schedModelOff = false }()
	for _, cs := range crashCases() {
		unit++
		if unit%c.ShardN != c.ShardK {
			continue
		}
		for _, fault := range []bool{false, true} {
			for k := 0; k < 40; k++ {
				if e.runs >= 40 {
					if !fresh() {
						return
					}
				}
				reached, tainted := e.runCrashPoint(cs, k, fault)
				if len(c.Res.Disagreements) > 0 && !modelOff {
					// the model has diverged from the code: the disagreement is reported; the rest of the stream runs
					// model-free so that the monitors can still find a concrete failing interruption point
					modelOff = true
					schedModelOff = true
					if !fresh() {
						return
					}
					k--
					continue
				}
				if tainted {
					if !fresh() {
						return
					}
				}
				if !reached {
					break
				}
				if cs.name == "rotate" && !fault && k >= 3 {
					break
				}
			}
		}
	}
}
