package main

import (
	"bytes"
	"encoding/base64"
	"encoding/hex"
	"encoding/json"
	"errors"
	"fmt"
	"sort"
	"strconv"
	"strings"
	"unicode/utf8"

	"github.com/elnosh/gonuts/cashu"
	"github.com/fxamacker/cbor/v2"
)

// Streams for property C14 (tokens survive serialisation exactly; decoding arbitrary text never crashes).
//
//	"token"      : generated proof lists through the REAL NewTokenV3/NewTokenV4 -> Serialize -> DecodeToken ->
//	               Proofs/Mint/Amount/Serialize, compared step by step with Model.Token, plus a model-free
//	               round-trip monitor (the property statement evaluated directly on the observed values).
//	"token-fuzz" : arbitrary strings through DecodeToken and every accessor under recover; the model predicts
//	               what the front end does (panic / sentinel error / base64 error offset / payload handed to
//	               Unmarshal) and what the accessors return; the model-free monitor is "nothing panics".
func init() {
	register("token", []string{"C14"},
		"proof lists (0..40 proofs x 1..4 keyset ids x secrets {hex, NUT-10 JSON with quotes/backslashes, non-BMP unicode, control chars} x witnesses x DLEQ {absent, e+s, e+s+r} x amounts {2^k, 2^63, 2^64-1, random} x hex case {lower, UPPER, mixed, invalid, odd} in C/id/e/s/r x unit x includeDLEQ) through the real NewTokenV3/V4 -> Serialize -> DecodeToken -> accessors vs Model.Token; class = (format, outcome kind, #proofs bucket, #ids, dleq kind, hex case, secret kind)",
		runToken)
	register("token-fuzz", []string{"C14"},
		"strings through the real DecodeToken + every accessor under recover vs the model's front end: all strings of length 0..3 over {c,a,s,h,u,A,B,=,-,_}, sampled length 4..8, both prefixes + nothing/garbage, every truncation and 1-byte mutations of valid tokens, base64 (padded/raw/with newlines) of type-directed wrong-shaped JSON/CBOR, multi-byte and invalid UTF-8 around byte 6; class = (family, outcome kind, front-end stage)",
		runTokenFuzz)
}

// ---------------------------------------------------------------- S-expression views of the Go values

func tkDleqSx(d *cashu.DLEQProof) Sx {
	if d == nil {
		return A("none")
	}
	return L(S(d.E), S(d.S), S(d.R))
}

func tkProofSx(p cashu.Proof) Sx {
	return L(N(p.Amount), S(p.Id), S(p.Secret), S(p.C), S(p.Witness), tkDleqSx(p.DLEQ))
}

func tkProofsSx(ps cashu.Proofs) Sx {
	out := make([]Sx, len(ps))
	for i, p := range ps {
		out[i] = tkProofSx(p)
	}
	return Ls(out)
}

func tkHex(b []byte) Sx { return S(hex.EncodeToString(b)) }

func tkProofV4Sx(p cashu.ProofV4) Sx {
	var d Sx = A("none")
	if p.DLEQ != nil {
		d = L(tkHex(p.DLEQ.E), tkHex(p.DLEQ.S), tkHex(p.DLEQ.R))
	}
	return L(N(p.Amount), S(p.Secret), tkHex(p.C), S(p.Witness), d)
}

func tkGroupSx(g cashu.TokenV4Proof) Sx {
	ps := make([]Sx, len(g.Proofs))
	for i, p := range g.Proofs {
		ps[i] = tkProofV4Sx(p)
	}
	return L(tkHex(g.Id), Ls(ps))
}

func tkV3Sx(t cashu.TokenV3) Sx {
	es := make([]Sx, len(t.Token))
	for i, e := range t.Token {
		es[i] = L(S(e.Mint), tkProofsSx(e.Proofs))
	}
	return L(A("v3"), Ls(es), S(t.Unit), S(t.Memo))
}

// sorted=true: groups ordered by their rendering (canonical form shared with the driver for NewTokenV4,
// whose group order comes from Go map iteration).
func tkV4Sx(t cashu.TokenV4, sorted bool) Sx {
	gs := make([]Sx, len(t.TokenProofs))
	for i, g := range t.TokenProofs {
		gs[i] = tkGroupSx(g)
	}
	if sorted {
		sort.SliceStable(gs, func(i, j int) bool { return Render(gs[i]) < Render(gs[j]) })
	}
	return L(A("v4"), Ls(gs), S(t.Memo), S(t.MintURL), S(t.Unit))
}

func tkTokenSx(t cashu.Token) Sx {
	switch x := t.(type) {
	case *cashu.TokenV3:
		return tkV3Sx(*x)
	case cashu.TokenV3:
		return tkV3Sx(x)
	case *cashu.TokenV4:
		return tkV4Sx(*x, false)
	case cashu.TokenV4:
		return tkV4Sx(x, false)
	}
	return A(fmt.Sprintf("unknown-token-type-%T", t))
}

func tkValidUTF8Token(t cashu.Token) bool { return utf8.ValidString(Render(tkTokenSx(t))) }

// tkHexErr canonicalises an encoding/hex error message: "(odd)" or "(byte N)".
func tkHexErr(msg string) string {
	if msg == "encoding/hex: odd length hex string" {
		return "odd"
	}
	const p = "encoding/hex: invalid byte: U+"
	if strings.HasPrefix(msg, p) {
		h := msg[len(p):]
		if i := strings.IndexByte(h, ' '); i >= 0 {
			h = h[:i]
		}
		if n, err := strconv.ParseUint(h, 16, 32); err == nil {
			return "byte " + strconv.FormatUint(n, 10)
		}
	}
	return "unparsed-hex-error " + strconv.Quote(msg)
}

// tkNewErr canonicalises the error of NewTokenV3/NewTokenV4: kind and hex detail.
func tkNewErr(err error) (kind, detail string) {
	if errors.Is(err, cashu.ErrInvalidUnit) {
		return "invalid-unit", ""
	}
	msg := err.Error()
	for _, c := range [][2]string{
		{"invalid C: ", "invalid-C"},
		{"invalid e in DLEQ proof: ", "invalid-e"},
		{"invalid s in DLEQ proof: ", "invalid-s"},
		{"invalid r in DLEQ proof: ", "invalid-r"},
		{"invalid keyset id: ", "invalid-keyset-id"},
	} {
		if strings.HasPrefix(msg, c[0]) {
			return c[1], tkHexErr(msg[len(c[0]):])
		}
	}
	if msg == "r in DLEQ proof cannot be empty" {
		return "empty-r", ""
	}
	return "unparsed " + strconv.Quote(msg), ""
}

// ---------------------------------------------------------------- calling the code under test

// tkRecover runs f and returns the recovered panic value rendered as text ("" = no panic).
func tkRecover(f func()) (panicMsg string) {
	defer func() {
		if r := recover(); r != nil {
			panicMsg = fmt.Sprint(r)
			if panicMsg == "" {
				panicMsg = "<empty panic>"
			}
		}
	}()
	f()
	return ""
}

type tkAccess struct {
	proofs              cashu.Proofs
	mint                string
	amount              uint64
	ser                 string
	serErr              error
	pProofs, pMint      string // panic messages
	pAmount, pSerialize string
	jsonOut             []byte // json.MarshalIndent(token) as `nutw decode` does (custom MarshalJSON methods)
	jsonErr             error
	pJSON               string
}

// tkAccessors calls EVERY accessor of the Token interface, each under its own recover.
func tkAccessors(t cashu.Token) tkAccess {
	var a tkAccess
	a.pProofs = tkRecover(func() { a.proofs = t.Proofs() })
	a.pMint = tkRecover(func() { a.mint = t.Mint() })
	a.pAmount = tkRecover(func() { a.amount = t.Amount() })
	a.pSerialize = tkRecover(func() { a.ser, a.serErr = t.Serialize() })
	a.pJSON = tkRecover(func() { a.jsonOut, a.jsonErr = json.MarshalIndent(t, "", "  ") })
	return a
}

// tkCheckJSONView: model-free consistency of the custom MarshalJSON methods with Proofs(): the JSON view of a V4
// token shows every byte field as the same hex text that Proofs() reports; the JSON view of a V3 token unmarshals
// back to the same token.  Returns "" when consistent.
func tkCheckJSONView(t cashu.Token, a tkAccess) string {
	if a.pJSON != "" || a.pProofs != "" {
		return ""
	}
	if a.jsonErr != nil {
		return "json.MarshalIndent failed: " + a.jsonErr.Error()
	}
	switch x := t.(type) {
	case *cashu.TokenV3:
		var back cashu.TokenV3
		if err := json.Unmarshal(a.jsonOut, &back); err != nil {
			return "JSON view of a V3 token does not unmarshal: " + err.Error()
		}
		if Render(tkV3Sx(back)) != Render(tkV3Sx(*x)) {
			return "JSON view of a V3 token unmarshals to a different token"
		}
	case *cashu.TokenV4:
		var view struct {
			T []struct {
				I string `json:"i"`
				P []struct {
					A uint64 `json:"a"`
					S string `json:"s"`
					C string `json:"c"`
					W string `json:"w"`
					D *struct {
						E string `json:"e"`
						S string `json:"s"`
						R string `json:"r"`
					} `json:"d"`
				} `json:"p"`
			} `json:"t"`
			D string `json:"d"`
			M string `json:"m"`
			U string `json:"u"`
		}
		if err := json.Unmarshal(a.jsonOut, &view); err != nil {
			return "JSON view of a V4 token does not unmarshal: " + err.Error()
		}
		var flat cashu.Proofs
		for _, g := range view.T {
			for _, p := range g.P {
				q := cashu.Proof{Amount: p.A, Id: g.I, Secret: p.S, C: p.C, Witness: p.W}
				if p.D != nil {
					q.DLEQ = &cashu.DLEQProof{E: p.D.E, S: p.D.S, R: p.D.R}
				}
				flat = append(flat, q)
			}
		}
		if !tkProofsEq(flat, a.proofs) || view.M != x.MintURL || view.U != x.Unit || view.D != x.Memo {
			return "JSON view of a V4 token (custom MarshalJSON) differs from Proofs()/Mint()"
		}
	}
	return ""
}

// tkIndexPanic parses "runtime error: index out of range [I] with length L".
func tkIndexPanic(msg string) (i, l int, ok bool) {
	n, _ := fmt.Sscanf(msg, "runtime error: index out of range [%d] with length %d", &i, &l)
	return i, l, n == 2
}

// tkSlicePanic parses "runtime error: slice bounds out of range [:H] with length L".
func tkSlicePanic(msg string) (h, l int, ok bool) {
	n, _ := fmt.Sscanf(msg, "runtime error: slice bounds out of range [:%d] with length %d", &h, &l)
	return h, l, n == 2
}

// implAccessSx renders the accessor outcomes in the format of the driver's token.access answer.
func (a tkAccess) sx() string {
	var mint Sx
	if a.pMint != "" {
		if i, l, ok := tkIndexPanic(a.pMint); ok {
			mint = L(A("mint"), A("panic"), I(i), I(l))
		} else {
			mint = L(A("mint"), A("panic-other"), S(a.pMint))
		}
	} else {
		mint = L(A("mint"), S(a.mint))
	}
	var proofs Sx
	if a.pProofs != "" {
		proofs = L(A("proofs"), A("panic"), S(a.pProofs))
	} else {
		proofs = L(A("proofs"), tkProofsSx(a.proofs))
	}
	var amount Sx
	if a.pAmount != "" {
		amount = L(A("amount"), A("panic"), S(a.pAmount))
	} else {
		amount = L(A("amount"), N(a.amount))
	}
	return Render(L(proofs, mint, amount))
}

// tkPanicMonitor is the model-free monitor of the second half of C14: nothing may panic.
func tkPanicMonitor(c *Ctx, where, msg string, t cashu.Token, input string) {
	if msg == "" {
		return
	}
	sig := ""
	switch where {
	case "DecodeToken", "DecodeTokenV3", "DecodeTokenV4":
		if h, _, ok := tkSlicePanic(msg); ok && h == 6 {
			sig = "C14/DecodeToken/short-string"
		}
	case "Mint":
		if t3, ok := t.(*cashu.TokenV3); ok && len(t3.Token) == 0 {
			if i, l, ok := tkIndexPanic(msg); ok && i == 0 && l == 0 {
				sig = "C14/TokenV3.Mint/empty-token-list"
			}
		}
	}
	if sig == "" {
		m := msg
		if len(m) > 60 {
			m = m[:60]
		}
		sig = "C14/" + where + "/panic:" + m
	}
	c.Hist("panic", sig)
	c.MonitorFail("C14", sig, fmt.Sprintf("%s panicked on input %q: %s", where, tkClip(input, 200), msg),
		map[string]any{"input": input, "input_hex": hex.EncodeToString([]byte(input)), "where": where, "panic": msg})
}

func tkClip(s string, n int) string {
	if len(s) > n {
		return s[:n] + "…"
	}
	return s
}

// ---------------------------------------------------------------- generators

const tkHexLower = "0123456789abcdef"

func tkRandHex(r *Rng, nbytes int) string {
	b := make([]byte, 2*nbytes)
	for i := range b {
		b[i] = tkHexLower[r.Intn(16)]
	}
	return string(b)
}

// tkHexCase turns a lower-case hex string into the requested flavour.
// kinds: lower, upper, mixed, invalid (one non-hex byte), odd (one char dropped), empty
func tkHexCase(r *Rng, s, kind string) string {
	switch kind {
	case "upper":
		return strings.ToUpper(s)
	case "mixed":
		b := []byte(s)
		for i := range b {
			if r.Bool() {
				b[i] = strings.ToUpper(string(b[i]))[0]
			}
		}
		return string(b)
	case "invalid":
		if len(s) == 0 {
			return "zz"
		}
		bad := []string{"g", "G", "z", " ", "-", "_", "x", "\x00", "é", "🥜", "\n", "=", "/"}
		i := r.Intn(len(s))
		return s[:i] + bad[r.Intn(len(bad))] + s[i+1:]
	case "odd":
		if len(s) == 0 {
			return "a"
		}
		return s[:len(s)-1]
	case "empty":
		return ""
	}
	return s
}

func tkPickHexKind(r *Rng, pLower int) string {
	if r.Chance(pLower) {
		return "lower"
	}
	return []string{"upper", "mixed", "invalid", "odd", "empty", "upper", "mixed"}[r.Intn(7)]
}

var tkUnicodeBits = []string{
	"🥜", "𝄞", "é", "ß", "日本語", "\u2028", "\u2029", "\u0000", "\u0001", "\u001f", "\u007f", "\u0080", "\ufffd",
	"\ufeff", "\\", "\"", "\\\"", "\\u0041", "<", ">", "&", "'", "/", "\t", "\n", "\r", "\U0010ffff", "\ud7ff", "\ue000",
	"{", "}", "[", "]", ",", ":", " ",
}

func tkWeirdString(r *Rng, maxParts int) string {
	var sb strings.Builder
	n := r.Intn(maxParts + 1)
	for i := 0; i < n; i++ {
		if r.Chance(60) {
			sb.WriteString(tkUnicodeBits[r.Intn(len(tkUnicodeBits))])
		} else {
			sb.WriteString(tkRandHex(r, 1+r.Intn(3)))
		}
	}
	return sb.String()
}

// tkSecret returns a secret and its kind.
func tkSecret(r *Rng) (string, string) {
	switch r.Intn(8) {
	case 0, 1:
		return tkRandHex(r, 32), "hex"
	case 2:
		tags := `[["sigflag","SIG_ALL"],["n_sigs","2"],["pubkeys","02` + tkRandHex(r, 32) + `","03` + tkRandHex(r, 32) + `"],["locktime","` + strconv.Itoa(r.Intn(1<<31)) + `"]]`
		return `["P2PK",{"nonce":"` + tkRandHex(r, 16) + `","data":"02` + tkRandHex(r, 32) + `","tags":` + tags + `}]`, "nut10-p2pk"
	case 3:
		return `["HTLC",{"nonce":"` + tkRandHex(r, 16) + `","data":"` + tkRandHex(r, 32) + `"}]`, "nut10-htlc"
	case 4:
		// NUT-10 shaped with hostile string content (quotes, backslashes, non-BMP)
		return `["P2PK",{"nonce":"` + tkWeirdString(r, 4) + `","data":"` + tkWeirdString(r, 4) + `","tags":[["` + tkWeirdString(r, 2) + `"]]}]`, "nut10-weird"
	case 5:
		return tkWeirdString(r, 8), "unicode"
	case 6:
		return "", "empty"
	default:
		// cashu.MAX_SECRET_LENGTH is 512: go somewhat beyond it
		return strings.Repeat(tkWeirdString(r, 3)+"x", 1+r.Intn(60)), "long"
	}
}

func tkWitness(r *Rng) string {
	switch r.Intn(6) {
	case 0, 1, 2:
		return ""
	case 3:
		return `{"signatures":["` + tkRandHex(r, 64) + `","` + tkRandHex(r, 64) + `"]}`
	case 4:
		return `{"preimage":"` + tkRandHex(r, 32) + `","signatures":["` + tkRandHex(r, 64) + `"]}`
	default:
		return tkWeirdString(r, 6)
	}
}

func tkMint(r *Rng) string {
	switch r.Intn(6) {
	case 0:
		return ""
	case 1:
		return "https://mint.example/" + tkWeirdString(r, 3)
	case 2:
		return "http://127.0.0.1:3338"
	default:
		return "http://localhost:" + strconv.Itoa(1024+r.Intn(60000))
	}
}

type tkCase struct {
	proofs      cashu.Proofs
	mint        string
	unit        cashu.Unit
	includeDLEQ bool
	// classification
	nIds       int
	hexClass   string // lower | upper/mixed (valid, not canonical) | bad (some field invalid)
	dleqClass  string
	secretKind string
}

func tkCopyProofs(ps cashu.Proofs) cashu.Proofs {
	out := make(cashu.Proofs, len(ps))
	for i, p := range ps {
		out[i] = p
		if p.DLEQ != nil {
			d := *p.DLEQ
			out[i].DLEQ = &d
		}
	}
	return out
}

// tkGenCase draws one proof list.  pClean is the percentage of lists in which every hex field is lower-case
// hex (the hypothesis of v4_roundtrip); the others mix in upper-case, invalid, odd-length and empty fields.
func tkGenCase(r *Rng, maxProofs int, pClean int) tkCase {
	var tc tkCase
	n := 0
	switch r.Intn(10) {
	case 0:
		n = 0
	case 1:
		n = 1
	case 2:
		n = maxProofs
	default:
		n = r.Intn(maxProofs + 1)
	}
	// hex profile of the whole list: clean (all lower-case), nonlower (valid hex, some upper/mixed case),
	// bad (a few invalid / odd-length / empty fields among mostly valid ones)
	clean := r.Chance(pClean)
	profile := "clean"
	if !clean {
		profile = []string{"nonlower", "bad", "bad"}[r.Intn(3)]
	}
	pick := func() string {
		switch profile {
		case "nonlower":
			if r.Chance(70) {
				return "lower"
			}
			return []string{"upper", "mixed"}[r.Intn(2)]
		case "bad":
			if r.Chance(97) {
				return "lower"
			}
			return tkPickHexKind(r, 0)
		}
		return "lower"
	}
	// DLEQ profile of the whole list
	dleqProfile := []string{"none", "all-esr", "absent|esr", "any", "any"}[r.Intn(5)]
	nIds := 1 + r.Intn(4)
	ids := make([]string, nIds)
	for i := range ids {
		base := "00" + tkRandHex(r, 7)
		if r.Chance(10) {
			base = tkRandHex(r, 33) // v2-style long id
		}
		ids[i] = tkHexCase(r, base, pick())
		// sometimes two ids that differ only in case: distinct map keys, same id bytes
		if !clean && i > 0 && r.Chance(15) {
			ids[i] = strings.ToUpper(ids[i-1])
		}
	}
	tc.nIds = nIds
	tc.secretKind = ""
	dleqKinds := map[string]bool{}
	classes := map[string]bool{}
	note := func(s, kind string) {
		switch kind {
		case "lower":
		case "upper", "mixed":
			if s != strings.ToLower(s) {
				classes["nonlower"] = true
			}
		default:
			classes["bad"] = true
		}
	}
	for i := 0; i < n; i++ {
		var p cashu.Proof
		p.Amount = edgeU64(r)
		if r.Chance(50) {
			p.Amount = uint64(1) << uint(r.Intn(20))
		}
		p.Id = ids[r.Intn(nIds)]
		sec, sk := tkSecret(r)
		p.Secret = sec
		if i == 0 || r.Chance(30) {
			tc.secretKind = sk
		}
		k := pick()
		p.C = tkHexCase(r, "02"+tkRandHex(r, 32), k)
		note(p.C, k)
		p.Witness = tkWitness(r)
		dk := r.Intn(4)
		switch dleqProfile {
		case "none":
			dk = 0
		case "all-esr":
			dk = 2
		case "absent|esr":
			dk = 2 * r.Intn(2)
		}
		switch dk {
		case 0:
			dleqKinds["absent"] = true
		case 1:
			ke, ks := pick(), pick()
			p.DLEQ = &cashu.DLEQProof{E: tkHexCase(r, tkRandHex(r, 32), ke), S: tkHexCase(r, tkRandHex(r, 32), ks)}
			note(p.DLEQ.E, ke)
			note(p.DLEQ.S, ks)
			dleqKinds["e+s"] = true
		default:
			ke, ks, kr := pick(), pick(), pick()
			p.DLEQ = &cashu.DLEQProof{E: tkHexCase(r, tkRandHex(r, 32), ke), S: tkHexCase(r, tkRandHex(r, 32), ks),
				R: tkHexCase(r, tkRandHex(r, 32), kr)}
			note(p.DLEQ.E, ke)
			note(p.DLEQ.S, ks)
			note(p.DLEQ.R, kr)
			dleqKinds["e+s+r"] = true
		}
		tc.proofs = append(tc.proofs, p)
	}
	for _, id := range ids {
		if _, err := hex.DecodeString(id); err != nil {
			classes["bad"] = true
		} else if id != strings.ToLower(id) {
			classes["nonlower"] = true
		}
	}
	switch {
	case classes["bad"]:
		tc.hexClass = "bad"
	case classes["nonlower"]:
		tc.hexClass = "nonlower"
	default:
		tc.hexClass = "lower"
	}
	tc.dleqClass = strings.Join(sortedKeys(dleqKinds), ",")
	if tc.dleqClass == "" {
		tc.dleqClass = "-"
	}
	if tc.proofs == nil {
		tc.proofs = cashu.Proofs{}
	}
	tc.mint = tkMint(r)
	tc.unit = cashu.Sat
	if r.Chance(4) {
		tc.unit = cashu.Unit(1 + r.Intn(3))
		if r.Bool() {
			tc.unit = cashu.Unit(-1 - r.Intn(3))
		}
	}
	tc.includeDLEQ = r.Bool()
	return tc
}

func tkBucket(n int) string {
	switch {
	case n == 0:
		return "0"
	case n == 1:
		return "1"
	case n <= 4:
		return "2-4"
	case n <= 16:
		return "5-16"
	default:
		return "17+"
	}
}

func tkSum(ps cashu.Proofs) uint64 {
	var s uint64
	for _, p := range ps {
		s += p.Amount
	}
	return s
}

func tkProofEq(a, b cashu.Proof) bool {
	if a.Amount != b.Amount || a.Id != b.Id || a.Secret != b.Secret || a.C != b.C || a.Witness != b.Witness {
		return false
	}
	if (a.DLEQ == nil) != (b.DLEQ == nil) {
		return false
	}
	return a.DLEQ == nil || *a.DLEQ == *b.DLEQ
}

func tkProofsEq(a, b cashu.Proofs) bool {
	if len(a) != len(b) {
		return false
	}
	for i := range a {
		if !tkProofEq(a[i], b[i]) {
			return false
		}
	}
	return true
}

// ---------------------------------------------------------------- batched driver queries

type tkQuery struct {
	op     Sx
	expect string                    // exact expected answer ("" = use check)
	check  func(model string) string // returns "" when the model's answer is acceptable, else the impl view
	what   string
	replay any
}

type tkBatch struct {
	c  *Ctx
	qs []tkQuery
}

func (b *tkBatch) add(what string, op Sx, expect string, replay any) {
	b.qs = append(b.qs, tkQuery{op: op, expect: expect, what: what, replay: replay})
}

func (b *tkBatch) addCheck(what string, op Sx, check func(string) string, replay any) {
	b.qs = append(b.qs, tkQuery{op: op, check: check, what: what, replay: replay})
}

func (b *tkBatch) flush() {
	if len(b.qs) == 0 {
		return
	}
	ops := make([]Sx, len(b.qs))
	for i, q := range b.qs {
		ops[i] = q.op
	}
	ans := b.c.Drv.Batch(ops)
	for i, q := range b.qs {
		b.c.Hist("driver-op", q.what)
		if q.check != nil {
			if impl := q.check(ans[i]); impl != "" {
				b.c.Disagree([]string{"C14"}, tkClip(Render(q.op), 4000), tkClip(impl, 4000), tkClip(ans[i], 4000), q.replay)
			}
		} else if ans[i] != q.expect {
			b.c.Disagree([]string{"C14"}, tkClip(Render(q.op), 4000), tkClip(q.expect, 4000), tkClip(ans[i], 4000), q.replay)
		}
	}
	b.qs = b.qs[:0]
}

func (b *tkBatch) maybeFlush() {
	if len(b.qs) >= 400 {
		b.flush()
	}
}

// ---------------------------------------------------------------- stream "token"

func runToken(c *Ctx) {
	n := 1000
	if c.Thorough {
		n = 15000
	}
	b := &tkBatch{c: c}
	for i := 0; i < n; i++ {
		tc := tkGenCase(c.Rng, 40, 55)
		tkRoundTripCase(c, b, tc, i)
		b.maybeFlush()
	}
	b.flush()
	tkHexB64Cases(c, b, n*4)
	b.flush()
	tkOutsideDomain(c)
}

func tkRoundTripCase(c *Ctx, b *tkBatch, tc tkCase, idx int) {
	replay := map[string]any{"case": idx, "proofs": Render(tkProofsSx(tc.proofs)), "mint": tc.mint, "unit": int(tc.unit), "includeDLEQ": tc.includeDLEQ}
	args := []Sx{tkProofsSx(tc.proofs), S(tc.mint), I(int(tc.unit)), B(tc.includeDLEQ)}
	wantSum := tkSum(tc.proofs)

	// ---------------- V3
	{
		in := tkCopyProofs(tc.proofs)
		var tok cashu.TokenV3
		var err error
		if p := tkRecover(func() { tok, err = cashu.NewTokenV3(in, tc.mint, tc.unit, tc.includeDLEQ) }); p != "" {
			tkPanicMonitor(c, "NewTokenV3", p, nil, Render(args[0]))
			return
		}
		kind := "ok"
		if err != nil {
			k, _ := tkNewErr(err)
			kind = k
			b.add("newv3", L(append([]Sx{A("token.newv3")}, args...)...), Render(L(A("err"), A(k))), replay)
		} else {
			b.add("newv3", L(append([]Sx{A("token.newv3")}, args...)...), Render(L(A("ok"), tkV3Sx(tok))), replay)
			// observation (not part of the property): NewTokenV3(includeDLEQ=false) clears the DLEQs of the caller's slice
			if !tc.includeDLEQ {
				mut := false
				for j := range in {
					if tc.proofs[j].DLEQ != nil && in[j].DLEQ == nil {
						mut = true
					}
				}
				if mut {
					c.Hist("observation", "NewTokenV3(includeDLEQ=false) cleared DLEQ in the caller's slice")
				}
			}
			want := tkCopyProofs(tc.proofs)
			if !tc.includeDLEQ {
				for j := range want {
					want[j].DLEQ = nil
				}
			}
			tkSerializeDecode(c, b, "v3", tok, tc, want, nil, wantSum, replay)
		}
		key := fmt.Sprintf("v3/%s/n=%s/ids=%d/dleq=%s/incl=%v/hex=%s/secret=%s", kind, tkBucket(len(tc.proofs)), tc.nIds, tc.dleqClass, tc.includeDLEQ, tc.hexClass, tc.secretKind)
		c.Case(key, len(tc.proofs) > 0)
		c.Hist("v3-outcome", kind)
	}

	// ---------------- V4
	{
		in := tkCopyProofs(tc.proofs)
		var tok cashu.TokenV4
		var err error
		if p := tkRecover(func() { tok, err = cashu.NewTokenV4(in, tc.mint, tc.unit, tc.includeDLEQ) }); p != "" {
			tkPanicMonitor(c, "NewTokenV4", p, nil, Render(args[0]))
			return
		}
		op := L(append([]Sx{A("token.newv4")}, args...)...)
		kind := "ok"
		if err != nil {
			k, d := tkNewErr(err)
			kind = k
			switch {
			case k == "invalid-keyset-id":
				// which invalid key the map iteration meets first is unspecified: the model lists every candidate
				impl := "(err invalid-keyset-id … (" + d + ") …)"
				b.addCheck("newv4", op, func(model string) string {
					if strings.HasPrefix(model, "(err invalid-keyset-id ") && strings.Contains(model, " ("+d+")") {
						return ""
					}
					return impl
				}, replay)
			case d != "":
				b.add("newv4", op, "(err "+k+" "+d+")", replay)
			default:
				b.add("newv4", op, "(err "+k+")", replay)
			}
		} else {
			b.add("newv4", op, Render(L(A("ok"), tkV4Sx(tok, true))), replay)
			tkSerializeDecode(c, b, "v4", tok, tc, nil, tc.proofs, wantSum, replay)
		}
		key := fmt.Sprintf("v4/%s/n=%s/ids=%d/dleq=%s/incl=%v/hex=%s/secret=%s", kind, tkBucket(len(tc.proofs)), tc.nIds, tc.dleqClass, tc.includeDLEQ, tc.hexClass, tc.secretKind)
		c.Case(key, len(tc.proofs) > 0)
		c.Hist("v4-outcome", kind)
		c.Hist("hex-class", tc.hexClass)
	}
	if idx < 3 {
		c.Sample(replay)
	}
}

// tkSerializeDecode: Serialize -> model front end on the serialised string -> DecodeToken -> accessors vs model ->
// model-free round-trip monitor.  wantExact (V3) is the exact expected proof list; v4Input (V4) is the input list
// from which the expected decoded list is derived by the property statement.
func tkSerializeDecode(c *Ctx, b *tkBatch, format string, tok cashu.Token, tc tkCase, wantExact cashu.Proofs, v4Input cashu.Proofs, wantSum uint64, replay any) {
	var ser string
	var err error
	if p := tkRecover(func() { ser, err = tok.Serialize() }); p != "" {
		tkPanicMonitor(c, "Serialize", p, tok, "")
		return
	}
	if err != nil {
		c.MonitorFail("C14", "C14/roundtrip/serialize-error", "Serialize of a freshly built token failed: "+err.Error(), replay)
		return
	}
	// what the model's front end must say about this string: the payload handed to Unmarshal is exactly what the
	// marshaller produced (this ties the base64 model and the prefix logic to the real Serialize)
	var payload []byte
	var expectFront string
	if format == "v3" {
		payload, _ = json.Marshal(tok)
		expectFront = `((v4 (err invalid-v4)) (v3 (payload "` + hex.EncodeToString(payload) + `")))`
	} else {
		payload, _ = cbor.Marshal(tok)
		expectFront = `((v4 (payload "` + hex.EncodeToString(payload) + `")) (v3 (err invalid-v3)))`
	}
	b.add("front(serialized)", L(A("token.front"), S(hex.EncodeToString([]byte(ser)))), expectFront, replay)
	// the modelled marshallers (Model.TokenWire: struct tags, omitempty, JSON escaping, CBOR heads) reproduce the
	// serialised string byte for byte
	b.add("serialize", L(A("token.serialize"), tkTokenSx(tok)), Render(S(ser)), replay)
	// the canonical parser of the model (proved inverse of the modelled marshaller) reads the REAL payload back
	// to the same token the real Unmarshal yields (compared below with the decoded token)
	parseCmd := "token.parse-json"
	if format == "v4" {
		parseCmd = "token.parse-cbor"
	}
	b.add(parseCmd, L(A(parseCmd), tkHex(payload)), Render(L(A("some"), tkTokenSx(tok))), replay)

	var dec cashu.Token
	if p := tkRecover(func() { dec, err = cashu.DecodeToken(ser) }); p != "" {
		tkPanicMonitor(c, "DecodeToken", p, nil, ser)
		return
	}
	if err != nil {
		c.MonitorFail("C14", "C14/roundtrip/"+format+"-decode-error", "DecodeToken rejects a freshly serialised token: "+err.Error(), replay)
		return
	}
	// hypothesis of the round-trip theorems, checked on the real libraries: dec (enc t) = t
	if Render(tkTokenSx(dec)) != Render(tkTokenSx(tok)) {
		c.MonitorFail("C14", "C14/roundtrip/"+format+"-token-differs", "decoded token differs from the serialised one (Unmarshal(Marshal t) != t)",
			map[string]any{"case": replay, "before": tkClip(Render(tkTokenSx(tok)), 3000), "after": tkClip(Render(tkTokenSx(dec)), 3000)})
	}
	acc := tkAccessors(dec)
	tkPanicMonitor(c, "Proofs", acc.pProofs, dec, ser)
	tkPanicMonitor(c, "Mint", acc.pMint, dec, ser)
	tkPanicMonitor(c, "Amount", acc.pAmount, dec, ser)
	tkPanicMonitor(c, "Serialize", acc.pSerialize, dec, ser)
	tkPanicMonitor(c, "MarshalJSON", acc.pJSON, dec, ser)
	if what := tkCheckJSONView(dec, acc); what != "" {
		c.MonitorFail("C14", "C14/json-view/"+format, what, replay)
	}
	b.add("access(decoded)", L(A("token.access"), tkTokenSx(dec)), acc.sx(), replay)

	// ---- model-free monitor: the property statement on the observed values
	fail := func(sig, what string) {
		c.MonitorFail("C14", "C14/roundtrip/"+format+"-"+sig, what, map[string]any{"case": replay, "serialized": tkClip(ser, 3000),
			"decoded_proofs": tkClip(Render(tkProofsSx(acc.proofs)), 3000)})
	}
	if acc.pMint == "" && acc.mint != tc.mint {
		fail("mint", fmt.Sprintf("mint %q became %q", tc.mint, acc.mint))
	}
	switch t := dec.(type) {
	case *cashu.TokenV3:
		if t.Unit != "sat" {
			fail("unit", "unit is "+t.Unit)
		}
	case *cashu.TokenV4:
		if t.Unit != "sat" {
			fail("unit", "unit is "+t.Unit)
		}
	}
	if acc.pAmount == "" && acc.amount != wantSum {
		fail("amount", fmt.Sprintf("amount %d, wrapping sum of the proofs %d", acc.amount, wantSum))
	}
	if acc.pAmount == "" && acc.pProofs == "" && acc.amount != tkSum(acc.proofs) {
		fail("amount-vs-proofs", fmt.Sprintf("amount %d, wrapping sum of Proofs() %d", acc.amount, tkSum(acc.proofs)))
	}
	if acc.pSerialize == "" && acc.serErr == nil && format == "v3" && acc.ser != ser {
		fail("reserialize", "Serialize of the decoded token differs from the original string")
	}
	if acc.pSerialize == "" && acc.serErr != nil {
		fail("reserialize-error", "Serialize of the decoded token failed: "+acc.serErr.Error())
	}
	if acc.pProofs != "" {
		return
	}
	// C10: the DLEQ proof travelling with a proof in a token is that proof's OWN (or none) — a third party verifies it
	// against this very secret and C (input secrets are unique per case unless the case says otherwise)
	{
		bySecret := map[string][]cashu.Proof{}
		for _, p := range tc.proofs {
			bySecret[p.Secret] = append(bySecret[p.Secret], p)
		}
		for _, g := range acc.proofs {
			cands := bySecret[g.Secret]
			if len(cands) == 0 {
				continue // reported by the C14 monitors
			}
			ok := false
			for _, in := range cands {
				switch {
				case g.DLEQ == nil:
					ok = ok || !tc.includeDLEQ || in.DLEQ == nil
				case in.DLEQ != nil && tc.includeDLEQ:
					ok = ok || (strings.EqualFold(g.DLEQ.E, in.DLEQ.E) && strings.EqualFold(g.DLEQ.S, in.DLEQ.S) && strings.EqualFold(g.DLEQ.R, in.DLEQ.R))
				}
			}
			if !ok {
				c.MonitorFail("C10", "C10/token/"+format+"-dleq-not-the-proofs-own", "after NewToken -> Serialize -> DecodeToken a proof carries a DLEQ proof that is not the one it was given (another proof's, or one it never had)",
					map[string]any{"case": replay, "secret": tkClip(g.Secret, 200), "serialized": tkClip(ser, 3000)})
				break
			}
		}
	}
	if format == "v3" {
		if !tkProofsEq(acc.proofs, wantExact) {
			fail("proofs", "decoded proofs differ from the input (same order, DLEQ cleared iff includeDLEQ=false)")
		}
		return
	}
	if what := tkCheckV4Proofs(dec.(*cashu.TokenV4), acc.proofs, v4Input, tc.includeDLEQ); what != "" {
		fail("proofs", what)
	}
	if tc.hexClass == "lower" && !tkSameMultiset(acc.proofs, v4Input, tc.includeDLEQ) {
		fail("multiset", "lower-case input: decoded proofs are not a permutation of the input")
	}
}

// tkNormV4 is what the property promises for one input proof after a V4 round trip: hex fields in canonical
// (lower-case) form, DLEQ kept iff requested.
func tkNormV4(p cashu.Proof, includeDLEQ bool) cashu.Proof {
	q := p
	q.Id = strings.ToLower(p.Id)
	q.C = strings.ToLower(p.C)
	if includeDLEQ && p.DLEQ != nil {
		q.DLEQ = &cashu.DLEQProof{E: strings.ToLower(p.DLEQ.E), S: strings.ToLower(p.DLEQ.S), R: strings.ToLower(p.DLEQ.R)}
	} else {
		q.DLEQ = nil
	}
	return q
}

// tkCheckV4Proofs: the decoded list must be the concatenation, in SOME order of the distinct keyset-id strings
// of the input, of the per-keyset subsequences of the input (order inside a keyset preserved).
func tkCheckV4Proofs(dec *cashu.TokenV4, got cashu.Proofs, input cashu.Proofs, includeDLEQ bool) string {
	// expected subsequence per distinct id string (map keys of NewTokenV4)
	var keys []string
	sub := map[string]cashu.Proofs{}
	for _, p := range input {
		if _, ok := sub[p.Id]; !ok {
			keys = append(keys, p.Id)
		}
		sub[p.Id] = append(sub[p.Id], tkNormV4(p, includeDLEQ))
	}
	if len(dec.TokenProofs) != len(keys) {
		return fmt.Sprintf("%d groups for %d distinct keyset ids", len(dec.TokenProofs), len(keys))
	}
	used := map[string]bool{}
	off := 0
	for gi, g := range dec.TokenProofs {
		n := len(g.Proofs)
		if off+n > len(got) {
			return "Proofs() shorter than the groups"
		}
		seg := got[off : off+n]
		off += n
		found := false
		for _, k := range keys {
			if used[k] || strings.ToLower(k) != hex.EncodeToString(g.Id) {
				continue
			}
			if tkProofsEq(seg, sub[k]) {
				used[k] = true
				found = true
				break
			}
		}
		if !found {
			return fmt.Sprintf("group %d (id %x) is not the subsequence of the input proofs of any unused keyset id", gi, g.Id)
		}
	}
	if off != len(got) {
		return "Proofs() longer than the groups"
	}
	return ""
}

func tkSameMultiset(got, input cashu.Proofs, includeDLEQ bool) bool {
	if len(got) != len(input) {
		return false
	}
	cnt := map[string]int{}
	for _, p := range input {
		q := p
		if !includeDLEQ {
			q.DLEQ = nil
		}
		cnt[Render(tkProofSx(q))]++
	}
	for _, p := range got {
		cnt[Render(tkProofSx(p))]--
	}
	for _, v := range cnt {
		if v != 0 {
			return false
		}
	}
	return true
}

// tkHexB64Cases: encoding/hex and encoding/base64 (URLEncoding, RawURLEncoding) vs the executable Lean functions,
// including error offsets, '\r'/'\n' skipping, padding in odd places.
func tkHexB64Cases(c *Ctx, b *tkBatch, n int) {
	r := c.Rng
	b64alpha := "ABCDEFGHIJKLMNOPQRSTUVWXYZabcdefghijklmnopqrstuvwxyz0123456789-_"
	for i := 0; i < n; i++ {
		switch r.Intn(4) {
		case 0: // hex decode of near-hex strings
			s := tkHexCase(r, tkRandHex(r, r.Intn(6)), tkPickHexKind(r, 30))
			if r.Chance(20) {
				s = tkWeirdString(r, 3)
			}
			out, err := hex.DecodeString(s)
			exp := ""
			if err != nil {
				exp = "(err " + tkHexErr(err.Error()) + ")"
			} else {
				exp = `(ok "` + hex.EncodeToString(out) + `")`
			}
			b.add("hexdec", L(A("token.hexdec"), S(s)), exp, nil)
			c.Case("hexdec/"+strings.SplitN(exp, " ", 2)[0], true)
			if err == nil {
				b.add("lower", L(A("token.lower"), S(s)), Render(S(hex.EncodeToString(out))), nil)
			}
		case 1: // encode/decode round trip of random bytes, both encodings, cross-decoding
			raw := r.Bytes(r.Intn(12))
			pad := r.Bool()
			enc := base64.RawURLEncoding
			if pad {
				enc = base64.URLEncoding
			}
			s := enc.EncodeToString(raw)
			b.add("b64enc", L(A("token.b64enc"), B(pad), tkHex(raw)), Render(tkHex([]byte(s))), nil)
			b.add("hexenc", L(A("token.hexenc"), tkHex(raw)), Render(S(hex.EncodeToString(raw))), nil)
			c.Case(fmt.Sprintf("b64enc/pad=%v/len%%3=%d", pad, len(raw)%3), true)
			fallthrough
		default: // decode of near-base64 strings
			m := r.Intn(14)
			sb := make([]byte, 0, m+4)
			for j := 0; j < m; j++ {
				switch {
				case r.Chance(80):
					sb = append(sb, b64alpha[r.Intn(64)])
				case r.Chance(40):
					sb = append(sb, '=')
				case r.Chance(40):
					sb = append(sb, "\r\n"[r.Intn(2)])
				default:
					sb = append(sb, "+/ .*\x00\xff\x80~"[r.Intn(9)])
				}
			}
			if r.Chance(40) {
				sb = append(sb, "===="[:r.Intn(4)]...)
			}
			if r.Chance(15) {
				sb = append(sb, "\n\r\n="[r.Intn(4)])
			}
			for _, pad := range []bool{true, false} {
				enc := base64.RawURLEncoding
				if pad {
					enc = base64.URLEncoding
				}
				out, err := enc.DecodeString(string(sb))
				exp := ""
				if err != nil {
					var ce base64.CorruptInputError
					if errors.As(err, &ce) {
						exp = "(err " + strconv.FormatInt(int64(ce), 10) + ")"
					} else {
						exp = "(err-other " + err.Error() + ")"
					}
				} else {
					exp = `(ok "` + hex.EncodeToString(out) + `")`
				}
				b.add("b64dec", L(A("token.b64dec"), B(pad), tkHex(sb)), exp, nil)
				c.Case(fmt.Sprintf("b64dec/pad=%v/%s/len%%4=%d", pad, strings.SplitN(exp, " ", 2)[0], len(sb)%4), true)
			}
		}
		b.maybeFlush()
	}
}

// tkOutsideDomain records (histogram only, never a failure) what happens to Go strings that are NOT valid UTF-8:
// they are outside the property's domain (proof fields are text), and outside the model (Lean `String`).
func tkOutsideDomain(c *Ctx) {
	ps := cashu.Proofs{{Amount: 1, Id: "00ab", Secret: "bad\xff\xfeutf8", C: "02ab"}}
	if t3, err := cashu.NewTokenV3(tkCopyProofs(ps), "m", cashu.Sat, true); err == nil {
		s, _ := t3.Serialize()
		d, err := cashu.DecodeToken(s)
		switch {
		case err != nil:
			c.Hist("outside-domain", "v3 invalid-UTF-8 secret: decode error")
		case d.Proofs()[0].Secret != ps[0].Secret:
			c.Hist("outside-domain", "v3 invalid-UTF-8 secret: bytes replaced by U+FFFD (encoding/json)")
		default:
			c.Hist("outside-domain", "v3 invalid-UTF-8 secret: preserved")
		}
	}
	if t4, err := cashu.NewTokenV4(tkCopyProofs(ps), "m", cashu.Sat, true); err == nil {
		s, _ := t4.Serialize()
		d, err := cashu.DecodeToken(s)
		switch {
		case err != nil:
			c.Hist("outside-domain", "v4 invalid-UTF-8 secret: serialises, then DecodeToken returns an error (cbor rejects invalid UTF-8)")
		case d.Proofs()[0].Secret != ps[0].Secret:
			c.Hist("outside-domain", "v4 invalid-UTF-8 secret: altered")
		default:
			c.Hist("outside-domain", "v4 invalid-UTF-8 secret: preserved")
		}
	}
}

// ---------------------------------------------------------------- stream "token-fuzz"

// tkExpectDecode computes, from the model's front-end answer and the REAL json/cbor libraries applied to the payload
// the model says is handed to Unmarshal, what DecodeTokenV4, DecodeTokenV3 and DecodeToken must return.
// Returns the three canonical outcome strings joined as "V4=… V3=… TOKEN=…".
func tkExpectDecode(c *Ctx, model string) (string, bool) {
	// model: ((v4 STAGE) (v3 STAGE))
	if !strings.HasPrefix(model, "((v4 ") || !strings.HasSuffix(model, "))") {
		return "", false
	}
	mid := strings.Index(model, ") (v3 ")
	if mid < 0 {
		return "", false
	}
	v4 := model[5:mid]
	v3 := model[mid+6 : len(model)-2]
	// outcome of one decoder: kind = panic | err | ok ; text = canonical rendering; errMsg = message when kind == err
	one := func(version int, s string) (kind, text, errMsg string, ok bool) {
		mkErr := func(m string) (string, string, string, bool) { return "err", Render(L(A("err"), S(m))), m, true }
		switch {
		case strings.HasPrefix(s, "(panic "):
			var h, l int
			fmt.Sscanf(s[7:len(s)-1], "%d %d", &h, &l)
			return "panic", fmt.Sprintf("(panic \"runtime error: slice bounds out of range [:%d] with length %d\")", h, l), "", true
		case s == "(err invalid-v3)" && version == 3:
			return mkErr("invalid V3 token")
		case s == "(err invalid-v4)" && version == 4:
			return mkErr("invalid V4 token")
		case strings.HasPrefix(s, "(err (b64err "):
			return mkErr("error decoding token: illegal base64 data at input byte " + s[13:len(s)-2])
		case strings.HasPrefix(s, `(payload "`):
			p, err := hex.DecodeString(s[10 : len(s)-2])
			if err != nil {
				return "", "", "", false
			}
			if version == 4 {
				var t cashu.TokenV4
				uerr := cbor.Unmarshal(p, &t)
				if uerr != nil {
					return mkErr("cbor.Unmarshal: " + uerr.Error())
				}
				return "ok", "(ok " + Render(tkV4Sx(t, false)) + ")", "", true
			}
			var t cashu.TokenV3
			uerr := json.Unmarshal(p, &t)
			if err := uerr; err != nil {
				return mkErr("error unmarshaling token: " + err.Error())
			}
			// the check DecodeTokenV3 makes after Unmarshal is the model's (checkV3); the driver is idle here
			// (Batch has collected every answer before the checks run)
			switch c.Drv.Ask(L(A("token.check-v3"), tkV3Sx(t))) {
			case "(ok)":
				return "ok", "(ok " + Render(tkV3Sx(t)) + ")", "", true
			case "(err invalid-v3)":
				return mkErr("invalid V3 token")
			}
		}
		return "", "", "", false
	}
	k4, t4, _, ok4 := one(4, v4)
	k3, t3, m3, ok3 := one(3, v3)
	if !ok4 || !ok3 {
		return "", false
	}
	// DecodeToken: V4 first; on error V3, whose error is wrapped
	tok := ""
	switch {
	case k4 == "panic" || k4 == "ok":
		tok = t4
	case k3 == "panic" || k3 == "ok":
		tok = t3
	default:
		tok = Render(L(A("err"), S("invalid token: "+m3)))
	}
	return "V4=" + t4 + " V3=" + t3 + " TOKEN=" + tok, true
}

// tkCanonicalTie: one-directional tie of the canonical parsers of Model.TokenWire (proved inverses of the modelled
// marshallers) to the real decoders: whatever payload the canonical parser accepts, the real Unmarshal decodes to the
// identical token.  The payload is computed here with the real base64 decoders (the model's payload is compared
// separately by the front-end query), so the query can be batched.
func tkCanonicalTie(c *Ctx, b *tkBatch, s string, replay any) {
	if len(s) < 6 || (s[:6] != "cashuA" && s[:6] != "cashuB") {
		return
	}
	p, err := base64.URLEncoding.DecodeString(s[6:])
	if err != nil {
		if p, err = base64.RawURLEncoding.DecodeString(s[6:]); err != nil {
			return
		}
	}
	if s[:6] == "cashuB" {
		var t cashu.TokenV4
		uerr := cbor.Unmarshal(p, &t)
		b.addCheck("canonical-cbor", L(A("token.parse-cbor"), tkHex(p)), func(canon string) string {
			if canon == "none" {
				c.Hist("canonical-parser", "cbor: not canonical")
				return ""
			}
			c.Hist("canonical-parser", "cbor: accepted")
			if uerr == nil && canon == Render(L(A("some"), tkV4Sx(t, false))) {
				return ""
			}
			return fmt.Sprintf("real cbor.Unmarshal: err=%v token=%s", uerr, tkClip(Render(tkV4Sx(t, false)), 1500))
		}, replay)
		return
	}
	var t cashu.TokenV3
	uerr := json.Unmarshal(p, &t)
	b.addCheck("canonical-json", L(A("token.parse-json"), tkHex(p)), func(canon string) string {
		if canon == "none" {
			c.Hist("canonical-parser", "json: not canonical")
			return ""
		}
		c.Hist("canonical-parser", "json: accepted")
		if uerr == nil && canon == Render(L(A("some"), tkV3Sx(t))) {
			return ""
		}
		return fmt.Sprintf("real json.Unmarshal: err=%v token=%s", uerr, tkClip(Render(tkV3Sx(t)), 1500))
	}, replay)
}

// tkOutcome renders (token, err, panic) of one decoder call.
func tkOutcome(t cashu.Token, isNil bool, err error, panicMsg string) string {
	switch {
	case panicMsg != "":
		return Render(L(A("panic"), S(panicMsg)))
	case err != nil:
		return Render(L(A("err"), S(err.Error())))
	case isNil:
		return "(nil-token-without-error)"
	}
	return "(ok " + Render(tkTokenSx(t)) + ")"
}

type tkFuzzStats struct{ n int }

// tkFuzzOne: one string through the real DecodeToken and every accessor, compared with the model.
func tkFuzzOne(c *Ctx, b *tkBatch, family string, s string) {
	var dec cashu.Token
	var err error
	pDecode := tkRecover(func() { dec, err = cashu.DecodeToken(s) })
	var impl, kind string
	switch {
	case pDecode != "":
		impl = Render(L(A("panic"), S(pDecode)))
		kind = "panic"
		tkPanicMonitor(c, "DecodeToken", pDecode, nil, s)
	case err != nil:
		impl = Render(L(A("err"), S(err.Error())))
		kind = "err"
		msg := err.Error()
		switch {
		case strings.Contains(msg, "invalid V3 token"):
			kind = "err/prefix"
		case strings.Contains(msg, "illegal base64"):
			kind = "err/base64"
		case strings.Contains(msg, "unmarshaling"):
			kind = "err/unmarshal"
		}
	default:
		impl = "(ok " + Render(tkTokenSx(dec)) + ")"
		kind = "ok"
		if _, ok := dec.(*cashu.TokenV4); ok {
			kind = "ok/v4"
		} else {
			kind = "ok/v3"
		}
	}
	// the two exported per-version decoders on the same input (DecodeToken hides DecodeTokenV4's error)
	var d3 *cashu.TokenV3
	var d4 *cashu.TokenV4
	var e3, e4 error
	p3 := tkRecover(func() { d3, e3 = cashu.DecodeTokenV3(s) })
	p4 := tkRecover(func() { d4, e4 = cashu.DecodeTokenV4(s) })
	tkPanicMonitor(c, "DecodeTokenV3", p3, nil, s)
	tkPanicMonitor(c, "DecodeTokenV4", p4, nil, s)
	impl = "V4=" + tkOutcome(d4, d4 == nil, e4, p4) + " V3=" + tkOutcome(d3, d3 == nil, e3, p3) + " TOKEN=" + impl
	replay := map[string]any{"family": family, "input": s, "input_hex": hex.EncodeToString([]byte(s))}
	if utf8.ValidString(impl) {
		b.addCheck("front", L(A("token.front"), S(hex.EncodeToString([]byte(s)))), func(model string) string {
			exp, ok := tkExpectDecode(c, model)
			if ok && exp == impl {
				return ""
			}
			if !ok {
				return "unparsable model answer; impl: " + impl
			}
			return impl + "   [expected from the model's front end + real Unmarshal: " + tkClip(exp, 1500) + "]"
		}, replay)
	} else {
		c.Hist("skipped", "outcome text not valid UTF-8 (not comparable over the line protocol)")
	}
	tkCanonicalTie(c, b, s, replay)
	c.Case("fuzz/"+family+"/"+kind, true)
	c.Hist("outcome", kind)
	c.Hist("family", family)
	if dec != nil && pDecode == "" && err == nil {
		acc := tkAccessors(dec)
		tkPanicMonitor(c, "Proofs", acc.pProofs, dec, s)
		tkPanicMonitor(c, "Mint", acc.pMint, dec, s)
		tkPanicMonitor(c, "Amount", acc.pAmount, dec, s)
		tkPanicMonitor(c, "Serialize", acc.pSerialize, dec, s)
		tkPanicMonitor(c, "MarshalJSON", acc.pJSON, dec, s)
		if what := tkCheckJSONView(dec, acc); what != "" {
			c.MonitorFail("C14", "C14/json-view/fuzz", what, replay)
		}
		if tkValidUTF8Token(dec) {
			b.add("access(fuzz)", L(A("token.access"), tkTokenSx(dec)), acc.sx(), replay)
		}
		if acc.pAmount == "" && acc.pProofs == "" && acc.amount != tkSum(acc.proofs) {
			c.MonitorFail("C14", "C14/amount-vs-proofs", "Amount() differs from the wrapping sum of Proofs()", replay)
		}
		shape := "v4"
		if t3, ok := dec.(*cashu.TokenV3); ok {
			shape = fmt.Sprintf("v3/entries=%s", tkBucket(len(t3.Token)))
		}
		c.Hist("decoded-shape", shape+"/proofs="+tkBucket(len(acc.proofs)))
	}
	b.maybeFlush()
}

func tkB64Variants(r *Rng, payload []byte) []string {
	out := []string{
		base64.URLEncoding.EncodeToString(payload),
		base64.RawURLEncoding.EncodeToString(payload),
	}
	// std alphabet (invalid when it contains + or /), newline-wrapped (accepted: the decoder skips \r \n)
	out = append(out, base64.StdEncoding.EncodeToString(payload))
	s := base64.URLEncoding.EncodeToString(payload)
	if len(s) > 4 {
		i := r.Intn(len(s))
		out = append(out, s[:i]+"\n"+s[i:], s[:i]+"\r\n"+s[i:]+"\n")
	}
	return out
}

// tkF9Witnesses: inputs on which the code before the fix panicked (findings/F9.json).
var tkF9Witnesses = []string{"", "c", "cashu", "éé", "🥜", "cashuAe30", "cashuAe30=", "cashuAeyJ0b2tlbiI6W119", "cashuAeyJ0b2tlbiI6bnVsbH0"}

// ---- type-directed wrong-shaped JSON for TokenV3

func tkJSONValues(r *Rng) []string {
	proofOK := `{"amount":2,"id":"009a1f293253e41e","secret":"407915bc212be61a77e3e6d2aeb4c727980bda51cd06a6afc29e2861768a7837","C":"02bc9097997d81afb2cc7346b5e4345a9346bd2a506eb7958598a72f0cf85163ea"}`
	atoms := []string{`null`, `true`, `0`, `-1`, `1.5`, `1e30`, `18446744073709551615`, `18446744073709551616`, `"x"`, `""`, `[]`, `{}`, `[null]`, `[[]]`, `[{}]`}
	var out []string
	// top level
	out = append(out, atoms...)
	out = append(out, ``, ` `, `{`, `}`, `{"token"`, `{"token":}`, `nul`)
	for _, a := range atoms {
		out = append(out,
			`{"token":`+a+`}`,
			`{"token":`+a+`,"unit":"sat"}`,
			`{"token":[{"mint":`+a+`,"proofs":[`+proofOK+`]}],"unit":"sat"}`,
			`{"token":[{"mint":"m","proofs":`+a+`}],"unit":"sat"}`,
			`{"token":[{"mint":"m","proofs":[`+a+`]}],"unit":"sat"}`,
			`{"token":[{"mint":"m","proofs":[`+proofOK+`]}],"unit":`+a+`}`,
			`{"token":[{"mint":"m","proofs":[`+proofOK+`]}],"unit":"sat","memo":`+a+`}`,
			`{"token":[{"mint":"m","proofs":[{"amount":`+a+`,"id":"00","secret":"s","C":"02"}]}]}`,
			`{"token":[{"mint":"m","proofs":[{"amount":1,"id":`+a+`,"secret":"s","C":"02"}]}]}`,
			`{"token":[{"mint":"m","proofs":[{"amount":1,"id":"00","secret":`+a+`,"C":"02"}]}]}`,
			`{"token":[{"mint":"m","proofs":[{"amount":1,"id":"00","secret":"s","C":`+a+`}]}]}`,
			`{"token":[{"mint":"m","proofs":[{"amount":1,"id":"00","secret":"s","C":"02","witness":`+a+`}]}]}`,
			`{"token":[{"mint":"m","proofs":[{"amount":1,"id":"00","secret":"s","C":"02","dleq":`+a+`}]}]}`,
			`{"token":[{"mint":"m","proofs":[{"amount":1,"id":"00","secret":"s","C":"02","dleq":{"e":`+a+`,"s":"00","r":"00"}}]}]}`,
			`{"token":[`+a+`,{"mint":"m","proofs":[`+proofOK+`]}]}`,
		)
	}
	out = append(out,
		`{"token":[],"unit":"sat"}`,
		`{"token":[{"mint":"a","proofs":[`+proofOK+`]},{"mint":"b","proofs":[`+proofOK+`,`+proofOK+`]}],"unit":"sat"}`,
		`{"TOKEN":[{"MINT":"m","Proofs":[`+proofOK+`]}],"UNIT":"sat"}`, // encoding/json matches keys case-insensitively
		`{"token":[{"mint":"m","proofs":[`+proofOK+`]}],"token":[]}`,   // duplicate key: last wins
		`{"token":[{"mint":"m","proofs":[`+proofOK+`]}],"unit":"sat","extra":{"a":[1,2,{"b":null}]}}`,
		`{"token":[{"mint":"m","proofs":[{"amount":18446744073709551615,"id":"00","secret":"s","C":"02"},{"amount":1,"id":"00","secret":"s","C":"02"}]}]}`,
		`{"token":[{"mint":"\ud83e\udd5c\u0000\"","proofs":[{"amount":1,"id":"\ud800","secret":"\\","C":"\u2028"}]}]}`,
		`[{"token":[]}]`,
		"\xef\xbb\xbf"+`{"token":[]}`,
		`{"token":[{"mint":"m","proofs":[`+proofOK+`]}],"unit":"sat"} trailing`,
		`{"token":[{"mint":"m","proofs":[`+proofOK+`]}],"unit":"sat"}{"token":[]}`,
		strings.Repeat("[", 50)+strings.Repeat("]", 50),
		strings.Repeat("[", 10001)+strings.Repeat("]", 10001),
		`{"token":`+strings.Repeat("[", 10001)+strings.Repeat("]", 10001)+`}`,
		strings.Repeat(`{"token":`, 2000)+`[]`+strings.Repeat(`}`, 2000),
		`{"token":[{"mint":"`+strings.Repeat("m", 100000)+`","proofs":[]}]}`,
		`{"token":[{"mint":"m","proofs":[{"amount":`+strings.Repeat("9", 400)+`,"id":"00","secret":"s","C":"02"}]}]}`,
		`{"token":[{"mint":"m","proofs":[{"amount":1`+strings.Repeat("0", 400)+`e-400,"id":"00","secret":"s","C":"02"}]}]}`,
	)
	// random structural mutations of a valid document
	valid := `{"token":[{"mint":"http://localhost:3338","proofs":[` + proofOK + `,` + proofOK + `]}],"unit":"sat","memo":"thanks"}`
	for i := 0; i < 60; i++ {
		bs := []byte(valid)
		switch r.Intn(3) {
		case 0:
			bs[r.Intn(len(bs))] = "{}[],:\"0 n"[r.Intn(10)]
		case 1:
			j := r.Intn(len(bs))
			bs = append(bs[:j:j], bs[j+1:]...)
		default:
			j := r.Intn(len(bs))
			bs = append(bs[:j:j], append([]byte{"{}[],:\"0 n"[r.Intn(10)]}, bs[j:]...)...)
		}
		out = append(out, string(bs))
	}
	return out
}

// ---- type-directed wrong-shaped CBOR for TokenV4 (built with the real encoder)

func tkCBORValues(r *Rng) [][]byte {
	mk := func(v any) []byte {
		b, err := cbor.Marshal(v)
		if err != nil {
			return []byte{0xff}
		}
		return b
	}
	id := []byte{0x00, 0xad, 0x26, 0x8c, 0x4d, 0x1f, 0x58, 0x26}
	cpt := bytes.Repeat([]byte{0x02}, 33)
	okProof := map[string]any{"a": uint64(1), "s": "secret", "c": cpt}
	atoms := []any{nil, true, uint64(0), int64(-1), 1.5, uint64(1<<64 - 1), "x", "", []byte{}, []byte{1, 2}, []any{}, map[string]any{}, []any{nil}, []any{[]any{}},
		[]any{map[string]any{}}, cbor.Tag{Number: 2, Content: []byte{1, 0, 0, 0, 0, 0, 0, 0, 0}}, cbor.Tag{Number: 0, Content: "2020-01-01T00:00:00Z"},
		map[any]any{uint64(1): "int key"}}
	var out [][]byte
	for _, a := range atoms {
		out = append(out, mk(a))
		out = append(out,
			mk(map[string]any{"t": a, "m": "mint", "u": "sat"}),
			mk(map[string]any{"t": []any{map[string]any{"i": a, "p": []any{okProof}}}, "m": "mint", "u": "sat"}),
			mk(map[string]any{"t": []any{map[string]any{"i": id, "p": a}}, "m": "mint", "u": "sat"}),
			mk(map[string]any{"t": []any{map[string]any{"i": id, "p": []any{a}}}, "m": "mint", "u": "sat"}),
			mk(map[string]any{"t": []any{map[string]any{"i": id, "p": []any{okProof}}}, "m": a, "u": "sat"}),
			mk(map[string]any{"t": []any{map[string]any{"i": id, "p": []any{okProof}}}, "m": "mint", "u": a}),
			mk(map[string]any{"t": []any{map[string]any{"i": id, "p": []any{okProof}}}, "m": "mint", "u": "sat", "d": a}),
			mk(map[string]any{"t": []any{map[string]any{"i": id, "p": []any{map[string]any{"a": a, "s": "s", "c": cpt}}}}, "m": "mint", "u": "sat"}),
			mk(map[string]any{"t": []any{map[string]any{"i": id, "p": []any{map[string]any{"a": 1, "s": a, "c": cpt}}}}, "m": "mint", "u": "sat"}),
			mk(map[string]any{"t": []any{map[string]any{"i": id, "p": []any{map[string]any{"a": 1, "s": "s", "c": a}}}}, "m": "mint", "u": "sat"}),
			mk(map[string]any{"t": []any{map[string]any{"i": id, "p": []any{map[string]any{"a": 1, "s": "s", "c": cpt, "w": a}}}}, "m": "mint", "u": "sat"}),
			mk(map[string]any{"t": []any{map[string]any{"i": id, "p": []any{map[string]any{"a": 1, "s": "s", "c": cpt, "d": a}}}}, "m": "mint", "u": "sat"}),
			mk(map[string]any{"t": []any{map[string]any{"i": id, "p": []any{map[string]any{"a": 1, "s": "s", "c": cpt, "d": map[string]any{"e": a, "s": []byte{1}, "r": []byte{2}}}}}}, "m": "mint", "u": "sat"}),
			mk(map[string]any{"t": []any{map[string]any{"i": id, "p": []any{map[string]any{"a": 1, "s": "s", "c": cpt, "d": map[string]any{"e": []byte{1}, "s": []byte{1}}}}}}, "m": "mint", "u": "sat", "x": a}),
			mk(map[string]any{"t": []any{a, map[string]any{"i": id, "p": []any{okProof}}}, "m": "mint", "u": "sat"}),
		)
	}
	// several groups, same id twice, empty groups, amounts that wrap
	out = append(out,
		mk(map[string]any{"t": []any{}, "m": "mint", "u": "sat"}),
		mk(map[string]any{"m": "mint", "u": "sat"}),
		mk(map[string]any{}),
		mk(map[string]any{"t": []any{map[string]any{"i": id, "p": []any{okProof, okProof}}, map[string]any{"i": id, "p": []any{okProof}}, map[string]any{"i": []byte{}, "p": []any{}}}, "m": "mint", "u": "sat"}),
		mk(map[string]any{"t": []any{map[string]any{"i": id, "p": []any{map[string]any{"a": uint64(1<<64 - 1), "s": "s", "c": cpt}, map[string]any{"a": uint64(2), "s": "s", "c": cpt}}}}, "m": "mint", "u": "sat"}),
		mk(map[string]any{"T": []any{map[string]any{"I": id, "P": []any{okProof}}}, "M": "mint", "U": "sat"}),
	)
	// hand-made byte strings: indefinite lengths, duplicate keys, truncated heads, reserved info values, deep nesting
	out = append(out,
		[]byte{}, []byte{0xbf, 0xff}, []byte{0xbf, 0x61, 't', 0x9f, 0xff, 0xff}, []byte{0xa1, 0x61, 't', 0x9f, 0xbf, 0xff, 0xff},
		[]byte{0xa2, 0x61, 'm', 0x61, 'a', 0x61, 'm', 0x61, 'b'}, []byte{0xa1, 0x61, 'm', 0x7f, 0x61, 'a', 0x61, 'b', 0xff},
		[]byte{0xa1, 0x61, 't', 0x9b, 0xff, 0xff, 0xff, 0xff, 0xff, 0xff, 0xff, 0xff}, []byte{0xa1, 0x61, 't', 0x5b, 0x7f, 0xff, 0xff, 0xff, 0xff, 0xff, 0xff, 0xff},
		[]byte{0xa1, 0x61, 'm', 0x62, 0xff, 0xfe}, []byte{0x1c}, []byte{0xfc}, []byte{0xf8, 0x10}, []byte{0xa1}, []byte{0xa1, 0x61},
		[]byte{0xa1, 0x61, 'u', 0xf7}, []byte{0xa1, 0x61, 'u', 0xf9, 0x7e, 0x00}, []byte{0xc2, 0x40}, []byte{0xd9, 0xd9, 0xf7, 0xa0},
		append(bytes.Repeat([]byte{0x81}, 40), 0x00), append(bytes.Repeat([]byte{0x81}, 5000), 0x00),
		append(append([]byte{0xa1, 0x61, 't'}, bytes.Repeat([]byte{0x81}, 40)...), 0x00),
		append(bytes.Repeat([]byte{0xa1, 0x61, 't'}, 40), 0xa0),
	)
	// byte-level mutations of a valid CBOR document
	valid := mk(map[string]any{"t": []any{map[string]any{"i": id, "p": []any{okProof, map[string]any{"a": 2, "s": "t", "c": cpt, "w": "w", "d": map[string]any{"e": []byte{1}, "s": []byte{2}, "r": []byte{3}}}}}}, "m": "http://localhost:3338", "u": "sat", "d": "memo"})
	for i := 0; i < 80; i++ {
		bs := append([]byte(nil), valid...)
		switch r.Intn(3) {
		case 0:
			bs[r.Intn(len(bs))] = byte(r.U64())
		case 1:
			bs = bs[:r.Intn(len(bs))]
		default:
			j := r.Intn(len(bs))
			bs[j] ^= 1 << uint(r.Intn(8))
		}
		out = append(out, bs)
	}
	return out
}

func runTokenFuzz(c *Ctx) {
	r := c.Rng
	b := &tkBatch{c: c}
	alpha := "cashuAB=-_"

	// (1) ALL strings of length 0..3 over the alphabet
	var rec func(prefix string, depth int)
	rec = func(prefix string, depth int) {
		tkFuzzOne(c, b, fmt.Sprintf("all-len%d", len(prefix)), prefix)
		if depth == 0 {
			return
		}
		for i := 0; i < len(alpha); i++ {
			rec(prefix+string(alpha[i]), depth-1)
		}
	}
	rec("", 3)

	// (2) sampled strings of length 4..8 over the alphabet; also every proper prefix of both version prefixes + 0..3 symbols
	nSample := 4000
	if c.Thorough {
		nSample = 120000
	}
	for i := 0; i < nSample; i++ {
		l := 4 + r.Intn(5)
		bs := make([]byte, l)
		for j := range bs {
			bs[j] = alpha[r.Intn(len(alpha))]
		}
		if r.Chance(50) { // bias towards the prefixes
			copy(bs, "cashuA"[:min(l, 1+r.Intn(6))])
			if r.Bool() && l >= 6 {
				bs[5] = 'B'
			}
		}
		tkFuzzOne(c, b, fmt.Sprintf("sampled-len%d", l), string(bs))
	}

	// (3) both prefixes followed by nothing / garbage
	garbage := []string{"", "=", "==", "===", "A", "AA", "AAA", "AAAA", "e30", "e30=", "e30==", "e3 0=", "e30\n", "\n", "\r\n", "e30=\n\n", "e30=x", "e=30",
		"!!!!", "+/+/", "-_-_", "oA", "oA==", "oGF0", "oGF0gA", "o\x00", "\x00\x00\x00\x00", "\xff\xfe", "🥜", "é", "AA🥜", strings.Repeat("A", 4096), strings.Repeat("=", 64),
		"eyJ0b2tlbiI6W119", "eyJ0b2tlbiI6bnVsbH0", "bnVsbA==", "bnVsbA", "W10", "e30 ", " e30", "e30\t", "ZTMw"}
	for _, p := range []string{"cashuA", "cashuB", "cashuC", "cashua", "CASHUA", "cashu", "cashuAcashuA", "cashuBcashuA", "cashuAcashuB", " cashuA", "cashuA ", "\ncashuA"} {
		for _, g := range garbage {
			tkFuzzOne(c, b, "prefix+garbage", p+g)
		}
		for i := 0; i < 40; i++ {
			tkFuzzOne(c, b, "prefix+random-bytes", p+string(r.Bytes(r.Intn(24))))
			rb := base64.RawURLEncoding.EncodeToString(r.Bytes(1 + r.Intn(40)))
			tkFuzzOne(c, b, "prefix+random-b64", p+rb[r.Intn(2):])
			tkFuzzOne(c, b, "prefix+weird-text", p+tkWeirdString(r, 6))
		}
	}

	// (4) multi-byte / invalid UTF-8 around the 6-byte cut
	for _, s := range []string{"é", "éé", "ééé", "cashü", "cashüA", "cash€", "cash€A", "cashu€", "cashu€e30", "🥜", "🥜🥜", "🥜a", "🥜ab", "🥜abe30", "cas🥜", "cashu𝄞", "𝄞cashuA",
		"日本語", "日本", "cashuＡe30", "ｃａｓｈｕＡ", "\xff", "\xff\xff\xff\xff\xff", "\xff\xff\xff\xff\xff\xff", "cashu\xff", "cashu\xc3", "cash\xc3\xa9", "cashuA\xc3", "cashuA\xc3\xa9",
		"\x00\x00\x00\x00\x00", "\x00\x00\x00\x00\x00\x00", "cashu\x00", "cashuA\x00", "\u2028\u2028", "\ufeffcashuAe30", "cashuA\ufeff"} {
		tkFuzzOne(c, b, "utf8-around-cut", s)
		tkFuzzOne(c, b, "utf8-around-cut", s+"cashuAe30")
	}

	// (5) valid base64 of type-directed wrong-shaped JSON (V3) and CBOR (V4), in every base64 flavour, under both prefixes
	for _, js := range tkJSONValues(r) {
		for vi, v := range tkB64Variants(r, []byte(js)) {
			tkFuzzOne(c, b, "json-shapes", "cashuA"+v)
			if vi < 2 && len(js) < 2000 {
				tkFuzzOne(c, b, "json-under-v4-prefix", "cashuB"+v)
			}
		}
	}
	for _, cb := range tkCBORValues(r) {
		for vi, v := range tkB64Variants(r, cb) {
			tkFuzzOne(c, b, "cbor-shapes", "cashuB"+v)
			if vi < 2 && len(cb) < 2000 {
				tkFuzzOne(c, b, "cbor-under-v3-prefix", "cashuA"+v)
			}
		}
	}

	// (6) valid tokens: every truncation and 1-byte mutations
	nTok := 40
	maxProofs := 3
	mutPerTok := 200
	if c.Thorough {
		nTok = 80
		maxProofs = 12
		mutPerTok = 2000
	}
	made := 0
	for made < nTok {
		tc := tkGenCase(r, maxProofs, 100)
		tc.unit = cashu.Sat
		var tok cashu.Token
		if made%2 == 0 {
			t, err := cashu.NewTokenV3(tkCopyProofs(tc.proofs), tc.mint, tc.unit, tc.includeDLEQ)
			if err != nil {
				continue
			}
			tok = t
		} else {
			t, err := cashu.NewTokenV4(tkCopyProofs(tc.proofs), tc.mint, tc.unit, tc.includeDLEQ)
			if err != nil {
				continue
			}
			tok = t
		}
		ser, err := tok.Serialize()
		if err != nil {
			continue
		}
		made++
		fam := "v3"
		if made%2 == 0 {
			fam = "v4"
		}
		tkFuzzOne(c, b, "valid-"+fam, ser)
		// every truncation for short tokens; all short truncations + sampled ones for long tokens
		for l := 0; l < len(ser); l++ {
			if l <= 64 || len(ser) <= 1500 || r.Chance(100*1500/len(ser)) {
				tkFuzzOne(c, b, "truncation-"+fam, ser[:l])
			}
		}
		// 1-byte mutations: every position among the first 12 bytes x several values, then sampled positions
		vals := []byte{0x00, 'A', 'B', 'a', '=', '-', '_', '+', '/', '\n', ' ', 0x7f, 0x80, 0xff}
		for pos := 0; pos < 12 && pos < len(ser); pos++ {
			for _, v := range vals {
				bs := []byte(ser)
				bs[pos] = v
				tkFuzzOne(c, b, "mutation-head-"+fam, string(bs))
			}
		}
		for i := 0; i < mutPerTok; i++ {
			bs := []byte(ser)
			pos := r.Intn(len(bs))
			switch r.Intn(4) {
			case 0:
				bs[pos] = vals[r.Intn(len(vals))]
			case 1:
				bs[pos] = "ABCDEFGHIJKLMNOPQRSTUVWXYZabcdefghijklmnopqrstuvwxyz0123456789-_"[r.Intn(64)]
			case 2:
				bs[pos] ^= 1 << uint(r.Intn(8))
			default:
				bs[pos] = byte(r.U64())
			}
			tkFuzzOne(c, b, "mutation-"+fam, string(bs))
		}
		// deletions and insertions of one byte
		for i := 0; i < mutPerTok/10; i++ {
			pos := r.Intn(len(ser))
			tkFuzzOne(c, b, "deletion-"+fam, ser[:pos]+ser[pos+1:])
			tkFuzzOne(c, b, "insertion-"+fam, ser[:pos]+string(vals[r.Intn(len(vals))])+ser[pos:])
		}
	}
	b.flush()

	// regression: the witnesses of F9 (found on the code before the fix: commit) must now be rejected with an error
	for _, w := range tkF9Witnesses {
		tkFuzzOne(c, b, "F9-regression", w)
		var err error
		var dec cashu.Token
		p := tkRecover(func() { dec, err = cashu.DecodeToken(w) })
		switch {
		case p != "":
			// reported by tkFuzzOne with the signature of the original finding
		case err == nil:
			if acc := tkAccessors(dec); acc.pMint != "" {
				// reported by tkFuzzOne with the signature of the original finding
			} else {
				c.MonitorFail("C14", "C14/F9-regression/accepted", fmt.Sprintf("F9 witness %q is accepted again", w), map[string]any{"input": w})
			}
		default:
			c.Hist("F9-regression", "rejected: "+err.Error())
		}
		// what the model of the code BEFORE the fix says about the witness (documentation of the regression)
		c.Hist("F9-regression", "old model: "+tkClip(c.Drv.Ask(L(A("token.front-old"), S(hex.EncodeToString([]byte(w))))), 80))
	}
	b.flush()
	c.Sample(map[string]any{"families": sortedKeys(c.Res.Hist["family"])})
}
