package main

// Stream "cln-client" (C02, C03, C05): the REAL lightning.CLNClient (mint/lightning/cln.go) against a stand-in for Core
// Lightning's REST interface (httptest on the loopback interface), scripted with the JSON shapes of CLN's `invoice`,
// `listinvoices`, `pay`, `listpays` commands.  Every model in this project treats the Lightning backend as an oracle; what
// the client TELLS the node and what it MAKES of the node's answers is otherwise only pinned as text (Tie.LnClients).
// Model-free monitors, written from the meaning of the interface (lightning.Client) and of the CLN commands:
//
//	CreateInvoice(amount sat)   the node is asked for exactly amount*1000 msat — or the call fails; never another amount (C02/C03)
//	InvoiceStatus               Settled iff the node says "paid"; the preimage is handed on                              (C03)
//	SendPayment / PayPartial    Succeeded iff "complete" (with the preimage), Failed iff "failed" or an error answer,
//	                            Pending otherwise; the fee limit sent is maxFee*1000 msat, the invoice / part as given   (C02/C05)
//	OutgoingPaymentStatus       Succeeded iff "complete" WITH the preimage listpays reports, Failed iff "failed",
//	                            not-found is its own error, Pending otherwise                                            (C05)
//	FeeReserve                  1% rounded up                                                                            (C02)

import (
	"context"
	"encoding/json"
	"errors"
	"fmt"
	"io"
	"math/big"
	"net/http"
	"net/http/httptest"
	"strings"
	"sync"

	"github.com/elnosh/gonuts/mint/lightning"
)

func init() {
	register("cln-client", []string{"C02", "C03", "C05"},
		"real CLNClient against a scripted CLN REST stand-in: CreateInvoice for amounts {1, 21, 2^32, 2^40, floor(2^64/1000), floor(2^64/1000)+1, 2^63, 2^64-1, random}; "+
			"InvoiceStatus x {paid, unpaid, expired, none, error}; SendPayment / PayPartialAmount x {complete, pending, failed, unknown status, error answer, garbage} x fee limits; "+
			"OutgoingPaymentStatus x {complete, pending, failed, other, empty list, error}; FeeReserve; class = (method, node answer, outcome)",
		runCLNClient)
}

type clnStandIn struct {
	mu    sync.Mutex
	reqs  []clnReq
	reply func(path string, body map[string]any) (int, string)
}

type clnReq struct {
	path string
	body map[string]any
	raw  string
}

func (s *clnStandIn) ServeHTTP(w http.ResponseWriter, r *http.Request) {
	b, _ := io.ReadAll(r.Body)
	var m map[string]any
	dec := json.NewDecoder(strings.NewReader(string(b)))
	dec.UseNumber()
	dec.Decode(&m)
	s.mu.Lock()
	s.reqs = append(s.reqs, clnReq{r.URL.Path, m, string(b)})
	reply := s.reply
	s.mu.Unlock()
	code, body := 500, `{"code":-1,"message":"no script"}`
	if reply != nil {
		code, body = reply(r.URL.Path, m)
	}
	w.Header().Set("Content-Type", "application/json")
	w.WriteHeader(code)
	io.WriteString(w, body)
}

func (s *clnStandIn) take() []clnReq {
	s.mu.Lock()
	defer s.mu.Unlock()
	out := s.reqs
	s.reqs = nil
	return out
}

func bigOf(v any) *big.Int {
	n, ok := v.(json.Number)
	if !ok {
		return nil
	}
	z, ok := new(big.Int).SetString(n.String(), 10)
	if !ok {
		return nil
	}
	return z
}

func runCLNClient(c *Ctx) {
	r := c.Rng
	st := &clnStandIn{}
	srv := httptest.NewServer(st)
	defer srv.Close()
	cln, err := lightning.SetupCLNClient(lightning.CLNConfig{RestURL: srv.URL, Rune: "rune"})
	if err != nil {
		c.Disagree([]string{"C02"}, "SetupCLNClient", err.Error(), "", nil)
		return
	}
	fail := func(prop, sig, what string, replay any) { c.MonitorFail(prop, sig, what, replay) }
	thousand := big.NewInt(1000)

	// ---- CreateInvoice
	amounts := []uint64{1, 21, 1000, 1 << 32, 1 << 40, 18446744073709551, 18446744073709552, 18446744073709553, 1 << 62, 1 << 63, 1<<63 + 1, ^uint64(0) - 1, ^uint64(0)}
	n := 40
	if c.Thorough {
		n = 400
	}
	for i := 0; i < n; i++ {
		switch r.Intn(3) {
		case 0:
			amounts = append(amounts, uint64(1+r.Intn(1<<20)))
		case 1:
			amounts = append(amounts, r.U64())
		default:
			amounts = append(amounts, 18446744073709551+uint64(r.Intn(2000))-1000)
		}
	}
	for _, amt := range amounts {
		st.reply = func(path string, body map[string]any) (int, string) {
			return 201, `{"bolt11":"lnbc1stand-in","payment_hash":"` + strings.Repeat("ab", 32) + `","payment_secret":"00","expires_at":1}`
		}
		inv, err := cln.CreateInvoice(amt)
		reqs := st.take()
		want := new(big.Int).Mul(new(big.Int).SetUint64(amt), thousand)
		outcome := "error"
		if err == nil {
			outcome = "ok"
		}
		fits := want.IsUint64()
		c.Case(fmt.Sprintf("CreateInvoice/fits=%v/%s", fits, outcome), true)
		c.Hist("CreateInvoice", fmt.Sprintf("amount*1000 fits in 64 bits=%v -> %s", fits, outcome))
		replay := map[string]any{"method": "CreateInvoice", "amount_sat": fmt.Sprint(amt)}
		for _, rq := range reqs {
			if rq.path != "/v1/invoice" {
				continue
			}
			got := bigOf(rq.body["amount_msat"])
			replay["request"] = rq.raw
			if got == nil || got.Cmp(want) != 0 {
				fail("C02", "C02/cln/CreateInvoice/asks-node-for-another-amount",
					fmt.Sprintf("CreateInvoice(%d sat) asked the node for amount_msat=%v, not %v: the quote records %d sat, the invoice is for something else", amt, rq.body["amount_msat"], want, amt), replay)
			}
		}
		if err == nil && (inv.Amount != amt || inv.PaymentRequest == "" || inv.PaymentHash == "") {
			fail("C03", "C03/cln/CreateInvoice/result-differs", "CreateInvoice returned an invoice with another amount or without request / hash", replay)
		}
		if err == nil && len(reqs) == 0 {
			fail("C03", "C03/cln/CreateInvoice/no-request", "CreateInvoice succeeded without asking the node", replay)
		}
	}

	// ---- InvoiceStatus
	hash := strings.Repeat("cd", 32)
	pre := strings.Repeat("ef", 32)
	for _, status := range []string{"paid", "unpaid", "expired", "PAID", "settled", "", "none", "error", "garbage"} {
		st.reply = func(path string, body map[string]any) (int, string) {
			switch status {
			case "none":
				return 200, `{"invoices":[]}`
			case "error":
				return 500, `{"code":-32602,"message":"boom"}`
			case "garbage":
				return 200, `<html>`
			}
			p := ""
			if status == "paid" {
				p = `,"payment_preimage":"` + pre + `","paid_at":2,"amount_received_msat":21000`
			}
			return 200, `{"invoices":[{"label":"x","bolt11":"lnbc1x","payment_hash":"` + hash + `","amount_msat":21000,"status":"` + status + `","description":"d","expires_at":99` + p + `}]}`
		}
		inv, err := cln.InvoiceStatus(hash)
		reqs := st.take()
		replay := map[string]any{"method": "InvoiceStatus", "node_status": status}
		c.Case(fmt.Sprintf("InvoiceStatus/%s/err=%v/settled=%v", status, err != nil, inv.Settled), true)
		c.Hist("InvoiceStatus", fmt.Sprintf("%s -> err=%v settled=%v", status, err != nil, inv.Settled))
		if inv.Settled != (status == "paid" && err == nil) {
			fail("C03", "C03/cln/InvoiceStatus/settled-"+fmt.Sprint(inv.Settled)+"-for-"+status, fmt.Sprintf("InvoiceStatus reports Settled=%v although the node's status is %q", inv.Settled, status), replay)
		}
		if status == "paid" && err == nil && (inv.Preimage != pre || inv.Amount != 21 || inv.PaymentHash != hash) {
			fail("C03", "C03/cln/InvoiceStatus/fields", "InvoiceStatus of a paid invoice does not hand on preimage / amount / hash", replay)
		}
		if (status == "none" || status == "error" || status == "garbage") && err == nil {
			fail("C03", "C03/cln/InvoiceStatus/no-error-for-"+status, "InvoiceStatus returned no error although the node gave no invoice", replay)
		}
		if len(reqs) != 1 || reqs[0].path != "/v1/listinvoices" || fmt.Sprint(reqs[0].body["payment_hash"]) != hash {
			fail("C03", "C03/cln/InvoiceStatus/request", "InvoiceStatus did not ask listinvoices for the payment hash", replay)
		}
	}

	// ---- SendPayment / PayPartialAmount
	answers := []string{"complete", "pending", "failed", "weird", "error", "garbage"}
	for _, partial := range []bool{false, true} {
		for _, ans := range answers {
			for _, maxFee := range []uint64{0, 1, 7, 1000, uint64(1 + r.Intn(100000))} {
				st.reply = func(path string, body map[string]any) (int, string) {
					switch ans {
					case "error":
						return 500, `{"code":210,"message":"Ran out of routes to try"}`
					case "garbage":
						return 200, `not json`
					}
					p := ""
					if ans == "complete" {
						p = `,"payment_preimage":"` + pre + `"`
					}
					return 201, `{"payment_hash":"` + hash + `","status":"` + ans + `","amount_msat":21000,"amount_sent_msat":21003,"parts":1` + p + `}`
				}
				var ps lightning.PaymentStatus
				var err error
				method := "SendPayment"
				partMsat := uint64(1000 + r.Intn(100000))
				if partial {
					method = "PayPartialAmount"
					ps, err = cln.PayPartialAmount(context.Background(), "lnbc1invoice", partMsat, maxFee)
				} else {
					ps, err = cln.SendPayment(context.Background(), "lnbc1invoice", maxFee)
				}
				reqs := st.take()
				replay := map[string]any{"method": method, "node_answer": ans, "max_fee_sat": maxFee}
				c.Case(fmt.Sprintf("%s/%s/%v/err=%v", method, ans, ps.PaymentStatus, err != nil), true)
				c.Hist(method, fmt.Sprintf("%s -> %v err=%v", ans, ps.PaymentStatus, err != nil))
				want := lightning.Pending
				switch ans {
				case "complete":
					want = lightning.Succeeded
				case "failed", "error":
					want = lightning.Failed
				}
				// (with an error the mint sets the status to Failed itself and makes the extra status check: only an answer
				// WITHOUT error is taken at its word)
				if err != nil {
					if ans == "complete" || ans == "pending" || ans == "failed" || ans == "weird" {
						fail("C05", fmt.Sprintf("C05/cln/%s/%s-answered-with-error", method, ans), fmt.Sprintf("%s: the node answered %q, the client returns an error", method, ans), replay)
					}
				} else if ans == "error" || ans == "garbage" {
					fail("C05", fmt.Sprintf("C05/cln/%s/%s-accepted", method, ans), fmt.Sprintf("%s: an error / unreadable answer is reported without error as %v", method, ps.PaymentStatus), replay)
				} else if ps.PaymentStatus != want {
					fail("C05", fmt.Sprintf("C05/cln/%s/%s-reported-as-%v", method, ans, ps.PaymentStatus), fmt.Sprintf("%s: the node answered %q, the client reports %v", method, ans, ps.PaymentStatus), replay)
				}
				if ans == "complete" && ps.Preimage != pre {
					fail("C05", "C05/cln/"+method+"/preimage-lost", method+": the preimage of a completed payment is not handed on", replay)
				}
				if len(reqs) != 1 || reqs[0].path != "/v1/pay" {
					fail("C05", "C05/cln/"+method+"/request", method+" did not make exactly one pay request", replay)
					continue
				}
				b := reqs[0].body
				replay["request"] = reqs[0].raw
				wantFee := new(big.Int).Mul(new(big.Int).SetUint64(maxFee), thousand)
				if got := bigOf(b["maxfee"]); got == nil || got.Cmp(wantFee) != 0 {
					fail("C02", "C02/cln/"+method+"/fee-limit", fmt.Sprintf("%s with fee limit %d sat sent maxfee=%v msat to the node", method, maxFee, b["maxfee"]), replay)
				}
				if fmt.Sprint(b["bolt11"]) != "lnbc1invoice" {
					fail("C02", "C02/cln/"+method+"/invoice", method+" asked the node to pay another invoice", replay)
				}
				if partial {
					if got := bigOf(b["partial_msat"]); got == nil || got.Cmp(new(big.Int).SetUint64(partMsat)) != 0 {
						fail("C02", "C02/cln/PayPartialAmount/part", fmt.Sprintf("PayPartialAmount(%d msat) asked the node for partial_msat=%v", partMsat, b["partial_msat"]), replay)
					}
				} else if _, has := b["partial_msat"]; has {
					fail("C02", "C02/cln/SendPayment/part", "SendPayment sent a partial amount", replay)
				}
			}
		}
	}

	// ---- OutgoingPaymentStatus
	for _, ans := range []string{"complete", "pending", "failed", "weird", "empty", "error", "garbage"} {
		st.reply = func(path string, body map[string]any) (int, string) {
			switch ans {
			case "empty":
				return 200, `{"pays":[]}`
			case "error":
				return 500, `{"code":-1,"message":"boom"}`
			case "garbage":
				return 200, `[`
			}
			p := ""
			if ans == "complete" {
				p = `,"preimage":"` + pre + `","completed_at":3,"amount_sent_msat":21003`
			}
			return 200, `{"pays":[{"payment_hash":"` + hash + `","status":"` + ans + `","created_at":1,"amount_msat":21000,"bolt11":"lnbc1invoice"` + p + `}]}`
		}
		ps, err := cln.OutgoingPaymentStatus(context.Background(), hash)
		reqs := st.take()
		replay := map[string]any{"method": "OutgoingPaymentStatus", "node_answer": ans}
		c.Case(fmt.Sprintf("OutgoingPaymentStatus/%s/%v/err=%v", ans, ps.PaymentStatus, err != nil), true)
		c.Hist("OutgoingPaymentStatus", fmt.Sprintf("%s -> %v err=%v notfound=%v", ans, ps.PaymentStatus, err != nil, errors.Is(err, lightning.OutgoingPaymentNotFound)))
		switch ans {
		case "complete":
			if ps.PaymentStatus != lightning.Succeeded || err != nil {
				fail("C05", "C05/cln/OutgoingPaymentStatus/complete-not-succeeded", "listpays says complete, the client does not report Succeeded", replay)
			} else if ps.Preimage != pre {
				fail("C05", "C05/cln/OutgoingPaymentStatus/preimage-lost", "listpays reports a completed payment with its preimage; the client hands on "+fmt.Sprintf("%q", ps.Preimage), replay)
			}
		case "failed":
			if ps.PaymentStatus != lightning.Failed || err != nil {
				fail("C05", "C05/cln/OutgoingPaymentStatus/failed-not-failed", "listpays says failed, the client does not report Failed (without error)", replay)
			}
		case "pending", "weird":
			if ps.PaymentStatus != lightning.Pending || err != nil {
				fail("C05", "C05/cln/OutgoingPaymentStatus/"+ans+"-not-pending", "listpays says "+ans+", the client does not report Pending", replay)
			}
		case "empty":
			if !errors.Is(err, lightning.OutgoingPaymentNotFound) {
				fail("C05", "C05/cln/OutgoingPaymentStatus/not-found-not-distinguished", "an empty listpays answer is not reported as OutgoingPaymentNotFound", replay)
			}
		case "error", "garbage":
			if err == nil || ps.PaymentStatus == lightning.Succeeded {
				fail("C05", "C05/cln/OutgoingPaymentStatus/"+ans+"-accepted", "an error / unreadable answer is reported without error or as Succeeded", replay)
			}
		}
		if len(reqs) != 1 || reqs[0].path != "/v1/listpays" || fmt.Sprint(reqs[0].body["payment_hash"]) != hash {
			fail("C05", "C05/cln/OutgoingPaymentStatus/request", "OutgoingPaymentStatus did not ask listpays for the payment hash", replay)
		}
	}

	// ---- FeeReserve: 1% rounded up
	for _, amt := range []uint64{0, 1, 99, 100, 101, 199, 200, 1000, 12345, 1 << 20, 1 << 40, uint64(1 + r.Intn(1<<30))} {
		got := cln.FeeReserve(amt)
		want := (amt + 99) / 100
		c.Case("FeeReserve", amt < 1000)
		if got != want {
			fail("C02", "C02/cln/FeeReserve", fmt.Sprintf("FeeReserve(%d) = %d, 1%% rounded up is %d", amt, got, want), map[string]any{"amount": amt})
		}
	}
	c.Res.Exhaustive = false
}
