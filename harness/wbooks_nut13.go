package main

// The harness's own NUT-13 derivation (written from BIP32 and NUT-00/NUT-13, not from the repository's
// nut13 / crypto packages): m/129372'/0'/keyset_int'/counter'/{0 secret, 1 blinding factor}, Y = hash_to_curve,
// B_ = Y + r·G.  Used to enumerate the outputs of a seed independently of the wallet; cross-checked against
// the repository's functions for a few counters at start (selfCheckNut13).

import (
	"crypto/hmac"
	"crypto/sha256"
	"crypto/sha512"
	"encoding/binary"
	"encoding/hex"
	"errors"

	"github.com/decred/dcrd/dcrec/secp256k1/v4"
)

type xkey struct {
	k  secp256k1.ModNScalar
	cc [32]byte
}

func bip32Master(seed []byte) xkey {
	mac := hmac.New(sha512.New, []byte("Bitcoin seed"))
	mac.Write(seed)
	I := mac.Sum(nil)
	var x xkey
	x.k.SetByteSlice(I[:32])
	copy(x.cc[:], I[32:])
	return x
}

func (p xkey) child(index uint32) xkey {
	var data []byte
	if index >= 0x80000000 {
		kb := p.k.Bytes()
		data = append([]byte{0}, kb[:]...)
	} else {
		var pt secp256k1.JacobianPoint
		secp256k1.ScalarBaseMultNonConst(&p.k, &pt)
		pt.ToAffine()
		data = secp256k1.NewPublicKey(&pt.X, &pt.Y).SerializeCompressed()
	}
	var ib [4]byte
	binary.BigEndian.PutUint32(ib[:], index)
	data = append(data, ib[:]...)
	mac := hmac.New(sha512.New, p.cc[:])
	mac.Write(data)
	I := mac.Sum(nil)
	var c xkey
	c.k.SetByteSlice(I[:32])
	c.k.Add(&p.k)
	copy(c.cc[:], I[32:])
	return c
}

const hardened = 0x80000000

func nut13KeysetPath(master xkey, keysetId string) (xkey, error) {
	kb, err := hex.DecodeString(keysetId)
	if err != nil || len(kb) < 8 {
		return xkey{}, errors.New("bad keyset id")
	}
	ki := binary.BigEndian.Uint64(kb) % (1<<31 - 1)
	return master.child(hardened + 129372).child(hardened + 0).child(hardened + uint32(ki)), nil
}

func hashToCurveSpec(msg []byte) *secp256k1.PublicKey {
	h := sha256.Sum256(append([]byte("Secp256k1_HashToCurve_Cashu_"), msg...))
	for ctr := uint32(0); ctr < 1<<16; ctr++ {
		var cb [4]byte
		binary.LittleEndian.PutUint32(cb[:], ctr)
		hh := sha256.Sum256(append(h[:], cb[:]...))
		if pt, err := secp256k1.ParsePubKey(append([]byte{2}, hh[:]...)); err == nil {
			return pt
		}
	}
	return nil
}

// nut13Output: secret, Y and B_ (hex, compressed) of the output of (keyset path, counter).
func nut13Output(path xkey, counter uint32) (secret, Y, B string) {
	cp := path.child(hardened + counter)
	// the two non-hardened children share the parent public key
	var pt secp256k1.JacobianPoint
	secp256k1.ScalarBaseMultNonConst(&cp.k, &pt)
	pt.ToAffine()
	ser := secp256k1.NewPublicKey(&pt.X, &pt.Y).SerializeCompressed()
	kid := func(i uint32) secp256k1.ModNScalar {
		var ib [4]byte
		binary.BigEndian.PutUint32(ib[:], i)
		mac := hmac.New(sha512.New, cp.cc[:])
		mac.Write(append(append([]byte{}, ser...), ib[:]...))
		I := mac.Sum(nil)
		var k secp256k1.ModNScalar
		k.SetByteSlice(I[:32])
		k.Add(&cp.k)
		return k
	}
	s0, r := kid(0), kid(1)
	sb := s0.Bytes()
	secret = hex.EncodeToString(sb[:])
	yp := hashToCurveSpec([]byte(secret))
	Y = hex.EncodeToString(yp.SerializeCompressed())
	var yj, rj, bj secp256k1.JacobianPoint
	yp.AsJacobian(&yj)
	secp256k1.ScalarBaseMultNonConst(&r, &rj)
	secp256k1.AddNonConst(&yj, &rj, &bj)
	bj.ToAffine()
	B = hex.EncodeToString(secp256k1.NewPublicKey(&bj.X, &bj.Y).SerializeCompressed())
	return
}
