package main

// Lean bookkeeping model stepped alongside the real wallets (books.* driver commands).

type booksModel struct{}

func newBooksModel(hw *histWorld) *booksModel { return &booksModel{} }

func (bm *booksModel) resync(hw *histWorld, why string)                                {}
func (bm *booksModel) mint(hw *histWorld, w *bWallet, m *bMint, amt uint64, err error) {}
func (bm *booksModel) send(hw *histWorld, w *bWallet, m *bMint, amt uint64, fees bool, t *bToken, err error) {
}
func (bm *booksModel) sendLocked(hw *histWorld, w *bWallet, m *bMint, amt uint64, fees bool, t *bToken, err error) {
}
func (bm *booksModel) receive(hw *histWorld, w *bWallet, t *bToken, swapToTrusted, strip bool, outcome string, got uint64, err error) {
}
func (bm *booksModel) melt(hw *histWorld, w *bWallet, m *bMint, amt uint64, quote, outcome, state string, err error) {
}
func (bm *booksModel) checkMelt(hw *histWorld, w *bWallet, m *bMint, quote, res, state string, err error) {
}
func (bm *booksModel) reclaim(hw *histWorld, w *bWallet, res string, got uint64, err error) {}
func (bm *booksModel) removeSpent(hw *histWorld, w *bWallet, res string, err error)         {}
func (bm *booksModel) mintSwap(hw *histWorld, w *bWallet, from, to *bMint, amt uint64, outcome string, got uint64, err error) {
}
func (bm *booksModel) rotate(hw *histWorld, m *bMint, fee uint) {}
func (bm *booksModel) reopen(hw *histWorld, w *bWallet)         {}
func (bm *booksModel) adopt(hw *histWorld, old, nw *bWallet)    {}
