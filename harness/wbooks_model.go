package main

// The Lean bookkeeping model (Gonuts/Model/WalletBooks.lean, driver commands books.*) stepped alongside the
// real wallets: after every operation the outcome, the acting wallet's snapshot (balance, pending balance,
// amount multiset per keyset of both buckets, stored counters) and the sequence of storage / client calls
// are compared with the model's.

import (
	"encoding/json"
	"fmt"
	"os"
	"sort"
	"strings"

	"github.com/elnosh/gonuts/cashu"
)

type booksModel struct {
	on      bool
	mintQ   map[string]uint64 // real mint quote id -> model id
	meltQ   map[string]uint64
	tok     map[int]int // harness token id -> model token id
	nTok    int
	lost    bool // model and implementation diverged: comparison stopped for this history
	lostWhy string
	// crash mode: the model's wallet dies before call number crashBudget of the operation (counted over its
	// sub-operations); died is set when it did
	crashBudget int
	died        bool
	crashTrace  []string
}

func newBooksModel(hw *histWorld) *booksModel {
	bm := &booksModel{on: true, mintQ: map[string]uint64{}, meltQ: map[string]uint64{}, tok: map[int]int{}, crashBudget: -1}
	b := hw.b
	fees := make([]uint64, len(b.mints))
	for i, m := range b.mints {
		fees[i] = uint64(m.env.Opts.FeePpk)
	}
	ws := make([]Sx, len(b.wallets))
	for i, w := range b.wallets {
		ws[i] = L(I(w.seed), I(w.home))
	}
	ans := hw.c.Drv.Ask(L(A("books.init"), Ns(fees), Ls(ws)))
	if ans != "(ok)" {
		bm.lose(hw, "init", ans)
	}
	return bm
}

func (bm *booksModel) lose(hw *histWorld, op, why string) {
	if !bm.lost {
		bm.lost = true
		bm.lostWhy = op + ": " + why
		hw.c.Hist("model", "comparison-stopped")
	}
}

// mw: the model's index of a wallet (a restored wallet takes over the index of the one it replaces).
func (hw *histWorld) mw(w *bWallet) int {
	if a, ok := hw.alias[w.idx]; ok {
		return a
	}
	return w.idx
}

// ks maps a real keyset id to the model's id: 100·mint + derivation index.
func (hw *histWorld) ks(id string) int {
	for _, m := range hw.b.mints {
		if j, ok := m.env.ksIdx[id]; ok {
			return 100*m.idx + j
		}
	}
	return 999999
}

func (hw *histWorld) sid(secret string) (Sx, bool) {
	ref, ok := hw.b.bySecret[secret]
	if !ok {
		return nil, false
	}
	return L(A("d"), I(ref.seed), I(hw.ks(ref.ks)), I(int(ref.counter))), true
}

func (hw *histWorld) chosen(ps cashu.Proofs) Sx {
	var out []Sx
	b := hw.b
	for _, p := range ps {
		if _, ok := b.bySecret[p.Secret]; !ok && b.opW >= 0 && b.opW < len(b.wallets) {
			// not derived yet: the acting wallet's outputs of this keyset, up to well past its counter
			seed := b.wallets[b.opW].seed
			b.derive(seed, p.Id, b.seeds[seed].maxCtr[p.Id]+128)
		}
		if s, ok := hw.sid(p.Secret); ok {
			out = append(out, s)
		}
	}
	return Ls(out)
}

// selectionThisOp: the proofs the wallet selected in the current operation, in selection order: the inputs of
// its first swap if it swapped, else the inputs of its first melt, else the fallback (returned proofs).
func (hw *histWorld) selectionThisOp(fallback cashu.Proofs) Sx {
	b := hw.b
	b.net.mu.Lock()
	log := b.net.Log[b.logPos:]
	b.net.mu.Unlock()
	for _, path := range []string{"/v1/swap", "/v1/melt/bolt11"} {
		for _, r := range log {
			if r.Method == "POST" && r.Path == path {
				var req wireOutputs
				if json.Unmarshal(r.Body, &req) == nil {
					return hw.chosen(req.Inputs)
				}
			}
		}
	}
	return hw.chosen(fallback)
}

func bucketSx(hw *histWorld, byKs map[string][]uint64) Sx {
	type kv struct {
		k int
		v []uint64
	}
	var rows []kv
	for name, amts := range byKs {
		rows = append(rows, kv{hw.ksByName(name), amts})
	}
	sort.Slice(rows, func(i, j int) bool { return rows[i].k < rows[j].k })
	out := make([]Sx, len(rows))
	for i, r := range rows {
		xs := []Sx{I(r.k)}
		for _, a := range r.v {
			xs = append(xs, N(a))
		}
		out[i] = Ls(xs)
	}
	return Ls(out)
}

func (hw *histWorld) ksByName(name string) int {
	var mi, j int
	if _, err := fmt.Sscanf(name, "m%dk%d", &mi, &j); err == nil {
		return 100*mi + j
	}
	return 999999
}

// realSnap renders the wallet's state the way the driver renders the model's.
func (hw *histWorld) realSnap(w *bWallet) string {
	s := hw.b.snap(w)
	type kc struct {
		k int
		c uint32
	}
	var cs []kc
	for name, c := range s.counters {
		cs = append(cs, kc{hw.ksByName(name), c})
	}
	sort.Slice(cs, func(i, j int) bool { return cs[i].k < cs[j].k })
	cx := make([]Sx, len(cs))
	for i, c := range cs {
		cx[i] = L(I(c.k), N(uint64(c.c)))
	}
	var bal, pend uint64
	for _, p := range s.spendSecrets {
		bal += p.Amount
	}
	for _, p := range s.pendSecrets {
		pend += p.Amount
	}
	return Render(L(N(bal), N(pend), bucketSx(hw, s.spend), bucketSx(hw, s.pend), Ls(cx)))
}

type modelAns struct {
	raw    string
	res    string // "(ok n)" / "(err …)"
	ok     bool
	val    uint64
	snap   string
	trace  []string
	tokens int
}

// parseAns splits "(RES SNAP (trace…) ntokens)" at top level.
func parseAns(raw string) (modelAns, bool) {
	ma := modelAns{raw: raw}
	if len(raw) < 2 || raw[0] != '(' {
		return ma, false
	}
	var parts []string
	depth, start := 0, -1
	inStr := false
	body := raw[1 : len(raw)-1]
	for i := 0; i < len(body); i++ {
		c := body[i]
		if inStr {
			if c == '\\' {
				i++
			} else if c == '"' {
				inStr = false
			}
			continue
		}
		switch c {
		case '"':
			inStr = true
			if depth == 0 && start < 0 {
				start = i
			}
		case '(':
			if depth == 0 && start < 0 {
				start = i
			}
			depth++
		case ')':
			depth--
			if depth == 0 {
				parts = append(parts, body[start:i+1])
				start = -1
			}
		case ' ':
			if depth == 0 && start >= 0 {
				parts = append(parts, body[start:i])
				start = -1
			}
		default:
			if depth == 0 && start < 0 {
				start = i
			}
		}
	}
	if start >= 0 {
		parts = append(parts, body[start:])
	}
	if len(parts) != 4 {
		return ma, false
	}
	ma.res, ma.snap = parts[0], parts[1]
	ma.ok = strings.HasPrefix(ma.res, "(ok")
	if ma.ok {
		fmt.Sscanf(ma.res, "(ok %d)", &ma.val)
	}
	tr := strings.Trim(parts[2], "()")
	if tr != "" {
		ma.trace = strings.Fields(tr)
	}
	fmt.Sscanf(parts[3], "%d", &ma.tokens)
	return ma, true
}

func isWalletOp(op Sx) bool {
	r := Render(op)
	return !strings.HasPrefix(r, "(settle ") && !strings.HasPrefix(r, "(rotate ")
}

// armCrash: the next operation's wallet dies before its call number k.
func (bm *booksModel) armCrash(k int) {
	bm.crashBudget, bm.died, bm.crashTrace = k, false, nil
}

func (bm *booksModel) disarm() { bm.crashBudget, bm.died = -1, false }

func (bm *booksModel) ask(hw *histWorld, op Sx) (modelAns, bool) {
	if bm.died {
		return modelAns{}, false
	}
	cmd := L(A("books.op"), op)
	dying := false
	if bm.crashBudget >= 0 && isWalletOp(op) {
		var n int
		fmt.Sscanf(hw.c.Drv.Ask(L(A("books.calls"), op)), "%d", &n)
		if bm.crashBudget >= n {
			bm.crashBudget -= n
		} else {
			cmd = L(A("books.crash"), op, I(bm.crashBudget))
			dying = true
		}
	}
	raw := hw.c.Drv.Ask(cmd)
	if os.Getenv("WB_DEBUG") != "" {
		fmt.Println("MODEL", Render(cmd), "=>", raw)
	}
	ma, ok := parseAns(raw)
	if !ok {
		bm.lose(hw, Render(op), raw)
		hw.c.Disagree([]string{"C17", "C19", "C18"}, Render(op), "", raw, hw.b.replay())
		return ma, false
	}
	bm.nTok = ma.tokens
	if bm.crashBudget >= 0 || dying {
		bm.crashTrace = append(bm.crashTrace, ma.trace...)
	}
	if dying {
		if ma.res == "(died)" {
			bm.died = true
			return ma, false
		}
		// the operation ended before the budget was used up
		bm.crashBudget = -1
	}
	return ma, true
}

func sameMultiset(a, b []string) bool {
	if len(a) != len(b) {
		return false
	}
	x := append([]string(nil), a...)
	y := append([]string(nil), b...)
	sort.Strings(x)
	sort.Strings(y)
	for i := range x {
		if x[i] != y[i] {
			return false
		}
	}
	return true
}

func onlyClient(tr []string) []string {
	var out []string
	for _, t := range tr {
		if strings.HasPrefix(t, "client.") {
			out = append(out, t)
		}
	}
	return out
}

// compare checks outcome class (+ value when given), snapshot and call trace against the model's answer.
func (bm *booksModel) compare(hw *histWorld, opLine string, w *bWallet, ma modelAns, realErr error, realVal uint64, cmpVal bool, trace []string, traceMode string) {
	implRes := "err"
	if realErr == nil {
		implRes = "ok"
		if cmpVal {
			implRes = fmt.Sprintf("ok %d", realVal)
		}
	}
	modelRes := "err"
	if ma.ok {
		modelRes = "ok"
		if cmpVal {
			modelRes = fmt.Sprintf("ok %d", ma.val)
		}
	}
	rs := hw.realSnap(w)
	implTrace, modelTrace := trace, ma.trace
	if traceMode == "client" {
		implTrace, modelTrace = onlyClient(implTrace), onlyClient(modelTrace)
	}
	traceOk := strings.Join(implTrace, " ") == strings.Join(modelTrace, " ")
	if !traceOk && traceMode == "multiset" {
		traceOk = sameMultiset(implTrace, modelTrace)
	}
	if traceMode == "none" {
		traceOk = true
	}
	if (implRes != modelRes || rs != ma.snap || !traceOk) && hw.b.tieBlind {
		// not a disagreement: the model cannot know which of several equal-amount proofs with different fees the
		// implementation's unobserved first selection took (the model-free monitors still judge the operation)
		hw.c.Hist("model", "not comparable: tie between equal amounts in keysets with different fees")
		bm.lose(hw, opLine, "tie between equal amounts in keysets with different fees")
		return
	}
	if implRes != modelRes || rs != ma.snap || !traceOk {
		errs := ""
		if realErr != nil {
			errs = " err=" + realErr.Error()
		}
		impl := fmt.Sprintf("(%s) %s [%s]%s", implRes, rs, strings.Join(implTrace, " "), errs)
		model := fmt.Sprintf("(%s) %s [%s] %s", modelRes, ma.snap, strings.Join(modelTrace, " "), ma.res)
		hw.c.Disagree([]string{"C17", "C19", "C18"}, opLine, impl, model, hw.b.replay())
		hw.c.Hist("model", "disagree")
		bm.lose(hw, opLine, "disagreement")
		return
	}
	hw.c.Hist("model", "agree")
}

func lnSx(script []string) Sx {
	out := make([]Sx, len(script))
	for i, s := range script {
		switch s {
		case "succ":
			out[i] = A("succ")
		case "pending":
			out[i] = A("pending")
		case "failed":
			out[i] = A("failed")
		case "notfound":
			out[i] = A("notfound")
		default:
			out[i] = A("err")
		}
	}
	return Ls(out)
}

func (bm *booksModel) active(hw *histWorld) bool { return bm != nil && bm.on && !bm.lost }

func (bm *booksModel) resync(hw *histWorld, why string) {
	if bm.active(hw) {
		bm.lose(hw, "resync", why)
	}
}

func (bm *booksModel) mint(hw *histWorld, w *bWallet, m *bMint, amt uint64, err error) {
	if !bm.active(hw) {
		return
	}
	line := fmt.Sprintf("mint w%d m%d %d", w.idx, m.idx, amt)
	a1, ok := bm.ask(hw, L(A("mintreq"), I(hw.mw(w)), I(m.idx), N(amt)))
	if !ok {
		return
	}
	if !a1.ok {
		bm.compare(hw, line, w, a1, err, 0, false, hw.b.lastTrace, "exact")
		return
	}
	bm.ask(hw, L(A("settle"), I(m.idx), N(a1.val)))
	a2, ok := bm.ask(hw, L(A("minttokens"), I(hw.mw(w)), N(a1.val)))
	if !ok {
		return
	}
	a2.trace = append(append([]string(nil), a1.trace...), a2.trace...)
	var got uint64
	if err == nil {
		got = amt
	}
	bm.compare(hw, line, w, a2, err, got, err == nil, hw.b.lastTrace, "exact")
}

func (bm *booksModel) noteToken(hw *histWorld, t *bToken, before int) {
	if t != nil && bm.nTok == before+1 {
		bm.tok[t.id] = before
	}
}

func (bm *booksModel) send(hw *histWorld, w *bWallet, m *bMint, amt uint64, fees bool, t *bToken, err error) {
	if !bm.active(hw) {
		return
	}
	var ps cashu.Proofs
	if t != nil {
		ps = t.proofs
	}
	before := bm.nTok
	op := L(A("send"), I(hw.mw(w)), I(m.idx), N(amt), B(fees), hw.selectionThisOp(ps))
	ma, ok := bm.ask(hw, op)
	if !ok {
		return
	}
	bm.noteToken(hw, t, before)
	bm.compare(hw, Render(op), w, ma, err, ps.Amount(), err == nil, hw.b.lastTrace, "exact")
}

func (bm *booksModel) sendLocked(hw *histWorld, w *bWallet, m *bMint, amt uint64, fees bool, t *bToken, err error) {
	if !bm.active(hw) {
		return
	}
	// the owner and the flag come from the operation line recorded by the stream
	owner, sigAll := hw.lockOwner, hw.lockSigAll
	var ps cashu.Proofs
	if t != nil {
		ps = t.proofs
	}
	before := bm.nTok
	op := L(A("sendlocked"), I(hw.mw(w)), I(m.idx), N(amt), I(owner), B(sigAll), B(fees), hw.selectionThisOp(nil))
	ma, ok := bm.ask(hw, op)
	if !ok {
		return
	}
	bm.noteToken(hw, t, before)
	bm.compare(hw, Render(op), w, ma, err, ps.Amount(), err == nil, hw.b.lastTrace, "exact")
}

func (bm *booksModel) receive(hw *histWorld, w *bWallet, t *bToken, swapToTrusted, strip bool, outcome string, got uint64, err error) {
	if !bm.active(hw) {
		return
	}
	mt, ok := bm.tok[t.id]
	if !ok {
		bm.lose(hw, "receive", "token unknown to the model")
		return
	}
	op := L(A("receive"), I(hw.mw(w)), I(mt), B(swapToTrusted), B(strip), lnSx(meltScript(outcome)))
	ma, ok := bm.ask(hw, op)
	if !ok {
		return
	}
	bm.compare(hw, Render(op), w, ma, err, got, err == nil, hw.b.lastTrace, "exact")
}

func stateCode(st string) uint64 {
	switch st {
	case "UNPAID":
		return 0
	case "PENDING":
		return 1
	case "PAID":
		return 2
	}
	return 99
}

func (bm *booksModel) melt(hw *histWorld, w *bWallet, m *bMint, amt uint64, quote, outcome, state string, err error) {
	if !bm.active(hw) {
		return
	}
	q, ok := bm.ask(hw, L(A("meltquote"), I(hw.mw(w)), I(m.idx), N(amt)))
	if !ok {
		return
	}
	if !q.ok {
		bm.lose(hw, "meltquote", q.res)
		return
	}
	bm.meltQ[quote] = q.val
	op := L(A("melt"), I(hw.mw(w)), N(q.val), lnSx(meltScript(outcome)), hw.selectionThisOp(nil))
	ma, ok := bm.ask(hw, op)
	if !ok {
		return
	}
	ma.trace = append(append([]string(nil), q.trace...), ma.trace...)
	bm.compare(hw, Render(op), w, ma, err, stateCode(state), err == nil, hw.b.lastTrace, "exact")
}

// meltAgain: Melt of a quote the model already knows (a retry).
func (bm *booksModel) meltAgain(hw *histWorld, w *bWallet, m *bMint, quote, outcome, state string, err error) {
	if !bm.active(hw) {
		return
	}
	q, ok := bm.meltQ[quote]
	if !ok {
		bm.lose(hw, "melt-again", "quote unknown to the model")
		return
	}
	op := L(A("melt"), I(hw.mw(w)), N(q), lnSx(meltScript(outcome)), hw.selectionThisOp(nil))
	ma, ok := bm.ask(hw, op)
	if !ok {
		return
	}
	bm.compare(hw, Render(op), w, ma, err, stateCode(state), err == nil, hw.b.lastTrace, "exact")
}

func (bm *booksModel) checkMelt(hw *histWorld, w *bWallet, m *bMint, quote, res, state string, err error) {
	if !bm.active(hw) {
		return
	}
	q, ok := bm.meltQ[quote]
	if !ok {
		bm.lose(hw, "checkmelt", "quote unknown to the model")
		return
	}
	op := L(A("checkmelt"), I(hw.mw(w)), N(q), lnSx([]string{res}))
	ma, ok := bm.ask(hw, op)
	if !ok {
		return
	}
	bm.compare(hw, Render(op), w, ma, err, stateCode(state), err == nil, hw.b.lastTrace, "exact")
}

func (bm *booksModel) reclaim(hw *histWorld, w *bWallet, res string, got uint64, err error) {
	if !bm.active(hw) {
		return
	}
	if err != nil && len(hw.b.mints) > 1 {
		// the Go iterates a map of mints and returns at the first error: which mints were already processed is not
		// determined by the request; the model (fixed order) is not comparable for the rest of this history
		bm.resync(hw, "reclaim: error exit of a loop over a Go map of mints")
		return
	}
	op := L(A("reclaim"), I(hw.mw(w)), lnSx([]string{res, res, res, res, res, res}))
	ma, ok := bm.ask(hw, op)
	if !ok {
		return
	}
	// with two mints the order of the groups (a Go map) and hence which amount is returned is not determined
	bm.compare(hw, Render(op), w, ma, err, got, err == nil && len(hw.b.mints) == 1, hw.b.lastTrace, "multiset")
}

func (bm *booksModel) removeSpent(hw *histWorld, w *bWallet, res string, err error) {
	if !bm.active(hw) {
		return
	}
	if err != nil && len(hw.b.mints) > 1 {
		bm.resync(hw, "removespent: error exit of a loop over a Go map of mints")
		return
	}
	op := L(A("removespent"), I(hw.mw(w)), lnSx([]string{res, res, res, res, res, res}))
	ma, ok := bm.ask(hw, op)
	if !ok {
		return
	}
	bm.compare(hw, Render(op), w, ma, err, 0, false, hw.b.lastTrace, "multiset")
}

func (bm *booksModel) mintSwap(hw *histWorld, w *bWallet, from, to *bMint, amt uint64, outcome string, got uint64, err error) {
	if !bm.active(hw) {
		return
	}
	op := L(A("mintswap"), I(hw.mw(w)), N(amt), I(from.idx), I(to.idx), lnSx(meltScript(outcome)), hw.selectionThisOp(nil))
	ma, ok := bm.ask(hw, op)
	if !ok {
		return
	}
	bm.compare(hw, Render(op), w, ma, err, got, err == nil, hw.b.lastTrace, "exact")
}

func (bm *booksModel) rotate(hw *histWorld, m *bMint, fee uint) {
	if !bm.active(hw) {
		return
	}
	newKs := 100*m.idx + m.env.ksIdx[m.env.ActiveKeysetId()]
	bm.ask(hw, L(A("rotate"), I(m.idx), I(newKs), N(uint64(fee))))
}

func (bm *booksModel) reopen(hw *histWorld, w *bWallet) {
	if !bm.active(hw) {
		return
	}
	op := L(A("reopen"), I(hw.mw(w)))
	ma, ok := bm.ask(hw, op)
	if !ok {
		return
	}
	bm.compare(hw, Render(op), w, ma, nil, 0, false, hw.b.trace, "client")
}

func (bm *booksModel) addMint(hw *histWorld, w *bWallet, m *bMint) {
	if !bm.active(hw) {
		return
	}
	op := L(A("addmint"), I(hw.mw(w)), I(m.idx))
	ma, ok := bm.ask(hw, op)
	if !ok {
		return
	}
	bm.compare(hw, Render(op), w, ma, nil, 0, false, hw.b.lastTrace, "none")
}

// adopt: the restored directory replaces the wallet: the model restores into an empty store and loads it.
func (bm *booksModel) adopt(hw *histWorld, old, nw *bWallet) {
	if !bm.active(hw) {
		return
	}
	// the model keeps wallet indices: the restored wallet takes the index of the retired one
	ms := make([]uint64, len(hw.b.mints))
	for i := range ms {
		ms[i] = uint64(i)
	}
	op := L(A("restore"), I(hw.mw(old)), Ns(ms))
	ma, ok := bm.ask(hw, op)
	if !ok {
		return
	}
	hw.alias[nw.idx] = hw.mw(old)
	bm.compare(hw, Render(op), nw, ma, nil, 0, false, nil, "none")
}
