package main

// Stream "spendwallet" (C12, C13): the honest-holder path end to end — a REAL wallet locks ecash (SendToPubkey /
// HTLCLockedProofs), another REAL wallet receives it (Receive / ReceiveHTLC, i.e. the signing helpers in the order the
// wallet uses them), against a REAL mint served in-process (http.DefaultTransport -> MintServer.VerifHandler).
// Model-free: the monitor states what NUT-11/14 say the outcome must be.

import (
	"encoding/hex"
	"fmt"
	"net/http"
	"net/http/httptest"
	"path/filepath"
	"strings"
	"time"

	"github.com/btcsuite/btcd/btcec/v2"
	"github.com/elnosh/gonuts/cashu"
	"github.com/elnosh/gonuts/cashu/nuts/nut11"
	"github.com/elnosh/gonuts/mint"
	"github.com/elnosh/gonuts/mint/lightning"
	"github.com/elnosh/gonuts/wallet"
)

func init() {
	register("spendwallet", []string{"C12", "C13"},
		"real wallet -> real mint (in-process HTTP) -> real wallet: SendToPubkey/Receive and HTLCLockedProofs/ReceiveHTLC over lock configurations "+
			"{no tags, n_sigs 1 listed/unlisted, SIG_ALL listed/unlisted/no keys, threshold 2, expired locktime with/without refund} x {right, wrong preimage} x {intended, foreign receiver}; "+
			"class = (lock kind, configuration, receiver, preimage, outcome); monitor = the outcome NUT-11/14 prescribe for an honest single-key holder",
		runSpendWallet)
}

type handlerTransport struct{ h http.Handler }

func (t handlerTransport) RoundTrip(req *http.Request) (*http.Response, error) {
	rec := httptest.NewRecorder()
	t.h.ServeHTTP(rec, req)
	return rec.Result(), nil
}

func runSpendWallet(c *Ctx) {
	props := []string{"C12", "C13"}
	fb := &lightning.FakeBackend{}
	m, err := mint.LoadMint(mint.Config{MintPath: filepath.Join(c.Scratch, "mint"), LightningClient: fb, LogLevel: mint.Disable})
	if err != nil {
		c.Disagree(props, "LoadMint", err.Error(), "", nil)
		return
	}
	ms := mint.SetupMintServer(m, mint.ServerConfig{Port: 0})
	oldTransport := http.DefaultTransport
	http.DefaultTransport = handlerTransport{ms.VerifHandler()}
	defer func() { http.DefaultTransport = oldTransport }()
	const url = "http://mint.verif"
	load := func(name string) *wallet.Wallet {
		w, err := wallet.LoadWallet(wallet.Config{WalletPath: filepath.Join(c.Scratch, name), CurrentMintURL: url})
		if err != nil {
			panic("LoadWallet " + name + ": " + err.Error())
		}
		return w
	}
	sender, recv, other := load("sender"), load("receiver"), load("other")
	defer sender.Shutdown()
	defer recv.Shutdown()
	defer other.Shutdown()
	// fund the sender
	q, err := sender.RequestMint(4096, url)
	if err != nil {
		c.Disagree(props, "RequestMint", err.Error(), "", nil)
		return
	}
	for try := 0; ; try++ {
		if _, err = sender.MintTokens(q.Quote); err == nil || try > 50 {
			break
		}
		time.Sleep(20 * time.Millisecond)
	}
	if err != nil {
		c.Disagree(props, "wallet.MintTokens", err.Error(), "", nil)
		return
	}
	rk, ok := recv.GetReceivePubkey(), other.GetReceivePubkey()
	now := time.Now().Unix()
	pre := hex.EncodeToString(c.Rng.Bytes(16))
	wrong := hex.EncodeToString(c.Rng.Bytes(16))

	type lockCfg struct {
		label string
		tags  *nut11.P2PKTags
		// can the holder of ONE key `receiver` (true = intended receiver, false = the foreign wallet) spend, given a right preimage / lock key match?
		intendedOK, foreignOK bool
		// the mint would accept anyone, but the wallet-side helper may refuse to build a witness for a key that is not
		// listed: either outcome is fine for the foreign receiver
		foreignAny bool
	}
	pk := func(ks ...*btcec.PublicKey) []*btcec.PublicKey { return ks }
	// ---- HTLC
	htlcCfgs := []lockCfg{
		{"no-tags", nil, true, true, false},
		{"nsigs1-listed", &nut11.P2PKTags{NSigs: 1, Pubkeys: pk(rk)}, true, false, false},
		{"nsigs1-two-listed", &nut11.P2PKTags{NSigs: 1, Pubkeys: pk(ok, rk)}, true, true, false},
		{"sigall-nsigs1-listed", &nut11.P2PKTags{Sigflag: nut11.SIGALL, NSigs: 1, Pubkeys: pk(rk)}, true, false, false},
		{"sigall-nsigs1-two-listed", &nut11.P2PKTags{Sigflag: nut11.SIGALL, NSigs: 1, Pubkeys: pk(rk, ok)}, true, true, false},
		{"sigall-no-keys", &nut11.P2PKTags{Sigflag: nut11.SIGALL}, false, false, false}, // threshold 1 over an empty key list: never satisfiable
		{"nsigs2-two-listed", &nut11.P2PKTags{NSigs: 2, Pubkeys: pk(rk, ok)}, false, false, false},
		{"expired-no-refund", &nut11.P2PKTags{NSigs: 1, Pubkeys: pk(rk), Locktime: now - 1000000}, true, true, true},
	}
	for _, cfg := range htlcCfgs {
		for _, pv := range []struct {
			label string
			p     string
			right bool
		}{{"right", pre, true}, {"wrong", wrong, false}} {
			for _, rc := range []struct {
				label    string
				w        *wallet.Wallet
				intended bool
			}{{"intended", recv, true}, {"foreign", other, false}} {
				locked, err := sender.HTLCLockedProofs(8, url, pre, cfg.tags, false)
				if err != nil {
					c.Disagree(props, "HTLCLockedProofs "+cfg.label, err.Error(), "", nil)
					continue
				}
				tok, err := cashu.NewTokenV4(locked, url, cashu.Sat, false)
				if err != nil {
					c.Disagree(props, "NewTokenV4", err.Error(), "", nil)
					continue
				}
				var got uint64
				out := func() (o string) {
					defer func() {
						if r := recover(); r != nil {
							o = fmt.Sprintf("panic: %v", r)
						}
					}()
					var err error
					got, err = rc.w.ReceiveHTLC(tok, pv.p)
					if err != nil {
						return "error: " + err.Error()
					}
					return "ok"
				}()
				want := cfg.intendedOK
				if !rc.intended {
					want = cfg.foreignOK
				}
				expired := cfg.tags != nil && cfg.tags.Locktime > 0
				if !pv.right && !expired {
					want = false
				}
				short := out
				if i := strings.LastIndex(out, ": "); i >= 0 && out != "ok" {
					short = "rejected: " + out[i+2:]
				}
				c.Case("htlc/"+cfg.label+"/"+rc.label+"/"+pv.label+"/"+short, true)
				c.Hist("ReceiveHTLC", cfg.label+"/"+rc.label+"/pre="+pv.label+" -> "+short)
				c.Sample(map[string]any{"lock": "HTLC " + cfg.label, "receiver": rc.label, "preimage": pv.label, "outcome": out})
				replay := map[string]any{"lock": cfg.label, "receiver": rc.label, "preimage": pv.label, "secret0": locked[0].Secret, "outcome": out}
				if !rc.intended && cfg.foreignAny {
					continue
				}
				if want && out != "ok" {
					sig := "C13/wallet.ReceiveHTLC/rejected"
					if strings.HasPrefix(cfg.label, "sigall") && strings.Contains(out, nut11.NotEnoughSignaturesErr.Detail) {
						sig = "C13/AddWitnessHTLCToOutputs/hex-text"
					}
					c.MonitorFail("C13", sig, "ReceiveHTLC by an entitled holder failed ("+cfg.label+", "+rc.label+", preimage "+pv.label+"): "+out, replay)
				}
				if !want && out == "ok" {
					c.MonitorFail("C13", "C13/wallet.ReceiveHTLC/accepted", "ReceiveHTLC succeeded although NUT-14 does not allow it ("+cfg.label+", "+rc.label+", preimage "+pv.label+")", replay)
				}
				if out == "ok" && got != locked.Amount() {
					c.MonitorFail("C13", "C13/wallet.ReceiveHTLC/amount", fmt.Sprintf("received %d of %d", got, locked.Amount()), replay)
				}
			}
		}
	}
	// ---- P2PK
	p2pkCfgs := []lockCfg{
		{"no-tags", nil, true, false, false},
		{"sigall", &nut11.P2PKTags{Sigflag: nut11.SIGALL}, true, false, false},
		{"nsigs1-cosigner", &nut11.P2PKTags{NSigs: 1, Pubkeys: pk(ok)}, true, false, false}, // Receive signs only if the wallet holds the LOCK key
		{"sigall-nsigs1-cosigner", &nut11.P2PKTags{Sigflag: nut11.SIGALL, NSigs: 1, Pubkeys: pk(ok)}, true, false, false},
		{"nsigs2-cosigner", &nut11.P2PKTags{NSigs: 2, Pubkeys: pk(ok)}, false, false, false},
		{"expired-no-refund", &nut11.P2PKTags{Locktime: now - 1000000}, true, true, true},
		{"expired-refund-other", &nut11.P2PKTags{Locktime: now - 1000000, Refund: pk(ok)}, false, false, false}, // only the refund key; Receive signs with it only if it is the lock key
		{"future-locktime-refund-other", &nut11.P2PKTags{Locktime: now + 1000000, Refund: pk(ok)}, true, false, false},
	}
	for _, cfg := range p2pkCfgs {
		for _, rc := range []struct {
			label    string
			w        *wallet.Wallet
			intended bool
		}{{"intended", recv, true}, {"foreign", other, false}} {
			locked, err := sender.SendToPubkey(8, url, rk, cfg.tags, false)
			if err != nil {
				c.Disagree(props, "SendToPubkey "+cfg.label, err.Error(), "", nil)
				continue
			}
			tok, err := cashu.NewTokenV4(locked, url, cashu.Sat, false)
			if err != nil {
				c.Disagree(props, "NewTokenV4", err.Error(), "", nil)
				continue
			}
			var got uint64
			out := func() (o string) {
				defer func() {
					if r := recover(); r != nil {
						o = fmt.Sprintf("panic: %v", r)
					}
				}()
				var err error
				got, err = rc.w.Receive(tok, false)
				if err != nil {
					return "error: " + err.Error()
				}
				return "ok"
			}()
			want := cfg.intendedOK
			if !rc.intended {
				want = cfg.foreignOK
			}
			short := out
			if i := strings.LastIndex(out, ": "); i >= 0 && out != "ok" {
				short = "rejected: " + out[i+2:]
			}
			c.Case("p2pk/"+cfg.label+"/"+rc.label+"/"+short, true)
			c.Hist("Receive", cfg.label+"/"+rc.label+" -> "+short)
			c.Sample(map[string]any{"lock": "P2PK " + cfg.label, "receiver": rc.label, "outcome": out})
			replay := map[string]any{"lock": cfg.label, "receiver": rc.label, "secret0": locked[0].Secret, "outcome": out}
			if !rc.intended && cfg.foreignAny {
				continue
			}
			if want && out != "ok" {
				c.MonitorFail("C12", "C12/wallet.Receive/rejected", "Receive by the holder of the lock key failed ("+cfg.label+", "+rc.label+"): "+out, replay)
			}
			if !want && out == "ok" {
				c.MonitorFail("C12", "C12/wallet.Receive/accepted", "Receive succeeded although NUT-11 does not allow it ("+cfg.label+", "+rc.label+")", replay)
			}
			if out == "ok" && got != locked.Amount() {
				c.MonitorFail("C12", "C12/wallet.Receive/amount", fmt.Sprintf("received %d of %d", got, locked.Amount()), replay)
			}
		}
	}
}
