module gonutsverif/extract

go 1.23
